#!/usr/bin/env python3
"""process_mut.py <out-dir> <PID> [<PID2> ...]: for each m<i> under <out-dir>: apply patch.diff to /tmp/try-repo (reset to /repo HEAD),
run the pinned suite, the check(s) of the given property ids (first id = owner), confirm the demo (fails with patch, passes clean),
and record the change under seeded/<PID>-r2m<i>/ with the measured results.  Prints one summary line per mutation."""
import glob, json, os, re, shutil, subprocess, sys
V = os.path.dirname(os.path.dirname(os.path.abspath(__file__)))
R = os.environ.get("MUT_REPO", "/tmp/try-repo")
env = dict(os.environ, GOFLAGS="-mod=mod", GOPROXY="off", GOSUMDB="off", GOTOOLCHAIN="local")
def sh(cmd, cwd=None, timeout=3000, e=None):
    p = subprocess.run(cmd, shell=True, cwd=cwd, env=e or env, stdout=subprocess.PIPE, stderr=subprocess.STDOUT, timeout=timeout)
    return p.returncode, p.stdout.decode("utf-8", "replace")
out, pids = sys.argv[1], sys.argv[2:]
head = sh("git -C /repo rev-parse HEAD")[1].strip()
sh("git checkout -q --detach %s; git checkout -- .; git clean -fdq" % head, cwd=R)
tag = os.environ.get("MUT_TAG", "r2")
rnd = int(tag[1:]) if tag[1:].isdigit() else 2
for d in sorted(glob.glob(os.path.join(out, "m*"))):
    if not os.path.isdir(d): continue
    i = os.path.basename(d)
    name = "%s-%s%s" % (pids[0], tag, i)
    sh("git checkout -- .; git clean -fdq", cwd=R)
    rc, o = sh("git apply %s/patch.diff" % d, cwd=R)
    if rc != 0:
        print("%s: patch does not apply: %s" % (name, o[:200])); continue
    pinned = sh("python3 %s/tools/basecheck.py %s" % (V, R))[1].strip().splitlines()[-1]
    results = {}
    for pid in pids:
        e2 = dict(env, VERIF_REPO=R)
        rc, o = sh("python3 tools/check.py %s" % pid, cwd=V, e=e2, timeout=3000)
        m = re.findall(r"^(VIOLATION.*|\[check.*OK:.*)$", o, flags=re.M)
        results[pid] = (m[0] if m else "no verdict line")[:160]
    # demos
    demos = []
    for f in glob.glob(os.path.join(d, "*_test.go")):
        line = " ".join(open(f, errors="replace").read().splitlines()[:4])
        mm = re.findall(r"\./([a-z0-9_/]+)", line)
        pkg = (mm[-1] if mm else (re.findall(r"(datatype/[a-z/]+|datastore|server|storage/[a-z]+|storage|dvid)", line) or ["?"])[0]).rstrip("/")
        tags = ""
        if "verif" in line: tags = "-tags=badger,verif"
        elif "badger" in line: tags = "-tags badger"
        names = "|".join(re.findall(r"^func (Test\w+)", open(f, errors="replace").read(), flags=re.M))
        shutil.copy(f, os.path.join(R, pkg))
        r1 = sh("go test %s -vet=off -count=1 -run '%s' ./%s/ 2>&1 | grep -a '^ok\\|^FAIL' | tail -1" % (tags, names, pkg), cwd=R)[1][:4]
        sh("git checkout -- .", cwd=R)
        r2 = sh("go test %s -vet=off -count=1 -run '%s' ./%s/ 2>&1 | grep -a '^ok\\|^FAIL' | tail -1" % (tags, names, pkg), cwd=R)[1][:4]
        os.remove(os.path.join(R, pkg, os.path.basename(f)))
        sh("git apply %s/patch.diff" % d, cwd=R)
        demos.append("%s[%s %s]: with patch=%s clean=%s" % (os.path.basename(f), pkg, tags, r1.strip(), r2.strip()))
    caught = [p for p, r in results.items() if r.startswith("VIOLATION")]
    dst = os.path.join(V, "seeded", name)
    os.makedirs(dst, exist_ok=True)
    shutil.copy(os.path.join(d, "patch.diff"), dst)
    for f in glob.glob(os.path.join(d, "*_test.go")): shutil.copy(f, dst)
    try: m = json.load(open(os.path.join(d, "meta.json")))
    except Exception: m = {}
    meta = {"property": pids[0], "round": rnd, "breaks": m.get("breaks"), "needs": m.get("needs"), "why_tests_pass": m.get("why_tests_pass"),
            "author": "independent sub-agent (round %d) given only the property text, the list of earlier rounds' ideas to avoid" % rnd + " and a scratch worktree of /repo at %s" % head[:7],
            "confirmed_by_me": "scratch worktree /tmp/try-repo at %s: patch applies; %s; demos: %s" % (head[:7], pinned, "; ".join(demos)),
            "check_result": "; ".join("%s: %s" % (p, r) for p, r in results.items()),
            "caught": bool(caught),
            "how_to_rerun": "git -C /repo apply seeded/%s/patch.diff && python3 tools/check.py %s; git -C /repo checkout -- ." % (name, pids[0])}
    json.dump(meta, open(os.path.join(dst, "meta.json"), "w"), indent=1)
    print("%s: %s | %s | %s | needs: %s" % (name, "CAUGHT by " + ",".join(caught) if caught else "MISSED", pinned[:40], "; ".join(demos)[:160], str(m.get("needs"))[:200].replace("\n", " ")))
sh("git checkout -- .; git clean -fdq", cwd=R)
