#!/bin/sh
# apply_repo_patch.sh <patch.diff> <msg-file|"message">: apply one patch to /repo as its own commit
# after checking that the packages build (with and without the verif/badger tags).
set -e
P=$(realpath "$1"); M="$2"; [ -f "$M" ] && M=$(realpath "$M")
export GOFLAGS=-mod=mod GOPROXY=off GOSUMDB=off GOTOOLCHAIN=local
cd /repo
git apply --check "$P"
git apply "$P"
PKGS=$(git status --porcelain | awk '{print $2}' | grep '\.go$' | xargs -n1 dirname | sort -u | sed 's|^|./|')
go build $PKGS && go build -tags "badger verif" $PKGS && go build -tags badger $PKGS
go test -vet=off -count=1 $PKGS 2>&1 | grep -a "^ok\|^FAIL\|^---\|no test files" | head -20 || true
git add -A
if [ -f "$M" ]; then git commit -q -F "$M"; else git commit -q -m "$M"; fi
git log --oneline | head -1
