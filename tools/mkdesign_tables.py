#!/usr/bin/env python3
"""Rewrite the generated tables of DESIGN.md (between <!-- BEGIN x --> / <!-- END x --> markers)
from known_findings.json + findings/*.json and seeded/*/meta.json."""
import glob, json, os, re
V = os.path.dirname(os.path.dirname(os.path.abspath(__file__)))
ks = json.load(open(os.path.join(V, "known_findings.json")))
for f in sorted(glob.glob(os.path.join(V, "findings", "*.json"))):
    ks += json.load(open(f))
fixed = [k for k in ks if k.get("status") == "fixed"]
known = [k for k in ks if k.get("status") == "known"]
t1 = "| commit | property | defect repaired (one `fix:` commit each) |\n|---|---|---|\n"
for k in fixed:
    t1 += "| %s | %s | %s |\n" % (k.get("commit", "?"), k["property"], k["title"].replace("|", "/"))
t2 = "| id | property | finding recorded, not repaired (printed as KNOWN-FINDING while it reproduces) | classes |\n|---|---|---|---|\n"
for k in known:
    t2 += "| %s | %s | %s | %s |\n" % (k["id"], k["property"], k["title"].replace("|", "/"), k.get("classes"))
p = os.path.join(V, "DESIGN.md")
s = open(p).read()
def put(tag, body):
    global s
    b, e = "<!-- BEGIN %s -->" % tag, "<!-- END %s -->" % tag
    if b in s:
        s = re.sub(re.escape(b) + ".*?" + re.escape(e), lambda m: b + "\n" + body + e, s, flags=re.S)
# per-property status
import re as _re
props = [json.loads(l) for l in open(os.path.join(V, "properties.jsonl"))]
t3 = "| id | title | theorems in Props/<id>.v | quick run (cases, s) | fix commits | known findings | notes |\n|---|---|---|---|---|---|---|\n"
for pr in props:
    pid = pr["id"]
    pj = os.path.join(V, "props", pid + ".json")
    if not os.path.exists(pj) or json.load(open(pj)).get("disabled"):
        t3 += "| %s | %s | — | not claimed yet | | | |\n" % (pid, pr["title"][:60])
        continue
    try:
        th = _re.findall(r"^\s*Theorem\s+(\w+)", open(os.path.join(V, "coq", "Props", pid + ".v")).read(), flags=_re.M)
    except OSError:
        th = []
    ev = {}
    try:
        ev = json.load(open(os.path.join(V, "evidence", pid + ".json")))
    except (OSError, ValueError):
        pass
    cov = ev.get("coverage", {})
    nf = len([k for k in fixed if k["property"] == pid])
    nk = [k["id"] for k in known if k["property"] == pid]
    t3 += "| %s | %s | %d (%s…) | %s cases, %s s | %d | %s | docs/notes/%s.md |\n" % (
        pid, pr["title"][:60], len(th), ", ".join(th[:3]), cov.get("evaluations", "?"), ev.get("wall_s", "?"), nf,
        ", ".join(nk) or "—", pid)
put("STATUS", t3)
put("FIXED", t1)
put("KNOWN", t2)
open(p, "w").write(s)
print("DESIGN.md tables: %d fixed, %d known" % (len(fixed), len(known)))
