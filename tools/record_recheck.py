#!/usr/bin/env python3
"""record_recheck.py <log> ...: read lines of tools/seeded_recheck.sh ("<name> [<ID>]: caught: VIOLATION ..." / "MISSED") and
record them in seeded/<name>/meta.json (caught, caught_after_strengthening, recheck, caught_by)."""
import json, os, re, subprocess, sys
V = os.path.dirname(os.path.dirname(os.path.abspath(__file__)))
head = subprocess.run(["git", "-C", "/repo", "rev-parse", "--short", "HEAD"], stdout=subprocess.PIPE).stdout.decode().strip()
for log in sys.argv[1:]:
    for l in open(log, errors="replace"):
        m = re.match(r"(\S+) \[(C\d+)\]: (caught|MISSED): (.*)", l.strip())
        if not m: continue
        name, pid, res, line = m.groups()
        p = os.path.join(V, "seeded", name, "meta.json")
        if not os.path.exists(p): continue
        j = json.load(open(p))
        if res == "caught":
            if not j.get("caught"):
                j["caught_after_strengthening"] = True
            j["caught"] = True
            j["recheck"] = "re-run on /repo %s with check %s: %s" % (head, pid, line[:160])
            if pid != j.get("property"): j["caught_by"] = "the %s check" % pid
        else:
            j.setdefault("recheck_missed", []).append("check %s on /repo %s: %s" % (pid, head, line[:120]))
        json.dump(j, open(p, "w"), indent=1)
        print(name, pid, res)
