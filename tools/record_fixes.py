#!/usr/bin/env python3
"""Add a `fixed` entry to known_findings.json for every repo_patches/<ID>-<n>-fix.msg whose subject is a
commit of /repo and that is not recorded yet (matched by commit id)."""
import glob, json, os, re, subprocess
V = os.path.dirname(os.path.dirname(os.path.abspath(__file__)))
log = subprocess.run(["git", "-C", "/repo", "log", "--format=%h\t%s"], stdout=subprocess.PIPE).stdout.decode().splitlines()
bysubj = {l.split("\t", 1)[1]: l.split("\t", 1)[0] for l in log if "\t" in l}
kp = os.path.join(V, "known_findings.json")
ks = json.load(open(kp))
have = {k.get("commit") for k in ks}
n = 0
for m in sorted(glob.glob(os.path.join(V, "repo_patches", "C*-fix.msg"))):
    base = os.path.basename(m)
    pid, num = re.match(r"(C\d+)-(\d+)-fix\.msg", base).groups()
    lines = open(m).read().strip().splitlines()
    subj = lines[0].strip()
    c = bysubj.get(subj)
    if not c or c in have:
        continue
    body = " ".join(l.strip() for l in lines[1:] if l.strip())[:400]
    ks.append({"id": "%s-fix%s" % (pid, num), "property": pid, "status": "fixed", "commit": c,
               "title": subj[len("fix:"):].strip() + (" -- " + body if body else ""),
               "canonical_case": {"see": "repo_patches/%s-%s-fix.msg and docs/notes/%s.md" % (pid, num, pid)},
               "classes": [], "first_seen": "2026-10-02"})
    n += 1
json.dump(ks, open(kp, "w"), indent=1)
print("recorded %d new fixed entries" % n)
