#!/usr/bin/env python3
"""check.py <ID> [--tier quick|thorough] [--replay FILE]

Decides one property on /repo's current working tree:

  1. translators  (harness/cmd/gen, go/ast)  ->  coq/Gen/*.v          [tie a]
  2. make the proof closure of coq/Props/<ID>.v (full .vo build) and re-run
     coqc on Props/<ID>.v to capture Print Assumptions
  3. build the driver against /repo (-tags "badger verif"), run it: it executes the
     implementation and writes coq/Run/<ID>/cases_<ID>.v (inputs + observed outputs)
  4. one coqc evaluates the model and the property-level oracle on those cases   [tie b]
  5. verdict (DESIGN.md 2.3), evidence/<ID>.json, replay file on violation

Exit 0: property held on everything explored.  Exit 1: a line
  VIOLATION property=<ID> replay=<path> [no-failing-input-found]
"""
import argparse, fcntl, json, os, re, shutil, subprocess, sys, time

VERIF = os.path.dirname(os.path.dirname(os.path.abspath(__file__)))
COQ = os.path.join(VERIF, "coq")
HARNESS = os.path.join(VERIF, "harness")
REPO = os.environ.get("VERIF_REPO", "/repo")

ENV = dict(os.environ)
ENV.update({"GOFLAGS": "-mod=mod", "GOPROXY": "off", "GOSUMDB": "off", "GOTOOLCHAIN": "local",
            "CGO_ENABLED": "1"})

FORBIDDEN = re.compile(r"\b(Admitted|admit|Axiom|Axioms|Parameter|Parameters|Conjecture|bypass_check|native_compute)\b|Unset\s+Guard|Unset\s+Positivity|Unset\s+Universe|type-in-type|impredicative-set|Admit\s+Obligations")

TRUSTED_BASE = [
    "Coq 8.16.1 kernel and vm_compute (no native_compute, no relaxed checks)",
    "harness/cmd/gen: go/ast translators producing coq/Gen/*.v from /repo on every run",
    "correspondence: driver runs /repo's Go code, coqc evaluates the hand-written model on the same inputs (differential, bounded by generator)",
    "third-party code entered as hypotheses or oracles (see DESIGN.md section 5)",
]


def modfile_args():
    """go build flags; when VERIF_REPO names another tree, build against it through an alternate modfile"""
    if os.path.realpath(REPO) == "/repo":
        return []
    alt = os.path.join(HARNESS, ".alt.mod")
    txt = open(os.path.join(HARNESS, "go.mod")).read().replace("=> /repo", "=> " + os.path.realpath(REPO))
    open(alt, "w").write(txt)
    shutil.copyfile(os.path.join(HARNESS, "go.sum"), os.path.join(HARNESS, ".alt.sum"))
    return ["-modfile=" + alt]


def sh(cmd, cwd=None, timeout=None, env=None):
    """run, return (rc, combined output); rc 124 on timeout"""
    try:
        p = subprocess.run(cmd, cwd=cwd, env=env or ENV, stdout=subprocess.PIPE, stderr=subprocess.STDOUT,
                           timeout=timeout, shell=isinstance(cmd, str))
        return p.returncode, p.stdout.decode("utf-8", "replace")
    except subprocess.TimeoutExpired as e:
        out = e.stdout.decode("utf-8", "replace") if e.stdout else ""
        return 124, out + "\n[timeout after %ss]" % timeout


class Check:
    def __init__(self, pid, tier, seed, replay):
        self.id = pid
        self.tier = tier
        self.seed = seed
        self.replay = os.path.abspath(replay) if replay else None
        self.t0 = time.time()
        with open(os.path.join(VERIF, "props", pid + ".json")) as f:
            self.cfg = json.load(f)
        self.log = []
        self.broken = []      # list of (what, detail): obligations / ties that no longer check
        self.rundir = os.path.join(COQ, "Run", pid)
        self.known = []
        import glob
        for kf in [os.path.join(VERIF, "known_findings.json")] + sorted(glob.glob(os.path.join(VERIF, "findings", "*.json"))):
            if os.path.exists(kf):
                with open(kf) as f:
                    self.known += [k for k in json.load(f) if k.get("property") == pid]

    def note(self, s):
        self.log.append(s)
        print("[check %s] %s" % (self.id, s), flush=True)

    # ---- step 1: translators ----
    def gen(self):
        rc, out = sh(["go", "build", "-o", "bin/gen", "./cmd/gen"], cwd=HARNESS, timeout=600)
        if rc != 0:
            self.broken.append(("translator-build", out[-2000:]))
            return False
        rc, out = sh(["./bin/gen", "-repo", REPO, "-out", os.path.join(COQ, "Gen")], cwd=HARNESS, timeout=300)
        self.gen_failures = ""
        # compiled leftovers of a generated file that was not produced this time must not be loaded
        gdir = os.path.join(COQ, "Gen")
        have = {f[:-2] for f in os.listdir(gdir) if f.endswith(".v")}
        for f in os.listdir(gdir):
            stem = f.lstrip(".").split(".")[0]
            if f != "FAILED.txt" and not f.endswith(".v") and stem not in have:
                try:
                    os.remove(os.path.join(gdir, f))
                except OSError:
                    pass
        if rc == 3:
            # some translator met a shape it does not understand: its output is missing, so exactly
            # the proofs that depend on it will fail to build (reported there, with this text)
            self.gen_failures = out[-2000:]
        elif rc != 0:
            self.broken.append(("translator", "harness/cmd/gen failed: " + out[-2000:]))
            return False
        return True

    # ---- step 2: proofs ----
    def closure(self, roots):
        """transitive .v dependencies (within the project) of the given .v files"""
        rc, out = sh("coqdep -Q . DV $(cat _CoqProject | grep '\\.v$')", cwd=COQ, timeout=120)
        deps = {}
        for line in out.splitlines():
            m = re.match(r"^(\S+)\.vo\b.*?:\s*(.*)$", line)
            if not m:
                continue
            tgt = m.group(1) + ".v"
            ds = [d[:-3] + ".v" for d in m.group(2).split() if d.endswith(".vo")]
            deps[tgt] = ds
        seen, todo = set(), list(roots)
        while todo:
            x = todo.pop()
            if x in seen:
                continue
            seen.add(x)
            todo.extend(deps.get(x, []))
        return sorted(seen)

    def proofs(self):
        sh([os.path.join(VERIF, "tools", "mkproject.sh")], cwd=COQ, timeout=120)
        props_v = "Props/%s.v" % self.id
        run_models = self.cfg.get("run_models", [])
        # models first: they must build even when a proof is broken
        if run_models:
            rc, out = sh(["make", "-j16"] + [m + "o" for m in run_models], cwd=COQ, timeout=1800)
            if rc != 0:
                self.broken.append(("model-build", out[-3000:]))
        rc, out = sh(["make", "-j16", props_v + "o"], cwd=COQ, timeout=3000)
        self.files = self.closure([props_v] + run_models)
        ok = rc == 0
        if not ok:
            m = re.search(r'File "\./([^"]+)", line (\d+)', out)
            where = "%s:%s" % (m.group(1), m.group(2)) if m else "?"
            self.broken.append(("proof", "make %so failed at %s\n%s%s" % (props_v, where, out[-3000:],
                                ("\ntranslator failures of this run: " + self.gen_failures) if getattr(self, "gen_failures", "") else "")))
        # forbidden constructs anywhere in the closure
        bad = []
        for f in self.files:
            try:
                txt = open(os.path.join(COQ, f)).read()
            except OSError:
                continue
            txt = re.sub(r"\(\*.*?\*\)", "", txt, flags=re.S)
            for m in FORBIDDEN.finditer(txt):
                bad.append("%s: %s" % (f, m.group(0)))
        if bad:
            self.broken.append(("forbidden-construct", "; ".join(bad[:10])))
            ok = False
        # statements and Print Assumptions
        self.theorems, self.assumptions_out, self.axioms = [], "", []
        try:
            ptxt = open(os.path.join(COQ, props_v)).read()
            self.theorems = re.findall(r"^\s*Theorem\s+(\w+)", ptxt, flags=re.M)
        except OSError:
            pass
        self.lemma_count = 0
        for f in self.files:
            if f.startswith("Proofs/") or f.startswith("Base/"):
                try:
                    self.lemma_count += len(re.findall(r"^\s*(?:Lemma|Theorem|Corollary|Fact)\s+\w+", open(os.path.join(COQ, f)).read(), flags=re.M))
                except OSError:
                    pass
        self.discharged = 0
        if rc == 0:
            rc2, out2 = sh(["coqc", "-Q", ".", "DV", props_v], cwd=COQ, timeout=1200)
            self.assumptions_out = out2
            if rc2 == 0:
                self.discharged = len(self.theorems)
                closed = out2.count("Closed under the global context")
                ax = re.findall(r"^Axioms:\n((?:.+\n)+?)(?=\S|\Z)", out2, flags=re.M)
                names = sorted(set(re.findall(r"^(\S+)\s*:", "\n".join(ax), flags=re.M)))
                self.axioms = names
                allowed = set(self.cfg.get("allowed_axioms", []))
                extra = [a for a in names if a not in allowed]
                if extra:
                    self.broken.append(("axioms", "Print Assumptions lists axioms not in the trusted base: %s" % extra))
                    ok = False
                self.closed_count = closed
            else:
                self.broken.append(("proof", "coqc %s failed: %s" % (props_v, out2[-2000:])))
                ok = False
        return ok

    # ---- step 3/4: correspondence ----
    def run_driver(self, seed, tier, replay=None, n=None, tag=""):
        drv = self.cfg["driver"]
        rc, out = sh(["go", "build"] + modfile_args() + ["-tags", "badger verif", "-o", "bin/" + drv, "./drivers/" + drv], cwd=HARNESS, timeout=1500)
        if rc != 0:
            return {"error": "driver-build", "detail": out[-3000:]}
        rundir = self.rundir + tag
        shutil.rmtree(rundir, ignore_errors=True)
        os.makedirs(rundir)
        scratch = os.path.join(VERIF, ".scratch", "%s-%d" % (self.id, os.getpid()))
        shutil.rmtree(scratch, ignore_errors=True)
        os.makedirs(scratch)
        env = dict(ENV)
        env["VERIF_SCRATCH"] = scratch
        env["TMPDIR"] = scratch
        cmd = ["./bin/" + drv, "-seed", str(seed), "-tier", tier, "-outdir", rundir]
        if replay:
            cmd += ["-replay", replay]
        if n:
            cmd += ["-n", str(n)]
        tmo = self.cfg.get("driver_timeout", {}).get(tier, 900)
        t = time.time()
        rc, out = sh(cmd, cwd=HARNESS, timeout=tmo, env=env)
        shutil.rmtree(scratch, ignore_errors=True)
        if rc != 0:
            return {"error": "driver-run", "detail": "rc=%d\n%s" % (rc, out[-3000:])}
        drv_s = time.time() - t
        with open(os.path.join(rundir, self.id + ".meta.json")) as f:
            meta = json.load(f)
        t = time.time()
        casefile = os.path.join(rundir, "cases_%s.v" % self.id)
        rc, out = sh("ulimit -s unlimited 2>/dev/null; exec coqc -Q %s DV %s" % (COQ, casefile), cwd=rundir,
                     timeout=self.cfg.get("coqc_timeout", {}).get(tier, 1500))
        if rc != 0:
            return {"error": "cases-eval", "detail": out[-3000:], "meta": meta}
        sf = re.search(r"spec_fail\s*=\s*(.*?)\s*:\s*list", out, flags=re.S)
        mm = re.search(r"model_mismatch\s*=\s*(.*?)\s*:\s*list", out, flags=re.S)
        if not sf or not mm:
            return {"error": "cases-eval", "detail": "unparseable coqc output: " + out[-2000:], "meta": meta}
        nums = lambda s: [int(x) for x in re.findall(r"\d+", s)]
        sfl = nums(sf.group(1))
        spec_fail = list(zip(sfl[0::2], sfl[1::2]))
        mism = nums(mm.group(1))
        cases = []
        with open(os.path.join(rundir, self.id + ".cases.jsonl")) as f:
            cases = [l for l in f]
        return {"meta": meta, "spec_fail": spec_fail, "model_mismatch": mism, "cases": cases,
                "driver_s": drv_s, "coqc_s": time.time() - t, "driver_out": out[-500:]}

    def write_replay(self, kind, what, case_json, extra=None):
        os.makedirs(os.path.join(VERIF, "replays"), exist_ok=True)
        path = os.path.join(VERIF, "replays", "%s-%d-%s.json" % (self.id, self.seed, kind))
        doc = {"property": self.id, "seed": self.seed, "tier": self.tier, "kind": kind,
               "theorem_or_correspondence": what,
               "case": json.loads(case_json) if case_json else None,
               "how_to_replay": "python3 tools/check.py %s --replay %s" % (self.id, path)}
        if extra:
            doc.update(extra)
        with open(path, "w") as f:
            json.dump(doc, f, indent=1)
        return path

    def known_class(self, cls):
        for k in self.known:
            if k.get("status") == "known" and cls in k.get("classes", []):
                return k
        return None

    def evidence(self, res, violations, extra_cov=None):
        meta = (res or {}).get("meta") or {}
        cov = {
            "obligations": max(1, len(getattr(self, "theorems", []) or [])),
            "discharged": getattr(self, "discharged", 0),
            "checker_cmd": "make -C coq Props/%s.vo (coq_makefile, coqc 8.16.1, full .vo) ; coqc Props/%s.v ; coqc Run/%s/cases_%s.v" % (self.id, self.id, self.id, self.id),
            "trusted_base": TRUSTED_BASE + self.cfg.get("trusted_extra", []),
            "theorems": getattr(self, "theorems", []),
            "lemmas_in_closure": getattr(self, "lemma_count", 0),
            "closure_files": getattr(self, "files", []),
            "print_assumptions": "all %d closed under the global context" % getattr(self, "closed_count", 0) if not getattr(self, "axioms", None) else "axioms: %s" % self.axioms,
            "evaluations": meta.get("evaluations", 0),
            "distinct_nontrivial": meta.get("distinct_nontrivial", 0),
            "rule": meta.get("rule", ""),
            "samples": meta.get("samples", [])[:6] or ["(no correspondence run)"],
            "distribution": meta.get("distribution", {}),
            "traces_validated_against_impl": meta.get("evaluations", 0) - len((res or {}).get("model_mismatch", [])) if res and "model_mismatch" in res else 0,
            "model_mismatches": len((res or {}).get("model_mismatch", [])) if res else None,
            "spec_failures": len((res or {}).get("spec_fail", [])) if res else None,
            "broken": [b[0] + ": " + b[1][:300] for b in self.broken],
            "driver_s": (res or {}).get("driver_s"), "coqc_cases_s": (res or {}).get("coqc_s"),
            "exhaustive": bool(meta.get("extra", {}).get("exhaustive", False)),
            "extra": meta.get("extra", {}),
        }
        if extra_cov:
            cov.update(extra_cov)
        ev = {"property_id": self.id, "tier": self.tier, "seed": self.seed, "level": self.cfg.get("level", "proof"),
              "coverage": cov, "assumptions": self.cfg.get("assumptions", []),
              "wall_s": round(time.time() - self.t0, 2), "violations": violations}
        # evidence describes /repo; a run against another tree (VERIF_REPO, used to try seeded changes and
        # candidate repairs) leaves the committed evidence alone and writes beside it
        evdir = "evidence" if REPO == "/repo" else "evidence-scratch"
        os.makedirs(os.path.join(VERIF, evdir), exist_ok=True)
        with open(os.path.join(VERIF, evdir, self.id + ".json"), "w") as f:
            json.dump(ev, f, indent=1)

    def coqchk(self):
        rc, out = sh("coqchk -silent -o -Q . DV DV.Props.%s" % self.id, cwd=COQ, timeout=3500)
        tail = out[-3000:]
        if rc != 0:
            self.broken.append(("coqchk", tail))
        return {"coqchk_rc": rc, "coqchk_tail": tail[-1500:]}

    def main(self):
        lock = open(os.path.join(VERIF, ".lock"), "w")
        fcntl.flock(lock, fcntl.LOCK_EX)
        try:
            return self.main_locked()
        finally:
            fcntl.flock(lock, fcntl.LOCK_UN)

    def main_locked(self):
        self.gen()
        self.proofs()
        extra_cov = {}
        if self.tier == "thorough" and self.cfg.get("coqchk", True) and not self.broken:
            extra_cov.update(self.coqchk())
        res = self.run_driver(self.seed, self.tier, replay=self.replay)
        violations = 0
        lines = []
        if "error" in res:
            self.broken.append((res["error"], res["detail"]))
        else:
            # property-level failures on the implementation's own outputs
            seen_known = set()
            for idx, cls in res["spec_fail"]:
                k = self.known_class(cls)
                if k:
                    if k["id"] not in seen_known:
                        seen_known.add(k["id"])
                        lines.append("KNOWN-FINDING: property=%s %s" % (self.id, k["title"]))
                    continue
                path = self.write_replay("counterexample", "spec oracle class %d (%s)" % (cls, self.cfg.get("classes", {}).get(str(cls), "?")),
                                         res["cases"][idx] if idx < len(res["cases"]) else None,
                                         {"case_index": idx, "class": cls})
                lines.append("VIOLATION property=%s replay=%s" % (self.id, path))
                violations += 1
                break
            # known findings must still reproduce to be printed; a listed finding that no longer fails prints nothing
            if violations == 0 and res["model_mismatch"]:
                known_idx = {i for i, c in res["spec_fail"] if self.known_class(c)}
                mm = [i for i in res["model_mismatch"] if i not in known_idx]
                if mm:
                    self.broken.append(("correspondence", "implementation and model disagree on %d case(s), first index %d" % (len(mm), mm[0])))
                    res["first_mismatch_case"] = res["cases"][mm[0]] if mm[0] < len(res["cases"]) else None
        if violations == 0 and self.broken:
            # search for a concrete failing input with other seeds / larger runs before giving up
            found = None
            if not self.replay:
                for k in range(self.cfg.get("search_rounds", 3)):
                    r2 = self.run_driver(self.seed * 1000 + 17 + k, "thorough" if k else self.tier, tag="-search")
                    if "error" in r2:
                        break
                    bad = [(i, c) for i, c in r2["spec_fail"] if not self.known_class(c)]
                    if bad:
                        found = (r2, bad[0])
                        break
            if found:
                r2, (idx, cls) = found
                path = self.write_replay("counterexample", "spec oracle class %d (%s); found by search after: %s" % (cls, self.cfg.get("classes", {}).get(str(cls), "?"), self.broken[0][0]),
                                         r2["cases"][idx], {"case_index": idx, "class": cls})
                lines.append("VIOLATION property=%s replay=%s" % (self.id, path))
            else:
                what = "; ".join("%s: %s" % (b[0], b[1][:400]) for b in self.broken)
                path = self.write_replay("broken-obligation", what, (res or {}).get("first_mismatch_case"),
                                         {"broken": [{"what": b[0], "detail": b[1]} for b in self.broken]})
                lines.append("VIOLATION property=%s replay=%s no-failing-input-found" % (self.id, path))
            violations += 1
        if not self.replay:
            self.evidence(res if "error" not in res else {"meta": res.get("meta")}, violations, extra_cov)
        for l in lines:
            print(l, flush=True)
        if violations == 0:
            self.note("OK: %d theorems, %d cases, %.1fs" % (len(self.theorems), (res.get("meta") or {}).get("evaluations", 0), time.time() - self.t0))
        return 1 if violations else 0


if __name__ == "__main__":
    ap = argparse.ArgumentParser()
    ap.add_argument("id")
    ap.add_argument("--tier", default=os.environ.get("VERIF_TIER", "quick"))
    ap.add_argument("--replay")
    a = ap.parse_args()
    seed = int(os.environ.get("VERIF_SEED", "1") or "1")
    sys.exit(Check(a.id, a.tier if a.tier in ("quick", "thorough") else "quick", seed, a.replay).main())
