#!/bin/sh
# Build the framework from files on disk only (offline).
set -e
cd "$(dirname "$0")/.."
export GOFLAGS=-mod=mod GOPROXY=off GOSUMDB=off GOTOOLCHAIN=local
mkdir -p harness/bin coq/Gen coq/Run evidence replays
cp /repo/go.sum harness/go.sum 2>/dev/null || true
(cd harness && go build -o bin/gen ./cmd/gen && ./bin/gen -repo /repo -out ../coq/Gen)
sh tools/mkproject.sh
(cd coq && timeout 3000 make -j16 >/dev/null 2>&1 || timeout 3000 make -j16 2>&1 | tail -20)
for d in harness/drivers/*/; do
  n=$(basename "$d")
  (cd harness && go build -tags "badger verif" -o "bin/$n" "./drivers/$n") || echo "setup: driver $n did not build"
done
echo "setup done"
