#!/bin/sh
# regenerate coq/_CoqProject and the Makefile from the files present
cd "$(dirname "$0")/../coq" || exit 2
{ echo "-Q . DV"; ls Gen/*.v Base/*.v Model/*.v Proofs/*.v Props/*.v 2>/dev/null | sort; } > _CoqProject.new
if ! cmp -s _CoqProject.new _CoqProject || [ ! -f Makefile ]; then
  mv _CoqProject.new _CoqProject
  coq_makefile -f _CoqProject -o Makefile >/dev/null
else
  rm -f _CoqProject.new
fi
