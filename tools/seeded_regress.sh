#!/bin/sh
# seeded_regress.sh <repo-tree>: apply each seeded change to a scratch tree of /repo and run the
# check of its property against it; prints caught / MISSED / patch-does-not-apply per change.
R=$(realpath "$1"); cd "$(dirname "$0")/.."
for d in seeded/*/; do
  n=$(basename $d); pid=$(python3 -c "import json;print(json.load(open('$d/meta.json'))['property'])")
  git -C $R checkout -q -- . ; git -C $R clean -fdq
  if ! git -C $R apply $PWD/$d/patch.diff 2>/dev/null; then echo "$n [$pid]: patch does not apply to this tree (superseded by later fixes?)"; continue; fi
  out=$(VERIF_REPO=$R timeout 2400 python3 tools/check.py $pid 2>&1 | grep -a "VIOLATION\|OK:" | head -1 | cut -c1-120)
  case "$out" in *VIOLATION*) echo "$n [$pid]: caught: $out";; *) echo "$n [$pid]: MISSED: $out";; esac
done
git -C $R checkout -q -- . ; git -C $R clean -fdq
