#!/usr/bin/env python3
"""mkcatchrows.py: regenerate the round-2 catch matrix of DESIGN.md (between <!-- BEGIN R2 --> and <!-- END R2 -->)
from seeded/*-r2m*/meta.json (fields written by tools/process_mut.py and the re-checks)."""
import glob, json, os, re
V = os.path.dirname(os.path.dirname(os.path.abspath(__file__)))
def short(s, n):
    s = re.sub(r"\s+", " ", str(s or "")).replace("|", "/").strip()
    return s if len(s) <= n else s[:n - 1].rstrip() + "…"
def table(rnd):
  rows = []
  tot = caught0 = caughtS = missed = 0
  for p in sorted(glob.glob(os.path.join(V, "seeded", "*-r%dm*" % rnd, "meta.json"))):
      m = json.load(open(p)); name = p.split("/")[-2]
      tot += 1
      if m.get("caught") and not m.get("caught_after_strengthening"):
          res = "caught"; caught0 += 1
      elif m.get("caught"):
          res = "first missed; caught after strengthening"; caughtS += 1
      else:
          res = "**missed**"; missed += 1
      kind = ""
      cr = m.get("recheck") or m.get("check_result") or ""
      if "no-failing-input-found" in cr: kind = " (broken obligation, no failing input found)"
      elif "counterexample" in cr: kind = " (counterexample)"
      if m.get("caught_by"): kind += " by " + m["caught_by"]
      note = (" — " + short(m.get("note"), 260)) if m.get("note") else ""
      rows.append("| %s | %s / needs: %s | %s%s%s |" % (name, short(m.get("breaks"), 230), short(m.get("needs"), 200), res, kind, note))
  head = ("Round %d: %d changes written by fresh sub-agents that were also given the list of the earlier rounds' ideas to avoid; "
        "%d caught by the checks as they stood, %d first missed and caught after general strengthening of the "
        "generators / translators, %d still missed.\n\n| change | what it breaks / needs | result |\n|---|---|---|\n" % (rnd, tot, caught0, caughtS, missed))
  print("round %d: %d total, %d caught, %d after strengthening, %d missed" % (rnd, tot, caught0, caughtS, missed))
  return head + "\n".join(rows) if tot else ""
t2, t3, t4 = table(2), table(3), table(4)
block = "<!-- BEGIN R2 -->\n" + t2 + ("\n\n" + t3 if t3 else "") + ("\n\n" + t4 if t4 else "") + "\n<!-- END R2 -->"
dp = os.path.join(V, "DESIGN.md"); s = open(dp).read()
if "<!-- BEGIN R2 -->" in s:
    s = re.sub(r"<!-- BEGIN R2 -->.*?<!-- END R2 -->", lambda _: block, s, flags=re.S)
else:
    s = s.replace("### 10.7 Trusted base as built", block + "\n\n### 10.7 Trusted base as built")
open(dp, "w").write(s)
