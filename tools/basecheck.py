#!/usr/bin/env python3
"""basecheck.py <tree>: run the pinned suite (no build tags) on a source tree of dvid and compare with BASELINE.json's stable_pass."""
import json, os, subprocess, sys
R = sys.argv[1] if len(sys.argv) > 1 else "/repo"
env = dict(os.environ, GOFLAGS="-mod=mod", GOPROXY="off", GOSUMDB="off", GOTOOLCHAIN="local")
p = subprocess.run("go test -json -vet=off -count=1 -timeout 25m ./...", shell=True, cwd=R, env=env,
                   stdout=subprocess.PIPE, stderr=subprocess.DEVNULL)
passed = set()
for l in p.stdout.decode("utf-8", "replace").splitlines():
    try:
        e = json.loads(l)
    except ValueError:
        continue
    if e.get("Action") == "pass" and e.get("Test"):
        passed.add(e["Package"] + "::" + e["Test"])
base = set(json.load(open("/root/.vp/BASELINE.json"))["stable_pass"])
missing = sorted(base - passed)
print("pinned tests passing: %d of %d; missing: %s" % (len(base & passed), len(base), missing))
sys.exit(1 if missing else 0)
