#!/bin/sh
# seeded_recheck.sh <name>[=<ID>] ...: apply each named seeded change to a scratch tree of /repo (RECHECK_REPO, default
# /tmp/try-repo: a git worktree of /repo, reset to /repo's HEAD first) and run the check of its property (or of <ID>).
cd "$(dirname "$0")/.."
R=${RECHECK_REPO:-/tmp/try-repo}
git -C $R checkout -q -- .; git -C $R clean -fdq; [ -n "$RECHECK_REPO" ] || git -C $R checkout -q --detach $(git -C /repo rev-parse HEAD)
for a in "$@"; do
  n=${a%%=*}
  d=seeded/$n
  pid=$(python3 -c "import json;print(json.load(open('$d/meta.json'))['property'])")
  case "$a" in *=*) pid=${a##*=};; esac
  git -C $R checkout -q -- . ; git -C $R clean -fdq
  if ! git -C $R apply $PWD/$d/patch.diff 2>/dev/null; then echo "$n [$pid]: patch does not apply"; continue; fi
  out=$(VERIF_REPO=$R timeout 2400 python3 tools/check.py $pid 2>&1 | grep -a "VIOLATION\|OK:" | head -1 | cut -c1-140)
  case "$out" in *VIOLATION*) echo "$n [$pid]: caught: $out";; *) echo "$n [$pid]: MISSED: $out";; esac
done
git -C $R checkout -q -- . ; git -C $R clean -fdq
echo REGRESSDONE
