#!/usr/bin/env python3
"""Regenerate MANIFEST.json from props/*.json (one fragment per claimed property)."""
import glob, json, os
V = os.path.dirname(os.path.dirname(os.path.abspath(__file__)))
props = [json.loads(l) for l in open(os.path.join(V, "properties.jsonl"))]
claimed = {}
for f in sorted(glob.glob(os.path.join(V, "props", "C*.json"))):
    c = json.load(open(f))
    claimed[c["id"]] = c
hooks_commits = []
hp = os.path.join(V, "MANIFEST.hooks")
if os.path.exists(hp):
    for l in open(hp):
        l = l.strip()
        if l and not l.startswith("#"):
            hooks_commits.append(l.split()[0])
checks, na = [], []
for p in props:
    pid = p["id"]
    c = claimed.get(pid)
    if not c or c.get("disabled"):
        na.append({"property_id": pid, "reason": (c or {}).get("na_reason", "no check registered yet in this revision (work in progress; see DESIGN.md section 10)")})
        continue
    m = c["manifest"]
    checks.append({
        "property_id": pid,
        "quick_cmd": "python3 tools/check.py %s --tier quick" % pid,
        "thorough_cmd": "python3 tools/check.py %s --tier thorough" % pid,
        "evidence_file": "/verif/evidence/%s.json" % pid,
        "replay_cmd_template": "python3 tools/check.py %s --replay {path}" % pid,
        "engine": "coq+harness",
        "level_claimed": {"category": m["category"], "text": m["text"], "design_ref": m.get("design_ref", "DESIGN.md section 4")},
        "level_note": m.get("level_note") or "; ".join(c.get("assumptions", [])) or "see DESIGN.md section 5",
        "technique": m["technique"],
    })
man = {
    "version": 1,
    "setup_cmd": "sh tools/setup.sh",
    "hooks": {
        "guard": "verif",
        "enable": "go build -tags \"badger verif\" (drivers in /verif/harness import /repo through a replace directive)",
        "baseline_off_cmd": "sh tools/baseline_off.sh",
        "source_commits": hooks_commits,
        "add_only": False,
    },
    "engines": [
        {"name": "coq", "path": "/verif/coq", "serves_properties": sorted(claimed), "kind_free_text": "Coq 8.16.1 development: Gen (regenerated from /repo), Base, Model, Proofs, Props"},
        {"name": "harness", "path": "/verif/harness", "serves_properties": sorted(claimed), "kind_free_text": "Go module (replace => /repo): translators (cmd/gen) and per-property drivers producing coq/Run cases"},
    ],
    "checks": checks,
    "not_applicable": na,
    "notes": "Every check: translators -> coq/Gen, make of the proof closure of coq/Props/<id>.v, driver run against /repo, coqc evaluation of model and property oracle on the observed cases. See DESIGN.md.",
}
json.dump(man, open(os.path.join(V, "MANIFEST.json"), "w"), indent=1)
print("MANIFEST.json: %d checks, %d not applicable" % (len(checks), len(na)))
