#!/bin/sh
# run every registered check (quick tier) and summarise
cd "$(dirname "$0")/.."
for f in props/C*.json; do id=$(basename $f .json); grep -q "\"disabled\": true" $f && continue; /usr/bin/time -f "%es" python3 tools/check.py $id 2>&1 | grep -a "VIOLATION\|KNOWN-FINDING\|OK:\|^[0-9.]*s$" | cut -c1-160 | tr '\n' ' '; echo; done
