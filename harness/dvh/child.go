// Package dvh: a DVID server as a child process, so that restart and crash really are a new
// process on the same directories.
//
// The child opens (or creates) its stores under one directory — metadata and data in one badger
// store wrapped by crashkv (dir/db), the mutation logs in a filelog (dir/log) — exactly as the
// dvid binary does (storage.Initialize, then datastore.Initialize), and then executes JSON-lines
// requests from stdin against server.ServeSingleHTTP, answering one JSON line each on stdout.
//
// A driver embeds the child: its main() starts with dvh.MaybeChild(), and dvh.Start re-executes
// the driver's own binary with the marker argument.  harness/cmd/dvh is the same child stand-alone.
//
// API (stable):
//
//	func main() { dvh.MaybeChild(); ... }                       // first statement of a driver
//	p, err := dvh.Start(dvh.Opts{Dir: d})                       // new process on directory d (created if absent)
//	p, err := dvh.Start(dvh.Opts{Dir: d, ReadOnly: true})        // a read-only server on d (Config.ReadOnly + server read-only flag)
//	p, err := dvh.Start(dvh.Opts{Dir: d, Crash: "meta:7:after"}) // dies (exit 77) right after its 7th metadata Put/Delete
//	                                                            // classes: meta | data; modes: before | after
//	                                                            // class txn: the N-th read-write transaction of the underlying badger
//	                                                            // DB (needs repo_patches/C04-hook.diff in the DVID tree; never reached without)
//	hook, n, interior, loose := p.Txns()                        // transactions so far; those inside a store call that went on to another one
//	status, body, alive := p.Get(url) / p.Post(url, body) / p.PostJSON(url, v) / p.HTTP(method, url, body)
//	meta, data, trace := p.Writes()                             // store writes so far; trace of metadata keys ("P4:1")
//	r, alive := p.Call("delrepo"|"deldata"|"iid"|"mutid"|"rawcount", uuid, name) // exported package functions
//	r, alive := p.Call("receive", root, "uuid1,uuid2,...")       // datastore.VerifReceiveRepo: the repo is re-registered as a pushed repo is
//	                                                            // (new repo / instance / version ids, the latter in the given uuid order);
//	                                                            // its versions resolve again after the next start
//	p.Plan("data:+2:after")                                     // die right after the 2nd data write from now on
//	p.Quit()   clean shutdown        p.Kill()   SIGKILL        p.Dead / p.Exit / p.Stderr afterwards
//	p.Init     the child initialised a fresh metadata store     p.Meta0   metadata writes during start-up
//
// err != nil from Start means the child did not come up (load error or injected crash during
// start-up); the returned Proc is then Dead with Exit set.
package dvh

import (
	"bufio"
	"bytes"
	"encoding/json"
	"flag"
	"fmt"
	"io"
	"log"
	"net/http"
	"net/http/httptest"
	"os"
	"path/filepath"
	"strings"
	"time"

	"github.com/janelia-flyem/dvid/datastore"
	"github.com/janelia-flyem/dvid/dvid"
	"github.com/janelia-flyem/dvid/server"
	"github.com/janelia-flyem/dvid/storage"
	_ "github.com/janelia-flyem/dvid/storage/badger"
	_ "github.com/janelia-flyem/dvid/storage/filelog"

	_ "github.com/janelia-flyem/dvid/datatype/annotation"
	_ "github.com/janelia-flyem/dvid/datatype/imageblk"
	_ "github.com/janelia-flyem/dvid/datatype/keyvalue"
	_ "github.com/janelia-flyem/dvid/datatype/labelmap"
	_ "github.com/janelia-flyem/dvid/datatype/labelsz"
	_ "github.com/janelia-flyem/dvid/datatype/neuronjson"
	_ "github.com/janelia-flyem/dvid/datatype/roi"

	"verif/harness/crashkv"
)

// Marker is the first argument that turns a driver binary into the child server.
const Marker = "dvh-child"

// Req is one line on the child's stdin.
type Req struct {
	Op   string `json:"op"`             // "http" | "writes" | "quit" | "sleep" | "delrepo" | "deldata" | "iid" | "mutid" | "rawcount" | "plan" | "rename" | "receive"
	Name string `json:"name,omitempty"` // data instance name (deldata, iid, mutid); U then holds a uuid
	M    string `json:"m,omitempty"`    // method
	U    string `json:"u,omitempty"`    // url
	B    []byte `json:"b,omitempty"`    // body (base64 in JSON)
	Ms   int    `json:"ms,omitempty"`   // sleep
}

// Resp is one line on the child's stdout.
type Resp struct {
	Ready    bool     `json:"ready,omitempty"`
	Init     bool     `json:"init,omitempty"` // the metadata store was initialised (fresh) rather than loaded
	Err      string   `json:"err,omitempty"`
	S        int      `json:"s,omitempty"`
	B        []byte   `json:"b,omitempty"`
	Panic    bool     `json:"panic,omitempty"`
	Meta     int      `json:"meta,omitempty"`
	Data     int      `json:"data,omitempty"`
	Trace    []string `json:"trace,omitempty"`
	N        uint64   `json:"n,omitempty"`        // iid / mutid result
	MetaDone int      `json:"metadone,omitempty"` // writes whose store call has returned
	DataDone int      `json:"datadone,omitempty"`
	// read-write transactions of the underlying badger DB (only with repo_patches/C04-hook.diff applied)
	TxnHook  bool  `json:"txnhook,omitempty"`
	Txn      int   `json:"txn,omitempty"`      // completed so far
	Interior []int `json:"interior,omitempty"` // ordinals followed by another transaction of the same store call
	Loose    []int `json:"loose,omitempty"`    // ordinals outside any counted store call
}

// MaybeChild turns the process into the child server when it was started with the marker.
func MaybeChild() {
	if len(os.Args) > 1 && os.Args[1] == Marker {
		Main(os.Args[2:])
		os.Exit(0)
	}
}

// Main runs the child; it returns only on "quit" or end of input.
func Main(args []string) {
	fs := flag.NewFlagSet("dvh", flag.ExitOnError)
	dir := fs.String("dir", "", "base directory of the stores")
	crash := fs.String("crash", "", "class:N:mode — die at the N-th write of class meta|data (or N-th badger transaction: txn), mode before|after")
	verbose := fs.Bool("v", false, "keep DVID's log output on stderr")
	mutStart := fs.Uint64("mutstart", 0, "datastore.Config.MutationStart")
	instStart := fs.Uint64("inststart", 0, "datastore.Config.InstanceStart")
	readOnly := fs.Bool("readonly", false, "start in read-only mode (datastore.Config.ReadOnly, server.SetReadOnly)")
	fs.Parse(args)
	if *dir == "" {
		fmt.Fprintln(os.Stderr, "dvh: need -dir")
		os.Exit(2)
	}
	if !*verbose {
		dvid.SetLogMode(dvid.CriticalMode)
		log.SetOutput(io.Discard)
	}
	out := bufio.NewWriter(os.Stdout)
	say := func(r Resp) {
		b, _ := json.Marshal(r)
		out.Write(b)
		out.WriteByte('\n')
		out.Flush()
	}
	crashkv.Register()
	if *crash != "" {
		var class, mode string
		var n int
		parts := strings.Split(*crash, ":")
		if len(parts) != 3 {
			fmt.Fprintln(os.Stderr, "dvh: bad -crash")
			os.Exit(2)
		}
		class, mode = parts[0], parts[2]
		fmt.Sscan(parts[1], &n)
		crashkv.Plan(class, n, mode)
	}

	mk := func(engine, sub string) dvid.StoreConfig {
		var c dvid.Config
		c.SetAll(map[string]interface{}{"path": filepath.Join(*dir, sub)})
		return dvid.StoreConfig{Config: c, Engine: engine}
	}
	backend := &storage.Backend{
		Metadata:    "db",
		DefaultKVDB: "db",
		DefaultLog:  "log",
		Stores:      map[storage.Alias]dvid.StoreConfig{"db": mk("crashkv", "db"), "log": mk("filelog", "log")},
	}
	datatypes := make(map[dvid.TypeString]struct{})
	for _, t := range datastore.Compiled {
		datatypes[t.GetTypeName()] = struct{}{}
	}
	if *readOnly {
		server.SetReadOnly(true)
	}
	var initMetadata bool
	var startErr error
	func() {
		defer func() {
			if e := recover(); e != nil {
				startErr = fmt.Errorf("panic during start-up: %v", e)
			}
		}()
		var err error
		initMetadata, err = storage.Initialize(dvid.Config{}, backend, datatypes)
		if err != nil {
			startErr = fmt.Errorf("storage.Initialize: %v", err)
			return
		}
		if err = datastore.Initialize(initMetadata, datastore.Config{MutationStart: *mutStart, InstanceStart: dvid.InstanceID(*instStart), ReadOnly: *readOnly}); err != nil {
			startErr = fmt.Errorf("datastore.Initialize: %v", err)
		}
	}()
	if startErr != nil {
		say(Resp{Err: startErr.Error()})
		os.Exit(3)
	}
	m, d, _ := crashkv.Counts()
	say(Resp{Ready: true, Init: initMetadata, Meta: m, Data: d})

	in := bufio.NewReaderSize(os.Stdin, 1<<20)
	for {
		line, err := in.ReadBytes('\n')
		if len(bytes.TrimSpace(line)) > 0 {
			var rq Req
			if e := json.Unmarshal(line, &rq); e != nil {
				say(Resp{Err: "bad request line: " + e.Error()})
			} else {
				switch rq.Op {
				case "http":
					say(doHTTP(rq))
				case "writes":
					m, d, tr := crashkv.Counts()
					md, dd := crashkv.Done()
					tn, inner, outside := crashkv.Txns()
					say(Resp{Meta: m, Data: d, Trace: tr, MetaDone: md, DataDone: dd, TxnHook: crashkv.TxnHook(), Txn: tn, Interior: inner, Loose: outside})
				case "sleep":
					time.Sleep(time.Duration(rq.Ms) * time.Millisecond)
					say(Resp{S: 200})
				case "delrepo": // RPC-only in DVID (server/rpc.go "repos delete"): the exported package function
					say(errResp(datastore.DeleteRepo(dvid.UUID(rq.U), "")))
				case "deldata": // RPC "repo <uuid> delete <name>"
					say(errResp(datastore.DeleteDataByName(dvid.UUID(rq.U), dvid.InstanceName(rq.Name), "")))
				case "rename": // RPC "repo <uuid> rename <old> <new>": U uuid, Name old, M new
					say(errResp(datastore.RenameData(dvid.UUID(rq.U), dvid.InstanceName(rq.Name), dvid.InstanceName(rq.M), "")))
				case "receive": // the repo with root U goes through the receiving end of a push (verif hook of /repo);
					// Name = comma-separated uuids: the order in which the new local version ids are handed out ("" = the code's own)
					var order []dvid.UUID
					for _, u := range strings.Split(rq.Name, ",") {
						if u != "" {
							order = append(order, dvid.UUID(u))
						}
					}
					say(errResp(datastore.VerifReceiveRepo(dvid.UUID(rq.U), "", order)))
				case "iid":
					d, err := datastore.GetDataByUUIDName(dvid.UUID(rq.U), dvid.InstanceName(rq.Name))
					if err != nil {
						say(errResp(err))
					} else {
						say(Resp{S: 200, N: uint64(d.InstanceID())})
					}
				case "mutid":
					d, err := datastore.GetDataByUUIDName(dvid.UUID(rq.U), dvid.InstanceName(rq.Name))
					if err != nil {
						say(errResp(err))
					} else {
						say(Resp{S: 200, N: d.NewMutationID()})
					}
				case "plan": // arrange a crash relative to now: U = "class:+K:mode" (the K-th write of the class from now on)
					var class, mode string
					var k int
					parts := strings.Split(rq.U, ":")
					if len(parts) == 3 {
						class, mode = parts[0], parts[2]
						fmt.Sscan(strings.TrimPrefix(parts[1], "+"), &k)
						m, d, _ := crashkv.Counts()
						base := m
						if class == "data" {
							base = d
						}
						if class == "txn" {
							base, _, _ = crashkv.Txns()
						}
						crashkv.Plan(class, base+k, mode)
						say(Resp{S: 200})
					} else {
						say(Resp{S: 400, Err: "bad plan"})
					}
				case "rawcount": // number of keys still stored under the instance id given in Ms
					say(Resp{S: 200, N: rawCount(dvid.InstanceID(rq.Ms))})
				case "quit":
					datastore.Shutdown()
					storage.Shutdown()
					say(Resp{S: 200})
					return
				default:
					say(Resp{Err: "unknown op " + rq.Op})
				}
			}
		}
		if err != nil {
			return
		}
	}
}

func rawCount(iid dvid.InstanceID) uint64 {
	st, err := storage.DefaultKVStore()
	if err != nil {
		return 0
	}
	db, ok := st.(storage.OrderedKeyValueDB)
	if !ok {
		return 0
	}
	minK, maxK := storage.DataInstanceKeyRange(iid)
	ch := make(chan *storage.KeyValue, 100)
	var n uint64
	done := make(chan struct{})
	go func() {
		for kv := range ch {
			if kv == nil {
				break
			}
			n++
		}
		close(done)
	}()
	db.RawRangeQuery(minK, maxK, true, ch, nil)
	ch <- nil
	<-done
	return n
}

func errResp(err error) Resp {
	if err != nil {
		return Resp{S: 400, Err: err.Error()}
	}
	return Resp{S: 200}
}

func doHTTP(rq Req) (r Resp) {
	var rd io.Reader
	if rq.B != nil {
		rd = bytes.NewReader(rq.B)
	}
	req, err := http.NewRequest(rq.M, rq.U, rd)
	if err != nil {
		return Resp{S: 400, Err: err.Error()}
	}
	w := httptest.NewRecorder()
	defer func() {
		if e := recover(); e != nil {
			r = Resp{S: 500, Panic: true, Err: fmt.Sprint(e)}
		}
	}()
	server.ServeSingleHTTP(w, req)
	return Resp{S: w.Code, B: w.Body.Bytes()}
}
