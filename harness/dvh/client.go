package dvh

import (
	"bufio"
	"encoding/json"
	"fmt"
	"io"
	"os"
	"os/exec"
	"strings"
	"syscall"
)

// Proc is a running child server.
type Proc struct {
	cmd    *exec.Cmd
	in     io.WriteCloser
	out    *bufio.Reader
	Init   bool   // the child initialised a fresh metadata store
	Meta0  int    // metadata writes issued during start-up
	Dead   bool   // the child is gone (crash, kill, quit)
	Exit   int    // exit status once dead
	Log    string // path of the child's stderr
	Stderr string // tail of the child's stderr, once dead
}

// Opts of a child start.
type Opts struct {
	Dir       string
	Crash     string // "" or "meta:N:before" ...
	MutStart  uint64
	InstStart uint64
	ReadOnly  bool // the server is started in read-only mode (datastore.Config.ReadOnly and the server's read-only flag)
}

// Start launches a child on dir and waits for its ready line.  A child that fails to start
// (load error, injected crash during start-up) is returned with Dead set and err describing it.
func Start(o Opts) (*Proc, error) {
	self, err := os.Executable()
	if err != nil {
		return nil, err
	}
	args := []string{Marker, "-dir", o.Dir}
	if o.Crash != "" {
		args = append(args, "-crash", o.Crash)
	}
	if o.MutStart != 0 {
		args = append(args, "-mutstart", fmt.Sprint(o.MutStart))
	}
	if o.InstStart != 0 {
		args = append(args, "-inststart", fmt.Sprint(o.InstStart))
	}
	if o.ReadOnly {
		args = append(args, "-readonly")
	}
	cmd := exec.Command(self, args...)
	logf, _ := os.CreateTemp("", "dvh-stderr")
	cmd.Stderr = logf
	in, _ := cmd.StdinPipe()
	outp, _ := cmd.StdoutPipe()
	if err := cmd.Start(); err != nil {
		return nil, err
	}
	p := &Proc{cmd: cmd, in: in, out: bufio.NewReaderSize(outp, 1<<20), Log: logf.Name()}
	logf.Close()
	r, ok := p.read()
	if !ok || !r.Ready {
		p.reap()
		msg := r.Err
		if msg == "" {
			msg = fmt.Sprintf("child exited with status %d before it was ready", p.Exit)
		}
		return p, fmt.Errorf("%s", msg)
	}
	p.Init, p.Meta0 = r.Init, r.Meta
	return p, nil
}

func (p *Proc) read() (Resp, bool) {
	line, err := p.out.ReadBytes('\n')
	var r Resp
	if len(line) > 0 && json.Unmarshal(line, &r) == nil {
		return r, true
	}
	_ = err
	return r, false
}

func (p *Proc) reap() {
	if p.Dead {
		return
	}
	p.in.Close()
	err := p.cmd.Wait()
	p.Dead = true
	if ee, ok := err.(*exec.ExitError); ok {
		if ws, ok := ee.Sys().(syscall.WaitStatus); ok && ws.Signaled() {
			p.Exit = 128 + int(ws.Signal())
		} else {
			p.Exit = ee.ExitCode()
		}
	}
	p.Stderr = p.StderrTail()
	os.Remove(p.Log)
}

func (p *Proc) call(rq Req) (Resp, bool) {
	if p.Dead {
		return Resp{}, false
	}
	b, _ := json.Marshal(rq)
	if _, err := p.in.Write(append(b, '\n')); err != nil {
		p.reap()
		return Resp{}, false
	}
	r, ok := p.read()
	if !ok {
		p.reap()
	}
	return r, ok
}

// HTTP issues one request; alive is false when the child died instead of answering.
func (p *Proc) HTTP(method, url string, body []byte) (status int, respBody []byte, alive bool) {
	r, ok := p.call(Req{Op: "http", M: method, U: url, B: body})
	if r.Panic {
		return 599, []byte(r.Err), ok
	}
	return r.S, r.B, ok
}

func (p *Proc) Get(url string) (int, []byte, bool)            { return p.HTTP("GET", url, nil) }
func (p *Proc) Post(url string, b []byte) (int, []byte, bool) { return p.HTTP("POST", url, b) }
func (p *Proc) PostJSON(url string, v interface{}) (int, []byte, bool) {
	b, _ := json.Marshal(v)
	return p.HTTP("POST", url, b)
}

// Writes returns the metadata/data write counts and the metadata write trace of the child.
func (p *Proc) Writes() (meta, data int, trace []string) {
	r, _ := p.call(Req{Op: "writes"})
	return r.Meta, r.Data, r.Trace
}

// Txns returns whether the child sees the underlying DB's read-write transactions at all (the DVID
// tree carries the storage/badger hook), how many have completed, the ordinals of those that were
// followed by another transaction inside the same store call, and of those outside any counted call.
func (p *Proc) Txns() (hook bool, n int, interior, loose []int) {
	r, _ := p.call(Req{Op: "writes"})
	return r.TxnHook, r.Txn, r.Interior, r.Loose
}

// Call issues a non-HTTP request (delrepo, deldata, iid, mutid).
func (p *Proc) Call(op, uuid, name string) (Resp, bool) {
	return p.call(Req{Op: op, U: uuid, Name: name})
}

// Rename renames a data instance (RPC-only in DVID).
func (p *Proc) Rename(uuid, oldname, newname string) (Resp, bool) {
	return p.call(Req{Op: "rename", U: uuid, Name: oldname, M: newname})
}

// RawCount returns the number of keys stored under an instance id (whatever the repo says).
func (p *Proc) RawCount(iid int) int {
	r, _ := p.call(Req{Op: "rawcount", Ms: iid})
	return int(r.N)
}

// Plan arranges a crash relative to the child's current write counts: "meta:+1:before" etc.
func (p *Proc) Plan(spec string) { p.call(Req{Op: "plan", U: spec}) }

// WritesDone returns the numbers of metadata and data writes whose store call has returned.
func (p *Proc) WritesDone() (meta, data int) {
	r, _ := p.call(Req{Op: "writes"})
	return r.MetaDone, r.DataDone
}

func (p *Proc) Sleep(ms int) { p.call(Req{Op: "sleep", Ms: ms}) }

// Quit shuts the child down cleanly (datastore.Shutdown, storage.Shutdown).
func (p *Proc) Quit() {
	if p.Dead {
		return
	}
	p.call(Req{Op: "quit"})
	p.reap()
}

// Kill sends SIGKILL (abrupt process exit while idle).
func (p *Proc) Kill() {
	if p.Dead {
		return
	}
	p.cmd.Process.Kill()
	p.reap()
}

// StderrTail returns the end of the child's stderr (for diagnostics), if still present.
func (p *Proc) StderrTail() string {
	b, err := os.ReadFile(p.Log)
	if err != nil {
		return ""
	}
	s := string(b)
	if len(s) > 2000 {
		s = s[len(s)-2000:]
	}
	return strings.TrimSpace(s)
}
