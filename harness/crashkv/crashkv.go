// Package crashkv: a storage engine that wraps DVID's badger engine, counts the writes issued
// through the store interface (Put / Delete / PutRange / DeleteRange / DeleteAll), records the
// metadata writes as a trace, and can kill the process (os.Exit, nothing flushed, no deferred
// function run) immediately before or immediately after the N-th write of a class.
//
// Below the store interface: when the DVID tree carries the transaction hook of storage/badger
// (repo_patches/C04-hook.diff: the yield points "storage.badger.txn.begin" / ".done" around every
// db.Update), the read-write transactions are counted too, and the process can be killed at the
// N-th transaction of the process (class "txn") -- in particular BETWEEN two transactions of one
// store call.  Txns() reports which transactions were followed by another one inside the same
// store call ("interior") and which ran outside any counted store call ("loose"); without the
// hook no transaction is ever seen (TxnHook() is false) and the class "txn" is never reached.
//
// Registered through storage.RegisterEngine as engine "crashkv"; the store config is the badger
// config ("path").  Every method that is not overridden is the embedded *badger.BadgerDB's, so all
// interface assertions made by DVID (OrderedKeyValueDB, KeyValueBatcher, ...) still hold.
package crashkv

import (
	"bytes"
	"fmt"
	"os"
	"runtime"
	"strconv"
	"sync"
	"time"

	"github.com/blang/semver"

	"github.com/janelia-flyem/dvid/dvid"
	"github.com/janelia-flyem/dvid/dvid/verifhook"
	"github.com/janelia-flyem/dvid/storage"
	"github.com/janelia-flyem/dvid/storage/badger"
)

// GraceAfter is the pause between the return of the N-th write and the process exit in After mode.
var GraceAfter = 10 * time.Millisecond

// ExitCode is the status of a process killed by an injected crash.
const ExitCode = 77

type Engine struct{}

func (Engine) GetName() string { return "crashkv" }
func (Engine) GetDescription() string {
	return "badger wrapped with write counting and crash injection (verification harness)"
}
func (Engine) IsDistributed() bool { return false }
func (Engine) GetSemVer() semver.Version {
	v, _ := semver.Make("0.1.0")
	return v
}
func (Engine) String() string { return "crashkv [0.1.0]" }

func (Engine) NewStore(config dvid.StoreConfig) (dvid.Store, bool, error) {
	inner := storage.GetEngine("badger")
	if inner == nil {
		return nil, false, fmt.Errorf("crashkv: badger engine not compiled in (build with -tags badger)")
	}
	ic := config
	ic.Engine = "badger"
	st, created, err := inner.NewStore(ic)
	if err != nil {
		return nil, false, err
	}
	db, ok := st.(*badger.BadgerDB)
	if !ok {
		return nil, false, fmt.Errorf("crashkv: unexpected badger store type %T", st)
	}
	return &Store{BadgerDB: db}, created, nil
}

func Register() {
	storage.RegisterEngine(Engine{})
	verifhook.Set(txnEvent)
}

// ---- the global plan (one per process) ----

// Mode of an injected crash.
const (
	Before = "before" // the N-th write is not applied
	After  = "after"  // the N-th write is applied (badger's Update returned), then the process dies
)

var (
	mu        sync.Mutex
	metaCount int
	dataCount int
	metaDone  int // writes whose store call has returned
	dataDone  int
	trace     []string // metadata writes, in order: "P<class>[:id]" / "D<class>[:id]"
	planClass string   // "meta" | "data" | "txn" | ""
	planN     int
	planMode  string
	dying     bool

	// read-write transactions of the underlying badger DB (seen only with the storage/badger hook)
	txnBegun int
	txnDone  int
	interior []int                 // ordinals of transactions followed by another one in the same store call
	loose    []int                 // ordinals of transactions outside any counted store call
	inWrite  = map[int64]*wstate{} // goroutine -> the counted store call it is executing
)

type wstate struct {
	txns    int // transactions this store call has completed
	lastOrd int // ordinal of the last of them
}

func goid() int64 {
	var buf [64]byte
	b := buf[:runtime.Stack(buf[:], false)]
	b = bytes.TrimPrefix(b, []byte("goroutine "))
	if i := bytes.IndexByte(b, ' '); i > 0 {
		n, _ := strconv.ParseInt(string(b[:i]), 10, 64)
		return n
	}
	return -1
}

// txnEvent is the verifhook callback.
func txnEvent(site string) {
	switch site {
	case "storage.badger.txn.begin":
		g := goid()
		mu.Lock()
		if dying {
			mu.Unlock()
			select {}
		}
		txnBegun++
		n := txnBegun
		if ws := inWrite[g]; ws != nil && ws.txns > 0 {
			interior = append(interior, ws.lastOrd)
		}
		hit := planClass == "txn" && planN == n && planMode == Before
		mu.Unlock()
		if hit {
			os.Exit(ExitCode)
		}
	case "storage.badger.txn.done":
		g := goid()
		mu.Lock()
		txnDone++
		n := txnDone
		if ws := inWrite[g]; ws != nil {
			ws.txns++
			ws.lastOrd = n
		} else {
			loose = append(loose, n)
		}
		hit := planClass == "txn" && planN == n && planMode == After
		if os.Getenv("CRASHKV_DEBUG") != "" {
			fmt.Fprintf(os.Stderr, "crashkv txn n=%d inwrite=%v hit=%v\n", n, inWrite[g] != nil, hit)
		}
		if hit {
			dying = true
		}
		mu.Unlock()
		if hit {
			time.Sleep(GraceAfter)
			os.Exit(ExitCode)
		}
	}
}

// TxnHook reports whether any transaction of the underlying DB was seen (the DVID tree has the hook).
func TxnHook() bool {
	mu.Lock()
	defer mu.Unlock()
	return txnBegun > 0
}

// Txns returns the number of completed transactions, the ordinals of those followed by another
// transaction inside the same store call, and of those outside any counted store call.
func Txns() (done int, inner, outside []int) {
	mu.Lock()
	defer mu.Unlock()
	return txnDone, append([]int{}, interior...), append([]int{}, loose...)
}

// Plan arranges process death at the n-th (1-based) write of the class.
func Plan(class string, n int, mode string) {
	mu.Lock()
	planClass, planN, planMode = class, n, mode
	mu.Unlock()
}

// Done returns the number of metadata and data writes whose store call has returned.
func Done() (meta, data int) {
	mu.Lock()
	defer mu.Unlock()
	return metaDone, dataDone
}

// Counts returns the number of metadata and data writes seen so far and the metadata trace.
func Counts() (meta, data int, tr []string) {
	mu.Lock()
	defer mu.Unlock()
	return metaCount, dataCount, append([]string{}, trace...)
}

func classify(ctx storage.Context) string {
	if _, ok := ctx.(storage.MetadataContext); ok {
		return "meta"
	}
	return "data"
}

func label(op string, tk storage.TKey) string {
	if len(tk) == 0 {
		return op + "?"
	}
	s := fmt.Sprintf("%s%d", op, tk[0])
	if len(tk) >= 6 { // class byte, standard byte, 4-byte repo id
		id := uint32(tk[2])<<24 | uint32(tk[3])<<16 | uint32(tk[4])<<8 | uint32(tk[5])
		s += fmt.Sprintf(":%d", id)
	}
	return s
}

// around runs one write with the crash plan applied.
func around(class, lbl string, f func() error) error {
	mu.Lock()
	if dying {
		// the process is in its grace period before an injected death: no further write may start
		mu.Unlock()
		select {}
	}
	var n int
	if class == "meta" {
		metaCount++
		n = metaCount
		trace = append(trace, lbl)
	} else {
		dataCount++
		n = dataCount
	}
	hit := planClass == class && planN == n
	if os.Getenv("CRASHKV_DEBUG") != "" {
		fmt.Fprintf(os.Stderr, "crashkv %s %s n=%d plan=%s:%d:%s hit=%v\n", class, lbl, n, planClass, planN, planMode, hit)
	}
	mode := planMode
	g := goid()
	inWrite[g] = &wstate{}
	mu.Unlock()
	if hit && mode == Before {
		os.Exit(ExitCode)
	}
	err := f()
	mu.Lock()
	delete(inWrite, g)
	if class == "meta" {
		metaDone++
	} else {
		dataDone++
	}
	mu.Unlock()
	if hit && mode == After {
		// the write has returned; a short grace before the process dies (the engine is trusted to keep
		// a write it acknowledged — the drivers re-execute a point whose outcome contradicts that)
		mu.Lock()
		dying = true
		mu.Unlock()
		time.Sleep(GraceAfter)
		os.Exit(ExitCode)
	}
	return err
}

// Store is the wrapped badger store.
type Store struct {
	*badger.BadgerDB
}

func (s *Store) String() string { return "crashkv over " + s.BadgerDB.String() }

func (s *Store) Put(ctx storage.Context, tk storage.TKey, v []byte) error {
	return around(classify(ctx), label("P", tk), func() error { return s.BadgerDB.Put(ctx, tk, v) })
}

func (s *Store) Delete(ctx storage.Context, tk storage.TKey) error {
	return around(classify(ctx), label("D", tk), func() error { return s.BadgerDB.Delete(ctx, tk) })
}

func (s *Store) PutRange(ctx storage.Context, kvs []storage.TKeyValue) error {
	return around(classify(ctx), "R", func() error { return s.BadgerDB.PutRange(ctx, kvs) })
}

func (s *Store) DeleteRange(ctx storage.Context, kStart, kEnd storage.TKey) error {
	return around(classify(ctx), "X", func() error { return s.BadgerDB.DeleteRange(ctx, kStart, kEnd) })
}

func (s *Store) DeleteAll(ctx storage.Context) error {
	return around(classify(ctx), "A", func() error { return s.BadgerDB.DeleteAll(ctx) })
}
