// Package crashkv: a storage engine that wraps DVID's badger engine, counts the writes issued
// through the store interface (Put / Delete / PutRange / DeleteRange / DeleteAll), records the
// metadata writes as a trace, and can kill the process (os.Exit, nothing flushed, no deferred
// function run) immediately before or immediately after the N-th write of a class.
//
// Registered through storage.RegisterEngine as engine "crashkv"; the store config is the badger
// config ("path").  Every method that is not overridden is the embedded *badger.BadgerDB's, so all
// interface assertions made by DVID (OrderedKeyValueDB, KeyValueBatcher, ...) still hold.
package crashkv

import (
	"fmt"
	"os"
	"sync"
	"time"

	"github.com/blang/semver"

	"github.com/janelia-flyem/dvid/dvid"
	"github.com/janelia-flyem/dvid/storage"
	"github.com/janelia-flyem/dvid/storage/badger"
)

// GraceAfter is the pause between the return of the N-th write and the process exit in After mode.
var GraceAfter = 10 * time.Millisecond

// ExitCode is the status of a process killed by an injected crash.
const ExitCode = 77

type Engine struct{}

func (Engine) GetName() string { return "crashkv" }
func (Engine) GetDescription() string {
	return "badger wrapped with write counting and crash injection (verification harness)"
}
func (Engine) IsDistributed() bool { return false }
func (Engine) GetSemVer() semver.Version {
	v, _ := semver.Make("0.1.0")
	return v
}
func (Engine) String() string { return "crashkv [0.1.0]" }

func (Engine) NewStore(config dvid.StoreConfig) (dvid.Store, bool, error) {
	inner := storage.GetEngine("badger")
	if inner == nil {
		return nil, false, fmt.Errorf("crashkv: badger engine not compiled in (build with -tags badger)")
	}
	ic := config
	ic.Engine = "badger"
	st, created, err := inner.NewStore(ic)
	if err != nil {
		return nil, false, err
	}
	db, ok := st.(*badger.BadgerDB)
	if !ok {
		return nil, false, fmt.Errorf("crashkv: unexpected badger store type %T", st)
	}
	return &Store{BadgerDB: db}, created, nil
}

func Register() { storage.RegisterEngine(Engine{}) }

// ---- the global plan (one per process) ----

// Mode of an injected crash.
const (
	Before = "before" // the N-th write is not applied
	After  = "after"  // the N-th write is applied (badger's Update returned), then the process dies
)

var (
	mu        sync.Mutex
	metaCount int
	dataCount int
	metaDone  int // writes whose store call has returned
	dataDone  int
	trace     []string // metadata writes, in order: "P<class>[:id]" / "D<class>[:id]"
	planClass string   // "meta" | "data" | ""
	planN     int
	planMode  string
	dying     bool
)

// Plan arranges process death at the n-th (1-based) write of the class.
func Plan(class string, n int, mode string) {
	mu.Lock()
	planClass, planN, planMode = class, n, mode
	mu.Unlock()
}

// Done returns the number of metadata and data writes whose store call has returned.
func Done() (meta, data int) {
	mu.Lock()
	defer mu.Unlock()
	return metaDone, dataDone
}

// Counts returns the number of metadata and data writes seen so far and the metadata trace.
func Counts() (meta, data int, tr []string) {
	mu.Lock()
	defer mu.Unlock()
	return metaCount, dataCount, append([]string{}, trace...)
}

func classify(ctx storage.Context) string {
	if _, ok := ctx.(storage.MetadataContext); ok {
		return "meta"
	}
	return "data"
}

func label(op string, tk storage.TKey) string {
	if len(tk) == 0 {
		return op + "?"
	}
	s := fmt.Sprintf("%s%d", op, tk[0])
	if len(tk) >= 6 { // class byte, standard byte, 4-byte repo id
		id := uint32(tk[2])<<24 | uint32(tk[3])<<16 | uint32(tk[4])<<8 | uint32(tk[5])
		s += fmt.Sprintf(":%d", id)
	}
	return s
}

// around runs one write with the crash plan applied.
func around(class, lbl string, f func() error) error {
	mu.Lock()
	if dying {
		// the process is in its grace period before an injected death: no further write may start
		mu.Unlock()
		select {}
	}
	var n int
	if class == "meta" {
		metaCount++
		n = metaCount
		trace = append(trace, lbl)
	} else {
		dataCount++
		n = dataCount
	}
	hit := planClass == class && planN == n
	if os.Getenv("CRASHKV_DEBUG") != "" {
		fmt.Fprintf(os.Stderr, "crashkv %s %s n=%d plan=%s:%d:%s hit=%v\n", class, lbl, n, planClass, planN, planMode, hit)
	}
	mode := planMode
	mu.Unlock()
	if hit && mode == Before {
		os.Exit(ExitCode)
	}
	err := f()
	mu.Lock()
	if class == "meta" {
		metaDone++
	} else {
		dataDone++
	}
	mu.Unlock()
	if hit && mode == After {
		// the write has returned; a short grace before the process dies (the engine is trusted to keep
		// a write it acknowledged — the drivers re-execute a point whose outcome contradicts that)
		mu.Lock()
		dying = true
		mu.Unlock()
		time.Sleep(GraceAfter)
		os.Exit(ExitCode)
	}
	return err
}

// Store is the wrapped badger store.
type Store struct {
	*badger.BadgerDB
}

func (s *Store) String() string { return "crashkv over " + s.BadgerDB.String() }

func (s *Store) Put(ctx storage.Context, tk storage.TKey, v []byte) error {
	return around(classify(ctx), label("P", tk), func() error { return s.BadgerDB.Put(ctx, tk, v) })
}

func (s *Store) Delete(ctx storage.Context, tk storage.TKey) error {
	return around(classify(ctx), label("D", tk), func() error { return s.BadgerDB.Delete(ctx, tk) })
}

func (s *Store) PutRange(ctx storage.Context, kvs []storage.TKeyValue) error {
	return around(classify(ctx), "R", func() error { return s.BadgerDB.PutRange(ctx, kvs) })
}

func (s *Store) DeleteRange(ctx storage.Context, kStart, kEnd storage.TKey) error {
	return around(classify(ctx), "X", func() error { return s.BadgerDB.DeleteRange(ctx, kStart, kEnd) })
}

func (s *Store) DeleteAll(ctx storage.Context) error {
	return around(classify(ctx), "A", func() error { return s.BadgerDB.DeleteAll(ctx) })
}
