// dvh: the child-process DVID server used by the restart/crash drivers, stand-alone.
// Usage: dvh -dir D [-crash meta:N:before|after]   (JSON-lines requests on stdin, see harness/dvh)
package main

import (
	"os"

	"verif/harness/dvh"
)

func main() { dvh.Main(os.Args[1:]) }
