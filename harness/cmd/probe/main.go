package main

import (
	"fmt"

	"github.com/janelia-flyem/dvid/dvid"
)

func main() {
	b, err := dvid.SerializeData([]byte("hello"), dvid.LZ4, dvid.CRC32)
	fmt.Println(b, err)
}
