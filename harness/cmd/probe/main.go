package main

import (
	"fmt"
	"runtime/debug"

	"github.com/janelia-flyem/dvid/datastore"
	"github.com/janelia-flyem/dvid/dvid"
	"verif/harness/dv"
)

func main() {
	dv.Quiet()
	dv.Open()
	defer dv.Close()
	root, _ := dv.NewRepo("t")
	fmt.Println(dv.NewInstance(root, "uint8blk", "src", nil))
	defer func() {
		if e := recover(); e != nil {
			fmt.Println("PANIC", e)
			fmt.Println(string(debug.Stack()))
		}
	}()
	fmt.Println(datastore.CopyInstance(dvid.UUID(root), "src", "dst", dvid.NewConfig()))
}
