package main

// gen_funcs: a small translator from straight-line integer Go functions to Gallina
// (coq/Gen/Funcs.v).  Supported: parameters and locals of (named) fixed-width integer types,
// fields of struct parameters, := / = / op= / ++ / --, var declarations, if/else whose bodies are
// of the same kind (with early return), return (bare with named results too), the integer
// operators, comparisons with && || !, and conversions T(x).  Every typed operation is wrapped
// to its width (Base/GoInt.v).  Anything else is an error: the translator fails closed.

import (
	"fmt"
	"go/ast"
	"go/token"
	"path/filepath"
	"sort"
	"strings"
)

type funcItem struct{ coq, pkg, key string }

var funcItems []funcItem

func regFunc(coq, pkg, key string) { funcItems = append(funcItems, funcItem{coq, pkg, key}) }

func init() { generators = append(generators, genFuncs) }

type gtype struct {
	bits    int // 0 = untyped constant
	signed  bool
	isBool  bool
	strct   *ast.StructType
	typName string
}

type ftrans struct {
	p     *pkgInfo
	f     *ast.File
	vars  map[string]gtype // Go variable -> type
	named []string         // named results
	nres  int
}

func (t *ftrans) fail(n ast.Node, msg string) {
	fail("gen_funcs: %s at %s", msg, t.p.fset.Position(n.Pos()))
}

// resolveType maps a type expression to a gtype, following named types of the package.
func (t *ftrans) resolveType(e ast.Expr) gtype {
	switch x := e.(type) {
	case *ast.Ident:
		if b, ok := intTypes[x.Name]; ok {
			if b < 0 {
				return gtype{bits: -b, signed: true}
			}
			return gtype{bits: b}
		}
		if x.Name == "bool" {
			return gtype{isBool: true}
		}
		for _, f := range t.p.files {
			for _, d := range f.Decls {
				gd, ok := d.(*ast.GenDecl)
				if !ok || gd.Tok != token.TYPE {
					continue
				}
				for _, s := range gd.Specs {
					ts := s.(*ast.TypeSpec)
					if ts.Name.Name == x.Name {
						if st, ok := ts.Type.(*ast.StructType); ok {
							return gtype{strct: st, typName: x.Name}
						}
						g := t.resolveType(ts.Type)
						g.typName = x.Name
						return g
					}
				}
			}
		}
	}
	t.fail(e, "unsupported type")
	return gtype{}
}

func wrapOf(g gtype, s string) string {
	if g.bits == 0 {
		return s
	}
	if g.signed {
		return fmt.Sprintf("(wrapS %d %s)", g.bits, s)
	}
	return fmt.Sprintf("(wrapU %d %s)", g.bits, s)
}

func coqVar(name string) string { return "v_" + name }

func (t *ftrans) expr(e ast.Expr) (string, gtype) {
	switch x := e.(type) {
	case *ast.BasicLit:
		if x.Kind == token.INT || x.Kind == token.CHAR {
			v := t.p.eval(x, 0, t.f)
			return coqZ(v) + "%Z", gtype{}
		}
	case *ast.Ident:
		if g, ok := t.vars[x.Name]; ok {
			return coqVar(x.Name), g
		}
		if c, ok := t.p.consts[x.Name]; ok {
			v := t.p.constVal(x.Name)
			g := gtype{}
			if c.typName != "" {
				g = t.resolveType(ast.NewIdent(c.typName))
			}
			return coqZ(v) + "%Z", g
		}
	case *ast.ParenExpr:
		return t.expr(x.X)
	case *ast.SelectorExpr:
		if id, ok := x.X.(*ast.Ident); ok {
			if g, ok := t.vars[id.Name]; ok && g.strct != nil {
				for _, fld := range g.strct.Fields.List {
					for _, n := range fld.Names {
						if n.Name == x.Sel.Name {
							return coqVar(id.Name + "_" + n.Name), t.resolveType(fld.Type)
						}
					}
				}
			}
			if dir, ok := importDir(t.f, id.Name); ok {
				v := loadPkg(dir).constVal(x.Sel.Name)
				return coqZ(v) + "%Z", gtype{}
			}
		}
	case *ast.UnaryExpr:
		s, g := t.expr(x.X)
		switch x.Op {
		case token.SUB:
			return wrapOf(g, "(Z.opp "+s+")"), g
		case token.XOR:
			return wrapOf(g, "(Z.lnot "+s+")"), g
		case token.ADD:
			return s, g
		}
	case *ast.CallExpr:
		if len(x.Args) == 1 {
			if id, ok := x.Fun.(*ast.Ident); ok {
				g := t.resolveType(id)
				s, _ := t.expr(x.Args[0])
				return wrapOf(g, s), g
			}
		}
	case *ast.BinaryExpr:
		a, ga := t.expr(x.X)
		b, gb := t.expr(x.Y)
		g := ga
		if x.Op != token.SHL && x.Op != token.SHR {
			if g.bits == 0 {
				g = gb
			} else if gb.bits != 0 && (gb.bits != ga.bits || gb.signed != ga.signed) {
				t.fail(e, "mixed operand types")
			}
		}
		var op string
		switch x.Op {
		case token.ADD:
			op = "Z.add"
		case token.SUB:
			op = "Z.sub"
		case token.MUL:
			op = "Z.mul"
		case token.QUO:
			op = "Z.quot"
		case token.REM:
			op = "Z.rem"
		case token.AND:
			op = "Z.land"
		case token.OR:
			op = "Z.lor"
		case token.XOR:
			op = "Z.lxor"
		case token.AND_NOT:
			return wrapOf(g, fmt.Sprintf("(Z.land %s (Z.lnot %s))", a, b)), g
		case token.SHL:
			op = "Z.shiftl"
		case token.SHR:
			op = "Z.shiftr"
		}
		if op != "" {
			return wrapOf(g, fmt.Sprintf("(%s %s %s)", op, a, b)), g
		}
	}
	t.fail(e, "unsupported expression")
	return "", gtype{}
}

func (t *ftrans) cond(e ast.Expr) string {
	switch x := e.(type) {
	case *ast.ParenExpr:
		return t.cond(x.X)
	case *ast.UnaryExpr:
		if x.Op == token.NOT {
			return "(negb " + t.cond(x.X) + ")"
		}
	case *ast.BinaryExpr:
		switch x.Op {
		case token.LAND:
			return "(andb " + t.cond(x.X) + " " + t.cond(x.Y) + ")"
		case token.LOR:
			return "(orb " + t.cond(x.X) + " " + t.cond(x.Y) + ")"
		}
		a, _ := t.expr(x.X)
		b, _ := t.expr(x.Y)
		switch x.Op {
		case token.EQL:
			return fmt.Sprintf("(Z.eqb %s %s)", a, b)
		case token.NEQ:
			return fmt.Sprintf("(negb (Z.eqb %s %s))", a, b)
		case token.LSS:
			return fmt.Sprintf("(Z.ltb %s %s)", a, b)
		case token.LEQ:
			return fmt.Sprintf("(Z.leb %s %s)", a, b)
		case token.GTR:
			return fmt.Sprintf("(Z.ltb %s %s)", b, a)
		case token.GEQ:
			return fmt.Sprintf("(Z.leb %s %s)", b, a)
		}
	}
	t.fail(e, "unsupported condition")
	return ""
}

// assigned collects the variables (declared outside) that a statement list assigns.
func (t *ftrans) assigned(stmts []ast.Stmt, out map[string]bool) {
	for _, s := range stmts {
		switch x := s.(type) {
		case *ast.AssignStmt:
			if x.Tok == token.DEFINE {
				continue
			}
			for _, l := range x.Lhs {
				if id, ok := l.(*ast.Ident); ok {
					out[id.Name] = true
				}
			}
		case *ast.IncDecStmt:
			if id, ok := x.X.(*ast.Ident); ok {
				out[id.Name] = true
			}
		case *ast.IfStmt:
			t.assigned(x.Body.List, out)
			if x.Else != nil {
				if b, ok := x.Else.(*ast.BlockStmt); ok {
					t.assigned(b.List, out)
				}
			}
		}
	}
}

func endsInReturn(stmts []ast.Stmt) bool {
	if len(stmts) == 0 {
		return false
	}
	_, ok := stmts[len(stmts)-1].(*ast.ReturnStmt)
	return ok
}

// block translates stmts followed by the continuation k (a Gallina term as a string, produced lazily).
func (t *ftrans) block(stmts []ast.Stmt, k func() string) string {
	if len(stmts) == 0 {
		return k()
	}
	s, rest := stmts[0], stmts[1:]
	switch x := s.(type) {
	case *ast.ReturnStmt:
		if len(x.Results) == 0 {
			var rs []string
			for _, n := range t.named {
				rs = append(rs, coqVar(n))
			}
			return tuple(rs)
		}
		var rs []string
		for _, r := range x.Results {
			e, _ := t.expr(r)
			rs = append(rs, e)
		}
		return tuple(rs)
	case *ast.DeclStmt:
		gd, ok := x.Decl.(*ast.GenDecl)
		if !ok || gd.Tok != token.VAR {
			t.fail(s, "unsupported declaration")
		}
		var lets []string
		for _, sp := range gd.Specs {
			vs := sp.(*ast.ValueSpec)
			g := t.resolveType(vs.Type)
			for i, n := range vs.Names {
				t.vars[n.Name] = g
				val := "0%Z"
				if i < len(vs.Values) {
					e, _ := t.expr(vs.Values[i])
					val = wrapOf(g, e)
				}
				lets = append(lets, fmt.Sprintf("let %s := %s in", coqVar(n.Name), val))
			}
		}
		return strings.Join(lets, " ") + " " + t.block(rest, k)
	case *ast.IncDecStmt:
		id, ok := x.X.(*ast.Ident)
		if !ok {
			t.fail(s, "unsupported inc/dec target")
		}
		g := t.vars[id.Name]
		op := "Z.add"
		if x.Tok == token.DEC {
			op = "Z.sub"
		}
		return fmt.Sprintf("let %s := %s in %s", coqVar(id.Name), wrapOf(g, fmt.Sprintf("(%s %s 1%%Z)", op, coqVar(id.Name))), t.block(rest, k))
	case *ast.AssignStmt:
		if len(x.Lhs) != len(x.Rhs) {
			t.fail(s, "unsupported multi-value assignment")
		}
		// evaluate all right-hand sides first (Go semantics), then bind
		var tmp, fin []string
		for i, l := range x.Lhs {
			id, ok := l.(*ast.Ident)
			if !ok {
				t.fail(s, "unsupported assignment target")
			}
			e, ge := t.expr(x.Rhs[i])
			var g gtype
			switch x.Tok {
			case token.DEFINE:
				g = ge
				if g.bits == 0 && !g.isBool {
					g = gtype{bits: 64, signed: true} // untyped constant defaults to int
				}
				t.vars[id.Name] = g
			case token.ASSIGN:
				g = t.vars[id.Name]
			default:
				g = t.vars[id.Name]
				cur := coqVar(id.Name)
				var op string
				switch x.Tok {
				case token.ADD_ASSIGN:
					op = "Z.add"
				case token.SUB_ASSIGN:
					op = "Z.sub"
				case token.MUL_ASSIGN:
					op = "Z.mul"
				case token.OR_ASSIGN:
					op = "Z.lor"
				case token.AND_ASSIGN:
					op = "Z.land"
				case token.XOR_ASSIGN:
					op = "Z.lxor"
				case token.SHL_ASSIGN:
					op = "Z.shiftl"
				case token.SHR_ASSIGN:
					op = "Z.shiftr"
				case token.QUO_ASSIGN:
					op = "Z.quot"
				case token.REM_ASSIGN:
					op = "Z.rem"
				default:
					t.fail(s, "unsupported assignment operator")
				}
				e = fmt.Sprintf("(%s %s %s)", op, cur, e)
			}
			if _, ok := t.vars[id.Name]; !ok {
				t.fail(s, "assignment to unknown variable "+id.Name)
			}
			if len(x.Lhs) == 1 {
				fin = append(fin, fmt.Sprintf("let %s := %s in", coqVar(id.Name), wrapOf(g, e)))
			} else {
				tmp = append(tmp, fmt.Sprintf("let t_%d := %s in", i, wrapOf(g, e)))
				fin = append(fin, fmt.Sprintf("let %s := t_%d in", coqVar(id.Name), i))
			}
		}
		return strings.Join(append(tmp, fin...), " ") + " " + t.block(rest, k)
	case *ast.IfStmt:
		if x.Init != nil {
			t.fail(s, "if with init statement")
		}
		c := t.cond(x.Cond)
		var elseList []ast.Stmt
		if x.Else != nil {
			b, ok := x.Else.(*ast.BlockStmt)
			if !ok {
				t.fail(s, "else-if chains are not supported")
			}
			elseList = b.List
		}
		thenRet, elseRet := endsInReturn(x.Body.List), endsInReturn(elseList)
		cont := func() string { return t.block(rest, k) }
		if thenRet || elseRet {
			thenS, elseS := "", ""
			if thenRet {
				thenS = t.block(x.Body.List, nil)
			} else {
				thenS = t.block(x.Body.List, cont)
			}
			if elseRet {
				elseS = t.block(elseList, nil)
			} else {
				elseS = t.block(elseList, cont)
			}
			return fmt.Sprintf("(if %s then %s else %s)", c, thenS, elseS)
		}
		set := map[string]bool{}
		t.assigned(x.Body.List, set)
		t.assigned(elseList, set)
		var vs []string
		for v := range set {
			if _, ok := t.vars[v]; ok {
				vs = append(vs, v)
			}
		}
		sort.Strings(vs)
		var cv []string
		for _, v := range vs {
			cv = append(cv, coqVar(v))
		}
		tup := tuple(cv)
		retTup := func() string { return tup }
		thenS := t.block(x.Body.List, retTup)
		elseS := t.block(elseList, retTup)
		pat := tup
		if len(cv) > 1 {
			pat = "'" + tup
		}
		return fmt.Sprintf("let %s := (if %s then %s else %s) in %s", pat, c, thenS, elseS, t.block(rest, k))
	}
	t.fail(s, "unsupported statement")
	return ""
}

func tuple(xs []string) string {
	if len(xs) == 1 {
		return xs[0]
	}
	return "(" + strings.Join(xs, ", ") + ")"
}

func genFuncs() {
	if len(funcItems) == 0 {
		return
	}
	var b strings.Builder
	b.WriteString("(* GENERATED by harness/cmd/gen (gen_funcs.go) from the Go source of /repo. Do not edit. *)\n")
	b.WriteString("From Coq Require Import ZArith Bool.\nFrom DV Require Import Base.GoInt.\nLocal Open Scope Z_scope.\n\n")
	sort.SliceStable(funcItems, func(i, j int) bool { return funcItems[i].coq < funcItems[j].coq })
	for _, it := range funcItems {
		it := it
		var fb strings.Builder
		if !isolated("func "+it.pkg+"."+it.key, func() {
			p := loadPkg(it.pkg)
			fd, ok := p.funcs[it.key]
			if !ok {
				fail("gen_funcs: function %s not found in %s", it.key, it.pkg)
			}
			var file *ast.File
			for _, f := range p.files {
				if f.Pos() <= fd.Pos() && fd.End() <= f.End() {
					file = f
				}
			}
			t := &ftrans{p: p, f: file, vars: map[string]gtype{}}
			var params []string
			for _, fld := range fd.Type.Params.List {
				g := t.resolveType(fld.Type)
				for _, n := range fld.Names {
					t.vars[n.Name] = g
					if g.strct != nil {
						for _, sf := range g.strct.Fields.List {
							for _, sn := range sf.Names {
								params = append(params, coqVar(n.Name+"_"+sn.Name))
							}
						}
					} else {
						params = append(params, coqVar(n.Name))
					}
				}
			}
			var pre []string
			if fd.Type.Results != nil {
				for _, fld := range fd.Type.Results.List {
					g := t.resolveType(fld.Type)
					for _, n := range fld.Names {
						t.vars[n.Name] = g
						t.named = append(t.named, n.Name)
						pre = append(pre, fmt.Sprintf("let %s := 0%%Z in", coqVar(n.Name)))
					}
				}
			}
			body := t.block(fd.Body.List, func() string {
				fail("gen_funcs: %s: control reaches the end of the function without return", it.key)
				return ""
			})
			fmt.Fprintf(&fb, "(* %s: func %s *)\nDefinition f_%s (%s : Z) :=\n  %s %s.\n\n", it.pkg, it.key, it.coq,
				strings.Join(params, " "), strings.Join(pre, " "), body)
		}) {
			continue
		}
		b.WriteString(fb.String())
	}
	writeIfChanged(filepath.Join(*out, "Funcs.v"), b.String())
}
