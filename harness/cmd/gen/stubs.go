package main

func genFuncs()      {}
func genKeyClasses() {}
func genRoutes()     {}
func genLocks()      {}
