package main

// gen_locks: the lock table of the read-modify-write sites named by property C11
// (coq/Gen/Locks.v).
//
// For each site the translator walks the function body in source order (the statement list,
// descending into if / for / range bodies, and into the callees listed under `inline`) and
// emits the sequence of events it finds:
//
//	X.Lock() X.Unlock() X.RLock() X.RUnlock()   calls that are present in the AST (a commented-out
//	                                            call is a comment, not a statement)
//	defer X.Unlock()                            placed at the end of the function's events
//	db.Update(func(txn){...})                   a badger transaction: Lock "badger.txn", the
//	                                            closure's events, Unlock
//	calls / assignments / range expressions     classified per site as Read loc or Write loc
//	verifhook.Yield("name")                     a yield point
//
// plus a verdict computed here by a syntactic dominance check on that sequence: the exclusive
// mutex (Lock, not RLock) that is taken before the first access and released after the last one.
// Coq recomputes the verdict from the events (Model/ConcRun.v) and Props/C11.v checks both agree.
//
// Fail closed (exit 2): Lock and Unlock of one mutex in different statement lists (other than
// `Unlock; return` on an exit path), a Lock on an exit path, lock events under switch / select /
// go / a closure other than the transaction shape, an if/else with events on both arms and no
// `choose` entry for the exact condition text, locks still held at the end, a call to one of the
// known store-access functions that the site does not classify, a missing function.

import (
	"fmt"
	"go/ast"
	"go/token"
	"go/types"
	"path/filepath"
	"regexp"
	"sort"
	"strings"
)

func init() { generators = append(generators, genLocks) }

type lkEvent struct {
	kind string // Lock Unlock RLock RUnlock Read Write Yield
	arg  string // mutex, location or yield name
	src  string // file:line callee
}

type inlineSpec struct {
	pkg, fn string
	loc     map[string]string // override: location name -> location name inside the callee
	rename  map[string]string // mutex text -> name
}

type lockSite struct {
	name   string
	pkg    string
	fn     string
	reads  map[string][]string // "<EnclosingFunc>/<call>[#n]" or "<EnclosingFunc>/range <expr>" -> locations
	writes map[string][]string // same, or "<EnclosingFunc>/= <lhs>"
	ignore map[string]bool     // classified as no event (e.g. buffered into a batch)
	inline map[string]inlineSpec
	choose map[string]string // exact condition text -> "then" | "else"
	rename map[string]string // mutex text -> name
	// autoInline: calls of methods on this receiver name (same package as the function being
	// walked) are followed, so that transactions opened in a helper are seen
	autoInline string
	autoType   string
	// follow: same-package functions and methods of the receiver that the walk meets and that
	// mention one of the known store-access functions are walked too (a validation moved into a
	// helper stays visible)
	follow bool
}

// functions that touch a store or a shared in-memory structure: a site must classify every call
// to one of them that the walk meets.
var storeFuncs = map[string]bool{
	"getElements": true, "getElementsNR": true, "putElements": true, "putBatchElements": true,
	"batch.Commit": true, "getBlockElementsNR": true,
	"getCachedLabelIndex": true, "putCachedLabelIndex": true, "deleteCachedLabelIndex": true,
	"GetLabelIndex": true, "PutLabelIndex": true, "DeleteLabelIndex": true,
	"getLabelIndex": true, "putLabelIndex": true, "deleteLabelIndex": true,
	"d.getStoreData": true, "d.putStoreData": true, "d.deleteStoreData": true,
	"db.Put": true, "db.Delete": true, "db.Get": true, "txn.Set": true, "txn.Delete": true,
	"d.cleaveIndex": true, "ChangeLabelIndex": true, "addToLabelIndex": true,
	"addMergeToMapping": true, "addCleaveToMapping": true,
}

var annotationReads = map[string][]string{
	"Data.StoreElements/getElements":                {"block"},
	"Data.modifyElements/getElements":               {"block"},
	"Data.storeLabelElements/getElementsNR":         {"label"},
	"Data.modifyTagElements/getElementsNR":          {"tag"},
	"Data.DeleteElement/getElements":                {"block"},
	"Data.deleteElementInLabel/getElementsNR":       {"label"},
	"Data.deleteElementInTags/getElementsNR":        {"tag"},
	"Data.deleteElementInRelationships/getElements": {"block"},
	"Data.MoveElement/getElements":                  {"block"},
	"Data.moveElementInLabels/getElementsNR":        {"label"},
	"Data.moveElementInTags/getElementsNR":          {"tag"},
	"Data.moveElementInRelationships/getElements":   {"block"},
}

func annInline(fns ...string) map[string]inlineSpec {
	m := map[string]inlineSpec{}
	for _, f := range fns {
		m["d."+f] = inlineSpec{pkg: "datatype/annotation", fn: "Data." + f}
	}
	return m
}

var indexRename = map[string]string{"indexMu[shard]": "indexMu[target]"}

var lockSites = []lockSite{
	// the accesses inside storage/badger are classified by badgerTxnCall (txn.Set / Delete / Get on a
	// data key or on a tombstone key); every db.<method> helper is followed
	{name: "keyvalue.PutData", pkg: "datatype/keyvalue", fn: "Data.PutData",
		inline:     map[string]inlineSpec{"db.Put": {pkg: "storage/badger", fn: "BadgerDB.Put"}},
		autoInline: "db", autoType: "BadgerDB",
		choose: map[string]string{"ctx.Versioned()": "then"}},
	{name: "keyvalue.DeleteData", pkg: "datatype/keyvalue", fn: "Data.DeleteData",
		inline:     map[string]inlineSpec{"db.Delete": {pkg: "storage/badger", fn: "BadgerDB.Delete"}},
		autoInline: "db", autoType: "BadgerDB",
		choose: map[string]string{"ctx.Versioned()": "then"}},
	{name: "annotation.StoreElements", pkg: "datatype/annotation", fn: "Data.StoreElements",
		reads:  annotationReads,
		writes: map[string][]string{"Data.StoreElements/batch.Commit": {"block", "label", "tag"}},
		ignore: map[string]bool{"putBatchElements": true},
		inline: annInline("storeBlockElements", "modifyElements", "storeLabelElements", "modifyTagElements")},
	{name: "annotation.DeleteElement", pkg: "datatype/annotation", fn: "Data.DeleteElement",
		reads: annotationReads,
		writes: map[string][]string{"Data.DeleteElement/putElements": {"block"},
			"Data.DeleteElement/batch.Commit": {"label", "tag"}},
		ignore: map[string]bool{"putBatchElements": true},
		inline: annInline("deleteElementInLabel", "deleteElementInTags", "deleteElementInRelationships")},
	{name: "annotation.MoveElement", pkg: "datatype/annotation", fn: "Data.MoveElement",
		reads: annotationReads,
		writes: map[string][]string{"Data.MoveElement/batch.Commit#1": {"block"},
			"Data.MoveElement/batch.Commit#2": {"label", "tag"}},
		ignore: map[string]bool{"putBatchElements": true},
		inline: annInline("moveElementInLabels", "moveElementInTags", "moveElementInRelationships")},
	{name: "labelmap.MergeLabels", pkg: "datatype/labelmap", fn: "Data.MergeLabels",
		inline: map[string]inlineSpec{
			"GetLabelIndex(d, v, label":     {pkg: "datatype/labelmap", fn: "GetLabelIndex", loc: map[string]string{"index": "merged"}, rename: map[string]string{"indexMu[shard]": "indexMu[merged]"}},
			"GetLabelIndex(d, v, op.Target": {pkg: "datatype/labelmap", fn: "GetLabelIndex", loc: map[string]string{"index": "target"}, rename: indexRename},
			"PutLabelIndex(d, v, op.Target": {pkg: "datatype/labelmap", fn: "PutLabelIndex", loc: map[string]string{"index": "target"}, rename: indexRename},
			// repo_patches/C11-5-fix: the target's index is re-read and written under its shard lock
			"addToLabelIndex(d, v, op.Target": {pkg: "datatype/labelmap", fn: "addToLabelIndex", loc: map[string]string{"index": "target"}, rename: indexRename},
			"DeleteLabelIndex(d, v, merged":   {pkg: "datatype/labelmap", fn: "DeleteLabelIndex", loc: map[string]string{"index": "merged"}, rename: map[string]string{"indexMu[shard]": "indexMu[merged]"}},
			"DeleteLabelIndex(d, v, label":    {pkg: "datatype/labelmap", fn: "DeleteLabelIndex", loc: map[string]string{"index": "target"}, rename: indexRename},
		},
		reads: map[string][]string{"GetLabelIndex/getCachedLabelIndex": {"index"}, "addToLabelIndex/getCachedLabelIndex": {"index"}},
		writes: map[string][]string{"PutLabelIndex/putCachedLabelIndex": {"index"}, "DeleteLabelIndex/deleteCachedLabelIndex": {"index"}, "addToLabelIndex/putCachedLabelIndex": {"index"},
			"*/addMergeToMapping": {"aux:mapping"}},
		choose: map[string]string{"idx == nil": "else"}, // PutLabelIndex with a nil index deletes: not the merge path
		follow: true,
	},
	{name: "labelmap.CleaveLabel", pkg: "datatype/labelmap", fn: "Data.CleaveLabel",
		inline: map[string]inlineSpec{"d.cleaveIndex": {pkg: "datatype/labelmap", fn: "Data.cleaveIndex", rename: indexRename},
			// any other read of the body's index on the way (a helper that validates the request)
			"GetLabelIndex": {pkg: "datatype/labelmap", fn: "GetLabelIndex", loc: map[string]string{"index": "target"}, rename: indexRename}},
		reads: map[string][]string{"Data.cleaveIndex/getCachedLabelIndex": {"target"}, "GetLabelIndex/getCachedLabelIndex": {"index"}},
		writes: map[string][]string{"Data.cleaveIndex/putCachedLabelIndex(d, v, cidx": {"cleaved"}, "Data.cleaveIndex/putCachedLabelIndex(d, v, idx": {"target"},
			"*/addCleaveToMapping": {"aux:mapping"}},
		follow: true,
	},
	{name: "labelmap.ChangeLabelIndex", pkg: "datatype/labelmap", fn: "ChangeLabelIndex",
		rename: indexRename,
		reads:  map[string][]string{"ChangeLabelIndex/getCachedLabelIndex": {"target"}},
		writes: map[string][]string{"ChangeLabelIndex/deleteCachedLabelIndex": {"target"}, "ChangeLabelIndex/putCachedLabelIndex": {"target"}},
	},
	{name: "neuronjson.storeAndUpdate", pkg: "datatype/neuronjson", fn: "Data.storeAndUpdate",
		reads:  map[string][]string{"Data.storeAndUpdate/d.getStoreData": {"store"}},
		writes: map[string][]string{"Data.storeAndUpdate/= mdb.data[bodyid]": {"mem"}, "Data.storeAndUpdate/d.putStoreData": {"store"}},
	},
	{name: "neuronjson.DeleteData", pkg: "datatype/neuronjson", fn: "Data.DeleteData",
		writes: map[string][]string{"Data.DeleteData/delete(mdb.data": {"mem"}, "Data.DeleteData/d.deleteStoreData": {"store"}},
	},
	{name: "datastore.newVersion", pkg: "datastore", fn: "repoManager.newVersion",
		reads:  map[string][]string{"repoManager.newVersion/range node.children": {"children"}},
		writes: map[string][]string{"repoManager.newVersion/= node.children": {"children"}},
		choose: map[string]string{`branchname == "" || branchname == node.branch`: "then"},
	},
	// the in-memory supervoxel -> body mapping shared by all versions of a labelmap instance: every mutation of any
	// version reads a supervoxel's per-version entries, extends them and stores them back
	{name: "labelmap.setMapping", pkg: "datatype/labelmap", fn: "VCache.setMapping",
		reads:  map[string][]string{"VCache.setMapping/<- lmap.fm[from]": {"fm"}},
		writes: map[string][]string{"VCache.setMapping/= lmap.fm[from]": {"fm"}},
	},
	// merge appends its child to the children list of every parent (no uniqueness check)
	{name: "datastore.merge", pkg: "datastore", fn: "repoManager.merge",
		writes: map[string][]string{"repoManager.merge/= node.children": {"children"}},
	},
}

type lockWalker struct {
	site   *lockSite
	p      *pkgInfo
	fn     string // enclosing function key
	depth  int
	locMap map[string]string
	rename map[string]string
	occ    map[string]int
	defers []lkEvent
	stack  []string // inlining stack
}

func (w *lockWalker) failAt(n ast.Node, f string, a ...interface{}) {
	fail("gen_locks: site %s: %s at %s", w.site.name, fmt.Sprintf(f, a...), w.p.fset.Position(n.Pos()))
}

func (w *lockWalker) pos(n ast.Node, what string) string {
	p := w.p.fset.Position(n.Pos())
	return fmt.Sprintf("%s:%d %s", filepath.Base(p.Filename), p.Line, what)
}

func (w *lockWalker) mutexName(e ast.Expr) string {
	s := types.ExprString(e)
	if n, ok := w.rename[s]; ok {
		return n
	}
	return s
}

func (w *lockWalker) locName(l string) string {
	if n, ok := w.locMap[l]; ok {
		return n
	}
	return l
}

func hasAccess(evs []lkEvent) bool { return len(evs) > 0 }

func endsInExit(b *ast.BlockStmt) bool {
	if b == nil || len(b.List) == 0 {
		return false
	}
	switch s := b.List[len(b.List)-1].(type) {
	case *ast.ReturnStmt:
		return true
	case *ast.BranchStmt:
		return s.Tok == token.CONTINUE || s.Tok == token.BREAK
	}
	return false
}

// exitFilter: on a path that leaves the function (or the loop iteration) early, a release of a
// mutex that the path itself did not take is the exit path's own and is dropped; pairs taken and
// released on the path stay; an acquisition still held when the path leaves is not understood.
func (w *lockWalker) exitFilter(b *ast.BlockStmt, evs []lkEvent) []lkEvent {
	var out []lkEvent
	held := map[string]int{}
	for _, e := range evs {
		switch e.kind {
		case "Lock", "RLock":
			held[e.kind+" "+e.arg]++
		case "Unlock", "RUnlock":
			k := e.kind[:len(e.kind)-6] + "Lock " + e.arg
			if held[k] == 0 {
				continue
			}
			held[k]--
		}
		out = append(out, e)
	}
	for k, c := range held {
		if c != 0 {
			w.failAt(b, "%s acquired on an exit path and not released there", k)
		}
	}
	return out
}

func (w *lockWalker) block(b *ast.BlockStmt, top bool) []lkEvent {
	if b == nil {
		return nil
	}
	var evs []lkEvent
	for _, s := range b.List {
		evs = append(evs, w.stmt(s, top)...)
	}
	if !top && endsInExit(b) {
		evs = w.exitFilter(b, evs)
	} else if !top {
		w.balancedOrFail(b, evs)
	}
	return evs
}

// a nested statement list that falls through must release what it acquires and nothing else
func (w *lockWalker) balancedOrFail(n ast.Node, evs []lkEvent) {
	held := map[string]int{}
	for _, e := range evs {
		switch e.kind {
		case "Lock", "RLock":
			held[e.kind[:len(e.kind)-4]+e.arg]++
		case "Unlock", "RUnlock":
			k := e.kind[:len(e.kind)-6] + e.arg
			held[k]--
			if held[k] < 0 {
				w.failAt(n, "nested statement list releases %s which it did not acquire", e.arg)
			}
		}
	}
	for k, c := range held {
		if c != 0 {
			w.failAt(n, "nested statement list leaves %s held", k)
		}
	}
}

func (w *lockWalker) stmt(s ast.Stmt, top bool) []lkEvent {
	switch x := s.(type) {
	case nil:
		return nil
	case *ast.ExprStmt:
		return w.expr(x.X)
	case *ast.AssignStmt:
		var evs []lkEvent
		for _, r := range x.Rhs {
			evs = append(evs, w.expr(r)...)
			// `v := shared[k]`: a read of a shared in-memory location by indexing / selection, classified per site
			if locs, ok := w.site.reads[w.fn+"/<- "+types.ExprString(r)]; ok {
				for _, lc := range locs {
					evs = append(evs, lkEvent{"Read", w.locName(lc), w.pos(r, "read of "+types.ExprString(r))})
				}
			}
		}
		for _, l := range x.Lhs {
			if ie, ok := l.(*ast.IndexExpr); ok {
				evs = append(evs, w.expr(ie.Index)...)
			}
			key := w.fn + "/= " + types.ExprString(l)
			if locs, ok := w.site.writes[key]; ok {
				// `x = f(x)`: the right-hand side reads the location again when the statement runs
				for _, r := range x.Rhs {
					if strings.Contains(types.ExprString(r), types.ExprString(l)) {
						for _, lc := range locs {
							evs = append(evs, lkEvent{"Read", w.locName(lc), w.pos(r, "right-hand side uses "+types.ExprString(l))})
						}
						break
					}
				}
				for _, lc := range locs {
					evs = append(evs, lkEvent{"Write", w.locName(lc), w.pos(l, "assignment to "+types.ExprString(l))})
				}
			}
		}
		return evs
	case *ast.DeferStmt:
		if sel, ok := x.Call.Fun.(*ast.SelectorExpr); ok && len(x.Call.Args) == 0 {
			switch sel.Sel.Name {
			case "Unlock", "RUnlock":
				if !top {
					w.failAt(x, "deferred unlock in a nested statement list")
				}
				w.defers = append([]lkEvent{{sel.Sel.Name, w.mutexName(sel.X), w.pos(x, "defer "+types.ExprString(x.Call.Fun))}}, w.defers...)
				return nil
			case "Lock", "RLock":
				w.failAt(x, "deferred lock")
			}
		}
		if evs := w.expr(x.Call); len(evs) > 0 {
			w.failAt(x, "deferred call with lock or store events")
		}
		return nil
	case *ast.IfStmt:
		evs := w.stmt(x.Init, false)
		evs = append(evs, w.expr(x.Cond)...)
		if isRefusal(x) {
			evs = append(evs, lkEvent{"Check", "", w.pos(x, "refuses: if "+types.ExprString(x.Cond))})
		}
		thenE := w.block(x.Body, false)
		var elseE []lkEvent
		switch e := x.Else.(type) {
		case *ast.BlockStmt:
			elseE = w.block(e, false)
		case *ast.IfStmt:
			elseE = w.stmt(e, false)
		case nil:
		default:
			w.failAt(x, "else of unknown shape")
		}
		cond := types.ExprString(x.Cond)
		switch w.site.choose[cond] {
		case "then":
			elseE = nil
		case "else":
			thenE = nil
		default:
			if hasAccess(thenE) && hasAccess(elseE) {
				w.failAt(x, "events on both arms of `if %s` and no choice configured", cond)
			}
		}
		evs = append(evs, thenE...)
		evs = append(evs, elseE...)
		return evs
	case *ast.ForStmt:
		evs := w.stmt(x.Init, false)
		evs = append(evs, w.expr(x.Cond)...)
		evs = append(evs, w.block(x.Body, false)...)
		evs = append(evs, w.stmt(x.Post, false)...)
		return evs
	case *ast.RangeStmt:
		evs := w.expr(x.X)
		key := w.fn + "/range " + types.ExprString(x.X)
		if locs, ok := w.site.reads[key]; ok {
			for _, lc := range locs {
				evs = append(evs, lkEvent{"Read", w.locName(lc), w.pos(x, "range "+types.ExprString(x.X))})
			}
		}
		evs = append(evs, w.block(x.Body, false)...)
		return evs
	case *ast.BlockStmt:
		return w.block(x, false)
	case *ast.ReturnStmt:
		var evs []lkEvent
		for _, r := range x.Results {
			evs = append(evs, w.expr(r)...)
		}
		return evs
	case *ast.DeclStmt:
		var evs []lkEvent
		if gd, ok := x.Decl.(*ast.GenDecl); ok {
			for _, sp := range gd.Specs {
				if vs, ok := sp.(*ast.ValueSpec); ok {
					for _, v := range vs.Values {
						evs = append(evs, w.expr(v)...)
					}
				}
			}
		}
		return evs
	case *ast.IncDecStmt:
		return w.expr(x.X)
	case *ast.BranchStmt, *ast.EmptyStmt:
		return nil
	case *ast.LabeledStmt:
		return w.stmt(x.Stmt, top)
	case *ast.SendStmt:
		evs := w.expr(x.Chan)
		return append(evs, w.expr(x.Value)...)
	case *ast.GoStmt:
		if evs := w.expr(x.Call); len(evs) > 0 {
			w.failAt(x, "go statement with lock or store events")
		}
		return nil
	case *ast.SwitchStmt, *ast.TypeSwitchStmt, *ast.SelectStmt:
		// walk the clauses; any event inside is a shape this translator does not order
		var evs []lkEvent
		ast.Inspect(x, func(n ast.Node) bool {
			if c, ok := n.(*ast.CallExpr); ok {
				evs = append(evs, w.call(c)...)
			}
			return true
		})
		if len(evs) > 0 {
			w.failAt(x, "switch/select with lock or store events")
		}
		return nil
	}
	w.failAt(s, "statement of unknown shape %T", s)
	return nil
}

// isRefusal: `if cond { ... fmt.Errorf / errors.New ...; return }` where cond is not the plain
// propagation of an error value: the request is refused because of what it found.
func isRefusal(x *ast.IfStmt) bool {
	cond := types.ExprString(x.Cond)
	if cond == "err != nil" || x.Body == nil || len(x.Body.List) == 0 {
		return false
	}
	if _, ok := x.Body.List[len(x.Body.List)-1].(*ast.ReturnStmt); !ok {
		return false
	}
	made := false
	ast.Inspect(x.Body, func(n ast.Node) bool {
		if c, ok := n.(*ast.CallExpr); ok {
			switch types.ExprString(c.Fun) {
			case "fmt.Errorf", "errors.New":
				made = true
			}
		}
		return true
	})
	return made
}

// siteCallNames: the call names the site classifies (inlined, read or written)
func siteCallNames(site *lockSite) map[string]bool {
	names := map[string]bool{}
	add := func(k string) {
		if i := strings.Index(k, "/"); i >= 0 && !strings.Contains(k[:i], "(") {
			k = k[i+1:]
		}
		if i := strings.IndexAny(k, "(#"); i >= 0 {
			k = k[:i]
		}
		if !strings.HasPrefix(k, "= ") && !strings.HasPrefix(k, "range ") {
			names[k] = true
		}
	}
	for k := range site.inline {
		add(k)
	}
	for k := range site.reads {
		add(k)
	}
	for k := range site.writes {
		add(k)
	}
	return names
}

// mentionsStore: does the function body call one of the functions the site classifies?
func mentionsStore(site *lockSite, fd *ast.FuncDecl) bool {
	names := siteCallNames(site)
	found := false
	ast.Inspect(fd.Body, func(n ast.Node) bool {
		if c, ok := n.(*ast.CallExpr); ok && names[types.ExprString(c.Fun)] {
			found = true
		}
		return !found
	})
	return found
}

// expr collects the events of the calls inside e, arguments before the call itself.
func (w *lockWalker) expr(e ast.Expr) []lkEvent {
	if e == nil {
		return nil
	}
	var evs []lkEvent
	switch x := e.(type) {
	case *ast.CallExpr:
		if sel, ok := x.Fun.(*ast.SelectorExpr); ok {
			evs = append(evs, w.expr(sel.X)...)
		}
		// the transaction shape: X.Update(func(txn *badger.Txn) error { ... })
		if sel, ok := x.Fun.(*ast.SelectorExpr); ok && sel.Sel.Name == "Update" && len(x.Args) == 1 {
			if fl, ok := x.Args[0].(*ast.FuncLit); ok {
				evs = append(evs, lkEvent{"Lock", "badger.txn", w.pos(x, types.ExprString(x.Fun)+" begins a transaction")})
				body := w.block(fl.Body, false)
				evs = append(evs, body...)
				evs = append(evs, lkEvent{"Unlock", "badger.txn", w.pos(x, "transaction commits")})
				return evs
			}
		}
		// a read-only transaction: X.View(func(txn *badger.Txn) error { ... })
		if sel, ok := x.Fun.(*ast.SelectorExpr); ok && sel.Sel.Name == "View" && len(x.Args) == 1 {
			if fl, ok := x.Args[0].(*ast.FuncLit); ok {
				evs = append(evs, lkEvent{"Lock", "badger.view", w.pos(x, types.ExprString(x.Fun)+" begins a read-only transaction")})
				evs = append(evs, w.block(fl.Body, false)...)
				evs = append(evs, lkEvent{"Unlock", "badger.view", w.pos(x, "read-only transaction ends")})
				return evs
			}
		}
		for _, a := range x.Args {
			evs = append(evs, w.expr(a)...)
		}
		evs = append(evs, w.call(x)...)
		return evs
	case *ast.FuncLit:
		if inner := w.block(x.Body, false); len(inner) > 0 {
			w.failAt(x, "closure with lock or store events")
		}
		return nil
	case *ast.ParenExpr:
		return w.expr(x.X)
	case *ast.UnaryExpr:
		return w.expr(x.X)
	case *ast.StarExpr:
		return w.expr(x.X)
	case *ast.BinaryExpr:
		return append(w.expr(x.X), w.expr(x.Y)...)
	case *ast.SelectorExpr:
		return w.expr(x.X)
	case *ast.IndexExpr:
		return append(w.expr(x.X), w.expr(x.Index)...)
	case *ast.SliceExpr:
		evs = append(evs, w.expr(x.X)...)
		evs = append(evs, w.expr(x.Low)...)
		evs = append(evs, w.expr(x.High)...)
		return append(evs, w.expr(x.Max)...)
	case *ast.TypeAssertExpr:
		return w.expr(x.X)
	case *ast.KeyValueExpr:
		return append(w.expr(x.Key), w.expr(x.Value)...)
	case *ast.CompositeLit:
		for _, el := range x.Elts {
			evs = append(evs, w.expr(el)...)
		}
		return evs
	case *ast.Ident, *ast.BasicLit, *ast.ArrayType, *ast.MapType, *ast.StructType, *ast.FuncType, *ast.InterfaceType, *ast.ChanType, *ast.Ellipsis:
		return nil
	}
	w.failAt(e, "expression of unknown shape %T", e)
	return nil
}

// lookup finds the classification of a call under the keys
// "<fn>/<name>(<first args>" (longest prefix of the printed call), "<fn>/<name>#<n>", "<fn>/<name>".
func lookupCall(m map[string][]string, fn, name, printed string, occ int) ([]string, bool) {
	best := ""
	var bestV []string
	for k, v := range m {
		var pat string
		switch {
		case strings.HasPrefix(k, fn+"/"):
			pat = k[len(fn)+1:]
		case strings.HasPrefix(k, "*/"):
			pat = k[2:]
		default:
			continue
		}
		ok := false
		switch {
		case strings.Contains(pat, "("):
			ok = strings.HasPrefix(printed, pat)
		case strings.Contains(pat, "#"):
			ok = pat == fmt.Sprintf("%s#%d", name, occ)
		default:
			ok = pat == name
		}
		if ok && len(pat) > len(best) {
			best, bestV = pat, v
		}
	}
	return bestV, best != ""
}

func (w *lockWalker) call(c *ast.CallExpr) []lkEvent {
	name := types.ExprString(c.Fun)
	printed := types.ExprString(c)
	if sel, ok := c.Fun.(*ast.SelectorExpr); ok && len(c.Args) == 0 {
		switch sel.Sel.Name {
		case "Lock", "Unlock", "RLock", "RUnlock":
			return []lkEvent{{sel.Sel.Name, w.mutexName(sel.X), w.pos(c, name)}}
		}
	}
	if name == "verifhook.Yield" {
		if len(c.Args) == 1 {
			if bl, ok := c.Args[0].(*ast.BasicLit); ok && bl.Kind == token.STRING {
				return []lkEvent{{"Yield", strings.Trim(bl.Value, `"`), w.pos(c, name)}}
			}
		}
		w.failAt(c, "verifhook.Yield without a literal site name")
	}
	// inside storage/badger: accesses of a transaction, by the key they name
	if strings.HasSuffix(filepath.ToSlash(w.p.dir), "storage/badger") && len(c.Args) >= 1 {
		kind := ""
		switch name {
		case "txn.Set", "txn.Delete", "txn.SetEntry":
			kind = "Write"
		case "txn.Get":
			kind = "Read"
		}
		if kind != "" {
			loc := "data"
			if strings.Contains(strings.ToLower(types.ExprString(c.Args[0])), "tomb") {
				loc = "tombstone"
			}
			return []lkEvent{{kind, w.locName(loc), w.pos(c, printed)}}
		}
	}
	// helper methods of the same receiver are followed
	if sel, ok := c.Fun.(*ast.SelectorExpr); ok && w.site.autoInline != "" {
		if id, ok := sel.X.(*ast.Ident); ok && id.Name == w.site.autoInline {
			if _, found := w.p.funcs[w.site.autoType+"."+sel.Sel.Name]; found {
				rel, _ := filepath.Rel(*repo, w.p.dir)
				return w.inlineCall(c, inlineSpec{pkg: filepath.ToSlash(rel), fn: w.site.autoType + "." + sel.Sel.Name})
			}
		}
	}
	// inlined callee (longest matching key: plain name or printed-call prefix)
	bestKey := ""
	for k := range w.site.inline {
		if (k == name || (strings.Contains(k, "(") && strings.HasPrefix(printed, k))) && len(k) > len(bestKey) {
			bestKey = k
		}
	}
	if bestKey != "" {
		return w.inlineCall(c, w.site.inline[bestKey])
	}
	w.occ[w.fn+"/"+name]++
	occ := w.occ[w.fn+"/"+name]
	if locs, ok := lookupCall(w.site.reads, w.fn, name, printed, occ); ok {
		var evs []lkEvent
		for _, l := range locs {
			evs = append(evs, lkEvent{"Read", w.locName(l), w.pos(c, name)})
		}
		return evs
	}
	if locs, ok := lookupCall(w.site.writes, w.fn, name, printed, occ); ok {
		var evs []lkEvent
		for _, l := range locs {
			evs = append(evs, lkEvent{"Write", w.locName(l), w.pos(c, name)})
		}
		return evs
	}
	if w.site.ignore[name] {
		return nil
	}
	if w.site.follow && !storeFuncs[name] {
		key := ""
		switch f := c.Fun.(type) {
		case *ast.Ident:
			key = f.Name
		case *ast.SelectorExpr:
			if id, ok := f.X.(*ast.Ident); ok && id.Name == "d" {
				key = "Data." + f.Sel.Name
			}
		}
		if fd, ok := w.p.funcs[key]; ok && key != "" && fd.Body != nil && mentionsStore(w.site, fd) {
			rel, _ := filepath.Rel(*repo, w.p.dir)
			return w.inlineCall(c, inlineSpec{pkg: filepath.ToSlash(rel), fn: key})
		}
	}
	if storeFuncs[name] {
		w.failAt(c, "call of store-access function %s (in %s) is not classified for this site", name, w.fn)
	}
	return nil
}

func (w *lockWalker) inlineCall(c *ast.CallExpr, sp inlineSpec) []lkEvent {
	for _, s := range w.stack {
		if s == sp.pkg+"."+sp.fn {
			w.failAt(c, "recursive inlining of %s", sp.fn)
		}
	}
	if len(w.stack) > 5 {
		w.failAt(c, "inlining too deep")
	}
	p := loadPkg(sp.pkg)
	fd, ok := p.funcs[sp.fn]
	if !ok || fd.Body == nil {
		fail("gen_locks: site %s: function %s not found in %s", w.site.name, sp.fn, sp.pkg)
	}
	sub := &lockWalker{site: w.site, p: p, fn: sp.fn, locMap: map[string]string{}, rename: map[string]string{}, occ: map[string]int{},
		stack: append(append([]string{}, w.stack...), sp.pkg+"."+sp.fn)}
	for k, v := range w.locMap {
		sub.locMap[k] = v
	}
	for k, v := range sp.loc {
		sub.locMap[k] = v
	}
	for k, v := range w.site.rename {
		sub.rename[k] = v
	}
	for k, v := range sp.rename {
		sub.rename[k] = v
	}
	evs := sub.block(fd.Body, true)
	evs = append(evs, sub.defers...)
	return evs
}

// verdict: the exclusive mutex taken before the first access and released after the last one
func lockVerdict(evs []lkEvent) (cover string, err string) {
	first, last := -1, -1
	for i, e := range evs {
		if e.kind == "Read" || e.kind == "Write" {
			if first < 0 {
				first = i
			}
			last = i
		}
	}
	type iv struct {
		m      string
		lo, hi int
	}
	var ivs []iv
	open := map[string][]int{}
	for i, e := range evs {
		switch e.kind {
		case "Lock", "RLock":
			open[e.kind+" "+e.arg] = append(open[e.kind+" "+e.arg], i)
		case "Unlock", "RUnlock":
			k := e.kind[:len(e.kind)-6] + "Lock " + e.arg
			st := open[k]
			if len(st) == 0 {
				return "", fmt.Sprintf("%s of %s which is not held (%s)", e.kind, e.arg, e.src)
			}
			if e.kind == "Unlock" {
				ivs = append(ivs, iv{e.arg, st[len(st)-1], i})
			}
			open[k] = st[:len(st)-1]
		}
	}
	for k, st := range open {
		if len(st) > 0 {
			return "", fmt.Sprintf("%s still held at the end", k)
		}
	}
	if first < 0 {
		return "", ""
	}
	sort.Slice(ivs, func(i, j int) bool { return ivs[i].lo < ivs[j].lo })
	for _, v := range ivs {
		if v.lo < first && v.hi > last {
			return v.m, ""
		}
	}
	return "", ""
}

func coqStr(s string) string { return `"` + strings.ReplaceAll(s, `"`, `""`) + `"` }

func genLocks() {
	var b strings.Builder
	b.WriteString("(* GENERATED by harness/cmd/gen (gen_locks.go) from the Go source of /repo. Do not edit.\n")
	b.WriteString("   Per read-modify-write site of property C11: the mutex / store-access events in source order\n")
	b.WriteString("   and the exclusive mutex that spans the first and the last access (\"\" when there is none). *)\n")
	b.WriteString("From Coq Require Import String List.\nImport ListNotations.\nLocal Open Scope string_scope.\n\n")
	b.WriteString("Inductive gev :=\n| GLock (m : string)\n| GUnlock (m : string)\n| GRLock (m : string)\n| GRUnlock (m : string)\n| GRead (l : string)\n| GWrite (l : string)\n| GYield (site : string).\n\n")
	b.WriteString("Record gsite := mkSite { gs_name : string; gs_func : string; gs_events : list gev; gs_cover : string }.\n\n")
	var names []string
	var siteChecks [][4]string
	var siteOrders [][2]string
	for i := range lockSites {
		site := &lockSites[i]
		p := loadPkg(site.pkg)
		fd, ok := p.funcs[site.fn]
		if !ok || fd.Body == nil {
			fail("gen_locks: site %s: function %s not found in %s", site.name, site.fn, site.pkg)
		}
		w := &lockWalker{site: site, p: p, fn: site.fn, locMap: map[string]string{}, rename: map[string]string{}, occ: map[string]int{},
			stack: []string{site.pkg + "." + site.fn}}
		for k, v := range site.rename {
			w.rename[k] = v
		}
		evs := w.block(fd.Body, true)
		evs = append(evs, w.defers...)
		siteChecks = append(siteChecks, checkCounts(site.name, evs)...)
		siteOrders = append(siteOrders, [2]string{site.name, writeOrder(evs)})
		// refusing checks and writes of data that have their own lock and are not part of the
		// site's read-modify-write (the supervoxel mapping) appear in the tables below only
		var shown []lkEvent
		for _, e := range evs {
			if e.kind != "Check" && !strings.HasPrefix(e.arg, "aux:") {
				shown = append(shown, e)
			}
		}
		evs = shown
		cover, err := lockVerdict(evs)
		if err != "" {
			fail("gen_locks: site %s: %s", site.name, err)
		}
		hasAcc := false
		for _, e := range evs {
			if e.kind == "Read" || e.kind == "Write" {
				hasAcc = true
			}
		}
		if !hasAcc {
			fail("gen_locks: site %s: no store access recognised in %s", site.name, site.fn)
		}
		id := "site_" + strings.NewReplacer(".", "_").Replace(site.name)
		names = append(names, id)
		fmt.Fprintf(&b, "Definition %s : gsite := mkSite %s %s [\n", id, coqStr(site.name), coqStr(site.pkg+" "+site.fn))
		for j, e := range evs {
			sep := ";"
			if j == len(evs)-1 {
				sep = ""
			}
			fmt.Fprintf(&b, "  G%s %s%s (* %s *)\n", e.kind, coqStr(e.arg), sep, e.src)
		}
		fmt.Fprintf(&b, "] %s.\n\n", coqStr(cover))
	}
	fmt.Fprintf(&b, "Definition lock_table : list gsite := [%s].\n", strings.Join(names, "; "))
	b.WriteString("\n(* every Lock/RLock on an element of an array of mutexes: (function, mutex array, expression selecting\n   the element, with local definitions and one-line helpers expanded and its one variable written _) *)\n")
	b.WriteString("Definition shard_keys : list (string * string * string) := [\n")
	uses := collectShardUses()
	for i, u := range uses {
		sep := ";"
		if i == len(uses)-1 {
			sep = ""
		}
		fmt.Fprintf(&b, "  (%s, %s, %s)%s (* %s *)\n", coqStr(u.fn), coqStr(u.family), coqStr(u.key), sep, u.pos)
	}
	b.WriteString("].\n")
	b.WriteString("\n(* per site: the locations it writes, in the order of the writes (consecutive repeats dropped) *)\n")
	b.WriteString("Definition write_order : list (string * list string) := [\n")
	for i, o := range siteOrders {
		sep := ";"
		if i == len(siteOrders)-1 {
			sep = ""
		}
		fmt.Fprintf(&b, "  (%s, [%s])%s\n", coqStr(o[0]), o[1], sep)
	}
	b.WriteString("].\n")
	b.WriteString("\n(* per site and location it writes: the refusing checks (if ... { return an error made here }) that follow a\n   read of the location and precede its last write: (site, location, checks outside the exclusive critical\n   section of that write, checks inside it) *)\n")
	b.WriteString("Definition site_checks : list (string * string * nat * nat) := [\n")
	for i, c := range siteChecks {
		sep := ";"
		if i == len(siteChecks)-1 {
			sep = ""
		}
		fmt.Fprintf(&b, "  (%s, %s, %s, %s)%s\n", coqStr(c[0]), coqStr(c[1]), c[2], c[3], sep)
	}
	b.WriteString("]%nat.\n")
	b.WriteString("\n(* storage/badger, versioned path of the single-key mutations: (function, write transactions, read-only\n   transactions), helper methods followed *)\n")
	b.WriteString("Definition badger_txns : list (string * nat * nat) := [")
	for i, t := range badgerTxns() {
		if i > 0 {
			b.WriteString("; ")
		}
		fmt.Fprintf(&b, "(%s, %s, %s)", coqStr(t[0]), t[1], t[2])
	}
	b.WriteString("]%nat.\n")
	writeIfChanged(filepath.Join(*out, "Locks.v"), b.String())
}

// ---------------------------------------------------------------------------------------------
// shard keys: every X[key].Lock()/RLock() on an array of mutexes in the packages below, with the
// expression that selects the mutex resolved through local `name := expr` definitions and through
// same-package one-line helper functions, and its single variable operand replaced by "_".  All
// users of one mutex array must select the mutex by the same function of the guarded id, otherwise
// two critical sections on the same datum do not exclude each other.

var shardPackages = []string{"datatype/labelmap", "datatype/annotation", "datatype/neuronjson", "datastore", "datatype/keyvalue", "storage/badger"}

type shardUse struct{ fn, family, key, pos string }

// singleDef finds the unique `name := rhs` / `name = rhs` / `var name = rhs` of an identifier in a function body.
func singleDef(body *ast.BlockStmt, name string) ast.Expr {
	var found ast.Expr
	n := 0
	ast.Inspect(body, func(nd ast.Node) bool {
		switch x := nd.(type) {
		case *ast.AssignStmt:
			if len(x.Lhs) == len(x.Rhs) {
				for i, l := range x.Lhs {
					if id, ok := l.(*ast.Ident); ok && id.Name == name {
						found = x.Rhs[i]
						n++
					}
				}
			}
		case *ast.ValueSpec:
			for i, id := range x.Names {
				if id.Name == name && i < len(x.Values) {
					found = x.Values[i]
					n++
				}
			}
		case *ast.RangeStmt:
			for _, e := range []ast.Expr{x.Key, x.Value} {
				if id, ok := e.(*ast.Ident); ok && id.Name == name {
					n += 2 // a loop variable: not a single definition
				}
			}
		}
		return true
	})
	if n == 1 {
		return found
	}
	return nil
}

// resolveKey prints e with local single definitions and one-line same-package helpers expanded.
func resolveKey(p *pkgInfo, body *ast.BlockStmt, e ast.Expr, depth int) string {
	if depth > 4 {
		return types.ExprString(e)
	}
	switch x := e.(type) {
	case *ast.Ident:
		if _, isConst := p.consts[x.Name]; isConst {
			return x.Name
		}
		if def := singleDef(body, x.Name); def != nil {
			return "(" + resolveKey(p, body, def, depth+1) + ")"
		}
		return x.Name
	case *ast.ParenExpr:
		return "(" + resolveKey(p, body, x.X, depth) + ")"
	case *ast.BinaryExpr:
		return resolveKey(p, body, x.X, depth) + " " + x.Op.String() + " " + resolveKey(p, body, x.Y, depth)
	case *ast.UnaryExpr:
		return x.Op.String() + resolveKey(p, body, x.X, depth)
	case *ast.CallExpr:
		if id, ok := x.Fun.(*ast.Ident); ok {
			if _, isType := intTypes[id.Name]; isType && len(x.Args) == 1 {
				return id.Name + "(" + resolveKey(p, body, x.Args[0], depth) + ")"
			}
			if fd, ok := p.funcs[id.Name]; ok && fd.Body != nil && len(fd.Body.List) == 1 && fd.Type.Params != nil {
				if ret, ok := fd.Body.List[0].(*ast.ReturnStmt); ok && len(ret.Results) == 1 {
					// substitute the arguments for the parameters, textually on the resolved form
					var params []string
					for _, f := range fd.Type.Params.List {
						for _, n := range f.Names {
							params = append(params, n.Name)
						}
					}
					if len(params) == len(x.Args) {
						s := substIdents(ret.Results[0], params, func(i int) string { return "(" + resolveKey(p, body, x.Args[i], depth+1) + ")" }, p)
						return "(" + s + ")"
					}
				}
			}
		}
	}
	return types.ExprString(e)
}

// substIdents prints e with the identifiers params[i] replaced by arg(i); package constants stay.
func substIdents(e ast.Expr, params []string, arg func(int) string, p *pkgInfo) string {
	switch x := e.(type) {
	case *ast.Ident:
		for i, n := range params {
			if n == x.Name {
				return arg(i)
			}
		}
		return x.Name
	case *ast.ParenExpr:
		return "(" + substIdents(x.X, params, arg, p) + ")"
	case *ast.BinaryExpr:
		return substIdents(x.X, params, arg, p) + " " + x.Op.String() + " " + substIdents(x.Y, params, arg, p)
	case *ast.UnaryExpr:
		return x.Op.String() + substIdents(x.X, params, arg, p)
	case *ast.CallExpr:
		if id, ok := x.Fun.(*ast.Ident); ok && len(x.Args) == 1 {
			return id.Name + "(" + substIdents(x.Args[0], params, arg, p) + ")"
		}
	}
	return types.ExprString(e)
}

var identRe = regexp.MustCompile(`[A-Za-z_][A-Za-z0-9_]*(\.[A-Za-z_][A-Za-z0-9_]*)*`)

// normaliseKey replaces the single variable operand of a resolved key by "_" and drops
// redundant parentheses around it; constants, type names and operators stay.
func normaliseKey(p *pkgInfo, s string) string {
	vars := map[string]bool{}
	for _, m := range identRe.FindAllString(s, -1) {
		if _, isConst := p.consts[m]; isConst {
			continue
		}
		if _, isType := intTypes[m]; isType {
			continue
		}
		vars[m] = true
	}
	if len(vars) == 1 {
		for v := range vars {
			s = identRe.ReplaceAllStringFunc(s, func(m string) string {
				if m == v {
					return "_"
				}
				return m
			})
		}
	}
	for strings.Contains(s, "(_)") {
		s = strings.ReplaceAll(s, "(_)", "_")
	}
	// a fully parenthesised key
	for len(s) > 2 && s[0] == '(' && matchingParen(s) == len(s)-1 {
		s = s[1 : len(s)-1]
	}
	return strings.Join(strings.Fields(s), " ")
}

func matchingParen(s string) int {
	d := 0
	for i, c := range s {
		switch c {
		case '(':
			d++
		case ')':
			d--
			if d == 0 {
				return i
			}
		}
	}
	return -1
}

func collectShardUses() []shardUse {
	var uses []shardUse
	for _, rel := range shardPackages {
		p := loadPkg(rel)
		var keys []string
		for k := range p.funcs {
			keys = append(keys, k)
		}
		sort.Strings(keys)
		for _, fn := range keys {
			fd := p.funcs[fn]
			if fd.Body == nil {
				continue
			}
			ast.Inspect(fd.Body, func(nd ast.Node) bool {
				c, ok := nd.(*ast.CallExpr)
				if !ok || len(c.Args) != 0 {
					return true
				}
				sel, ok := c.Fun.(*ast.SelectorExpr)
				if !ok || (sel.Sel.Name != "Lock" && sel.Sel.Name != "RLock") {
					return true
				}
				ie, ok := sel.X.(*ast.IndexExpr)
				if !ok {
					return true
				}
				key := normaliseKey(p, resolveKey(p, fd.Body, ie.Index, 0))
				pos := p.fset.Position(c.Pos())
				uses = append(uses, shardUse{fn: rel + " " + fn, family: rel + " " + types.ExprString(ie.X), key: key,
					pos: fmt.Sprintf("%s:%d", filepath.Base(pos.Filename), pos.Line)})
				return true
			})
		}
	}
	sort.SliceStable(uses, func(i, j int) bool {
		if uses[i].family != uses[j].family {
			return uses[i].family < uses[j].family
		}
		return uses[i].pos < uses[j].pos
	})
	return uses
}

// badgerTxns: write and read-only transactions on the versioned path of the single-key mutations
func badgerTxns() [][3]string {
	var out [][3]string
	for _, fn := range []string{"BadgerDB.Put", "BadgerDB.Delete"} {
		site := &lockSite{name: "storage/badger " + fn, pkg: "storage/badger", fn: fn, autoInline: "db", autoType: "BadgerDB",
			choose: map[string]string{"ctx.Versioned()": "then"}}
		p := loadPkg(site.pkg)
		fd, ok := p.funcs[fn]
		if !ok || fd.Body == nil {
			fail("gen_locks: %s not found in storage/badger", fn)
		}
		w := &lockWalker{site: site, p: p, fn: fn, locMap: map[string]string{}, rename: map[string]string{}, occ: map[string]int{},
			stack: []string{site.pkg + "." + fn}}
		evs := w.block(fd.Body, true)
		evs = append(evs, w.defers...)
		wr, ro := 0, 0
		for _, e := range evs {
			if e.kind == "Lock" && e.arg == "badger.txn" {
				wr++
			}
			if e.kind == "Lock" && e.arg == "badger.view" {
				ro++
			}
		}
		out = append(out, [3]string{fn, fmt.Sprint(wr), fmt.Sprint(ro)})
	}
	return out
}

// writeOrder: the written locations in order, consecutive repeats dropped, as a Coq list body
func writeOrder(evs []lkEvent) string {
	var ws []string
	for _, e := range evs {
		arg := coqStr(strings.TrimPrefix(e.arg, "aux:"))
		if e.kind == "Write" && (len(ws) == 0 || ws[len(ws)-1] != arg) {
			ws = append(ws, arg)
		}
	}
	return strings.Join(ws, "; ")
}

// checkCounts: a Check belongs to the location of the most recent Read before it.  For every
// location the site writes, the checks on it that precede its last write are counted inside or
// outside the exclusive Lock..Unlock interval that contains that write.
func checkCounts(site string, evs []lkEvent) [][4]string {
	owner := make([]string, len(evs))
	last := ""
	for i, e := range evs {
		if e.kind == "Read" {
			last = e.arg
		}
		if e.kind == "Check" {
			owner[i] = last
		}
	}
	var locs []string
	lastWrite := map[string]int{}
	for i, e := range evs {
		if e.kind == "Write" && !strings.HasPrefix(e.arg, "aux:") {
			if _, ok := lastWrite[e.arg]; !ok {
				locs = append(locs, e.arg)
			}
			lastWrite[e.arg] = i
		}
	}
	var out [][4]string
	for _, loc := range locs {
		wi := lastWrite[loc]
		// innermost exclusive interval around wi
		lo, hi := -1, -1
		for i := wi; i >= 0 && lo < 0; i-- {
			if evs[i].kind == "Lock" {
				// its matching Unlock
				depth := 0
				for j := i + 1; j < len(evs); j++ {
					if evs[j].kind == "Lock" && evs[j].arg == evs[i].arg {
						depth++
					}
					if evs[j].kind == "Unlock" && evs[j].arg == evs[i].arg {
						if depth == 0 {
							if j > wi {
								lo, hi = i, j
							}
							break
						}
						depth--
					}
				}
			}
		}
		inside, outside := 0, 0
		for i := 0; i < wi; i++ {
			if evs[i].kind == "Check" && owner[i] == loc {
				if lo >= 0 && i > lo && i < hi {
					inside++
				} else {
					outside++
				}
			}
		}
		out = append(out, [4]string{site, loc, fmt.Sprint(outside), fmt.Sprint(inside)})
	}
	return out
}
