// gen: translators from /repo's Go source to Coq (coq/Gen/*.v).
//
// Deliberately shallow: it extracts integer constants, literal integer tables and a few
// syntactic facts by walking the go/ast of the current working tree. It fails closed: a
// requested item that is missing, or has a shape the evaluator does not understand, is an
// error (exit 2), which check.py reports as a broken tie.
package main

import (
	"flag"
	"fmt"
	"go/ast"
	"go/parser"
	"go/token"
	"math/big"
	"os"
	"path/filepath"
	"reflect"
	"runtime"
	"sort"
	"strconv"
	"strings"
)

var repo = flag.String("repo", "/repo", "path to dvid source")
var out = flag.String("out", "", "output directory (coq/Gen)")

type pkgInfo struct {
	dir    string
	files  []*ast.File
	consts map[string]*constDecl
	vars   map[string]ast.Expr // package-level var name -> initializer
	funcs  map[string]*ast.FuncDecl
	fset   *token.FileSet
}

type constDecl struct {
	expr    ast.Expr
	iota    int
	file    *ast.File
	val     *big.Int
	busy    bool
	typName string
}

var pkgs = map[string]*pkgInfo{}

func loadPkg(rel string) *pkgInfo {
	if p, ok := pkgs[rel]; ok {
		return p
	}
	dir := filepath.Join(*repo, rel)
	fset := token.NewFileSet()
	ents, err := os.ReadDir(dir)
	if err != nil {
		fail("cannot read package dir %s: %v", dir, err)
	}
	p := &pkgInfo{dir: dir, consts: map[string]*constDecl{}, vars: map[string]ast.Expr{}, funcs: map[string]*ast.FuncDecl{}, fset: fset}
	for _, e := range ents {
		n := e.Name()
		if e.IsDir() || !strings.HasSuffix(n, ".go") || strings.HasSuffix(n, "_test.go") || strings.HasPrefix(n, "verif_") {
			continue
		}
		f, err := parser.ParseFile(fset, filepath.Join(dir, n), nil, parser.ParseComments)
		if err != nil {
			fail("parse %s: %v", n, err)
		}
		p.files = append(p.files, f)
		for _, d := range f.Decls {
			switch gd := d.(type) {
			case *ast.GenDecl:
				if gd.Tok == token.CONST {
					var lastExprs []ast.Expr
					var lastTyp string
					for i, s := range gd.Specs {
						vs := s.(*ast.ValueSpec)
						exprs := vs.Values
						typ := ""
						if vs.Type != nil {
							if id, ok := vs.Type.(*ast.Ident); ok {
								typ = id.Name
							}
						}
						if len(exprs) == 0 {
							exprs = lastExprs
							typ = lastTyp
						} else {
							lastExprs = exprs
							lastTyp = typ
						}
						for j, name := range vs.Names {
							if j < len(exprs) {
								p.consts[name.Name] = &constDecl{expr: exprs[j], iota: i, file: f, typName: typ}
							}
						}
					}
				} else if gd.Tok == token.VAR {
					for _, s := range gd.Specs {
						vs := s.(*ast.ValueSpec)
						for j, name := range vs.Names {
							if j < len(vs.Values) {
								p.vars[name.Name] = vs.Values[j]
							}
						}
					}
				}
			case *ast.FuncDecl:
				key := gd.Name.Name
				if gd.Recv != nil && len(gd.Recv.List) == 1 {
					key = recvName(gd.Recv.List[0].Type) + "." + key
				}
				p.funcs[key] = gd
			}
		}
	}
	pkgs[rel] = p
	return p
}

func recvName(e ast.Expr) string {
	switch t := e.(type) {
	case *ast.StarExpr:
		return recvName(t.X)
	case *ast.Ident:
		return t.Name
	case *ast.IndexExpr:
		return recvName(t.X)
	}
	return "?"
}

// genFailure is raised by fail(): a translator met a source shape it does not understand.
// Each generator (and each constant / table item) runs in isolation: a failure leaves ITS output
// (file or definition) missing, so that exactly the proofs that depend on it stop building, while
// the translators of unrelated properties still run.  The process then exits 3.
type genFailure struct{ msg string }

var failures []string

func fail(f string, a ...interface{}) {
	panic(genFailure{fmt.Sprintf(f, a...)})
}

// isolated runs g; a genFailure is recorded, the files g wrote in this run are removed.
func isolated(name string, g func()) (ok bool) {
	before := len(writtenNow)
	defer func() {
		if e := recover(); e != nil {
			gf, is := e.(genFailure)
			if !is {
				panic(e)
			}
			failures = append(failures, name+": "+gf.msg)
			fmt.Fprintf(os.Stderr, "gen: %s: %s\n", name, gf.msg)
			for _, f := range writtenNow[before:] {
				os.Remove(f)
			}
			writtenNow = writtenNow[:before]
			ok = false
		}
	}()
	g()
	return true
}

var writtenNow []string

// importDir maps an import name used in file f to a repo-relative dir (only for packages inside the repo).
func importDir(f *ast.File, name string) (string, bool) {
	const mod = "github.com/janelia-flyem/dvid/"
	for _, im := range f.Imports {
		path, _ := strconv.Unquote(im.Path.Value)
		local := filepath.Base(path)
		if im.Name != nil {
			local = im.Name.Name
		}
		if local == name && strings.HasPrefix(path, mod) {
			return strings.TrimPrefix(path, mod), true
		}
	}
	return "", false
}

var intTypes = map[string]int{ // name -> bits (negative: signed)
	"uint8": 8, "byte": 8, "uint16": 16, "uint32": 32, "uint64": 64, "uint": 64,
	"int8": -8, "int16": -16, "int32": -32, "int64": -64, "int": -64,
}

func wrap(v *big.Int, bits int) *big.Int {
	signed := bits < 0
	if signed {
		bits = -bits
	}
	m := new(big.Int).Lsh(big.NewInt(1), uint(bits))
	r := new(big.Int).Mod(v, m)
	if signed {
		half := new(big.Int).Rsh(m, 1)
		if r.Cmp(half) >= 0 {
			r.Sub(r, m)
		}
	}
	return r
}

func (p *pkgInfo) constVal(name string) *big.Int {
	c, ok := p.consts[name]
	if !ok {
		fail("constant %s not found in %s", name, p.dir)
	}
	if c.val != nil {
		return c.val
	}
	if c.busy {
		fail("cyclic constant %s", name)
	}
	c.busy = true
	v := p.eval(c.expr, c.iota, c.file)
	if bits, ok := intTypes[c.typName]; ok {
		v = wrap(v, bits)
	}
	c.val = v
	c.busy = false
	return v
}

func (p *pkgInfo) eval(e ast.Expr, iota int, f *ast.File) *big.Int {
	switch x := e.(type) {
	case *ast.BasicLit:
		switch x.Kind {
		case token.INT:
			v, ok := new(big.Int).SetString(strings.ReplaceAll(x.Value, "_", ""), 0)
			if !ok {
				fail("bad int literal %s", x.Value)
			}
			return v
		case token.CHAR:
			r, _, _, err := strconv.UnquoteChar(x.Value[1:len(x.Value)-1], '\'')
			if err != nil {
				fail("bad char literal %s", x.Value)
			}
			return big.NewInt(int64(r))
		}
	case *ast.Ident:
		if x.Name == "iota" {
			return big.NewInt(int64(iota))
		}
		return new(big.Int).Set(p.constVal(x.Name))
	case *ast.ParenExpr:
		return p.eval(x.X, iota, f)
	case *ast.SelectorExpr:
		if id, ok := x.X.(*ast.Ident); ok {
			if dir, ok := importDir(f, id.Name); ok {
				return new(big.Int).Set(loadPkg(dir).constVal(x.Sel.Name))
			}
			if id.Name == "math" {
				switch x.Sel.Name {
				case "MaxUint32":
					return big.NewInt(0xFFFFFFFF)
				case "MaxInt32":
					return big.NewInt(0x7FFFFFFF)
				case "MinInt32":
					return big.NewInt(-0x80000000)
				case "MaxUint16":
					return big.NewInt(0xFFFF)
				case "MaxUint8":
					return big.NewInt(0xFF)
				case "MaxUint64":
					return new(big.Int).SetUint64(^uint64(0))
				}
			}
		}
	case *ast.UnaryExpr:
		v := p.eval(x.X, iota, f)
		switch x.Op {
		case token.SUB:
			return v.Neg(v)
		case token.ADD:
			return v
		case token.XOR:
			return v.Not(v)
		}
	case *ast.BinaryExpr:
		a := p.eval(x.X, iota, f)
		b := p.eval(x.Y, iota, f)
		switch x.Op {
		case token.ADD:
			return a.Add(a, b)
		case token.SUB:
			return a.Sub(a, b)
		case token.MUL:
			return a.Mul(a, b)
		case token.QUO:
			return a.Quo(a, b)
		case token.REM:
			return a.Rem(a, b)
		case token.SHL:
			return a.Lsh(a, uint(b.Int64()))
		case token.SHR:
			return a.Rsh(a, uint(b.Int64()))
		case token.AND:
			return a.And(a, b)
		case token.OR:
			return a.Or(a, b)
		case token.XOR:
			return a.Xor(a, b)
		case token.AND_NOT:
			return a.AndNot(a, b)
		}
	case *ast.CallExpr:
		if len(x.Args) == 1 {
			if id, ok := x.Fun.(*ast.Ident); ok {
				v := p.eval(x.Args[0], iota, f)
				if bits, ok := intTypes[id.Name]; ok {
					return wrap(v, bits)
				}
				// conversion to a named type of the package: value preserved
				return v
			}
			if _, ok := x.Fun.(*ast.SelectorExpr); ok {
				return p.eval(x.Args[0], iota, f)
			}
		}
	}
	fail("cannot evaluate constant expression at %s", p.fset.Position(e.Pos()))
	return nil
}

// intTable evaluates a package-level var initialised with a composite literal of ints.
func (p *pkgInfo) intTable(name string) []*big.Int {
	e, ok := p.vars[name]
	if !ok {
		fail("var %s not found in %s", name, p.dir)
	}
	cl, ok := e.(*ast.CompositeLit)
	if !ok {
		fail("var %s is not a composite literal", name)
	}
	var r []*big.Int
	for _, el := range cl.Elts {
		if kv, ok := el.(*ast.KeyValueExpr); ok {
			el = kv.Value
		}
		r = append(r, p.eval(el, 0, p.files[0]))
	}
	return r
}

type item struct {
	coq, pkg, name string
}

func coqZ(v *big.Int) string {
	if v.Sign() < 0 {
		return "(" + v.String() + ")"
	}
	return v.String()
}

func main() {
	flag.Parse()
	if *out == "" {
		fail("need -out")
	}
	if err := os.MkdirAll(*out, 0o755); err != nil {
		fail("%v", err)
	}
	if !isolated("setup", func() {}) {
		os.Exit(2)
	}
	genConsts()
	for _, g := range generators {
		name := runtime.FuncForPC(reflect.ValueOf(g).Pointer()).Name()
		isolated(name, g)
	}
	// generated files of earlier runs that no generator produced this time are stale: remove them
	keep := map[string]bool{}
	for _, f := range writtenNow {
		keep[filepath.Base(f)] = true
	}
	ents, _ := os.ReadDir(*out)
	for _, e := range ents {
		if strings.HasSuffix(e.Name(), ".v") && !keep[e.Name()] {
			os.Remove(filepath.Join(*out, e.Name()))
		}
	}
	if len(failures) > 0 {
		os.WriteFile(filepath.Join(*out, "FAILED.txt"), []byte(strings.Join(failures, "\n")+"\n"), 0o644)
		os.Exit(3)
	}
	os.Remove(filepath.Join(*out, "FAILED.txt"))
}

// generators: further translators, each registered from its own file's init().
var generators []func()

func writeIfChanged(path, content string) {
	writtenNow = append(writtenNow, path)
	old, err := os.ReadFile(path)
	if err == nil && string(old) == content {
		return
	}
	if err := os.WriteFile(path, []byte(content), 0o644); err != nil {
		fail("%v", err)
	}
}

func genConsts() {
	var b strings.Builder
	b.WriteString("(* GENERATED by harness/cmd/gen from the Go source of /repo. Do not edit. *)\n")
	b.WriteString("From Coq Require Import ZArith NArith List.\nImport ListNotations.\n\n")
	sort.SliceStable(constItems, func(i, j int) bool { return constItems[i].coq < constItems[j].coq })
	for _, it := range constItems {
		it := it
		isolated("const "+it.pkg+"."+it.name, func() {
			v := loadPkg(it.pkg).constVal(it.name)
			fmt.Fprintf(&b, "(* %s: const %s *)\nDefinition z_%s : Z := %s%%Z.\n", it.pkg, it.name, it.coq, coqZ(v))
			if v.Sign() >= 0 {
				fmt.Fprintf(&b, "Definition n_%s : N := %s%%N.\n", it.coq, v.String())
			}
		})
	}
	for _, it := range tableItems {
		it := it
		isolated("table "+it.pkg+"."+it.name, func() {
			vs := loadPkg(it.pkg).intTable(it.name)
			var ss []string
			for _, v := range vs {
				ss = append(ss, v.String())
			}
			fmt.Fprintf(&b, "(* %s: var %s *)\nDefinition t_%s : list N := [%s]%%N.\n", it.pkg, it.name, it.coq, strings.Join(ss, "; "))
		})
	}
	writeIfChanged(filepath.Join(*out, "Consts.v"), b.String())
}
