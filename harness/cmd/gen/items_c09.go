package main

func init() {
	regConstAs("SubBlockSize", "datatype/common/labels", "SubBlockSize")
	regConstAs("MaxSubBlockSize", "datatype/common/labels", "MaxSubBlockSize")
	regConstAs("MaxBlockSize", "datatype/common/labels", "MaxBlockSize")
	regTable("leftBitMask", "datatype/common/labels", "leftBitMask")
	regTable("bitMask", "datatype/common/labels", "bitMask")
}
