package main

// gen_idlocks: the id-allocation sites of property C12 (coq/Gen/IdLocks.v).
//
// For each site (repoManager.newInstanceID / newRepoID / newVersionID / newUUID, repoT.newMutationID,
// labelmap Data.newLabel / newLabels / updateMaxLabel / updateBlockMaxLabel) and each of its counter
// fields, the translator emits every control-flow PATH through the function (an `if` that contains a
// lock call or a return splits the path; other compound statements are linearised in source order) as a
// sequence of events:
//
//	X.Lock() X.Unlock() X.RLock() X.RUnlock()   (defer X.Unlock(): at the end of the path)
//	Read f / Write f      for the receiver's counter field f (f++, f += e: Read then Write; f[i] = e: Write)
//	Write "store"         a call of <...>.Put(...): the counter is persisted
//	persist helpers (putNewIDs, persistMaxLabel, persistMaxRepoLabel, persistNextLabel) are inlined: their
//	reads are named "<helper>:<field>", their Put is Write "store".
//
// Coq (Model/IdLocks.v) checks on every path that each access of a counter happens while the site's mutex is
// held (exclusively for writes; for the sites the models treat as ONE atomic event, all accesses and the
// Put inside one exclusive section): Props/C12.v C12_id_counters_rmw_under_mutex.
//
// Fail closed (exit 2 / FAILED.txt): a lock call that is not a statement of its own, lock calls or counter
// accesses inside a closure or go statement, lock calls inside for / range / switch / select, the address of a
// counter taken, a path that ends with the mutex held or releases a mutex it does not hold, a missing function.

import (
	"fmt"
	"go/ast"
	"go/token"
	"go/types"
	"path/filepath"
	"sort"
	"strings"
)

func init() { generators = append(generators, genIDLocks) }

type idSite struct {
	name, pkg, fn, mutex string
	fields               []string // counter fields of the receiver
	store                bool     // the persisting Put belongs to the atomic section too
	atomic               bool     // modelled as one atomic event
}

var idSites = []idSite{
	{"datastore.newInstanceID", "datastore", "repoManager.newInstanceID", "m.idMutex", []string{"instanceID"}, true, true},
	{"datastore.newRepoID", "datastore", "repoManager.newRepoID", "m.idMutex", []string{"repoID"}, false, true},
	{"datastore.newVersionID", "datastore", "repoManager.newVersionID", "m.idMutex", []string{"versionID"}, false, true},
	{"datastore.newUUID", "datastore", "repoManager.newUUID", "m.idMutex", []string{"versionID"}, false, true},
	{"datastore.newMutationID", "datastore", "repoT.newMutationID", "r.mutMu", []string{"mutCurID", "mutSavedID"}, true, true},
	{"labelmap.newLabel", "datatype/labelmap", "Data.newLabel", "d.mlMu", []string{"MaxLabel", "MaxRepoLabel", "NextLabel"}, true, true},
	{"labelmap.newLabels", "datatype/labelmap", "Data.newLabels", "d.mlMu", []string{"MaxLabel", "MaxRepoLabel", "NextLabel"}, true, true},
	// two critical sections (RLock check, Lock re-check and update): LBgRead / LBgWrite and the re-check of LSetMax
	{"labelmap.updateMaxLabel", "datatype/labelmap", "Data.updateMaxLabel", "d.mlMu", []string{"MaxLabel", "MaxRepoLabel", "NextLabel"}, true, false},
	{"labelmap.updateBlockMaxLabel", "datatype/labelmap", "Data.updateBlockMaxLabel", "d.mlMu", []string{"MaxLabel", "MaxRepoLabel", "NextLabel"}, true, false},
}

var idPersistHelpers = map[string]bool{"putNewIDs": true, "persistMaxLabel": true, "persistMaxRepoLabel": true, "persistNextLabel": true}

var idAllFields = map[string]bool{"instanceID": true, "repoID": true, "versionID": true, "mutCurID": true, "mutSavedID": true,
	"MaxLabel": true, "MaxRepoLabel": true, "NextLabel": true}

type idPath struct {
	evs  []lkEvent
	done bool
}

type idWalker struct {
	site   *idSite
	p      *pkgInfo
	recv   string
	prefix string // "" or "<helper>:"
	defers []lkEvent
	depth  int
}

func (w *idWalker) failAt(n ast.Node, f string, a ...interface{}) {
	fail("gen_idlocks: site %s: %s at %s", w.site.name, fmt.Sprintf(f, a...), w.p.fset.Position(n.Pos()))
}

func (w *idWalker) pos(n ast.Node, what string) string {
	p := w.p.fset.Position(n.Pos())
	return fmt.Sprintf("%s:%d %s", filepath.Base(p.Filename), p.Line, what)
}

func lockCall(e ast.Expr) (kind string, mu ast.Expr, ok bool) {
	c, isCall := e.(*ast.CallExpr)
	if !isCall || len(c.Args) != 0 {
		return
	}
	sel, isSel := c.Fun.(*ast.SelectorExpr)
	if !isSel {
		return
	}
	switch sel.Sel.Name {
	case "Lock", "Unlock", "RLock", "RUnlock":
		return sel.Sel.Name, sel.X, true
	}
	return
}

func (w *idWalker) field(e ast.Expr) (string, bool) {
	sel, ok := e.(*ast.SelectorExpr)
	if !ok {
		return "", false
	}
	id, ok := sel.X.(*ast.Ident)
	if !ok || id.Name != w.recv || !idAllFields[sel.Sel.Name] {
		return "", false
	}
	return sel.Sel.Name, true
}

// lhsField: f or f[i]
func (w *idWalker) lhsField(e ast.Expr) (string, ast.Expr, bool) {
	if ie, ok := e.(*ast.IndexExpr); ok {
		if f, ok := w.field(ie.X); ok {
			return f, ie.Index, true
		}
		return "", nil, false
	}
	f, ok := w.field(e)
	return f, nil, ok
}

// acc: the counter accesses of a node without lock calls, in evaluation order
func (w *idWalker) acc(n ast.Node) []lkEvent {
	var evs []lkEvent
	if n == nil {
		return nil
	}
	ast.Inspect(n, func(x ast.Node) bool {
		switch y := x.(type) {
		case *ast.FuncLit:
			if len(w.acc(y.Body)) > 0 {
				w.failAt(y, "counter access inside a closure")
			}
			return false
		case *ast.GoStmt:
			if len(w.acc(y.Call)) > 0 {
				w.failAt(y, "counter access inside a go statement")
			}
			return false
		case *ast.DeferStmt:
			if _, _, ok := lockCall(y.Call); ok {
				w.failAt(y, "deferred lock call in a nested statement")
			}
			if len(w.acc(y.Call)) > 0 {
				w.failAt(y, "counter access in a deferred call")
			}
			return false
		case *ast.UnaryExpr:
			if y.Op == token.AND {
				if _, _, ok := w.lhsField(y.X); ok {
					w.failAt(y, "address of a counter taken")
				}
			}
		case *ast.AssignStmt:
			for _, r := range y.Rhs {
				evs = append(evs, w.acc(r)...)
			}
			for _, l := range y.Lhs {
				if f, idx, ok := w.lhsField(l); ok {
					evs = append(evs, w.acc(idx)...)
					if y.Tok != token.ASSIGN && y.Tok != token.DEFINE {
						evs = append(evs, lkEvent{"Read", w.prefix + f, w.pos(l, types.ExprString(l)+" "+y.Tok.String())})
					}
					evs = append(evs, lkEvent{"Write", w.prefix + f, w.pos(l, "assignment to "+types.ExprString(l))})
				} else {
					evs = append(evs, w.acc(l)...)
				}
			}
			return false
		case *ast.IncDecStmt:
			if f, idx, ok := w.lhsField(y.X); ok {
				evs = append(evs, w.acc(idx)...)
				evs = append(evs, lkEvent{"Read", w.prefix + f, w.pos(y, types.ExprString(y.X)+y.Tok.String())})
				evs = append(evs, lkEvent{"Write", w.prefix + f, w.pos(y, types.ExprString(y.X)+y.Tok.String())})
				return false
			}
		case *ast.CallExpr:
			if _, _, ok := lockCall(y); ok {
				w.failAt(y, "lock call that is not a statement of the path walk (inside an expression, loop or switch)")
			}
			if sel, ok := y.Fun.(*ast.SelectorExpr); ok {
				if id, isID := sel.X.(*ast.Ident); isID && id.Name == w.recv && idPersistHelpers[sel.Sel.Name] {
					for _, a := range y.Args {
						evs = append(evs, w.acc(a)...)
					}
					evs = append(evs, w.inlineHelper(y, sel.Sel.Name)...)
					return false
				}
				if sel.Sel.Name == "Put" {
					for _, a := range y.Args {
						evs = append(evs, w.acc(a)...)
					}
					evs = append(evs, lkEvent{"Write", "store", w.pos(y, types.ExprString(y.Fun))})
					return false
				}
			}
		case *ast.SelectorExpr:
			if f, ok := w.field(y); ok {
				evs = append(evs, lkEvent{"Read", w.prefix + f, w.pos(y, types.ExprString(y))})
				return false
			}
		}
		return true
	})
	return evs
}

func (w *idWalker) inlineHelper(c *ast.CallExpr, name string) []lkEvent {
	if w.depth > 2 {
		w.failAt(c, "helper nesting too deep")
	}
	recvType := strings.SplitN(w.site.fn, ".", 2)[0]
	fd, ok := w.p.funcs[recvType+"."+name]
	if !ok || fd.Body == nil || fd.Recv == nil || len(fd.Recv.List) != 1 || len(fd.Recv.List[0].Names) != 1 {
		w.failAt(c, "persist helper %s.%s not found", recvType, name)
	}
	if hasLockCall(fd.Body) {
		w.failAt(c, "persist helper %s takes a lock itself", name)
	}
	w2 := &idWalker{site: w.site, p: w.p, recv: fd.Recv.List[0].Names[0].Name, prefix: name + ":", depth: w.depth + 1}
	return w2.acc(fd.Body)
}

func hasLockCall(n ast.Node) bool {
	found := false
	ast.Inspect(n, func(x ast.Node) bool {
		if e, ok := x.(ast.Expr); ok {
			if _, _, ok := lockCall(e); ok {
				found = true
			}
		}
		return !found
	})
	return found
}

func hasReturn(n ast.Node) bool {
	found := false
	ast.Inspect(n, func(x ast.Node) bool {
		switch x.(type) {
		case *ast.ReturnStmt:
			found = true
		case *ast.FuncLit:
			return false
		}
		return !found
	})
	return found
}

func seqPaths(a []idPath, b []idPath) []idPath {
	var out []idPath
	for _, p := range a {
		if p.done {
			out = append(out, p)
			continue
		}
		for _, q := range b {
			evs := append(append([]lkEvent{}, p.evs...), q.evs...)
			out = append(out, idPath{evs, q.done})
		}
	}
	if len(out) > 64 {
		fail("gen_idlocks: more than 64 paths")
	}
	return out
}

func (w *idWalker) stmts(l []ast.Stmt, top bool) []idPath {
	paths := []idPath{{}}
	for _, s := range l {
		paths = seqPaths(paths, w.stmt(s, top))
	}
	return paths
}

func (w *idWalker) stmt(s ast.Stmt, top bool) []idPath {
	switch x := s.(type) {
	case *ast.ExprStmt:
		if kind, mu, ok := lockCall(x.X); ok {
			return []idPath{{evs: []lkEvent{{kind, types.ExprString(mu), w.pos(x, types.ExprString(x.X))}}}}
		}
	case *ast.DeferStmt:
		if kind, mu, ok := lockCall(x.Call); ok {
			if !top || (kind != "Unlock" && kind != "RUnlock") {
				w.failAt(x, "deferred lock call of unknown shape")
			}
			w.defers = append([]lkEvent{{kind, types.ExprString(mu), w.pos(x, "defer "+types.ExprString(x.Call.Fun))}}, w.defers...)
			return []idPath{{}}
		}
	case *ast.ReturnStmt:
		return []idPath{{evs: w.acc(x), done: true}}
	case *ast.BlockStmt:
		if hasLockCall(x) || hasReturn(x) {
			return w.stmts(x.List, false)
		}
	case *ast.IfStmt:
		if hasLockCall(x) || hasReturn(x) {
			if x.Init != nil && hasLockCall(x.Init) {
				w.failAt(x, "lock call in an if initialiser")
			}
			if hasLockCall(x.Cond) {
				w.failAt(x, "lock call in a condition")
			}
			pre := []idPath{{evs: append(w.acc(x.Init), w.acc(x.Cond)...)}}
			arms := w.stmts(x.Body.List, false)
			switch e := x.Else.(type) {
			case nil:
				arms = append(arms, idPath{})
			case *ast.BlockStmt:
				arms = append(arms, w.stmts(e.List, false)...)
			default:
				arms = append(arms, w.stmt(e, false)...)
			}
			return seqPaths(pre, arms)
		}
	case *ast.ForStmt, *ast.RangeStmt, *ast.SwitchStmt, *ast.TypeSwitchStmt, *ast.SelectStmt, *ast.GoStmt, *ast.LabeledStmt:
		if hasLockCall(x) {
			w.failAt(x, "lock call inside a loop / switch / select / go / labeled statement")
		}
		// a return inside a loop or switch ends the path there or not: both continuations are emitted
		if hasReturn(x) {
			evs := w.acc(x)
			return []idPath{{evs: evs, done: true}, {evs: evs}}
		}
	}
	if hasLockCall(s) {
		w.failAt(s, "lock call in a statement of unknown shape %T", s)
	}
	return []idPath{{evs: w.acc(s)}}
}

// balance: the path's own locks are released, nothing is released that is not held
func idBalanced(evs []lkEvent) string {
	held := map[string]string{}
	for _, e := range evs {
		switch e.kind {
		case "Lock", "RLock":
			if held[e.arg] != "" {
				return "takes " + e.arg + " while holding it (" + e.src + ")"
			}
			held[e.arg] = e.kind
		case "Unlock":
			if held[e.arg] != "Lock" {
				return "Unlock of " + e.arg + " that is not held exclusively (" + e.src + ")"
			}
			held[e.arg] = ""
		case "RUnlock":
			if held[e.arg] != "RLock" {
				return "RUnlock of " + e.arg + " that is not held shared (" + e.src + ")"
			}
			held[e.arg] = ""
		}
	}
	for m, k := range held {
		if k != "" {
			return "path ends holding " + m
		}
	}
	return ""
}

func genIDLocks() {
	var b strings.Builder
	b.WriteString("(* GENERATED by harness/cmd/gen (gen_idlocks.go) from the Go source of /repo. Do not edit.\n")
	b.WriteString("   Per id-allocation site of property C12 and per control-flow path through it: the mutex calls and the\n")
	b.WriteString("   accesses of the counter fields in execution order.  (site#path, mutex, counter locations, atomic, events) *)\n")
	b.WriteString("From Coq Require Import String List.\nImport ListNotations.\nLocal Open Scope string_scope.\n\n")
	b.WriteString("Inductive iev :=\n| ILock (m : string)\n| IUnlock (m : string)\n| IRLock (m : string)\n| IRUnlock (m : string)\n| IRead (l : string)\n| IWrite (l : string).\n\n")
	b.WriteString("Definition id_site_paths : list (string * string * list string * bool * list iev) := [\n")
	first := true
	for i := range idSites {
		site := &idSites[i]
		p := loadPkg(site.pkg)
		fd, ok := p.funcs[site.fn]
		if !ok || fd.Body == nil || fd.Recv == nil || len(fd.Recv.List) != 1 || len(fd.Recv.List[0].Names) != 1 {
			fail("gen_idlocks: site %s: method %s not found in %s", site.name, site.fn, site.pkg)
		}
		w := &idWalker{site: site, p: p, recv: fd.Recv.List[0].Names[0].Name}
		paths := w.stmts(fd.Body.List, true)
		seen := map[string]bool{}
		n := 0
		var keys []string
		rendered := map[string][]lkEvent{}
		for _, pa := range paths {
			evs := append(append([]lkEvent{}, pa.evs...), w.defers...)
			// a deferred unlock only runs if its defer statement was reached: drop those whose Lock is not on the path
			evs = dropUnreachedDefers(evs, w.defers)
			if msg := idBalanced(evs); msg != "" {
				fail("gen_idlocks: site %s: %s", site.name, msg)
			}
			var k strings.Builder
			for _, e := range evs {
				k.WriteString(e.kind + " " + e.arg + ";")
			}
			if !seen[k.String()] {
				seen[k.String()] = true
				keys = append(keys, k.String())
				rendered[k.String()] = evs
			}
		}
		sort.Strings(keys)
		hasAccess := false
		for _, key := range keys {
			evs := rendered[key]
			n++
			locs := append([]string{}, site.fields...)
			if site.store {
				// the persisting Put and the helper's reads of the counters belong to the section too
				locs = append(locs, "store")
				for _, e := range evs {
					if (e.kind == "Read" || e.kind == "Write") && strings.Contains(e.arg, ":") {
						dup := false
						for _, l := range locs {
							dup = dup || l == e.arg
						}
						if !dup {
							locs = append(locs, e.arg)
						}
					}
				}
			}
			var ls []string
			for _, l := range locs {
				ls = append(ls, coqStr(l))
			}
			if !first {
				b.WriteString(";\n")
			}
			first = false
			fmt.Fprintf(&b, "  (%s, %s, [%s], %v, [\n", coqStr(fmt.Sprintf("%s#%d", site.name, n)), coqStr(site.mutex), strings.Join(ls, "; "), site.atomic)
			for j, e := range evs {
				sep := ";"
				if j == len(evs)-1 {
					sep = ""
				}
				if e.kind == "Read" || e.kind == "Write" {
					hasAccess = true
				}
				fmt.Fprintf(&b, "    I%s %s%s (* %s *)\n", e.kind, coqStr(e.arg), sep, e.src)
			}
			b.WriteString("  ])")
		}
		if !hasAccess {
			fail("gen_idlocks: site %s: no counter access recognised", site.name)
		}
	}
	b.WriteString("\n].\n")
	writeIfChanged(filepath.Join(*out, "IdLocks.v"), b.String())
}

// dropUnreachedDefers: the deferred Unlock of a mutex is kept only when the path contains a Lock of that
// mutex that no explicit Unlock on the path releases (the defer statement follows its Lock in these sites).
func dropUnreachedDefers(evs []lkEvent, defers []lkEvent) []lkEvent {
	if len(defers) == 0 {
		return evs
	}
	body := evs[:len(evs)-len(defers)]
	out := append([]lkEvent{}, body...)
	for _, d := range defers {
		open := 0
		for _, e := range body {
			if e.arg != d.arg {
				continue
			}
			if (d.kind == "Unlock" && e.kind == "Lock") || (d.kind == "RUnlock" && e.kind == "RLock") {
				open++
			}
			if e.kind == d.kind {
				open--
			}
		}
		if open > 0 {
			out = append(out, d)
		}
	}
	return out
}
