package main

func init() {
	// annotation element kinds (datatype/annotation/annotation.go) and labelsz index types (datatype/labelsz/keys.go)
	for _, n := range []string{"UnknownElem", "PostSyn", "PreSyn", "Gap", "Note"} {
		regConstAs("ann_"+n, "datatype/annotation", n)
	}
	for _, n := range []string{"UnknownIndex", "PostSyn", "PreSyn", "Gap", "Note", "AllSyn", "Voxels"} {
		regConstAs("sz_"+n, "datatype/labelsz", n)
	}
	for _, n := range []string{"UnknownRel", "PostSynTo", "PreSynTo", "ConvergentTo", "GroupedWith"} {
		regConstAs("ann_"+n, "datatype/annotation", n)
	}
}
