package main

func init() {
	regConsts("dvid", "Uncompressed", "Snappy", "Gzip", "LZ4", "JPEG", "NoChecksum", "CRC32")
	regConsts("datastore", "repoKey") // metadata key class of the stored repos (the one metadata value that is enveloped)
	regFunc("EncodeSerializationFormat", "dvid", "EncodeSerializationFormat")
	regFunc("DecodeSerializationFormat", "dvid", "DecodeSerializationFormat")
}
