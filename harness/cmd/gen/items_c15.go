package main

func init() {
	regConsts("dvid", "Uncompressed", "Snappy", "Gzip", "LZ4", "JPEG", "NoChecksum", "CRC32")
	regFunc("EncodeSerializationFormat", "dvid", "EncodeSerializationFormat")
	regFunc("DecodeSerializationFormat", "dvid", "DecodeSerializationFormat")
}
