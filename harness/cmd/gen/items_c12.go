package main

func init() {
	regConstAs("ids_StrideMutationID", "datastore", "StrideMutationID")
	regConstAs("ids_InitialMutationID", "datastore", "InitialMutationID")
	regConstAs("ids_veryLargeLabel", "datatype/labelmap", "veryLargeLabel")
}
