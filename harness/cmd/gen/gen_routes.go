package main

// gen_routes: the request gate of server/web.go and the endpoint tables of every datatype,
// extracted from the go/ast of the current source into coq/Gen/Routes.v (and harness/bin/routes.json
// for the driver).  Everything here is syntactic and fails closed (see genRoutesGuarded): a registration, a gate
// condition or a ServeHTTP whose shape is not one of those recognised below is an error:
// Gen/Routes.v then does not type-check and every proof that imports it stops building.
//
// Extracted:
//  (1) initRoutes: for each mux the middleware chain (`X.Use(f)`, conditional ones marked),
//      where it is mounted (`mainMux.Handle(pattern, X)`), its routes (`X.Get/Post/...`).
//  (2) the refusal condition of each selector / gated handler as a conjunction of atoms, the
//      nodeSelector branch-action whitelist, the keyword shortcuts of instanceSelector.
//  (3) datastore.Data.IsMutationRequest's method list and every datatype override as
//      (package, endpoint, method) triples, resolved through struct embedding.
//  (4) for every datatype package: the keywords its ServeHTTP switches on and, by partial
//      evaluation of the handler on each concrete HTTP method, the methods each keyword's
//      handler does not reject by a method test.

import (
	"encoding/json"
	"fmt"
	"go/ast"
	"go/token"
	"os"
	"path/filepath"
	"sort"
	"strconv"
	"strings"
)

func init() { generators = append(generators, genRoutes) }

// rfail: a shape this translator does not understand.  harness/cmd/gen isolates every generator:
// Gen/Routes.v is then not produced and exactly the closures that import it stop building.
func rfail(f string, a ...interface{}) { fail(f, a...) }

// safeGate: a refusal condition that is not understood does not abort the translation; the
// selector is recorded with the single atom AUnknown, which the model evaluates to "does not
// refuse".  Every theorem about a refusal then fails, while the run checkers still build, so the
// search for a concrete violating request can go on against the changed source.
func safeGate(p *pkgInfo, name string, selector bool) (gi gateInfo) {
	defer func() {
		if e := recover(); e != nil {
			gf, is := e.(genFailure)
			if !is {
				panic(e)
			}
			fmt.Fprintf(os.Stderr, "gen: routes: %s (recorded as AUnknown)\n", gf.msg)
			gi = gateInfo{Name: name, Atoms: []string{"(AUnknown " + routesCoqStr(gf.msg) + ")"}, Shortcuts: map[string][]string{}, Unknown: true}
		}
	}()
	return gateOf(p, name, selector)
}

// ---------- small AST helpers ----------

func routesStrLit(e ast.Expr) (string, bool) {
	if bl, ok := e.(*ast.BasicLit); ok && bl.Kind == token.STRING {
		s, err := strconv.Unquote(bl.Value)
		if err == nil {
			return s, true
		}
	}
	return "", false
}

func exprStr(e ast.Expr) string {
	switch x := e.(type) {
	case *ast.Ident:
		return x.Name
	case *ast.SelectorExpr:
		return exprStr(x.X) + "." + x.Sel.Name
	case *ast.IndexExpr:
		return exprStr(x.X) + "[" + exprStr(x.Index) + "]"
	case *ast.BasicLit:
		return x.Value
	case *ast.CallExpr:
		var as []string
		for _, a := range x.Args {
			as = append(as, exprStr(a))
		}
		return exprStr(x.Fun) + "(" + strings.Join(as, ",") + ")"
	case *ast.UnaryExpr:
		return x.Op.String() + exprStr(x.X)
	case *ast.BinaryExpr:
		return exprStr(x.X) + x.Op.String() + exprStr(x.Y)
	case *ast.ParenExpr:
		return "(" + exprStr(x.X) + ")"
	case *ast.StarExpr:
		return "*" + exprStr(x.X)
	case *ast.TypeAssertExpr:
		if x.Type == nil {
			return exprStr(x.X) + ".(type)"
		}
		return exprStr(x.X) + ".(" + exprStr(x.Type) + ")"
	}
	return fmt.Sprintf("<%T>", e)
}

func (p *pkgInfo) pos(n ast.Node) string { return p.fset.Position(n.Pos()).String() }

func conjuncts(e ast.Expr) []ast.Expr {
	if pe, ok := e.(*ast.ParenExpr); ok {
		return conjuncts(pe.X)
	}
	if be, ok := e.(*ast.BinaryExpr); ok && be.Op == token.LAND {
		return append(conjuncts(be.X), conjuncts(be.Y)...)
	}
	return []ast.Expr{e}
}

// ---------- (1) routes ----------

type routeT struct{ Mux, Method, Pattern, Handler string }
type useT struct {
	Mux, Fn string
	Cond    bool
}
type mountT struct{ Parent, Pattern, Mux string }

var httpVerbs = map[string]string{"Get": "get", "Post": "post", "Put": "put", "Delete": "delete", "Head": "head", "Patch": "patch", "Options": "options", "Connect": "connect", "Trace": "trace"}

func extractRoutes(p *pkgInfo) (routes []routeT, uses []useT, mounts []mountT) {
	fd, ok := p.funcs["initRoutes"]
	if !ok {
		rfail("server: func initRoutes not found")
	}
	var walk func(stmts []ast.Stmt, cond bool)
	handleCall := func(ce *ast.CallExpr, cond bool) {
		se, ok := ce.Fun.(*ast.SelectorExpr)
		if !ok {
			return
		}
		recv, ok := se.X.(*ast.Ident)
		if !ok || !strings.HasSuffix(recv.Name, "Mux") {
			return
		}
		name := se.Sel.Name
		switch {
		case name == "Use":
			if len(ce.Args) != 1 {
				rfail("%s: Use with %d args", p.pos(ce), len(ce.Args))
			}
			uses = append(uses, useT{recv.Name, exprStr(ce.Args[0]), cond})
		case name == "Handle":
			if len(ce.Args) != 2 {
				rfail("%s: Handle with %d args", p.pos(ce), len(ce.Args))
			}
			pat, ok := routesStrLit(ce.Args[0])
			if !ok {
				rfail("%s: Handle pattern is not a string literal", p.pos(ce))
			}
			if cond {
				rfail("%s: conditional mount not understood", p.pos(ce))
			}
			mounts = append(mounts, mountT{recv.Name, pat, exprStr(ce.Args[1])})
		case httpVerbs[name] != "":
			if len(ce.Args) != 2 {
				rfail("%s: route registration with %d args", p.pos(ce), len(ce.Args))
			}
			pat, ok := routesStrLit(ce.Args[0])
			if !ok {
				rfail("%s: route pattern is not a string literal", p.pos(ce))
			}
			if cond {
				rfail("%s: conditional route registration not understood", p.pos(ce))
			}
			routes = append(routes, routeT{recv.Name, httpVerbs[name], pat, exprStr(ce.Args[1])})
		case name == "NotFound" || name == "Lock" || name == "Unlock":
		default:
			rfail("%s: call %s.%s on a mux not understood", p.pos(ce), recv.Name, name)
		}
	}
	walk = func(stmts []ast.Stmt, cond bool) {
		for _, s := range stmts {
			switch x := s.(type) {
			case *ast.ExprStmt:
				if ce, ok := x.X.(*ast.CallExpr); ok {
					handleCall(ce, cond)
				}
			case *ast.IfStmt:
				walk(x.Body.List, true)
				if x.Else != nil {
					switch e := x.Else.(type) {
					case *ast.BlockStmt:
						walk(e.List, true)
					case *ast.IfStmt:
						walk([]ast.Stmt{e}, true)
					}
				}
			case *ast.ForStmt:
				walk(x.Body.List, true)
			case *ast.RangeStmt:
				walk(x.Body.List, true)
			case *ast.BlockStmt:
				walk(x.List, cond)
			case *ast.SwitchStmt, *ast.TypeSwitchStmt, *ast.SelectStmt, *ast.GoStmt, *ast.DeferStmt:
				// a registration hidden in one of these would be missed: refuse if any mux call occurs inside
				ast.Inspect(x, func(n ast.Node) bool {
					if ce, ok := n.(*ast.CallExpr); ok {
						if se, ok := ce.Fun.(*ast.SelectorExpr); ok {
							if id, ok := se.X.(*ast.Ident); ok && strings.HasSuffix(id.Name, "Mux") && id.Name != "webMuxMu" {
								rfail("%s: mux call inside an unexpected statement", p.pos(ce))
							}
						}
					}
					return true
				})
			}
		}
	}
	walk(fd.Body.List, false)
	if len(routes) < 20 || len(mounts) < 5 {
		rfail("server: initRoutes yielded only %d routes / %d mounts", len(routes), len(mounts))
	}
	return
}

// ---------- (2) gate conditions ----------

// atoms are printed as Coq constructors of Base.GateTypes.gatom
func atomOf(p *pkgInfo, e ast.Expr) string {
	s := exprStr(e)
	switch s {
	case "!adminPriv":
		return "ANotAdmin"
	case "readonly":
		return "AReadonly"
	case "!fullwrite":
		return "ANotFullwrite"
	case "locked":
		return "ALocked"
	case "!branchRequest":
		return "ANotBranch"
	case `data.IsMutationRequest(r.Method,c.URLParams["keyword"])`:
		return "AIsMutation"
	}
	if be, ok := e.(*ast.BinaryExpr); ok && be.Op == token.NEQ && exprStr(be.X) == "method" {
		if lit, ok := routesStrLit(be.Y); ok {
			return "(AMethodNe " + routesCoqStr(lit) + ")"
		}
	}
	rfail("%s: gate condition conjunct %q not understood", p.pos(e), s)
	return ""
}

func routesCoqStr(s string) string { return `"` + strings.ReplaceAll(s, `"`, `""`) + `"` }

func mentionsGateVar(e ast.Expr) bool {
	found := false
	ast.Inspect(e, func(n ast.Node) bool {
		if id, ok := n.(*ast.Ident); ok {
			switch id.Name {
			case "readonly", "fullwrite", "locked":
				found = true
			}
		}
		return true
	})
	return found
}

func mentionsModeVar(e ast.Expr) bool {
	found := false
	ast.Inspect(e, func(n ast.Node) bool {
		if id, ok := n.(*ast.Ident); ok && (id.Name == "readonly" || id.Name == "fullwrite") {
			found = true
		}
		return true
	})
	return found
}

func isBadRequestCall(s ast.Stmt) bool {
	es, ok := s.(*ast.ExprStmt)
	if !ok {
		return false
	}
	ce, ok := es.X.(*ast.CallExpr)
	if !ok {
		return false
	}
	switch exprStr(ce.Fun) {
	case "BadRequest", "server.BadRequest", "server.BadAPIRequest", "BadAPIRequest", "http.Error", "notFound", "http.NotFound":
		return true
	}
	return false
}

// isRefusalBody: BadRequest(...) followed by return
func isRefusalBody(b *ast.BlockStmt) bool {
	if len(b.List) != 2 {
		return false
	}
	_, isRet := b.List[1].(*ast.ReturnStmt)
	return isBadRequestCall(b.List[0]) && isRet
}

// handlerBody returns the statement list of a selector's inner closure (`fn := func(w, r) {...}`)
// or of a plain handler.
func handlerBody(p *pkgInfo, name string) (*ast.FuncDecl, []ast.Stmt) {
	fd, ok := p.funcs[name]
	if !ok {
		rfail("server: func %s not found", name)
	}
	for _, s := range fd.Body.List {
		if as, ok := s.(*ast.AssignStmt); ok && len(as.Lhs) == 1 && len(as.Rhs) == 1 && exprStr(as.Lhs[0]) == "fn" {
			if fl, ok := as.Rhs[0].(*ast.FuncLit); ok {
				return fd, fl.Body.List
			}
		}
	}
	return fd, fd.Body.List
}

type gateInfo struct {
	Unknown   bool
	Name      string
	Atoms     []string
	Shortcuts map[string][]string // instanceSelector: keyword -> methods of the early-return block
	Branch    []string            // nodeSelector: branch action whitelist
}

// gateOf finds the one refusal `if` of a selector/handler that tests readonly/fullwrite/locked.
// Only a fixed vocabulary of statements may precede it; the call that passes the request on
// (h.ServeHTTP / data.ServeHTTP / the handler's own work) must come after it.
func gateOf(p *pkgInfo, name string, selector bool) gateInfo {
	_, body := handlerBody(p, name)
	gi := gateInfo{Name: name, Shortcuts: map[string][]string{}}
	found := false
	passPos := token.NoPos
	var gatePos token.Pos
	var scan func(stmts []ast.Stmt, enclosing []string)
	scan = func(stmts []ast.Stmt, enclosing []string) {
		for _, s := range stmts {
			switch x := s.(type) {
			case *ast.IfStmt:
				cond := exprStr(x.Cond)
				switch {
				case mentionsGateVar(x.Cond):
					if found {
						rfail("%s: %s has more than one condition over readonly/fullwrite/locked", p.pos(x), name)
					}
					if !isRefusalBody(x.Body) || x.Else != nil {
						rfail("%s: %s: gate condition is not followed by BadRequest; return", p.pos(x), name)
					}
					for _, c := range conjuncts(x.Cond) {
						gi.Atoms = append(gi.Atoms, atomOf(p, c))
					}
					gi.Atoms = append(gi.Atoms, enclosing...)
					found = true
					gatePos = x.Pos()
				case cond == "data.Versioned()":
					if found {
						rfail("%s: %s: data.Versioned() test after the gate", p.pos(x), name)
					}
					scan(x.Body.List, append(append([]string{}, enclosing...), "AVersioned"))
					// else branch: root-version mapping, no gate inside
					if x.Else != nil {
						ast.Inspect(x.Else, func(n ast.Node) bool {
							if e, ok := n.(ast.Expr); ok && mentionsGateVar(e) {
								if _, isId := e.(*ast.Ident); isId {
									rfail("%s: %s: gate variable in the unversioned branch", p.pos(x), name)
								}
							}
							return true
						})
					}
				case cond == "err!=nil":
					// error return; an `else if locked` refusal may hang off it (repoCommitHandler)
					if ei, ok := x.Else.(*ast.IfStmt); ok {
						scan([]ast.Stmt{ei}, enclosing)
					} else if x.Else != nil {
						if eb, ok := x.Else.(*ast.BlockStmt); ok {
							scan(eb.List, enclosing)
						}
					}
				case cond == "!ok" || cond == "r.Body!=nil" || cond == "AllowTiming()" || cond == "KafkaAvailable()" || cond == `method=="post"` ||
					cond == `interactive==""||(interactive!="false"&&interactive!="0")` || cond == "len(activity)>0" ||
					cond == "len(adminToken)!=0" || cond == "found" || strings.HasPrefix(cond, "!found"):
					if !found && selector && len(enclosing) == 0 {
						// before the gate only error exits are allowed to return
						if cond != "!ok" && cond != "len(adminToken)!=0" {
							rfail("%s: %s: statement %q before the gate not understood", p.pos(x), name, cond)
						}
					}
				default:
					if be, ok := x.Cond.(*ast.BinaryExpr); ok && be.Op == token.EQL && exprStr(be.X) == `c.URLParams["keyword"]` {
						kw, ok := routesStrLit(be.Y)
						if !ok {
							rfail("%s: keyword shortcut without literal", p.pos(x))
						}
						if found {
							rfail("%s: %s: keyword shortcut after the gate", p.pos(x), name)
						}
						var ms []string
						for _, st := range x.Body.List {
							if sw, ok := st.(*ast.SwitchStmt); ok && exprStr(sw.Tag) == "method" {
								for _, cc := range sw.Body.List {
									for _, ce := range cc.(*ast.CaseClause).List {
										if m, ok := routesStrLit(ce); ok {
											ms = append(ms, m)
										} else {
											rfail("%s: shortcut method case not a literal", p.pos(ce))
										}
									}
								}
							}
						}
						if _, isRet := x.Body.List[len(x.Body.List)-1].(*ast.ReturnStmt); !isRet {
							rfail("%s: keyword shortcut does not return", p.pos(x))
						}
						gi.Shortcuts[kw] = ms
					} else if selector {
						rfail("%s: %s: condition %q not understood", p.pos(x), name, cond)
					}
				}
			case *ast.SwitchStmt:
				if exprStr(x.Tag) == `c.URLParams["action"]` {
					if found {
						rfail("%s: branch whitelist after the gate", p.pos(x))
					}
					for _, cc := range x.Body.List {
						cl := cc.(*ast.CaseClause)
						if len(cl.Body) != 1 || exprStr(cl.Body[0].(*ast.AssignStmt).Lhs[0]) != "branchRequest" || exprStr(cl.Body[0].(*ast.AssignStmt).Rhs[0]) != "true" {
							rfail("%s: branch whitelist clause body not `branchRequest = true`", p.pos(cl))
						}
						for _, ce := range cl.List {
							a, ok := routesStrLit(ce)
							if !ok {
								rfail("%s: branch whitelist entry not a literal", p.pos(ce))
							}
							gi.Branch = append(gi.Branch, a)
						}
					}
				} else if selector && !found {
					rfail("%s: %s: switch before the gate not understood", p.pos(x), name)
				}
			case *ast.ExprStmt:
				if ce, ok := x.X.(*ast.CallExpr); ok {
					f := exprStr(ce.Fun)
					if (f == "h.ServeHTTP" || f == "data.ServeHTTP") && passPos == token.NoPos {
						passPos = ce.Pos()
					}
				}
			case *ast.AssignStmt:
				for _, r := range x.Rhs {
					if ce, ok := r.(*ast.CallExpr); ok && exprStr(ce.Fun) == "data.ServeHTTP" && passPos == token.NoPos {
						passPos = ce.Pos()
					}
				}
				// the variables the conditions read must be what we think they are
				if len(x.Lhs) >= 1 && len(x.Rhs) == 1 {
					l, r := exprStr(x.Lhs[0]), exprStr(x.Rhs[0])
					switch l {
					case "method":
						if r != "strings.ToLower(r.Method)" {
							rfail("%s: %s: method := %s", p.pos(x), name, r)
						}
					case "adminPriv":
						if r != `c.Env["adminPriv"].(bool)` && !(name == "adminPrivHandler") {
							rfail("%s: %s: adminPriv := %s", p.pos(x), name, r)
						}
					case "locked":
						if r != "datastore.LockedUUID(uuid)" {
							rfail("%s: %s: locked := %s", p.pos(x), name, r)
						}
					}
				}
			}
		}
	}
	scan(body, nil)
	if !found {
		rfail("server: %s: no refusal condition over readonly/fullwrite/locked found", name)
	}
	if selector {
		if passPos == token.NoPos || passPos < gatePos {
			rfail("server: %s: request is passed on before the gate is evaluated", name)
		}
	}
	return gi
}

// adminPrivHandler: adminPriv = (query admintoken == adminToken) when a token is configured
func checkAdminPriv(p *pkgInfo) {
	_, body := handlerBody(p, "adminPrivHandler")
	src := ""
	for _, s := range body {
		ast.Inspect(s, func(n ast.Node) bool {
			if e, ok := n.(*ast.AssignStmt); ok {
				src += exprStr(e.Lhs[0]) + "=" + exprStr(e.Rhs[0]) + ";"
			}
			if e, ok := n.(*ast.IfStmt); ok {
				src += "if " + exprStr(e.Cond) + ";"
			}
			return true
		})
	}
	want := `if len(adminToken)!=0;queryAdminToken=r.URL.Query().Get("admintoken");adminPriv=(queryAdminToken==adminToken);c.Env["adminPriv"]=adminPriv;`
	if src != want {
		rfail("server: adminPrivHandler changed shape:\n got  %s\n want %s", src, want)
	}
}

// ---------- (3) IsMutationRequest ----------

func defaultMutationMethods() []string {
	p := loadPkg("datastore")
	fd, ok := p.funcs["Data.IsMutationRequest"]
	if !ok {
		rfail("datastore: Data.IsMutationRequest not found")
	}
	b := fd.Body.List
	if len(b) != 2 {
		rfail("%s: default IsMutationRequest has %d statements", p.pos(fd), len(b))
	}
	as, ok := b[0].(*ast.AssignStmt)
	if !ok || exprStr(as.Lhs[0]) != "lc" || exprStr(as.Rhs[0]) != "strings.ToLower(action)" {
		rfail("%s: default IsMutationRequest: first statement not lc := strings.ToLower(action)", p.pos(fd))
	}
	sw, ok := b[1].(*ast.SwitchStmt)
	if !ok || exprStr(sw.Tag) != "lc" || len(sw.Body.List) != 2 {
		rfail("%s: default IsMutationRequest: switch lc with two clauses expected", p.pos(fd))
	}
	var ms []string
	c0 := sw.Body.List[0].(*ast.CaseClause)
	c1 := sw.Body.List[1].(*ast.CaseClause)
	retIs := func(cl *ast.CaseClause, v string) bool {
		if len(cl.Body) != 1 {
			return false
		}
		r, ok := cl.Body[0].(*ast.ReturnStmt)
		return ok && len(r.Results) == 1 && exprStr(r.Results[0]) == v
	}
	if c0.List == nil || c1.List != nil || !retIs(c0, "true") || !retIs(c1, "false") {
		rfail("%s: default IsMutationRequest: clauses not `case ...: return true; default: return false`", p.pos(fd))
	}
	for _, e := range c0.List {
		m, ok := routesStrLit(e)
		if !ok {
			rfail("%s: non-literal method", p.pos(e))
		}
		ms = append(ms, m)
	}
	return ms
}

type tripleT struct{ Pkg, Endpoint, Method string }

// ownOverrides parses `func (d *Data) IsMutationRequest` of a datatype package:
//   lc := strings.ToLower(action); { if endpoint == "E" && lc == "M" { return false } }* ; return d.Data.IsMutationRequest(action, endpoint)
func ownOverrides(p *pkgInfo) ([][2]string, bool) {
	fd, ok := p.funcs["Data.IsMutationRequest"]
	if !ok {
		return nil, false
	}
	b := fd.Body.List
	if len(b) < 2 {
		rfail("%s: IsMutationRequest override too short", p.pos(fd))
	}
	as, ok := b[0].(*ast.AssignStmt)
	if !ok || exprStr(as.Lhs[0]) != "lc" || exprStr(as.Rhs[0]) != "strings.ToLower(action)" {
		rfail("%s: override: first statement not lc := strings.ToLower(action)", p.pos(fd))
	}
	var out [][2]string
	for _, s := range b[1 : len(b)-1] {
		is, ok := s.(*ast.IfStmt)
		if !ok || is.Else != nil || len(is.Body.List) != 1 {
			rfail("%s: override: statement not understood", p.pos(s))
		}
		r, ok := is.Body.List[0].(*ast.ReturnStmt)
		if !ok || len(r.Results) != 1 || exprStr(r.Results[0]) != "false" {
			rfail("%s: override: branch does not `return false`", p.pos(s))
		}
		cs := conjuncts(is.Cond)
		if len(cs) != 2 {
			rfail("%s: override condition not `endpoint == E && lc == M`", p.pos(s))
		}
		var ep, m string
		for _, c := range cs {
			be, ok := c.(*ast.BinaryExpr)
			if !ok || be.Op != token.EQL {
				rfail("%s: override conjunct not an equality", p.pos(c))
			}
			lit, ok := routesStrLit(be.Y)
			if !ok {
				rfail("%s: override compares with a non-literal", p.pos(c))
			}
			switch exprStr(be.X) {
			case "endpoint":
				ep = lit
			case "lc":
				m = lit
			default:
				rfail("%s: override tests %s", p.pos(c), exprStr(be.X))
			}
		}
		if ep == "" || m == "" {
			rfail("%s: override condition incomplete", p.pos(s))
		}
		out = append(out, [2]string{ep, m})
	}
	last, ok := b[len(b)-1].(*ast.ReturnStmt)
	if !ok || len(last.Results) != 1 || exprStr(last.Results[0]) != "d.Data.IsMutationRequest(action,endpoint)" {
		rfail("%s: override does not end with return d.Data.IsMutationRequest(action, endpoint)", p.pos(fd))
	}
	return out, true
}

// embeddedDataPkg: `type Data struct { *X.Data ... }` -> repo-relative dir of X
func embeddedDataPkg(p *pkgInfo) string {
	for _, f := range p.files {
		for _, d := range f.Decls {
			gd, ok := d.(*ast.GenDecl)
			if !ok || gd.Tok != token.TYPE {
				continue
			}
			for _, sp := range gd.Specs {
				ts := sp.(*ast.TypeSpec)
				if ts.Name.Name != "Data" {
					continue
				}
				st, ok := ts.Type.(*ast.StructType)
				if !ok {
					rfail("%s: type Data is not a struct", p.pos(ts))
				}
				for _, fl := range st.Fields.List {
					if len(fl.Names) != 0 {
						continue
					}
					t := fl.Type
					if se, ok := t.(*ast.StarExpr); ok {
						t = se.X
					}
					if sel, ok := t.(*ast.SelectorExpr); ok && sel.Sel.Name == "Data" {
						if dir, ok := importDir(f, exprStr(sel.X)); ok {
							return dir
						}
						rfail("%s: embedded %s not in the repo", p.pos(fl), exprStr(sel))
					}
				}
				rfail("%s: type Data embeds no X.Data", p.pos(ts))
			}
		}
	}
	rfail("%s: type Data not found", p.dir)
	return ""
}

// ---------- (4) keywords and accepted methods ----------

type tv int // three-valued

const (
	tvF tv = iota
	tvT
	tvU
)

type penv struct {
	p      *pkgInfo
	m      string          // lower-case method under evaluation
	kw     string          // keyword under evaluation ("*" = any other)
	mvars  map[string]bool // identifiers holding strings.ToLower(r.Method)
	kvars  map[string]bool // identifiers holding parts[3]
	depth  int
	strfns map[string]string // "JSONSchema.String()" -> "json_schema"
}

func (e *penv) isMethodExpr(x ast.Expr) (lower bool, ok bool) {
	s := exprStr(x)
	if s == "strings.ToLower(r.Method)" {
		return true, true
	}
	if s == "r.Method" {
		return false, true
	}
	if id, isId := x.(*ast.Ident); isId && e.mvars[id.Name] {
		return true, true
	}
	return false, false
}

func (e *penv) isKwExpr(x ast.Expr) bool {
	s := exprStr(x)
	if s == "parts[3]" {
		return true
	}
	if id, ok := x.(*ast.Ident); ok && e.kvars[id.Name] {
		return true
	}
	return false
}

func (e *penv) strConst(x ast.Expr) (string, bool) {
	if s, ok := routesStrLit(x); ok {
		return s, true
	}
	switch exprStr(x) {
	case "http.MethodGet":
		return "GET", true
	case "http.MethodPost":
		return "POST", true
	case "http.MethodPut":
		return "PUT", true
	case "http.MethodDelete":
		return "DELETE", true
	case "http.MethodHead":
		return "HEAD", true
	case "http.MethodPatch":
		return "PATCH", true
	}
	if v, ok := e.strfns[exprStr(x)]; ok {
		return v, true
	}
	return "", false
}

func (e *penv) cond(x ast.Expr) tv {
	switch c := x.(type) {
	case *ast.ParenExpr:
		return e.cond(c.X)
	case *ast.UnaryExpr:
		if c.Op == token.NOT {
			switch e.cond(c.X) {
			case tvT:
				return tvF
			case tvF:
				return tvT
			}
			return tvU
		}
	case *ast.BinaryExpr:
		switch c.Op {
		case token.LAND:
			a, b := e.cond(c.X), e.cond(c.Y)
			if a == tvF || b == tvF {
				return tvF
			}
			if a == tvT && b == tvT {
				return tvT
			}
			return tvU
		case token.LOR:
			a, b := e.cond(c.X), e.cond(c.Y)
			if a == tvT || b == tvT {
				return tvT
			}
			if a == tvF && b == tvF {
				return tvF
			}
			return tvU
		case token.EQL, token.NEQ:
			var val string
			var have bool
			if lower, ok := e.isMethodExpr(c.X); ok {
				if lit, ok2 := e.strConst(c.Y); ok2 {
					have = true
					if lower {
						val = b2s(e.m == lit)
					} else {
						val = b2s(strings.ToUpper(e.m) == lit)
					}
				}
			} else if e.isKwExpr(c.X) {
				if lit, ok2 := e.strConst(c.Y); ok2 {
					have = true
					val = b2s(e.kw == lit)
				}
			}
			if have {
				if (val == "t") == (c.Op == token.EQL) {
					return tvT
				}
				return tvF
			}
		}
	}
	return tvU
}

func b2s(b bool) string {
	if b {
		return "t"
	}
	return "f"
}

type outcome int

const (
	oFall     outcome = iota // fell off the end of the statement list
	oReturn                  // returned (not through a rejection)
	oReject                  // rejected by a method/keyword-decided branch
	oRejectish               // a decided branch only reported an error, no return yet
)

func isErrReturn(s ast.Stmt) bool {
	r, ok := s.(*ast.ReturnStmt)
	if !ok || len(r.Results) != 1 {
		return false
	}
	f := exprStr(r.Results[0])
	return strings.HasPrefix(f, "fmt.Errorf(") || strings.HasPrefix(f, "errors.New(")
}

// rejectBlock: a decided block that only reports an error: BadRequest* [return] | return fmt.Errorf
func rejectBlock(stmts []ast.Stmt) outcome {
	if len(stmts) == 0 {
		return oFall
	}
	n := 0
	for n < len(stmts) && isBadRequestCall(stmts[n]) {
		n++
	}
	if n == len(stmts) && n > 0 {
		return oRejectish
	}
	if n == len(stmts)-1 {
		if _, ok := stmts[n].(*ast.ReturnStmt); ok && (n > 0 || isErrReturn(stmts[n])) {
			return oReject
		}
	}
	return oFall
}

// walk evaluates a statement list for the fixed (method, keyword); decided tells whether the
// list was selected by a method- or keyword-decided condition.
func (e *penv) walk(stmts []ast.Stmt, decided bool) outcome {
	if decided {
		if o := rejectBlock(stmts); o != oFall {
			return o
		}
	}
	pendingRejectish := false
	for _, s := range stmts {
		if pendingRejectish {
			if _, ok := s.(*ast.ReturnStmt); ok {
				return oReject
			}
			pendingRejectish = false
		}
		switch x := s.(type) {
		case *ast.ReturnStmt:
			return oReturn
		case *ast.AssignStmt:
			if len(x.Lhs) == 1 && len(x.Rhs) == 1 {
				if id, ok := x.Lhs[0].(*ast.Ident); ok {
					r := exprStr(x.Rhs[0])
					if r == "strings.ToLower(r.Method)" {
						e.mvars[id.Name] = true
					} else if e.mvars[id.Name] {
						rfail("%s: method variable %s reassigned", e.p.pos(x), id.Name)
					}
					if r == "parts[3]" {
						e.kvars[id.Name] = true
					} else if e.kvars[id.Name] {
						rfail("%s: keyword variable %s reassigned", e.p.pos(x), id.Name)
					}
				}
				if ce, ok := x.Rhs[0].(*ast.CallExpr); ok {
					if o := e.call(ce); o == oReject {
						return oReject
					}
				}
			}
		case *ast.ExprStmt:
			if ce, ok := x.X.(*ast.CallExpr); ok {
				if o := e.call(ce); o == oReject {
					return oReject
				}
			}
		case *ast.BlockStmt:
			if o := e.walk(x.List, decided); o != oFall {
				return o
			}
		case *ast.IfStmt:
			if x.Init != nil {
				// `if err := d.handleX(..., action, ...); err != nil {` : evaluate the call
				if as, ok := x.Init.(*ast.AssignStmt); ok && len(as.Rhs) == 1 {
					if ce, ok := as.Rhs[0].(*ast.CallExpr); ok {
						if o := e.call(ce); o == oReject {
							return oReject
						}
					}
				}
			}
			switch e.cond(x.Cond) {
			case tvT:
				o := e.walk(x.Body.List, true)
				if o == oReject || o == oReturn {
					return o
				}
				if o == oRejectish {
					pendingRejectish = true
				}
			case tvF:
				if x.Else != nil {
					var o outcome
					switch el := x.Else.(type) {
					case *ast.BlockStmt:
						o = e.walk(el.List, true)
					case *ast.IfStmt:
						o = e.walk([]ast.Stmt{el}, true)
					}
					if o == oReject || o == oReturn {
						return o
					}
					if o == oRejectish {
						pendingRejectish = true
					}
				}
			case tvU:
				// undecided (error paths, payload tests): not descended into
			}
		case *ast.SwitchStmt:
			if x.Tag == nil {
				continue
			}
			_, isM := e.isMethodExpr(x.Tag)
			isK := e.isKwExpr(x.Tag)
			if !isM && !isK {
				continue
			}
			val := e.kw
			if isM {
				lower, _ := e.isMethodExpr(x.Tag)
				val = e.m
				if !lower {
					val = strings.ToUpper(e.m)
				}
			}
			var chosen, def *ast.CaseClause
			for _, cc := range x.Body.List {
				cl := cc.(*ast.CaseClause)
				if cl.List == nil {
					def = cl
					continue
				}
				for _, ce := range cl.List {
					lit, ok := e.strConst(ce)
					if !ok {
						rfail("%s: case expression %s is not a string constant", e.p.pos(ce), exprStr(ce))
					}
					if lit == val && chosen == nil {
						chosen = cl
					}
				}
			}
			if chosen == nil {
				chosen = def
			}
			if chosen == nil {
				continue
			}
			for _, st := range chosen.Body {
				if _, ok := st.(*ast.BranchStmt); ok {
					rfail("%s: fallthrough/break in a dispatch switch not understood", e.p.pos(st))
				}
			}
			o := e.walk(chosen.Body, true)
			if o == oReject || o == oReturn {
				return o
			}
			if o == oRejectish {
				pendingRejectish = true
			}
		}
	}
	if pendingRejectish {
		return oRejectish
	}
	return oFall
}

// call follows one level of delegation to a method of Data that receives the request.
func (e *penv) call(ce *ast.CallExpr) outcome {
	se, ok := ce.Fun.(*ast.SelectorExpr)
	if !ok || exprStr(se.X) != "d" {
		return oFall
	}
	passesReq := false
	for _, a := range ce.Args {
		if exprStr(a) == "r" {
			passesReq = true
		}
		if _, ok := e.isMethodExpr(a); ok {
			passesReq = true
		}
	}
	if !passesReq {
		return oFall
	}
	fd, ok := e.p.funcs["Data."+se.Sel.Name]
	if !ok {
		return oFall // promoted method of an embedded type: treated as accepting
	}
	if e.depth >= 3 {
		return oFall
	}
	sub := &penv{p: e.p, m: e.m, kw: e.kw, mvars: map[string]bool{}, kvars: map[string]bool{}, depth: e.depth + 1, strfns: e.strfns}
	// bind parameters that receive the method or the keyword
	i := 0
	for _, f := range fd.Type.Params.List {
		for _, n := range f.Names {
			if i < len(ce.Args) {
				if _, ok := e.isMethodExpr(ce.Args[i]); ok && exprStr(ce.Args[i]) != "r.Method" {
					sub.mvars[n.Name] = true
				}
				if e.isKwExpr(ce.Args[i]) {
					sub.kvars[n.Name] = true
				}
			}
			i++
		}
	}
	o := sub.walk(fd.Body.List, false)
	if o == oReject {
		return oReject
	}
	return oFall
}

// stringerTable: `func (m T) String() string { switch m { case A: return "a" ... } }` -> "A.String()" -> "a"
func stringerTable(p *pkgInfo) map[string]string {
	out := map[string]string{}
	for key, fd := range p.funcs {
		if !strings.HasSuffix(key, ".String") || fd.Recv == nil || len(fd.Body.List) != 1 {
			continue
		}
		sw, ok := fd.Body.List[0].(*ast.SwitchStmt)
		if !ok {
			continue
		}
		for _, cc := range sw.Body.List {
			cl := cc.(*ast.CaseClause)
			if len(cl.Body) != 1 {
				continue
			}
			r, ok := cl.Body[0].(*ast.ReturnStmt)
			if !ok || len(r.Results) != 1 {
				continue
			}
			lit, ok := routesStrLit(r.Results[0])
			if !ok {
				continue
			}
			for _, ce := range cl.List {
				out[exprStr(ce)+".String()"] = lit
			}
		}
	}
	return out
}

var probeMethods = []string{"get", "head", "post", "put", "delete", "patch"}

type kwT struct {
	Keyword string
	Methods []string // subset of probeMethods the handler does not reject by a method test ("patch" stands for any other verb)
}

func keywordsOf(rel string) []kwT {
	p := loadPkg(rel)
	fd, ok := p.funcs["Data.ServeHTTP"]
	if !ok {
		rfail("%s: Data.ServeHTTP not found", rel)
	}
	strfns := stringerTable(p)
	// keyword literals: case clauses of every switch over parts[3] (or an alias) at statement level of ServeHTTP
	kws := []string{}
	seen := map[string]bool{}
	aliases := map[string]bool{}
	nsw := 0
	for _, s := range fd.Body.List {
		if as, ok := s.(*ast.AssignStmt); ok && len(as.Lhs) == 1 && len(as.Rhs) == 1 && exprStr(as.Rhs[0]) == "parts[3]" {
			aliases[exprStr(as.Lhs[0])] = true
		}
		sw, ok := s.(*ast.SwitchStmt)
		if !ok || sw.Tag == nil {
			continue
		}
		t := exprStr(sw.Tag)
		if t != "parts[3]" && !aliases[t] {
			continue
		}
		nsw++
		for _, cc := range sw.Body.List {
			for _, ce := range cc.(*ast.CaseClause).List {
				lit, ok := routesStrLit(ce)
				if !ok {
					lit, ok = strfns[exprStr(ce)]
				}
				if !ok {
					rfail("%s: keyword case %s is not a string constant", p.pos(ce), exprStr(ce))
				}
				if !seen[lit] {
					seen[lit] = true
					kws = append(kws, lit)
				}
			}
		}
	}
	if nsw == 0 {
		rfail("%s: ServeHTTP has no switch over parts[3]", rel)
	}
	// any use of parts[3] nested deeper than statement level as a switch tag would be missed
	ast.Inspect(fd.Body, func(n ast.Node) bool {
		if sw, ok := n.(*ast.SwitchStmt); ok && sw.Tag != nil {
			t := exprStr(sw.Tag)
			if t == "parts[3]" || aliases[t] {
				top := false
				for _, s := range fd.Body.List {
					if s == ast.Stmt(sw) {
						top = true
					}
				}
				if !top {
					// the guard `if !d.IndexedLabels { switch parts[3] {...} }` only rejects: its keywords must be served elsewhere
					for _, cc := range sw.Body.List {
						cl := cc.(*ast.CaseClause)
						if rejectBlock(cl.Body) != oReject {
							rfail("%s: nested keyword switch with a non-rejecting clause", p.pos(cl))
						}
					}
				}
			}
		}
		return true
	})
	var out []kwT
	for _, kw := range append(kws, "*") {
		k := kwT{Keyword: kw}
		for _, m := range probeMethods {
			e := &penv{p: p, m: m, kw: kw, mvars: map[string]bool{}, kvars: map[string]bool{}, strfns: strfns}
			if e.walk(fd.Body.List, false) != oReject {
				k.Methods = append(k.Methods, m)
			}
		}
		if kw == "*" && len(k.Methods) == 0 {
			continue // every other keyword is rejected for every method
		}
		out = append(out, k)
	}
	return out
}

// ---------- output ----------

func coqList(ss []string) string { return "[" + strings.Join(ss, "; ") + "]" }
func coqStrList(ss []string) string {
	q := make([]string, len(ss))
	for i, s := range ss {
		q[i] = routesCoqStr(s)
	}
	return coqList(q)
}

func datatypePkgs() []string {
	ents, err := os.ReadDir(filepath.Join(*repo, "datatype"))
	if err != nil {
		rfail("%v", err)
	}
	var out []string
	for _, e := range ents {
		if !e.IsDir() {
			continue
		}
		p := loadPkg("datatype/" + e.Name())
		if _, ok := p.funcs["Data.ServeHTTP"]; ok {
			out = append(out, e.Name())
		} else {
			// a package without ServeHTTP must not define Data at all (datatype/common)
			for k := range p.funcs {
				if strings.HasPrefix(k, "Data.") {
					rfail("datatype/%s defines Data methods but no ServeHTTP", e.Name())
				}
			}
		}
	}
	sort.Strings(out)
	return out
}

func genRoutes() {
	srv := loadPkg("server")
	routes, uses, mounts := extractRoutes(srv)
	checkAdminPriv(srv)
	gates := []gateInfo{
		safeGate(srv, "repoRawSelector", true),
		safeGate(srv, "repoSelector", true),
		safeGate(srv, "nodeSelector", true),
		safeGate(srv, "instanceSelector", true),
		safeGate(srv, "reposPostHandler", false),
		safeGate(srv, "repoPostInfoHandler", false),
		safeGate(srv, "repoNewDataHandler", false),
		safeGate(srv, "repoCommitHandler", false),
	}
	// every other middleware / handler must not mention the mode variables at all
	gated := map[string]bool{}
	for _, g := range gates {
		gated[g.Name] = true
	}
	for name, fd := range srv.funcs {
		if gated[name] || fd.Body == nil {
			continue
		}
		pos := srv.fset.Position(fd.Pos())
		if filepath.Base(pos.Filename) != "web.go" {
			continue
		}
		ast.Inspect(fd.Body, func(n ast.Node) bool {
			// (a handler's own `locked` about some other uuid, e.g. merge parents that must be committed,
			// can only refuse more; a refusal the model does not know shows as a correspondence mismatch)
			if is, ok := n.(*ast.IfStmt); ok && mentionsModeVar(is.Cond) && name != "serveHTTP" {
				rfail("%s: %s tests readonly/fullwrite but is not a modelled gate", srv.pos(is), name)
			}
			return true
		})
	}
	defM := defaultMutationMethods()
	pkgs := datatypePkgs()
	var overrides []tripleT
	kwTable := map[string][]kwT{}
	for _, name := range pkgs {
		rel := "datatype/" + name
		// effective override: own, else that of the embedded Data's package, else the default
		cur := rel
		for hops := 0; ; hops++ {
			if hops > 4 {
				rfail("%s: embedding chain too deep", rel)
			}
			if cur == "datastore" {
				break
			}
			p := loadPkg(cur)
			if ov, ok := ownOverrides(p); ok {
				for _, o := range ov {
					overrides = append(overrides, tripleT{name, o[0], o[1]})
				}
				break
			}
			cur = embeddedDataPkg(p)
		}
		kwTable[name] = keywordsOf(rel)
	}

	var b strings.Builder
	b.WriteString("(* GENERATED by harness/cmd/gen (gen_routes.go) from server/web.go, datastore/datainstance.go and\n   datatype/*/ of the current source. Do not edit. *)\n")
	b.WriteString("From Coq Require Import String List.\nFrom DV Require Import Base.GateTypes.\nImport ListNotations.\nLocal Open Scope string_scope.\n\n")
	b.WriteString("(* mux -> middleware chain in registration order; true = registered under a condition *)\n")
	b.WriteString("Definition mux_uses : list (string * string * bool) := [\n")
	for i, u := range uses {
		fmt.Fprintf(&b, "  (%s, %s, %v)%s\n", routesCoqStr(u.Mux), routesCoqStr(u.Fn), u.Cond, sep(i, len(uses)))
	}
	b.WriteString("].\n\n(* parent mux, pattern, mounted mux *)\nDefinition mux_mounts : list (string * string * string) := [\n")
	for i, m := range mounts {
		fmt.Fprintf(&b, "  (%s, %s, %s)%s\n", routesCoqStr(m.Parent), routesCoqStr(m.Pattern), routesCoqStr(m.Mux), sep(i, len(mounts)))
	}
	b.WriteString("].\n\n(* mux, method, pattern, handler *)\nDefinition mux_routes : list (string * string * string * string) := [\n")
	for i, r := range routes {
		fmt.Fprintf(&b, "  (%s, %s, %s, %s)%s\n", routesCoqStr(r.Mux), routesCoqStr(r.Method), routesCoqStr(r.Pattern), routesCoqStr(r.Handler), sep(i, len(routes)))
	}
	b.WriteString("].\n\n(* refusal condition (a conjunction) of each selector and gated handler *)\nDefinition gate_conds : list (string * list gatom) := [\n")
	for i, g := range gates {
		fmt.Fprintf(&b, "  (%s, %s)%s\n", routesCoqStr(g.Name), coqList(g.Atoms), sep(i, len(gates)))
	}
	b.WriteString("].\n\n")
	for _, g := range gates {
		if g.Name == "nodeSelector" {
			if len(g.Branch) == 0 && !g.Unknown {
				rfail("server: nodeSelector branch whitelist not found")
			}
			fmt.Fprintf(&b, "(* nodeSelector: actions with branchRequest = true *)\nDefinition node_branch_actions : list string := %s.\n\n", coqStrList(g.Branch))
		} else if len(g.Branch) != 0 {
			rfail("server: %s has a branch whitelist", g.Name)
		}
		if g.Name == "instanceSelector" {
			var ks []string
			for k := range g.Shortcuts {
				ks = append(ks, k)
			}
			sort.Strings(ks)
			b.WriteString("(* instanceSelector: keywords served before the gate, with the methods of their switch *)\nDefinition instance_shortcuts : list (string * list string) := [")
			for i, k := range ks {
				fmt.Fprintf(&b, "(%s, %s)%s", routesCoqStr(k), coqStrList(g.Shortcuts[k]), sep(i, len(ks)))
			}
			b.WriteString("].\n\n")
		} else if len(g.Shortcuts) != 0 {
			rfail("server: %s has keyword shortcuts", g.Name)
		}
	}
	fmt.Fprintf(&b, "(* datastore.Data.IsMutationRequest: methods classified as mutations *)\nDefinition mutation_methods : list string := %s.\n\n", coqStrList(defM))
	b.WriteString("(* IsMutationRequest overrides returning false: (datatype package, endpoint, method), resolved through embedding *)\nDefinition mutation_overrides : list (string * string * string) := [")
	for i, o := range overrides {
		fmt.Fprintf(&b, "(%s, %s, %s)%s", routesCoqStr(o.Pkg), routesCoqStr(o.Endpoint), routesCoqStr(o.Method), sep(i, len(overrides)))
	}
	b.WriteString("].\n\n")
	b.WriteString("(* datatype package, endpoint keyword (\"*\" = any keyword not listed that is not rejected),\n   methods among get/head/post/put/delete/patch the handler does not reject by a method test\n   (\"patch\" stands for every other verb) *)\nDefinition instance_routes : list (string * string * list string) := [\n")
	n, tot := 0, 0
	for _, name := range pkgs {
		tot += len(kwTable[name])
	}
	for _, name := range pkgs {
		for _, k := range kwTable[name] {
			n++
			fmt.Fprintf(&b, "  (%s, %s, %s)%s\n", routesCoqStr(name), routesCoqStr(k.Keyword), coqStrList(k.Methods), sep(n-1, tot))
		}
	}
	b.WriteString("].\n")
	writeIfChanged(filepath.Join(*out, "Routes.v"), b.String())

	// the same tables for the driver
	type jr struct {
		Uses      []useT              `json:"uses"`
		Mounts    []mountT            `json:"mounts"`
		Routes    []routeT            `json:"routes"`
		Branch    []string            `json:"branch"`
		Shortcuts map[string][]string `json:"shortcuts"`
		Overrides []tripleT           `json:"overrides"`
		Mutation  []string            `json:"mutation_methods"`
		Keywords  map[string][]kwT    `json:"keywords"`
	}
	j := jr{Uses: uses, Mounts: mounts, Routes: routes, Overrides: overrides, Mutation: defM, Keywords: kwTable}
	for _, g := range gates {
		if g.Name == "nodeSelector" {
			j.Branch = g.Branch
		}
		if g.Name == "instanceSelector" {
			j.Shortcuts = g.Shortcuts
		}
	}
	jb, _ := json.MarshalIndent(j, "", " ")
	// next to the gen binary (harness/bin, not under version control), where the driver looks for it
	jdir := *out
	if exe, err := os.Executable(); err == nil {
		jdir = filepath.Dir(exe)
	}
	writeIfChanged(filepath.Join(jdir, "routes.json"), string(jb)+"\n")
}

func sep(i, n int) string {
	if i+1 < n {
		return ";"
	}
	return ""
}
