package main

// gen_c14_arith: coq/Gen/DownresArith.v (used by C14).
//
// The block-level pyramid update of labelmap groups the changed blocks of one scale under their
// parent block (datatype/labelmap/downres.go, Data.getHiresChanges).  The arithmetic is inside the
// body of a `for hiresZYX, value := range hires` loop, so it is not a function gen_arith can take
// whole; this translator extracts exactly these statements of the loop body and translates their
// right-hand sides with gen_arith's expression translator (int32 operations wrapped by wS 32):
//
//	downresX := <e0(hresCoord)>      downresY := <e1>      downresZ := <e2>
//	loresZYX := dvid.ChunkPoint3d{downresX, downresY, downresZ}.ToIZYXString()
//	octidx := <e3(hresCoord)>
//	oct[octidx] = block
//	octants[loresZYX] = oct
//
// and, from Data.downresOctant, the threshold of `if numBlocks < N` (start from the stored parent
// block) whose else branch must be `loresBlock = labels.MakeSolidBlock(0, blockSize)`.
// hresCoord must come from hiresZYX.ToChunkPoint3d() (a dvid.ChunkPoint3d, [3]int32).
// Any other shape is an error (fail closed).

import (
	"fmt"
	"go/ast"
	"go/token"
	"path/filepath"
	"strings"
)

func init() { generators = append(generators, genDownresArith) }

func identName(e ast.Expr) string {
	if id, ok := e.(*ast.Ident); ok {
		return id.Name
	}
	return ""
}

func genDownresArith() {
	p := loadPkg("datatype/labelmap")
	fd, ok := p.funcs["Data.getHiresChanges"]
	if !ok || fd.Body == nil {
		fail("gen_c14_arith: Data.getHiresChanges not found")
	}
	t := &atr{p: p, fd: fd, file: p.fileOf(fd), it: arithItem{pkg: "datatype/labelmap", fn: "getHiresChanges"}, vars: map[string]avar{}}
	var loop *ast.RangeStmt
	for _, s := range fd.Body.List {
		if r, ok := s.(*ast.RangeStmt); ok {
			if loop != nil {
				t.bad(r, "more than one range loop")
			}
			loop = r
		}
	}
	if loop == nil || identName(loop.Key) == "" {
		t.bad(fd, "no `for key, value := range hires` loop")
	}
	keyName := identName(loop.Key)
	rhs := map[string]ast.Expr{}
	var coordVar string
	var sawLores, sawOctPut, sawMapPut bool
	for _, s := range loop.Body.List {
		switch x := s.(type) {
		case *ast.AssignStmt:
			if x.Tok == token.DEFINE && len(x.Lhs) == 2 && len(x.Rhs) == 1 {
				// hresCoord, err := hiresZYX.ToChunkPoint3d()
				if c, ok := x.Rhs[0].(*ast.CallExpr); ok {
					if sel, ok := c.Fun.(*ast.SelectorExpr); ok && sel.Sel.Name == "ToChunkPoint3d" && identName(sel.X) == keyName {
						coordVar = identName(x.Lhs[0])
						t.vars[coordVar] = avar{typ: "arr:3:int32"}
					}
				}
				continue
			}
			if len(x.Lhs) != 1 || len(x.Rhs) != 1 {
				continue
			}
			switch l := x.Lhs[0].(type) {
			case *ast.Ident:
				if x.Tok != token.DEFINE {
					t.bad(x, "re-assignment of %s inside the loop", l.Name)
				}
				switch l.Name {
				case "downresX", "downresY", "downresZ", "octidx":
					if coordVar == "" {
						t.bad(x, "%s computed before the block coordinate is known", l.Name)
					}
					if _, dup := rhs[l.Name]; dup {
						t.bad(x, "%s defined twice", l.Name)
					}
					rhs[l.Name] = x.Rhs[0]
				case "loresZYX":
					// dvid.ChunkPoint3d{downresX, downresY, downresZ}.ToIZYXString()
					c, ok := x.Rhs[0].(*ast.CallExpr)
					if !ok {
						t.bad(x, "loresZYX is not a call")
					}
					sel, ok := c.Fun.(*ast.SelectorExpr)
					if !ok || sel.Sel.Name != "ToIZYXString" {
						t.bad(x, "loresZYX is not <ChunkPoint3d>.ToIZYXString()")
					}
					cl, ok := sel.X.(*ast.CompositeLit)
					if !ok || len(cl.Elts) != 3 || identName(cl.Elts[0]) != "downresX" || identName(cl.Elts[1]) != "downresY" || identName(cl.Elts[2]) != "downresZ" {
						t.bad(x, "loresZYX is not ChunkPoint3d{downresX, downresY, downresZ}")
					}
					if ts, ok := cl.Type.(*ast.SelectorExpr); !ok || ts.Sel.Name != "ChunkPoint3d" {
						t.bad(x, "parent coordinate is not a dvid.ChunkPoint3d")
					}
					sawLores = true
				}
			case *ast.IndexExpr:
				if x.Tok != token.ASSIGN {
					continue
				}
				switch {
				case identName(l.X) == "oct" && identName(l.Index) == "octidx" && identName(x.Rhs[0]) == "block":
					sawOctPut = true
				case identName(l.X) == "octants" && identName(l.Index) == "loresZYX" && identName(x.Rhs[0]) == "oct":
					sawMapPut = true
				default:
					t.bad(x, "unexpected indexed assignment in getHiresChanges")
				}
			}
		}
	}
	for _, n := range []string{"downresX", "downresY", "downresZ", "octidx"} {
		if rhs[n] == nil {
			t.bad(loop, "no definition of %s in the loop body", n)
		}
	}
	if !sawLores || !sawOctPut || !sawMapPut {
		t.bad(loop, "missing loresZYX := ChunkPoint3d{..}.ToIZYXString() / oct[octidx] = block / octants[loresZYX] = oct")
	}
	tr := func(n string) string {
		s, typ := t.expr(rhs[n], false)
		if typ != "int32" {
			t.bad(rhs[n], "%s has type %q, expected int32", n, typ)
		}
		return s
	}
	params := fmt.Sprintf("(%s_0 : Z) (%s_1 : Z) (%s_2 : Z)", vname(coordVar), vname(coordVar), vname(coordVar))

	// downresOctant: `if numBlocks < N { ... getSupervoxelBlock ... } else { loresBlock = labels.MakeSolidBlock(0, blockSize) }`
	od, ok := p.funcs["Data.downresOctant"]
	if !ok || od.Body == nil {
		fail("gen_c14_arith: Data.downresOctant not found")
	}
	t2 := &atr{p: p, fd: od, file: p.fileOf(od), it: arithItem{pkg: "datatype/labelmap", fn: "downresOctant"}, vars: map[string]avar{}}
	threshold := ""
	nIf := 0
	ast.Inspect(od.Body, func(n ast.Node) bool {
		ifs, ok := n.(*ast.IfStmt)
		if !ok {
			return true
		}
		be, ok := ifs.Cond.(*ast.BinaryExpr)
		if !ok || identName(be.X) != "numBlocks" {
			return true
		}
		nIf++
		if be.Op != token.LSS {
			t2.bad(ifs, "numBlocks compared with %s, expected <", be.Op)
		}
		v, okc := t2.constant(be.Y)
		if !okc {
			t2.bad(ifs, "numBlocks threshold is not a constant")
		}
		// then-branch reads the stored parent
		reads := false
		ast.Inspect(ifs.Body, func(m ast.Node) bool {
			if c, ok := m.(*ast.CallExpr); ok {
				if sel, ok := c.Fun.(*ast.SelectorExpr); ok && sel.Sel.Name == "getSupervoxelBlock" {
					if len(c.Args) == 3 {
						if be, ok := c.Args[2].(*ast.BinaryExpr); ok && be.Op == token.ADD && identName(be.X) == "hiresScale" {
							if one, ok := t2.constant(be.Y); ok && one.Int64() == 1 {
								reads = true
							}
						}
					}
				}
			}
			return true
		})
		if !reads {
			t2.bad(ifs, "then-branch does not read getSupervoxelBlock(v, chunkPt, hiresScale+1)")
		}
		eb, ok := ifs.Else.(*ast.BlockStmt)
		if !ok || len(eb.List) != 1 {
			t2.bad(ifs, "else-branch is not a single assignment")
		}
		as, ok := eb.List[0].(*ast.AssignStmt)
		if !ok || len(as.Rhs) != 1 || identName(as.Lhs[0]) != "loresBlock" {
			t2.bad(ifs, "else-branch does not assign loresBlock")
		}
		c, ok := as.Rhs[0].(*ast.CallExpr)
		if !ok || len(c.Args) != 2 {
			t2.bad(ifs, "else-branch is not MakeSolidBlock(0, blockSize)")
		}
		sel, ok := c.Fun.(*ast.SelectorExpr)
		z, okz := t2.constant(c.Args[0])
		if !ok || sel.Sel.Name != "MakeSolidBlock" || !okz || z.Sign() != 0 {
			t2.bad(ifs, "else-branch is not MakeSolidBlock(0, blockSize)")
		}
		threshold = zlit(v)
		return true
	})
	if nIf != 1 {
		t2.bad(od, "expected exactly one `if numBlocks < N`, found %d", nIf)
	}

	var b strings.Builder
	b.WriteString("(* GENERATED by harness/cmd/gen (gen_c14_arith.go) from datatype/labelmap/downres.go. Do not edit. *)\n")
	b.WriteString("From Coq Require Import ZArith List Bool.\nFrom DV Require Import Base.Prelude Base.WrapZ.\nLocal Open Scope Z_scope.\n\n")
	b.WriteString("(* getHiresChanges: the parent block coordinate of a changed block (loop body, downresX/Y/Z) *)\n")
	fmt.Fprintf(&b, "Definition g_hires_parent %s : Z * Z * Z :=\n  (%s, %s, %s).\n\n", params, tr("downresX"), tr("downresY"), tr("downresZ"))
	b.WriteString("(* getHiresChanges: the octant slot of the parent that the changed block fills (octidx) *)\n")
	fmt.Fprintf(&b, "Definition g_hires_octidx %s : Z :=\n  %s.\n\n", params, tr("octidx"))
	b.WriteString("(* downresOctant: the stored parent is the receiver iff fewer than this many octants are given; else a solid-0 block *)\n")
	fmt.Fprintf(&b, "Definition g_downres_stored_below : Z := %s.\n", threshold)
	writeIfChanged(filepath.Join(*out, "DownresArith.v"), b.String())
}
