package main

// C07 has no integer constants of its own; the literals its model depends on (initial id counters,
// branch name prefixes, refused branch names) are string-valued and are extracted by gen_c07.go
// into coq/Gen/RepoFacts.v.
