package main

// Constants and literal tables extracted into coq/Gen/Consts.v.
// Each property adds its own items_<id>.go with an init() that appends here.
var constItems []item
var tableItems []item

func regConsts(pkg string, names ...string) {
	for _, n := range names {
		constItems = append(constItems, item{coq: n, pkg: pkg, name: n})
	}
}

// regConstAs registers a constant under a different Coq name (to avoid clashes between packages).
func regConstAs(coq, pkg, name string) {
	constItems = append(constItems, item{coq: coq, pkg: pkg, name: name})
}
func regTable(coq, pkg, name string) {
	tableItems = append(tableItems, item{coq: coq, pkg: pkg, name: name})
}
