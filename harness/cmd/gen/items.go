package main

// Constants and literal tables extracted into coq/Gen/Consts.v.
var constItems = []item{
	{"Uncompressed", "dvid", "Uncompressed"},
	{"Snappy", "dvid", "Snappy"},
	{"Gzip", "dvid", "Gzip"},
	{"LZ4", "dvid", "LZ4"},
	{"JPEG", "dvid", "JPEG"},
	{"NoChecksum", "dvid", "NoChecksum"},
	{"CRC32", "dvid", "CRC32"},
}

var tableItems = []item{}
