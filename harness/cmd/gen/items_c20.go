package main

// C20: limits the payload parsers compare embedded counts against (own names: other
// properties may register the same Go constants).
func init() {
	regConstAs("P_SubBlockSize", "datatype/common/labels", "SubBlockSize")
	regConstAs("P_MaxBlockSize", "datatype/common/labels", "MaxBlockSize")
	regConstAs("P_MaxSubBlockSize", "datatype/common/labels", "MaxSubBlockSize")
	regConstAs("P_EncodingBinary", "dvid", "EncodingBinary")
	regTable("P_leftBitMask", "datatype/common/labels", "leftBitMask")
	// shard count of the label-index locks: the driver picks label ids that collide in every shard
	regConstAs("P_numIndexShards", "datatype/labelmap", "numIndexShards")
}
