package main

// gen_arith: translate small straight-line integer functions of /repo into Gallina
// (coq/Gen/Arith.v).  Every Go fixed-width operation becomes the same operation on Z followed
// by the wrap of its Go type (wS/wU of Base/WrapZ.v), so an edit to a mask, shift, sign test or
// offset in the Go source changes the generated definition and the proofs that use it.
//
// Supported shape (anything else is an error, exit 2):
//   params / value receiver of integer type, of a named array type [N]intT (exploded into N
//   arguments name_0..name_{N-1}), of type []byte, or listed in item.explode (an interface whose
//   Value(k) calls are read as name_k);
//   statements: var decls, :=, =, op=, if / if-else whose bodies are assignments,
//   `if cond { return <error> }` guards, binary.BigEndian.PutUint32(buf[a:b], e),
//   *recv = T{..}, return in the forms described at trReturn;
//   expressions: integer literals and constants, + - * / % & | ^ &^ << >>, comparisons, && || !,
//   unary -, conversions to Go integer types, p[k] on exploded arrays, len(bytes),
//   binary.BigEndian.Uint32(b[a:b]) (hoisted: a panic when out of range), math.MinInt32 etc.

import (
	"fmt"
	"go/ast"
	"go/token"
	"math/big"
	"path/filepath"
	"sort"
	"strings"
)

type arithItem struct {
	pkg, fn string
	explode map[string]int // parameter name -> number of components read through .Value(k)
}

var arithItems []arithItem

func regArith(pkg, fn string, explode map[string]int) {
	arithItems = append(arithItems, arithItem{pkg, fn, explode})
}

func init() { generators = append(generators, genArith) }

type avar struct {
	typ string // Go integer type name, "bytes", or "arr:<n>:<elem>" / "val:<n>" for exploded
}

type atr struct {
	p       *pkgInfo
	fd      *ast.FuncDecl
	file    *ast.File
	it      arithItem
	vars    map[string]avar
	opens   []string
	closes  []string
	monadic bool // result is `res T`
	recvPtr string
	recvN   int
	named   []string // named results
	via     string
	tmp     int
}

func (t *atr) pos(n ast.Node) string { return t.p.fset.Position(n.Pos()).String() }
func (t *atr) bad(n ast.Node, f string, a ...interface{}) {
	fail("arith %s: %s at %s", t.it.fn, fmt.Sprintf(f, a...), t.pos(n))
}

func (p *pkgInfo) fileOf(fd *ast.FuncDecl) *ast.File {
	for _, f := range p.files {
		if f.Pos() <= fd.Pos() && fd.End() <= f.End() {
			return f
		}
	}
	return p.files[0]
}

// arrayType resolves a named type of the package to (length, element int type).
func (p *pkgInfo) arrayType(name string) (int, string, bool) {
	for _, f := range p.files {
		for _, d := range f.Decls {
			gd, ok := d.(*ast.GenDecl)
			if !ok || gd.Tok != token.TYPE {
				continue
			}
			for _, s := range gd.Specs {
				ts := s.(*ast.TypeSpec)
				if ts.Name.Name != name {
					continue
				}
				switch tt := ts.Type.(type) {
				case *ast.ArrayType:
					if tt.Len == nil {
						return 0, "", false
					}
					n := p.eval(tt.Len, 0, f)
					if id, ok := tt.Elt.(*ast.Ident); ok {
						if _, ok := intTypes[id.Name]; ok {
							return int(n.Int64()), id.Name, true
						}
					}
				case *ast.Ident:
					return p.arrayType(tt.Name)
				}
			}
		}
	}
	return 0, "", false
}

func wrapFn(typ string) string {
	bits, ok := intTypes[typ]
	if !ok {
		fail("arith: no wrap for type %q", typ)
	}
	if bits < 0 {
		return fmt.Sprintf("wS %d", -bits)
	}
	return fmt.Sprintf("wU %d", bits)
}

func zlit(v *big.Int) string {
	if v.Sign() < 0 {
		return "(" + v.String() + ")"
	}
	return v.String()
}

func vname(s string) string { return "v_" + s }

// declare a parameter or receiver
func (t *atr) declParam(name string, typ ast.Expr, params *[]string) {
	if n, ok := t.it.explode[name]; ok {
		t.vars[name] = avar{typ: fmt.Sprintf("val:%d", n)}
		for i := 0; i < n; i++ {
			*params = append(*params, fmt.Sprintf("%s_%d", vname(name), i))
		}
		return
	}
	switch tt := typ.(type) {
	case *ast.Ident:
		if _, ok := intTypes[tt.Name]; ok {
			t.vars[name] = avar{typ: tt.Name}
			*params = append(*params, vname(name))
			return
		}
		if n, el, ok := t.p.arrayType(tt.Name); ok {
			t.vars[name] = avar{typ: fmt.Sprintf("arr:%d:%s", n, el)}
			for i := 0; i < n; i++ {
				*params = append(*params, fmt.Sprintf("%s_%d", vname(name), i))
			}
			return
		}
	case *ast.ArrayType:
		if tt.Len == nil {
			if id, ok := tt.Elt.(*ast.Ident); ok && (id.Name == "byte" || id.Name == "uint8") {
				t.vars[name] = avar{typ: "bytes"}
				*params = append(*params, vname(name))
				return
			}
		}
	}
	t.bad(typ, "unsupported parameter type for %s", name)
}

func (t *atr) arrInfo(name string) (int, string, bool) {
	v, ok := t.vars[name]
	if !ok {
		return 0, "", false
	}
	var n int
	var el string
	if strings.HasPrefix(v.typ, "arr:") {
		parts := strings.Split(v.typ, ":")
		fmt.Sscanf(parts[1], "%d", &n)
		return n, parts[2], true
	}
	if strings.HasPrefix(v.typ, "val:") {
		fmt.Sscanf(v.typ[4:], "%d", &n)
		return n, "int32", true
	}
	return 0, el, false
}

// constant tries to evaluate e as an untyped constant expression
func (t *atr) constant(e ast.Expr) (*big.Int, bool) {
	switch x := e.(type) {
	case *ast.BasicLit:
		if x.Kind == token.INT || x.Kind == token.CHAR {
			return t.p.eval(x, 0, t.file), true
		}
	case *ast.ParenExpr:
		return t.constant(x.X)
	case *ast.SelectorExpr:
		if id, ok := x.X.(*ast.Ident); ok {
			if _, isVar := t.vars[id.Name]; !isVar {
				if id.Name == "math" {
					return t.p.eval(x, 0, t.file), true
				}
				if _, ok := importDir(t.file, id.Name); ok {
					return t.p.eval(x, 0, t.file), true
				}
			}
		}
	case *ast.Ident:
		if _, isVar := t.vars[x.Name]; !isVar {
			if _, ok := t.p.consts[x.Name]; ok {
				return t.p.constVal(x.Name), true
			}
		}
	case *ast.UnaryExpr:
		if v, ok := t.constant(x.X); ok {
			switch x.Op {
			case token.SUB:
				return new(big.Int).Neg(v), true
			case token.ADD:
				return v, true
			}
		}
	case *ast.BinaryExpr:
		a, ok1 := t.constant(x.X)
		b, ok2 := t.constant(x.Y)
		if ok1 && ok2 {
			switch x.Op {
			case token.ADD, token.SUB, token.MUL, token.SHL, token.SHR, token.AND, token.OR, token.XOR:
				return t.p.eval(&ast.BinaryExpr{X: &ast.BasicLit{Kind: token.INT, Value: a.String()}, Op: x.Op,
					Y: &ast.BasicLit{Kind: token.INT, Value: b.String()}}, 0, t.file), true
			}
		}
	}
	return nil, false
}

func sliceBounds(t *atr, e ast.Expr) (string, int64, int64) {
	se, ok := e.(*ast.SliceExpr)
	if !ok || se.Slice3 || se.Low == nil || se.High == nil {
		t.bad(e, "expected name[a:b]")
	}
	id, ok := se.X.(*ast.Ident)
	if !ok || t.vars[id.Name].typ != "bytes" {
		t.bad(e, "slice of something that is not a []byte variable")
	}
	lo, ok1 := t.constant(se.Low)
	hi, ok2 := t.constant(se.High)
	if !ok1 || !ok2 {
		t.bad(e, "slice bounds must be constants")
	}
	return id.Name, lo.Int64(), hi.Int64()
}

func isBigEndianCall(e ast.Expr, method string) bool {
	sel, ok := e.(*ast.SelectorExpr)
	if !ok || sel.Sel.Name != method {
		return false
	}
	s2, ok := sel.X.(*ast.SelectorExpr)
	if !ok || s2.Sel.Name != "BigEndian" {
		return false
	}
	id, ok := s2.X.(*ast.Ident)
	return ok && id.Name == "binary"
}

// expr returns (Coq term of type Z or bool, Go type: an int type, "bool", or "" for untyped constant)
func (t *atr) expr(e ast.Expr, inBranch bool) (string, string) {
	if v, ok := t.constant(e); ok {
		return zlit(v), ""
	}
	switch x := e.(type) {
	case *ast.ParenExpr:
		return t.expr(x.X, inBranch)
	case *ast.Ident:
		v, ok := t.vars[x.Name]
		if !ok {
			t.bad(e, "unknown identifier %s", x.Name)
		}
		if _, isInt := intTypes[v.typ]; !isInt && v.typ != "bool" {
			t.bad(e, "variable %s of type %s used as a scalar", x.Name, v.typ)
		}
		return vname(x.Name), v.typ
	case *ast.IndexExpr:
		id, ok := x.X.(*ast.Ident)
		if !ok {
			t.bad(e, "index of non-identifier")
		}
		n, el, ok := t.arrInfo(id.Name)
		k, okc := t.constant(x.Index)
		if !ok || !okc || k.Int64() < 0 || k.Int64() >= int64(n) {
			t.bad(e, "unsupported index expression")
		}
		return fmt.Sprintf("%s_%d", vname(id.Name), k.Int64()), el
	case *ast.UnaryExpr:
		a, ta := t.expr(x.X, inBranch)
		switch x.Op {
		case token.SUB:
			if ta == "" || ta == "bool" {
				t.bad(e, "negation of untyped/bool")
			}
			return fmt.Sprintf("(%s (- %s))", wrapFn(ta), a), ta
		case token.NOT:
			if ta != "bool" {
				t.bad(e, "! of non-bool")
			}
			return fmt.Sprintf("(negb %s)", a), "bool"
		}
	case *ast.BinaryExpr:
		a, ta := t.expr(x.X, inBranch)
		b, tb := t.expr(x.Y, inBranch)
		switch x.Op {
		case token.LAND, token.LOR:
			if ta != "bool" || tb != "bool" {
				t.bad(e, "boolean operator on non-bool")
			}
			if x.Op == token.LAND {
				return fmt.Sprintf("(andb %s %s)", a, b), "bool"
			}
			return fmt.Sprintf("(orb %s %s)", a, b), "bool"
		case token.SHL, token.SHR:
			if ta == "" || ta == "bool" {
				t.bad(e, "shift of untyped value")
			}
			if x.Op == token.SHL {
				return fmt.Sprintf("(%s (Z.shiftl %s %s))", wrapFn(ta), a, b), ta
			}
			return fmt.Sprintf("(Z.shiftr %s %s)", a, b), ta
		}
		typ := ta
		if typ == "" {
			typ = tb
		}
		if ta != "" && tb != "" && ta != tb {
			t.bad(e, "operands of different types %s and %s", ta, tb)
		}
		if typ == "" || typ == "bool" {
			t.bad(e, "operator on untyped or bool operands")
		}
		// an untyped constant takes the type of the other operand (Go rejects overflow at compile time)
		switch x.Op {
		case token.AND:
			return fmt.Sprintf("(Z.land %s %s)", a, b), typ
		case token.OR:
			return fmt.Sprintf("(Z.lor %s %s)", a, b), typ
		case token.XOR:
			return fmt.Sprintf("(Z.lxor %s %s)", a, b), typ
		case token.AND_NOT:
			return fmt.Sprintf("(Z.ldiff %s %s)", a, b), typ
		case token.ADD:
			return fmt.Sprintf("(%s (%s + %s))", wrapFn(typ), a, b), typ
		case token.SUB:
			return fmt.Sprintf("(%s (%s - %s))", wrapFn(typ), a, b), typ
		case token.MUL:
			return fmt.Sprintf("(%s (%s * %s))", wrapFn(typ), a, b), typ
		case token.QUO:
			// Go panics on a zero divisor; the caller of the generated function guards it
			return fmt.Sprintf("(%s (Z.quot %s %s))", wrapFn(typ), a, b), typ
		case token.REM:
			return fmt.Sprintf("(Z.rem %s %s)", a, b), typ
		case token.LSS:
			return fmt.Sprintf("(%s <? %s)", a, b), "bool"
		case token.LEQ:
			return fmt.Sprintf("(%s <=? %s)", a, b), "bool"
		case token.GTR:
			return fmt.Sprintf("(%s <? %s)", b, a), "bool"
		case token.GEQ:
			return fmt.Sprintf("(%s <=? %s)", b, a), "bool"
		case token.EQL:
			return fmt.Sprintf("(%s =? %s)", a, b), "bool"
		case token.NEQ:
			return fmt.Sprintf("(negb (%s =? %s))", a, b), "bool"
		}
	case *ast.CallExpr:
		if id, ok := x.Fun.(*ast.Ident); ok && len(x.Args) == 1 {
			if _, isInt := intTypes[id.Name]; isInt {
				a, ta := t.expr(x.Args[0], inBranch)
				if ta == "bool" {
					t.bad(e, "conversion of bool")
				}
				return fmt.Sprintf("(%s %s)", wrapFn(id.Name), a), id.Name
			}
			if id.Name == "len" {
				if aid, ok := x.Args[0].(*ast.Ident); ok && t.vars[aid.Name].typ == "bytes" {
					return fmt.Sprintf("(Z.of_nat (length %s))", vname(aid.Name)), "int"
				}
			}
		}
		if sel, ok := x.Fun.(*ast.SelectorExpr); ok && sel.Sel.Name == "Value" && len(x.Args) == 1 {
			if id, ok := sel.X.(*ast.Ident); ok {
				if n, el, ok := t.arrInfo(id.Name); ok {
					k, okc := t.constant(x.Args[0])
					if okc && k.Int64() >= 0 && k.Int64() < int64(n) {
						return fmt.Sprintf("%s_%d", vname(id.Name), k.Int64()), el
					}
				}
			}
		}
		if isBigEndianCall(x.Fun, "Uint32") && len(x.Args) == 1 {
			if inBranch {
				t.bad(e, "slice read inside a branch")
			}
			name, lo, hi := sliceBounds(t, x.Args[0])
			t.tmp++
			tmp := fmt.Sprintf("t_%d", t.tmp)
			t.monadic = true
			t.opens = append(t.opens, fmt.Sprintf("match bget_be32 %s %d %d with None => Panic | Some %s =>", vname(name), lo, hi, tmp))
			t.closes = append(t.closes, "end")
			return tmp, "uint32"
		}
	}
	t.bad(e, "unsupported expression")
	return "", ""
}

// typed expression converted to the type of its destination
func (t *atr) exprAs(e ast.Expr, dst string, inBranch bool) string {
	a, ta := t.expr(e, inBranch)
	if ta == "" {
		v, _ := t.constant(e)
		if bits, ok := intTypes[dst]; ok {
			if wrap(v, bits).Cmp(v) != 0 {
				t.bad(e, "constant overflows %s", dst)
			}
		}
		return a
	}
	if ta != dst {
		t.bad(e, "assignment of %s to %s", ta, dst)
	}
	return a
}

func assignOpToken(tok token.Token) (token.Token, bool) {
	m := map[token.Token]token.Token{token.ADD_ASSIGN: token.ADD, token.SUB_ASSIGN: token.SUB, token.MUL_ASSIGN: token.MUL,
		token.QUO_ASSIGN: token.QUO, token.REM_ASSIGN: token.REM, token.AND_ASSIGN: token.AND, token.OR_ASSIGN: token.OR,
		token.XOR_ASSIGN: token.XOR, token.SHL_ASSIGN: token.SHL, token.SHR_ASSIGN: token.SHR, token.AND_NOT_ASSIGN: token.AND_NOT}
	op, ok := m[tok]
	return op, ok
}

// lhs target name (a scalar variable or a component of an exploded array)
func (t *atr) target(e ast.Expr) (string, string) {
	switch x := e.(type) {
	case *ast.Ident:
		v, ok := t.vars[x.Name]
		if !ok {
			t.bad(e, "assignment to unknown variable %s", x.Name)
		}
		return vname(x.Name), v.typ
	case *ast.IndexExpr:
		return t.expr(e, true)
	}
	t.bad(e, "unsupported assignment target")
	return "", ""
}

// simple statements allowed inside if bodies; returns the let lines and the set of assigned names
func (t *atr) simple(s ast.Stmt, inBranch bool, assigned map[string]bool, order *[]string) string {
	switch x := s.(type) {
	case *ast.AssignStmt:
		if len(x.Lhs) != 1 || len(x.Rhs) != 1 {
			t.bad(s, "multi-assignment")
		}
		if x.Tok == token.DEFINE {
			id, ok := x.Lhs[0].(*ast.Ident)
			if !ok {
				t.bad(s, ":= to non-identifier")
			}
			if inBranch {
				t.bad(s, ":= inside a branch")
			}
			// buf := make([]byte, N)
			if call, ok := x.Rhs[0].(*ast.CallExpr); ok {
				if fid, ok := call.Fun.(*ast.Ident); ok && fid.Name == "make" && len(call.Args) == 2 {
					if at, ok := call.Args[0].(*ast.ArrayType); ok && at.Len == nil {
						n, okc := t.constant(call.Args[1])
						if !okc {
							t.bad(s, "make with non-constant length")
						}
						t.vars[id.Name] = avar{typ: "bytes"}
						return fmt.Sprintf("let %s := bmake %d in", vname(id.Name), n.Int64())
					}
				}
			}
			a, ta := t.expr(x.Rhs[0], inBranch)
			if ta == "" || ta == "bool" {
				t.bad(s, ":= of untyped constant or bool")
			}
			t.vars[id.Name] = avar{typ: ta}
			return fmt.Sprintf("let %s := %s in", vname(id.Name), a)
		}
		// *p = T{a, b, c}
		if st, ok := x.Lhs[0].(*ast.StarExpr); ok && x.Tok == token.ASSIGN {
			id, ok := st.X.(*ast.Ident)
			cl, ok2 := x.Rhs[0].(*ast.CompositeLit)
			if !ok || !ok2 || id.Name != t.recvPtr || len(cl.Elts) != t.recvN || inBranch {
				t.bad(s, "unsupported pointer assignment")
			}
			var parts []string
			_, el, _ := t.arrInfo(id.Name)
			for _, e := range cl.Elts {
				parts = append(parts, t.exprAs(e, el, inBranch))
			}
			var names []string
			for i := range parts {
				names = append(names, fmt.Sprintf("%s_%d", vname(id.Name), i))
			}
			return fmt.Sprintf("let '(%s) := (%s) in", strings.Join(names, ", "), strings.Join(parts, ", "))
		}
		name, typ := t.target(x.Lhs[0])
		var rhs string
		if x.Tok == token.ASSIGN {
			rhs = t.exprAs(x.Rhs[0], typ, inBranch)
		} else {
			op, ok := assignOpToken(x.Tok)
			if !ok {
				t.bad(s, "unsupported assignment operator")
			}
			r, tr := t.expr(&ast.BinaryExpr{X: x.Lhs[0], Op: op, Y: x.Rhs[0], OpPos: x.Pos()}, inBranch)
			if tr != typ {
				t.bad(s, "type of compound assignment")
			}
			rhs = r
		}
		if !assigned[name] {
			assigned[name] = true
			*order = append(*order, name)
		}
		return fmt.Sprintf("let %s := %s in", name, rhs)
	case *ast.DeclStmt:
		gd, ok := x.Decl.(*ast.GenDecl)
		if !ok || gd.Tok != token.VAR || inBranch {
			t.bad(s, "unsupported declaration")
		}
		var lines []string
		for _, sp := range gd.Specs {
			vs := sp.(*ast.ValueSpec)
			id, ok := vs.Type.(*ast.Ident)
			if !ok || len(vs.Values) != 0 {
				t.bad(s, "var declaration must be `var a, b T` with an integer type")
			}
			if _, ok := intTypes[id.Name]; !ok {
				t.bad(s, "var of non-integer type")
			}
			for _, n := range vs.Names {
				t.vars[n.Name] = avar{typ: id.Name}
				lines = append(lines, fmt.Sprintf("let %s := 0 in", vname(n.Name)))
			}
		}
		return strings.Join(lines, " ")
	case *ast.ExprStmt:
		call, ok := x.X.(*ast.CallExpr)
		if ok && isBigEndianCall(call.Fun, "PutUint32") && len(call.Args) == 2 && !inBranch {
			name, lo, hi := sliceBounds(t, call.Args[0])
			v := t.exprAs(call.Args[1], "uint32", inBranch)
			t.monadic = true
			t.opens = append(t.opens, fmt.Sprintf("match bput_be32 %s %d %d %s with None => Panic | Some %s =>", vname(name), lo, hi, v, vname(name)))
			t.closes = append(t.closes, "end")
			return ""
		}
	case *ast.IfStmt:
		if x.Init != nil {
			t.bad(s, "if with init")
		}
		cond, tc := t.expr(x.Cond, inBranch)
		if tc != "bool" {
			t.bad(s, "non-boolean condition")
		}
		sub := map[string]bool{}
		var subOrder []string
		var thenLines, elseLines []string
		for _, b := range x.Body.List {
			thenLines = append(thenLines, t.simple(b, true, sub, &subOrder))
		}
		if x.Else != nil {
			blk, ok := x.Else.(*ast.BlockStmt)
			if !ok {
				t.bad(s, "else-if chains are not supported")
			}
			for _, b := range blk.List {
				elseLines = append(elseLines, t.simple(b, true, sub, &subOrder))
			}
		}
		if len(subOrder) == 0 {
			t.bad(s, "if statement assigns nothing")
		}
		for _, n := range subOrder {
			if !assigned[n] {
				assigned[n] = true
				*order = append(*order, n)
			}
		}
		tup := strings.Join(subOrder, ", ")
		pat := "'(" + tup + ")"
		if len(subOrder) == 1 {
			pat = tup
			tup = subOrder[0]
		} else {
			tup = "(" + tup + ")"
		}
		return fmt.Sprintf("let %s := if %s then (%s %s) else (%s %s) in", pat, cond,
			strings.Join(thenLines, " "), tup, strings.Join(elseLines, " "), tup)
	}
	t.bad(s, "unsupported statement")
	return ""
}

func isErrorGuard(s ast.Stmt) (*ast.IfStmt, bool) {
	x, ok := s.(*ast.IfStmt)
	if !ok || x.Else != nil || x.Init != nil || len(x.Body.List) != 1 {
		return nil, false
	}
	r, ok := x.Body.List[0].(*ast.ReturnStmt)
	if !ok || len(r.Results) != 1 {
		return nil, false
	}
	if id, ok := r.Results[0].(*ast.Ident); ok && id.Name == "nil" {
		return nil, false
	}
	return x, true
}

func genArith() {
	if len(arithItems) == 0 {
		return
	}
	var b strings.Builder
	b.WriteString("(* GENERATED by harness/cmd/gen (gen_arith.go) from the Go source of /repo. Do not edit. *)\n")
	b.WriteString("From Coq Require Import ZArith List Bool String.\nFrom DV Require Import Base.Prelude Base.WrapZ.\nImport ListNotations.\nLocal Open Scope Z_scope.\n\n")
	sort.SliceStable(arithItems, func(i, j int) bool { return false })
	for _, it := range arithItems {
		p := loadPkg(it.pkg)
		fd, ok := p.funcs[it.fn]
		if !ok || fd.Body == nil {
			fail("arith: function %s not found in %s", it.fn, it.pkg)
		}
		t := &atr{p: p, fd: fd, file: p.fileOf(fd), it: it, vars: map[string]avar{}}
		var params []string
		if fd.Recv != nil && len(fd.Recv.List) == 1 && len(fd.Recv.List[0].Names) == 1 {
			rn := fd.Recv.List[0].Names[0].Name
			switch rt := fd.Recv.List[0].Type.(type) {
			case *ast.StarExpr:
				id, ok := rt.X.(*ast.Ident)
				if !ok {
					t.bad(rt, "receiver type")
				}
				n, el, ok := p.arrayType(id.Name)
				if !ok {
					t.bad(rt, "pointer receiver must point to an integer array type")
				}
				// a result, not an input: the function must assign *recv before returning nil
				t.vars[rn] = avar{typ: fmt.Sprintf("arr:%d:%s", n, el)}
				t.recvPtr, t.recvN = rn, n
			default:
				t.declParam(rn, rt, &params)
			}
		}
		for _, f := range fd.Type.Params.List {
			for _, n := range f.Names {
				t.declParam(n.Name, f.Type, &params)
			}
		}
		errResult := false
		var initLines []string
		if fd.Type.Results != nil {
			for _, f := range fd.Type.Results.List {
				if id, ok := f.Type.(*ast.Ident); ok && id.Name == "error" && len(f.Names) == 0 {
					errResult = true
					t.monadic = true
					continue
				}
				for _, n := range f.Names {
					id, ok := f.Type.(*ast.Ident)
					if !ok {
						t.bad(f.Type, "named result type")
					}
					if _, ok := intTypes[id.Name]; !ok {
						t.bad(f.Type, "named result must be an integer")
					}
					t.vars[n.Name] = avar{typ: id.Name}
					t.named = append(t.named, n.Name)
					initLines = append(initLines, fmt.Sprintf("let %s := 0 in", vname(n.Name)))
				}
			}
		}
		if t.recvPtr != "" {
			for i := 0; i < t.recvN; i++ {
				initLines = append(initLines, fmt.Sprintf("let %s_%d := 0 in", vname(t.recvPtr), i))
			}
		}
		t.opens = append(t.opens, initLines...)
		for range initLines {
			t.closes = append(t.closes, "")
		}
		stmts := fd.Body.List
		if len(stmts) == 0 {
			t.bad(fd, "empty body")
		}
		ret, ok := stmts[len(stmts)-1].(*ast.ReturnStmt)
		if !ok {
			t.bad(fd, "function must end with a return")
		}
		assigned := map[string]bool{}
		var order []string
		for _, s := range stmts[:len(stmts)-1] {
			if g, ok := isErrorGuard(s); ok && errResult {
				cond, tc := t.expr(g.Cond, false)
				if tc != "bool" {
					t.bad(g, "non-boolean guard")
				}
				t.opens = append(t.opens, fmt.Sprintf("if %s then Err else", cond))
				t.closes = append(t.closes, "")
				continue
			}
			nOpen := len(t.opens)
			line := t.simple(s, false, assigned, &order)
			_ = nOpen
			if line != "" {
				t.opens = append(t.opens, line)
				t.closes = append(t.closes, "")
			}
		}
		result := t.trReturn(ret, errResult)
		fmt.Fprintf(&b, "(* %s: func %s *)\n", it.pkg, it.fn)
		name := "g_" + strings.ReplaceAll(it.fn, ".", "_")
		ps := ""
		if len(params) > 0 {
			var zs, bs []string
			for _, pn := range params {
				base := strings.TrimPrefix(pn, "v_")
				if t.vars[base].typ == "bytes" {
					bs = append(bs, pn)
				} else {
					zs = append(zs, pn)
				}
			}
			_ = zs
			for _, pn := range params {
				base := strings.TrimPrefix(pn, "v_")
				if t.vars[base].typ == "bytes" {
					ps += fmt.Sprintf(" (%s : list Z)", pn)
				} else {
					ps += fmt.Sprintf(" (%s : Z)", pn)
				}
			}
			_ = bs
		}
		fmt.Fprintf(&b, "Definition %s%s :=\n", name, ps)
		for _, o := range t.opens {
			fmt.Fprintf(&b, "  %s\n", o)
		}
		fmt.Fprintf(&b, "  %s", result)
		for i := len(t.closes) - 1; i >= 0; i-- {
			if t.closes[i] != "" {
				fmt.Fprintf(&b, " %s", t.closes[i])
			}
		}
		b.WriteString(".\n")
		if t.via != "" {
			fmt.Fprintf(&b, "Definition %s_via : string := %q%%string.\n", name, t.via)
		}
		b.WriteString("\n")
	}
	writeIfChanged(filepath.Join(*out, "Arith.v"), b.String())
}

// trReturn: the value of the function.
//
//	bare return                     -> tuple of the named results
//	return e1, .., en               -> tuple of the expressions
//	return T{a, b, c}               -> tuple (a, b, c)
//	return pkg.T{a, b, c}.M()       -> tuple (a, b, c); the callee is recorded in <name>_via
//	return v  (a []byte variable)   -> v
//	return nil (error result)       -> Ok of the pointer receiver's components
func (t *atr) trReturn(r *ast.ReturnStmt, errResult bool) string {
	wrapOk := func(s string) string {
		if t.monadic {
			return "Ok " + s
		}
		return s
	}
	tuple := func(parts []string) string {
		if len(parts) == 1 {
			return parts[0]
		}
		return "(" + strings.Join(parts, ", ") + ")"
	}
	if len(r.Results) == 0 {
		if len(t.named) == 0 {
			t.bad(r, "bare return without named results")
		}
		var parts []string
		for _, n := range t.named {
			parts = append(parts, vname(n))
		}
		return wrapOk(tuple(parts))
	}
	if errResult {
		if len(r.Results) == 1 {
			if id, ok := r.Results[0].(*ast.Ident); ok && id.Name == "nil" {
				if t.recvPtr == "" {
					return "Ok tt"
				}
				var parts []string
				for i := 0; i < t.recvN; i++ {
					parts = append(parts, fmt.Sprintf("%s_%d", vname(t.recvPtr), i))
				}
				return "Ok " + tuple(parts)
			}
		}
		t.bad(r, "final return of an error-returning function must be `return nil`")
	}
	if len(r.Results) == 1 {
		e := r.Results[0]
		if id, ok := e.(*ast.Ident); ok && t.vars[id.Name].typ == "bytes" {
			return wrapOk(vname(id.Name))
		}
		compParts := func(cl *ast.CompositeLit) []string {
			var parts []string
			for _, el := range cl.Elts {
				a, ta := t.expr(el, false)
				if ta == "bool" {
					t.bad(el, "bool in composite literal")
				}
				parts = append(parts, a)
			}
			return parts
		}
		if cl, ok := e.(*ast.CompositeLit); ok {
			return wrapOk(tuple(compParts(cl)))
		}
		if call, ok := e.(*ast.CallExpr); ok && len(call.Args) == 0 {
			if sel, ok := call.Fun.(*ast.SelectorExpr); ok {
				if cl, ok := sel.X.(*ast.CompositeLit); ok {
					tn := ""
					switch ty := cl.Type.(type) {
					case *ast.Ident:
						tn = ty.Name
					case *ast.SelectorExpr:
						if id, ok := ty.X.(*ast.Ident); ok {
							tn = id.Name + "." + ty.Sel.Name
						}
					}
					t.via = tn + "." + sel.Sel.Name
					return wrapOk(tuple(compParts(cl)))
				}
			}
		}
	}
	var parts []string
	for _, e := range r.Results {
		a, ta := t.expr(e, false)
		if ta == "bool" || ta == "" {
			t.bad(e, "unsupported result expression")
		}
		parts = append(parts, a)
	}
	return wrapOk(tuple(parts))
}
