package main

func init() {
	regConsts("dvid", "EncodingBinary")
	// straight-line coordinate arithmetic translated to Gallina (coq/Gen/Arith.v)
	regArith("datatype/common/labels", "EncodeBlockIndex", nil)
	regArith("datatype/common/labels", "DecodeBlockIndex", nil)
	regArith("datatype/common/labels", "BlockIndexToIZYXString", nil)
	regArith("dvid", "Point3d.ToZYXBytes", nil)
	regArith("dvid", "Point3d.FromZYXBytes", nil)
	regArith("dvid", "Point3d.Chunk", map[string]int{"size": 3})
}
