package main

func init() {
	regConsts("dvid", "EncodingBinary")
	// straight-line coordinate arithmetic translated to Gallina (coq/Gen/Arith.v)
	regArith("datatype/common/labels", "EncodeBlockIndex", nil)
	regArith("datatype/common/labels", "DecodeBlockIndex", nil)
	regArith("datatype/common/labels", "BlockIndexToIZYXString", nil)
	regArith("dvid", "Point3d.ToZYXBytes", nil)
	regArith("dvid", "Point3d.FromZYXBytes", nil)
	regArith("dvid", "Point3d.Chunk", map[string]int{"size": 3})
	// batch / preallocation sizes inside function bodies: boundary values for the driver
	regLocalConst("roi_PutSpans_BATCH_SIZE", "datatype/roi", "Data.PutSpans", "BATCH_SIZE")
	regLocalConst("dvid_ReadRLEs_maxPrealloc", "dvid", "RLEs.UnmarshalBinaryReader", "maxPrealloc")
}
