package main

func init() {
	// the three metadata kinds of neuronjson (type Schema, iota): Model/NJ.v k_json_schema, k_schema, k_schema_batch
	regConstAs("nj_JSONSchema", "datatype/neuronjson", "JSONSchema")
	regConstAs("nj_NeuSchema", "datatype/neuronjson", "NeuSchema")
	regConstAs("nj_NeuSchemaBatch", "datatype/neuronjson", "NeuSchemaBatch")
}
