package main

func init() {
	// metadata key classes of datastore/repo_local.go (C04, C03, C12); prefixed md_ so that they cannot
	// clash with another property's registrations of the same constants
	for _, n := range []string{"repoToUUIDKey", "versionToUUIDKey", "newIDsKey", "repoKey", "formatKey", "mutidKey", "RepoFormatVersion", "StrideMutationID", "InitialMutationID"} {
		regConstAs("md_"+n, "datastore", n)
	}
	for _, n := range []string{"RepoIDSize", "VersionIDSize", "InstanceIDSize"} {
		regConstAs("md_"+n, "dvid", n)
	}
}
