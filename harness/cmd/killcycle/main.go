// killcycle: reproduction of two badger (v3.2103.2, SyncWrites=false) behaviours seen while building
// the crash drivers — NOT part of any check.  A DVID child is started on one directory and killed
// right after it came up (SIGKILL, or os.Exit straight after its first metadata Put with the
// argument "after"), again and again; each start persists mutation-id bound = loaded + 100.
//   - within some tens of cycles a start fails with
//     storage.Initialize: bad store "db": while opening memtables error: while opening fid: N error: Create a new file
//     (a memtable file left empty by the kill; the store needs manual repair);
//   - with "after", about 1 in 100 acknowledged Puts is missing at the next start.
//
// Usage: go build -tags "badger verif" -o bin/killcycle ./cmd/killcycle && ./bin/killcycle [after]
package main

import (
	"encoding/json"
	"fmt"
	"os"

	"verif/harness/dvh"
)

func mut(p *dvh.Proc) uint64 {
	_, body, _ := p.Get("/api/repos/info")
	var m map[string]struct{ MutationID uint64 }
	json.Unmarshal(body, &m)
	for _, r := range m {
		return r.MutationID
	}
	return 0
}

func main() {
	dvh.MaybeChild()
	lost, total := 0, 0
	for round := 0; round < 8; round++ {
		dir, _ := os.MkdirTemp("", "durab")
		p, _ := dvh.Start(dvh.Opts{Dir: dir})
		p.PostJSON("/api/repos", map[string]string{"alias": "r1"})
		cur := mut(p) // persisted = cur+100
		p.Kill()
		for i := 0; i < 40; i++ {
			mode := "kill"
			if len(os.Args) > 1 && os.Args[1] == "after" && i%3 != 1 {
				mode = "after"
			}
			// a start that dies right after (or is killed right after) persisting cur+200
			if mode == "after" {
				dvh.Start(dvh.Opts{Dir: dir, Crash: "meta:1:after"})
			} else {
				q, err := dvh.Start(dvh.Opts{Dir: dir})
				if err != nil {
					fmt.Println("start err", err)
					return
				}
				q.Kill()
			}
			q, err := dvh.Start(dvh.Opts{Dir: dir})
			if err != nil {
				fmt.Println("start err", err)
				return
			}
			got := mut(q)
			total++
			if got != cur+200 {
				lost++
				fmt.Printf("round %d iteration %d (%s): expected %d got %d\n", round, i, mode, cur+200, got)
			}
			cur = got
			q.Kill()
		}
		os.RemoveAll(dir)
	}
	fmt.Println("lost", lost, "of", total)
}
