// dvchild: a DVID server over a fresh test datastore, driven by JSON lines on stdin
// (see package verif/harness/dvchild).  Build: go build -tags "badger verif" ./cmd/dvchild
package main

import "verif/harness/dvchild"

func main() { dvchild.Serve() }
