// Package blk: helpers shared by the label-block drivers (C09, C10, C14): compact label
// array descriptions ("paints") expanded identically here and in Model.BlockRun, digests,
// and an independent encoder that follows Model.Block.encode (used for the model->Go direction).
package blk

import (
	"encoding/binary"
	"fmt"
	"sort"
	"strings"
)

type Paint struct {
	T      string   `json:"t"` // fill | box | cyc | hash
	Box    [6]int   `json:"box,omitempty"`
	L      uint64   `json:"l,omitempty"`
	Base   uint64   `json:"base,omitempty"`
	Stride uint64   `json:"stride,omitempty"`
	M      uint64   `json:"m,omitempty"`
	CS     uint64   `json:"cs,omitempty"`
	Seed   uint64   `json:"seed,omitempty"`
	Pal    []uint64 `json:"pal,omitempty"`
}

func Fill(l uint64) Paint          { return Paint{T: "fill", L: l} }
func Box(b [6]int, l uint64) Paint { return Paint{T: "box", Box: b, L: l} }
func Cyc(b [6]int, base, stride, m uint64) Paint {
	return Paint{T: "cyc", Box: b, Base: base, Stride: stride, M: m}
}
func Hash(b [6]int, cs, seed uint64, pal []uint64) Paint {
	return Paint{T: "hash", Box: b, CS: cs, Seed: seed, Pal: pal}
}

func (p Paint) at(x, y, z int) (uint64, bool) {
	if p.T == "fill" {
		return p.L, true
	}
	b := p.Box
	if x < b[0] || x >= b[3] || y < b[1] || y >= b[4] || z < b[2] || z >= b[5] {
		return 0, false
	}
	switch p.T {
	case "box":
		return p.L, true
	case "cyc":
		i := uint64(((z-b[2])*(b[4]-b[1])+(y-b[1]))*(b[3]-b[0]) + (x - b[0]))
		return p.Base + p.Stride*(i%p.M), true
	case "hash":
		c := uint64(x)/p.CS + 64*(uint64(y)/p.CS) + 4096*(uint64(z)/p.CS)
		h := ((c + p.Seed) * 2654435761) % (1 << 32)
		if len(p.Pal) == 0 {
			return 0, true
		}
		return p.Pal[(h/65536)%uint64(len(p.Pal))], true
	}
	return 0, false
}

// Expand returns the nx*ny*nz label array (x fastest) described by the paints, later paints on top.
func Expand(nx, ny, nz int, ps []Paint) []uint64 {
	a := make([]uint64, nx*ny*nz)
	i := 0
	for z := 0; z < nz; z++ {
		for y := 0; y < ny; y++ {
			for x := 0; x < nx; x++ {
				var cur uint64
				for _, p := range ps {
					if l, ok := p.at(x, y, z); ok {
						cur = l
					}
				}
				a[i] = cur
				i++
			}
		}
	}
	return a
}

func box6(b [6]int) string {
	return fmt.Sprintf("%d %d %d %d %d %d", b[0], b[1], b[2], b[3], b[4], b[5])
}

func nlist(xs []uint64) string {
	ss := make([]string, len(xs))
	for i, x := range xs {
		ss[i] = fmt.Sprint(x)
	}
	return "[" + strings.Join(ss, ";") + "]"
}

func CoqPaints(ps []Paint) string {
	ss := make([]string, len(ps))
	for i, p := range ps {
		switch p.T {
		case "fill":
			ss[i] = fmt.Sprintf("PFill %d", p.L)
		case "box":
			ss[i] = fmt.Sprintf("PBox %s %d", box6(p.Box), p.L)
		case "cyc":
			ss[i] = fmt.Sprintf("PCyc %s %d %d %d", box6(p.Box), p.Base, p.Stride, p.M)
		case "hash":
			ss[i] = fmt.Sprintf("PHash %s %d %d %s", box6(p.Box), p.CS, p.Seed, nlist(p.Pal))
		}
	}
	return "[" + strings.Join(ss, "; ") + "]"
}

func ToBytes(a []uint64) []byte {
	b := make([]byte, 8*len(a))
	for i, l := range a {
		binary.LittleEndian.PutUint64(b[8*i:], l)
	}
	return b
}

func FromBytes(b []byte) []uint64 {
	a := make([]uint64, len(b)/8)
	for i := range a {
		a[i] = binary.LittleEndian.Uint64(b[8*i:])
	}
	return a
}

// Digest: h <- h*1099511628211 + l + 1 (mod 2^64), as Model.BlockRun.digest.
func Digest(a []uint64) uint64 {
	h := uint64(14695981039346656037)
	for _, l := range a {
		h = h*1099511628211 + l + 1
	}
	return h
}
func DigestBytes(b []byte) uint64 { return Digest(FromBytes(b)) }

func Distinct(a []uint64) int {
	m := map[uint64]bool{}
	for _, l := range a {
		m[l] = true
	}
	return len(m)
}

func Bucket(n int) string {
	switch {
	case n <= 1:
		return "1"
	case n == 2:
		return "2"
	case n <= 8:
		return "3-8"
	case n <= 64:
		return "9-64"
	case n <= 256:
		return "65-256"
	case n < 512:
		return "257-511"
	default:
		return ">=512"
	}
}

// TableOrder returns the distinct labels of a in the requested order.
func TableOrder(a []uint64, order string) []uint64 {
	m := map[uint64]bool{}
	var t []uint64
	for _, l := range a {
		if !m[l] {
			m[l] = true
			t = append(t, l)
		}
	}
	switch order {
	case "asc":
		sort.Slice(t, func(i, j int) bool { return t[i] < t[j] })
	case "desc":
		sort.Slice(t, func(i, j int) bool { return t[i] > t[j] })
	case "rot":
		if len(t) > 1 {
			t = append(t[len(t)/2:], t[:len(t)/2]...)
		}
	}
	return t
}

func bitsFor(n int) int {
	if n < 2 {
		return 0
	}
	n--
	b := 0
	for n > 0 {
		b++
		n >>= 1
	}
	return b
}

// ModelEncode serialises the array exactly as Model.Block.marshal (encode tbl a) does: an
// independent encoder (bit-string based), not a call into the labels package.
func ModelEncode(a []uint64, g [3]int, tbl []uint64) []byte {
	return modelEncode(a, g, tbl, false)
}

// SparseEncode serialises the array as a block whose all-zero sub-blocks are left uninitialised
// (NumSBLabels = 0, no indices, no values), as the block format allows and clients may POST; label 0
// is in the table only if tbl contains it.  The table must hold at least two labels.
func SparseEncode(a []uint64, g [3]int, tbl []uint64) []byte {
	return modelEncode(a, g, tbl, true)
}

// SparseTable: the distinct labels of the array, without 0 when 0 only occurs in all-zero sub-blocks.
func SparseTable(a []uint64, g [3]int) []uint64 {
	nx, ny := 8*g[0], 8*g[1]
	zeroNeeded := false
	for sz := 0; sz < g[2]; sz++ {
		for sy := 0; sy < g[1]; sy++ {
			for sx := 0; sx < g[0]; sx++ {
				hasZero, hasOther := false, false
				for z := 0; z < 8; z++ {
					for y := 0; y < 8; y++ {
						for x := 0; x < 8; x++ {
							if a[((sz*8+z)*ny+(sy*8+y))*nx+sx*8+x] == 0 {
								hasZero = true
							} else {
								hasOther = true
							}
						}
					}
				}
				if hasZero && hasOther {
					zeroNeeded = true
				}
			}
		}
	}
	var t []uint64
	for _, l := range TableOrder(a, "first") {
		if l != 0 || zeroNeeded {
			t = append(t, l)
		}
	}
	return t
}

func modelEncode(a []uint64, g [3]int, tbl []uint64, sparse bool) []byte {
	nx, ny := 8*g[0], 8*g[1]
	pos := map[uint64]uint32{}
	for i, l := range tbl {
		if _, ok := pos[l]; !ok {
			pos[l] = uint32(i)
		}
	}
	hdr := make([]byte, 16)
	binary.LittleEndian.PutUint32(hdr[0:], uint32(g[0]))
	binary.LittleEndian.PutUint32(hdr[4:], uint32(g[1]))
	binary.LittleEndian.PutUint32(hdr[8:], uint32(g[2]))
	binary.LittleEndian.PutUint32(hdr[12:], uint32(len(tbl)))
	out := append([]byte{}, hdr...)
	for _, l := range tbl {
		var w [8]byte
		binary.LittleEndian.PutUint64(w[:], l)
		out = append(out, w[:]...)
	}
	if len(tbl) <= 1 {
		return out
	}
	var nsb, idx, vals []byte
	for sz := 0; sz < g[2]; sz++ {
		for sy := 0; sy < g[1]; sy++ {
			for sx := 0; sx < g[0]; sx++ {
				local := map[uint64]int{}
				var order []uint64
				var vox []uint64
				for z := 0; z < 8; z++ {
					for y := 0; y < 8; y++ {
						for x := 0; x < 8; x++ {
							l := a[((sz*8+z)*ny+(sy*8+y))*nx+sx*8+x]
							if _, ok := local[l]; !ok {
								local[l] = len(order)
								order = append(order, l)
							}
							vox = append(vox, l)
						}
					}
				}
				var w2 [2]byte
				if sparse && len(order) == 1 && order[0] == 0 {
					nsb = append(nsb, w2[:]...) // uninitialised sub-block: 0 labels, nothing else
					continue
				}
				binary.LittleEndian.PutUint16(w2[:], uint16(len(order)))
				nsb = append(nsb, w2[:]...)
				for _, l := range order {
					var w4 [4]byte
					binary.LittleEndian.PutUint32(w4[:], pos[l])
					idx = append(idx, w4[:]...)
				}
				k := bitsFor(len(order))
				if k > 0 {
					// the bit string of all fields, most significant bit first, cut into bytes
					var cur byte
					nb := 0
					for _, l := range vox {
						v := local[l]
						for b := k - 1; b >= 0; b-- {
							cur = cur<<1 | byte((v>>uint(b))&1)
							nb++
							if nb == 8 {
								vals = append(vals, cur)
								cur, nb = 0, 0
							}
						}
					}
				}
			}
		}
	}
	out = append(out, nsb...)
	out = append(out, idx...)
	out = append(out, vals...)
	return out
}

// NonCubic is the sweep of non-cubic block sizes (in sub-blocks per axis) shared by the drivers that
// reach Block.Downres: X<Y, X>Z and all three different; a block has at least two sub-blocks per axis.
func NonCubic(thorough bool) [][3]int {
	s := [][3]int{{2, 3, 2}, {3, 2, 2}, {2, 2, 3}, {2, 3, 4}, {4, 3, 2}}
	if thorough {
		s = append(s, [][3]int{{2, 4, 2}, {4, 2, 2}, {2, 2, 4}, {2, 4, 6}, {6, 4, 2}}...)
	}
	return s
}
