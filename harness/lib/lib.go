// Package lib: shared helpers for the per-property drivers — one PRNG, Coq term printers,
// the cases-file writer and the run metadata (distribution, samples) that check.py reads.
package lib

import (
	"encoding/json"
	"flag"
	"fmt"
	"os"
	"path/filepath"
	"sort"
	"strconv"
	"strings"
)

// ---- PRNG (splitmix64): every random choice of a run derives from one seed ----

type Rand struct{ s uint64 }

// NewRand: the initial state is a mix of the seed (the splitmix64 output function), not a multiple of the
// stream's increment: with the latter, seed s+1 was the stream of seed s advanced by one draw.
func NewRand(seed uint64) *Rand {
	z := seed*0x9E3779B97F4A7C15 + 0x1234567
	z = (z ^ (z >> 30)) * 0xBF58476D1CE4E5B9
	z = (z ^ (z >> 27)) * 0x94D049BB133111EB
	return &Rand{s: z ^ (z >> 31)}
}

func (r *Rand) U64() uint64 {
	r.s += 0x9E3779B97F4A7C15
	z := r.s
	z = (z ^ (z >> 30)) * 0xBF58476D1CE4E5B9
	z = (z ^ (z >> 27)) * 0x94D049BB133111EB
	return z ^ (z >> 31)
}
func (r *Rand) Intn(n int) int {
	if n <= 0 {
		return 0
	}
	return int(r.U64() % uint64(n))
}
func (r *Rand) Bool() bool           { return r.U64()&1 == 1 }
func (r *Rand) Chance(p float64) bool { return float64(r.U64()>>11)/float64(1<<53) < p }
func (r *Rand) Bytes(n int) []byte {
	b := make([]byte, n)
	for i := range b {
		b[i] = byte(r.U64())
	}
	return b
}
func (r *Rand) Pick(xs ...int) int { return xs[r.Intn(len(xs))] }

// ---- Coq printers ----

func CoqBytes(b []byte) string {
	if len(b) == 0 {
		return "[]"
	}
	var sb strings.Builder
	sb.Grow(len(b)*4 + 2)
	sb.WriteByte('[')
	for i, x := range b {
		if i > 0 {
			sb.WriteByte(';')
		}
		sb.WriteString(strconv.Itoa(int(x)))
	}
	sb.WriteByte(']')
	return sb.String()
}

func CoqN(x uint64) string  { return strconv.FormatUint(x, 10) }
func CoqZ(x int64) string {
	if x < 0 {
		return "(" + strconv.FormatInt(x, 10) + ")"
	}
	return strconv.FormatInt(x, 10)
}
func CoqBool(b bool) string {
	if b {
		return "true"
	}
	return "false"
}
func CoqNList(xs []uint64) string {
	ss := make([]string, len(xs))
	for i, x := range xs {
		ss[i] = CoqN(x)
	}
	return "[" + strings.Join(ss, ";") + "]"
}
func CoqZList(xs []int64) string {
	ss := make([]string, len(xs))
	for i, x := range xs {
		ss[i] = CoqZ(x)
	}
	return "[" + strings.Join(ss, ";") + "]"
}
func CoqList(ss []string) string { return "[" + strings.Join(ss, ";\n  ") + "]" }
func CoqOption(some bool, v string) string {
	if some {
		return "(Some " + v + ")"
	}
	return "None"
}

// CoqString prints a byte string as a list of N (models use byte lists for strings).
func CoqString(s string) string { return CoqBytes([]byte(s)) }

// Res is an observed outcome: "ok" with a printed Coq value, "err", or "panic".
func CoqRes(class string, val string) string {
	switch class {
	case "ok":
		return "(Ok " + val + ")"
	case "err":
		return "Err"
	default:
		return "Panic"
	}
}

// ---- run options ----

type Opts struct {
	Seed   uint64
	Tier   string
	OutDir string
	Replay string
	N      int
}

func ParseOpts() Opts {
	var o Opts
	flag.Uint64Var(&o.Seed, "seed", 1, "PRNG seed")
	flag.StringVar(&o.Tier, "tier", "quick", "quick|thorough")
	flag.StringVar(&o.OutDir, "outdir", "", "directory for cases_<id>.v and <id>.meta.json")
	flag.StringVar(&o.Replay, "replay", "", "replay file (JSON) to re-run instead of generating")
	flag.IntVar(&o.N, "n", 0, "override number of generated cases")
	flag.Parse()
	if o.OutDir == "" {
		fmt.Fprintln(os.Stderr, "need -outdir")
		os.Exit(2)
	}
	return o
}

func (o Opts) Thorough() bool { return o.Tier == "thorough" }

// ---- cases file + metadata ----

type Run struct {
	ID       string
	opts     Opts
	header   []string
	cases    []string          // Coq terms, one per case
	caseJSON []json.RawMessage // the same cases, as JSON, for replay files and samples
	kinds    []string
	Dist     map[string]int // input distribution counters
	distinct map[string]bool
	Notes    []string
	Extra    map[string]interface{}
}

func NewRun(id string, o Opts) *Run {
	return &Run{ID: id, opts: o, Dist: map[string]int{}, distinct: map[string]bool{}, Extra: map[string]interface{}{}}
}

// Header lines are emitted before the case list (Require Imports etc.).
func (r *Run) Header(lines ...string) { r.header = append(r.header, lines...) }

// Add registers one case. kind labels it for the distribution; nontrivialKey, when non-empty,
// identifies it among the distinct non-trivial cases (by the driver's stated rule).
func (r *Run) Add(kind, coqTerm string, js interface{}, nontrivialKey string) int {
	r.cases = append(r.cases, coqTerm)
	b, err := json.Marshal(js)
	if err != nil {
		b = []byte(`"unmarshalable"`)
	}
	r.caseJSON = append(r.caseJSON, b)
	r.kinds = append(r.kinds, kind)
	r.Dist["kind:"+kind]++
	if nontrivialKey != "" {
		r.distinct[nontrivialKey] = true
	}
	return len(r.cases) - 1
}

func (r *Run) Count(key string) { r.Dist[key]++ }
func (r *Run) Len() int         { return len(r.cases) }

type Meta struct {
	ID                 string                 `json:"id"`
	Seed               uint64                 `json:"seed"`
	Tier               string                 `json:"tier"`
	Evaluations        int                    `json:"evaluations"`
	DistinctNontrivial int                    `json:"distinct_nontrivial"`
	Rule               string                 `json:"rule"`
	Distribution       map[string]int         `json:"distribution"`
	Kinds              []string               `json:"kinds"`
	Samples            []json.RawMessage      `json:"samples"`
	Notes              []string               `json:"notes"`
	Extra              map[string]interface{} `json:"extra"`
	CasesFile          string                 `json:"cases_file"`
	CasesJSONL         string                 `json:"cases_jsonl"`
}

// Finish writes cases_<ID>.v (the case list plus `tail`, the property-specific evaluation
// commands), <ID>.cases.jsonl and <ID>.meta.json.
// tail must define, by vm_compute, `spec_fail : list (nat * nat)` (case index, class code)
// and `model_mismatch : list nat`, and Print both.
func (r *Run) Finish(caseType, rule, tail string) {
	dir := r.opts.OutDir
	os.MkdirAll(dir, 0o755)
	vf := filepath.Join(dir, "cases_"+r.ID+".v")
	f, err := os.Create(vf)
	if err != nil {
		panic(err)
	}
	for _, h := range r.header {
		fmt.Fprintln(f, h)
	}
	fmt.Fprintf(f, "Definition cases : list (%s) := [\n  ", caseType)
	for i, c := range r.cases {
		if i > 0 {
			f.WriteString(";\n  ")
		}
		f.WriteString(c)
	}
	f.WriteString("\n].\n")
	f.WriteString(tail)
	f.WriteString("\nPrint spec_fail.\nPrint model_mismatch.\n")
	f.Close()

	jf := filepath.Join(dir, r.ID+".cases.jsonl")
	jfh, _ := os.Create(jf)
	for _, c := range r.caseJSON {
		jfh.Write(c)
		jfh.WriteString("\n")
	}
	jfh.Close()

	m := Meta{ID: r.ID, Seed: r.opts.Seed, Tier: r.opts.Tier, Evaluations: len(r.cases),
		DistinctNontrivial: len(r.distinct), Rule: rule, Distribution: r.Dist, Kinds: r.kinds,
		Notes: r.Notes, Extra: r.Extra, CasesFile: vf, CasesJSONL: jf}
	// samples: first case of each kind (at most 6), in kind order
	seen := map[string]bool{}
	var ks []string
	for _, k := range r.kinds {
		if !seen[k] {
			seen[k] = true
			ks = append(ks, k)
		}
	}
	sort.Strings(ks)
	for _, k := range ks {
		for i, kk := range r.kinds {
			if kk == k {
				s := r.caseJSON[i]
				if len(s) > 600 {
					s, _ = json.Marshal(map[string]interface{}{"kind": k, "truncated_json": string(s[:600])})
				}
				m.Samples = append(m.Samples, s)
				break
			}
		}
		if len(m.Samples) >= 6 {
			break
		}
	}
	b, _ := json.MarshalIndent(m, "", " ")
	os.WriteFile(filepath.Join(dir, r.ID+".meta.json"), b, 0o644)
}

// Recover runs f and reports whether it panicked.
func Recover(f func()) (panicked bool, msg string) {
	defer func() {
		if e := recover(); e != nil {
			panicked = true
			msg = fmt.Sprint(e)
		}
	}()
	f()
	return
}

// LoadReplay reads the "case" member of a replay file.
func LoadReplay(path string, v interface{}) error {
	b, err := os.ReadFile(path)
	if err != nil {
		return err
	}
	var w struct {
		Case json.RawMessage `json:"case"`
	}
	if err := json.Unmarshal(b, &w); err != nil {
		return err
	}
	return json.Unmarshal(w.Case, v)
}

// Binder interns byte strings that occur several times in one case (payload, serialised form,
// read-back) as Coq let-bindings: Coq parses roughly 8 KB of literals per second, so the
// volume of literal data, not the number of cases, bounds a cases file.
type Binder struct {
	names map[string]string
	lets  []string
}

func NewBinder() *Binder { return &Binder{names: map[string]string{}} }

func (b *Binder) Bytes(x []byte) string {
	if len(x) < 6 {
		return CoqBytes(x)
	}
	k := string(x)
	if n, ok := b.names[k]; ok {
		return n
	}
	n := fmt.Sprintf("b%d", len(b.names))
	b.names[k] = n
	b.lets = append(b.lets, fmt.Sprintf("let %s : bytes := %s in", n, CoqBytesCompact(x)))
	return n
}

func (b *Binder) Wrap(term string) string {
	if len(b.lets) == 0 {
		return "(" + term + ")"
	}
	return "(" + strings.Join(b.lets, " ") + " " + term + ")"
}

// CoqBytesCompact prints runs of one repeated byte as (repeat b n) segments.
func CoqBytesCompact(x []byte) string {
	var segs []string
	i := 0
	lit := []byte{}
	flush := func() {
		if len(lit) > 0 {
			segs = append(segs, CoqBytes(lit))
			lit = lit[:0]
		}
	}
	for i < len(x) {
		j := i
		for j < len(x) && x[j] == x[i] {
			j++
		}
		if j-i >= 12 {
			flush()
			segs = append(segs, fmt.Sprintf("repeat %d %d%%nat", x[i], j-i))
		} else {
			lit = append(lit, x[i:j]...)
		}
		i = j
	}
	flush()
	if len(segs) == 0 {
		return "[]"
	}
	if len(segs) == 1 {
		if strings.HasPrefix(segs[0], "repeat") {
			return "(" + segs[0] + ")"
		}
		return segs[0]
	}
	return "(" + strings.Join(segs, " ++ ") + ")"
}
