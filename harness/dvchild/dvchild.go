// Package dvchild: a DVID server driven over a pipe, so that a driver can observe what a
// request does to the *process* (a panic in a background goroutine is not caught by the HTTP
// recovery middleware and terminates the server).
//
// Serve opens a fresh badger test datastore under $TMPDIR and then reads one JSON object per
// line on stdin   {"method":"POST","url":"/api/...","body":"<base64>"}
// and answers one per line on stdout {"status":200,"body":"<base64, first 4 KiB>","len":N}.
// {"method":"QUIT"} shuts the datastore down and exits 0.  DVID's own log output is discarded;
// the Go runtime's crash report ("panic: ..." / "fatal error: ...") goes to stderr.
//
// Client spawns such a child (the driver binary re-executed with DVCHILD=1, or the
// harness/cmd/dvchild binary) under `ulimit -v` and classifies each exchange.
package dvchild

import (
	"bufio"
	"bytes"
	"encoding/base64"
	"encoding/json"
	"fmt"
	"io"
	"os"
	"os/exec"
	"strconv"
	"strings"
	"sync"
	"time"

	"verif/harness/dv"
)

type Req struct {
	Method string `json:"method"`
	URL    string `json:"url"`
	Body   string `json:"body,omitempty"` // base64
}

type Resp struct {
	Status  int    `json:"status"`
	Body    string `json:"body"` // base64, truncated
	Len     int    `json:"len"`
	Timeout bool   `json:"timeout,omitempty"` // the handler did not return within the child's deadline
}

// how long the child waits for one handler before it reports a timeout and moves on (the
// handler's goroutine keeps running, as it would in a real server)
func childDeadline() time.Duration {
	if ms, err := strconv.Atoi(os.Getenv("DVCHILD_TIMEOUT_MS")); err == nil && ms > 0 {
		return time.Duration(ms) * time.Millisecond
	}
	return 8 * time.Second
}

const maxBody = 4096

// Serve is the child's main loop.
func Serve() {
	dv.Quiet()
	dv.Open()
	in := bufio.NewReaderSize(os.Stdin, 1<<20)
	out := bufio.NewWriter(os.Stdout)
	deadline := childDeadline()
	for {
		line, err := in.ReadBytes('\n')
		if len(line) > 0 {
			var q Req
			if jerr := json.Unmarshal(line, &q); jerr != nil {
				fmt.Fprintf(os.Stderr, "dvchild: bad request line: %v\n", jerr)
				os.Exit(3)
			}
			if q.Method == "QUIT" {
				dv.Close()
				os.Exit(0)
			}
			var body []byte
			if q.Body != "" {
				body, _ = base64.StdEncoding.DecodeString(q.Body)
			}
			if body == nil {
				body = []byte{} // a real server never hands a handler a nil Body
			}
			done := make(chan dv.Resp, 1)
			go func() { done <- dv.Do(q.Method, q.URL, body) }()
			var resp Resp
			select {
			case r := <-done:
				b := r.Body
				if len(b) > maxBody {
					b = b[:maxBody]
				}
				st := r.Status
				if r.Panic {
					st = 599 // a panic that escaped recoverHandler inside the request goroutine
				}
				resp = Resp{Status: st, Body: base64.StdEncoding.EncodeToString(b), Len: len(r.Body)}
			case <-time.After(deadline):
				resp = Resp{Timeout: true}
			}
			js, _ := json.Marshal(resp)
			out.Write(js)
			out.WriteByte('\n')
			out.Flush()
		}
		if err != nil {
			// parent went away
			os.Exit(0)
		}
	}
}

// ---- client side ----

// Outcome of one request as seen from outside the server process.
type Outcome struct {
	Class  string // "2xx" | "4xx" | "5xx-panic" | "5xx" | "timeout" (handler still running, child alive) | "dead" | "hang" (child silent) | "other"
	Status int
	Body   []byte
	Stderr string // crash report when the child died
}

type Client struct {
	cmd     *exec.Cmd
	stdin   io.WriteCloser
	lines   chan []byte
	errbuf  *safeBuf
	Timeout time.Duration
	dead    bool
}

type safeBuf struct {
	mu sync.Mutex
	b  bytes.Buffer
}

func (s *safeBuf) Write(p []byte) (int, error) {
	s.mu.Lock()
	defer s.mu.Unlock()
	if s.b.Len() < 1<<20 {
		s.b.Write(p)
	}
	return len(p), nil
}
func (s *safeBuf) String() string {
	s.mu.Lock()
	defer s.mu.Unlock()
	return s.b.String()
}

// Start launches a child. exe is the binary to run (normally os.Args[0]); vlimitKB bounds its
// address space (ulimit -v), 0 = unlimited.
func Start(exe string, vlimitKB int, timeout time.Duration) (*Client, error) {
	script := `exec "$0"`
	if vlimitKB > 0 {
		script = fmt.Sprintf(`ulimit -v %d; exec "$0"`, vlimitKB)
	}
	cmd := exec.Command("/bin/sh", "-c", script, exe)
	cmd.Env = append(os.Environ(), "DVCHILD=1")
	stdin, err := cmd.StdinPipe()
	if err != nil {
		return nil, err
	}
	stdout, err := cmd.StdoutPipe()
	if err != nil {
		return nil, err
	}
	eb := &safeBuf{}
	cmd.Stderr = eb
	if err := cmd.Start(); err != nil {
		return nil, err
	}
	c := &Client{cmd: cmd, stdin: stdin, lines: make(chan []byte, 4), errbuf: eb, Timeout: timeout}
	go func() {
		rd := bufio.NewReaderSize(stdout, 1<<20)
		for {
			l, err := rd.ReadBytes('\n')
			if len(l) > 0 && err == nil {
				c.lines <- l
			}
			if err != nil {
				close(c.lines)
				return
			}
		}
	}()
	return c, nil
}

// Dead reports whether the child is known to have terminated or been killed.
func (c *Client) Dead() bool { return c.dead }

// Stderr returns what the child wrote to stderr so far.
func (c *Client) Stderr() string { return c.errbuf.String() }

// Do sends one request and classifies what happened.
func (c *Client) Do(method, url string, body []byte) Outcome {
	if c.dead {
		return Outcome{Class: "dead", Stderr: c.crashReport()}
	}
	q := Req{Method: method, URL: url}
	if body != nil {
		q.Body = base64.StdEncoding.EncodeToString(body)
	}
	js, _ := json.Marshal(q)
	js = append(js, '\n')
	if _, err := c.stdin.Write(js); err != nil {
		c.reap()
		return Outcome{Class: "dead", Stderr: c.crashReport()}
	}
	select {
	case l, ok := <-c.lines:
		if !ok {
			c.reap()
			return Outcome{Class: "dead", Stderr: c.crashReport()}
		}
		var r Resp
		if err := json.Unmarshal(l, &r); err != nil {
			return Outcome{Class: "other", Body: l}
		}
		b, _ := base64.StdEncoding.DecodeString(r.Body)
		o := Outcome{Status: r.Status, Body: b}
		switch {
		case r.Timeout:
			o.Class = "timeout"
		case r.Status >= 200 && r.Status < 300:
			o.Class = "2xx"
		case r.Status >= 400 && r.Status < 500:
			o.Class = "4xx"
		case r.Status >= 500 && (strings.Contains(string(b), "Panic detected") || r.Status == 599):
			o.Class = "5xx-panic"
		case r.Status >= 500:
			o.Class = "5xx"
		default:
			o.Class = "other"
		}
		return o
	case <-time.After(c.Timeout):
		c.cmd.Process.Kill()
		c.reap()
		return Outcome{Class: "hang", Stderr: c.crashReport()}
	}
}

// Settle gives background goroutines of the previous request time to finish (or to crash the
// process) and reports whether the server still answers.
func (c *Client) Settle(d time.Duration) bool {
	time.Sleep(d)
	o := c.Do("GET", "/api/server/info", nil)
	return o.Class == "2xx"
}

func (c *Client) reap() {
	if c.dead {
		return
	}
	c.dead = true
	c.stdin.Close()
	done := make(chan struct{})
	go func() { c.cmd.Wait(); close(done) }()
	select {
	case <-done:
	case <-time.After(5 * time.Second):
		c.cmd.Process.Kill()
		<-done
	}
}

// crashReport extracts the first lines of the Go runtime's crash output.
func (c *Client) crashReport() string {
	s := c.errbuf.String()
	for _, key := range []string{"panic: ", "fatal error: "} {
		if i := strings.Index(s, key); i >= 0 {
			e := s[i:]
			if len(e) > 400 {
				e = e[:400]
			}
			return e
		}
	}
	if len(s) > 400 {
		s = s[len(s)-400:]
	}
	return s
}

// Kill terminates the child at once (used when one of its handlers is stuck).
func (c *Client) Kill() {
	if c.dead {
		return
	}
	c.cmd.Process.Kill()
	c.reap()
}

// Quit asks the child to shut down cleanly.
func (c *Client) Quit() {
	if c.dead {
		return
	}
	js, _ := json.Marshal(Req{Method: "QUIT"})
	c.stdin.Write(append(js, '\n'))
	c.reap()
}
