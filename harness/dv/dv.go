// Package dv: run the real DVID server code in-process for drivers that need a datastore:
// a badger-backed test datastore (under $TMPDIR, which check.py points at /verif/.scratch)
// and HTTP requests through server.ServeSingleHTTP.
package dv

import (
	"bytes"
	"encoding/json"
	"fmt"
	"io"
	"log"
	"net/http"
	"net/http/httptest"
	"strings"

	"github.com/janelia-flyem/dvid/datastore"
	"github.com/janelia-flyem/dvid/dvid"
	"github.com/janelia-flyem/dvid/server"

	// register every data type the pinned build compiles in
	_ "github.com/janelia-flyem/dvid/datatype/annotation"
	_ "github.com/janelia-flyem/dvid/datatype/imageblk"
	_ "github.com/janelia-flyem/dvid/datatype/keyvalue"
	_ "github.com/janelia-flyem/dvid/datatype/labelmap"
	_ "github.com/janelia-flyem/dvid/datatype/labelsz"
	_ "github.com/janelia-flyem/dvid/datatype/neuronjson"
	_ "github.com/janelia-flyem/dvid/datatype/roi"
)

// Quiet lowers DVID's log level so that drivers' stdout stays readable.
func Quiet() {
	dvid.SetLogMode(dvid.CriticalMode)
	log.SetOutput(io.Discard)
}

// Open creates a fresh test datastore (badger) and initialises the repo manager.
func Open() { datastore.OpenTest() }

// Close shuts the datastore down and deletes its directories.
func Close() { datastore.CloseTest() }

// Resp is an HTTP response from the in-process server.
type Resp struct {
	Status int
	Body   []byte
	Panic  bool // the handler goroutine panicked past recoverHandler (should never happen)
}

// Class maps a response to the small enum compared with the models.
func (r Resp) Class() string {
	switch {
	case r.Panic:
		return "panic"
	case r.Status >= 200 && r.Status < 300:
		return "ok"
	case r.Status == 404:
		return "notfound"
	case r.Status >= 400 && r.Status < 500:
		return "client"
	case r.Status >= 500 && strings.Contains(string(r.Body), "Panic detected"):
		return "panic"
	default:
		return "server"
	}
}

// Do issues one request against the real router.
func Do(method, url string, body []byte) (resp Resp) {
	var rd io.Reader
	if body != nil {
		rd = bytes.NewReader(body)
	}
	req, err := http.NewRequest(method, url, rd)
	if err != nil {
		return Resp{Status: 400, Body: []byte(err.Error())}
	}
	w := httptest.NewRecorder()
	func() {
		defer func() {
			if e := recover(); e != nil {
				resp = Resp{Status: 500, Body: []byte(fmt.Sprint(e)), Panic: true}
			}
		}()
		server.ServeSingleHTTP(w, req)
		resp = Resp{Status: w.Code, Body: w.Body.Bytes()}
	}()
	return
}

func Get(url string) Resp                 { return Do("GET", url, nil) }
func Post(url string, body []byte) Resp   { return Do("POST", url, body) }
func Delete(url string) Resp              { return Do("DELETE", url, nil) }
func PostJSON(url string, v interface{}) Resp {
	b, _ := json.Marshal(v)
	return Do("POST", url, b)
}

// NewRepo creates a repo over HTTP and returns its root uuid.
func NewRepo(alias string) (string, error) {
	r := PostJSON("/api/repos", map[string]string{"alias": alias, "description": "verif"})
	if r.Status != 200 {
		return "", fmt.Errorf("new repo: %d %s", r.Status, r.Body)
	}
	var m struct{ Root string }
	if err := json.Unmarshal(r.Body, &m); err != nil {
		return "", err
	}
	return m.Root, nil
}

// NewInstance creates a data instance of the given type.
func NewInstance(uuid, typename, name string, extra map[string]string) error {
	m := map[string]string{"typename": typename, "dataname": name}
	for k, v := range extra {
		m[k] = v
	}
	r := PostJSON("/api/repo/"+uuid+"/instance", m)
	if r.Status != 200 {
		return fmt.Errorf("new instance %s/%s: %d %s", typename, name, r.Status, r.Body)
	}
	return nil
}

// Commit locks a node.
func Commit(uuid string) Resp {
	return PostJSON("/api/node/"+uuid+"/commit", map[string]interface{}{"note": "c"})
}

// NewVersion creates a child of a committed node (same branch) and returns its uuid.
func NewVersion(uuid string) (string, Resp) {
	r := PostJSON("/api/node/"+uuid+"/newversion", map[string]string{"note": "v"})
	return childOf(r), r
}

// Branch creates a child on a new branch.
func Branch(uuid, branch string) (string, Resp) {
	r := PostJSON("/api/node/"+uuid+"/branch", map[string]string{"branch": branch, "note": "b"})
	return childOf(r), r
}

// Merge creates a merge node of the given (committed) parents.
func Merge(parents []string) (string, Resp) {
	r := PostJSON("/api/repo/"+parents[0]+"/merge", map[string]interface{}{"mergeType": "conflict-free", "parents": parents, "note": "m"})
	return childOf(r), r
}

func childOf(r Resp) string {
	var m struct{ Child string }
	json.Unmarshal(r.Body, &m)
	return m.Child
}
