// Driver C20: no request crashes the server; malformed ones are rejected harmlessly.
//
//   - package level, in process (volume): labels.Block.UnmarshalBinary (+Validate when the
//     repaired code is present) and the views MakeLabelVolume / CalcNumLabels / GetPointLabels on
//     byte-level mutations of small valid blocks; dvid.ReadRLEs on mutated sparse volumes;
//   - end to end, in a CHILD process (this binary re-executed with DVCHILD=1, under ulimit -v):
//     valid and mutated payloads for every ingestion / mutation endpoint and hostile URLs; the
//     driver observes the status class, the death of the process (EOF on the pipe), a hang
//     (deadline), and re-reads untouched data after every request.
package main

import (
	"bytes"
	"crypto/sha1"
	"encoding/binary"
	"encoding/hex"
	"encoding/json"
	"fmt"
	"os"
	"strings"
	"time"

	pb "google.golang.org/protobuf/proto"

	"github.com/janelia-flyem/dvid/datatype/common/labels"
	"github.com/janelia-flyem/dvid/datatype/common/proto"
	"github.com/janelia-flyem/dvid/dvid"
	"verif/harness/dv"
	"verif/harness/dvchild"
	"verif/harness/lib"
)

// ---- mutations (mirrors Model/ParseRun.v) ----

type mut struct {
	Op   string `json:"op"` // none | trunc | byte | u32 | append
	N    int    `json:"n,omitempty"`
	Pos  int    `json:"pos,omitempty"`
	V    uint64 `json:"v,omitempty"`
	Tail []byte `json:"tail,omitempty"`
}

func (m mut) apply(b []byte) []byte {
	out := append([]byte{}, b...)
	switch m.Op {
	case "trunc":
		if m.N < len(out) {
			out = out[:m.N]
		}
	case "byte":
		if m.Pos < len(out) {
			out[m.Pos] = byte(m.V)
		}
	case "u32":
		if m.Pos+4 <= len(out) {
			binary.LittleEndian.PutUint32(out[m.Pos:], uint32(m.V))
		}
	case "append":
		out = append(out, m.Tail...)
	}
	return out
}

func (m mut) coq() string {
	switch m.Op {
	case "trunc":
		return fmt.Sprintf("(MTrunc %d)", m.N)
	case "byte":
		return fmt.Sprintf("(MSetByte %d %d)", m.Pos, m.V&0xff)
	case "u32":
		return fmt.Sprintf("(MSetU32 %d %d)", m.Pos, m.V&0xffffffff)
	case "append":
		return fmt.Sprintf("(MAppend %s)", lib.CoqBytes(m.Tail))
	}
	return "MNone"
}

// ---- cases ----

type step struct {
	Method string `json:"method"`
	URL    string `json:"url"` // relative to /api/node/<uuid>
	Body   []byte `json:"body,omitempty"`
}

type aelem struct {
	Pos  int   `json:"pos"`  // x coordinate inside the test block (y = z = block base)
	Tags []int `json:"tags"` // tag numbers
}

type jcase struct {
	Kind     string  `json:"kind"` // block | sparse | blockreq | elements | req
	Name     string  `json:"name,omitempty"`
	Base     int     `json:"base"`
	Mut      mut     `json:"mut"`
	Indexing bool    `json:"indexing,omitempty"`
	Ingest   bool    `json:"ingest,omitempty"` // blockreq through ingest-supervoxels
	Pre      []step  `json:"pre,omitempty"`
	Main     *step   `json:"main,omitempty"`
	Probe    *step   `json:"probe,omitempty"`
	Fam      int     `json:"fam,omitempty"`
	Expect   int     `json:"expect,omitempty"`
	NewE     []aelem `json:"new,omitempty"`
	Cur      []aelem `json:"cur,omitempty"`
	Slot     int     `json:"slot,omitempty"` // elements: which annotation block the case uses
	Hist     int     `json:"hist,omitempty"` // number of the multi-step history the case belongs to
	InProc   string  `json:"inproc,omitempty"` // package-level operation run in process (see runInProc)
	Args     []int   `json:"args,omitempty"`
	preDone  bool    // the Pre steps already ran as earlier cases of this run (they run again on replay)
}

const (
	eWell = 0
	eMal  = 1
	eUnk  = 2
)

var famNames = map[int]string{1: "stream", 2: "sparse", 3: "index", 4: "indices", 5: "mappings", 6: "annotation",
	7: "roi", 8: "keyvalue", 9: "neuronjson", 10: "url", 11: "raw", 12: "follow-up", 13: "annotation-tag-swap",
	14: "package-level", 15: "labelmap-mutation", 16: "json-type-confusion", 17: "block-shape"}

var bases [][]byte
var baseNames []string

func addBase(name string, b []byte) int {
	bases = append(bases, b)
	baseNames = append(baseNames, name)
	return len(bases) - 1
}

func cls(p bool, err error) string {
	if p {
		return "panic"
	}
	if err != nil {
		return "err"
	}
	return "ok"
}

func coqClass(c string) string {
	switch c {
	case "ok":
		return "OOk"
	case "err":
		return "OErr"
	}
	return "OPanic"
}

// sample points of GetPointLabels: offsets 0, 73, 255, 511 of each sub-block of a 16^3 block
func samplePoints() []dvid.Point3d {
	var pts []dvid.Point3d
	for _, s := range [][3]int32{{0, 0, 0}, {1, 0, 0}, {0, 1, 0}, {1, 1, 0}, {0, 0, 1}, {1, 0, 1}, {0, 1, 1}, {1, 1, 1}} {
		for _, o := range []int32{0, 73, 255, 511} {
			x, y, z := o%8, (o/8)%8, o/64
			pts = append(pts, dvid.Point3d{s[0]*8 + x, s[1]*8 + y, s[2]*8 + z})
		}
	}
	return pts
}

type validator interface{ Validate() error }

// runBlock executes the real parser and views in process.
func runBlock(data []byte) (parse, ingest, vol, calc, pt string) {
	var b labels.Block
	var err error
	p, _ := lib.Recover(func() { err = b.UnmarshalBinary(data) })
	parse = cls(p, err)
	ingest = parse
	vol, calc, pt = "ok", "ok", "ok"
	if parse != "ok" {
		return
	}
	if v, ok := interface{}(&b).(validator); ok {
		var verr error
		p, _ = lib.Recover(func() { verr = v.Validate() })
		ingest = cls(p, verr)
	}
	if ingest != "ok" {
		return
	}
	if int64(b.Size[0])*int64(b.Size[1])*int64(b.Size[2]) > 1<<24 {
		return // never expand hostile sizes in the harness (cannot happen for accepted short inputs)
	}
	p, _ = lib.Recover(func() { b.MakeLabelVolume() })
	vol = cls(p, nil)
	p, _ = lib.Recover(func() { b.CalcNumLabels(nil) })
	calc = cls(p, nil)
	p, _ = lib.Recover(func() { b.GetPointLabels(samplePoints()) })
	pt = cls(p, nil)
	return
}

func addBlock(run *lib.Run, kind string, base int, m mut) {
	data := m.apply(bases[base])
	parse, ingest, vol, calc, pt := runBlock(data)
	term := fmt.Sprintf("CBlock %d %s %s %s %s %s %s", base, m.coq(), coqClass(parse), coqClass(ingest), coqClass(vol), coqClass(calc), coqClass(pt))
	run.Count("block-parse:" + parse)
	if parse == "ok" {
		run.Count("block-ingest:" + ingest)
		if ingest == "ok" {
			run.Count("block-views:" + vol + "/" + calc + "/" + pt)
		}
	}
	run.Add(kind, term, jcase{Kind: "block", Base: base, Mut: m}, fmt.Sprintf("block/%d/%s", base, m.coq()))
}

func runSparse(body []byte) (string, int) {
	var rles dvid.RLEs
	var err error
	p, _ := lib.Recover(func() { rles, err = dvid.ReadRLEs(bytes.NewReader(body)) })
	return cls(p, err), len(rles)
}

func addSparse(run *lib.Run, kind string, base int, m mut) {
	body := m.apply(bases[base])
	if len(body) >= 12 && binary.LittleEndian.Uint32(body[8:12]) > 1<<20 {
		run.Count("skipped:sparse-count-above-2^20-in-process")
		return
	}
	c, n := runSparse(body)
	if c != "ok" {
		n = 0
	}
	run.Count("sparse:" + c)
	run.Add(kind, fmt.Sprintf("CSparse %d %s %s %d", base, m.coq(), coqClass(c), n), jcase{Kind: "sparse", Base: base, Mut: m}, fmt.Sprintf("sparse/%d/%s", base, m.coq()))
}

// ---- child process ----

type server struct {
	c        *dvchild.Client
	uuid     string
	sentinel string
	starts   int
	deaths   int
	panics   int // "Panic detected" reports seen on the child's stderr
	light      bool
	lightCount int
}

var srv server

const vlimitKB = 8 << 20 // ulimit -v for the child: 8 GiB of address space (badger maps its files)

func (s *server) start() {
	var err error
	s.c, err = dvchild.Start(os.Args[0], vlimitKB, 10*time.Second)
	if err != nil {
		fmt.Fprintln(os.Stderr, "cannot start child:", err)
		os.Exit(2)
	}
	s.starts++
	o := s.c.Do("POST", "/api/repos", []byte(`{"alias":"r","description":"d"}`))
	var m struct{ Root string }
	json.Unmarshal(o.Body, &m)
	s.uuid = m.Root
	if s.uuid == "" {
		fmt.Fprintf(os.Stderr, "child did not create a repo: %s %q\nstderr: %s\n", o.Class, o.Body, s.c.Stderr())
		os.Exit(2)
	}
	inst := func(typ, name string, extra map[string]string) {
		mm := map[string]string{"typename": typ, "dataname": name}
		for k, v := range extra {
			mm[k] = v
		}
		o := s.c.Do("POST", "/api/repo/"+s.uuid+"/instance", mustJSON(mm))
		if o.Class != "2xx" {
			fmt.Fprintf(os.Stderr, "setup: instance %s: %s %q\n", name, o.Class, o.Body)
			os.Exit(2)
		}
	}
	inst("labelmap", "lm", map[string]string{"BlockSize": "16,16,16"})
	inst("labelmap", "lmsafe", map[string]string{"BlockSize": "16,16,16"})
	inst("labelmap", "lm2", map[string]string{"BlockSize": "16,16,16"}) // only well-formed mutations go here
	inst("keyvalue", "kv", nil)
	inst("keyvalue", "kvsafe", nil)
	inst("annotation", "ann", nil)
	inst("neuronjson", "nj", nil)
	inst("roi", "roi", nil)
	inst("uint8blk", "img", map[string]string{"BlockSize": "16,16,16"})
	three := sampleBlocks()["three"]
	must := func(st step) {
		o := s.do(st)
		if o.Class != "2xx" {
			fmt.Fprintf(os.Stderr, "setup: %s %s: %s %d %q\n", st.Method, st.URL, o.Class, o.Status, o.Body)
			os.Exit(2)
		}
	}
	must(step{"POST", "/lmsafe/blocks", frame(0, 0, 0, gz(three))})
	must(step{"POST", "/kvsafe/key/s", []byte("sentinel value")})
	must(step{"POST", "/lm/blocks", frame(0, 0, 0, gz(three))})
	must(step{"POST", "/lm2/blocks", frame(0, 0, 0, gz(three))})
	// a second stored block next to the first (lists of stored blocks: listURLCases)
	must(step{"POST", "/lm/blocks", frame(1, 0, 0, gz(three))})
	must(step{"POST", "/lm/index/20", marshalIndex(protoIndex(20, map[uint64]map[uint64]uint32{blockKey(5, 5, 5): {20: 100}}))})
	must(step{"POST", "/lm/mappings", marshalMappings(&proto.MappingOp{Mutid: 1, Mapped: 50, Original: []uint64{51, 52}})})
	must(step{"POST", "/roi/roi", []byte(`[[1,1,1,3],[1,2,1,3]]`)})
	must(step{"POST", "/kv/key/a", []byte("hello")})
	must(step{"POST", "/img/raw/0_1_2/16_16_16/0_0_0", bytes.Repeat([]byte{7}, 16*16*16)})
	must(step{"POST", "/img/raw/0_1_2/16_16_16/16_0_0", bytes.Repeat([]byte{9}, 16*16*16)})
	// labelmap with down-resolution levels (POST blocks?downres=true) and one for mutation histories
	inst("labelmap", "lmd", map[string]string{"BlockSize": "16,16,16", "MaxDownresLevel": "2"})
	inst("labelmap", "lmm", map[string]string{"BlockSize": "16,16,16"})
	inst("annotation", "anns", nil) // annotations synced with the labels of lm2
	must(step{"POST", "/anns/sync", []byte(`{"sync":"lm2"}`)})
	must(step{"POST", "/ann/elements", elemsJSON(el(5, 5, 5, "Note", "seed"))})
	must(step{"POST", "/nj/key/1000?u=tester", []byte(`{"bodyid":1000,"a":1}`)})
	s.sentinel = s.readSentinel()
}

func (s *server) do(st step) dvchild.Outcome {
	return s.c.Do(st.Method, "/api/node/"+s.uuid+st.URL, st.Body)
}

func digest(o dvchild.Outcome) string {
	h := sha1.Sum(o.Body)
	return fmt.Sprintf("%s/%d/%s", o.Class, o.Status, hex.EncodeToString(h[:8]))
}

func (s *server) readSentinel() string {
	a := s.do(step{"GET", "/kvsafe/key/s", nil})
	b := s.do(step{"GET", "/lmsafe/raw/0_1_2/16_16_16/0_0_0", nil})
	c := s.do(step{"GET", "/lmsafe/sparsevol-size/1", nil})
	return digest(a) + "|" + digest(b) + "|" + digest(c)
}

func (s *server) ensure() {
	if s.c == nil || s.c.Dead() {
		if s.c != nil {
			s.panics += strings.Count(s.c.Stderr(), "Panic detected")
		}
		s.start()
	}
}

func obsCode(class string) int {
	switch class {
	case "2xx":
		return 0
	case "4xx":
		return 1
	case "5xx-panic":
		return 2
	case "5xx", "other":
		return 3
	case "dead":
		return 4
	case "timeout":
		return 6
	}
	return 5
}

type result struct {
	obs      int
	sentinel bool
	named    bool
	detail   string
	status   int
	body     string
}

// runScript runs pre steps, the probe, the main step, the probe again and the sentinel reads.
func (s *server) runScript(pre []step, main step, probe *step) result {
	s.ensure()
	for _, p := range pre {
		s.do(p)
		if s.c.Dead() {
			s.deaths++
			s.ensure()
		}
	}
	var before string
	if probe != nil {
		before = digest(s.do(*probe))
	}
	t0 := time.Now()
	o := s.do(main)
	if d := time.Since(t0); d > time.Second {
		slowRequests = append(slowRequests, fmt.Sprintf("%s %s: %.1fs", main.Method, main.URL, d.Seconds()))
	}
	// a response body containing the recovery message counts as a recovered panic whatever the status
	if o.Class == "2xx" && bytes.Contains(o.Body, []byte("Panic detected")) {
		o.Class = "5xx-panic"
	}
	r := result{obs: obsCode(o.Class), sentinel: true, named: true, status: o.Status, body: string(o.Body)}
	if len(r.body) > 160 {
		r.body = r.body[:160]
	}
	if o.Class == "dead" || o.Class == "hang" {
		s.deaths++
		r.detail = o.Stderr
		return r
	}
	// work the request left to goroutines must not bring the process down either, and a
	// request that does not return must not keep the server from answering others
	if !s.c.Settle(5 * time.Millisecond) {
		s.deaths++
		if s.c.Dead() && o.Class != "timeout" {
			r.obs = obsCode("dead")
		} else {
			r.obs = obsCode("hang")
		}
		return r
	}
	if o.Class == "timeout" {
		// the handler's goroutine is still running; later cases get a fresh server
		s.deaths++
		s.c.Kill()
		return r
	}
	if probe != nil && o.Class == "4xx" {
		r.named = digest(s.do(*probe)) == before
	}
	// the server-wide throttle slot must be free again: a well-formed throttled request is served
	t := s.do(step{"GET", "/lmsafe/blocks/16_16_16/0_0_0?throttle=on", nil})
	for try := 0; try < 3 && t.Status == 503; try++ { // not merely a handler that is still finishing
		time.Sleep(100 * time.Millisecond)
		t = s.do(step{"GET", "/lmsafe/blocks/16_16_16/0_0_0?throttle=on", nil})
	}
	if t.Status == 503 {
		r.obs = 7
		r.detail = "afterwards GET lmsafe/blocks?throttle=on -> 503: " + string(t.Body)
		s.deaths++
		s.c.Kill()
		return r
	}
	// (quick tier: after a hostile URL or type-confused JSON body that was answered 4xx the
	// untouched data is re-read every fourth time only; a change still shows at the next re-read)
	s.lightCount++
	if s.light && o.Class == "4xx" && s.lightCount%4 != 0 {
		return r
	}
	r.sentinel = s.readSentinel() == s.sentinel
	if s.c.Dead() {
		r.obs = obsCode("dead")
		s.deaths++
	}
	return r
}

var slowRequests []string
var thoroughTier bool

// server generation (number of starts) on which the current multi-step history began
var historyEpoch int

var obsNames = []string{"2xx", "4xx", "5xx-panic", "5xx", "dead", "hang", "no-answer-but-alive", "throttle-slot-kept"}

// histories in which a step killed or wedged the server: their later steps are skipped (each
// would have to replay the wedging step first)
var brokenHistories = map[int]bool{}

func addReq(run *lib.Run, c jcase) {
	if c.preDone && brokenHistories[c.Hist] {
		run.Count("skipped:later-steps-of-a-history-that-wedged-or-killed-the-server")
		return
	}
	srv.light = !thoroughTier && (c.Fam == 10 || c.Fam == 16)
	pre := c.Pre
	if c.preDone && srv.c != nil && !srv.c.Dead() && srv.starts == historyEpoch {
		pre = nil // the history's earlier steps ran as the preceding cases, on this very server
	}
	r := srv.runScript(pre, *c.Main, c.Probe)
	if c.preDone {
		historyEpoch = srv.starts // the history's state now exists on this server (if it is still alive)
	}
	run.Count(fmt.Sprintf("req:%s:%s:%s", famNames[c.Fam], []string{"well-formed", "malformed", "unknown"}[c.Expect], obsNames[r.obs]))
	if !r.sentinel {
		run.Count("sentinel-changed")
	}
	if !r.named {
		run.Count("rejected-but-changed:" + famNames[c.Fam])
	}
	if r.detail != "" {
		run.Notes = append(run.Notes, fmt.Sprintf("%s: %s %s: %s: %.200s", c.Name, c.Main.Method, c.Main.URL, obsNames[r.obs], r.detail))
	} else if r.obs >= 2 || (c.Expect == eWell && r.obs != 0 && c.Fam != 12) || !r.named || !r.sentinel {
		run.Notes = append(run.Notes, fmt.Sprintf("%s: %s %s: %s %d sentinel=%v named=%v: %q", c.Name, c.Main.Method, c.Main.URL, obsNames[r.obs], r.status, r.sentinel, r.named, r.body))
	}
	c.Kind = "req"
	term := fmt.Sprintf("CReq %d %d %d %s %s", c.Fam, c.Expect, r.obs, lib.CoqBool(r.sentinel), lib.CoqBool(r.named))
	if r.sentinel && r.named {
		term = fmt.Sprintf("R %d %d %d", c.Fam, c.Expect, r.obs)
	}
	if c.preDone && r.obs >= 4 {
		brokenHistories[c.Hist] = true
	}
	run.Add("req-"+famNames[c.Fam], term, c,
		fmt.Sprintf("req/%s/%s/%x", c.Main.Method, c.Main.URL, sha1.Sum(c.Main.Body)))
}

func addBlockReq(run *lib.Run, c jcase) {
	raw := c.Mut.apply(bases[c.Base])
	url := "/lm/blocks"
	if c.Ingest {
		url = "/lm/ingest-supervoxels"
	} else if !c.Indexing {
		url += "?noindexing=true"
	}
	main := step{"POST", url, frame(3, 0, 0, gz(raw))}
	r := srv.runScript(nil, main, nil)
	run.Count(fmt.Sprintf("blockreq:indexing=%v:%s", c.Indexing, obsNames[r.obs]))
	if r.detail != "" {
		run.Notes = append(run.Notes, fmt.Sprintf("POST blocks base=%s %s: %s: %.200s", baseNames[c.Base], c.Mut.coq(), obsNames[r.obs], r.detail))
	}
	c.Kind = "blockreq"
	run.Add("blockreq", fmt.Sprintf("CBlockReq %d %s %s %d %s", c.Base, c.Mut.coq(), lib.CoqBool(c.Indexing), r.obs, lib.CoqBool(r.sentinel)), c,
		fmt.Sprintf("blockreq/%d/%s/%v/%v", c.Base, c.Mut.coq(), c.Indexing, c.Ingest))
	if r.obs == 0 {
		// well-formed reads of what was just accepted
		for _, u := range []string{"/lm/raw/0_1_2/16_16_16/48_0_0", "/lm/label/50_3_3", "/lm/blocks/16_16_16/48_0_0", "/lm/labels"} {
			var body []byte
			if u == "/lm/labels" {
				body = []byte(`[[57,1,1],[49,1,1],[63,7,7]]`) // GetPointLabels in both sub-blocks along x
			}
			f := jcase{Name: "read after accepted block", Fam: 12, Expect: eWell, Main: &step{"GET", u, body},
				Pre: []step{main}}
			rr := srv.runScript(nil, *f.Main, nil)
			run.Count(fmt.Sprintf("req:follow-up:well-formed:%s", obsNames[rr.obs]))
			f.Kind = "req"
			run.Add("req-follow-up", fmt.Sprintf("CReq 12 0 %d %s true", rr.obs, lib.CoqBool(rr.sentinel)), f,
				fmt.Sprintf("follow/%d/%s/%s", c.Base, c.Mut.coq(), u))
		}
	}
}

func coqElems(es []aelem) string {
	var ss []string
	for _, e := range es {
		var ts []uint64
		for _, t := range e.Tags {
			ts = append(ts, uint64(t))
		}
		ss = append(ss, fmt.Sprintf("{| a_pos := %d; a_tags := %s |}", e.Pos, lib.CoqNList(ts)))
	}
	return "[" + strings.Join(ss, "; ") + "]"
}

func elemsBody(slot int, es []aelem) []byte {
	var l []elem
	for _, e := range es {
		var tags []string
		for _, t := range e.Tags {
			tags = append(tags, fmt.Sprintf("T%d_%d", slot, t))
		}
		l = append(l, el(int32(e.Pos), 1, int32(64*slot+1), "Note", tags...))
	}
	return elemsJSON(l...)
}

// addElements: stored elements Cur are posted into an empty annotation block (slot), then NewE
// is posted; all positions lie in that one block.
func addElements(run *lib.Run, c jcase) {
	pre := []step{}
	if len(c.Cur) > 0 {
		pre = append(pre, step{"POST", "/ann/elements", elemsBody(c.Slot, c.Cur)})
	}
	main := step{"POST", "/ann/elements", elemsBody(c.Slot, c.NewE)}
	r := srv.runScript(pre, main, nil)
	run.Count("elements:" + obsNames[r.obs])
	c.Kind = "elements"
	b, _ := json.Marshal(c)
	run.Add("elements", fmt.Sprintf("CElements %s %s %d %s", coqElems(c.NewE), coqElems(c.Cur), r.obs, lib.CoqBool(r.sentinel)), c, "elements/"+string(b))
}

func main() {
	if os.Getenv("DVCHILD") == "1" {
		dvchild.Serve()
		return
	}
	o := lib.ParseOpts()
	rng := lib.NewRand(o.Seed)
	run := lib.NewRun("C20", o)
	dv.Quiet() // the in-process part logs through DVID's logger too
	thoroughTier = o.Thorough()

	// base payloads
	sb := sampleBlocks()
	var blockBases []int
	for _, n := range []string{"three", "two-halves", "five-in-one-subblock", "with-zero", "solid"} {
		blockBases = append(blockBases, addBase("block:"+n, sb[n]))
	}
	wit := witnessBlocks()
	var witBases []int
	for _, n := range []string{"w_inflated_labels", "w_zero_dim", "w_index_outside", "w_no_values", "w_packed_value", "w_small_valid", "w_many_labels"} {
		witBases = append(witBases, addBase("block:"+n, wit[n]))
	}
	sparseA := addBase("sparse:3-spans", rleBody([]span{{0, 1, 1, 4}, {0, 2, 1, 4}, {2, 3, 1, 2}}, 3))
	sparseB := addBase("sparse:empty", rleBody(nil, 0))

	var hdr []string
	hdr = append(hdr, "From Coq Require Import String.", "From DV Require Import Base.Prelude Model.Parse Model.ParseRun.",
		"Local Open Scope list_scope.", "Local Open Scope N_scope.")
	run.Header(hdr...)
	finish := func(rule string) {
		var bs []string
		for _, b := range bases {
			bs = append(bs, fmt.Sprintf("hx \"%s\"%%string", hex.EncodeToString(b)))
		}
		run.Header("Definition bases : list bytes := [\n  " + strings.Join(bs, ";\n  ") + "].")
		run.Extra["child_starts"] = srv.starts
		run.Extra["child_deaths_or_hangs"] = srv.deaths
		run.Extra["bases"] = baseNames
		if srv.c != nil {
			srv.panics += strings.Count(srv.c.Stderr(), "Panic detected")
			srv.c.Quit()
		}
		run.Extra["panic_reports_on_child_stderr"] = srv.panics
		run.Extra["requests_slower_than_1s"] = slowRequests
		run.Finish("c20case", rule, tail)
	}

	if o.Replay != "" {
		var c jcase
		if err := lib.LoadReplay(o.Replay, &c); err != nil {
			fmt.Fprintln(os.Stderr, err)
			os.Exit(2)
		}
		switch c.Kind {
		case "block":
			addBlock(run, "replay", c.Base, c.Mut)
		case "sparse":
			addSparse(run, "replay", c.Base, c.Mut)
		case "blockreq":
			addBlockReq(run, c)
		case "elements":
			addElements(run, c)
		case "inproc":
			addInProc(run, c)
		default:
			addReq(run, c)
		}
		finish("replay")
		return
	}

	// ---------- package level ----------
	for _, b := range witBases {
		addBlock(run, "block-corpus", b, mut{Op: "none"})
	}
	hostileU32 := []uint64{0, 1, 2, 3, 4, 127, 128, 129, 1 << 16, 1 << 29, 1<<29 + 1, 1<<29 + 3, 1 << 30, 1<<30 + 1, 0xFFFFFFFF}
	nTruncBases, nFlips := 3, 250
	if o.Thorough() {
		nTruncBases, nFlips = len(blockBases), 6000
	}
	for bi, b := range blockBases {
		data := bases[b]
		addBlock(run, "block-valid", b, mut{Op: "none"})
		if bi < nTruncBases {
			for n := 0; n < len(data); n++ {
				addBlock(run, "block-truncate", b, mut{Op: "trunc", N: n})
			}
		} else {
			for n := 0; n < len(data); n += 7 {
				addBlock(run, "block-truncate", b, mut{Op: "trunc", N: n})
			}
		}
		// header fields: gx gy gz numLabels
		for f := 0; f < 4; f++ {
			for _, v := range hostileU32 {
				addBlock(run, "block-header", b, mut{Op: "u32", Pos: 4 * f, V: v})
			}
		}
		nl := int(binary.LittleEndian.Uint32(data[12:]))
		if nl > 1 {
			pos := 16 + 8*nl
			// per-sub-block label counts (uint16 x 8)
			for sbk := 0; sbk < 8; sbk++ {
				for _, v := range []uint64{0, 1, 2, 3, 4, 5, 255} {
					addBlock(run, "block-counts", b, mut{Op: "byte", Pos: pos + 2*sbk, V: v})
				}
				addBlock(run, "block-counts", b, mut{Op: "byte", Pos: pos + 2*sbk + 1, V: 2}) // 512 + n
				addBlock(run, "block-counts", b, mut{Op: "byte", Pos: pos + 2*sbk + 1, V: 1}) // 256 + n
			}
			// sub-block indices
			nidx := 0
			for sbk := 0; sbk < 8; sbk++ {
				nidx += int(binary.LittleEndian.Uint16(data[pos+2*sbk:]))
			}
			for i := 0; i < nidx; i++ {
				for _, v := range []uint64{uint64(nl), uint64(nl - 1), 77, 0xFFFFFFFF} {
					addBlock(run, "block-index", b, mut{Op: "u32", Pos: pos + 16 + 4*i, V: v})
				}
			}
			// packed values
			vpos := pos + 16 + 4*nidx
			for k := 0; k < 24 && vpos < len(data); k++ {
				addBlock(run, "block-values", b, mut{Op: "byte", Pos: vpos + rng.Intn(len(data)-vpos), V: uint64(rng.Pick(0, 0xff, 0x55, 0xaa, 0x0f, 0x3f))})
			}
			addBlock(run, "block-values", b, mut{Op: "append", Tail: []byte{1, 2, 3}})
		}
	}
	for i := 0; i < nFlips; i++ {
		b := blockBases[rng.Intn(len(blockBases))]
		pos := rng.Intn(len(bases[b]))
		if rng.Chance(0.6) {
			pos = rng.Intn(100) % len(bases[b]) // header, label table, counts, indices
		}
		addBlock(run, "block-bitflip", b, mut{Op: "byte", Pos: pos, V: uint64(bases[b][pos] ^ (1 << uint(rng.Intn(8))))})
	}
	// sparse volumes
	for _, b := range []int{sparseA, sparseB} {
		addSparse(run, "sparse-valid", b, mut{Op: "none"})
		for n := 0; n < len(bases[b]); n++ {
			addSparse(run, "sparse-truncate", b, mut{Op: "trunc", N: n})
		}
		for _, v := range []uint64{0, 1, 2, 3, 4, 5, 1000, 1 << 20} {
			addSparse(run, "sparse-count", b, mut{Op: "u32", Pos: 8, V: v})
		}
		addSparse(run, "sparse-header", b, mut{Op: "byte", Pos: 0, V: 1})
		addSparse(run, "sparse-header", b, mut{Op: "byte", Pos: 0, V: 255})
		addSparse(run, "sparse-tail", b, mut{Op: "append", Tail: []byte{9, 9, 9}})
	}

	// ---------- end to end, child process ----------
	three, halves := blockBases[0], blockBases[1]
	nlThree := 3
	posThree := 16 + 8*nlThree
	blockReqs := []jcase{
		{Base: three, Mut: mut{Op: "none"}, Indexing: true},
		{Base: halves, Mut: mut{Op: "none"}, Indexing: false},
		{Base: blockBases[4], Mut: mut{Op: "none"}, Indexing: true},
		{Base: three, Mut: mut{Op: "none"}, Ingest: true},
		{Base: three, Mut: mut{Op: "u32", Pos: 12, V: 1000}, Indexing: true},             // inflated numLabels
		{Base: three, Mut: mut{Op: "u32", Pos: 0, V: 0}, Indexing: true},                  // zero sub-block dimension
		{Base: three, Mut: mut{Op: "u32", Pos: posThree + 16, V: 77}, Indexing: false},   // index outside the table, no indexing
		{Base: three, Mut: mut{Op: "u32", Pos: posThree + 16, V: 77}, Ingest: true},      // ... through ingest-supervoxels
		{Base: three, Mut: mut{Op: "u32", Pos: posThree + 16, V: 77}, Indexing: true},    // ... with indexing: background goroutine
		{Base: three, Mut: mut{Op: "trunc", N: 150}, Indexing: true},                      // truncated packed values
		{Base: three, Mut: mut{Op: "trunc", N: 60}, Indexing: true},                       // truncated indices
		{Base: three, Mut: mut{Op: "byte", Pos: posThree + 1, V: 3}, Indexing: true},     // 770 labels in one sub-block
		{Base: witBases[4], Mut: mut{Op: "none"}, Indexing: false},                        // packed value beyond the sub-block's labels
		{Base: witBases[2], Mut: mut{Op: "none"}, Indexing: true},
		{Base: witBases[3], Mut: mut{Op: "none"}, Indexing: true},
		{Base: witBases[5], Mut: mut{Op: "none"}, Indexing: true},
		{Base: witBases[6], Mut: mut{Op: "none"}, Indexing: true},
	}
	if o.Thorough() {
		for i := 0; i < 40; i++ {
			b := blockBases[rng.Intn(4)]
			pos := rng.Intn(100) % len(bases[b])
			blockReqs = append(blockReqs, jcase{Base: b, Mut: mut{Op: "byte", Pos: pos, V: uint64(bases[b][pos] ^ (1 << uint(rng.Intn(8))))}, Indexing: rng.Bool()})
		}
	}
	for _, c := range blockReqs {
		addBlockReq(run, c)
	}
	for _, c := range requestCases(rng, o.Thorough()) {
		// every death or hang costs a deadline and a restart: once the verdict is beyond doubt
		// the remaining hostile URLs are skipped so that a broken tree is still reported quickly
		if c.Fam == 10 && srv.deaths >= 15 {
			run.Count("skipped:hostile-url-after-15-deaths-or-hangs")
			continue
		}
		addReq(run, c)
	}
	// list-valued URL parameters: stored elements followed or preceded by malformed ones
	for _, c := range listURLCases(rng, o.Thorough()) {
		if srv.deaths >= 25 {
			run.Count("skipped:list-url-after-25-deaths-or-hangs")
			continue
		}
		addReq(run, c)
	}
	for _, c := range elementCases(rng, o.Thorough()) {
		addElements(run, c)
	}
	for _, c := range annotationHistories(rng, o.Thorough()) {
		addReq(run, c)
	}
	for _, c := range blockShapeCases(rng, o.Thorough()) {
		if c.InProc != "" {
			addInProc(run, c)
		} else {
			addReq(run, c)
		}
	}
	for _, c := range labelmapHistories(rng, o.Thorough()) {
		addReq(run, c)
	}
	for _, c := range typeConfusionCases(rng, o.Thorough()) {
		addReq(run, c)
	}

	finish("package level: every truncation, hostile values in every header / count / index field, byte substitutions in the packed values and random bit flips of five valid 16^3 blocks (solid, 2, 3, 5 labels, with background) + the Coq witnesses, each through UnmarshalBinary(+Validate), MakeLabelVolume, CalcNumLabels, GetPointLabels; truncations and count inflation of sparse volumes through ReadRLEs. End to end in a child process under ulimit -v: valid and mutated payloads for POST blocks / ingest-supervoxels / raw / split-supervoxel / index / indices / mappings / elements / annotation blocks / roi / keyvalue / neuronjson and hostile URLs; status class, process death, hang (10 s), sentinel re-read after every request, named data re-read after every 4xx. distinct = distinct (payload, mutation) or (method, url, body)")
}

const tail = `
Definition spec_fail := Eval vm_compute in c20_spec_fail bases cases.
Definition model_mismatch := Eval vm_compute in c20_model_mismatch bases cases.
`

// ---- witnesses of coq/Proofs/Parse.v, byte for byte ----
func witnessBlocks() map[string][]byte {
	h := func(s string) []byte {
		b, err := hex.DecodeString(s)
		if err != nil {
			panic(err)
		}
		return b
	}
	m := map[string][]byte{}
	m["w_inflated_labels"] = h("010000000100000001000000020000000500000000000000")
	m["w_zero_dim"] = h("0000000001000000010000000200000005000000000000000600000000000000")
	m["w_index_outside"] = h("020000000100000001000000020000000500000000000000060000000000000001000100000000004d000000")
	m["w_no_values"] = h("020000000100000001000000020000000500000000000000060000000000000002000100000000000100000000000000")
	m["w_packed_value"] = append(h("020000000100000001000000030000000500000000000000060000000000000007000000000000000100030000000000000000000100000002000000"), bytes.Repeat([]byte{255}, 128)...)
	// 2x1x1 sub-blocks, labels {5,6}; the first sub-block declares 513 labels (one more than it has
	// voxels), with all the indices (zero) and packed values (10 bits each, zero) it would need
	m["w_many_labels"] = append(h("0200000001000000010000000200000005000000000000000600000000000000"+"01020100"), make([]byte, 514*4+640)...)
	m["w_small_valid"] = append(h("020000000100000001000000020000000500000000000000060000000000000002000100000000000100000001000000"), bytes.Repeat([]byte{170}, 64)...)
	return m
}

var _ = pb.Marshal

// addInProc: a package-level operation on blocks (no server): ok -> 2xx, error -> 4xx, panic -> 5xx-panic.
func addInProc(run *lib.Run, c jcase) {
	cls := runInProc(c.InProc, c.Args)
	obs := map[string]int{"ok": 0, "err": 1, "panic": 2}[cls]
	run.Count("inproc:" + c.InProc + ":" + cls)
	c.Kind = "inproc"
	c.Fam, c.Expect = 14, eUnk
	run.Add("inproc-"+c.InProc, fmt.Sprintf("R 14 %d %d", eUnk, obs), c, fmt.Sprintf("inproc/%s/%v", c.InProc, c.Args))
}
