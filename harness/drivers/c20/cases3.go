package main

import (
	"bytes"
	"encoding/binary"
	"encoding/json"
	"fmt"
	"strings"

	"github.com/janelia-flyem/dvid/datatype/common/labels"
	"github.com/janelia-flyem/dvid/dvid"
	"verif/harness/lib"
)

// ---- blocks whose header dimensions are not the instance's block size ----

// shapes in sub-blocks (8 voxels each); the instances have 2x2x2
var blockShapes = [][3]int32{
	{2, 2, 2},                                  // the instance's own size
	{4, 2, 1}, {1, 2, 4}, {2, 4, 1}, {8, 1, 1}, {1, 1, 8}, {1, 8, 1}, // same voxel count, another shape
	{4, 4, 4}, {2, 2, 4}, {4, 2, 2}, // larger
	{1, 1, 1}, {2, 2, 1}, {1, 2, 2}, {2, 1, 1}, // smaller
	{16, 8, 4}, {128, 128, 128}, // the shapes of 64^3-block instances and the maximum
}

func solidBlock(g [3]int32, label uint64) []byte {
	b := make([]byte, 24)
	binary.LittleEndian.PutUint32(b[0:], uint32(g[0]))
	binary.LittleEndian.PutUint32(b[4:], uint32(g[1]))
	binary.LittleEndian.PutUint32(b[8:], uint32(g[2]))
	binary.LittleEndian.PutUint32(b[12:], 1)
	binary.LittleEndian.PutUint64(b[16:], label)
	return b
}

// a two-label block of the given shape, made by the real encoder
func twoLabelBlock(g [3]int32) []byte {
	nx, ny, nz := int(g[0])*8, int(g[1])*8, int(g[2])*8
	if nx*ny*nz > 1<<16 {
		return nil
	}
	vol := make([]byte, nx*ny*nz*8)
	for i := 0; i < nx*ny*nz; i++ {
		binary.LittleEndian.PutUint64(vol[i*8:], uint64(40+(i/3)%2))
	}
	blk, err := labels.MakeBlock(vol, dvid.Point3d{int32(nx), int32(ny), int32(nz)})
	if err != nil {
		return nil
	}
	b, _ := blk.MarshalBinary()
	return append([]byte{}, b...)
}

func shapeBlocks() [][]byte {
	var l [][]byte
	for _, g := range blockShapes {
		l = append(l, solidBlock(g, 9))
		if b := twoLabelBlock(g); b != nil {
			l = append(l, b)
		} else {
			l = append(l, solidBlock(g, 10))
		}
	}
	return l
}

// runInProc: package-level operations on combinations of parsed blocks
func runInProc(op string, args []int) string {
	blocks := shapeBlocks()
	parse := func(i int) *labels.Block {
		if i < 0 || i >= len(blocks) {
			return nil
		}
		if g := blockShapes[i/2]; int64(g[0])*int64(g[1])*int64(g[2]) > 1<<10 {
			return nil // never expand huge volumes inside the harness
		}
		b := new(labels.Block)
		if err := b.UnmarshalBinary(blocks[i]); err != nil {
			return nil
		}
		return b
	}
	var err error
	p, _ := lib.Recover(func() {
		switch op {
		case "downres": // args: receiver, then 8 octants (-1 = nil)
			recv := parse(args[0])
			if recv == nil {
				err = fmt.Errorf("no receiver")
				return
			}
			var oct [8]*labels.Block
			for i := 0; i < 8; i++ {
				oct[i] = parse(args[1+i])
			}
			err = recv.Downres(oct)
			if err == nil {
				recv.MakeLabelVolume()
			}
		}
	})
	return cls(p, err)
}

func blockShapeCases(rng *lib.Rand, thorough bool) []jcase {
	var cs []jcase
	blocks := shapeBlocks()
	opts := []string{"downres=true", "", "noindexing=true", "downres=true&noindexing=true", "scale=1", "scale=1&downres=true"}
	coords := [][3]int32{{20, 0, 0}, {21, 1, 1}, {20, 0, 1}, {23, 2, 3}}
	n := 0
	for bi, raw := range blocks {
		g := blockShapes[bi/2]
		expect := eMal
		if g == [3]int32{2, 2, 2} {
			expect = eWell
		}
		for oi, opt := range opts {
			if !thorough && bi >= 2 && (oi+bi)%3 != 0 { // quick: the instance's own shape with every option, a third for the others
				continue
			}
			co := coords[n%len(coords)]
			n++
			url := "/lmd/blocks"
			if opt != "" {
				url += "?" + opt
			}
			c := req(17, expect, fmt.Sprintf("POST blocks %s: block of %dx%dx%d sub-blocks at (%d,%d,%d)", opt, g[0], g[1], g[2], co[0], co[1], co[2]),
				"POST", url, frame(co[0], co[1], co[2], gz(raw)))
			cs = append(cs, c)
			// what was accepted must be readable, also at the lower resolutions
			cs = append(cs,
				req(12, eWell, "read after block-shape post", "GET", fmt.Sprintf("/lmd/raw/0_1_2/16_16_16/%d_%d_%d", co[0]*16, co[1]*16, co[2]*16), nil),
				req(12, eWell, "read scale 1 after block-shape post", "GET", fmt.Sprintf("/lmd/raw/0_1_2/16_16_16/%d_%d_%d?scale=1", co[0]/2*16, co[1]/2*16, co[2]/2*16), nil),
				req(12, eWell, "labels after block-shape post", "GET", "/lmd/labels", []byte(fmt.Sprintf("[[%d,%d,%d]]", co[0]*16+9, co[1]*16+1, co[2]*16+1))))
		}
		// ingest-supervoxels takes the same stream
		cs = append(cs, req(17, expect, fmt.Sprintf("ingest-supervoxels: block of %dx%dx%d sub-blocks", g[0], g[1], g[2]), "POST", "/lmd/ingest-supervoxels", frame(30, int32(bi), 0, gz(raw))))
	}
	// package level: down-sampling with octants of every shape into a receiver of every shape
	nb := len(blocks) - 2 // (not the maximum shape: gigabytes of voxels)
	for r := 0; r < nb; r += 2 {
		for o := 0; o < nb; o++ {
			if !thorough && (r+o)%2 != 0 && o > 3 {
				continue
			}
			for _, slot := range []int{0, 5} {
				if !thorough && slot == 0 && o > 3 {
					continue
				}
				args := []int{r, -1, -1, -1, -1, -1, -1, -1, -1}
				args[1+slot] = o
				cs = append(cs, jcase{InProc: "downres", Args: args, Name: "Block.Downres with an octant of another shape"})
			}
		}
	}
	return cs
}

// ---- conforming mutation histories on a labelmap, with label ids that collide in every shard ----

// shardStride: label ids that differ by a multiple of it fall into the same shard for every shard
// count up to 16 and every power of two up to 2^16 (labelmap: label % numIndexShards; the value in
// the source is checked to divide it by Proofs/Parse.v shard_stride_covers_source).
const shardStride = 720720 * 65536

func labelmapHistories(rng *lib.Rand, thorough bool) []jcase {
	var cs []jcase
	nHist := 3
	if thorough {
		nHist = 12
	}
	for h := 0; h < nHist; h++ {
		hist := 1000 + h
		var steps []step
		emit := func(name string, st step) {
			c := req(15, eWell, fmt.Sprintf("labelmap history %d: %s", h, name), st.Method, st.URL, st.Body)
			c.Pre = append([]step{}, steps...)
			c.preDone = true
			c.Hist = hist
			cs = append(cs, c)
			steps = append(steps, st)
		}
		inst := "/lmm"
		k := uint64(1+rng.Intn(3)) * shardStride
		bx := int32(40 + 2*h) // each history has its own blocks, but label ids are shared: keep them apart too
		// each history has its own supervoxels base+1, base+2, base+3 (same geometry as the "three" sample)
		base := uint64(h) * 1000
		three := blockBytes(volume16(func(x, y, z int) uint64 {
			if z == 0 && y == 0 && x < 10 {
				return base + 3
			}
			if x >= 8 {
				return base + 2
			}
			return base + 1
		}))
		emit("post blocks", step{"POST", inst + "/blocks", append(frame(bx, 0, 0, gz(three)), frame(bx+1, 0, 0, gz(three))...)})
		l := func(i uint64) uint64 { return base + i }
		reads := func(label uint64) {
			emit(fmt.Sprintf("size of %d", label), step{"GET", fmt.Sprintf("%s/size/%d", inst, label), nil})
			emit(fmt.Sprintf("index of %d", label), step{"GET", fmt.Sprintf("%s/index/%d", inst, label), nil})
			emit(fmt.Sprintf("sparsevol-size of %d", label), step{"GET", fmt.Sprintf("%s/sparsevol-size/%d", inst, label), nil})
			emit(fmt.Sprintf("supervoxels of %d", label), step{"GET", fmt.Sprintf("%s/supervoxels/%d", inst, label), nil})
		}
		sv := func(i uint64) uint64 { return base + i }
		// merge 2 into 1: body 1 = supervoxels {1,2}
		emit("merge 2 into 1", step{"POST", inst + "/merge", []byte(fmt.Sprintf("[%d,%d]", l(1), l(2)))})
		reads(l(1))
		// the next server-assigned label collides with body 1 in every shard
		emit("set-nextlabel", step{"POST", fmt.Sprintf("%s/set-nextlabel/%d", inst, l(1)+k-1), nil})
		emit("cleave supervoxel 2 from body 1", step{"POST", fmt.Sprintf("%s/cleave/%d", inst, l(1)), []byte(fmt.Sprintf("[%d]", sv(2)))})
		reads(l(1))
		reads(l(1) + k)
		emit("nextlabel", step{"GET", inst + "/nextlabel", nil})
		emit("maxlabel", step{"GET", inst + "/maxlabel", nil})
		// merge two bodies of one shard
		emit("merge the cleaved body back", step{"POST", inst + "/merge", []byte(fmt.Sprintf("[%d,%d]", l(1), l(1)+k))})
		reads(l(1))
		// renumber within a shard
		emit("renumber body 3 within its shard", step{"POST", inst + "/renumber", []byte(fmt.Sprintf("[%d,%d]", l(3)+k, l(3)))})
		reads(l(3) + k)
		// split a supervoxel into labels of its own shard
		emit("split-supervoxel 3 into labels of its shard", step{"POST", fmt.Sprintf("%s/split-supervoxel/%d?split=%d&remain=%d", inst, sv(3), sv(3)+2*k, sv(3)+3*k),
			rleBody([]span{{bx*16 + 0, 0, 0, 4}}, 1)})
		reads(l(3) + k)
		// cleave with an explicitly colliding next label once more, other target
		emit("merge 3's body into 1", step{"POST", inst + "/merge", []byte(fmt.Sprintf("[%d,%d]", l(1), l(3)+k))})
		emit("set-nextlabel again", step{"POST", fmt.Sprintf("%s/set-nextlabel/%d", inst, l(1)+4*k-1), nil})
		emit("cleave supervoxel 1 from body 1", step{"POST", fmt.Sprintf("%s/cleave/%d", inst, l(1)), []byte(fmt.Sprintf("[%d]", sv(1)))})
		reads(l(1))
		emit("maxlabel set", step{"POST", fmt.Sprintf("%s/maxlabel/%d", inst, l(1)+9*k), nil})
		emit("read the blocks", step{"GET", fmt.Sprintf("%s/raw/0_1_2/32_16_16/%d_0_0", inst, bx*16), nil})
	}
	return cs
}

// ---- type-confused JSON tokens in every field of every JSON body ----

var confusedTokens = []string{"0", "7", `""`, `"x"`, "null", "true", "[]", "{}", "-1", "1.5", "1e400", "12", "99999999999999999999999",
	`"` + strings.Repeat("y", 2000) + `"`, `[[[[]]]]`, `{"a":{"b":1}}`}

// substitute replaces the n-th value (in document order, counting every object member value and
// array element, containers included) of the JSON document by tok; ok is false when n is past the end.
func substitute(doc []byte, n int, tok string) (out []byte, ok bool) {
	var v interface{}
	d := json.NewDecoder(bytes.NewReader(doc))
	d.UseNumber()
	if err := d.Decode(&v); err != nil {
		return nil, false
	}
	count := 0
	var walk func(x interface{}) string
	enc := func(x interface{}) string {
		b, _ := json.Marshal(x)
		return string(b)
	}
	walk = func(x interface{}) string {
		me := count
		count++
		if me == n {
			ok = true
			return tok
		}
		switch t := x.(type) {
		case map[string]interface{}:
			keys := make([]string, 0, len(t))
			for k := range t {
				keys = append(keys, k)
			}
			// deterministic order
			for i := range keys {
				for j := i + 1; j < len(keys); j++ {
					if keys[j] < keys[i] {
						keys[i], keys[j] = keys[j], keys[i]
					}
				}
			}
			var parts []string
			for _, k := range keys {
				parts = append(parts, enc(k)+":"+walk(t[k]))
			}
			return "{" + strings.Join(parts, ",") + "}"
		case []interface{}:
			var parts []string
			for _, e := range t {
				parts = append(parts, walk(e))
			}
			return "[" + strings.Join(parts, ",") + "]"
		default:
			return enc(x)
		}
	}
	s := walk(v)
	return []byte(s), ok
}

func typeConfusionCases(rng *lib.Rand, thorough bool) []jcase {
	type target struct {
		name, method, url string
		doc               string
	}
	targets := []target{
		{"annotation elements", "POST", "/ann/elements", `[{"Pos":[901,2,3],"Kind":"Note","Tags":["A"],"Rels":[{"Rel":"GroupedWith","To":[904,5,6]}],"Prop":{"k":"v"}}]`},
		{"annotation blocks", "POST", "/ann/blocks", `{"14,0,0":[{"Pos":[901,2,3],"Kind":"PostSyn","Tags":["A"],"Rels":[{"Rel":"PostSynTo","To":[904,5,6]}],"Prop":{"k":"v"}}]}`},
		{"roi spans", "POST", "/roi/roi", `[[1,1,1,3],[1,2,1,3]]`},
		{"roi ptquery", "POST", "/roi/ptquery", `[[40,40,40],[1,2,3]]`},
		{"keyvalue keyvalues (json)", "GET", "/kv/keyvalues?json=true", `["a","b"]`},
		{"keyvalue keyvalues (jsontar)", "GET", "/kv/keyvalues?jsontar=true", `["a","b"]`},
		{"neuron annotation", "POST", "/nj/key/1004?u=tester", `{"bodyid":1004,"status":"traced","soma":[1,2,3],"meta":{"d":1},"status_user":"u","status_time":"t"}`},
		{"neuron annotation (replace)", "POST", "/nj/key/1000?u=tester&replace=true", `{"bodyid":1000,"a":1,"b":"c"}`},
		{"neuron query", "GET", "/nj/query", `{"a":1,"status":["traced","x"],"soma":2}`},
		{"neuron query (list)", "POST", "/nj/query", `[{"a":1},{"bodyid":[1000,1001]}]`},
		{"neuron keyvalues", "GET", "/nj/keyvalues?json=true", `["1000","1001"]`},
		{"neuron schema", "POST", "/nj/json_schema?u=tester", `{"type":"object","properties":{"bodyid":{"type":"integer"}},"required":["bodyid"]}`},
		{"labelmap merge", "POST", "/lm/merge", `[901,902]`},
		{"labelmap cleave", "POST", "/lm/cleave/901", `[902,903]`},
		{"labelmap renumber", "POST", "/lm/renumber", `[905,906]`},
		{"labelmap mapping", "GET", "/lm/mapping", `[51,52,71]`},
		{"labelmap labels", "GET", "/lm/labels", `[[1,2,3],[9,0,0]]`},
		{"labelmap sizes", "GET", "/lm/sizes", `[1,2]`},
		{"labelmap indices", "GET", "/lm/indices", `[20,22]`},
		{"labelmap indices-compressed", "GET", "/lm/indices-compressed", `[20,22]`},
		{"labelmap sparsevols-coarse", "GET", "/lm/sparsevols-coarse/1/3", `[1,2]`},
		{"labelmap proximity", "GET", "/lm/proximity/1,2", ``},
		{"labelmap existing-labels", "GET", "/lm/existing-labels", `[1,2,99]`},
	}
	var cs []jcase
	for ti, t := range targets {
		if t.doc == "" {
			continue
		}
		for n := 0; ; n++ {
			if _, ok := substitute([]byte(t.doc), n, "0"); !ok {
				break
			}
			for ki, tok := range confusedTokens {
				if !thorough && ki >= 11 && (n+ti)%4 != 0 { // the longer tokens: a quarter of the fields in the quick tier
					continue
				}
				body, _ := substitute([]byte(t.doc), n, tok)
				short := tok
				if len(short) > 24 {
					short = short[:24] + "..."
				}
				cs = append(cs, req(16, eUnk, fmt.Sprintf("%s: value %d replaced by %s", t.name, n, short), t.method, t.url, body))
			}
		}
	}
	return cs
}
