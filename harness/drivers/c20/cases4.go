package main

import (
	"fmt"
	"strings"

	"verif/harness/lib"
)

// ---- list-valued URL parameters: a well-formed part naming stored data, then a malformed part ----
//
// Every endpoint of the modelled datatypes that takes a comma- or underscore-separated list in
// its path or query string (strings.Split in /repo/datatype/*/): block coordinate lists
// (specificblocks of labelmap and imageblk), size / offset / point triples, roi,version pairs
// and field lists.  The lists are built from items that name data the server HAS (so that the
// handler starts work on them: store reads, transcoding goroutines, response streaming) and
// items that are malformed in one of the ways a list can be: non-numeric, empty, wrong
// multiplicity, beyond int32 / int64, negative; in both orders.

type listParam struct {
	prefix, suffix string     // URL around the list
	sep            string     // "," or "_"
	arity          int        // items per element
	stored         [][]string // elements that name stored data
	opts           []string   // query options the handler reads (appended to the URL)
	strict         bool       // the handler checks the list before it starts answering
	// Lists outside [minItems, maxItems] (0 = no bound) are not generated.  No entry uses the bounds any more:
	// the two defects they once hid (sparsevol-by-point with more than 3 items, subvolblocks without an
	// offset: HTTP 500 from a recovered panic) are repaired in /repo (fixes C20-24, C20-25).
	minItems, maxItems int
}

var listParams = []listParam{
	{prefix: "/lm/specificblocks?blocks=", sep: ",", arity: 3, stored: [][]string{{"0", "0", "0"}, {"1", "0", "0"}},
		opts: []string{"", "compression=lz4", "compression=gzip", "compression=blocks", "compression=uncompressed", "compression=bogus",
			"supervoxels=true", "compression=gzip&supervoxels=true", "scale=0&compression=lz4", "throttle=on&compression=gzip"}},
	{prefix: "/img/specificblocks?blocks=", sep: ",", arity: 3, stored: [][]string{{"0", "0", "0"}, {"1", "0", "0"}},
		opts: []string{"", "compression=uncompressed", "compression=jpeg", "prefetch=on", "prefetch=true&compression=uncompressed", "throttle=on"}, strict: true},
	{prefix: "/lm/raw/0_1_2/", suffix: "/0_0_0", sep: "_", arity: 3, stored: [][]string{{"16", "16", "16"}, {"32", "16", "16"}},
		opts: []string{"", "compression=lz4", "supervoxels=true", "throttle=on", "roi=roi"}},
	{prefix: "/lm/raw/0_1_2/16_16_16/", sep: "_", arity: 3, stored: [][]string{{"0", "0", "0"}, {"16", "0", "0"}},
		opts: []string{"", "compression=gzip", "scale=0", "throttle=true"}},
	{prefix: "/lm/blocks/", suffix: "/0_0_0", sep: "_", arity: 3, stored: [][]string{{"16", "16", "16"}, {"32", "16", "16"}},
		opts: []string{"", "compression=gzip", "compression=uncompressed", "supervoxels=true", "throttle=on"}},
	{prefix: "/lm/blocks/16_16_16/", sep: "_", arity: 3, stored: [][]string{{"0", "0", "0"}, {"16", "0", "0"}},
		opts: []string{"", "compression=lz4", "throttle=on"}},
	{prefix: "/lm/label/", sep: "_", arity: 3, stored: [][]string{{"1", "1", "1"}, {"17", "1", "1"}}, opts: []string{"", "supervoxels=true", "scale=0"}},
	{prefix: "/lm/sparsevol-by-point/", sep: "_", arity: 3, stored: [][]string{{"1", "1", "1"}, {"17", "1", "1"}}, opts: []string{"", "supervoxels=true", "format=rles"}},
	{prefix: "/lm/raw/0_1_2/16_16_16/0_0_0?roi=", sep: ",", arity: 1, stored: [][]string{{"roi"}}, opts: []string{"", "compression=lz4"}},
	{prefix: "/img/raw/0_1_2/", suffix: "/0_0_0", sep: "_", arity: 3, stored: [][]string{{"16", "16", "16"}, {"32", "16", "16"}}, opts: []string{"", "throttle=on", "roi=roi"}},
	{prefix: "/img/subvolblocks/", suffix: "/0_0_0", sep: "_", arity: 3, stored: [][]string{{"16", "16", "16"}, {"32", "16", "16"}}, opts: []string{"", "compression=uncompressed", "throttle=true"}},
	{prefix: "/img/subvolblocks/16_16_16/", sep: "_", arity: 3, stored: [][]string{{"0", "0", "0"}, {"16", "0", "0"}}, opts: []string{"", "compression=jpeg"}},
	{prefix: "/img/blocks/0_0_0/", sep: "_", arity: 1, stored: [][]string{{"1"}, {"2"}}, opts: []string{""}},
	{prefix: "/ann/elements/", suffix: "/0_0_0", sep: "_", arity: 3, stored: [][]string{{"10", "10", "10"}, {"64", "64", "64"}}, opts: []string{""}},
	{prefix: "/ann/elements/10_10_10/", sep: "_", arity: 3, stored: [][]string{{"0", "0", "0"}, {"5", "5", "5"}}, opts: []string{""}},
	{prefix: "/ann/blocks/", suffix: "/0_0_0", sep: "_", arity: 3, stored: [][]string{{"64", "64", "64"}}, opts: []string{""}},
	{prefix: "/ann/roi/", sep: ",", arity: 1, stored: [][]string{{"roi"}}, opts: []string{""}},
	{prefix: "/roi/mask/0_1_2/", suffix: "/0_0_0", sep: "_", arity: 3, stored: [][]string{{"16", "16", "16"}, {"64", "64", "64"}}, opts: []string{""}},
	{prefix: "/roi/mask/0_1_2/16_16_16/", sep: "_", arity: 3, stored: [][]string{{"0", "0", "0"}, {"32", "32", "32"}}, opts: []string{""}},
	{prefix: "/roi/partition?batchsize=", sep: ",", arity: 1, stored: [][]string{{"1"}, {"2"}}, opts: []string{"", "optimized=true"}},
	{prefix: "/nj/all?fields=", sep: ",", arity: 1, stored: [][]string{{"a"}, {"bodyid"}}, opts: []string{"", "show=all"}},
	{prefix: "/nj/keyrangevalues/0/2000?fields=", sep: ",", arity: 1, stored: [][]string{{"a"}, {"bodyid"}}, opts: []string{"", "json=true"}},
	{prefix: "/kv/keyrangevalues/a/", sep: ",", arity: 1, stored: [][]string{{"a"}, {"z"}}, opts: []string{"", "json=true", "jsontar=true"}},
}

// the ways one element of a list is malformed; syntactic: no reading of it is a number
var badItems = []struct {
	item      string
	syntactic bool
}{
	{"x", true}, {"", true}, {"1x", true}, {"1.5", true}, {"0x10", true}, {"+", true}, {"-", true},
	{"99999999999", false}, {"2147483648", false}, {"4294967296", false}, {"9223372036854775808", true}, {"18446744073709551616", true},
	{"-1", false}, {"-2147483649", false}, {"-9223372036854775809", true}, {"1e3", true},
}

// listURLCases: for every list parameter, lists made of stored elements and a malformed part
func listURLCases(rng *lib.Rand, thorough bool) []jcase {
	var cs []jcase
	n := 0
	add := func(p listParam, what string, expect int, items []string) {
		if (p.maxItems > 0 && len(items) > p.maxItems) || len(items) < p.minItems {
			return
		}
		n++
		opt := p.opts[n%len(p.opts)]
		u := p.prefix + strings.Join(items, p.sep) + p.suffix
		if opt != "" {
			if strings.Contains(u, "?") {
				u += "&" + opt
			} else {
				u += "?" + opt
			}
		}
		cs = append(cs, req(10, expect, "list URL: "+what, "GET", u, nil))
	}
	for pi, p := range listParams {
		var all []string // every stored element, in order
		for _, e := range p.stored {
			all = append(all, e...)
		}
		// well-formed lists first: they must be served (and show that the stored elements exist)
		add(p, "stored elements only", eUnk, all)
		nbad := 5
		if thorough {
			nbad = len(badItems)
		}
		if strings.Contains(p.prefix, "specificblocks") {
			nbad = len(badItems) // the block lists: every kind of item in the quick tier too
		}
		for k := 0; k < nbad; k++ {
			bi := k
			if nbad < len(badItems) {
				bi = (k*7 + pi*3 + rng.Intn(len(badItems))) % len(badItems)
			}
			b := badItems[bi]
			// the malformed element: a stored one with one item replaced
			pos := (k + pi) % p.arity
			badElem := append([]string{}, p.stored[k%len(p.stored)]...)
			badElem[pos] = b.item
			expAfter, expFirst := eUnk, eUnk
			if b.syntactic && p.arity == 3 {
				// no number at all where the handler needs one: a client error, if the
				// handler has not begun to stream the stored elements by then
				expFirst = eMal
				if p.strict {
					expAfter = eMal
				}
			}
			add(p, fmt.Sprintf("stored elements then item %q", b.item), expAfter, append(append([]string{}, all...), badElem...))
			add(p, fmt.Sprintf("item %q then stored elements", b.item), expFirst, append(append([]string{}, badElem...), all...))
			if k%3 == 0 || thorough {
				mid := append(append(append([]string{}, p.stored[0]...), badElem...), p.stored[len(p.stored)-1]...)
				add(p, fmt.Sprintf("item %q between stored elements", b.item), expAfter, mid)
				// many stored elements (so that work on them is certainly under way) then the item
				var many []string
				for r := 0; r < 8; r++ {
					many = append(many, all...)
				}
				add(p, fmt.Sprintf("16 stored elements then item %q", b.item), expAfter, append(many, badElem...))
			}
		}
		// wrong multiplicity and empty items
		add(p, "one item missing at the end", eUnk, all[:len(all)-1])
		add(p, "one item too many", eUnk, append(append([]string{}, all...), "0"))
		add(p, "trailing separator", eUnk, append(append([]string{}, all...), ""))
		add(p, "leading separator", eUnk, append([]string{""}, all...))
		add(p, "doubled separator", eUnk, append(append(append([]string{}, all[:p.arity]...), ""), all[p.arity:]...))
		add(p, "only separators", eUnk, make([]string, p.arity+1))
		add(p, "stored elements then an element of empty items", eUnk, append(append([]string{}, all...), make([]string, p.arity)...))
		add(p, "empty list", eUnk, nil)
	}
	return cs
}
