package main

import (
	"bytes"
	"compress/gzip"
	"encoding/binary"
	"encoding/json"
	"fmt"

	pb "google.golang.org/protobuf/proto"

	"github.com/janelia-flyem/dvid/datatype/common/labels"
	"github.com/janelia-flyem/dvid/datatype/common/proto"
	"github.com/janelia-flyem/dvid/dvid"
)

// ---- label blocks ----

// volume16 builds a 16x16x16 label volume (the smallest block that has an even number of
// sub-blocks) from a function of the voxel coordinate.
func volume16(f func(x, y, z int) uint64) []byte {
	vol := make([]byte, 16*16*16*8)
	i := 0
	for z := 0; z < 16; z++ {
		for y := 0; y < 16; y++ {
			for x := 0; x < 16; x++ {
				binary.LittleEndian.PutUint64(vol[i*8:], f(x, y, z))
				i++
			}
		}
	}
	return vol
}

// blockBytes is the marshalled compressed-label block of a 16^3 volume.
func blockBytes(vol []byte) []byte {
	blk, err := labels.MakeBlock(vol, dvid.Point3d{16, 16, 16})
	if err != nil {
		panic(err)
	}
	b, _ := blk.MarshalBinary()
	return append([]byte{}, b...)
}

func gz(b []byte) []byte {
	var buf bytes.Buffer
	w := gzip.NewWriter(&buf)
	w.Write(b)
	w.Close()
	return buf.Bytes()
}

// frame is one record of the POST blocks / ingest-supervoxels stream.
func frame(bx, by, bz int32, compressed []byte) []byte {
	h := make([]byte, 16)
	binary.LittleEndian.PutUint32(h[0:], uint32(bx))
	binary.LittleEndian.PutUint32(h[4:], uint32(by))
	binary.LittleEndian.PutUint32(h[8:], uint32(bz))
	binary.LittleEndian.PutUint32(h[12:], uint32(len(compressed)))
	return append(h, compressed...)
}

// a small family of valid blocks with different structure
func sampleBlocks() map[string][]byte {
	m := map[string][]byte{}
	m["solid"] = blockBytes(volume16(func(x, y, z int) uint64 { return 7 }))
	m["two-halves"] = blockBytes(volume16(func(x, y, z int) uint64 {
		if x < 8 {
			return 1
		}
		return 2
	}))
	m["three"] = blockBytes(volume16(func(x, y, z int) uint64 {
		if z == 0 && y == 0 && x < 10 {
			return 3
		}
		if x >= 8 {
			return 2
		}
		return 1
	}))
	m["five-in-one-subblock"] = blockBytes(volume16(func(x, y, z int) uint64 {
		if x < 8 && y < 8 && z < 8 {
			return uint64(10 + (x+y+z)%5)
		}
		return 1
	}))
	m["with-zero"] = blockBytes(volume16(func(x, y, z int) uint64 {
		if z >= 8 {
			return 0
		}
		return uint64(4 + x/8)
	}))
	return m
}

// ---- sparse volumes ----

type span struct{ X, Y, Z, N int32 }

func rleBody(spans []span, declared uint32) []byte {
	b := make([]byte, 12)
	b[0] = 0 // EncodingBinary
	b[1] = 3
	b[2] = 0
	binary.LittleEndian.PutUint32(b[8:], declared)
	for _, s := range spans {
		r := make([]byte, 16)
		binary.LittleEndian.PutUint32(r[0:], uint32(s.X))
		binary.LittleEndian.PutUint32(r[4:], uint32(s.Y))
		binary.LittleEndian.PutUint32(r[8:], uint32(s.Z))
		binary.LittleEndian.PutUint32(r[12:], uint32(s.N))
		b = append(b, r...)
	}
	return b
}

// ---- protobuf label indices and mappings ----

func blockKey(x, y, z int32) uint64 { return labels.EncodeBlockIndex(x, y, z) }

func protoIndex(label uint64, blocks map[uint64]map[uint64]uint32) *proto.LabelIndex {
	idx := &proto.LabelIndex{Label: label, Blocks: map[uint64]*proto.SVCount{}}
	for bk, counts := range blocks {
		idx.Blocks[bk] = &proto.SVCount{Counts: counts}
	}
	return idx
}

func marshalIndex(idx *proto.LabelIndex) []byte {
	b, err := pb.Marshal(idx)
	if err != nil {
		panic(err)
	}
	return b
}

func marshalIndices(l ...*proto.LabelIndex) []byte {
	b, err := pb.Marshal(&proto.LabelIndices{Indices: l})
	if err != nil {
		panic(err)
	}
	return b
}

func marshalMappings(ops ...*proto.MappingOp) []byte {
	b, err := pb.Marshal(&proto.MappingOps{Mappings: ops})
	if err != nil {
		panic(err)
	}
	return b
}

// ---- annotation ----

type rel struct {
	Rel string
	To  [3]int32
}
type elem struct {
	Pos  [3]int32
	Kind string
	Tags []string `json:",omitempty"`
	Rels []rel    `json:",omitempty"`
	Prop map[string]string
}

func elemsJSON(es ...elem) []byte {
	for i := range es {
		if es[i].Prop == nil {
			es[i].Prop = map[string]string{}
		}
	}
	b, _ := json.Marshal(es)
	return b
}

func el(x, y, z int32, kind string, tags ...string) elem {
	return elem{Pos: [3]int32{x, y, z}, Kind: kind, Tags: tags}
}

func mustJSON(v interface{}) []byte {
	b, err := json.Marshal(v)
	if err != nil {
		panic(fmt.Sprint(err))
	}
	return b
}
