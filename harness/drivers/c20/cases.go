package main

import (
	"encoding/binary"
	"encoding/json"
	"fmt"
	"strings"

	pb "google.golang.org/protobuf/proto"

	"github.com/janelia-flyem/dvid/datatype/common/proto"
	"verif/harness/lib"
)

func req(fam, expect int, name, method, url string, body []byte) jcase {
	return jcase{Fam: fam, Expect: expect, Name: name, Main: &step{method, url, body}}
}

func withProbe(c jcase, method, url string, body []byte) jcase {
	c.Probe = &step{method, url, body}
	return c
}

func withPre(c jcase, pre ...step) jcase {
	c.Pre = pre
	return c
}

// expectation for a mutated protobuf body: the decoder is the oracle
func protoExpect(b []byte, m pb.Message) int {
	if err := pb.Unmarshal(b, m); err != nil {
		return eMal
	}
	return eUnk
}

func jsonExpect(b []byte) int {
	if !json.Valid(b) {
		return eMal
	}
	return eUnk
}

// truncations and single-bit flips of a small payload (all of them when short, a sample otherwise)
func mutations(rng *lib.Rand, b []byte, maxEach int) [][]byte {
	var out [][]byte
	stepN := 1
	if len(b) > maxEach {
		stepN = len(b)/maxEach + 1
	}
	for n := 0; n < len(b); n += stepN {
		out = append(out, append([]byte{}, b[:n]...))
	}
	for i := 0; i < maxEach && len(b) > 0; i++ {
		x := append([]byte{}, b...)
		x[rng.Intn(len(x))] ^= 1 << uint(rng.Intn(8))
		out = append(out, x)
	}
	return out
}

func requestCases(rng *lib.Rand, thorough bool) []jcase {
	var cs []jcase
	nmut := 6
	if thorough {
		nmut = 40
	}
	sb := sampleBlocks()
	three := sb["three"]
	fr := frame(3, 0, 0, gz(three))

	// ---- (2) stream framing of POST blocks / ingest-supervoxels ----
	cs = append(cs,
		req(1, eWell, "two valid frames", "POST", "/lm/blocks", append(frame(3, 0, 0, gz(three)), frame(4, 0, 0, gz(sb["two-halves"]))...)),
		req(1, eMal, "header cut", "POST", "/lm/blocks", fr[:10]),
		req(1, eMal, "body cut", "POST", "/lm/blocks", fr[:40]),
		req(1, eMal, "zero length frame", "POST", "/lm/blocks", frame(3, 0, 0, nil)),
		req(1, eMal, "body is not gzip", "POST", "/lm/blocks", frame(3, 0, 0, three)),
		req(1, eMal, "valid frame then cut frame", "POST", "/lm/blocks", append(append([]byte{}, fr...), fr[:30]...)),
		req(1, eMal, "cut gzip stream", "POST", "/lm/blocks", frame(3, 0, 0, gz(three)[:20])),
		req(1, eUnk, "empty body", "POST", "/lm/blocks", []byte{}),
		req(1, eMal, "header cut (ingest)", "POST", "/lm/ingest-supervoxels", fr[:15]),
	)
	for _, n := range []uint32{uint32(len(fr)-16) + 1, 1 << 20, 1 << 26, 0x7FFFFFFF, 0xFFFFFFFF} {
		x := append([]byte{}, fr...)
		binary.LittleEndian.PutUint32(x[12:], n)
		cs = append(cs, req(1, eMal, fmt.Sprintf("declared length %d > body", n), "POST", "/lm/blocks", x))
	}
	for i, m := range mutations(rng, fr, nmut) {
		cs = append(cs, req(1, eUnk, fmt.Sprintf("frame mutation %d", i), "POST", "/lm/blocks?noindexing=true", m))
	}

	// ---- raw volumes ----
	vol := volume16(func(x, y, z int) uint64 { return uint64(30 + x/8) })
	cs = append(cs,
		req(11, eWell, "POST raw one block", "POST", "/lm/raw/0_1_2/16_16_16/16_16_0", vol),
		req(11, eMal, "POST raw short body", "POST", "/lm/raw/0_1_2/16_16_16/16_16_0", vol[:1000]),
		req(11, eMal, "POST raw empty body", "POST", "/lm/raw/0_1_2/16_16_16/16_16_0", []byte{}),
		req(11, eUnk, "POST raw unaligned offset", "POST", "/lm/raw/0_1_2/16_16_16/3_16_0", vol),
		req(11, eUnk, "POST raw huge size, tiny body", "POST", "/lm/raw/0_1_2/1600_1600_1600/0_0_0", vol[:64]),
		req(11, eUnk, "POST raw negative size", "POST", "/lm/raw/0_1_2/-16_16_16/0_0_0", vol),
		req(11, eUnk, "POST raw lz4, huge size, tiny body", "POST", "/lm/raw/0_1_2/1600_1600_1600/0_0_0?compression=lz4", vol[:64]),
		req(11, eUnk, "POST raw gzip, huge size, tiny body", "POST", "/lm/raw/0_1_2/1600_1600_1600/0_0_0?compression=gzip", vol[:64]),
		req(11, eUnk, "POST raw lz4, overflowing size", "POST", "/lm/raw/0_1_2/320_107367629_536903681/0_0_0?compression=lz4", vol[:64]),
		req(11, eUnk, "POST raw unknown compression", "POST", "/lm/raw/0_1_2/16_16_16/16_16_0?compression=bogus", vol),
		req(11, eWell, "GET raw of one absent block", "GET", "/lm/raw/0_1_2/16_16_16/160_160_160", nil),
		req(11, eWell, "GET raw of two absent blocks", "GET", "/lm/raw/0_1_2/32_16_16/160_160_160", nil),
	)

	// ---- (3) sparse volumes through split-supervoxel ----
	good := rleBody([]span{{0, 1, 1, 4}, {0, 2, 1, 4}}, 2)
	cs = append(cs,
		req(2, eWell, "split-supervoxel valid", "POST", "/lm2/split-supervoxel/1", good),
		req(2, eWell, "read the split block", "GET", "/lm2/raw/0_1_2/16_16_16/0_0_0", nil),
		req(2, eMal, "span count larger than body", "POST", "/lm/split-supervoxel/1", rleBody([]span{{0, 3, 1, 4}}, 1000)),
		req(2, eMal, "span count 2^32-1", "POST", "/lm/split-supervoxel/1", rleBody([]span{{0, 3, 1, 4}}, 0xFFFFFFFF)),
		req(2, eMal, "span count 2^31", "POST", "/lm/split-supervoxel/1", rleBody(nil, 1<<31)),
		req(2, eMal, "not a binary sparse volume", "POST", "/lm/split-supervoxel/1", append([]byte{1}, good[1:]...)),
		req(2, eMal, "header cut", "POST", "/lm/split-supervoxel/1", good[:5]),
		req(2, eMal, "count cut", "POST", "/lm/split-supervoxel/1", good[:10]),
		req(2, eMal, "span cut", "POST", "/lm/split-supervoxel/1", good[:20]),
		req(2, eUnk, "negative run length", "POST", "/lm/split-supervoxel/1", rleBody([]span{{0, 4, 1, -4}, {0, 4, 1, 6}}, 2)),
		req(2, eUnk, "run far outside the volume", "POST", "/lm/split-supervoxel/1", rleBody([]span{{2000000000, 2000000000, 2000000000, 100}}, 1)),
		req(2, eUnk, "empty sparse volume", "POST", "/lm/split-supervoxel/1", rleBody(nil, 0)),
		req(2, eUnk, "split label 0", "POST", "/lm/split-supervoxel/0", good),
		req(2, eUnk, "split label 2^64-1", "POST", "/lm/split-supervoxel/18446744073709551615", good),
		req(2, eUnk, "split disabled endpoint", "POST", "/lm/split/1", good),
	)

	// ---- (4) label index, indices, mappings ----
	// one block, one supervoxel: protobuf serialises maps in no fixed order, and the probe compares bytes
	idx20 := marshalIndex(protoIndex(20, map[uint64]map[uint64]uint32{blockKey(5, 5, 5): {20: 107}}))
	onlyLabel := marshalIndex(&proto.LabelIndex{Label: 20})
	cs = append(cs,
		req(3, eWell, "POST index", "POST", "/lm/index/20", idx20),
		withProbe(req(3, eMal, "index: label field then garbage", "POST", "/lm/index/20", append(append([]byte{}, onlyLabel...), 0x0a, 0xff)), "GET", "/lm/index/20", nil),
		withProbe(req(3, eMal, "index: valid message then garbage", "POST", "/lm/index/20", append(append([]byte{}, idx20...), 0x0a, 0xff)), "GET", "/lm/index/20", nil),
		withProbe(req(3, eUnk, "index posted to another label", "POST", "/lm/index/20", marshalIndex(protoIndex(21, map[uint64]map[uint64]uint32{1: {21: 1}}))), "GET", "/lm/index/20", nil),
		req(3, eUnk, "index for label 0", "POST", "/lm/index/0", idx20),
		req(3, eUnk, "index for label 2^64-1", "POST", "/lm/index/18446744073709551615", marshalIndex(protoIndex(18446744073709551615, map[uint64]map[uint64]uint32{1: {18446744073709551615: 1}}))),
		req(3, eUnk, "index whose blocks carry no counts", "POST", "/lm/index/21", marshalIndex(protoIndex(21, map[uint64]map[uint64]uint32{blockKey(0, 0, 0): {}}))),
		req(3, eWell, "GET supervoxel-sizes of that index", "GET", "/lm/supervoxel-sizes/21", nil),
		req(3, eWell, "GET sparsevol-size of that index", "GET", "/lm/sparsevol-size/21", nil),
		req(3, eWell, "GET supervoxels of that index", "GET", "/lm/supervoxels/21", nil),
		req(3, eWell, "GET index 20", "GET", "/lm/index/20", nil),
	)
	for i, m := range mutations(rng, idx20, nmut) {
		cs = append(cs, withProbe(req(3, protoExpect(m, &proto.LabelIndex{}), fmt.Sprintf("index mutation %d", i), "POST", "/lm/index/20", m), "GET", "/lm/index/20", nil))
	}
	two := marshalIndices(protoIndex(22, map[uint64]map[uint64]uint32{1: {22: 5}}), protoIndex(23, map[uint64]map[uint64]uint32{2: {23: 5}}))
	cs = append(cs,
		req(4, eWell, "POST indices", "POST", "/lm/indices", two),
		req(4, eMal, "indices: an index with the reserved label 0", "POST", "/lm/indices", marshalIndices(protoIndex(24, map[uint64]map[uint64]uint32{1: {24: 5}}), protoIndex(0, map[uint64]map[uint64]uint32{1: {1: 1}}))),
		req(4, eMal, "indices: garbage", "POST", "/lm/indices", []byte{0x0a, 0xff, 0xff}),
		req(4, eUnk, "GET indices with a non-JSON body", "GET", "/lm/indices", []byte{0x0a, 0xff}),
	)
	for i, m := range mutations(rng, two, nmut) {
		cs = append(cs, req(4, protoExpect(m, &proto.LabelIndices{}), fmt.Sprintf("indices mutation %d", i), "POST", "/lm/indices", m))
	}
	maps := marshalMappings(&proto.MappingOp{Mutid: 2, Mapped: 60, Original: []uint64{61, 62}})
	cs = append(cs,
		req(5, eWell, "POST mappings", "POST", "/lm/mappings", marshalMappings(&proto.MappingOp{Mutid: 2, Mapped: 70, Original: []uint64{71}})),
		withProbe(req(5, eMal, "mappings: valid op then garbage", "POST", "/lm/mappings", append(append([]byte{}, maps...), 0x0a, 0xff)), "GET", "/lm/mapping", []byte("[61,62,51]")),
		req(5, eMal, "mappings: garbage", "POST", "/lm/mappings", []byte{0x0a, 0xff, 0xff}),
		req(5, eUnk, "mapping query with a non-JSON body", "GET", "/lm/mapping", []byte("[1,2")),
		req(5, eWell, "mapping query", "GET", "/lm/mapping", []byte("[51,71,5]")),
	)
	for i, m := range mutations(rng, maps, nmut) {
		cs = append(cs, withProbe(req(5, protoExpect(m, &proto.MappingOps{}), fmt.Sprintf("mappings mutation %d", i), "POST", "/lm/mappings", m), "GET", "/lm/mapping", []byte("[61,62,51]")))
	}

	// ---- (5) annotation elements and blocks ----
	elems := elemsJSON(el(1, 1, 1, "Note", "A"), elem{Pos: [3]int32{2, 2, 2}, Kind: "PreSyn", Rels: []rel{{"PreSynTo", [3]int32{3, 3, 3}}}}, el(3, 3, 3, "PostSyn"))
	cs = append(cs,
		req(6, eWell, "POST elements", "POST", "/ann/elements", elems),
		req(13, eWell, "POST elements in two blocks, one adds a tag the other drops", "POST", "/ann/elements",
			elemsJSON(el(1, 1, 1, "Note"), el(100, 1, 1, "Note", "A"))),
		req(6, eMal, "elements: unknown kind", "POST", "/ann/elements", []byte(`[{"Pos":[1,2,3],"Kind":"Bogus"}]`)),
		req(6, eMal, "elements: position with a string", "POST", "/ann/elements", []byte(`[{"Pos":[1,"a",3],"Kind":"Note"}]`)),
		req(6, eMal, "elements: coordinate beyond int32", "POST", "/ann/elements", []byte(`[{"Pos":[1,2,99999999999],"Kind":"Note"}]`)),
		req(6, eUnk, "elements: null element", "POST", "/ann/elements", []byte(`[null]`)),
		req(6, eUnk, "elements: extreme coordinates", "POST", "/ann/elements", []byte(`[{"Pos":[2147483647,-2147483648,0],"Kind":"Note","Prop":{}}]`)),
		req(6, eWell, "POST annotation blocks", "POST", "/ann/blocks", []byte(`{"3,0,0":[{"Pos":[200,2,3],"Kind":"Note","Prop":{}}]}`)),
		req(6, eMal, "annotation blocks: non-numeric block key", "POST", "/ann/blocks", []byte(`{"a,b":[{"Pos":[1,2,3],"Kind":"Note","Prop":{}}]}`)),
		req(6, eMal, "annotation blocks: an array", "POST", "/ann/blocks", []byte(`[1,2]`)),
		req(6, eWell, "GET elements", "GET", "/ann/elements/300_64_64/0_0_0", nil),
		req(6, eWell, "GET tag", "GET", "/ann/tag/A", nil),
		req(6, eWell, "DELETE element", "DELETE", "/ann/element/3_3_3", nil),
		req(6, eUnk, "DELETE element that does not exist", "DELETE", "/ann/element/9_9_9", nil),
		req(6, eUnk, "move to a malformed coordinate", "POST", "/ann/move/1_1_1/5_5", nil),
	)
	for i, m := range mutations(rng, elems, nmut) {
		cs = append(cs, req(6, jsonExpect(m), fmt.Sprintf("elements mutation %d", i), "POST", "/ann/elements", m))
	}

	// ---- (6) roi, keyvalue, neuronjson ----
	roi := []byte(`[[1,1,1,3],[1,2,1,3],[2,2,0,5]]`)
	cs = append(cs,
		req(7, eWell, "POST roi", "POST", "/roi/roi", roi),
		withProbe(req(7, eMal, "roi: a span whose end precedes its start", "POST", "/roi/roi", []byte(`[[2,1,1,3],[1,2,5,3]]`)), "GET", "/roi/roi", nil),
		withProbe(req(7, eMal, "roi: cut JSON", "POST", "/roi/roi", roi[:14]), "GET", "/roi/roi", nil),
		withProbe(req(7, eMal, "roi: coordinate beyond int32", "POST", "/roi/roi", []byte(`[[1,1,1,99999999999]]`)), "GET", "/roi/roi", nil),
		req(7, eWell, "GET roi", "GET", "/roi/roi", nil),
		req(7, eWell, "roi ptquery", "POST", "/roi/ptquery", []byte(`[[40,40,40],[1,2,3]]`)),
		req(7, eUnk, "roi ptquery with 2d points", "POST", "/roi/ptquery", []byte(`[[1,2]]`)),
		req(7, eUnk, "roi partition batchsize 0", "GET", "/roi/partition?batchsize=0", nil),
		req(7, eUnk, "roi partition batchsize -1", "GET", "/roi/partition?batchsize=-1", nil),
		req(7, eUnk, "roi partition batchsize non-numeric", "GET", "/roi/partition?batchsize=x", nil),
		req(7, eWell, "roi partition", "GET", "/roi/partition?batchsize=2", nil),
		req(7, eWell, "roi mask", "GET", "/roi/mask/0_1_2/64_64_64/0_0_0", nil),
		req(7, eUnk, "roi mask of 10^14 voxels", "GET", "/roi/mask/0_1_2/100000_100000_10000/0_0_0", nil),
		req(7, eUnk, "roi mask of 2^93 voxels", "GET", "/roi/mask/0_1_2/2147483647_2147483647_2147483647/0_0_0", nil),
		req(7, eUnk, "roi mask negative size", "GET", "/roi/mask/0_1_2/-64_64_64/0_0_0", nil),
	)
	for i, m := range mutations(rng, roi, nmut) {
		cs = append(cs, req(7, jsonExpect(m), fmt.Sprintf("roi mutation %d", i), "POST", "/roi/roi", m))
	}
	kvs, _ := pb.Marshal(&proto.KeyValues{Kvs: []*proto.KeyValue{{Key: "k1", Value: []byte("v1")}, {Key: "k2", Value: []byte("v2")}}})
	cs = append(cs,
		req(8, eWell, "POST key", "POST", "/kv/key/b", []byte{0, 1, 2, 0xff}),
		req(8, eWell, "POST keyvalues", "POST", "/kv/keyvalues", kvs),
		withProbe(req(8, eMal, "keyvalues: garbage", "POST", "/kv/keyvalues", []byte{0x0a, 0xff, 0xff}), "GET", "/kv/key/a", nil),
		req(8, eUnk, "GET keyvalues with a non-JSON body", "GET", "/kv/keyvalues?json=true", []byte("[\"a\",")),
		req(8, eWell, "GET keyvalues", "GET", "/kv/keyvalues?json=true", []byte(`["a","b","nope"]`)),
		req(8, eWell, "GET keyrange", "GET", "/kv/keyrange/a/z", nil),
	)
	for i, m := range mutations(rng, kvs, nmut) {
		cs = append(cs, withProbe(req(8, protoExpect(m, &proto.KeyValues{}), fmt.Sprintf("keyvalues mutation %d", i), "POST", "/kv/keyvalues", m), "GET", "/kv/key/a", nil))
	}
	nj := []byte(`{"bodyid":1001,"status":"traced","soma":[1,2,3]}`)
	cs = append(cs,
		req(9, eWell, "POST neuron annotation", "POST", "/nj/key/1001?u=tester", nj),
		withProbe(req(9, eMal, "neuron annotation: cut JSON", "POST", "/nj/key/1000?u=tester", nj[:20]), "GET", "/nj/key/1000", nil),
		withProbe(req(9, eMal, "neuron annotation: an array", "POST", "/nj/key/1000?u=tester", []byte(`[1]`)), "GET", "/nj/key/1000", nil),
		withProbe(req(9, eMal, "neuron annotation: bodyid differs from key", "POST", "/nj/key/1000?u=tester", nj), "GET", "/nj/key/1000", nil),
		req(9, eUnk, "neuron annotation: non-numeric key", "POST", "/nj/key/abc?u=tester", nj),
		req(9, eUnk, "neuron annotation: key 0", "POST", "/nj/key/0?u=tester", []byte(`{"bodyid":0}`)),
		req(9, eUnk, "neuron annotation: key 2^64-1", "POST", "/nj/key/18446744073709551615?u=tester", []byte(`{"bodyid":18446744073709551615}`)),
		req(9, eUnk, "neuron annotation: a _time field that is not a string", "POST", "/nj/key/11?u=tester", []byte(`{"bodyid":11,"x_time":5}`)),
		req(9, eWell, "GET neuron annotation afterwards", "GET", "/nj/key/1000", nil),
		req(9, eWell, "POST neuron annotation afterwards", "POST", "/nj/key/1002?u=tester", []byte(`{"bodyid":1002,"a":"b"}`)),
		req(9, eUnk, "neuron query: list mixing a number and a string", "GET", "/nj/query", []byte(`{"a":[2.5,"s"]}`)),
		req(9, eUnk, "neuron query: empty list", "GET", "/nj/query", []byte(`{"a":[]}`)),
		req(9, eUnk, "neuron query: nested object", "GET", "/nj/query", []byte(`{"a":{"b":[1]}}`)),
		req(9, eWell, "neuron query", "GET", "/nj/query", []byte(`{"a":1}`)),
		req(9, eWell, "neuron query on a list of numbers", "GET", "/nj/query", []byte(`{"a":[1,2]}`)),
		req(9, eWell, "GET all neuron annotations", "GET", "/nj/all", nil),
	)
	for i, m := range mutations(rng, []byte(`{"bodyid":1003,"a":[1,2],"b_time":"t"}`), nmut) {
		cs = append(cs, req(9, jsonExpect(m), fmt.Sprintf("neuron annotation mutation %d", i), "POST", "/nj/key/1003?u=tester", m))
	}

	// ---- hostile URLs ----
	for _, u := range []string{
		"/lm/raw/0_1_2/16_16_16/0_0_0", "/lm/raw/0_1_2/100000_100000_100000/0_0_0", "/lm/raw/0_1_2/-16_16_16/0_0_0",
		"/lm/raw/0_1_2/a_b_c/0_0_0", "/lm/raw/0_1_2/16_16/0_0_0", "/lm/raw/0_1_2/16_16_16/-16_0_0", "/lm/raw/0_1_2/16_16_16/-16_-16_-16",
		"/lm/raw/0_1_2/0_0_0/0_0_0", "/lm/raw/0_1_2/16_16_16/2147483647_0_0", "/lm/raw/0_1_2/2147483647_1_1/0_0_0",
		"/lm/label/1_2", "/lm/label/a_b_c", "/lm/label/99999999999_0_0", "/lm/label/-1_-1_-1", "/lm/label/2147483647_2147483647_2147483647",
		"/lm/label/1_1_1?scale=99", "/lm/label/1_1_1?scale=-1", "/lm/label/1_1_1?scale=x",
		"/lm/labels", "/lm/sparsevol/0", "/lm/sparsevol/18446744073709551615", "/lm/sparsevol/18446744073709551616", "/lm/sparsevol/-1", "/lm/sparsevol/abc",
		"/lm/sparsevol/1?minx=abc", "/lm/sparsevol/1?minx=-2147483648&maxx=2147483647", "/lm/sparsevol/1?format=blocks", "/lm/sparsevol/1?scale=200",
		"/lm/sparsevol-by-point/1_1", "/lm/sparsevol-by-point/-5_-5_-5", "/lm/sparsevol-coarse/0", "/lm/sparsevol-size/18446744073709551615",
		"/lm/blocks/16_16_16/0_0_0", "/lm/blocks/0_0_0/0_0_0", "/lm/blocks/1600000_16_16/0_0_0", "/lm/blocks/-16_16_16/0_0_0", "/lm/blocks/16_16_16/5_0_0",
		"/lm/specificblocks?blocks=0,0", "/lm/specificblocks?blocks=a,b,c", "/lm/specificblocks?blocks=0,0,0,99999999999,0,0", "/lm/specificblocks?blocks=-1,-1,-1",
		"/lm/index/0", "/lm/index/18446744073709551615", "/lm/index/-1", "/lm/index/x", "/lm/maxlabel", "/lm/nextlabel", "/lm/size/0", "/lm/size/18446744073709551615",
		"/lm/supervoxels/0", "/lm/supervoxel-sizes/0", "/lm/lastmod/0", "/lm/history/1/x/y", "/lm/mutations-range/a/b",
		"/lm/isotropic/0_1/16_16/0_0_0", "/lm/raw/0_1/16_16/0_0_0", "/lm/raw/0_1/0_0/0_0_0", "/lm/raw/0_1/100000_100000/0_0_0", "/lm/raw/0_1/-5_5/0_0_0", "/lm/raw/7_8/16_16/0_0_0",
		"/lm/pseudocolor/0_1/16_16/0_0_0", "/lm/pseudocolor/0_1/-16_16/0_0_0", "/lm/tile/xy/0/0_0_0", "/lm/listlabels?start=x", "/lm/listlabels?number=-5",
		"/kv/keyrange/a", "/kv/key/", "/kv/keyrangevalues/z/a", "/kv/keyrangevalues/a/z?jsontar=true&json=true",
		"/ann/elements/10_10_10/0_0", "/ann/elements/-10_10_10/0_0_0", "/ann/elements/2147483647_2147483647_2147483647/0_0_0", "/ann/label/0", "/ann/label/abc", "/ann/label/18446744073709551615",
		"/ann/scan?byCoord=maybe", "/ann/roi/nonexistent", "/ann/roi/roi,badversion", "/ann/all-elements", "/ann/blocks/64_64/0_0_0", "/ann/blocks/-64_64_64/0_0_0",
		"/roi/mask/0_1/16_16/0_0_0", "/roi/mask/0_1_2/a_b_c/0_0_0", "/nj/key/-1", "/nj/keyrange/a/b", "/nj/keyrangevalues/5/1", "/nj/fields?x=y", "/nj/keyvalues",
	} {
		cs = append(cs, req(10, eUnk, "hostile URL", "GET", u, nil))
	}
	cs = append(cs, geometryCases(rng, thorough)...)
	cs = append(cs,
		req(10, eUnk, "POST maxlabel 0", "POST", "/lm/maxlabel/0", nil),
		req(10, eUnk, "POST maxlabel non-numeric", "POST", "/lm/maxlabel/x", nil),
		req(10, eUnk, "POST nextlabel 0", "POST", "/lm/nextlabel/0", nil),
		req(10, eUnk, "POST nextlabel -1", "POST", "/lm/nextlabel/-1", nil),
		req(10, eUnk, "merge of nothing", "POST", "/lm/merge", []byte(`[]`)),
		req(10, eUnk, "merge into label 0", "POST", "/lm/merge", []byte(`[0,1]`)),
		req(10, eUnk, "merge non-JSON", "POST", "/lm/merge", []byte(`[1,`)),
		req(10, eUnk, "cleave label 0", "POST", "/lm/cleave/0", []byte(`[1]`)),
		req(10, eUnk, "cleave non-JSON", "POST", "/lm/cleave/1", []byte(`[1`)),
		req(10, eUnk, "renumber non-JSON", "POST", "/lm/renumber", []byte(`[1`)),
		req(10, eUnk, "renumber odd list", "POST", "/lm/renumber", []byte(`[1,2,3]`)),
		req(10, eUnk, "labels with 2d points", "GET", "/lm/labels", []byte(`[[1,2]]`)),
		req(10, eUnk, "labels non-JSON", "GET", "/lm/labels", []byte(`[[1,2,3]`)),
		req(10, eWell, "labels", "GET", "/lm/labels", []byte(`[[1,2,3],[9,0,0],[500,500,500]]`)),
		req(10, eUnk, "sizes non-JSON", "GET", "/lm/sizes", []byte(`[1,`)),
		req(10, eUnk, "specificblocks on a repaired server", "GET", "/lm/specificblocks?blocks=0,0,0,3,0,0", nil),
	)
	return withResourceOptions(cs, thorough)
}

// POST elements confined to one annotation block each: stored elements, then the post.
func elementCases(rng *lib.Rand, thorough bool) []jcase {
	cs := []jcase{
		// the stored element at 1 loses tag 7 while the posted element at 2 gains it
		{Slot: 10, Cur: []aelem{{1, []int{7}}}, NewE: []aelem{{1, nil}, {2, []int{7}}}},
		{Slot: 11, Cur: []aelem{{1, []int{7}}, {2, []int{8}}}, NewE: []aelem{{1, []int{8}}, {2, []int{7}}}},
		{Slot: 12, Cur: []aelem{{1, []int{7}}}, NewE: []aelem{{1, nil}}},
		{Slot: 13, Cur: nil, NewE: []aelem{{1, []int{7}}, {2, []int{7}}}},
		{Slot: 14, Cur: []aelem{{1, []int{7, 8}}}, NewE: []aelem{{1, []int{7}}, {1, []int{8}}}},
	}
	n := 8
	if thorough {
		n = 80
	}
	for i := 0; i < n; i++ {
		c := jcase{Slot: 20 + i}
		randElems := func(k int) []aelem {
			var es []aelem
			for j := 0; j < k; j++ {
				e := aelem{Pos: 1 + rng.Intn(4)}
				for t := 1; t <= 3; t++ {
					if rng.Chance(0.4) {
						e.Tags = append(e.Tags, t)
					}
				}
				es = append(es, e)
			}
			return es
		}
		// stored elements have distinct positions (a second post to a position replaces the first)
		seen := map[int]bool{}
		for _, e := range randElems(1 + rng.Intn(3)) {
			if !seen[e.Pos] {
				seen[e.Pos] = true
				c.Cur = append(c.Cur, e)
			}
		}
		c.NewE = randElems(1 + rng.Intn(3))
		cs = append(cs, c)
	}
	return cs
}

// Sizes, offsets and counts in URLs: every endpoint that takes them is asked for geometries
// whose voxel count overflows (or wraps to something small) in 64-, 32- or 31-bit arithmetic,
// at offsets where data is stored (the seed puts a label block, an image block, ROI spans and
// an annotation at the origin), so that a handler that lets the size through goes on to use it.
func geometryCases(rng *lib.Rand, thorough bool) []jcase {
	sizes3 := []string{
		"2097152_2097152_2097152",          // 2^63: negative as int64
		"4194304_2097152_2097152",          // 2^64: wraps to 0
		"4194304_4194304_2097152",          // 2^65: wraps to 0
		"2097152_2097152_2097153",          // 2^63 + 2^42
		"320_107367629_536903681",          // 2^64 + 64: wraps to 64
		"2147483647_2147483647_2147483647", // (2^31-1)^3
		"1048576_1048576_1048576",          // 2^60
		"65536_65536_16",                   // 2^36: beyond every request limit, wraps to 0 as uint32
		"2048_2048_1024",                   // 2^32 voxels, small factors
		"-64_-64_64",                       // negative x negative
		"-2097152_-2097152_2097152",        // negative x negative, 2^63
		"4294967296_4294967296_1",          // 2^32 per dimension (beyond int32)
		"0_64_64",
		"64_64_-2147483648",
	}
	offsets3 := []string{"0_0_0", "2147483584_0_0", "-2147483648_-2147483648_-2147483648"}
	// (sizes between the request limit and ~2^31 voxels are honest large requests, not generated:
	// the child runs under ulimit -v)
	sizes2 := []string{"65536_65536", "2147483647_2147483647", "-64_-64", "2097152_2097152", "0_0", "4294967296_1", "1048576_4096"}
	if !thorough {
		offsets3 = offsets3[:2]
	}
	var cs []jcase
	add := func(name, method, url string, body []byte) {
		cs = append(cs, req(10, eUnk, name, method, url, body))
	}
	tiny := make([]byte, 64)
	for _, sz := range sizes3 {
		for _, off := range offsets3 {
			add("roi mask geometry", "GET", "/roi/mask/0_1_2/"+sz+"/"+off, nil)
			add("labelmap raw geometry", "GET", "/lm/raw/0_1_2/"+sz+"/"+off, nil)
			add("labelmap blocks geometry", "GET", "/lm/blocks/"+sz+"/"+off, nil)
			add("annotation elements geometry", "GET", "/ann/elements/"+sz+"/"+off, nil)
			add("annotation blocks geometry", "GET", "/ann/blocks/"+sz+"/"+off, nil)
			add("image raw geometry", "GET", "/img/raw/0_1_2/"+sz+"/"+off, nil)
			add("image subvolblocks geometry", "GET", "/img/subvolblocks/"+sz+"/"+off, nil)
		}
		// a body far shorter than the size announces
		add("labelmap POST raw geometry", "POST", "/lm/raw/0_1_2/"+sz+"/0_0_0", tiny)
		add("image POST raw geometry", "POST", "/img/raw/0_1_2/"+sz+"/0_0_0", tiny)
		add("labelmap supervoxels raw geometry", "GET", "/lm/raw/0_1_2/"+sz+"/0_0_0?supervoxels=true&compression=lz4", nil)
	}
	for _, sz := range sizes2 {
		for _, plane := range []string{"0_1", "0_2", "1_2"} {
			add("labelmap slice geometry", "GET", "/lm/raw/"+plane+"/"+sz+"/0_0_0", nil)
			add("image slice geometry", "GET", "/img/raw/"+plane+"/"+sz+"/0_0_0", nil)
		}
		add("labelmap isotropic geometry", "GET", "/lm/isotropic/0_1/"+sz+"/0_0_0", nil)
		add("image isotropic geometry", "GET", "/img/isotropic/0_1/"+sz+"/0_0_0", nil)
		add("labelmap pseudocolor geometry", "GET", "/lm/pseudocolor/0_1/"+sz+"/0_0_0", nil)
		add("image arb geometry", "GET", "/img/arb/0_0_0/10_0_0/0_10_0/"+sz, nil)
	}
	for _, res := range []string{"0", "-1", "1e-300", "NaN", "Inf", "-Inf", "0_0", "1e300"} {
		add("image arb resolution", "GET", "/img/arb/0_0_0/10_0_0/0_10_0/"+res, nil)
		add("image arb resolution, far corners", "GET", "/img/arb/0_0_0/2147483647_0_0/0_2147483647_0/"+res, nil)
	}
	for _, n := range []string{"2147483647", "-2147483648", "65536", "4294967296", "2097152", "1"} {
		add("roi partition count", "GET", "/roi/partition?batchsize="+n, nil)
		add("roi partition count (optimized)", "GET", "/roi/partition?batchsize="+n+"&optimized=true", nil)
		add("image blocks span", "GET", "/img/blocks/0_0_0/"+n, nil)
		add("labelmap scale", "GET", "/lm/raw/0_1_2/16_16_16/0_0_0?scale="+n, nil)
		add("labelmap listlabels count", "GET", "/lm/listlabels?number="+n, nil)
		add("keyvalue range of numbers", "GET", "/kv/keyrangevalues/"+n+"/"+n+"?json=true", nil)
		add("neuronjson range of numbers", "GET", "/nj/keyrange/"+n+"/"+n, nil)
	}
	for _, b := range []string{
		"2147483647,2147483647,2147483647", "-2147483648,-2147483648,-2147483648", "0,0,0,2147483647,0,0", "1048576,1048576,1048576",
		"2097152,2097152,2097152", "4294967296,0,0",
	} {
		add("labelmap specificblocks coordinates", "GET", "/lm/specificblocks?blocks="+b, nil)
		add("image specificblocks coordinates", "GET", "/img/specificblocks?blocks="+b, nil)
	}
	for _, q := range []string{
		"minx=-2147483648&maxx=2147483647&miny=-2147483648&maxy=2147483647&minz=-2147483648&maxz=2147483647",
		"minx=2147483647&maxx=-2147483648", "minz=4294967296", "maxx=-1&exact=true", "minx=0&maxx=0&format=rles&scale=7",
	} {
		add("labelmap sparsevol bounds", "GET", "/lm/sparsevol/1?"+q, nil)
		add("labelmap sparsevol-coarse bounds", "GET", "/lm/sparsevol-coarse/1?"+q, nil)
		add("labelmap sparsevol-size bounds", "GET", "/lm/sparsevol-size/1?"+q, nil)
	}
	for _, pt := range []string{"2147483647_2147483647_2147483647", "-2147483648_-2147483648_-2147483648", "2147483647_0_0", "4294967296_0_0"} {
		add("labelmap label at extreme point", "GET", "/lm/label/"+pt, nil)
		add("labelmap sparsevol-by-point extreme", "GET", "/lm/sparsevol-by-point/"+pt, nil)
		add("annotation element at extreme point", "DELETE", "/ann/element/"+pt, nil)
		add("annotation move to extreme point", "POST", "/ann/move/1_1_1/"+pt, nil)
		add("roi ptquery extreme", "POST", "/roi/ptquery", []byte("[["+strings.ReplaceAll(pt, "_", ",")+"]]"))
		add("labelmap labels extreme", "GET", "/lm/labels", []byte("[["+strings.ReplaceAll(pt, "_", ",")+"]]"))
	}
	return cs
}

// withResourceOptions: every request that is not well-formed is issued a second time with the
// options that make a handler take a server-wide resource before it looks at the payload
// (throttle=on|true takes the global throttle slot, max 1 by default), so that an error path
// that forgets to hand the resource back shows: after every request the driver issues a
// well-formed throttled request that must not be refused (503).  Well-formed throttled
// requests on every datatype that reads the option end each family.
func withResourceOptions(cs []jcase, thorough bool) []jcase {
	opts := []string{"throttle=on", "throttle=true", "throttle=on&interactive=true", "throttle=true&compression=lz4", "throttle=on&compression=bogus&interactive=false"}
	var out []jcase
	n := 0
	lastFam := -1
	flush := func(fam int) {
		if fam < 0 {
			return
		}
		for _, u := range []string{"/lm/blocks/16_16_16/0_0_0?throttle=on", "/lm/raw/0_1_2/16_16_16/0_0_0?throttle=true", "/lm/index/20?throttle=on",
			"/img/raw/0_1_2/16_16_16/0_0_0?throttle=on", "/img/subvolblocks/16_16_16/0_0_0?throttle=true", "/kv/mutations?throttle=on"} {
			out = append(out, req(12, eWell, "well-formed throttled request after the "+famNames[fam]+" family", "GET", u, nil))
		}
	}
	for _, c := range cs {
		if c.Fam != lastFam {
			flush(lastFam)
			lastFam = c.Fam
		}
		out = append(out, c)
		if c.Expect == eWell {
			continue
		}
		n++
		if c.Fam == 10 && !thorough && n%3 != 0 {
			continue // hostile URLs: a third of them in the quick tier
		}
		t := c
		m := *c.Main
		sep := "?"
		if strings.Contains(m.URL, "?") {
			sep = "&"
		}
		m.URL += sep + opts[n%len(opts)]
		t.Main = &m
		t.Name = c.Name + " [" + opts[n%len(opts)] + "]"
		out = append(out, t)
	}
	flush(lastFam)
	return out
}

// ---- conforming multi-step histories on annotation instances ----

type annElem struct {
	pos  [3]int32
	kind string
	tags []string
	rels []rel
}

func (e annElem) wire() elem {
	return elem{Pos: e.pos, Kind: e.kind, Tags: e.tags, Rels: e.rels}
}

// annotationHistories: sequences of conforming requests (every one must not be answered 5xx):
// posts that add elements and re-post several stored ones with tags and relationships removed
// or changed in one request, deletions, moves, and the reads of every view in between.  One
// history per region, on a plain annotation instance and on one synced with a labelmap.
func annotationHistories(rng *lib.Rand, thorough bool) []jcase {
	var cs []jcase
	nPlain, nSynced, nSteps := 8, 5, 9
	if thorough {
		nPlain, nSynced, nSteps = 60, 30, 14
	}
	hist := 0
	history := func(inst string, place func(i int) [3]int32, region string, scripted [][]int) {
		hist++
		tagName := func(t int) string { return fmt.Sprintf("H%d_%d", hist, t) }
		stored := map[int]*annElem{} // index of position -> element
		nextPos := 0
		var steps []step
		emit := func(name string, st step) {
			c := req(6, eWell, fmt.Sprintf("annotation history %d (%s): %s", hist, inst, name), st.Method, st.URL, st.Body)
			c.Pre = append([]step{}, steps...)
			c.preDone = true
			cs = append(cs, c)
			steps = append(steps, st)
		}
		storedIdx := func() []int {
			var l []int
			for i := 0; i < nextPos; i++ {
				if stored[i] != nil {
					l = append(l, i)
				}
			}
			return l
		}
		post := func(idxs []int, tagsOf func(i int) []int) {
			var es []elem
			inPost := map[int]bool{}
			for _, i := range idxs {
				inPost[i] = true
			}
			for _, i := range idxs {
				e := &annElem{pos: place(i), kind: []string{"Note", "PostSyn", "PreSyn", "Gap"}[i%4]}
				for _, t := range tagsOf(i) {
					e.tags = append(e.tags, tagName(t))
				}
				// relationships only to elements that exist (stored or in this post), never to itself
				for _, j := range append(storedIdx(), idxs...) {
					if j != i && len(e.rels) < 2 && rng.Chance(0.3) && (stored[j] != nil || inPost[j]) {
						dup := false
						for _, r := range e.rels {
							if r.To == place(j) {
								dup = true
							}
						}
						if !dup {
							e.rels = append(e.rels, rel{Rel: []string{"GroupedWith", "PostSynTo", "PreSynTo", "ConvergentTo"}[j%4], To: place(j)})
						}
					}
				}
				stored[i] = e
				es = append(es, e.wire())
			}
			emit(fmt.Sprintf("post %d elements", len(es)), step{"POST", "/" + inst + "/elements", elemsJSON(es...)})
		}
		randTags := func(int) []int {
			var ts []int
			for t := 1; t <= 3; t++ {
				if rng.Chance(0.5) {
					ts = append(ts, t)
				}
			}
			return ts
		}
		reads := func() {
			emit("read tag 1", step{"GET", "/" + inst + "/tag/" + tagName(1), nil})
			emit("read region", step{"GET", "/" + inst + "/elements/" + region, nil})
			emit("read blocks", step{"GET", "/" + inst + "/blocks/" + region, nil})
		}
		if scripted != nil {
			// scripted[0]: positions posted first, all with tag 1; scripted[1..]: positions re-posted without tags
			post(scripted[0], func(int) []int { return []int{1} })
			nextPos = len(scripted[0])
			for _, again := range scripted[1:] {
				post(again, func(int) []int { return nil })
				reads()
			}
			return
		}
		for s := 0; s < nSteps; s++ {
			have := storedIdx()
			switch k := rng.Intn(10); {
			case k < 3 || len(have) == 0: // add new elements (and maybe re-post stored ones with other tags)
				var idxs []int
				for j := 0; j < 1+rng.Intn(3); j++ {
					idxs = append(idxs, nextPos)
					nextPos++
				}
				for _, i := range have {
					if rng.Chance(0.3) {
						idxs = append(idxs, i)
					}
				}
				post(idxs, randTags)
			case k < 6: // re-post several stored elements with tags (and relationships) removed or changed
				var idxs []int
				for _, i := range have {
					if rng.Chance(0.7) {
						idxs = append(idxs, i)
					}
				}
				if len(idxs) == 0 {
					idxs = have
				}
				drop := rng.Intn(4) // 0: drop all tags
				post(idxs, func(i int) []int {
					var ts []int
					for t := 1; t <= 3; t++ {
						if t != drop && drop != 0 && rng.Chance(0.8) {
							ts = append(ts, t)
						}
					}
					return ts
				})
			case k < 8: // delete
				i := have[rng.Intn(len(have))]
				p := stored[i].pos
				stored[i] = nil
				emit("delete element", step{"DELETE", fmt.Sprintf("/%s/element/%d_%d_%d", inst, p[0], p[1], p[2]), nil})
			default: // move to a position never used before
				i := have[rng.Intn(len(have))]
				from, to := stored[i].pos, place(nextPos)
				stored[nextPos] = stored[i]
				stored[nextPos].pos = to
				stored[i] = nil
				nextPos++
				emit("move element", step{"POST", fmt.Sprintf("/%s/move/%d_%d_%d/%d_%d_%d", inst, from[0], from[1], from[2], to[0], to[1], to[2]), nil})
			}
			if s%3 == 2 {
				reads()
			}
		}
		reads()
	}
	// plain instance: each history in its own slab of z, spread over three blocks in x
	plain := func(h int) func(i int) [3]int32 {
		return func(i int) [3]int32 { return [3]int32{int32(1 + (i%3)*64 + i/3), 1, int32(64*(100+h) + 1)} }
	}
	// synced instance: inside the labelled block (0,0,0) of lm2 (16^3 voxels)
	synced := func(h int) func(i int) [3]int32 {
		// 32 positions per history: two rows of y, the row pair and z chosen by the history number
		return func(i int) [3]int32 { return [3]int32{int32(i % 16), int32((i/16)%2 + 2*(h%8)), int32((h / 8) % 16)} }
	}
	// corpus: k elements share a tag; several of them, among them the last of the tag's list, lose it in one post
	plainRegion := func(h int) string { return fmt.Sprintf("256_64_64/0_0_%d", 64*(100+h)) }
	syncedRegion := "16_16_16/0_0_0"
	for _, sc := range [][][]int{{{0, 1, 2}, {0, 2}}, {{0, 1, 2}, {0, 1, 2}}, {{0, 1, 2, 3, 4}, {1, 4}, {0, 3}}, {{0, 1, 2, 3}, {3, 2, 0}}} {
		history("ann", plain(hist+1), plainRegion(hist+1), sc)
		history("anns", synced(hist+1), syncedRegion, sc)
	}
	for h := 0; h < nPlain; h++ {
		history("ann", plain(hist+1), plainRegion(hist+1), nil)
	}
	for h := 0; h < nSynced; h++ {
		history("anns", synced(hist+1), syncedRegion, nil)
	}
	return cs
}
