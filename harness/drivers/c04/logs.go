package main

// Part 1 of C04: the append-only log.  Logs are written with the real filelog engine, the file is
// cut at every byte offset, and a freshly opened engine reads it with ReadAll and StreamAll
// (panics recovered).  Optionally records are appended after the cut by a re-opened engine.

import (
	"bytes"
	"fmt"
	"io"
	"os"
	"path/filepath"
	"strings"

	"github.com/janelia-flyem/dvid/dvid"
	"github.com/janelia-flyem/dvid/storage"
	_ "github.com/janelia-flyem/dvid/storage/filelog"

	"verif/harness/lib"
)

type jrec struct {
	T uint16 `json:"t"`
	D []byte `json:"d"`
}

type jlog struct {
	Kind  string `json:"kind"` // "log"
	Name  string `json:"name"`
	Recs  []jrec `json:"recs"`
	From  int    `json:"from"`
	To    int    `json:"to"` // inclusive; -1 = whole file
	After []jrec `json:"after,omitempty"`
	// what the process that appends After does with the topic BEFORE its first append, in one engine
	// object: a string over r (ReadAll) and s (StreamAll); "" = the append is its first access
	Pre string `json:"pre,omitempty"`
	// it also reads (ReadAll) between its appends
	Mid bool `json:"mid,omitempty"`
}

const (
	logData    = dvid.UUID("0123456789abcdef0123456789abcdef")
	logVersion = dvid.UUID("fedcba9876543210fedcba9876543210")
)

func openLog(dir string) dvid.Store {
	var c dvid.Config
	c.SetAll(map[string]interface{}{"path": dir})
	e := storage.GetEngine("filelog")
	if e == nil {
		fatal("filelog engine not registered")
	}
	st, _, err := e.NewStore(dvid.StoreConfig{Config: c, Engine: "filelog"})
	if err != nil {
		fatal("filelog NewStore: %v", err)
	}
	return st
}

func appendAll(dir string, recs []jrec) {
	st := openLog(dir)
	wl := st.(storage.WriteLog)
	for _, r := range recs {
		if err := wl.Append(logData, logVersion, storage.LogMessage{EntryType: r.T, Data: r.D}); err != nil {
			fatal("append: %v", err)
		}
	}
	st.Close()
}

func logFile(dir string) string { return filepath.Join(dir, string(logData+"-"+logVersion)) }

// readerCap: the capacity of the slice ioutil.ReadAll returns for a file of n bytes (same call,
// same Go runtime, on an in-memory reader)
func readerCap(n int) int {
	b, _ := io.ReadAll(bytes.NewReader(make([]byte, n)))
	return cap(b)
}

type readOut struct {
	panicked bool
	err      bool
	msgs     []storage.LogMessage
}

// readWith: one read of the topic through an open engine object; kind 'r' ReadAll, 's' StreamAll
func readWith(st dvid.Store, kind byte) (out readOut) {
	rl := st.(storage.ReadLog)
	if kind == 'r' {
		p, _ := lib.Recover(func() {
			m, err := rl.ReadAll(logData, logVersion)
			out.msgs, out.err = m, err != nil
		})
		out.panicked = p
		return
	}
	ch := make(chan storage.LogMessage, 16)
	done := make(chan struct{})
	go func() {
		for m := range ch {
			out.msgs = append(out.msgs, storage.LogMessage{EntryType: m.EntryType, Data: append([]byte{}, m.Data...)})
		}
		close(done)
	}()
	p, _ := lib.Recover(func() {
		err := rl.StreamAll(logData, logVersion, ch)
		out.err = err != nil
	})
	if p {
		// the channel is closed by StreamAll on its regular paths only
		lib.Recover(func() { close(ch) })
	}
	out.panicked = p
	<-done
	return
}

func readBoth(dir string) (ra, sa readOut) {
	st := openLog(dir)
	ra = readWith(st, 'r')
	st.Close()
	st = openLog(dir)
	sa = readWith(st, 's')
	st.Close()
	return
}

// reopenAppend: ONE engine object (one process after the crash) reads the topic as pre says, then
// appends recs (reading in between when mid).  Returns the last pre-read of each kind.
func reopenAppend(dir, pre string, mid bool, recs []jrec) (lastR, lastS *readOut) {
	st := openLog(dir)
	for i := 0; i < len(pre); i++ {
		o := readWith(st, pre[i])
		if pre[i] == 'r' {
			lastR = &o
		} else {
			lastS = &o
		}
	}
	wl := st.(storage.WriteLog)
	for _, r := range recs {
		if err := wl.Append(logData, logVersion, storage.LogMessage{EntryType: r.T, Data: r.D}); err != nil {
			fatal("append: %v", err)
		}
		if mid {
			readWith(st, 'r')
		}
	}
	st.Close()
	return
}

func coqRec(bd *lib.Binder, r jrec) string { return fmt.Sprintf("(%d, %s)", r.T, bd.Bytes(r.D)) }
func coqRecs(bd *lib.Binder, rs []jrec) string {
	ss := make([]string, len(rs))
	for i, r := range rs {
		ss[i] = coqRec(bd, r)
	}
	return "[" + strings.Join(ss, "; ") + "]"
}

func sameRec(m storage.LogMessage, r jrec) bool {
	return m.EntryType == r.T && bytes.Equal(m.Data, r.D)
}

// compress an observation against the records of the log (see Model/C04Run.v)
// i > 0: print a padded record relative to the segment start (Model/C04Run.v shift)
func compress(bd *lib.Binder, recs, after []jrec, o readOut, i int) (term, shape string) {
	if o.panicked {
		return "OX", "panic"
	}
	if o.err {
		return "OE", "error"
	}
	k := 0
	for k < len(o.msgs) && k < len(recs) && sameRec(o.msgs[k], recs[k]) {
		k++
	}
	if len(o.msgs) == k {
		return fmt.Sprintf("(OP %d)", k), "prefix"
	}
	if len(after) > 0 && len(o.msgs) == k+len(after) {
		ok := true
		for i, a := range after {
			if !sameRec(o.msgs[k+i], a) {
				ok = false
			}
		}
		if ok {
			return fmt.Sprintf("(OA %d)", k), "prefix+appended"
		}
	}
	if len(o.msgs) == k+1 && k < len(recs) && o.msgs[k].EntryType == recs[k].T {
		d := o.msgs[k].Data
		m := 0
		for m < len(d) && m < len(recs[k].D) && d[m] == recs[k].D[m] {
			m++
		}
		zeros := true
		for _, x := range d[m:] {
			if x != 0 {
				zeros = false
			}
		}
		if zeros {
			if m-i >= 0 {
				return fmt.Sprintf("(OD %d %d %d)", k, m-i, len(d)-m+i), "padded"
			}
		}
	}
	ss := make([]string, len(o.msgs))
	for i, m := range o.msgs {
		ss[i] = fmt.Sprintf("(%d, %s)", m.EntryType, bd.Bytes(m.Data))
	}
	return "(OR [" + strings.Join(ss, "; ") + "])", "other"
}

// runLog executes one log case on the implementation and registers it.
func runLog(run *lib.Run, c jlog) {
	base, err := os.MkdirTemp("", "c04log")
	if err != nil {
		fatal("%v", err)
	}
	defer os.RemoveAll(base)
	full := filepath.Join(base, "full")
	appendAll(full, c.Recs)
	file, err := os.ReadFile(logFile(full))
	if err != nil && len(c.Recs) > 0 {
		fatal("read written log: %v", err)
	}
	to := c.To
	if to < 0 || to > len(file) {
		to = len(file)
	}
	bd := lib.NewBinder()
	// run-length encoded observations, one accumulator per emitted case
	type acc struct {
		segs  []string
		last  string
		count int
		after []jrec
	}
	add := func(a *acc, rcap int, ra, sa readOut) {
		rt, rshape := compress(bd, c.Recs, a.after, ra, a.count)
		stt, sshape := compress(bd, c.Recs, a.after, sa, a.count)
		run.Count("ReadAll:" + rshape)
		run.Count("StreamAll:" + sshape)
		cur := fmt.Sprintf("%d%%nat, %s, %s", rcap, rt, stt)
		if a.count > 0 && cur == a.last {
			a.count++
			return
		}
		if a.count > 0 {
			a.segs = append(a.segs, fmt.Sprintf("(%d%%nat, %s)", a.count, a.last))
		}
		rt, _ = compress(bd, c.Recs, a.after, ra, 0)
		stt, _ = compress(bd, c.Recs, a.after, sa, 0)
		a.last, a.count = fmt.Sprintf("%d%%nat, %s, %s", rcap, rt, stt), 1
	}
	flush := func(a *acc) string {
		if a.count > 0 {
			a.segs = append(a.segs, fmt.Sprintf("(%d%%nat, %s)", a.count, a.last))
			a.count = 0
		}
		return strings.Join(a.segs, "; ")
	}
	final := &acc{after: c.After}
	pre := &acc{} // what the appending process itself read before its first append (a plain torn-log read)
	cut := filepath.Join(base, "cut")
	for n := c.From; n <= to; n++ {
		os.RemoveAll(cut)
		os.MkdirAll(cut, 0o755)
		if err := os.WriteFile(logFile(cut), file[:n], 0o644); err != nil {
			fatal("%v", err)
		}
		if len(c.After) > 0 {
			if c.Pre != "" {
				fr, fs := readBoth(cut) // the kind the process does not read is read by a process of its own
				lr, ls := reopenAppend(cut, c.Pre, c.Mid, c.After)
				if lr != nil {
					fr = *lr
				}
				if ls != nil {
					fs = *ls
				}
				add(pre, readerCap(n), fr, fs)
			} else {
				reopenAppend(cut, "", c.Mid, c.After)
			}
		}
		st, _ := os.Stat(logFile(cut))
		ra, sa := readBoth(cut)
		add(final, readerCap(int(st.Size())), ra, sa)
	}
	run.Dist["offsets"] += to - c.From + 1
	kind := "log-truncate"
	if len(c.After) > 0 {
		kind = "log-append-after-cut"
		if c.Pre != "" || c.Mid {
			kind = "log-read-then-append-after-cut"
		}
	}
	sizes := make([]string, len(c.Recs))
	for i, r := range c.Recs {
		sizes[i] = fmt.Sprint(len(r.D))
	}
	mid := ""
	if c.Mid {
		mid = "+mid"
	}
	term := bd.Wrap(fmt.Sprintf("CLog %s %d%%nat %s [%s]", coqRecs(bd, c.Recs), c.From, coqRecs(bd, c.After), flush(final)))
	run.Add(kind, term, c, fmt.Sprintf("%s/%s/%d-%d/%d/%s%s", kind, strings.Join(sizes, ","), c.From, to, len(c.After), c.Pre, mid))
	if c.Pre != "" {
		term := bd.Wrap(fmt.Sprintf("CLog %s %d%%nat [] [%s]", coqRecs(bd, c.Recs), c.From, flush(pre)))
		cp := c
		cp.Name += "/reads-before-the-append"
		run.Add("log-read-before-append", term, cp, fmt.Sprintf("log-read-before-append/%s/%d-%d/%s", strings.Join(sizes, ","), c.From, to, c.Pre))
	}
	// the writer's framing, literally (ties Model.FileLog.encode to fileLogs.Append)
	if len(file) <= 64 && len(c.After) == 0 && c.From == 0 {
		bd2 := lib.NewBinder()
		run.Add("log-encode", bd2.Wrap(fmt.Sprintf("CEnc %s %s", coqRecs(bd2, c.Recs), bd2.Bytes(file))), jlog{Kind: "enc", Name: c.Name, Recs: c.Recs}, "")
	}
}

func patterned(b byte, n int) []byte { return bytes.Repeat([]byte{b}, n) }

func genLogs(run *lib.Run, o lib.Opts, rng *lib.Rand) {
	// corpus: the finding as first observed (three 700-byte records), a smaller version that meets
	// both the padded and the panicking region of io.ReadAll's first capacities, and degenerate logs
	corpus := []jlog{
		{Name: "3x200", Recs: []jrec{{1, patterned(1, 200)}, {2, patterned(2, 200)}, {3, patterned(3, 200)}}},
		{Name: "empty-payloads", Recs: []jrec{{0, nil}, {65535, nil}, {7, []byte{0}}}},
		{Name: "no-records", Recs: nil},
		{Name: "zeros", Recs: []jrec{{0, patterned(0, 20)}, {0, patterned(0, 9)}}},
		{Name: "cap-boundary", Recs: []jrec{{9, patterned(5, 250)}, {9, patterned(6, 250)}, {9, patterned(7, 20)}}},
	}
	if o.Thorough() {
		corpus = append(corpus, jlog{Name: "3x700", Recs: []jrec{{1, patterned(1, 700)}, {2, patterned(2, 700)}, {3, patterned(3, 700)}}})
	} else {
		// the quick tier cuts the 3x700 log only around its record boundaries and capacity steps
		for _, w := range [][2]int{{0, 40}, {500, 520}, {700, 720}, {890, 900}, {1400, 1425}, {2040, 2060}, {2100, 2118}} {
			corpus = append(corpus, jlog{Name: "3x700-window", From: w[0], To: w[1], Recs: []jrec{{1, patterned(1, 700)}, {2, patterned(2, 700)}, {3, patterned(3, 700)}}})
		}
	}
	for _, c := range corpus {
		c.Kind = "log"
		if c.To == 0 {
			c.To = -1
		}
		runLog(run, c)
	}
	// appended-after-a-cut: every offset of a small log
	runLog(run, jlog{Kind: "log", Name: "append-after-cut", To: -1,
		Recs:  []jrec{{1, []byte{11, 12, 13}}, {2, []byte{21, 22, 23, 24, 25, 26, 27, 28}}, {3, nil}},
		After: []jrec{{4, []byte{41, 42}}, {5, []byte{51}}}})

	// the process after the crash reads the topic before its first append (what labelmap's start-up
	// does), in every order of its first accesses, for every torn length
	small := []jrec{{1, []byte{11, 12, 13}}, {2, []byte{21, 22, 23, 24, 25, 26, 27, 28}}, {3, nil}}
	for _, v := range []struct {
		pre string
		mid bool
	}{{"r", false}, {"s", false}, {"rr", false}, {"sr", false}, {"rs", true}, {"", true}} {
		runLog(run, jlog{Kind: "log", Name: "read-then-append-after-cut-" + v.pre, To: -1, Pre: v.pre, Mid: v.mid,
			Recs: small, After: []jrec{{4, []byte{41, 42}}, {5, []byte{51}}}})
	}
	// a longer torn record (header + part of a payload that is longer than the appended records)
	runLog(run, jlog{Kind: "log", Name: "read-then-append-after-long-cut", To: -1, Pre: "s",
		Recs: []jrec{{7, patterned(9, 40)}, {8, patterned(8, 25)}}, After: []jrec{{4, []byte{41, 42}}, {5, nil}, {6, patterned(6, 30)}}})

	n := 8
	if o.Thorough() {
		n = 120
	}
	if o.N > 0 {
		n = o.N
	}
	for i := 0; i < n; i++ {
		k := 1 + rng.Intn(6)
		var recs []jrec
		for j := 0; j < k; j++ {
			var sz int
			switch rng.Intn(6) {
			case 0:
				sz = 0
			case 1:
				sz = rng.Pick(1, 2, 5, 6, 7)
			case 2:
				sz = 100 + rng.Intn(300) // crosses io.ReadAll capacity steps
			default:
				sz = rng.Intn(40)
			}
			var d []byte
			if sz >= 100 {
				d = patterned(byte(rng.Intn(256)), sz)
			} else {
				d = rng.Bytes(sz)
			}
			recs = append(recs, jrec{T: uint16(rng.Pick(0, 1, 2, 255, 256, 65535, rng.Intn(65536))), D: d})
		}
		c := jlog{Kind: "log", Name: fmt.Sprintf("random-%d", i), Recs: recs, To: -1}
		tot := 0
		for _, r := range recs {
			tot += 6 + len(r.D)
		}
		if tot <= 80 {
			c.After = []jrec{{T: uint16(rng.Intn(65536)), D: rng.Bytes(rng.Intn(12))}}
			if rng.Bool() {
				c.After = append(c.After, jrec{T: uint16(rng.Intn(65536)), D: rng.Bytes(rng.Intn(40))})
			}
			c.Pre = []string{"", "r", "s", "rs", "sr", "ss"}[rng.Intn(6)]
			c.Mid = rng.Chance(0.3)
		}
		runLog(run, c)
	}
}
