// Driver C04: crash recovery.  Part 1 (logs.go): the append-only log cut at every byte offset.
// Part 2 (crash.go): metadata write ordering under process death at every store write.
package main

import (
	"encoding/json"
	"fmt"
	"io"
	"log"
	"os"

	"github.com/janelia-flyem/dvid/dvid"

	"verif/harness/dvh"
	"verif/harness/lib"
)

func fatal(f string, a ...interface{}) {
	fmt.Fprintf(os.Stderr, "c04: "+f+"\n", a...)
	os.Exit(3)
}

func main() {
	dvh.MaybeChild()
	o := lib.ParseOpts()
	dvid.SetLogMode(dvid.CriticalMode)
	log.SetOutput(io.Discard)
	rng := lib.NewRand(o.Seed)
	run := lib.NewRun("C04", o)
	run.Header("From DV Require Import Base.Prelude Model.FileLog Model.Persist Model.C04Run.", "Local Open Scope N_scope.")
	rule := "logs: corpus + random record lists (1-6 records, payload 0-400 bytes, boundary entry types), each cut at EVERY byte offset, read by ReadAll and StreamAll of a freshly opened filelog engine; a log case is distinct by (kind, payload sizes, offset range, appended count)"

	if o.Replay != "" {
		var k struct {
			Kind string `json:"kind"`
		}
		if err := lib.LoadReplay(o.Replay, &k); err != nil {
			fatal("%v", err)
		}
		switch k.Kind {
		case "log":
			var c jlog
			lib.LoadReplay(o.Replay, &c)
			runLog(run, c)
		case "crash":
			var c jcrash
			lib.LoadReplay(o.Replay, &c)
			runCrashCase(run, c, o)
		default:
			b, _ := json.Marshal(k)
			fatal("unknown replay case %s", b)
		}
		run.Finish("c04case", "replay", tail)
		return
	}
	genLogs(run, o, rng)
	genCrash(run, o, rng)
	run.Extra["exhaustive"] = true
	run.Extra["exhaustive_note"] = "every byte offset of every generated log file"
	run.Finish("c04case", rule, tail)
}

const tail = `
Definition spec_fail := Eval vm_compute in c04_spec_fail cases.
Definition model_mismatch := Eval vm_compute in c04_model_mismatch cases.
`
