package main

// Part 2 of C04: metadata write ordering.  A workload of repo-level operations is run once to the
// end in a child server process (the reference: write trace, cumulative write counts and a snapshot
// after every operation), then once per crash point: the child is told to die immediately after
// (or before) its N-th store write, a NEW process is started on the same directories, and its
// snapshot is taken.  Optionally the recovering process is itself killed at one of its own writes
// and a third process is started (second crash).

import (
	"encoding/json"
	"fmt"
	"os"
	"sort"
	"strings"
	"time"

	"github.com/janelia-flyem/dvid/datatype/common/proto"
	pb "google.golang.org/protobuf/proto"

	"verif/harness/dvh"
	"verif/harness/lib"
)

type wop struct {
	Op   string `json:"op"`             // newrepo newdata commit newversion branch merge deldata delrepo put del mappings
	Type string `json:"type,omitempty"` // newdata: datatype ("" = keyvalue)
	// mappings (labelmap POST mappings): one MappingOp per entry, [mapped, original...]; acknowledged once
	// it is in the mutation log, from which a new process rebuilds the version's mapping
	Maps    [][]uint64 `json:"maps,omitempty"`
	Repo    int        `json:"repo,omitempty"`
	V       int        `json:"v,omitempty"`
	Parents []int      `json:"parents,omitempty"`
	Branch  string     `json:"branch,omitempty"`
	Name    string     `json:"name,omitempty"`
	Key     string     `json:"key,omitempty"`
	Val     string     `json:"val,omitempty"`
}

type cpoint struct {
	Class  string `json:"class"`            // meta | data | txn (the N-th read-write transaction of the underlying badger DB)
	N      int    `json:"n"`                // the process dies at the N-th write of the class (0 = before the first)
	Mode   string `json:"mode"`             // after | before
	Second int    `json:"second,omitempty"` // the recovering process dies after its Second-th metadata write
}

type jcrash struct {
	Kind   string   `json:"kind"` // "crash"
	Name   string   `json:"name"`
	Ops    []wop    `json:"ops"`
	Points []cpoint `json:"points,omitempty"` // empty: every write of the workload
	// crash points that were re-executed: what was observed the first time
	FirstOutcomes []string `json:"first_outcomes,omitempty"`
}

// ---- string -> number tables shared by a case ----
type table struct {
	ids map[string]int
	n   int
}

func newTable() *table { return &table{ids: map[string]int{"": 0}} }
func (t *table) of(s string) int {
	if v, ok := t.ids[s]; ok {
		return v
	}
	t.n++
	t.ids[s] = t.n
	return t.n
}

// ---- snapshots ----
type snapNode struct {
	V        int
	Parents  []int
	Children []int
	Locked   bool
	Branch   int
}
type snapRepo struct {
	RootV int
	Nodes []snapNode
	Data  [][2]int // name#, instance id
}
type snapshot struct {
	OK    bool
	Repos []snapRepo
	KV    []int // value# (0 = absent / error) for each probe
	// ids handed out to a repo and an instance created AFTER the snapshot was taken (only in
	// processes started after a crash): root version id, instance id; 0 = not probed
	NewV, NewI int
}

type repoInfo struct {
	Root          string
	Alias         string
	DataInstances map[string]json.RawMessage
	DAG           struct {
		Root  string
		Nodes map[string]struct {
			Branch    string
			UUID      string
			VersionID int
			Locked    bool
			Parents   []int
			Children  []int
		}
	}
	MutationID      uint64
	SavedMutationID uint64
}

type probe struct {
	Repo int
	Name string
	V    int
	Key  string
}

type world struct {
	names, branches, keys, vals *table
	probes                      []probe
	lmProbes                    []lmProbe
}

// the label mapping of one labelmap instance at one version: GET mapping of every supervoxel the
// workload mentions (nolookup: the mapping alone, no label index needed) and GET mappings
type lmProbe struct {
	Repo int
	Name string
	V    int
	SVs  []uint64
}

func newWorld(ops []wop) *world {
	w := &world{names: newTable(), branches: newTable(), keys: newTable(), vals: newTable()}
	seen := map[string]bool{}
	type inst struct {
		repo int
		name string
	}
	versions := map[inst][]int{} // versions at which the workload writes the instance, in order of first use
	keys := map[inst][]string{}
	has := func(xs []int, x int) bool {
		for _, y := range xs {
			if x == y {
				return true
			}
		}
		return false
	}
	for _, o := range ops {
		switch o.Op {
		case "newdata", "deldata":
			w.names.of(o.Name)
		case "branch":
			w.branches.of(o.Branch)
		case "put", "del":
			w.names.of(o.Name)
			w.keys.of(o.Key)
			w.vals.of(o.Val)
			in := inst{o.Repo, o.Name}
			if !has(versions[in], o.V) {
				versions[in] = append(versions[in], o.V)
			}
			k := fmt.Sprintf("%d/%s/%s", o.Repo, o.Name, o.Key)
			if !seen[k] {
				seen[k] = true
				keys[in] = append(keys[in], o.Key)
			}
		}
	}
	// every key is read at every version the workload writes its instance at (a key deleted in one
	// version is read through its descendants, a key never written there through its ancestors)
	lmV := map[inst][]int{}
	lmSV := map[inst][]uint64{}
	var lmOrder []inst
	for _, o := range ops {
		if o.Op != "mappings" {
			continue
		}
		w.names.of(o.Name)
		in := inst{o.Repo, o.Name}
		if _, ok := lmV[in]; !ok {
			lmOrder = append(lmOrder, in)
		}
		if !has(lmV[in], o.V) {
			lmV[in] = append(lmV[in], o.V)
		}
		for _, m := range o.Maps {
			for _, l := range m {
				dup := false
				for _, x := range lmSV[in] {
					dup = dup || x == l
				}
				if !dup {
					lmSV[in] = append(lmSV[in], l)
				}
			}
		}
	}
	for _, in := range lmOrder {
		sort.Slice(lmSV[in], func(a, b int) bool { return lmSV[in][a] < lmSV[in][b] })
		// newest version first: a mapping rebuilt lazily must not depend on an ancestor having been asked before
		vs := append([]int{}, lmV[in]...)
		sort.Sort(sort.Reverse(sort.IntSlice(vs)))
		for _, v := range vs {
			w.lmProbes = append(w.lmProbes, lmProbe{in.repo, in.name, v, lmSV[in]})
		}
	}
	done := map[inst]bool{}
	for _, o := range ops {
		if o.Op != "put" && o.Op != "del" {
			continue
		}
		in := inst{o.Repo, o.Name}
		if done[in] {
			continue
		}
		done[in] = true
		for _, k := range keys[in] {
			for _, v := range versions[in] {
				w.probes = append(w.probes, probe{o.Repo, o.Name, v, k})
			}
		}
	}
	return w
}

// live view of a child: uuids by version, repo roots by ordinal (alias "r<ordinal>")
type view struct {
	vuuid map[int]string
	root  map[int]string
	infos map[string]repoInfo
}

func (v *view) openNode(repo int) string {
	best, bestV := v.root[repo], 0
	for _, ri := range v.infos {
		if ri.Root != v.root[repo] {
			continue
		}
		for _, n := range ri.DAG.Nodes {
			if !n.Locked && (bestV == 0 || n.VersionID < bestV) {
				best, bestV = n.UUID, n.VersionID
			}
		}
	}
	return best
}

func getView(p *dvh.Proc) (*view, bool) {
	st, body, alive := p.Get("/api/repos/info")
	if !alive || st != 200 {
		return nil, false
	}
	var infos map[string]repoInfo
	if err := json.Unmarshal(body, &infos); err != nil {
		return nil, false
	}
	v := &view{vuuid: map[int]string{}, root: map[int]string{}, infos: infos}
	for _, ri := range infos {
		var ord int
		fmt.Sscanf(ri.Alias, "r%d", &ord)
		v.root[ord] = ri.Root
		for _, n := range ri.DAG.Nodes {
			v.vuuid[n.VersionID] = n.UUID
		}
	}
	return v, true
}

func takeSnapshot(p *dvh.Proc, w *world) snapshot {
	v, ok := getView(p)
	if !ok {
		return snapshot{}
	}
	s := snapshot{OK: true}
	for _, ri := range v.infos {
		sr := snapRepo{}
		for _, n := range ri.DAG.Nodes {
			if n.UUID == ri.DAG.Root {
				sr.RootV = n.VersionID
			}
			sr.Nodes = append(sr.Nodes, snapNode{n.VersionID, n.Parents, n.Children, n.Locked, w.branches.of(n.Branch)})
		}
		sort.Slice(sr.Nodes, func(i, j int) bool { return sr.Nodes[i].V < sr.Nodes[j].V })
		for name := range ri.DataInstances {
			r, _ := p.Call("iid", ri.Root, name)
			sr.Data = append(sr.Data, [2]int{w.names.of(name), int(r.N)})
		}
		sort.Slice(sr.Data, func(i, j int) bool { return sr.Data[i][0] < sr.Data[j][0] })
		s.Repos = append(s.Repos, sr)
	}
	sort.Slice(s.Repos, func(i, j int) bool { return s.Repos[i].RootV < s.Repos[j].RootV })
	for _, pr := range w.probes {
		val := 0
		if u, ok := v.vuuid[pr.V]; ok {
			st, body, _ := p.Get("/api/node/" + u + "/" + pr.Name + "/key/" + pr.Key)
			if st == 200 {
				val = w.vals.of(string(body))
			}
		}
		s.KV = append(s.KV, val)
	}
	for _, pr := range w.lmProbes {
		a, b := 0, 0
		if u, ok := v.vuuid[pr.V]; ok {
			q, _ := json.Marshal(pr.SVs)
			if st, body, _ := p.HTTP("GET", "/api/node/"+u+"/"+pr.Name+"/mapping?nolookup=true", q); st == 200 {
				a = w.vals.of("mapping " + string(body))
			}
			if st, body, _ := p.Get("/api/node/" + u + "/" + pr.Name + "/mappings"); st == 200 {
				lines := strings.Split(strings.TrimSpace(string(body)), "\n")
				sort.Strings(lines)
				b = w.vals.of("mappings " + strings.Join(lines, ";"))
			}
		}
		s.KV = append(s.KV, a, b)
	}
	return s
}

// execOp runs one workload operation; alive=false when the child died instead of answering.
func execOp(p *dvh.Proc, o wop) (alive bool) {
	v, ok := getView(p)
	if !ok {
		return !p.Dead
	}
	post := func(url string, body interface{}) bool {
		_, _, a := p.PostJSON(url, body)
		return a
	}
	switch o.Op {
	case "newrepo":
		return post("/api/repos", map[string]string{"alias": fmt.Sprintf("r%d", o.Repo)})
	case "newdata":
		// the HTTP handler refuses new instances on a committed node: address the repo through its
		// lowest open node (the generators only ask for an instance when the repo has one)
		typ := o.Type
		if typ == "" {
			typ = "keyvalue"
		}
		return post("/api/repo/"+v.openNode(o.Repo)+"/instance", map[string]string{"typename": typ, "dataname": o.Name})
	case "mappings":
		ops := &proto.MappingOps{}
		for _, m := range o.Maps {
			op := &proto.MappingOp{}
			if len(m) > 0 {
				op.Mapped, op.Original, op.Mutid = m[0], m[1:], uint64(len(ops.Mappings)+1)
			}
			ops.Mappings = append(ops.Mappings, op)
		}
		ser, err := pb.Marshal(ops)
		if err != nil {
			fatal("marshal mappings: %v", err)
		}
		_, _, a := p.Post("/api/node/"+v.vuuid[o.V]+"/"+o.Name+"/mappings", ser)
		return a
	case "commit":
		return post("/api/node/"+v.vuuid[o.V]+"/commit", map[string]string{"note": "c"})
	case "newversion":
		return post("/api/node/"+v.vuuid[o.V]+"/newversion", map[string]string{"note": "v"})
	case "branch":
		return post("/api/node/"+v.vuuid[o.V]+"/branch", map[string]string{"branch": o.Branch, "note": "b"})
	case "merge":
		var ps []string
		for _, pv := range o.Parents {
			ps = append(ps, v.vuuid[pv])
		}
		return post("/api/repo/"+v.root[o.Repo]+"/merge", map[string]interface{}{"mergeType": "conflict-free", "parents": ps, "note": "m"})
	case "put":
		_, _, a := p.Post("/api/node/"+v.vuuid[o.V]+"/"+o.Name+"/key/"+o.Key, []byte(o.Val))
		return a
	case "del":
		_, _, a := p.HTTP("DELETE", "/api/node/"+v.vuuid[o.V]+"/"+o.Name+"/key/"+o.Key, nil)
		return a
	case "deldata":
		m0, d0 := p.WritesDone()
		if _, a := p.Call("deldata", v.root[o.Repo], o.Name); !a {
			return false
		}
		// the instance leaves the repo in a background goroutine: wait for its save AND for the
		// deletion of its key-values (one DeleteAll), in whichever order the code does them
		// (completed store calls are counted, so the next operation cannot overtake the deletion)
		for i := 0; i < 2000; i++ {
			m, d := p.WritesDone()
			if p.Dead {
				return false
			}
			if m > m0 && d > d0 {
				break
			}
			time.Sleep(5 * time.Millisecond)
		}
		return !p.Dead
	case "delrepo":
		_, a := p.Call("delrepo", v.root[o.Repo], "")
		return a
	}
	fatal("unknown workload op %q", o.Op)
	return false
}

type reference struct {
	trace    []string
	cumMeta  []int // after init, then after each op
	cumData  []int
	refs     []snapshot
	leftover int // keys still stored under deleted instances' ids after their deletion finished
	// read-write transactions of the underlying badger DB (seen only when the DVID tree carries the
	// storage/badger hook): cumulative count after init and after each op, and the ordinals after
	// which the process is in a state no store-call boundary shows
	txnHook  bool
	cumTxn   []int
	roFinal  *snapshot // shown by a read-only server started after the whole workload and a clean stop
	interior []int     // followed by another transaction of the same store call
	loose    []int     // outside any counted store call
}

func freshDir() string {
	d, err := os.MkdirTemp("", "c04crash")
	if err != nil {
		fatal("%v", err)
	}
	return d
}

func runReference(c jcrash, w *world) reference {
	dir := freshDir()
	defer os.RemoveAll(dir)
	p, err := dvh.Start(dvh.Opts{Dir: dir})
	if err != nil {
		fatal("reference child: %v", err)
	}
	var r reference
	m, d, _ := p.Writes()
	r.cumMeta, r.cumData = append(r.cumMeta, m), append(r.cumData, d)
	_, tn, _, _ := p.Txns()
	r.cumTxn = append(r.cumTxn, tn)
	r.refs = append(r.refs, takeSnapshot(p, w))
	for _, o := range c.Ops {
		iid := 0
		if o.Op == "deldata" {
			if v, ok := getView(p); ok {
				rr, _ := p.Call("iid", v.root[o.Repo], o.Name)
				iid = int(rr.N)
			}
		}
		if !execOp(p, o) {
			fatal("reference child died at %+v: %s", o, p.Stderr)
		}
		if iid > 0 {
			r.leftover += p.RawCount(iid)
		}
		m, d, _ := p.Writes()
		r.cumMeta, r.cumData = append(r.cumMeta, m), append(r.cumData, d)
		_, tn, _, _ := p.Txns()
		r.cumTxn = append(r.cumTxn, tn)
		r.refs = append(r.refs, takeSnapshot(p, w))
	}
	_, _, r.trace = p.Writes()
	r.txnHook, _, r.interior, r.loose = p.Txns()
	p.Quit()
	// a read-only server on what the finished workload left (deleted repos and instances included)
	r.roFinal = &snapshot{}
	if pr, err := dvh.Start(dvh.Opts{Dir: dir, ReadOnly: true}); err == nil {
		*r.roFinal = takeSnapshot(pr, w)
		pr.Quit()
	}
	return r
}

// runCrash: returns the snapshot taken by a new process after the crash (OK=false: it did not start),
// and the number of metadata writes that process issued while starting (recovery's own writes).
// With ro, a READ-ONLY server is started first on what the crash left (it must come up and answer; it
// cannot repair anything), stopped, and then the read-write one.
func runCrash(c jcrash, w *world, pt cpoint, ro bool) (snapshot, int, string, *snapshot) {
	dir := freshDir()
	defer os.RemoveAll(dir)
	spec := fmt.Sprintf("%s:%d:%s", pt.Class, pt.N, pt.Mode)
	if pt.N == 0 {
		spec = fmt.Sprintf("%s:1:before", pt.Class)
	}
	p, err := dvh.Start(dvh.Opts{Dir: dir, Crash: spec})
	if err == nil {
		for _, o := range c.Ops {
			if !execOp(p, o) {
				break
			}
		}
		// the injected death comes a grace period after the write returned: if the rest of the workload
		// issued no further write, the child may still be in that period
		for i := 0; i < 100 && !p.Dead; i++ {
			time.Sleep(10 * time.Millisecond)
			p.Writes()
		}
		if !p.Dead {
			m, d, _ := p.Writes()
			tail := p.StderrTail()
			p.Kill()
			return snapshot{}, 0, fmt.Sprintf("crash point not reached: %d metadata and %d data writes at the end of the workload %s", m, d, tail), nil
		}
	}
	if p.Exit != 77 {
		return snapshot{}, 0, fmt.Sprintf("child exit status %d instead of the injected crash: %s", p.Exit, p.Stderr), nil
	}
	if pt.Second > 0 {
		p2, err := dvh.Start(dvh.Opts{Dir: dir, Crash: fmt.Sprintf("meta:%d:after", pt.Second)})
		if err == nil {
			// recovery issued fewer writes than Second: nothing was injected; stop it abruptly
			p2.Kill()
		}
	}
	var roSnap *snapshot
	if ro {
		roSnap = &snapshot{}
		if pr, err := dvh.Start(dvh.Opts{Dir: dir, ReadOnly: true}); err == nil {
			*roSnap = takeSnapshot(pr, w)
			pr.Quit()
		}
	}
	p3, err := dvh.Start(dvh.Opts{Dir: dir})
	if err != nil {
		return snapshot{}, 0, "restart failed: " + err.Error(), roSnap
	}
	s := takeSnapshot(p3, w)
	rec := p3.Meta0
	// what would the recovered server issue next?  (freshness of ids after recovery)
	if _, body, alive := p3.PostJSON("/api/repos", map[string]string{"alias": "r999"}); alive {
		var m struct{ Root string }
		json.Unmarshal(body, &m)
		if v, ok := getView(p3); ok && m.Root != "" {
			for _, ri := range v.infos {
				if ri.Root == m.Root {
					for _, n := range ri.DAG.Nodes {
						s.NewV = n.VersionID
					}
				}
			}
			p3.PostJSON("/api/repo/"+m.Root+"/instance", map[string]string{"typename": "keyvalue", "dataname": "probe"})
			if r, _ := p3.Call("iid", m.Root, "probe"); r.S == 200 {
				s.NewI = int(r.N)
			}
		}
	}
	p3.Quit()
	return s, rec, "", roSnap
}

// ---- the property's oracle on one crash point, evaluated by the driver itself ----
// It decides only whether a point is RE-EXECUTED: process death right after a store write returned was
// seen to lose that write now and then inside the storage engine (harness/cmd/killcycle), which is
// outside the property.  A genuine ordering defect is deterministic for a given kill point, so a
// point is reported as it was first observed only if it fails again in both of two re-executions.
func snapEqual(a, b snapshot) bool {
	if a.OK != b.OK || len(a.Repos) != len(b.Repos) || len(a.KV) != len(b.KV) {
		return false
	}
	for i := range a.KV {
		if a.KV[i] != b.KV[i] {
			return false
		}
	}
	ints := func(x, y []int) bool {
		if len(x) != len(y) {
			return false
		}
		for i := range x {
			if x[i] != y[i] {
				return false
			}
		}
		return true
	}
	for i := range a.Repos {
		ra, rb := a.Repos[i], b.Repos[i]
		if ra.RootV != rb.RootV || len(ra.Nodes) != len(rb.Nodes) || len(ra.Data) != len(rb.Data) {
			return false
		}
		for k := range ra.Nodes {
			x, y := ra.Nodes[k], rb.Nodes[k]
			if x.V != y.V || x.Locked != y.Locked || x.Branch != y.Branch || !ints(x.Parents, y.Parents) || !ints(x.Children, y.Children) {
				return false
			}
		}
		for k := range ra.Data {
			if ra.Data[k] != rb.Data[k] {
				return false
			}
		}
	}
	return true
}

func pointHolds(ref reference, j int, s snapshot) bool {
	if !s.OK {
		return false
	}
	for _, r := range s.Repos {
		for _, n := range r.Nodes {
			if n.V == s.NewV {
				return false
			}
		}
		for _, d := range r.Data {
			if d[1] == s.NewI {
				return false
			}
		}
	}
	before, after := j-1, j
	if before < 0 {
		before = 0
	}
	ok := false
	for _, k := range []int{before, after} {
		if k >= 0 && k < len(ref.refs) && snapEqual(ref.refs[k], s) {
			ok = true
		}
	}
	return ok
}

// sameOutcome: same repos, key reads and next ids
func sameOutcome(a, b snapshot) bool { return snapEqual(a, b) && a.NewV == b.NewV && a.NewI == b.NewI }

type retryStats struct{ reexecuted, flaky, confirmed int }

// runCrashRobust executes a crash point; prev is the outcome of the preceding after-mode point of the
// same class (nil if none), lastWrite the trace label of the write the process died after ("" if unknown).
// roHolds: the read-only server came up and showed the state before or after the interrupted operation
func roHolds(ref reference, j int, ro *snapshot) bool {
	if ro == nil {
		return true
	}
	if !ro.OK {
		return false
	}
	for _, k := range []int{j - 1, j} {
		if k >= 0 && k < len(ref.refs) && snapEqual(ref.refs[k], *ro) {
			return true
		}
	}
	return false
}

func sameRO(a, b *snapshot) bool {
	if a == nil || b == nil {
		return a == b
	}
	return snapEqual(*a, *b)
}

func runCrashRobust(c jcase2, w *world, ref reference, pt cpoint, j int, prev *snapshot, lastWrite string, st *retryStats, ro bool) (snapshot, int, string, string, *snapshot) {
	s, rec, note, rs := runCrash(c.jcrash, w, pt, ro)
	first := ""
	failed := !pointHolds(ref, j, s) || !roHolds(ref, j, rs)
	suspicious := failed
	// a write that changes what a restart shows (ids record, repo blob) and yet left the outcome of the
	// preceding point: either it really changes nothing, or the engine lost it
	if !suspicious && prev != nil && pt.Mode == "after" && (strings.HasPrefix(lastWrite, "P3") || strings.HasPrefix(lastWrite, "P4") || strings.HasPrefix(lastWrite, "D4")) && sameOutcome(*prev, s) {
		suspicious = true
	}
	if !suspicious {
		return s, rec, note, first, rs
	}
	st.reexecuted++
	first = coqSnap(s)
	if rs != nil {
		first += " read-only " + coqSnap(*rs)
	}
	fails := 0
	var alt, altRO = snapshot{}, (*snapshot)(nil)
	var altRec int
	var altNote string
	haveAlt := false
	for i := 0; i < 2; i++ {
		s2, rec2, note2, rs2 := runCrash(c.jcrash, w, pt, ro)
		if sameOutcome(s, s2) && sameRO(rs, rs2) {
			fails++
		} else if !haveAlt {
			alt, altRec, altNote, altRO, haveAlt = s2, rec2, note2, rs2, true
		}
	}
	if fails == 2 {
		if failed {
			st.confirmed++
		}
		return s, rec, note, first, rs
	}
	st.flaky++
	return alt, altRec, altNote, first, altRO
}

type jcase2 struct{ jcrash }

// ---- Coq printing ----
func coqInts(xs []int) string {
	ss := make([]string, len(xs))
	for i, x := range xs {
		ss[i] = fmt.Sprint(x)
	}
	return "[" + strings.Join(ss, ";") + "]"
}

func coqSnap(s snapshot) string {
	if !s.OK {
		return "None"
	}
	var rs []string
	for _, r := range s.Repos {
		var ns []string
		for _, n := range r.Nodes {
			ns = append(ns, fmt.Sprintf("(%d,(%s,%s,%s,%d))", n.V, coqInts(n.Parents), coqInts(n.Children), lib.CoqBool(n.Locked), n.Branch))
		}
		var ds []string
		for _, d := range r.Data {
			ds = append(ds, fmt.Sprintf("(%d,%d)", d[0], d[1]))
		}
		rs = append(rs, fmt.Sprintf("(%d,[%s],[%s])", r.RootV, strings.Join(ns, ";"), strings.Join(ds, ";")))
	}
	return fmt.Sprintf("(Some ([%s], %s, (%d, %d)))", strings.Join(rs, ";"), coqInts(s.KV), s.NewV, s.NewI)
}

func coqOps(c jcrash, w *world) string {
	var ss []string
	u := 1000
	for _, o := range c.Ops {
		u++
		switch o.Op {
		case "newrepo":
			ss = append(ss, fmt.Sprintf("Some (PNewRepo %d)", u))
		case "newdata":
			ss = append(ss, fmt.Sprintf("Some (PNewData %d %d)", o.Repo, w.names.of(o.Name)))
		case "commit":
			ss = append(ss, fmt.Sprintf("Some (PCommit %d %d)", o.Repo, o.V))
		case "newversion":
			ss = append(ss, fmt.Sprintf("Some (PNewVersion %d %d None %d)", o.Repo, o.V, u))
		case "branch":
			ss = append(ss, fmt.Sprintf("Some (PNewVersion %d %d (Some %d) %d)", o.Repo, o.V, w.branches.of(o.Branch), u))
		case "merge":
			ss = append(ss, fmt.Sprintf("Some (PMerge %d %s %d)", o.Repo, coqInts(o.Parents), u))
		case "deldata":
			ss = append(ss, fmt.Sprintf("Some (PDeleteData %d %d)", o.Repo, w.names.of(o.Name)))
		case "delrepo":
			ss = append(ss, fmt.Sprintf("Some (PDeleteRepo %d)", o.Repo))
		default:
			ss = append(ss, "None")
		}
	}
	return "[" + strings.Join(ss, "; ") + "]"
}

func traceKinds(tr []string) []int {
	var ks []int
	for _, t := range tr {
		var k int
		fmt.Sscanf(t[1:], "%d", &k)
		ks = append(ks, k)
	}
	return ks
}

func opIndex(cum []int, n int) int {
	// the operation during which write n is issued: first j with n <= cum[j]; 0 = start-up
	for j, c := range cum {
		if n <= c {
			return j
		}
	}
	return len(cum)
}

func runCrashCase(run *lib.Run, c jcrash, o lib.Opts) {
	w := newWorld(c.Ops)
	ref := runReference(c, w)
	pts := c.Points
	if len(pts) == 0 {
		total := ref.cumMeta[len(ref.cumMeta)-1]
		for n := 0; n <= total; n++ {
			pts = append(pts, cpoint{Class: "meta", N: n, Mode: "after"})
		}
		// immediately-before points coincide, as persisted states, with the preceding after point;
		// they are run for a sample (all of them in the thorough tier)
		for n := 1; n <= total; n++ {
			if o.Thorough() || n%5 == 0 {
				pts = append(pts, cpoint{Class: "meta", N: n, Mode: "before"})
			}
		}
		totalD := ref.cumData[len(ref.cumData)-1]
		for n := 1; n <= totalD; n++ {
			pts = append(pts, cpoint{Class: "data", N: n, Mode: "after"})
			// (as with the metadata writes: a sample of the immediately-before points when the workload
			// has many data writes; all of them in the thorough tier)
			if o.Thorough() || totalD <= 10 || n%3 == 0 {
				pts = append(pts, cpoint{Class: "data", N: n, Mode: "before"})
			}
		}
		// below the store interface: after every transaction of the underlying DB that leaves the
		// process in a state no store-call boundary shows (another transaction of the same Put / Delete
		// follows, or the transaction was issued outside the counted calls)
		tp := append(append([]int{}, ref.interior...), ref.loose...)
		sort.Ints(tp)
		for i, n := range tp {
			if i == 0 || n != tp[i-1] {
				pts = append(pts, cpoint{Class: "txn", N: n, Mode: "after"})
			}
		}
	}
	if !ref.txnHook {
		if _, said := run.Extra["txn_hook_note"]; !said {
			run.Notes = append(run.Notes, "WARNING: no storage/badger transaction hook in this DVID tree (repo_patches/C04-hook.diff): crash points between two transactions of one store call were not executed")
			fmt.Fprintln(os.Stderr, "c04: WARNING: DVID tree without the storage/badger transaction hook (repo_patches/C04-hook.diff); transaction-level crash points skipped")
		}
		run.Extra["txn_hook"] = false
		run.Extra["txn_hook_note"] = "the DVID tree lacks the storage/badger transaction hook (repo_patches/C04-hook.diff): crash points between two transactions of one store call were NOT executed"
	} else if _, ok := run.Extra["txn_hook"]; !ok {
		run.Extra["txn_hook"] = true
	}
	var ps, psDel []string
	second := 0
	var st retryStats
	var firsts []string
	prevOutcome := map[string]*snapshot{}
	for _, pt := range pts {
		cumP := ref.cumMeta
		if pt.Class == "data" {
			cumP = ref.cumData
		}
		if pt.Class == "txn" {
			cumP = ref.cumTxn
		}
		lastWrite := ""
		if pt.Class == "meta" && pt.Mode == "after" && pt.N >= 1 && pt.N <= len(ref.trace) {
			lastWrite = ref.trace[pt.N-1]
		}
		var prev *snapshot
		if pt.Mode == "after" && pt.N >= 1 {
			prev = prevOutcome[pt.Class]
		}
		// the read-only start: after every metadata write and every transaction-level point; a sample of
		// the data-write points in the quick tier (their metadata is that of an operation boundary)
		ro := pt.Class != "data" || o.Thorough() || pt.N%4 == 0
		s, rec, note, first, rs := runCrashRobust(jcase2{c}, w, ref, pt, opIndex(cumP, pt.N), prev, lastWrite, &st, ro)
		if first != "" {
			firsts = append(firsts, fmt.Sprintf("%s:%d:%s first outcome %s", pt.Class, pt.N, pt.Mode, first))
		}
		if pt.Mode == "after" {
			cp := s
			prevOutcome[pt.Class] = &cp
		}
		if note != "" {
			run.Count("crash-run:" + strings.SplitN(note, ":", 2)[0])
			run.Notes = append(run.Notes, fmt.Sprintf("%s point %+v: %s", c.Name, pt, note))
		}
		cum := ref.cumMeta
		if pt.Class == "data" {
			cum = ref.cumData
		}
		if pt.Class == "txn" {
			cum = ref.cumTxn
		}
		eff := pt.N // number of writes of the class that are persisted
		if pt.Mode == "before" && pt.N > 0 {
			eff = pt.N - 1
		}
		j := opIndex(cum, pt.N)
		term := fmt.Sprintf("(%s, %d%%nat, %d%%nat, 0%%nat, %s)", lib.CoqBool(pt.Class == "meta"), eff, j, coqSnap(s))
		roTerm := ""
		if rs != nil {
			// what the read-only server showed: a point of its own (repos before or after the operation,
			// no ids are issued by it)
			roTerm = fmt.Sprintf("(false, %d%%nat, %d%%nat, 0%%nat, %s)", eff, j, coqSnap(*rs))
			run.Count("point:read-only-start")
		}
		if j >= 1 && j <= len(c.Ops) && c.Ops[j-1].Op == "deldata" {
			// crash points inside an instance delete (its key-value deletions, and the instant before
			// its blob save): a case of their own (known finding), so that they cannot mask anything
			// in the main case
			psDel = append(psDel, term)
			if roTerm != "" {
				psDel = append(psDel, roTerm)
			}
		} else {
			ps = append(ps, term)
			if roTerm != "" {
				ps = append(ps, roTerm)
			}
		}
		run.Count("point:" + pt.Class + "-" + pt.Mode)
		// second crash: kill the recovering process after each of its own writes
		if pt.Class == "meta" && pt.Mode == "after" && pt.Second == 0 && len(c.Points) == 0 && rec > 0 {
			lim := rec
			if !o.Thorough() && second >= 12 {
				lim = 0
			}
			for k := 1; k <= lim; k++ {
				s2, _, note2, first2, _ := runCrashRobust(jcase2{c}, w, ref, cpoint{Class: "meta", N: pt.N, Mode: "after", Second: k}, j, nil, "", &st, false)
				if first2 != "" {
					firsts = append(firsts, fmt.Sprintf("meta:%d:after second %d first outcome %s", pt.N, k, first2))
				}
				if note2 != "" {
					run.Notes = append(run.Notes, fmt.Sprintf("%s point %+v second %d: %s", c.Name, pt, k, note2))
				}
				ps = append(ps, fmt.Sprintf("(true, %d%%nat, %d%%nat, %d%%nat, %s)", eff, j, k, coqSnap(s2)))
				run.Count("point:second-crash")
				second++
			}
		}
	}
	if ref.roFinal != nil && len(c.Points) == 0 {
		ps = append(ps, fmt.Sprintf("(false, %d%%nat, %d%%nat, 0%%nat, %s)", ref.cumData[len(ref.cumData)-1], len(c.Ops), coqSnap(*ref.roFinal)))
		run.Count("point:read-only-start")
	}
	if len(firsts) > 0 {
		c.FirstOutcomes = firsts
	}
	var refs []string
	for _, s := range ref.refs {
		refs = append(refs, coqSnap(s))
	}
	cumN := func(xs []int) string {
		ss := make([]string, len(xs))
		for i, x := range xs {
			ss[i] = fmt.Sprintf("%d%%nat", x)
		}
		return "[" + strings.Join(ss, ";") + "]"
	}
	mk := func(ps []string) string {
		return fmt.Sprintf("(CCrash %s\n    %s\n    %s %s\n    [%s]\n    [%s])", coqOps(c, w), coqInts(traceKinds(ref.trace)),
			cumN(ref.cumMeta), cumN(ref.cumData), strings.Join(refs, ";\n     "), strings.Join(ps, ";\n     "))
	}
	var kinds []string
	for _, op := range c.Ops {
		kinds = append(kinds, op.Op)
	}
	run.Add("crash-workload", mk(ps), c, "crash/"+strings.Join(kinds, ","))
	if len(psDel) > 0 {
		cd := c
		cd.Name += "/instance-delete-data-points"
		cd.Points = nil
		for _, pt := range pts {
			cum := ref.cumMeta
			if pt.Class == "data" {
				cum = ref.cumData
			}
			if pt.Class == "txn" {
				cum = ref.cumTxn
			}
			if j := opIndex(cum, pt.N); j >= 1 && j <= len(c.Ops) && c.Ops[j-1].Op == "deldata" {
				cd.Points = append(cd.Points, pt)
			}
		}
		run.Add("crash-instance-delete", mk(psDel), cd, "crashdel/"+strings.Join(kinds, ","))
	}
	run.Dist["retries"] += st.reexecuted
	run.Dist["flaky_crash_points"] += st.flaky
	run.Dist["confirmed_on_reexecution"] += st.confirmed
	run.Dist["keys-left-after-DeleteAll"] += ref.leftover
	run.Dist["crash-points"] += len(ps)
	run.Dist["transactions"] += ref.cumTxn[len(ref.cumTxn)-1]
	run.Dist["transactions-inside-a-store-call"] += len(ref.interior)
	run.Dist["transactions-outside-store-calls"] += len(ref.loose)
	run.Dist["workload-ops"] += len(c.Ops)
	run.Dist["metadata-writes"] += ref.cumMeta[len(ref.cumMeta)-1]
}

func fixedWorkload() jcrash {
	return jcrash{Kind: "crash", Name: "W1", Ops: []wop{
		{Op: "newrepo", Repo: 1},
		{Op: "newdata", Repo: 1, Name: "kv1"},
		{Op: "put", Repo: 1, V: 1, Name: "kv1", Key: "k1", Val: "val1"},
		{Op: "commit", Repo: 1, V: 1},
		{Op: "newversion", Repo: 1, V: 1},
		{Op: "branch", Repo: 1, V: 1, Branch: "b1"},
		{Op: "put", Repo: 1, V: 2, Name: "kv1", Key: "k1", Val: "val2"},
		{Op: "put", Repo: 1, V: 3, Name: "kv1", Key: "k2", Val: "val3"},
		{Op: "del", Repo: 1, V: 3, Name: "kv1", Key: "k1"},
		{Op: "put", Repo: 1, V: 3, Name: "kv1", Key: "k1", Val: "val4"},
		{Op: "del", Repo: 1, V: 3, Name: "kv1", Key: "k1"},
		{Op: "commit", Repo: 1, V: 2},
		{Op: "commit", Repo: 1, V: 3},
		{Op: "merge", Repo: 1, Parents: []int{2, 3}},
		{Op: "newrepo", Repo: 2},
		{Op: "newdata", Repo: 2, Name: "kv2"},
		{Op: "newversion", Repo: 1, V: 4}, // refused: parent not committed (no write)
		{Op: "commit", Repo: 1, V: 4},
		{Op: "deldata", Repo: 1, Name: "kv1"},
		{Op: "delrepo", Repo: 2},
		{Op: "newrepo", Repo: 3},
	}}
}

// versionedKeys: every shape of one key over a version and its ancestors -- the ancestor holds a
// value / a tombstone / nothing, the version itself holds a value / a tombstone / nothing -- followed
// by a delete or a put, and read at the version, its ancestors and its descendants.  (A delete must
// hide the ancestor's value from the moment the version's own value is gone; a put must show its
// value from the moment the version's tombstone is gone.)
func versionedKeys() jcrash {
	kv := func(op string, v int, key, val string) wop {
		return wop{Op: op, Repo: 1, V: v, Name: "kv", Key: key, Val: val}
	}
	return jcrash{Kind: "crash", Name: "W2-versioned-keys", Ops: []wop{
		{Op: "newrepo", Repo: 1},
		{Op: "newdata", Repo: 1, Name: "kv"},
		kv("put", 1, "a", "a1"),
		kv("put", 1, "b", "b1"),
		kv("put", 1, "d", "d1"),
		kv("del", 1, "d", ""), // own value, no ancestor
		kv("put", 1, "e", "e1"),
		{Op: "commit", Repo: 1, V: 1},
		{Op: "newversion", Repo: 1, V: 1},
		kv("put", 2, "a", "a2"),
		kv("del", 2, "a", ""), // ancestor value + own value
		kv("del", 2, "b", ""), // ancestor value, no own value
		kv("put", 2, "c", "c2"),
		kv("del", 2, "c", ""), // own value only
		kv("put", 2, "d", "d2"),
		kv("del", 2, "d", ""), // ancestor tombstone + own value
		kv("del", 2, "e", ""),
		kv("del", 2, "e", ""),   // own tombstone already there
		kv("put", 2, "b", "b2"), // own tombstone -> value
		{Op: "commit", Repo: 1, V: 2},
		{Op: "newversion", Repo: 1, V: 2},
		kv("del", 3, "b", ""),   // ancestor value over an older ancestor value
		kv("put", 3, "a", "a3"), // ancestor tombstone over an older ancestor value
		kv("del", 3, "a", ""),
		kv("put", 3, "e", "e3"),
	}}
}

// labelMappings: acknowledged raw mapping batches of a labelmap instance (kept in the mutation log only)
// over an ancestry and a sibling branch -- re-mappings of one supervoxel in several versions, identity
// records that take a supervoxel out of its body again -- each followed by operations whose writes are
// crash points: whatever process comes up must map every supervoxel, at every version, as acknowledged.
func labelMappings() jcrash {
	mp := func(v int, maps ...[]uint64) wop {
		return wop{Op: "mappings", Repo: 1, V: v, Name: "lm", Maps: maps}
	}
	return jcrash{Kind: "crash", Name: "W3-label-mappings", Ops: []wop{
		{Op: "newrepo", Repo: 1},
		{Op: "newdata", Repo: 1, Name: "lm", Type: "labelmap"},
		mp(1, []uint64{1, 2}, []uint64{3, 4}),
		{Op: "commit", Repo: 1, V: 1},
		{Op: "newversion", Repo: 1, V: 1},
		{Op: "branch", Repo: 1, V: 1, Branch: "b1"},
		mp(2, []uint64{2, 2}, []uint64{1, 4}),
		mp(3, []uint64{4, 4}, []uint64{2, 1}, []uint64{}),
		{Op: "commit", Repo: 1, V: 2},
		{Op: "newversion", Repo: 1, V: 2},
		mp(4, []uint64{1, 2}, []uint64{4, 4}),
		mp(4, []uint64{7, 2}),
		{Op: "commit", Repo: 1, V: 4},
		{Op: "newversion", Repo: 1, V: 4},
		mp(5, []uint64{2, 2}, []uint64{3, 3}),
		{Op: "commit", Repo: 1, V: 3},
		{Op: "newrepo", Repo: 2},
	}}
}

func genCrash(run *lib.Run, o lib.Opts, rng *lib.Rand) {
	runCrashCase(run, fixedWorkload(), o)
	runCrashCase(run, versionedKeys(), o)
	runCrashCase(run, labelMappings(), o)
	n := 1
	if o.Thorough() {
		n = 8
	}
	if o.N > 0 {
		n = o.N
	}
	for i := 0; i < n; i++ {
		runCrashCase(run, randomWorkload(rng, i), o)
	}
}

// randomWorkload builds a workload against a live child (so that it can name versions that exist
// and knows which nodes are committed); the crash runs then replay it from scratch.
func randomWorkload(rng *lib.Rand, idx int) jcrash {
	c := jcrash{Kind: "crash", Name: fmt.Sprintf("random-%d", idx)}
	dir := freshDir()
	defer os.RemoveAll(dir)
	p, err := dvh.Start(dvh.Opts{Dir: dir})
	if err != nil {
		fatal("generator child: %v", err)
	}
	defer p.Quit()
	nextRepo, branchN, valN := 1, 0, 0
	data := map[int][]string{} // repo ordinal -> keyvalue instance names
	lms := map[int][]string{}  // repo ordinal -> labelmap instance names
	do := func(o wop) {
		c.Ops = append(c.Ops, o)
		if !execOp(p, o) {
			fatal("generator child died at %+v: %s", o, p.Stderr)
		}
	}
	do(wop{Op: "newrepo", Repo: nextRepo})
	nextRepo++
	steps := 8 + rng.Intn(10)
	for i := 0; i < steps; i++ {
		v, ok := getView(p)
		if !ok {
			break
		}
		type nd struct {
			v, repo int
			locked  bool
		}
		var nodes []nd
		for _, ri := range v.infos {
			var ord int
			fmt.Sscanf(ri.Alias, "r%d", &ord)
			for _, n := range ri.DAG.Nodes {
				nodes = append(nodes, nd{n.VersionID, ord, n.Locked})
			}
		}
		if len(nodes) == 0 {
			do(wop{Op: "newrepo", Repo: nextRepo})
			nextRepo++
			continue
		}
		sort.Slice(nodes, func(a, b int) bool { return nodes[a].v < nodes[b].v })
		n := nodes[rng.Intn(len(nodes))]
		switch rng.Intn(16) {
		case 14, 15:
			// a raw mapping batch (re-mappings, identity records, the empty record) at any open version
			if len(lms[n.repo]) > 0 && !n.locked {
				var maps [][]uint64
				for j := 0; j < 1+rng.Intn(3); j++ {
					sv := uint64(1 + rng.Intn(4))
					switch rng.Intn(4) {
					case 0:
						maps = append(maps, []uint64{sv, sv})
					case 1:
						maps = append(maps, []uint64{})
					default:
						maps = append(maps, []uint64{uint64(1 + rng.Intn(6)), sv})
					}
				}
				do(wop{Op: "mappings", Repo: n.repo, V: n.v, Name: lms[n.repo][rng.Intn(len(lms[n.repo]))], Maps: maps})
			}
		case 12, 13:
			// delete a key (written before or not, here or in an ancestor or nowhere)
			if len(data[n.repo]) > 0 && !n.locked {
				do(wop{Op: "del", Repo: n.repo, V: n.v, Name: data[n.repo][rng.Intn(len(data[n.repo]))], Key: fmt.Sprintf("k%d", rng.Intn(3))})
			}
		case 0:
			if nextRepo <= 3 {
				do(wop{Op: "newrepo", Repo: nextRepo})
				nextRepo++
			}
		case 1:
			open := false
			for _, m := range nodes {
				if m.repo == n.repo && !m.locked {
					open = true
				}
			}
			if !open {
				continue
			}
			name := fmt.Sprintf("d%d_%d", n.repo, len(data[n.repo])+1)
			data[n.repo] = append(data[n.repo], name)
			do(wop{Op: "newdata", Repo: n.repo, Name: name})
		case 2, 3, 4:
			do(wop{Op: "commit", Repo: n.repo, V: n.v}) // refused without a write when already committed
		case 5, 6:
			do(wop{Op: "newversion", Repo: n.repo, V: n.v}) // refused without a write on an open node or a continued branch
		case 7:
			branchN++
			do(wop{Op: "branch", Repo: n.repo, V: n.v, Branch: fmt.Sprintf("b%d", branchN)})
		case 8:
			if len(data[n.repo]) > 0 && !n.locked {
				valN++
				do(wop{Op: "put", Repo: n.repo, V: n.v, Name: data[n.repo][rng.Intn(len(data[n.repo]))], Key: fmt.Sprintf("k%d", rng.Intn(3)), Val: fmt.Sprintf("x%d", valN)})
			}
		case 9:
			// merges only of committed parents of one repo: a refused merge leaves an unsaved node in
			// memory (C07's finding), which no restart can reproduce
			var cands []int
			for _, m := range nodes {
				if m.repo == n.repo && m.locked && m.v != n.v {
					cands = append(cands, m.v)
				}
			}
			if n.locked && len(cands) > 0 {
				do(wop{Op: "merge", Repo: n.repo, Parents: []int{n.v, cands[rng.Intn(len(cands))]}})
			}
		case 10:
			if len(data[n.repo]) > 0 && rng.Chance(0.5) {
				k := rng.Intn(len(data[n.repo]))
				do(wop{Op: "deldata", Repo: n.repo, Name: data[n.repo][k]})
				data[n.repo] = append(data[n.repo][:k], data[n.repo][k+1:]...)
			}
		case 11:
			if len(v.infos) >= 2 && rng.Chance(0.4) {
				do(wop{Op: "delrepo", Repo: n.repo})
				delete(data, n.repo)
			}
		}
	}
	return c
}
