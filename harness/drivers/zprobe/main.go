package main

import (
	"fmt"
	"strings"
	"time"

	"github.com/janelia-flyem/dvid/datastore"
	"github.com/janelia-flyem/dvid/dvid"
	"github.com/janelia-flyem/dvid/storage"
	"verif/harness/dv"
)

func dump(tag string) {
	store, _ := storage.DefaultKVStore()
	db := store.(storage.OrderedKeyValueDB)
	lo, hi := storage.DataKeyRange()
	hi = append(hi, 0xff, 0xff, 0xff, 0xff, 0xff, 0xff, 0xff, 0xff, 0xff, 0xff, 0xff)
	ch := make(chan *storage.KeyValue)
	go db.RawRangeQuery(lo, hi, false, ch, nil)
	fmt.Println("---- store", tag)
	for kv := range ch {
		if kv == nil {
			break
		}
		fmt.Printf("  %x = %x\n", []byte(kv.K), kv.V)
	}
}

func main() {
	dv.Quiet()
	dv.Open()
	defer dv.Close()
	root, err := dv.NewRepo("r")
	fmt.Println(root, err)
	fmt.Println(dv.NewInstance(root, "keyvalue", "kv", nil))
	base := "/api/node/" + root + "/kv/"
	fmt.Println("post a", dv.Post(base+"key/a", []byte("A")).Status)
	fmt.Println("post a%00b", dv.Post(base+"key/a%00b", []byte("B")).Status)
	r := dv.Get(base + "key/a")
	fmt.Println("get a", r.Status, string(r.Body))
	r = dv.Get(base + "key/a%00b")
	fmt.Println("get a%00b", r.Status, string(r.Body))
	r = dv.Get(base + "keys")
	fmt.Println("keys", r.Status, string(r.Body))
	fmt.Println("post e empty", dv.Post(base+"key/e", []byte{}).Status)
	r = dv.Get(base + "key/e")
	fmt.Println("get e", r.Status, string(r.Body))
	r = dv.Do("HEAD", base+"key/e", nil)
	fmt.Println("head e", r.Status)
	r = dv.Get(base + "keys")
	fmt.Println("keys", r.Status, string(r.Body))
	dump("after")

	// instance id at the maximum
	fmt.Println("reinit", datastore.Initialize(false, datastore.Config{InstanceStart: dvid.InstanceID(0xFFFFFFFE)}))
	fmt.Println(dv.NewInstance(root, "keyvalue", "x1", nil))
	fmt.Println(dv.NewInstance(root, "keyvalue", "x2", nil))
	fmt.Println(dv.NewInstance(root, "keyvalue", "x3", nil))
	for _, n := range []string{"kv", "x1", "x2", "x3"} {
		d, err := datastore.GetDataByUUIDName(dvid.UUID(root), dvid.InstanceName(n))
		if err != nil {
			fmt.Println(n, err)
			continue
		}
		fmt.Println(n, "instance id", d.InstanceID())
		dv.Post("/api/node/"+root+"/"+n+"/key/k", []byte("V"+n))
	}
	dump("4 instances")
	{
		d, _ := datastore.GetDataByUUIDName(dvid.UUID(root), "x3")
		fmt.Println("direct DeleteDataInstance x3:", storage.DeleteDataInstance(d))
		dump("after direct delete of x3")
		ctx := storage.NewDataContext(d, 0)
		a, b := ctx.KeyRange()
		fmt.Printf("keyrange %x %x\n", a, b)
		store, _ := d.KVStore()
		db := store.(storage.OrderedKeyValueDB)
		ch := make(chan *storage.KeyValue)
		go db.RawRangeQuery(a, b, true, ch, nil)
		for kv := range ch {
			if kv == nil {
				break
			}
			fmt.Printf("  in range: %x\n", []byte(kv.K))
		}
		fmt.Println("DeleteAll:", db.DeleteAll(ctx))
		dump("after DeleteAll(x3 ctx)")
		d1, _ := datastore.GetDataByUUIDName(dvid.UUID(root), "x1")
		fmt.Println("DeleteAll x1:", db.DeleteAll(storage.NewDataContext(d1, 0)))
		dk, _ := datastore.GetDataByUUIDName(dvid.UUID(root), "kv")
		fmt.Println("DeleteAll kv:", db.DeleteAll(storage.NewDataContext(dk, 0)))
		dump("after DeleteAll(x1, kv)")
		fmt.Println("DeleteAll x3:", db.DeleteAll(ctx))
		dump("after DeleteAll(x3) again")
	}
	for _, n := range []string{"x1", "x2", "x3"} {
		fmt.Println("delete", n, datastore.DeleteDataByName(dvid.UUID(root), dvid.InstanceName(n), ""))
	}
	for i := 0; i < 500; i++ {
		info := string(dv.Get("/api/repo/" + root + "/info").Body)
		if !strings.Contains(info, `"x1"`) && !strings.Contains(info, `"x2"`) && !strings.Contains(info, `"x3"`) {
			fmt.Println("all gone after", i)
			break
		}
		time.Sleep(10 * time.Millisecond)
	}
	fmt.Println(dv.NewInstance(root, "keyvalue", "x2", nil))
	d, _ := datastore.GetDataByUUIDName(dvid.UUID(root), "x2")
	fmt.Println("new x2 id", d.InstanceID())
	r = dv.Get("/api/node/" + root + "/x2/keys")
	fmt.Println("x2 keys", r.Status, string(r.Body))
	dump("after delete")
}
