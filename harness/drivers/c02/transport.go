package main

// All requests of setup, later history and snapshots go through httpDo, so that the same code
// can drive the in-process server (dv.Do) or a child process (harness/dvh) that is really
// restarted on the same store directories.

import (
	"encoding/json"
	"fmt"

	"verif/harness/dv"
)

var httpDo = dv.Do

func tDo(method, url string, body []byte) dv.Resp {
	if body == nil {
		body = []byte{} // a real net/http server never hands a nil Body to the handlers
	}
	beat()
	return httpDo(method, url, body)
}
func tGet(url string) dv.Resp               { return tDo("GET", url, nil) }
func tPost(url string, body []byte) dv.Resp { return tDo("POST", url, body) }
func tDelete(url string) dv.Resp            { return tDo("DELETE", url, nil) }
func tPostJSON(url string, v interface{}) dv.Resp {
	b, _ := json.Marshal(v)
	return tDo("POST", url, b)
}

func tNewRepo(alias string) (string, error) {
	r := tPostJSON("/api/repos", map[string]string{"alias": alias, "description": "verif"})
	if r.Status != 200 {
		return "", fmt.Errorf("new repo: %d %s", r.Status, r.Body)
	}
	var m struct{ Root string }
	if err := json.Unmarshal(r.Body, &m); err != nil {
		return "", err
	}
	return m.Root, nil
}

func tNewInstance(uuid, typename, name string, extra map[string]string) error {
	m := map[string]string{"typename": typename, "dataname": name}
	for k, v := range extra {
		m[k] = v
	}
	r := tPostJSON("/api/repo/"+uuid+"/instance", m)
	if r.Status != 200 {
		return fmt.Errorf("new instance %s/%s: %d %s", typename, name, r.Status, r.Body)
	}
	return nil
}

func childOf(r dv.Resp) string {
	var m struct{ Child string }
	json.Unmarshal(r.Body, &m)
	return m.Child
}

func tCommit(uuid string) dv.Resp {
	return tPostJSON("/api/node/"+uuid+"/commit", map[string]interface{}{"note": "c"})
}
func tNewVersion(uuid string) (string, dv.Resp) {
	r := tPostJSON("/api/node/"+uuid+"/newversion", map[string]string{"note": "v"})
	return childOf(r), r
}
func tBranch(uuid, branch string) (string, dv.Resp) {
	r := tPostJSON("/api/node/"+uuid+"/branch", map[string]string{"branch": branch, "note": "b"})
	return childOf(r), r
}
func tMerge(parents []string) (string, dv.Resp) {
	r := tPostJSON("/api/repo/"+parents[0]+"/merge", map[string]interface{}{"mergeType": "conflict-free", "parents": parents, "note": "m"})
	return childOf(r), r
}
