// Driver C02: the request gate and the immutability of a committed version, on the real server.
//
// One repo:  R (root, committed) -> V (committed, the protected version) -> U (open child)
//                                \-> W (committed sibling, target of the full-write / admin probes)
// with one instance of every compiled datatype that can be created offline, filled through the
// real API.  For every generated (datatype package, keyword) x {GET, HEAD, POST, PUT, DELETE,
// PATCH} a request with a write-plausible body is sent, in default / read-only / full-write /
// admin-token modes; after EVERY request the driver recomputes
//   bit 1: digest of all raw store keys+values stamped with V's version id (all instances)
//   bit 2: digest of every instance's unversioned properties (GET info)
//   bit 4: digest of the whole data key space (all versions, all instances)
//   bit 8: V's note / log / locked state
// and records which changed together with the response class (refused by the gate / passed on /
// no route).  Coq evaluates the gate model (model_ok) and the property oracle (spec_class).
// Then: full GET snapshot of V, a random later history on descendants, siblings, merges, new and
// deleted instances, and the snapshot again.
package main

import (
	"bufio"
	"crypto/sha256"
	"encoding/hex"
	"encoding/json"
	"fmt"
	"os"
	"path/filepath"
	"reflect"
	"runtime"
	"sort"
	"strings"
	"sync/atomic"
	"time"

	"github.com/janelia-flyem/dvid/datastore"
	"github.com/janelia-flyem/dvid/dvid"
	"github.com/janelia-flyem/dvid/server"
	"github.com/janelia-flyem/dvid/storage"
	"verif/harness/dv"
	"verif/harness/dvh"
	"verif/harness/lib"

	// datatypes compiled into cmd/dvid that harness/dv does not import
	_ "github.com/janelia-flyem/dvid/datatype/googlevoxels"
	_ "github.com/janelia-flyem/dvid/datatype/imagetile"
	_ "github.com/janelia-flyem/dvid/datatype/labelarray"
	_ "github.com/janelia-flyem/dvid/datatype/labelblk"
	_ "github.com/janelia-flyem/dvid/datatype/labelvol"
	_ "github.com/janelia-flyem/dvid/datatype/multichan16"
	_ "github.com/janelia-flyem/dvid/datatype/tarsupervoxels"
)

// ---- generated tables (harness/bin/routes.json, written next to the gen binary by the same run that writes coq/Gen/Routes.v) ----

type kwT struct {
	Keyword string
	Methods []string
}
type routeT struct{ Mux, Method, Pattern, Handler string }
type routesJSON struct {
	Routes    []routeT            `json:"routes"`
	Branch    []string            `json:"branch"`
	Shortcuts map[string][]string `json:"shortcuts"`
	Overrides []struct{ Pkg, Endpoint, Method string } `json:"overrides"`
	Mutation  []string            `json:"mutation_methods"`
	Keywords  map[string][]kwT    `json:"keywords"`
}

type entryT struct {
	Idx     int
	Pkg, Kw string
	Methods []string
}

var methods = []string{"get", "head", "post", "put", "delete", "patch"}

func loadRoutes() (routesJSON, []entryT) {
	cands := []string{os.Getenv("VERIF_ROUTES")}
	if exe, err := os.Executable(); err == nil {
		cands = append(cands, filepath.Join(filepath.Dir(exe), "routes.json"))
	}
	cands = append(cands, "bin/routes.json", "harness/bin/routes.json")
	var rj routesJSON
	for _, c := range cands {
		if c == "" {
			continue
		}
		b, err := os.ReadFile(c)
		if err != nil {
			continue
		}
		if err := json.Unmarshal(b, &rj); err != nil {
			fmt.Fprintln(os.Stderr, "c02: bad routes.json:", err)
			os.Exit(2)
		}
		var pkgs []string
		for p := range rj.Keywords {
			pkgs = append(pkgs, p)
		}
		sort.Strings(pkgs)
		var es []entryT
		for _, p := range pkgs {
			for _, k := range rj.Keywords[p] {
				es = append(es, entryT{len(es), p, k.Keyword, k.Methods})
			}
		}
		return rj, es
	}
	fmt.Fprintln(os.Stderr, "c02: harness/bin/routes.json not found (run harness/cmd/gen first)")
	os.Exit(2)
	return rj, nil
}

// ---- instances ----

type instT struct {
	Name, Type, Pkg string
	Unversioned     bool
}

func pkgOf(uuid, name, typ string) string {
	if !inProcess {
		if strings.HasSuffix(typ, "blk") && typ != "labelblk" {
			return "imageblk" // uint8blk, uint16blk, ... are instances of package imageblk
		}
		return typ
	}
	d, err := datastore.GetDataByUUIDName(dvid.UUID(uuid), dvid.InstanceName(name))
	if err != nil {
		return ""
	}
	t := reflect.TypeOf(d)
	for t.Kind() == reflect.Ptr {
		t = t.Elem()
	}
	return filepath.Base(t.PkgPath())
}

// ---- digests ----

type digT struct {
	V, Meta, All, Node string
	NV, NAll       int
}

var insts []instT
var uuidR, uuidG, uuidP, uuidV, uuidW, uuidU, uuidX string // uuidR = E, the empty root
var inProcess = true
var verV, verX dvid.VersionID // the protected (committed) versions

func storesOf() []storage.OrderedKeyValueDB {
	seen := map[string]bool{}
	var out []storage.OrderedKeyValueDB
	for _, in := range insts {
		d, err := datastore.GetDataByUUIDName(dvid.UUID(uuidR), dvid.InstanceName(in.Name))
		if err != nil {
			continue
		}
		db, err := datastore.GetOrderedKeyValueDB(d)
		if err != nil {
			continue
		}
		k := fmt.Sprintf("%p", db)
		if !seen[k] {
			seen[k] = true
			out = append(out, db)
		}
	}
	return out
}

func digest() digT {
	hv, ha := sha256.New(), sha256.New()
	var dg digT
	minK, maxK := storage.DataKeyRange()
	for _, db := range storesOf() {
		ch := make(chan *storage.KeyValue, 256)
		done := make(chan error, 1)
		go func() { done <- db.RawRangeQuery(minK, maxK, false, ch, nil) }()
		for kv := range ch {
			if kv == nil {
				break
			}
			var l [8]byte
			put := func(h interface{ Write([]byte) (int, error) }) {
				l[0], l[1], l[2], l[3] = byte(len(kv.K)), byte(len(kv.K)>>8), byte(len(kv.K)>>16), byte(len(kv.K)>>24)
				l[4], l[5], l[6], l[7] = byte(len(kv.V)), byte(len(kv.V)>>8), byte(len(kv.V)>>16), byte(len(kv.V)>>24)
				h.Write(l[:])
				h.Write(kv.K)
				h.Write(kv.V)
			}
			put(ha)
			dg.NAll++
			if v, err := storage.VersionFromDataKey(kv.K); err == nil && (v == verV || v == verX) {
				put(hv)
				dg.NV++
			}
		}
		if err := <-done; err != nil {
			panic(err)
		}
	}
	dg.V = hex.EncodeToString(hv.Sum(nil)[:8])
	dg.All = hex.EncodeToString(ha.Sum(nil)[:8])
	hm := sha256.New()
	for _, in := range insts {
		d, err := datastore.GetDataByUUIDName(dvid.UUID(uuidR), dvid.InstanceName(in.Name))
		if err != nil {
			fmt.Fprintf(hm, "%s:gone;", in.Name)
			continue
		}
		b, _ := json.Marshal(d)
		fmt.Fprintf(hm, "%s:%s;", in.Name, b)
		fmt.Fprintf(hm, "tags=%v;", d.Tags())
	}
	dg.Meta = hex.EncodeToString(hm.Sum(nil)[:8])
	for _, u := range []string{uuidV, uuidX} {
		note, _ := datastore.GetNodeNote(dvid.UUID(u))
		log, _ := datastore.GetNodeLog(dvid.UUID(u))
		locked, _ := datastore.LockedUUID(dvid.UUID(u))
		dg.Node += fmt.Sprintf("%q|%q|%v;", note, log, locked)
	}
	return dg
}

// quiesce waits until no instance reports pending sync events or running updates
// (datastore.BlockOnUpdating without its fixed 100 ms sleep per instance).
func quiesce(careful bool) {
	if careful {
		quiesceN(6)
	} else {
		quiesceN(1)
	}
}

func quiesceN(need int) {
	calm := 0
	for i := 0; i < 5000 && calm < need; i++ {
		busy := false
		for _, in := range insts {
			d, err := datastore.GetDataByUUIDName(dvid.UUID(uuidR), dvid.InstanceName(in.Name))
			if err != nil {
				continue
			}
			if s, ok := d.(datastore.Syncer); ok && s.SyncPending() {
				busy = true
			}
			if u, ok := d.(interface{ Updating() bool }); ok && u.Updating() {
				busy = true
			}
		}
		if busy {
			calm = 0
		} else {
			calm++
		}
		if calm < need {
			time.Sleep(2 * time.Millisecond)
		}
	}
}

func diffBits(a, b digT) int {
	n := 0
	if a.V != b.V {
		n |= 1
	}
	if a.Meta != b.Meta {
		n |= 2
	}
	if a.All != b.All {
		n |= 4
	}
	if a.Node != b.Node {
		n |= 8
	}
	return n
}

// ---- modes ----

type modeT struct {
	Name          string
	RO, FW        bool
	Token         bool // an admin token is configured and the request presents it
	WrongToken    bool // a token is configured, the request presents another one
}

const adminTok = "verif-admin-token"

func setMode(m modeT) {
	tok := ""
	if m.Token || m.WrongToken {
		tok = adminTok
	}
	server.VerifSetModes(m.RO, m.FW, tok)
}

func withToken(url string, m modeT) string {
	t := ""
	if m.Token {
		t = adminTok
	} else if m.WrongToken {
		t = "not-the-token"
	} else {
		return url
	}
	if strings.Contains(url, "?") {
		return url + "&admintoken=" + t
	}
	return url + "?admintoken=" + t
}

// ---- observation ----

const (
	obsPassed  = 0
	obsRefused = 1
	obsNoRoute = 2
)

func classify(r dv.Resp, instanceRoute bool) int {
	b := string(r.Body)
	if r.Status == 400 && (strings.Contains(b, "read-only mode") || strings.Contains(b, " locked node")) {
		return obsRefused
	}
	if !instanceRoute && r.Status == 404 {
		return obsNoRoute
	}
	return obsPassed
}

// ---- cases ----

type reqT struct {
	Ref     string `json:"ref"`            // "idx" | "str" | "node" | "repo" | "reporaw"
	Idx     int    `json:"idx,omitempty"`  // index into Gen.Routes.instance_routes
	Pkg     string `json:"pkg,omitempty"`  // for the reader (and ref=str)
	Kw      string `json:"kw,omitempty"`   // keyword / node action / repo action
	Inst    string `json:"inst,omitempty"` // instance name used
	Unv     bool   `json:"unversioned,omitempty"`
	Method  string `json:"method"`
	URL     string `json:"url"`
	BodyLen int    `json:"body_len"`
	BodyHex string `json:"body_hex,omitempty"` // only when short
	Status  int    `json:"status"`
	Resp    string `json:"resp,omitempty"`
	Obs     int    `json:"obs"`
	Chg     int    `json:"chg"`
}

type caseT struct {
	Kind   string `json:"kind"` // request
	Mode   string `json:"mode"`
	RO     bool   `json:"ro"`
	FW     bool   `json:"fw"`
	Admin  bool   `json:"admin"`      // a token is configured and presented
	Wrong  bool   `json:"wrongtoken"` // a token is configured, another one presented
	Target string `json:"target"`     // V (committed, protected) | W (committed sibling) | U (open child of V) | X (committed HEAD of its branch, protected)
	Form   string `json:"ref_form,omitempty"` // how the URL names the node when not by its full uuid (see refForms)
	PI     int    `json:"probe_index"`
	Req    reqT   `json:"req"`
}

func midx(m string) int {
	for i, x := range methods {
		if x == m {
			return i
		}
	}
	return -1
}

func coqStr(s string) string { return `"` + strings.ReplaceAll(s, `"`, `""`) + `"` }

func (c caseT) coq() string {
	q := c.Req
	var r string
	switch q.Ref {
	case "idx":
		r = fmt.Sprintf("QIdx %d", q.Idx)
	case "str":
		r = fmt.Sprintf("QStr %s %s", coqStr(q.Pkg), coqStr(q.Kw))
	case "node":
		r = "QNode " + coqStr(q.Kw)
	case "repo":
		r = "QRepo " + coqStr(q.Kw)
	default:
		r = "QRepoRaw"
	}
	mode := 0
	if c.RO {
		mode |= 1
	}
	if c.FW {
		mode |= 2
	}
	if c.Admin {
		mode |= 4
	}
	tgt := map[string]int{"V": 0, "W": 1, "U": 2, "X": 3}[c.Target]
	return fmt.Sprintf("CReq %d %d (%s) %d %s %d %d", mode, tgt, r, midx(q.Method), lib.CoqBool(q.Unv), q.Obs, q.Chg)
}

var explore = os.Getenv("C02_EXPLORE") != ""

// heartbeat: besides the per-request watchdog, the whole run gives up (exit 3, with a goroutine
// dump) when nothing has completed for three minutes: DVID can deadlock on its repo lock.
var beats int64

func beat() { atomic.AddInt64(&beats, 1) }

func startHeartbeat() {
	go func() {
		last := int64(-1)
		for {
			time.Sleep(180 * time.Second)
			now := atomic.LoadInt64(&beats)
			if now == last {
				fmt.Fprintln(os.Stderr, "c02: no progress for 180 s")
				buf := make([]byte, 1<<20)
				n := runtime.Stack(buf, true)
				os.Stderr.Write(buf[:n])
				os.Exit(3)
			}
			last = now
		}
	}()
}

// watchdog: a handler that never returns (a lock left held after a recovered panic, say) must not
// stall the check for its whole timeout: dump all goroutines and give up with exit code 3.
func watchdog(what string, f func() dv.Resp) dv.Resp {
	beat()
	ch := make(chan dv.Resp, 1)
	go func() { ch <- f() }()
	select {
	case r := <-ch:
		return r
	case <-time.After(90 * time.Second):
		fmt.Fprintf(os.Stderr, "c02: request did not return within 90 s: %s\n", what)
		buf := make([]byte, 1<<20)
		n := runtime.Stack(buf, true)
		os.Stderr.Write(buf[:n])
		os.Exit(3)
	}
	return dv.Resp{}
}

// send issues the request, recomputes the digests and fills the observation.
func send(q *reqT, m modeT, body []byte, last *digT, instanceRoute bool) {
	if body == nil {
		body = []byte{} // a real net/http server never hands a nil Body to the handlers
	}
	if q.Method == "get" || q.Method == "head" {
		// nothing that an earlier (allowed) write still does in the background may be blamed on a read
		quiesce(true)
		*last = digest()
	}
	setMode(m)
	r := watchdog(q.Method+" "+q.URL, func() dv.Resp { return dv.Do(strings.ToUpper(q.Method), withToken(q.URL, m), body) })
	setMode(modeT{})
	q.BodyLen = len(body)
	if len(body) <= 48 {
		q.BodyHex = hex.EncodeToString(body)
	}
	q.Status = r.Status
	q.Obs = classify(r, instanceRoute)
	if r.Panic {
		q.Resp = "PANIC " + string(r.Body)
	} else if len(r.Body) < 160 {
		q.Resp = string(r.Body)
	} else {
		q.Resp = string(r.Body[:160])
	}
	quiesce(r.Status < 300 && q.Method != "get")
	now := digest()
	q.Chg = diffBits(*last, now)
	if q.Chg != 0 {
		// let every asynchronous consequence of this request land before the next one is judged
		time.Sleep(60 * time.Millisecond)
		quiesce(true)
		now = digest()
		q.Chg = diffBits(*last, now)
	}
	if explore && (q.Chg != 0 || r.Panic) {
		fmt.Printf("CHG %2d  %-9s %-6s %s  -> %d %q\n", q.Chg, m.Name, q.Method, q.URL, r.Status, q.Resp)
	}
	*last = now
}

// sendResolved: a "branch~n" reference walks the branch from its HEAD; once a node has two children
// on one branch (DVID accepts a second newversion on the same branch) that walk fails or not
// depending on map iteration order.  Such an answer says nothing about the gate: retry, then drop.
func sendResolved(q *reqT, m modeT, body []byte, last *digT, instanceRoute bool) bool {
	for try := 0; try < 8; try++ {
		send(q, m, body, last, instanceRoute)
		if q.Status == 400 && (strings.Contains(q.Resp, "has more than 1 child") || strings.Contains(q.Resp, "could not find UUID") ||
			strings.Contains(q.Resp, "more than one UUID matches") || strings.Contains(q.Resp, "not found in repo")) {
			continue
		}
		return true
	}
	return false
}

func urlFor(uuid string, in instT, kw string, sp probeT) string {
	u := "/api/node/" + uuid + "/" + in.Name + "/" + kw + sp.Suffix + "?u=verif"
	if sp.Query != "" {
		u += "&" + sp.Query
	}
	return u
}

var uuidOf = map[string]*string{"V": &uuidV, "W": &uuidW, "U": &uuidU, "X": &uuidX}

func addCase(run *lib.Run, c caseT, key string) {
	run.Add("request", c.coq(), c, key)
	run.Count("mode:" + c.Mode)
	run.Count("target:" + c.Target)
	run.Count("method:" + c.Req.Method)
	run.Count("level:" + c.Req.Ref)
	run.Count(fmt.Sprintf("obs:%d", c.Req.Obs))
	if c.Req.Chg != 0 {
		run.Count(fmt.Sprintf("chg:%d", c.Req.Chg))
	}
}

func mkCase(kind string, m modeT, target string) caseT {
	return caseT{Kind: "request", Mode: m.Name, RO: m.RO, FW: m.FW, Admin: m.Token, Wrong: m.WrongToken, Target: target}
}

func modeOf(c caseT) modeT {
	return modeT{Name: c.Mode, RO: c.RO, FW: c.FW, Token: c.Admin, WrongToken: c.Wrong}
}

// replayCase re-issues the one stored request against a freshly built repo (uuids differ between
// runs: the URL is rebuilt from the route reference, the instance name and the probe index).
func replayCase(run *lib.Run, c caseT, rj routesJSON, entries []entryT, rng *lib.Rand) {
	uuid := *uuidOf[c.Target]
	if c.Form != "" {
		found := false
		for _, f := range refForms(c.Target) {
			if f.Name == c.Form {
				uuid, found = f.Ref, true
			}
		}
		if !found {
			fmt.Fprintln(os.Stderr, "c02 replay: reference form", c.Form, "does not resolve to", c.Target)
			os.Exit(2)
		}
	}
	m := modeOf(c)
	last := digest()
	q := c.Req
	switch q.Ref {
	case "idx", "str":
		var in instT
		for _, x := range insts {
			if x.Name == q.Inst {
				in = x
			}
		}
		if in.Name == "" {
			fmt.Fprintln(os.Stderr, "c02 replay: instance", q.Inst, "does not exist")
			os.Exit(2)
		}
		var sp probeT
		kw := q.Kw
		if q.Ref == "idx" {
			ps := probesFor(q.Pkg, q.Kw, q.Method, in)
			sp = ps[c.PI%len(ps)]
			if kw == "*" {
				kw = sp.Star
			}
			// the route index is looked up again: the table may have moved
			q.Idx = -1
			for _, e := range entries {
				if e.Pkg == q.Pkg && e.Kw == q.Kw {
					q.Idx = e.Idx
				}
			}
			if q.Idx < 0 {
				q.Ref = "str"
			}
		} else {
			sp = shortcutProbe(in, q.Kw, q.Method)
		}
		q.URL = urlFor(uuid, in, kw, sp)
		send(&q, m, sp.Body, &last, true)
	default:
		for _, nr := range nodeRepoProbes(rj, uuid) {
			if nr.Ref == q.Ref && nr.Action == q.Kw {
				q.URL = disposable(nr, c.Target, q.Method, rng)
				send(&q, m, nr.Body(q.Method, rng), &last, false)
			}
		}
	}
	c.Req = q
	addCase(run, c, "")
}

// disposable: a POST commit aimed at the open node U would lock it for the rest of the run, so
// it is sent to a fresh open node (a new branch off W) instead.
func disposable(nr nrProbe, target, meth string, rng *lib.Rand) string {
	if target == "U" && nr.Ref == "node" && nr.Action == "commit" && meth == "post" {
		tmp, r := dv.Branch(uuidW, fmt.Sprintf("tmp-%d", rng.U64()%1000000000))
		if r.Status == 200 && tmp != "" {
			return strings.Replace(nr.URL, uuidU, tmp, 1)
		}
	}
	return nr.URL
}

func shortcutProbe(in instT, kw, meth string) probeT {
	sp := probeT{Body: []byte("blob-" + in.Name + "-" + meth)}
	if meth == "get" && kw == "blobstore" {
		sp.Suffix = "/" + blobRef
	}
	return sp
}

func main() {
	if len(os.Args) > 1 && os.Args[1] == dvh.Marker {
		filterChildStdout()
	}
	dvh.MaybeChild() // re-executed as the restartable child server of the restart phase
	o := lib.ParseOpts()
	rng := lib.NewRand(o.Seed)
	run := lib.NewRun("C02", o)
	run.Header("From Coq Require Import String.", "From DV Require Import Base.Prelude Base.GateTypes Gen.Routes Model.Gate Model.GateRun.", "Local Open Scope string_scope.")
	rj, entries := loadRoutes()
	dv.Quiet()
	dv.Open()
	closed := false
	defer func() {
		if !closed {
			dv.Close()
		}
	}()
	server.VerifSetModes(false, false, "")
	startHeartbeat()

	setup(run)
	byPkg := map[string][]instT{}
	for _, in := range insts {
		byPkg[in.Pkg] = append(byPkg[in.Pkg], in)
	}

	if o.Replay != "" {
		var raw map[string]json.RawMessage
		if err := lib.LoadReplay(o.Replay, &raw); err != nil {
			fmt.Fprintln(os.Stderr, "c02: replay:", err)
			os.Exit(2)
		}
		var kind string
		json.Unmarshal(raw["kind"], &kind)
		switch kind {
		case "stability", "stability-instance":
			var st struct {
				Config string `json:"config"`
			}
			lib.LoadReplay(o.Replay, &st)
			if st.Config == restartConfig {
				dv.Close()
				closed = true
				restartPhase(run, rng, o)
				run.Finish("c02case", "replay", tail)
				return
			}
			if st.Config == cacheConfig {
				dv.Close()
				closed = true
				reopenWithCache(run)
				defer server.CloseTest()
			}
			stability(run, rng, o, st.Config)
		case "request":
			var c caseT
			lib.LoadReplay(o.Replay, &c)
			replayCase(run, c, rj, entries, rng)
		default:
			fmt.Fprintln(os.Stderr, "c02: replay of case kind", kind, "is the whole run; re-run without -replay")
			os.Exit(2)
		}
		run.Finish("c02case", "replay", tail)
		return
	}

	modeDefault := modeT{Name: "default"}
	modeRO := modeT{Name: "readonly", RO: true}
	modeFW := modeT{Name: "fullwrite", FW: true}
	modeAdmin := modeT{Name: "admin", Token: true}
	modeAdminRO := modeT{Name: "admin+readonly", RO: true, Token: true}
	modeWrong := modeT{Name: "wrongtoken", WrongToken: true}

	last := digest()
	covered := map[string]bool{}
	phases := map[string]float64{}
	t0 := time.Now()
	lap := func(name string) {
		phases[name] = time.Since(t0).Seconds()
		t0 = time.Now()
		run.Extra["phase_s"] = phases
	}
	lap("setup")

	type workT struct {
		e  entryT
		in instT
	}
	var work []workT
	for _, e := range entries {
		for _, in := range byPkg[e.Pkg] {
			work = append(work, workT{e, in})
		}
	}
	sweep := func(m modeT, target string, frac float64) {
		uuid := *uuidOf[target]
		exhaustive := frac >= 1
		for _, w := range work {
			for _, meth := range methods {
				if !exhaustive && !rng.Chance(frac) {
					continue
				}
				for pi, sp := range probesFor(w.e.Pkg, w.e.Kw, meth, w.in) {
					c := mkCase("request", m, target)
					c.PI = pi
					c.Req = reqT{Ref: "idx", Idx: w.e.Idx, Pkg: w.e.Pkg, Kw: w.e.Kw, Inst: w.in.Name, Unv: w.in.Unversioned, Method: meth}
					kw := w.e.Kw
					if kw == "*" {
						kw = sp.Star
					}
					c.Req.URL = urlFor(uuid, w.in, kw, sp)
					send(&c.Req, m, sp.Body, &last, true)
					key := ""
					if pi == 0 {
						key = fmt.Sprintf("%s/%s/%d/%s/%s", m.Name, target, w.e.Idx, w.in.Name, meth)
					}
					addCase(run, c, key)
					if target == "V" && m.Name == "default" {
						covered[fmt.Sprintf("%d/%s", w.e.Idx, meth)] = true
					}
				}
			}
		}
		// keywords outside the table: those served before the gate (blobstore) and an unknown one
		for _, in := range insts {
			for _, kw := range append(sortedKeys(rj.Shortcuts), "no-such-endpoint") {
				for _, meth := range methods {
					if !exhaustive && !rng.Chance(frac) {
						continue
					}
					c := mkCase("request", m, target)
					c.Req = reqT{Ref: "str", Pkg: in.Pkg, Kw: kw, Inst: in.Name, Unv: in.Unversioned, Method: meth}
					sp := shortcutProbe(in, kw, meth)
					c.Req.URL = urlFor(uuid, in, kw, sp)
					send(&c.Req, m, sp.Body, &last, true)
					addCase(run, c, fmt.Sprintf("%s/%s/%s/%s/%s", m.Name, target, in.Name, kw, meth))
				}
			}
		}
		// node-level and repo-level routes
		for _, nr := range nodeRepoProbes(rj, uuid) {
			for _, meth := range methods {
				if !exhaustive && !rng.Chance(frac*3) {
					continue
				}
				c := mkCase("request", m, target)
				c.Req = reqT{Ref: nr.Ref, Kw: nr.Action, Method: meth, URL: disposable(nr, target, meth, rng)}
				send(&c.Req, m, nr.Body(meth, rng), &last, false)
				addCase(run, c, fmt.Sprintf("%s/%s/%s/%s/%s", m.Name, target, nr.Ref, nr.Action, meth))
			}
		}
	}

	frac := 0.08
	if o.Thorough() {
		frac = 1
	}
	if o.N > 0 {
		frac = float64(o.N) / 1000
	}
	// 1. default mode against the committed V: every route x every method (the C02 matrix and the GET side-effect check)
	sweep(modeDefault, "V", 1)
	lap("default-V")
	// 2. a configured token that the request does not present changes nothing
	sweep(modeWrong, "V", frac)
	// 3. read-only mode, committed and open node
	sweep(modeRO, "V", frac*1.5)
	sweep(modeRO, "U", frac)
	// 4. the two widenings, against the committed sibling W (V must stay untouched)
	sweep(modeFW, "W", frac*1.5)
	sweep(modeAdmin, "W", frac*1.5)
	sweep(modeAdminRO, "W", frac)
	// 5. the open child U in default mode: the gate lets writes through, V stays untouched
	sweep(modeDefault, "U", frac*2)
	lap("other-modes")

	// 6. the same gate through every other way of naming the committed nodes V and X (default mode)
	// per form: one write endpoint of every instance with POST and DELETE (always), a thin random
	// sample of the rest of the matrix, and the non-branching node / repo routes
	forcedKw := map[string]string{"keyvalue": "key", "neuronjson": "key", "labelmap": "raw", "labelarray": "raw", "labelblk": "raw",
		"imageblk": "raw", "annotation": "elements", "roi": "roi", "tarsupervoxels": "supervoxel", "labelsz": "sync",
		"labelvol": "sync", "imagetile": "metadata", "multichan16": "*"}
	nforms := map[string]int{}
	resolves := func(ref, target string) bool {
		got, _, err := datastore.MatchingUUID(ref)
		return err == nil && string(got) == *uuidOf[target]
	}
	for _, target := range []string{"V", "X"} {
		for _, f := range refForms(target) {
			nforms[target]++
			ref := f.Ref
			for _, w := range work {
				for _, meth := range methods {
					forced := forcedKw[w.e.Pkg] == w.e.Kw && (meth == "post" || meth == "delete")
					if !forced && !rng.Chance(frac*0.04) {
						continue
					}
					if !resolves(ref, target) {
						run.Count("form-no-longer-resolves:" + f.Name)
						continue
					}
					sp := probesFor(w.e.Pkg, w.e.Kw, meth, w.in)[0]
					c := mkCase("request", modeDefault, target)
					c.Form = f.Name
					c.Req = reqT{Ref: "idx", Idx: w.e.Idx, Pkg: w.e.Pkg, Kw: w.e.Kw, Inst: w.in.Name, Unv: w.in.Unversioned, Method: meth}
					kw := w.e.Kw
					if kw == "*" {
						kw = sp.Star
					}
					c.Req.URL = urlFor(ref, w.in, kw, sp)
					if !sendResolved(&c.Req, modeDefault, sp.Body, &last, true) {
						run.Count("form-did-not-resolve:" + f.Name)
						continue
					}
					addCase(run, c, fmt.Sprintf("alias/%s/%s/%d/%s/%s", target, f.Name, w.e.Idx, w.in.Name, meth))
					run.Count("form:" + f.Name)
				}
			}
			for _, nr := range nodeRepoProbes(rj, ref) {
				if nr.Action == "branch" || nr.Action == "newversion" || nr.Action == "tag" || nr.Action == "merge" || nr.Action == "resolve" {
					continue // the shape of the DAG (X a HEAD, V at a fixed depth of master) must not move
				}
				for _, meth := range []string{"post", "delete", "get"} {
					if !resolves(ref, target) {
						continue
					}
					c := mkCase("request", modeDefault, target)
					c.Form = f.Name
					c.Req = reqT{Ref: nr.Ref, Kw: nr.Action, Method: meth, URL: nr.URL}
					if !sendResolved(&c.Req, modeDefault, nr.Body(meth, rng), &last, false) {
						run.Count("form-did-not-resolve:" + f.Name)
						continue
					}
					addCase(run, c, fmt.Sprintf("alias/%s/%s/%s/%s/%s", target, f.Name, nr.Ref, nr.Action, meth))
					run.Count("form:" + f.Name)
				}
			}
		}
	}
	lap("alias")
	run.Add("alias-forms", fmt.Sprintf("CAlias %d %d", nforms["V"], nforms["X"]),
		map[string]interface{}{"kind": "alias-forms", "V": refForms("V"), "X": refForms("X")}, "alias-forms")

	// coverage of the generated table by batch 1
	var cov []string
	var instPkgs []string
	for p := range byPkg {
		instPkgs = append(instPkgs, p)
	}
	sort.Strings(instPkgs)
	for _, e := range entries {
		if len(byPkg[e.Pkg]) == 0 {
			continue
		}
		bits := 0
		for i, m := range methods {
			if covered[fmt.Sprintf("%d/%s", e.Idx, m)] {
				bits |= 1 << uint(i)
			}
		}
		cov = append(cov, fmt.Sprintf("(%d,%d)", e.Idx, bits))
	}
	qs := make([]string, len(instPkgs))
	for i, p := range instPkgs {
		qs[i] = coqStr(p)
	}
	run.Add("coverage", fmt.Sprintf("CCover [%s] [%s]", strings.Join(qs, ";"), strings.Join(cov, ";")),
		map[string]interface{}{"kind": "coverage", "packages": instPkgs, "n": len(cov)}, "coverage")
	run.Extra["instantiated_packages"] = instPkgs
	var notInst []string
	for p := range rj.Keywords {
		if len(byPkg[p]) == 0 {
			notInst = append(notInst, p)
		}
	}
	sort.Strings(notInst)
	run.Extra["packages_not_instantiable_offline"] = notInst

	// 7. read stability, default configuration
	stability(run, rng, o, "default")
	lap("stability")

	// 8. read stability again on a server configured with the labelmap label-index cache
	//    ([cache.labelmap] size in the TOML; server.OpenTest(TestConfig{CacheSize}) in-process)
	dv.Close()
	closed = true
	reopenWithCache(run)
	lap("setup-cache")
	stability(run, rng, o, cacheConfig)
	lap("stability-cache")
	server.CloseTest()

	// 9. read stability across a real restart: the server is a child process on its own store
	//    directories; it is shut down and a new process is started on the same directories
	restartPhase(run, rng, o)
	lap("restart")

	run.Finish("c02case",
		"every generated (datatype package, keyword) of the instantiable packages x {GET,HEAD,POST,PUT,DELETE,PATCH} with write-plausible bodies against a committed version in default mode (exhaustive over the generated table), seeded samples of the same matrix with a wrong token / in read-only / full-write / admin modes and on an open child, node- and repo-level routes in every mode; four store digests after every request; then a random later history with a full GET snapshot of the committed version before and after; distinct = distinct (mode, target, route, instance, method)",
		tail)
}

const cacheConfig = "labelmap-index-cache"

// reopenWithCache opens a fresh test datastore on a server whose configuration enables the
// labelmap label-index cache, and rebuilds the repo.
func reopenWithCache(run *lib.Run) {
	insts = nil
	if err := server.OpenTest(server.TestConfig{CacheSize: map[string]int{"labelmap": 10}}); err != nil {
		fmt.Fprintln(os.Stderr, "c02: cannot open the cache-enabled test server:", err)
		os.Exit(2)
	}
	if server.CacheSize("labelmap") == 0 {
		fmt.Fprintln(os.Stderr, "c02: labelmap cache size is 0 after OpenTest")
		os.Exit(2)
	}
	server.VerifSetModes(false, false, "")
	setup(run)
}

// filterChildStdout: the child answers one JSON object per line on stdout, and some DVID code
// prints to stdout too (labelsz "Launching sync event handler...", labelvol "Sparsevol on ...").
// In the child everything written to os.Stdout goes through a pipe; only lines that are JSON
// objects are passed on to the real stdout, the rest goes to stderr.
func filterChildStdout() {
	real := os.Stdout
	pr, pw, err := os.Pipe()
	if err != nil {
		return
	}
	os.Stdout = pw
	go func() {
		rd := bufio.NewReaderSize(pr, 1<<20)
		for {
			line, err := rd.ReadBytes('\n')
			if len(line) > 0 {
				if line[0] == '{' && json.Valid(line) {
					real.Write(line)
				} else {
					os.Stderr.Write(line)
				}
			}
			if err != nil {
				return
			}
		}
	}()
}

const restartConfig = "restart"

// restartPhase rebuilds the repo in a child process (harness/dvh: stores under one directory, opened
// as the dvid binary opens them), records V, P and X, runs a short later history, shuts the
// process down, starts a new one on the same directories and re-reads.  Everything that lives
// only in memory (label maps, index caches, neuronjson's in-memory store) is rebuilt from disk.
func restartPhase(run *lib.Run, rng *lib.Rand, o lib.Opts) {
	dir, err := os.MkdirTemp("", "c02restart")
	if err != nil {
		panic(err)
	}
	defer os.RemoveAll(dir)
	p, err := dvh.Start(dvh.Opts{Dir: dir})
	if err != nil {
		fmt.Fprintln(os.Stderr, "c02: cannot start the child server:", err)
		os.Exit(2)
	}
	child := func(method, url string, body []byte) dv.Resp {
		if len(body) == 0 {
			body = []byte(" ") // (the pipe protocol drops an empty body; a nil http body panics in handlers that read it)
		}
		status, b, alive := p.HTTP(method, url, body)
		if !alive {
			lg, _ := os.ReadFile(p.Log)
			if len(lg) > 3000 {
				lg = lg[len(lg)-3000:]
			}
			fmt.Fprintf(os.Stderr, "c02: the child server died (exit %d) on %s %s body %q\n%s\n%s\n", p.Exit, method, url, truncate(string(body), 200), p.Stderr, lg)
			os.Exit(2)
		}
		return dv.Resp{Status: status, Body: b}
	}
	httpDo, inProcess = child, false
	defer func() { httpDo, inProcess = dv.Do, true }()
	setup(run)
	restart := func() {
		p.Quit()
		np, err := dvh.Start(dvh.Opts{Dir: dir})
		if err != nil {
			fmt.Fprintln(os.Stderr, "c02: the server did not come up again on its own stores:", err)
			os.Exit(2)
		}
		p = np
	}
	restartFn = restart
	stability(run, rng, o, restartConfig)
	restartFn = nil
	p.Quit()
}

var restartFn func()

func toInt(v interface{}) int {
	if i, ok := v.(int); ok {
		return i
	}
	return 0
}

func sortedKeys(m map[string][]string) []string {
	var ks []string
	for k := range m {
		ks = append(ks, k)
	}
	sort.Strings(ks)
	return ks
}

const tail = `
Definition spec_fail := Eval vm_compute in c02_spec_fail cases.
Definition model_mismatch := Eval vm_compute in c02_model_mismatch cases.
`
