package main

import (
	"crypto/sha256"
	"encoding/hex"
	"encoding/json"
	"fmt"
	"os"
	"sort"
	"strings"
	"time"

	"github.com/janelia-flyem/dvid/datastore"
	"github.com/janelia-flyem/dvid/dvid"
	"github.com/janelia-flyem/dvid/storage"
	"verif/harness/dv"
	"verif/harness/lib"
)

type snapT map[string]string // "METHOD url-with-V-replaced" -> status:sha(body)

// the committed versions whose content is recorded and re-read: V, its parent P, and X (a
// committed branch HEAD on another branch)
func snapNodes() [][2]string {
	return [][2]string{{"V", uuidV}, {"P", uuidP}, {"X", uuidX}}
}

// snapshot GETs every versioned read endpoint of every instance at every recorded version.
func snapshot(entries []entryT, byPkg map[string][]instT) snapT {
	s := snapT{}
	for _, nd := range snapNodes() {
		for _, e := range entries {
			for _, in := range byPkg[e.Pkg] {
				if in.Unversioned || in.Name == "lmscratch" {
					continue
				}
				for _, sp := range probesFor(e.Pkg, e.Kw, "get", in) {
					if !sp.Snap {
						continue
					}
					kw := e.Kw
					if kw == "*" {
						kw = sp.Star
					}
					url := urlFor(nd[1], in, kw, sp)
					r := tDo("GET", url, sp.Body)
					h := sha256.Sum256(canon(e.Kw, r.Body))
					s[strings.Replace(url, nd[1], nd[0], 1)] = fmt.Sprintf("%d:%s:%d", r.Status, hex.EncodeToString(h[:6]), len(r.Body))
				}
			}
		}
	}
	return s
}

// canon removes the orderings that come from Go map iteration in a few responses (the content is
// compared as the set / map it denotes): JSON arrays of neuronjson `fields` and labelmap
// `supervoxels`, the parallel arrays of `supervoxel-sizes`, the run list of binary sparse volumes,
// and protobuf maps of `index` / `indices`.
func canon(kw string, b []byte) []byte {
	switch {
	case kw == "fields" || kw == "supervoxels":
		var a []interface{}
		if json.Unmarshal(b, &a) == nil {
			ss := make([]string, len(a))
			for i, x := range a {
				j, _ := json.Marshal(x)
				ss[i] = string(j)
			}
			sort.Strings(ss)
			return []byte(strings.Join(ss, ","))
		}
	case kw == "supervoxel-sizes":
		var m struct {
			Supervoxels []uint64 `json:"supervoxels"`
			Sizes       []uint64 `json:"sizes"`
		}
		if json.Unmarshal(b, &m) == nil && len(m.Supervoxels) == len(m.Sizes) {
			ss := make([]string, len(m.Sizes))
			for i := range ss {
				ss[i] = fmt.Sprintf("%020d:%d", m.Supervoxels[i], m.Sizes[i])
			}
			sort.Strings(ss)
			return []byte(strings.Join(ss, ","))
		}
	case strings.HasPrefix(kw, "sparsevol"):
		if len(b) >= 12 && b[0] == 0 && (len(b)-12)%16 == 0 {
			n := (len(b) - 12) / 16
			rs := make([]string, n)
			for i := 0; i < n; i++ {
				rs[i] = string(b[12+16*i : 28+16*i])
			}
			sort.Strings(rs)
			return []byte(string(b[:12]) + strings.Join(rs, ""))
		}
	case kw == "index" || kw == "indices":
		if c, ok := pbCanon(b, 0); ok {
			return c
		}
	}
	return b
}

func uvar(b []byte) (uint64, int) {
	var x uint64
	for i := 0; i < len(b) && i < 10; i++ {
		x |= uint64(b[i]&0x7f) << (7 * uint(i))
		if b[i] < 0x80 {
			return x, i + 1
		}
	}
	return 0, 0
}

// pbCanon re-serialises a protobuf message with its fields (recursively) sorted.
func pbCanon(b []byte, depth int) ([]byte, bool) {
	if depth > 6 {
		return nil, false
	}
	var fs []string
	for len(b) > 0 {
		k, n := uvar(b)
		if n == 0 || k>>3 == 0 {
			return nil, false
		}
		key := string(b[:n])
		b = b[n:]
		var enc []byte
		switch k & 7 {
		case 0:
			_, m := uvar(b)
			if m == 0 {
				return nil, false
			}
			enc, b = b[:m], b[m:]
		case 1:
			if len(b) < 8 {
				return nil, false
			}
			enc, b = b[:8], b[8:]
		case 5:
			if len(b) < 4 {
				return nil, false
			}
			enc, b = b[:4], b[4:]
		case 2:
			l, m := uvar(b)
			if m == 0 || uint64(len(b)-m) < l {
				return nil, false
			}
			payload := b[m : m+int(l)]
			b = b[m+int(l):]
			if sub, ok := pbCanon(payload, depth+1); ok && len(payload) > 0 {
				payload = sub
			}
			enc = append(pbVarint(uint64(len(payload))), payload...)
		default:
			return nil, false
		}
		fs = append(fs, key+string(enc))
	}
	sort.Strings(fs)
	return []byte(strings.Join(fs, "")), true
}

// deleteInstance deletes a data instance and waits for the asynchronous deletion to finish.
// Waiting matters: repoT.saveToStore read-locks the repo and, through gob, read-locks it again in
// repoT.GobEncode, so any repo save (a commit, say) that overlaps the writer lock requested by the
// deletion goroutine (deleteSyncGraph) deadlocks the repo for good.
func deleteInstance(name string) error {
	d, err := datastore.GetDataByUUIDName(dvid.UUID(uuidR), dvid.InstanceName(name))
	if err != nil {
		return err
	}
	db, err := datastore.GetOrderedKeyValueDB(d)
	if err != nil {
		return err
	}
	minK, maxK := storage.DataInstanceKeyRange(d.InstanceID())
	if err := datastore.DeleteDataByName(dvid.UUID(uuidR), dvid.InstanceName(name), ""); err != nil {
		return err
	}
	for i := 0; i < 2000; i++ {
		ch := make(chan *storage.KeyValue, 16)
		cancel := make(chan struct{})
		go db.RawRangeQuery(minK, maxK, true, ch, cancel)
		kv := <-ch
		if kv == nil {
			break
		}
		close(cancel)
		time.Sleep(5 * time.Millisecond)
	}
	time.Sleep(150 * time.Millisecond)
	return nil
}

type stabT struct {
	Kind        string   `json:"kind"`
	Config      string   `json:"config"` // default | labelmap-index-cache | restart
	Reads       int      `json:"reads"`
	Nonempty    int      `json:"reads_with_content"`
	Checkpoints int      `json:"checkpoints"`
	Ops         []string `json:"ops"`
	Differ      []string `json:"differ"`
	NodeV       bool     `json:"node_state_changed"`
}

type perT struct {
	Kind   string   `json:"kind"`
	Config string   `json:"config"`
	Node   string   `json:"node"`
	Inst   string   `json:"instance"`
	Pkg    string   `json:"pkg"`
	Reads  int      `json:"reads"`
	Differ []string `json:"differ"` // "<url>: <answer at commit time> -> <later answer> after <place of the later history>"
	Known  []string `json:"differ_known"`
	Code   int      `json:"known_code"`
}

// recorder keeps, for every read of the snapshot, the first later answer that differs from the one
// recorded at commit time, and the part of the later history after which it was seen.
type recorder struct {
	entries []entryT
	byPkg   map[string][]instT
	before  snapT
	worst   snapT
	where   map[string]string
	n       int
	sparse  bool
}

func newRecorder(entries []entryT, byPkg map[string][]instT) *recorder {
	r := &recorder{entries: entries, byPkg: byPkg, worst: snapT{}, where: map[string]string{}}
	r.before = snapshot(entries, byPkg)
	for k, v := range r.before {
		r.worst[k] = v
	}
	return r
}

func (r *recorder) checkpoint(after string) {
	if explore && os.Getenv("C02_EXPLORE") == "3" {
		fmt.Printf("DBG before %q: V mapping %q P mapping %q\n", after, tDo("GET", node(uuidV, "lm", "mapping?u=verif"), []byte("[1,2,3,7]")).Body, tDo("GET", node(uuidP, "lm", "mapping?u=verif"), []byte("[1,2,3,7]")).Body)
	}
	if r.sparse && !strings.Contains(after, "restart") && !strings.Contains(after, "random tail") {
		return // (restart run, quick tier: every snapshot crosses the pipe to the child process)
	}
	settleLater()
	now := snapshot(r.entries, r.byPkg)
	for k, v := range r.before {
		if r.worst[k] == v && now[k] != v {
			r.worst[k] = now[k]
			r.where[k] = after
			if explore {
				fmt.Printf("DIFF %s: %s -> %s after %s\n", k, v, now[k], after)
			}
		}
	}
	r.n++
}

func settleLater() {
	if inProcess {
		time.Sleep(40 * time.Millisecond)
		quiesce(true)
	} else {
		time.Sleep(700 * time.Millisecond)
	}
}

// emit writes the stability cases: one summary and one per (recorded version, instance).
func (r *recorder) emit(run *lib.Run, st *stabT) {
	var keys []string
	for k := range r.before {
		keys = append(keys, k)
	}
	sort.Strings(keys)
	per := map[string]*perT{}
	var names []string
	for _, k := range keys {
		parts := strings.Split(k, "/") // "", api, node, <V|P|X>, inst, kw...
		nd, name := parts[3], parts[4]
		id := nd + "/" + name
		p := per[id]
		if p == nil {
			p = &perT{Kind: "stability-instance", Config: st.Config, Node: nd, Inst: name}
			for _, in := range insts {
				if in.Name == name {
					p.Pkg = in.Pkg
				}
			}
			per[id] = p
			names = append(names, id)
		}
		p.Reads++
		if strings.HasPrefix(r.before[k], "200:") {
			st.Nonempty++
		}
		if r.before[k] != r.worst[k] {
			d := fmt.Sprintf("%s: %s -> %s after %s", k, r.before[k], r.worst[k], r.where[k])
			switch {
			case p.Pkg == "roi" && strings.Contains(k, "/partition"):
				// recorded finding C02-roi-partition: laid out from the instance-wide MinZ/MaxZ properties
				p.Known, p.Code = append(p.Known, d), 7
			case p.Pkg == "tarsupervoxels":
				// recorded finding C02-tarsupervoxels-root-pinned: every blob lives at the repo's root version
				p.Known, p.Code = append(p.Known, d), 8
			default:
				p.Differ = append(p.Differ, d)
				st.Differ = append(st.Differ, d)
			}
		}
	}
	st.Reads = len(r.before)
	st.Checkpoints = r.n
	run.Extra["stability_reads/"+st.Config] = st.Reads
	run.Extra["stability_reads_with_content/"+st.Config] = st.Nonempty
	run.Extra["stability_ops/"+st.Config] = len(st.Ops)
	if explore {
		fmt.Println("stability", st.Config, ": reads", st.Reads, "with content", st.Nonempty, "ops", len(st.Ops), "differ", len(st.Differ), "node", st.NodeV)
	}
	run.Add("stability", fmt.Sprintf("CStable %d %d %d %s", st.Reads, st.Nonempty, len(st.Differ), lib.CoqBool(st.NodeV)), st, "stability/"+st.Config)
	for _, id := range names {
		p := per[id]
		run.Add("stability-instance", fmt.Sprintf("CStabInst %d %d %d %d", p.Code, p.Reads, len(p.Differ), len(p.Known)), p, "stability/"+st.Config+"/"+id)
	}
}

// writeBatch sends, to the open node u, every request of the generated table that the handler
// accepts with POST, PUT or DELETE, for every instance, with every probe shape: overwrites,
// replacements, deletions of every recorded key, and the whole-instance operations (DELETE roi,
// POST roi, annotation reload, labelmap ingest-supervoxels / blocks / raw, tarsupervoxels load ...).
// Instance-level configuration endpoints are left to the request matrix.
func writeBatch(st *stabT, entries []entryT, byPkg map[string][]instT, has map[string]bool, u, place string) {
	n, ok := 0, 0
	for _, e := range entries {
		switch e.Kw {
		case "info", "sync", "tags", "help", "metadata", "resolution":
			continue
		}
		for _, in := range byPkg[e.Pkg] {
			if !has[in.Name] {
				continue
			}
			for _, meth := range []string{"post", "put", "delete"} {
				accepted := false
				for _, m := range e.Methods {
					if m == meth {
						accepted = true
					}
				}
				if !accepted {
					continue
				}
				for _, sp := range probesFor(e.Pkg, e.Kw, meth, in) {
					kw := e.Kw
					if kw == "*" {
						kw = sp.Star
					}
					r := tDo(strings.ToUpper(meth), urlFor(u, in, kw, sp), sp.Body)
					n++
					if r.Status == 200 {
						ok++
					}
				}
			}
		}
	}
	st.Ops = append(st.Ops, fmt.Sprintf("%s: every accepted POST/PUT/DELETE of every instance: %d requests, %d answered 200", place, n, ok))
}

// stability: record what the committed versions V, P and X return, then run a later history and
// re-read.  The later history writes, replaces and deletes the content of EVERY instance
//   (a) in descendants of V,
//   (b) in siblings forked from V's parent, from its grandparent, and from the empty root,
//   (c) on an unrelated branch,
//   (d) in other instances (created and deleted, including the neighbour in instance-id order),
// with a checkpoint (full re-read) after each place, then a random tail of version operations.
func stability(run *lib.Run, rng *lib.Rand, o lib.Opts, config string) {
	_, entries := loadRoutes()
	byPkg := map[string][]instT{}
	has := map[string]bool{}
	for _, in := range insts {
		byPkg[in.Pkg] = append(byPkg[in.Pkg], in)
		has[in.Name] = true
	}
	rec := newRecorder(entries, byPkg)
	rec.sparse = restartFn != nil && !o.Thorough()
	var d0 digT
	if inProcess {
		d0 = digest()
	}
	st := &stabT{Kind: "stability", Config: config}
	op := func(what string, r dv.Resp) {
		st.Ops = append(st.Ops, fmt.Sprintf("%s -> %d", what, r.Status))
	}
	mustOpen := func(what, uuid string, r dv.Resp) string {
		op(what, r)
		if r.Status != 200 || uuid == "" {
			fmt.Fprintf(os.Stderr, "c02 later history: %s: %d %s\n", what, r.Status, truncate(string(r.Body), 200))
			os.Exit(2)
		}
		return uuid
	}

	// (a) descendant: proofreading first (what V reads for labels 1, 2 and supervoxel 3 must not move)
	u := uuidU
	if has["lm"] {
		op("POST lm/merge [1,2] (child of V)", tPost(node(u, "lm", "merge?u=verif"), []byte("[1,2]")))
		settleLater()
		op("POST lm/cleave/1 [3] (child of V)", tPost(node(u, "lm", "cleave/1?u=verif"), []byte("[3]")))
	}
	if has["la"] {
		op("POST la/merge [1,2] (child of V)", tPost(node(u, "la", "merge?u=verif"), []byte("[1,2]")))
	}
	rec.checkpoint("proofreading in the child of V")
	writeBatch(st, entries, byPkg, has, u, "child of V")
	rec.checkpoint("writes in the child of V")

	// (b) siblings: forked from V's parent, from its grandparent, from the empty root
	forks := [][3]string{{"sibling forked from V's parent", uuidP, "sib-p"}, {"sibling forked from V's grandparent", uuidG, "sib-g"},
		{"sibling forked from the empty root", uuidR, "sib-e"}}
	if restartFn != nil && !o.Thorough() {
		forks = forks[2:] // the restart run goes through a pipe: a shorter history in the quick tier
	}
	for _, f := range forks {
		c, r := tBranch(f[1], f[2])
		sib := mustOpen("branch "+f[2], c, r)
		writeBatch(st, entries, byPkg, has, sib, f[0])
		rec.checkpoint("writes in the " + f[0])
		if f[2] == "sib-e" {
			// a second round on the same sibling: replacing what the first round wrote
			writeBatch(st, entries, byPkg, has, sib, f[0]+" (second round)")
			rec.checkpoint("second round of writes in the " + f[0])
		}
		op("commit "+f[2], tCommit(sib))
	}

	// (c) an unrelated branch
	c, r := tBranch(uuidW, "w-later")
	wu := mustOpen("branch off W", c, r)
	writeBatch(st, entries, byPkg, has, wu, "child of the unrelated branch W")
	rec.checkpoint("writes on the unrelated branch")

	// (d) other instances: new ones, and the deletion of the neighbour in instance-id order
	if inProcess && has["lmscratch"] && os.Getenv("C02_NODELETE") == "" {
		err := deleteInstance("lmscratch") // instance ids are handed out in creation order: lmscratch sits right before la
		st.Ops = append(st.Ops, fmt.Sprintf("delete instance lmscratch -> %v", err))
		if err == nil {
			has["lmscratch"] = false
		}
	}
	for i, typ := range []string{"keyvalue", "labelmap", "roi", "annotation"} {
		name := fmt.Sprintf("later%d", i)
		err := tNewInstance(wu, typ, name, nil)
		st.Ops = append(st.Ops, fmt.Sprintf("new instance %s %s -> %v", typ, name, err))
		if err == nil {
			switch typ {
			case "keyvalue":
				tPost(node(wu, name, "key/k1"), []byte("later"))
			case "roi":
				tPost(node(wu, name, "roi"), []byte(roiB))
			case "labelmap":
				tPost(node(wu, name, "raw/0_1_2/64_64_64/0_0_0"), volCBytes)
			}
		}
	}
	if inProcess {
		settleLater()
		err := deleteInstance("later0")
		st.Ops = append(st.Ops, fmt.Sprintf("delete instance later0 -> %v", err))
	}
	rec.checkpoint("new and deleted instances")

	// random tail: version operations and writes anywhere open
	open := []string{uuidU, wu}
	committed := []string{uuidV, uuidW, uuidR, uuidP, uuidG}
	var leaves []string // committed in the tail, no child yet
	trunk := uuidU      // the deepest descendant of V on the master branch
	nops := 40
	if o.Thorough() {
		nops = 400
	}
	if restartFn != nil {
		nops = 15
	}
	for i := 0; i < nops; i++ {
		switch k := rng.Intn(12); {
		case k < 5 && len(open) > 0: // write into an open node
			u := open[rng.Intn(len(open))]
			var cands []instT
			for _, in := range insts {
				if has[in.Name] {
					cands = append(cands, in)
				}
			}
			in := cands[rng.Intn(len(cands))]
			var es []entryT
			for _, e := range entries {
				if e.Pkg == in.Pkg {
					es = append(es, e)
				}
			}
			e := es[rng.Intn(len(es))]
			meth := []string{"post", "post", "post", "delete", "put"}[rng.Intn(5)]
			ps := probesFor(e.Pkg, e.Kw, meth, in)
			sp := ps[rng.Intn(len(ps))]
			kw := e.Kw
			if kw == "*" {
				kw = sp.Star
			}
			url := urlFor(u, in, kw, sp)
			op(strings.ToUpper(meth)+" "+strings.Replace(url, u, "open", 1), tDo(strings.ToUpper(meth), url, sp.Body))
		case k == 5 && len(open) > 0: // commit an open node
			j := rng.Intn(len(open))
			u := open[j]
			r := tCommit(u)
			op("commit", r)
			if r.Status == 200 {
				open = append(open[:j], open[j+1:]...)
				committed = append(committed, u)
				leaves = append(leaves, u)
			}
		case k == 6 || k == 7: // new version of a committed node that has no child on its branch yet
			// (DVID accepts a second newversion on the same branch; the branch then has two heads and
			// its ancestry can no longer be computed, see sendResolved; the later history keeps branches linear)
			if len(leaves) == 0 {
				continue
			}
			j := rng.Intn(len(leaves))
			p := leaves[j]
			c, r := tNewVersion(p)
			op("newversion", r)
			if r.Status == 200 {
				open = append(open, c)
				leaves = append(leaves[:j], leaves[j+1:]...)
				if p == trunk {
					trunk = c
				}
			}
		case k == 8: // branch
			p := committed[rng.Intn(len(committed))]
			c, r := tBranch(p, fmt.Sprintf("b%d", rng.U64()%100000000))
			op("branch", r)
			if r.Status == 200 {
				open = append(open, c)
			}
		case k == 9 && len(committed) >= 2: // merge two committed nodes
			a := committed[rng.Intn(len(committed))]
			b := committed[rng.Intn(len(committed))]
			if a != b {
				c, r := tMerge([]string{a, b})
				op("merge", r)
				if r.Status == 200 && c != "" {
					open = append(open, c)
				}
			}
		case k == 10 && len(open) > 0 && has["lm"]: // labelmap proofreading somewhere open
			u := open[rng.Intn(len(open))]
			switch rng.Intn(3) {
			case 0:
				op("lm merge", tPost(node(u, "lm", "merge?u=verif"), []byte("[2,1]")))
			case 1:
				op("lm cleave", tPost(node(u, "lm", "cleave/1?u=verif"), []byte("[3]")))
			default:
				op("lm split-supervoxel", tPost(node(u, "lm", "split-supervoxel/2?u=verif"), sparsevolRLE(2, [][4]int{{40, 5, 5, 10}})))
			}
		}
	}
	rec.checkpoint("the random tail")
	if restartFn != nil {
		// the trunk continues below V: the node created last on master descends from V, P, G and E, so
		// the restarted server rebuilds its in-memory state leaf-to-root through all of them
		op("commit the trunk", tCommit(trunk))
		if c, r := tNewVersion(trunk); r.Status == 200 {
			op("newversion of the trunk", r)
			trunk = c
			open = append([]string{c}, open...)
			tPost(node(c, "kv", "key/trunk?u=verif"), []byte("trunk"))
		} else {
			op("newversion of the trunk", r)
		}
		restartFn()
		st.Ops = append(st.Ops, "server process shut down; new process started on the same store directories")
		// clients look at the HEAD first: read every instance at the open nodes before the committed ones
		for _, u := range open {
			for _, e := range entries {
				for _, in := range byPkg[e.Pkg] {
					if !has[in.Name] || in.Unversioned {
						continue
					}
					for _, sp := range probesFor(e.Pkg, e.Kw, "get", in) {
						if sp.Snap && e.Kw != "*" {
							tDo("GET", urlFor(u, in, e.Kw, sp), sp.Body)
						}
					}
				}
			}
		}
		rec.checkpoint("a restart of the server process")
		// and the restarted server keeps serving writes without disturbing what is committed
		writeBatch(st, entries, byPkg, has, wu, "child of the unrelated branch W, after the restart")
		rec.checkpoint("writes after the restart")
	}
	if inProcess {
		d1 := digest()
		st.NodeV = d0.Node != d1.Node
	}
	rec.emit(run, st)
}
