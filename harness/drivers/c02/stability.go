package main

import (
	"crypto/sha256"
	"encoding/hex"
	"encoding/json"
	"fmt"
	"os"
	"sort"
	"strings"
	"time"

	"github.com/janelia-flyem/dvid/datastore"
	"github.com/janelia-flyem/dvid/dvid"
	"github.com/janelia-flyem/dvid/storage"
	"verif/harness/dv"
	"verif/harness/lib"
)

type snapT map[string]string // "METHOD url-with-V-replaced" -> status:sha(body)

// snapshot GETs every versioned read endpoint of every instance at V.
func snapshot(entries []entryT, byPkg map[string][]instT) snapT {
	s := snapT{}
	for _, e := range entries {
		for _, in := range byPkg[e.Pkg] {
			if in.Unversioned {
				continue
			}
			for _, sp := range probesFor(e.Pkg, e.Kw, "get", in) {
				if !sp.Snap {
					continue
				}
				kw := e.Kw
				if kw == "*" {
					kw = sp.Star
				}
				url := urlFor(uuidV, in, kw, sp)
				r := dv.Do("GET", url, sp.Body)
				h := sha256.Sum256(canon(e.Kw, r.Body))
				s[strings.Replace(url, uuidV, "V", 1)] = fmt.Sprintf("%d:%s:%d", r.Status, hex.EncodeToString(h[:6]), len(r.Body))
			}
		}
	}
	return s
}

// canon removes the orderings that come from Go map iteration in a few responses (the content is
// compared as the set / map it denotes): JSON arrays of neuronjson `fields` and labelmap
// `supervoxels`, the parallel arrays of `supervoxel-sizes`, the run list of binary sparse volumes,
// and protobuf maps of `index` / `indices`.
func canon(kw string, b []byte) []byte {
	switch {
	case kw == "fields" || kw == "supervoxels":
		var a []interface{}
		if json.Unmarshal(b, &a) == nil {
			ss := make([]string, len(a))
			for i, x := range a {
				j, _ := json.Marshal(x)
				ss[i] = string(j)
			}
			sort.Strings(ss)
			return []byte(strings.Join(ss, ","))
		}
	case kw == "supervoxel-sizes":
		var m struct {
			Supervoxels []uint64 `json:"supervoxels"`
			Sizes       []uint64 `json:"sizes"`
		}
		if json.Unmarshal(b, &m) == nil && len(m.Supervoxels) == len(m.Sizes) {
			ss := make([]string, len(m.Sizes))
			for i := range ss {
				ss[i] = fmt.Sprintf("%020d:%d", m.Supervoxels[i], m.Sizes[i])
			}
			sort.Strings(ss)
			return []byte(strings.Join(ss, ","))
		}
	case strings.HasPrefix(kw, "sparsevol"):
		if len(b) >= 12 && b[0] == 0 && (len(b)-12)%16 == 0 {
			n := (len(b) - 12) / 16
			rs := make([]string, n)
			for i := 0; i < n; i++ {
				rs[i] = string(b[12+16*i : 28+16*i])
			}
			sort.Strings(rs)
			return []byte(string(b[:12]) + strings.Join(rs, ""))
		}
	case kw == "index" || kw == "indices":
		if c, ok := pbCanon(b, 0); ok {
			return c
		}
	}
	return b
}

func uvar(b []byte) (uint64, int) {
	var x uint64
	for i := 0; i < len(b) && i < 10; i++ {
		x |= uint64(b[i]&0x7f) << (7 * uint(i))
		if b[i] < 0x80 {
			return x, i + 1
		}
	}
	return 0, 0
}

// pbCanon re-serialises a protobuf message with its fields (recursively) sorted.
func pbCanon(b []byte, depth int) ([]byte, bool) {
	if depth > 6 {
		return nil, false
	}
	var fs []string
	for len(b) > 0 {
		k, n := uvar(b)
		if n == 0 || k>>3 == 0 {
			return nil, false
		}
		key := string(b[:n])
		b = b[n:]
		var enc []byte
		switch k & 7 {
		case 0:
			_, m := uvar(b)
			if m == 0 {
				return nil, false
			}
			enc, b = b[:m], b[m:]
		case 1:
			if len(b) < 8 {
				return nil, false
			}
			enc, b = b[:8], b[8:]
		case 5:
			if len(b) < 4 {
				return nil, false
			}
			enc, b = b[:4], b[4:]
		case 2:
			l, m := uvar(b)
			if m == 0 || uint64(len(b)-m) < l {
				return nil, false
			}
			payload := b[m : m+int(l)]
			b = b[m+int(l):]
			if sub, ok := pbCanon(payload, depth+1); ok && len(payload) > 0 {
				payload = sub
			}
			enc = append(pbVarint(uint64(len(payload))), payload...)
		default:
			return nil, false
		}
		fs = append(fs, key+string(enc))
	}
	sort.Strings(fs)
	return []byte(strings.Join(fs, "")), true
}

// deleteInstance deletes a data instance and waits for the asynchronous deletion to finish.
// Waiting matters: repoT.saveToStore read-locks the repo and, through gob, read-locks it again in
// repoT.GobEncode, so any repo save (a commit, say) that overlaps the writer lock requested by the
// deletion goroutine (deleteSyncGraph) deadlocks the repo for good.
func deleteInstance(name string) error {
	d, err := datastore.GetDataByUUIDName(dvid.UUID(uuidR), dvid.InstanceName(name))
	if err != nil {
		return err
	}
	db, err := datastore.GetOrderedKeyValueDB(d)
	if err != nil {
		return err
	}
	minK, maxK := storage.DataInstanceKeyRange(d.InstanceID())
	if err := datastore.DeleteDataByName(dvid.UUID(uuidR), dvid.InstanceName(name), ""); err != nil {
		return err
	}
	for i := 0; i < 2000; i++ {
		ch := make(chan *storage.KeyValue, 16)
		cancel := make(chan struct{})
		go db.RawRangeQuery(minK, maxK, true, ch, cancel)
		kv := <-ch
		if kv == nil {
			break
		}
		close(cancel)
		time.Sleep(5 * time.Millisecond)
	}
	time.Sleep(150 * time.Millisecond)
	return nil
}

type stabT struct {
	Kind     string   `json:"kind"`
	Reads    int      `json:"reads"`
	Ops      []string `json:"ops"`
	Differ   []string `json:"differ"`
	DigestV  bool     `json:"digest_v_changed"`
	NodeV    bool     `json:"node_state_changed"`
	Config   string   `json:"config"` // default | labelmap-index-cache
	Checkpoints int   `json:"checkpoints"`
	Nonempty int      `json:"reads_with_content"`
}

// stability: snapshot V, run a random later history on descendants, siblings, merges, new and
// deleted instances, snapshot again.
func stability(run *lib.Run, rng *lib.Rand, o lib.Opts, config string) {
	_, entries := loadRoutes()
	byPkg := map[string][]instT{}
	has := map[string]bool{}
	for _, in := range insts {
		byPkg[in.Pkg] = append(byPkg[in.Pkg], in)
		has[in.Name] = true
	}
	before := snapshot(entries, byPkg)
	d0 := digest()
	st := stabT{Kind: "stability", Config: config, Reads: len(before)}
	// checkpoints: the snapshot is retaken at several points of the later history; for every read
	// the first answer that differs from the one at commit time is kept (a wrong answer served
	// from a cache may be evicted again by a later operation)
	worst := snapT{}
	for k, v := range before {
		worst[k] = v
	}
	checkpoint := func() {
		quiesce(true)
		now := snapshot(entries, byPkg)
		for k, v := range before {
			if worst[k] == v && now[k] != v {
				worst[k] = now[k]
			}
		}
		st.Checkpoints++
	}
	for _, v := range before {
		if strings.HasPrefix(v, "200:") {
			st.Nonempty++
		}
	}
	cur := before
	blame := func() {
		if !explore {
			return
		}
		quiesce(true)
		now := snapshot(entries, byPkg)
		for k, v := range cur {
			if now[k] != v && !strings.Contains(k, "/lmscratch/") {
				fmt.Printf("BLAME %s: %s -> %s after %s\n", k, v, now[k], st.Ops[len(st.Ops)-1])
			}
		}
		cur = now
	}
	op := func(what string, r dv.Resp) {
		beat()
		st.Ops = append(st.Ops, fmt.Sprintf("%s -> %d", what, r.Status))
	}
	open := []string{uuidU}       // open nodes
	committed := []string{uuidV, uuidW, uuidR}
	nops := 60
	if o.Thorough() {
		nops = 400
	}
	scratch := 0
	// fixed prelude: the later operations every run must contain
	{
		u := uuidU
		op("POST kv/key/k1 (overwrite in child)", dv.Post(node(u, "kv", "key/k1?u=verif"), []byte("child-value")))
		op("DELETE kv/key/k2 (child)", dv.Delete(node(u, "kv", "key/k2?u=verif")))
		if has["roi"] {
			op("POST roi/roi (child)", dv.Post(node(u, "roi", "roi?u=verif"), []byte(roiB)))
		}
		if has["gray"] {
			op("POST gray/raw (child)", dv.Post(node(u, "gray", "raw/0_1_2/32_32_32/0_0_0?u=verif"), grayB))
		}
		if has["lm"] {
			// proofreading in the child: what V reads for labels 1, 2 and supervoxel 3 must not move
			op("POST lm/merge [1,2] (child)", dv.Post(node(u, "lm", "merge?u=verif"), []byte("[1,2]")))
			quiesce(true)
			op("POST lm/cleave/1 [3] (child)", dv.Post(node(u, "lm", "cleave/1?u=verif"), []byte("[3]")))
			quiesce(true)
		}
		if has["la"] {
			op("POST la/merge [1,2] (child)", dv.Post(node(u, "la", "merge?u=verif"), []byte("[1,2]")))
			quiesce(true)
		}
		checkpoint()
		if has["lm"] {
			op("POST lm/raw (child)", dv.Post(node(u, "lm", "raw/0_1_2/64_64_64/0_0_0?u=verif"), volBBytesG))
			quiesce(true)
			op("POST lm/merge [7,8] (child)", dv.Post(node(u, "lm", "merge?u=verif"), []byte("[7,8]")))
		}
		if has["an"] {
			op("POST an/elements (child)", dv.Post(node(u, "an", "elements?u=verif"), []byte(annotB)))
			op("DELETE an/element (child)", dv.Delete(node(u, "an", "element/10_10_10?u=verif")))
		}
		if has["nj"] {
			op("POST nj/key/1000 (child)", dv.Post(node(u, "nj", "key/1000?u=verif"), []byte(njB)))
			op("DELETE nj/key/2000 (child)", dv.Delete(node(u, "nj", "key/2000?u=verif")))
		}
		if has["tsv"] {
			op("POST tsv/supervoxel/1 (child)", dv.Post(node(u, "tsv", "supervoxel/1?u=verif"), []byte("PROBE-mesh")))
		}
		if has["lmscratch"] && os.Getenv("C02_NODELETE") == "" {
			// instance ids are handed out in creation order: lmscratch sits right before la
			err := deleteInstance("lmscratch")
			st.Ops = append(st.Ops, fmt.Sprintf("delete instance lmscratch -> %v", err))
			if err == nil {
				has["lmscratch"] = false
			}
		}
		quiesce(true)
		if len(st.Ops) > 0 {
			blame()
		}
		checkpoint()
	}
	for i := 0; i < nops; i++ {
		switch k := rng.Intn(14); {
		case k < 6 && len(open) > 0: // write into an open descendant / sibling
			u := open[rng.Intn(len(open))]
			var cands []instT
			for _, in := range insts {
				if has[in.Name] {
					cands = append(cands, in)
				}
			}
			in := cands[rng.Intn(len(cands))]
			// pick a random table entry of the package and a mutating method
			var es []entryT
			for _, e := range entries {
				if e.Pkg == in.Pkg {
					es = append(es, e)
				}
			}
			e := es[rng.Intn(len(es))]
			meth := []string{"post", "post", "post", "delete", "put"}[rng.Intn(5)]
			ps := probesFor(e.Pkg, e.Kw, meth, in)
			sp := ps[rng.Intn(len(ps))]
			kw := e.Kw
			if kw == "*" {
				kw = sp.Star
			}
			url := urlFor(u, in, kw, sp)
			op(strings.ToUpper(meth)+" "+strings.Replace(url, u, "open", 1), dv.Do(strings.ToUpper(meth), url, sp.Body))
		case k == 6 && len(open) > 0: // commit an open node
			j := rng.Intn(len(open))
			u := open[j]
			r := dv.Commit(u)
			op("commit", r)
			if r.Status == 200 {
				open = append(open[:j], open[j+1:]...)
				committed = append(committed, u)
			}
		case k == 7: // new version of a committed node
			p := committed[rng.Intn(len(committed))]
			c, r := dv.NewVersion(p)
			op("newversion", r)
			if r.Status == 200 {
				open = append(open, c)
			}
		case k == 8: // branch
			p := committed[rng.Intn(len(committed))]
			c, r := dv.Branch(p, fmt.Sprintf("b%d", rng.U64()%100000000))
			op("branch", r)
			if r.Status == 200 {
				open = append(open, c)
			}
		case k == 9 && len(committed) >= 2: // merge two committed nodes
			a := committed[rng.Intn(len(committed))]
			b := committed[rng.Intn(len(committed))]
			if a != b {
				c, r := dv.Merge([]string{a, b})
				op("merge", r)
				if r.Status == 200 && c != "" {
					open = append(open, c)
				}
			}
		case k == 10 && len(open) > 0: // new instance on an open node (instances are repo-wide)
			scratch++
			name := fmt.Sprintf("scratch%d", scratch)
			typ := []string{"keyvalue", "labelmap", "annotation", "roi"}[rng.Intn(4)]
			u := open[rng.Intn(len(open))]
			err := dv.NewInstance(u, typ, name, nil)
			st.Ops = append(st.Ops, fmt.Sprintf("new instance %s %s -> %v", typ, name, err))
			if err == nil && typ == "keyvalue" {
				dv.Post(node(u, name, "key/k1"), []byte("scratch"))
			}
		case k == 11 && scratch > 0: // delete a scratch instance
			name := fmt.Sprintf("scratch%d", 1+rng.Intn(scratch))
			err := deleteInstance(name)
			st.Ops = append(st.Ops, fmt.Sprintf("delete instance %s -> %v", name, err))
		case k == 12 && has["lmscratch"] && rng.Chance(0.3) && os.Getenv("C02_NODELETE") == "": // delete a pre-existing instance other than the snapshotted ones
			err := deleteInstance("lmscratch")
			st.Ops = append(st.Ops, fmt.Sprintf("delete instance lmscratch -> %v", err))
			if err == nil {
				has["lmscratch"] = false
			}
		case k == 13 && len(open) > 0: // labelmap proofreading in a descendant
			u := open[rng.Intn(len(open))]
			switch rng.Intn(3) {
			case 0:
				op("lm merge", dv.Post(node(u, "lm", "merge"), []byte("[2,1]")))
			case 1:
				op("lm cleave", dv.Post(node(u, "lm", "cleave/1"), []byte("[3]")))
			default:
				op("lm split-supervoxel", dv.Post(node(u, "lm", "split-supervoxel/2"), sparsevolRLE(2, [][4]int{{40, 5, 5, 10}})))
			}
		}
		if len(st.Ops) > 0 {
			blame()
		}
	}
	_ = blame
	time.Sleep(60 * time.Millisecond)
	quiesce(true)
	// lmscratch may be gone: it holds nothing stamped with V that the snapshot reads, but its keys
	// stamped with other versions legitimately disappear: compare only V's note/log/lock and the
	// V-stamped keys of the surviving instances through the snapshot itself
	byPkg2 := map[string][]instT{}
	for _, in := range insts {
		if has[in.Name] || in.Name == "lmscratch" {
			byPkg2[in.Pkg] = append(byPkg2[in.Pkg], in)
		}
	}
	checkpoint()
	after := worst
	d1 := digest()
	st.NodeV = d0.Node != d1.Node
	var keys []string
	for k := range before {
		keys = append(keys, k)
	}
	sort.Strings(keys)
	type perT struct {
		Kind   string   `json:"kind"`
		Config string   `json:"config"`
		Inst   string   `json:"instance"`
		Pkg    string   `json:"pkg"`
		Reads  int      `json:"reads"`
		Differ []string `json:"differ"`
		Known  []string `json:"differ_known"`
		Code   int      `json:"known_code"`
		Ops    []string `json:"ops"`
	}
	per := map[string]*perT{}
	var names []string
	for _, k := range keys {
		if strings.Contains(k, "/lmscratch/") {
			continue
		}
		parts := strings.Split(k, "/") // "", api, node, V, inst, kw...
		name := parts[4]
		p := per[name]
		if p == nil {
			p = &perT{Kind: "stability-instance", Config: config, Inst: name}
			for _, in := range insts {
				if in.Name == name {
					p.Pkg = in.Pkg
				}
			}
			per[name] = p
			names = append(names, name)
		}
		p.Reads++
		if before[k] != after[k] {
			d := fmt.Sprintf("%s: %s -> %s", k, before[k], after[k])
			switch {
			case p.Pkg == "roi" && strings.Contains(k, "/partition"):
				// recorded finding C02-roi-partition: laid out from the instance-wide MinZ/MaxZ properties
				p.Known, p.Code = append(p.Known, d), 7
			case p.Pkg == "tarsupervoxels":
				// recorded finding C02-tarsupervoxels-root-pinned: every blob lives at the repo's root version
				p.Known, p.Code = append(p.Known, d), 8
			default:
				p.Differ = append(p.Differ, d)
				st.Differ = append(st.Differ, d)
			}
		}
	}
	run.Extra["stability_reads/"+config] = st.Reads
	run.Extra["stability_reads_with_content/"+config] = st.Nonempty
	run.Extra["stability_ops/"+config] = len(st.Ops)
	if explore {
		for _, d := range st.Differ {
			fmt.Println("DIFF", d)
		}
		fmt.Println("stability: reads", st.Reads, "with content", st.Nonempty, "ops", len(st.Ops), "differ", len(st.Differ), "node", st.NodeV)
	}
	run.Add("stability", fmt.Sprintf("CStable %d %d %d %s", st.Reads, st.Nonempty, len(st.Differ), lib.CoqBool(st.NodeV)), st, "stability/"+config)
	for _, name := range names {
		p := per[name]
		p.Ops = st.Ops
		run.Add("stability-instance", fmt.Sprintf("CStabInst %d %d %d %d", p.Code, p.Reads, len(p.Differ), len(p.Known)), p, "stability/"+config+"/"+name)
	}
}
