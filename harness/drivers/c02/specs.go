package main

// Instances, their content, and the request shapes (URL suffix, query, body) used to probe each
// (package, keyword, method).  Bodies are "write-plausible": for every endpoint that can write,
// the body is one that the endpoint would store on an open node, and it differs from what the
// setup stored, so that a write that gets through shows in the digests.

import (
	"bytes"
	"encoding/binary"
	"encoding/json"
	"fmt"
	"os"
	"strings"
	"time"

	"github.com/janelia-flyem/dvid/datastore"
	"github.com/janelia-flyem/dvid/dvid"
	"verif/harness/dv"
	"verif/harness/lib"
)

type probeT struct {
	Suffix string // appended after the keyword
	Query  string
	Body   []byte
	Star   string // keyword to use when the table entry is the wildcard "*"
	Snap   bool   // GET of versioned content: part of the read-stability snapshot
}

var blobRef = "none"

// ---- payload builders ----

// labelVol returns an nx*ny*nz little-endian uint64 volume; label = f(x,y,z)
func labelVol(n int, f func(x, y, z int) uint64) []byte {
	b := make([]byte, n*n*n*8)
	i := 0
	for z := 0; z < n; z++ {
		for y := 0; y < n; y++ {
			for x := 0; x < n; x++ {
				binary.LittleEndian.PutUint64(b[i:], f(x, y, z))
				i += 8
			}
		}
	}
	return b
}

func grayVol(n int, f func(x, y, z int) byte) []byte {
	b := make([]byte, n*n*n)
	i := 0
	for z := 0; z < n; z++ {
		for y := 0; y < n; y++ {
			for x := 0; x < n; x++ {
				b[i] = f(x, y, z)
				i++
			}
		}
	}
	return b
}

func volA(x, y, z int) uint64 {
	switch {
	case x < 32 && y < 32:
		return 1
	case x >= 32 && y < 32:
		return 2
	case z < 20:
		return 3
	}
	return 0
}
func volB(x, y, z int) uint64 {
	if z < 32 {
		return 7
	}
	return 8
}
func volC(x, y, z int) uint64 {
	if x < 16 {
		return 7
	}
	return 8
}

// consecutive write probes alternate between two payloads, so that a write that gets through
// always differs from what the previous one left behind
var altCount int

func alt(b, c []byte) []byte {
	altCount++
	if altCount%2 == 0 {
		return c
	}
	return b
}

// protobuf by hand (wire format): avoids a direct dependency of the harness module
func pbVarint(x uint64) []byte {
	var b []byte
	for x >= 0x80 {
		b = append(b, byte(x)|0x80)
		x >>= 7
	}
	return append(b, byte(x))
}
func pbBytes(field int, p []byte) []byte {
	return append(append(pbVarint(uint64(field<<3|2)), pbVarint(uint64(len(p)))...), p...)
}
func pbUint(field int, x uint64) []byte { return append(pbVarint(uint64(field<<3|0)), pbVarint(x)...) }

// proto.KeyValues{kvs: [{key, value}]}
func pbKeyValues(kv map[string]string) []byte {
	var out []byte
	for k, v := range kv {
		out = append(out, pbBytes(1, append(pbBytes(1, []byte(k)), pbBytes(2, []byte(v))...))...)
	}
	return out
}

// proto.MappingOps{mappings: [{mutid, mapped, original...}]}
func pbMappingOps(mapped uint64, originals ...uint64) []byte {
	var packed []byte
	for _, o := range originals {
		packed = append(packed, pbVarint(o)...)
	}
	op := append(pbUint(1, 1), pbUint(2, mapped)...)
	op = append(op, pbBytes(3, packed)...)
	return pbBytes(1, op)
}

var (
	lmBlocksB   []byte // labelmap block stream holding volume B (GET blocks of a scratch instance)
	lmBlocksC   []byte
	volCBytes   []byte
	laBlocksB   []byte
	lmIndex7    []byte // protobuf LabelIndex of label 7 of the scratch labelmap
	lmIndices   []byte
	volABytes   []byte
	volBBytesG  []byte
	grayA       []byte
	grayB       []byte
	annotA      = `[{"Pos":[10,10,10],"Kind":"PostSyn","Tags":["t1"],"Prop":{"conf":"0.9"},"Rels":[{"Rel":"PostSynTo","To":[40,10,10]}]},{"Pos":[40,10,10],"Kind":"PreSyn","Tags":["t1","t2"],"Prop":{},"Rels":[{"Rel":"PreSynTo","To":[10,10,10]}]},{"Pos":[20,40,5],"Kind":"Note","Tags":[],"Prop":{"text":"n"},"Rels":[]}]`
	annotB      = `[{"Pos":[12,12,12],"Kind":"PostSyn","Tags":["probe"],"Prop":{"p":"q"},"Rels":[]}]`
	roiA        = `[[0,0,0,1],[0,1,0,0],[1,0,0,1]]`
	roiB        = `[[0,0,0,0],[3,3,3,5]]`
	njA         = `{"bodyid":1000,"status":"Traced","type":"KC","n":3}`
	njA2        = `{"bodyid":2000,"status":"Anchor","n":5}`
	njB         = `{"bodyid":1000,"status":"PROBE","probe":true}`
	njSchema    = `{"$schema":"http://json-schema.org/draft-07/schema#","type":"object","properties":{"bodyid":{"type":"integer"}}}`
	njNeuSchema = `{"hello":"world"}`
)

func must(what string, r dv.Resp) dv.Resp {
	if r.Status != 200 {
		fmt.Fprintf(os.Stderr, "c02 setup: %s: %d %s\n", what, r.Status, truncate(string(r.Body), 300))
		os.Exit(2)
	}
	return r
}

func truncate(s string, n int) string {
	if len(s) > n {
		return s[:n]
	}
	return s
}

func try(uuid, typ, name string, extra map[string]string, run *lib.Run) bool {
	if err := tNewInstance(uuid, typ, name, extra); err != nil {
		run.Notes = append(run.Notes, fmt.Sprintf("datatype %s cannot be instantiated offline: %v", typ, truncate(err.Error(), 200)))
		return false
	}
	in := instT{Name: name, Type: typ, Pkg: pkgOf(uuid, name, typ)}
	if extra["versioned"] == "false" {
		in.Unversioned = true
	}
	insts = append(insts, in)
	return true
}

func node(uuid, name, rest string) string { return "/api/node/" + uuid + "/" + name + "/" + rest }

// setup builds R -> V -> U, R -> W and fills the instances.
func setup(run *lib.Run) {
	volABytes = labelVol(64, volA)
	volBBytesG = labelVol(64, volB)
	volCBytes = labelVol(64, volC)
	grayA = grayVol(32, func(x, y, z int) byte { return byte(x + 2*y + 3*z) })
	grayB = grayVol(32, func(x, y, z int) byte { return byte(200 - x) })

	insts = nil
	root, err := tNewRepo("c02")
	if err != nil {
		fmt.Fprintln(os.Stderr, "c02 setup:", err)
		os.Exit(2)
	}
	uuidR = root
	try(root, "keyvalue", "kv", nil, run)
	try(root, "keyvalue", "kvu", map[string]string{"versioned": "false"}, run)
	try(root, "uint8blk", "gray", nil, run)
	try(root, "labelmap", "lm", nil, run)
	try(root, "labelmap", "lmscratch", nil, run)
	try(root, "labelarray", "la", nil, run)
	try(root, "labelblk", "lb", nil, run)
	try(root, "labelvol", "lv", map[string]string{"sync": "lb"}, run)
	try(root, "annotation", "an", nil, run)
	try(root, "labelsz", "lsz", nil, run)
	try(root, "neuronjson", "nj", nil, run)
	try(root, "roi", "roi", nil, run)
	try(root, "tarsupervoxels", "tsv", map[string]string{"Extension": "dat"}, run)
	try(root, "imagetile", "tiles", map[string]string{"Source": "gray"}, run)
	try(root, "multichan16", "mc", nil, run)
	try(root, "googlevoxels", "gv", map[string]string{"volumeid": "x", "jwtfile": "/nonexistent"}, run)
	has := map[string]bool{}
	for _, in := range insts {
		has[in.Name] = true
	}
	// syncs
	if has["lb"] && has["lv"] {
		tPost(node(root, "lb", "sync"), []byte(`{"sync":"lv"}`))
	}
	if has["an"] && has["lm"] {
		must("sync an", tPost(node(root, "an", "sync"), []byte(`{"sync":"lm"}`)))
	}
	if has["lsz"] && has["an"] {
		must("sync lsz", tPost(node(root, "lsz", "sync"), []byte(`{"sync":"an"}`)))
	}
	if has["tsv"] && has["lm"] {
		must("sync tsv", tPost(node(root, "tsv", "sync"), []byte(`{"sync":"lm"}`)))
	}
	// The root E stays EMPTY for every instance that is later snapshotted (only the scratch labelmap and
	// the unversioned keyvalue get content): it is the empty fork point of the sibling branches.
	must("kvu base", tPost(node(root, "kvu", "key/base"), []byte("unversioned-value")))
	if has["lmscratch"] {
		must("lmscratch raw C", tPost(node(root, "lmscratch", "raw/0_1_2/64_64_64/0_0_0"), volCBytes))
		settle(root)
		lmBlocksC = must("lmscratch blocks C", tGet(node(root, "lmscratch", "blocks/64_64_64/0_0_0?compression=blocks"))).Body
		must("lmscratch raw", tPost(node(root, "lmscratch", "raw/0_1_2/64_64_64/0_0_0"), volBBytesG))
		settle(root)
		r := must("lmscratch blocks", tGet(node(root, "lmscratch", "blocks/64_64_64/0_0_0?compression=blocks")))
		lmBlocksB = r.Body
		lmIndex7 = tGet(node(root, "lmscratch", "index/7")).Body
		lmIndices = tDo("GET", node(root, "lmscratch", "indices"), []byte("[7,8]")).Body
	}
	if r := tPost(node(root, "kv", "blobstore"), []byte("a blob")); r.Status == 200 {
		var m struct{ Reference string }
		json.Unmarshal(r.Body, &m)
		blobRef = m.Reference
	}
	must("commit E", tCommit(root))

	// G (grandparent of V): first, small content of the cheap types
	g, r := tNewVersion(root)
	must("newversion G", r)
	uuidG = g
	must("kv base", tPost(node(g, "kv", "key/base"), []byte("root-value")))
	must("kv g1", tPost(node(g, "kv", "key/g1"), []byte("g-value")))
	if has["roi"] {
		must("roi G", tPost(node(g, "roi", "roi"), []byte(`[[5,5,5,6],[6,5,5,5]]`)))
	}
	if has["an"] {
		must("an G", tPost(node(g, "an", "elements"), []byte(`[{"Pos":[50,50,50],"Kind":"Note","Tags":["g"],"Prop":{},"Rels":[]}]`)))
	}
	if has["nj"] {
		must("nj G", tPost(node(g, "nj", "key/500?u=verif"), []byte(`{"bodyid":500,"status":"G"}`)))
	}
	if has["tsv"] {
		must("tsv G", tPost(node(g, "tsv", "supervoxel/5"), []byte("mesh-of-supervoxel-5")))
	}
	settle(g)
	must("commit G", tCommit(g))

	// P (parent of V): deletes and replaces part of G's content, first voxels
	pp, r := tNewVersion(g)
	must("newversion P", r)
	uuidP = pp
	must("kv p1", tPost(node(pp, "kv", "key/p1"), []byte("p-value")))
	must("kv del g1", tDelete(node(pp, "kv", "key/g1")))
	if has["lm"] {
		// supervoxel 3 is mapped at P (into 2) and mapped again at V (cleaved, then merged into 1):
		// one supervoxel remapped in two versions of one ancestry
		must("lm raw P", tPost(node(pp, "lm", "raw/0_1_2/64_64_64/0_0_0"), volABytes))
		settle(pp)
		must("lm merge P", tPost(node(pp, "lm", "merge?u=verif"), []byte("[2,3]")))
	}
	if has["gray"] {
		must("gray raw P", tPost(node(pp, "gray", "raw/0_1_2/32_32_32/0_0_0"), grayB))
	}
	if has["nj"] {
		must("nj P", tPost(node(pp, "nj", "key/2000?u=verif"), []byte(`{"bodyid":2000,"status":"P"}`)))
	}
	settle(pp)
	must("commit P", tCommit(pp))

	v, r := tNewVersion(pp)
	must("newversion V", r)
	uuidV = v
	fill(v, has, "A")
	must("commit V", tPostJSON("/api/node/"+v+"/commit", map[string]interface{}{"note": "committed V", "log": []string{"entry one"}}))

	// W: an unrelated committed branch off the root
	w, r := tBranch(root, "side")
	must("branch W", r)
	uuidW = w
	must("kv W", tPost(node(w, "kv", "key/w"), []byte("w-value")))
	must("commit W", tCommit(w))

	// X: a committed node that stays the HEAD (leaf) of its own branch
	x, r := tBranch(root, "leafx")
	must("branch X", r)
	uuidX = x
	must("kv X", tPost(node(x, "kv", "key/x1"), []byte("x-value")))
	if has["nj"] {
		must("nj X", tPost(node(x, "nj", "key/1000?u=verif"), []byte(njA)))
	}
	if has["roi"] {
		must("roi X", tPost(node(x, "roi", "roi"), []byte(roiA)))
	}
	if has["an"] {
		must("an X", tPost(node(x, "an", "elements"), []byte(annotA)))
	}
	settle(x)
	must("commit X", tPostJSON("/api/node/"+x+"/commit", map[string]interface{}{"note": "committed X", "log": []string{"x entry"}}))

	u, r := tNewVersion(v)
	must("newversion U", r)
	uuidU = u
	if inProcess {
		vid, err := datastore.VersionFromUUID(dvid.UUID(v))
		if err != nil {
			panic(err)
		}
		verV = vid
		xid, err := datastore.VersionFromUUID(dvid.UUID(x))
		if err != nil {
			panic(err)
		}
		verX = xid
	}
	run.Extra["uuids"] = map[string]string{"E": uuidR, "G": uuidG, "P": uuidP, "V": uuidV, "W": uuidW, "U": uuidU, "X": uuidX}
}

// ---- other ways of naming a node (datastore.MatchingUUID) ----

type refForm struct{ Name, Ref string }

// refForms lists the references that currently resolve to the target node, besides its full uuid:
// a unique prefix, "<uuid>:<branch>" / "<prefix>:<branch>" / ":<branch>" when the node is the HEAD
// of its branch, and the "~n" ancestor forms.  Every form is verified with MatchingUUID.
func refForms(target string) []refForm {
	uuid := *uuidOf[target]
	var cands []refForm
	cands = append(cands, refForm{"prefix", uuid[:14]})
	branch := map[string]string{"V": "master", "X": "leafx", "U": "master", "W": "side"}[target]
	// position of the node in the ancestry of its branch (0 = HEAD)
	pos := -1
	for try := 0; try < 8 && pos < 0; try++ { // (the walk can fail at random once a branch has two heads, see sendResolved)
		if r := tGet("/api/repo/" + uuidR + "/branch-versions/" + branch); r.Status == 200 {
			var anc []string
			json.Unmarshal(r.Body, &anc)
			for i, a := range anc {
				if a == uuid {
					pos = i
				}
			}
		}
	}
	if pos == 0 {
		cands = append(cands, refForm{"uuid:branch", uuidR + ":" + branch}, refForm{"prefix:branch", uuid[:14] + ":" + branch},
			refForm{":branch", ":" + branch})
	}
	if pos >= 0 {
		cands = append(cands, refForm{"uuid:branch~n", fmt.Sprintf("%s:%s~%d", uuidR, branch, pos)},
			refForm{"prefix:branch~n", fmt.Sprintf("%s:%s~%d", uuid[:14], branch, pos)},
			refForm{":branch~n", fmt.Sprintf(":%s~%d", branch, pos)})
	}
	var out []refForm
	for _, c := range cands {
		for try := 0; try < 8; try++ {
			if got, _, err := datastore.MatchingUUID(c.Ref); err == nil && string(got) == uuid {
				out = append(out, c)
				break
			}
		}
	}
	return out
}

// fill writes content variant A through the documented POST endpoints.
func fill(v string, has map[string]bool, variant string) {
	must("kv k1", tPost(node(v, "kv", "key/k1"), []byte("value-one")))
	must("kv k2", tPost(node(v, "kv", "key/k2"), []byte("value-two")))
	must("kv del", tDelete(node(v, "kv", "key/base")))
	if has["gray"] {
		must("gray raw", tPost(node(v, "gray", "raw/0_1_2/32_32_32/0_0_0"), grayA))
		must("gray extents", tPost(node(v, "gray", "extents"), []byte(`{"MinPoint":[0,0,0],"MaxPoint":[31,31,31]}`)))
	}
	if has["lm"] {
		r := must("lm cleave", tPost(node(v, "lm", "cleave/2?u=verif"), []byte("[3]")))
		var cl struct{ CleavedLabel uint64 }
		json.Unmarshal(r.Body, &cl)
		settle(v)
		must("lm merge", tPost(node(v, "lm", "merge?u=verif"), []byte(fmt.Sprintf("[1,%d]", cl.CleavedLabel))))
	}
	if has["la"] {
		must("la raw", tPost(node(v, "la", "raw/0_1_2/64_64_64/0_0_0"), volABytes))
	}
	if has["lb"] {
		must("lb raw", tPost(node(v, "lb", "raw/0_1_2/64_64_64/0_0_0"), volABytes))
	}
	if has["an"] {
		must("an elements", tPost(node(v, "an", "elements"), []byte(annotA)))
	}
	if has["nj"] {
		must("nj 1000", tPost(node(v, "nj", "key/1000?u=verif"), []byte(njA)))
		must("nj 2000", tPost(node(v, "nj", "key/2000?u=verif"), []byte(njA2)))
		must("nj schema", tPost(node(v, "nj", "json_schema?u=verif"), []byte(njSchema)))
		must("nj neuschema", tPost(node(v, "nj", "schema?u=verif"), []byte(njNeuSchema)))
	}
	if has["roi"] {
		must("roi", tPost(node(v, "roi", "roi"), []byte(roiA)))
	}
	if has["tsv"] {
		must("tsv 1", tPost(node(v, "tsv", "supervoxel/1"), []byte("mesh-of-supervoxel-1")))
		must("tsv 2", tPost(node(v, "tsv", "supervoxel/2"), []byte("mesh-of-supervoxel-2")))
	}
	settle(v)
}

// settle lets asynchronous syncs (label indexing, labelvol, annotation label index, labelsz, downres) finish
func settle(v string) {
	// (datastore.BlockOnUpdating sleeps 100 ms per instance; poll the same conditions instead)
	if !inProcess {
		time.Sleep(600 * time.Millisecond)
		return
	}
	time.Sleep(60 * time.Millisecond)
	quiesceN(30)
}

// ---- probes per (package, keyword, method) ----

func jsonB(s string) []byte { return []byte(s) }

// probesFor returns the request shapes used for one table entry and method.  Every entry gets at
// least one probe; writers get a body their endpoint accepts on an open node.
func probesFor(pkg, kw, meth string, in instT) []probeT {
	rd := meth == "get" || meth == "head"
	p := func(suffix, query string, body []byte) probeT { return probeT{Suffix: suffix, Query: query, Body: body} }
	snap := func(suffix, query string) probeT { return probeT{Suffix: suffix, Query: query, Snap: true} }
	generic := []probeT{p("", "", jsonB(`{"probe":"c02"}`))}
	switch kw {
	case "help":
		return []probeT{p("", "", nil)}
	case "info":
		return []probeT{p("", "", jsonB(`{"VoxelUnits":"probes","Extension":"prb"}`))}
	case "tags":
		return []probeT{p("", "", jsonB(`{"probe-tag":"c02"}`)), p("", "replace=true", jsonB(`{"probe-tag":"c02"}`))}
	case "sync":
		return []probeT{p("", "replace=true", jsonB(`{"sync":""}`))}
	case "resolution":
		return []probeT{p("", "", jsonB(`[3.5,3.5,3.5]`))}
	case "extents":
		return []probeT{p("", "", jsonB(`{"MinPoint":[0,0,0],"MaxPoint":[999,999,999]}`))}
	case "metadata":
		if pkg == "imagetile" {
			return []probeT{p("", "", jsonB(`{"MinTileCoord":[0,0,0],"MaxTileCoord":[5,5,4],"Levels":{"0":{"Resolution":[10.0,10.0,10.0],"TileSize":[512,512,512]}}}`))}
		}
		return []probeT{p("", "", jsonB(`{}`))}
	}
	switch pkg {
	case "keyvalue":
		switch kw {
		case "key":
			if rd {
				return []probeT{snap("/k1", ""), snap("/k2", ""), snap("/base", ""), snap("/absent", ""), snap("/p1", ""), snap("/g1", ""), snap("/x1", "")}
			}
			return []probeT{p("/k1", "", []byte("PROBE-overwrite")), p("/newkey", "", []byte("PROBE-new")), p("/k2", "", []byte("PROBE-k2")),
				p("/base", "", []byte("PROBE-base")), p("/p1", "", []byte("PROBE-p1")), p("/g1", "", []byte("PROBE-g1"))}
		case "keys":
			return []probeT{{Body: jsonB(`["k1"]`), Snap: rd}}
		case "keyrange":
			return []probeT{{Suffix: "/a/z", Body: jsonB(`{}`), Snap: rd}}
		case "keyrangevalues":
			return []probeT{{Suffix: "/a/z", Query: "json=true", Body: jsonB(`{}`), Snap: rd}}
		case "keyvalues":
			if rd {
				return []probeT{{Query: "json=true", Body: jsonB(`["k1","k2","absent"]`), Snap: true}}
			}
			return []probeT{p("", "", pbKeyValues(map[string]string{"k1": "PROBE", "k9": "PROBE9"}))}
		case "mutations":
			return generic
		case "mutations-range":
			return []probeT{p("/0/99999999", "", jsonB(`{}`))}
		}
	case "neuronjson":
		switch kw {
		case "key":
			if rd {
				return []probeT{snap("/1000", ""), snap("/2000", ""), snap("/3000", "")}
			}
			return []probeT{p("/1000", "", jsonB(njB)), p("/3000", "", jsonB(`{"bodyid":3000,"probe":1}`)), p("/1000", "replace=true", jsonB(njB))}
		case "keyvalues":
			if rd {
				return []probeT{{Body: jsonB(`[1000,2000]`), Snap: true}}
			}
			return []probeT{p("", "", jsonB(`{"1000":`+njB+`}`))}
		case "all", "keys", "fields", "fieldtimes":
			return []probeT{{Body: jsonB(njB), Snap: rd && kw != "fieldtimes"}}
		case "keyrange", "keyrangevalues":
			return []probeT{{Suffix: "/0/9999", Body: jsonB(njB), Snap: rd}}
		case "query":
			return []probeT{{Body: jsonB(`{"status":"Traced"}`), Snap: meth == "get"}, p("", "onlyid=true", jsonB(`[{"status":"Traced"},{"n":5}]`))}
		case "json_schema":
			if rd {
				return []probeT{snap("", "")}
			}
			return []probeT{p("", "", jsonB(`{"type":"object","properties":{"probe":{"type":"string"}}}`))}
		case "schema", "schema_batch":
			if rd {
				return []probeT{snap("", "")}
			}
			return []probeT{p("", "", jsonB(`{"probe":"schema"}`))}
		}
	case "roi":
		switch kw {
		case "roi":
			if rd {
				return []probeT{{Body: jsonB(roiB), Snap: true}}
			}
			return []probeT{p("", "", jsonB(roiB))}
		case "mask":
			return []probeT{{Suffix: "/0_1_2/64_64_64/0_0_0", Body: jsonB(roiB), Snap: rd}}
		case "ptquery":
			return []probeT{p("", "", jsonB(`[[1,1,1],[40,40,40],[500,500,500]]`))}
		case "partition":
			return []probeT{{Query: "batchsize=2", Body: jsonB(roiB), Snap: rd}}
		}
	case "annotation":
		switch kw {
		case "elements":
			if rd {
				return []probeT{snap("/64_64_64/0_0_0", "")}
			}
			return []probeT{p("", "", jsonB(annotB)), p("", "kafkalog=off", jsonB(annotB))}
		case "element":
			return []probeT{p("/10_10_10", "", nil)}
		case "move":
			return []probeT{p("/10_10_10/11_11_11", "", nil)}
		case "blocks":
			if rd {
				return []probeT{snap("/64_64_64/0_0_0", "")}
			}
			return []probeT{p("", "", jsonB(`{"0,0,0":`+annotB+`}`))}
		case "all-elements", "scan":
			return []probeT{{Body: jsonB(annotB), Snap: rd && kw == "all-elements"}}
		case "label":
			return []probeT{{Suffix: "/1", Query: "relationships=true", Body: jsonB(annotB), Snap: rd}, {Suffix: "/2", Body: jsonB(annotB), Snap: rd}}
		case "labels":
			return []probeT{p("", "", jsonB(`{"1":`+annotB+`}`))}
		case "tag":
			return []probeT{{Suffix: "/t1", Body: jsonB(annotB), Snap: rd}}
		case "roi":
			return []probeT{{Suffix: "/roi", Body: jsonB(annotB), Snap: rd}}
		case "reload":
			return []probeT{p("", "check=true", nil)}
		}
	case "labelsz":
		switch kw {
		case "count":
			return []probeT{{Suffix: "/1/PostSyn", Snap: rd}, {Suffix: "/2/PreSyn", Snap: rd}}
		case "counts":
			return []probeT{{Suffix: "/PostSyn", Body: jsonB(`[1,2,3]`), Snap: rd}}
		case "top":
			return []probeT{{Suffix: "/3/AllSyn", Snap: rd}}
		case "threshold":
			return []probeT{{Suffix: "/1/PreSyn", Snap: rd}}
		case "reload":
			return generic
		}
	case "tarsupervoxels":
		switch kw {
		case "supervoxel":
			if rd {
				return []probeT{snap("/1", ""), snap("/2", ""), snap("/3", "")}
			}
			return []probeT{p("/1", "", []byte("PROBE-mesh")), p("/3", "", []byte("PROBE-mesh-3"))}
		case "tarfile":
			return []probeT{{Suffix: "/1", Snap: meth == "get"}, {Suffix: "/2", Snap: meth == "get"}}
		case "missing":
			return []probeT{{Suffix: "/1", Body: []byte("x"), Snap: rd}}
		case "exists":
			return []probeT{{Body: jsonB(`[1,2,3]`), Snap: rd}}
		case "load":
			return []probeT{p("", "", tarOf(map[string]string{"1.dat": "PROBE-tar-1", "4.dat": "PROBE-tar-4"}))}
		}
	case "imageblk":
		switch kw {
		case "raw", "isotropic":
			if rd {
				return []probeT{snap("/0_1_2/32_32_32/0_0_0", ""), snap("/0_1/32_32/0_0_5", "")}
			}
			return []probeT{p("/0_1_2/32_32_32/0_0_0", "", grayB)}
		case "blocks":
			if rd {
				return []probeT{snap("/0_0_0/1", "")}
			}
			return []probeT{p("/0_0_0/1", "", grayB)}
		case "subvolblocks":
			return []probeT{{Suffix: "/32_32_32/0_0_0", Body: grayB, Snap: rd}}
		case "specificblocks":
			return []probeT{{Query: "blocks=0,0,0", Body: grayB, Snap: rd}}
		case "rawkey":
			return []probeT{p("", "x=0&y=0&z=0", nil)}
		case "arb":
			// not in the snapshot: the resampling uses the instance's unversioned VoxelSize (POST resolution)
			return []probeT{{Suffix: "/0_0_0/10_0_0/0_10_0/1.0", Body: grayB}}
		}
	case "labelmap", "labelarray", "labelblk":
		var blocksB, volBBytes []byte
		if !rd || kw == "blocks" || kw == "ingest-supervoxels" || kw == "raw" || kw == "isotropic" {
			blocksB, volBBytes = alt(lmBlocksB, lmBlocksC), volBBytesG
			if altCount%2 == 0 {
				volBBytes = volCBytes
			}
		} else {
			blocksB, volBBytes = lmBlocksB, volBBytesG
		}
		switch kw {
		case "raw", "isotropic":
			if rd {
				return []probeT{snap("/0_1_2/64_64_64/0_0_0", ""), snap("/0_1/64_64/0_0_3", "")}
			}
			return []probeT{p("/0_1_2/64_64_64/0_0_0", "", volBBytes), p("/0_1_2/64_64_64/0_0_0", "mutate=true", volBBytes)}
		case "pseudocolor":
			return []probeT{{Suffix: "/0_1/64_64/0_0_3", Body: volBBytes, Snap: rd}}
		case "blocks":
			if rd {
				return []probeT{snap("/64_64_64/0_0_0", "")}
			}
			return []probeT{p("", "", blocksB), p("/64_64_64/0_0_0", "", blocksB)}
		case "ingest-supervoxels":
			return []probeT{p("", "", blocksB)}
		case "specificblocks":
			return []probeT{{Query: "blocks=0,0,0", Body: blocksB, Snap: rd}}
		case "label":
			return []probeT{{Suffix: "/5_5_5", Body: jsonB(`[[5,5,5]]`), Snap: rd}, {Suffix: "/40_5_5", Snap: rd}}
		case "labels":
			return []probeT{{Body: jsonB(`[[5,5,5],[40,5,5],[5,40,5],[60,60,60]]`), Snap: rd}}
		case "existing-labels", "listlabels", "map-stats", "mutations":
			return []probeT{{Body: jsonB(`[1,2]`), Snap: rd && kw != "map-stats" && kw != "mutations"}}
		case "mapping":
			return []probeT{{Body: jsonB(`[1,2,3,7]`), Snap: rd}}
		case "supervoxel-splits":
			return []probeT{{Body: jsonB(`[]`), Snap: rd}}
		case "lastmod":
			return []probeT{p("/1", "", nil)}
		case "supervoxels", "size", "sparsevol-size":
			return []probeT{{Suffix: "/1", Body: jsonB(`[1]`), Snap: rd}, {Suffix: "/2", Snap: rd}}
		case "supervoxel-sizes":
			return []probeT{{Suffix: "/1", Snap: rd}}
		case "sizes":
			return []probeT{{Body: jsonB(`[1,2,3]`), Snap: rd}}
		case "sparsevol":
			if rd {
				return []probeT{snap("/1", ""), snap("/2", "format=rles"), snap("/3", "")}
			}
			return []probeT{p("/1", "", nil)}
		case "sparsevol-by-point":
			return []probeT{{Suffix: "/5_5_5", Snap: rd}}
		case "sparsevol-coarse":
			return []probeT{{Suffix: "/1", Snap: rd}}
		case "sparsevols-coarse":
			return []probeT{{Suffix: "/1/3", Snap: rd}}
		case "maxlabel":
			if rd {
				return []probeT{snap("", "")}
			}
			return []probeT{p("/5000", "", nil)}
		case "nextlabel":
			if rd {
				return []probeT{p("", "", nil)}
			}
			return []probeT{p("/10", "", nil)}
		case "set-nextlabel":
			return []probeT{p("/777777", "", nil)}
		case "split-supervoxel":
			return []probeT{p("/2", "", sparsevolRLE(2, [][4]int{{40, 5, 5, 10}}))}
		case "cleave":
			return []probeT{p("/1", "", jsonB(`[3]`))}
		case "split":
			return []probeT{p("/2", "", sparsevolRLE(2, [][4]int{{40, 5, 5, 10}}))}
		case "split-coarse":
			return []probeT{p("/2", "", sparsevolRLE(2, [][4]int{{0, 0, 0, 1}}))}
		case "merge":
			return []probeT{p("", "", jsonB(`[2,1]`))}
		case "renumber":
			return []probeT{p("", "", jsonB(`[99,2]`))}
		case "proximity":
			return []probeT{{Suffix: "/1,2", Snap: rd}}
		case "index":
			if rd {
				return []probeT{snap("/1", ""), snap("/2", "")}
			}
			return []probeT{p("/7", "", lmIndex7), p("/1", "", lmIndex7)}
		case "indices":
			if rd {
				return []probeT{{Body: jsonB(`[1,2]`), Snap: true}}
			}
			return []probeT{p("", "", lmIndices)}
		case "indices-compressed":
			return []probeT{{Body: jsonB(`[1,2]`)}}
		case "mappings":
			if rd {
				return []probeT{{Query: "format=binary", Snap: true}, {Snap: true}}
			}
			return []probeT{p("", "", pbMappingOps(2, 1))}
		case "history":
			return []probeT{p("/1/"+uuidR+"/"+uuidV, "", nil)}
		case "mutations-range":
			return []probeT{p("/0/99999999", "", nil)}
		}
	case "labelvol":
		switch kw {
		case "sparsevol":
			if rd {
				return []probeT{snap("/1", ""), snap("/2", "")}
			}
			return []probeT{p("/1", "", nil)}
		case "sparsevol-by-point":
			return []probeT{{Suffix: "/5_5_5", Snap: rd}}
		case "sparsevol-coarse":
			return []probeT{{Suffix: "/1", Snap: rd}}
		case "area":
			return []probeT{p("/1/64_64_64/0_0_0", "", nil)}
		case "maxlabel":
			return []probeT{{Snap: rd}}
		case "nextlabel":
			if rd {
				return []probeT{p("", "", nil)}
			}
			return []probeT{p("/10", "", nil)}
		case "split":
			return []probeT{p("/2", "", sparsevolRLE(2, [][4]int{{40, 5, 5, 10}}))}
		case "split-coarse":
			return []probeT{p("/2", "", sparsevolRLE(2, [][4]int{{0, 0, 0, 1}}))}
		case "merge":
			return []probeT{p("", "", jsonB(`[2,1]`))}
		case "resync":
			return []probeT{p("/1", "", jsonB(`[[0,0,0]]`))}
		}
	case "imagetile":
		switch kw {
		case "tile":
			return []probeT{p("/xy/0/0_0_0", "", grayB)}
		case "tilekey":
			return []probeT{p("/xy/0/0_0_0", "", nil)}
		case "raw", "isotropic":
			return []probeT{p("/xy/32_32/0_0_0", "", grayB)}
		}
	case "multichan16":
		return []probeT{{Suffix: "/32_32/0_0_0", Body: grayB, Star: "0_1"}}
	}
	return generic
}

// sparsevolRLE: DVID sparse volume encoding ("rles"): header + runs (x,y,z,len)
func sparsevolRLE(_ uint64, runs [][4]int) []byte {
	var b bytes.Buffer
	b.WriteByte(0) // payload descriptor: binary sparse volume
	b.WriteByte(3) // dims
	b.WriteByte(0) // dim of run (X)
	b.WriteByte(0) // reserved
	binary.Write(&b, binary.LittleEndian, uint32(0))
	binary.Write(&b, binary.LittleEndian, uint32(len(runs)))
	for _, r := range runs {
		binary.Write(&b, binary.LittleEndian, int32(r[0]))
		binary.Write(&b, binary.LittleEndian, int32(r[1]))
		binary.Write(&b, binary.LittleEndian, int32(r[2]))
		binary.Write(&b, binary.LittleEndian, int32(r[3]))
	}
	return b.Bytes()
}

// tarOf builds a minimal ustar archive.
func tarOf(files map[string]string) []byte {
	var b bytes.Buffer
	for name, content := range files {
		h := make([]byte, 512)
		copy(h[0:], name)
		copy(h[100:], "0000644\x00")
		copy(h[108:], "0000000\x00")
		copy(h[116:], "0000000\x00")
		copy(h[124:], fmt.Sprintf("%011o\x00", len(content)))
		copy(h[136:], "00000000000\x00")
		copy(h[148:], "        ")
		h[156] = '0'
		copy(h[257:], "ustar\x0000")
		sum := 0
		for _, c := range h {
			sum += int(c)
		}
		copy(h[148:], fmt.Sprintf("%06o\x00 ", sum))
		b.Write(h)
		b.WriteString(content)
		if pad := (512 - len(content)%512) % 512; pad > 0 {
			b.Write(make([]byte, pad))
		}
	}
	b.Write(make([]byte, 1024))
	return b.Bytes()
}

// ---- node- and repo-level routes ----

type nrProbe struct {
	Ref    string // node | repo | reporaw
	Action string
	URL    string
	Body   func(meth string, rng *lib.Rand) []byte
}

func nodeRepoProbes(rj routesJSON, uuid string) []nrProbe {
	seen := map[string]bool{}
	var out []nrProbe
	add := func(ref, action, url string) {
		k := ref + "/" + action
		if seen[k] {
			return
		}
		seen[k] = true
		a := action
		out = append(out, nrProbe{Ref: ref, Action: action, URL: url, Body: func(meth string, rng *lib.Rand) []byte {
			switch a {
			case "note":
				return []byte(`{"note":"PROBE note"}`)
			case "log":
				return []byte(`{"log":["PROBE log line"]}`)
			case "commit":
				return []byte(`{"note":"PROBE commit","log":["PROBE"]}`)
			case "branch":
				return []byte(fmt.Sprintf(`{"branch":"probe-%d","note":"PROBE branch"}`, rng.U64()%1000000000))
			case "newversion":
				return []byte(`{"note":"PROBE version"}`)
			case "tag":
				return []byte(fmt.Sprintf(`{"tag":"%032x","note":"PROBE tag"}`, rng.U64()))
			case "instance":
				return []byte(fmt.Sprintf(`{"typename":"keyvalue","dataname":"probe%d"}`, rng.U64()%1000000000))
			case "info":
				return []byte(`{"alias":"c02","description":"verif"}`)
			case "merge", "resolve":
				return []byte(`{"mergeType":"conflict-free","parents":["` + uuidV + `","` + uuidW + `"],"note":"PROBE merge","data":["kv"]}`)
			}
			return []byte(`{}`)
		}})
	}
	for _, r := range rj.Routes {
		switch r.Mux {
		case "nodeMux":
			a := strings.TrimPrefix(r.Pattern, "/api/node/:uuid/")
			add("node", a, "/api/node/"+uuid+"/"+a)
		case "repoMux":
			a := strings.TrimPrefix(r.Pattern, "/api/repo/:uuid/")
			url := "/api/repo/" + uuid + "/" + strings.Replace(a, ":name", "master", 1)
			if i := strings.Index(a, "/"); i >= 0 {
				a = a[:i]
			}
			add("repo", a, url)
		case "repoRawMux":
			add("reporaw", "", "/api/repo/"+uuid)
		}
	}
	add("node", "no-such-action", "/api/node/"+uuid+"/no-such-action")
	add("repo", "no-such-action", "/api/repo/"+uuid+"/no-such-action")
	return out
}
