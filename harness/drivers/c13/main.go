// Driver C13: annotation + labelsz denormalisations (datatype/annotation, datatype/labelsz) synced to a
// labelmap, against Model.Annot / Model.AnnotRun.  A case is one history on a fresh repo: a label volume
// made of x-slabs, then annotation requests and label events; after every request the driver records the
// response class and every GET answer that changed since the same query was last asked.
package main

import (
	"bytes"
	"encoding/binary"
	"encoding/json"
	"fmt"
	"go/ast"
	"go/parser"
	"go/token"
	"os"
	"sort"
	"strconv"
	"strings"
	"time"

	"github.com/janelia-flyem/dvid/datastore"
	"github.com/janelia-flyem/dvid/dvid"
	"github.com/janelia-flyem/dvid/server"

	"verif/harness/dv"
	"verif/harness/lib"
)

const (
	bs        = 16  // block size (all dimensions)
	xmin      = -32 // first column whose label the driver tracks
	xmax      = 48  // one past the last column
	ncol      = xmax - xmin
	sentinel1 = "4000000001"
	sentinel2 = "4000000002"
	histCap   = 12500 // bytes of Coq text after which no further op is added to a history
)

// ---------- data carried in the JSON case (everything needed to re-execute a history) ----------

type pos [3]int

type rel struct {
	Rel int `json:"rel"`
	To  pos `json:"to"`
}

type elem struct {
	Pos  pos   `json:"pos"`
	Kind int   `json:"kind"`
	Tags []int `json:"tags,omitempty"`
	Rels []rel `json:"rels,omitempty"`
	Prop int   `json:"prop,omitempty"`
}

type jpaint struct {
	A int    `json:"a"`
	B int    `json:"b"`
	L uint64 `json:"l"`
}

type jblock struct {
	B     pos    `json:"b"`
	Elems []elem `json:"elems"`
}

type jquery struct {
	Q      string   `json:"q"` // region | blocks | top | thr | counts
	Off    pos      `json:"off,omitempty"`
	Size   pos      `json:"size,omitempty"`
	I      int      `json:"i,omitempty"`
	N      int      `json:"n,omitempty"`
	Thr    int      `json:"thr,omitempty"`
	Skip   int      `json:"skip,omitempty"`
	Labels []uint64 `json:"labels,omitempty"`
	Spans  [][4]int `json:"spans,omitempty"` // roi: (z, y, x0, x1) in block coordinates
}

type jlabels struct {
	L     uint64 `json:"l"`
	Elems []elem `json:"elems"`
}

type jop struct {
	Op         string    `json:"op"` // post | delete | move | reload | merge | cleave | mutate | ingest
	Elems      []elem    `json:"elems,omitempty"`
	P          pos       `json:"p,omitempty"`
	Q          pos       `json:"q,omitempty"`
	Blocks     []jblock  `json:"blocks,omitempty"`
	Target     uint64    `json:"target,omitempty"` // merge target / cleaved body
	Labels     []uint64  `json:"labels,omitempty"` // merged bodies / cleaved supervoxels
	B          pos       `json:"b,omitempty"`
	Paint      []jpaint  `json:"paint,omitempty"`      // full content of the block (runs with label 0 included)
	LabelLists []jlabels `json:"labellists,omitempty"` // POST labels
	LowMem     bool      `json:"lowmem,omitempty"`     // reload with inmemory=false (resyncLowMemory)
	Check      bool      `json:"check,omitempty"`      // reload with check=true (write_denorms_with_check when in memory)
	Force      bool      `json:"force,omitempty"`      // re-emit every persistent query after this op
	Queries    []jquery  `json:"queries,omitempty"`
}

type jcase struct {
	Kind   string   `json:"kind,omitempty"` // "big-reload": the generated big history (replayed by regenerating it from the seed)
	Paint0 []jpaint `json:"paint0"`
	Q0     []jquery `json:"q0,omitempty"`
	Ops    []jop    `json:"ops"`
}

// ---------- names and codes ----------

var kindNames = []string{"Unknown", "PostSyn", "PreSyn", "Gap", "Note"}
var relNames = []string{"UnknownRelationship", "PostSynTo", "PreSynTo", "ConvergentTo", "GroupedWith"}
var idxNames = []string{"", "PostSyn", "PreSyn", "Gap", "Note", "AllSyn"}

func codeOf(names []string, s string) int {
	for i, n := range names {
		if n == s {
			return i
		}
	}
	return 99 // not a name the driver ever sent: will show up as a failure
}

// ---------- arithmetic ----------

func floorDiv(a, b int) int {
	q := a / b
	if a%b != 0 && (a < 0) != (b < 0) {
		q--
	}
	return q
}
func blockOf(p pos) pos { return pos{floorDiv(p[0], bs), floorDiv(p[1], bs), floorDiv(p[2], bs)} }
func posLess(a, b pos) bool {
	if a[0] != b[0] {
		return a[0] < b[0]
	}
	if a[1] != b[1] {
		return a[1] < b[1]
	}
	return a[2] < b[2]
}
func inYZ(p pos) bool { return p[1] >= 0 && p[1] < bs && p[2] >= 0 && p[2] < bs }
func anyNeg(ps ...pos) bool {
	for _, p := range ps {
		if p[0] < 0 || p[1] < 0 || p[2] < 0 {
			return true
		}
	}
	return false
}

// ---------- Coq printers (Z literals only) ----------

func z(n int) string {
	if n < 0 {
		return "(" + strconv.Itoa(n) + ")"
	}
	return strconv.Itoa(n)
}
func u(n uint64) string   { return strconv.FormatUint(n, 10) }
func (p pos) coq() string { return "(" + z(p[0]) + "," + z(p[1]) + "," + z(p[2]) + ")" }
func (e elem) coq() string {
	var sb strings.Builder
	fmt.Fprintf(&sb, "zE %s %s %s %d [", z(e.Pos[0]), z(e.Pos[1]), z(e.Pos[2]), e.Kind)
	for i, t := range e.Tags {
		if i > 0 {
			sb.WriteByte(';')
		}
		sb.WriteString(strconv.Itoa(t))
	}
	sb.WriteString("] [")
	for i, r := range e.Rels {
		if i > 0 {
			sb.WriteByte(';')
		}
		fmt.Fprintf(&sb, "(%d,%s,%s,%s)", r.Rel, z(r.To[0]), z(r.To[1]), z(r.To[2]))
	}
	fmt.Fprintf(&sb, "] %d", e.Prop)
	return sb.String()
}
func coqElems(es []elem) string {
	ss := make([]string, len(es))
	for i, e := range es {
		ss[i] = e.coq()
	}
	return "[" + strings.Join(ss, "; ") + "]"
}
func coqBlocks(bl []jblock) string {
	ss := make([]string, len(bl))
	for i, b := range bl {
		ss[i] = "(" + b.B.coq() + "," + coqElems(b.Elems) + ")"
	}
	return "[" + strings.Join(ss, ";\n    ") + "]"
}
func coqPaint(pt []jpaint) string {
	var ss []string
	for _, p := range pt {
		if p.L != 0 {
			ss = append(ss, fmt.Sprintf("((%s,%s),%d)", z(p.A), z(p.B), p.L))
		}
	}
	return "[" + strings.Join(ss, ";") + "]"
}
func coqU64s(xs []uint64) string {
	ss := make([]string, len(xs))
	for i, x := range xs {
		ss[i] = u(x)
	}
	return "[" + strings.Join(ss, ";") + "]"
}
func coqInts(xs []int) string {
	ss := make([]string, len(xs))
	for i, x := range xs {
		ss[i] = z(x)
	}
	return "[" + strings.Join(ss, ";") + "]"
}

// ---------- JSON sent to / received from the server ----------

type wRel struct {
	Rel string `json:"Rel"`
	To  [3]int `json:"To"`
}
type wElem struct {
	Pos  [3]int            `json:"Pos"`
	Kind string            `json:"Kind"`
	Tags []string          `json:"Tags"`
	Prop map[string]string `json:"Prop"`
	Rels []wRel            `json:"Rels"`
}

func toWire(e elem) wElem {
	w := wElem{Pos: e.Pos, Kind: kindNames[e.Kind], Tags: []string{}, Prop: map[string]string{}, Rels: []wRel{}}
	for _, t := range e.Tags {
		w.Tags = append(w.Tags, "t"+strconv.Itoa(t))
	}
	if e.Prop != 0 {
		w.Prop["p"] = strconv.Itoa(e.Prop)
	}
	for _, r := range e.Rels {
		w.Rels = append(w.Rels, wRel{Rel: relNames[r.Rel], To: r.To})
	}
	return w
}
func wireElems(es []elem) []byte {
	ws := make([]wElem, len(es))
	for i, e := range es {
		ws[i] = toWire(e)
	}
	b, _ := json.Marshal(ws)
	return b
}
func fromWire(w wElem) elem {
	e := elem{Pos: w.Pos, Kind: codeOf(kindNames, w.Kind)}
	for _, t := range w.Tags {
		n := 99
		if len(t) == 2 && t[0] == 't' && t[1] >= '1' && t[1] <= '9' {
			n = int(t[1] - '0')
		}
		e.Tags = append(e.Tags, n)
	}
	for _, r := range w.Rels {
		e.Rels = append(e.Rels, rel{Rel: codeOf(relNames, r.Rel), To: r.To})
	}
	if len(w.Prop) > 0 {
		n, err := strconv.Atoi(w.Prop["p"])
		if err != nil || len(w.Prop) != 1 || n < 1 {
			n = 99
		}
		e.Prop = n
	}
	return e
}

// canonical forms: elements by position, blocks by coordinate, empty blocks dropped
func parseElems(b []byte) ([]elem, error) {
	var ws []wElem
	if err := json.Unmarshal(b, &ws); err != nil {
		return nil, err
	}
	es := make([]elem, len(ws))
	for i, w := range ws {
		es[i] = fromWire(w)
	}
	sort.SliceStable(es, func(i, j int) bool { return posLess(es[i].Pos, es[j].Pos) })
	return es, nil
}
func parseBlocks(b []byte) ([]jblock, error) {
	var m map[string]json.RawMessage
	if err := json.Unmarshal(b, &m); err != nil {
		return nil, err
	}
	var bl []jblock
	for k, v := range m {
		var c pos
		if _, err := fmt.Sscanf(k, "%d,%d,%d", &c[0], &c[1], &c[2]); err != nil {
			return nil, err
		}
		es, err := parseElems(v)
		if err != nil {
			return nil, err
		}
		if len(es) > 0 {
			bl = append(bl, jblock{B: c, Elems: es})
		}
	}
	sort.Slice(bl, func(i, j int) bool { return posLess(bl[i].B, bl[j].B) })
	return bl, nil
}

func classOf(r dv.Resp) int {
	switch {
	case r.Panic || bytes.Contains(r.Body, []byte("Panic detected")):
		return 2
	case r.Status >= 200 && r.Status < 300:
		return 0
	case r.Status >= 400 && r.Status < 500:
		return 1
	}
	return 2
}

// ---------- one history on the server ----------

type hist struct {
	uuid   string
	body   [ncol]uint64
	sv     [ncol]uint64
	known  []uint64
	last   map[string]string // persistent query -> last emitted term
	dead   bool              // a GET was not answered with 200
	why    string
	paint0 []jpaint
	obs0   []string
	steps  []string
	size   int
	rois   int // roi instances created so far in this repo
}

var repoSeq int

func (h *hist) url(inst, path string) string { return "/api/node/" + h.uuid + "/" + inst + "/" + path }

func (h *hist) settle(names ...string) {
	for _, n := range names {
		if err := datastore.BlockOnUpdating(dvid.UUID(h.uuid), dvid.InstanceName(n)); err != nil {
			fatal("BlockOnUpdating %s: %v", n, err)
		}
	}
}

func fatal(f string, a ...interface{}) {
	fmt.Fprintf(os.Stderr, "c13: "+f+"\n", a...)
	dv.Close()
	os.Exit(2)
}

func paintAt(pt []jpaint, x int) uint64 { // later entries override
	var l uint64
	for _, p := range pt {
		if p.L != 0 && p.A <= x && x <= p.B {
			l = p.L
		}
	}
	return l
}

// volume of nx columns starting at x0, x fastest then y then z, little-endian uint64
func volume(pt []jpaint, x0, nx int) []byte {
	buf := make([]byte, nx*bs*bs*8)
	for zz := 0; zz < bs; zz++ {
		for y := 0; y < bs; y++ {
			for x := 0; x < nx; x++ {
				binary.LittleEndian.PutUint64(buf[((zz*bs+y)*nx+x)*8:], paintAt(pt, x0+x))
			}
		}
	}
	return buf
}

func newHist(paint0 []jpaint) *hist {
	repoSeq++
	uuid, err := dv.NewRepo(fmt.Sprintf("c13-%d", repoSeq))
	if err != nil {
		fatal("%v", err)
	}
	h := &hist{uuid: uuid, last: map[string]string{}, paint0: paint0}
	must := func(err error) {
		if err != nil {
			fatal("%v", err)
		}
	}
	must(dv.NewInstance(uuid, "labelmap", "lm", map[string]string{"BlockSize": "16,16,16"}))
	must(dv.NewInstance(uuid, "annotation", "ann", map[string]string{"BlockSize": "16,16,16"}))
	must(dv.NewInstance(uuid, "labelsz", "sz", nil))
	if r := dv.Post(h.url("ann", "sync"), []byte(`{"sync":"lm"}`)); r.Status != 200 {
		fatal("sync ann: %d %s", r.Status, r.Body)
	}
	if r := dv.Post(h.url("sz", "sync"), []byte(`{"sync":"ann"}`)); r.Status != 200 {
		fatal("sync sz: %d %s", r.Status, r.Body)
	}
	if r := dv.Post(h.url("lm", "raw/0_1_2/48_16_16/-16_0_0"), volume(paint0, -16, 48)); r.Status != 200 {
		fatal("initial label volume: %d %s", r.Status, r.Body)
	}
	h.settle("lm", "ann", "sz")
	h.readBody()
	for _, p := range paint0 {
		h.addKnown(p.L)
	}
	return h
}

func (h *hist) addKnown(l uint64) {
	if l == 0 {
		return
	}
	for _, k := range h.known {
		if k == l {
			return
		}
	}
	h.known = append(h.known, l)
}

func (h *hist) get(url string, body []byte) []byte {
	if h.dead {
		return nil
	}
	r := dv.Do("GET", url, body)
	if r.Status != 200 || r.Panic {
		h.dead = true
		h.why = fmt.Sprintf("GET %s: %d %s", url, r.Status, r.Body)
		return nil
	}
	return r.Body
}

func (h *hist) readBody() {
	for x := xmin; x < xmax; x++ {
		for k, q := range []string{"", "?supervoxels=true"} {
			b := h.get(h.url("lm", fmt.Sprintf("label/%d_0_0%s", x, q)), nil)
			if h.dead {
				return
			}
			var m struct{ Label uint64 }
			if err := json.Unmarshal(b, &m); err != nil {
				h.dead, h.why = true, "label answer: "+string(b)
				return
			}
			if k == 0 {
				h.body[x-xmin] = m.Label
			} else {
				h.sv[x-xmin] = m.Label
			}
		}
	}
}

func (h *hist) bodyAt(p pos) uint64 {
	if !inYZ(p) || p[0] < xmin || p[0] >= xmax {
		return 0
	}
	return h.body[p[0]-xmin]
}

// persist emits a persistent query's answer when its printed form changed since it was last emitted
func (h *hist) persist(items *[]string, force bool, key, term string) {
	if old, ok := h.last[key]; ok && old == term && !force {
		return
	}
	h.last[key] = term
	*items = append(*items, term)
}

func (h *hist) getElems(url string) []elem {
	b := h.get(url, nil)
	if h.dead {
		return nil
	}
	es, err := parseElems(b)
	if err != nil {
		h.dead, h.why = true, fmt.Sprintf("GET %s: unparsable %q", url, b)
	}
	return es
}
func (h *hist) getBlocks(url string) []jblock {
	b := h.get(url, nil)
	if h.dead {
		return nil
	}
	bl, err := parseBlocks(b)
	if err != nil {
		h.dead, h.why = true, fmt.Sprintf("GET %s: unparsable %q", url, b)
	}
	return bl
}
func (h *hist) getSizes(url string) string {
	b := h.get(url, nil)
	if h.dead {
		return ""
	}
	var ls []struct {
		Label uint64
		Size  uint64
	}
	if err := json.Unmarshal(b, &ls); err != nil {
		h.dead, h.why = true, fmt.Sprintf("GET %s: unparsable %q", url, b)
		return ""
	}
	ss := make([]string, len(ls))
	for i, l := range ls {
		ss[i] = fmt.Sprintf("(%d,%d)", l.Label, l.Size)
	}
	return "[" + strings.Join(ss, ";") + "]"
}

func stripRels(es []elem) []elem {
	for i := range es {
		es[i].Rels = nil
	}
	return es
}

// observe takes all persistent observations and the given ad hoc queries
func (h *hist) observe(force bool, qs []jquery) []string {
	var items []string
	ls := make([]string, ncol)
	for i, l := range h.body {
		ls[i] = u(l)
	}
	h.persist(&items, force, "body", fmt.Sprintf("zBody %s [%s]", z(xmin), strings.Join(ls, ";")))
	h.persist(&items, force, "all", "zAll "+coqBlocks(h.getBlocks(h.url("ann", "all-elements"))))
	for t := 1; t <= 4; t++ {
		es := stripRels(h.getElems(h.url("ann", fmt.Sprintf("tag/t%d", t))))
		h.persist(&items, force, fmt.Sprintf("tag/%d/f", t), fmt.Sprintf("zTag %d false %s", t, coqElems(es)))
		es = h.getElems(h.url("ann", fmt.Sprintf("tag/t%d?relationships=true", t)))
		h.persist(&items, force, fmt.Sprintf("tag/%d/t", t), fmt.Sprintf("zTag %d true %s", t, coqElems(es)))
	}
	for _, l := range h.known {
		es := stripRels(h.getElems(h.url("ann", "label/"+u(l))))
		h.persist(&items, force, fmt.Sprintf("label/%d/f", l), fmt.Sprintf("zLabel %d false %s", l, coqElems(es)))
		es = h.getElems(h.url("ann", "label/"+u(l)+"?relationships=true"))
		h.persist(&items, force, fmt.Sprintf("label/%d/t", l), fmt.Sprintf("zLabel %d true %s", l, coqElems(es)))
	}
	for _, l := range h.known {
		cs := make([]int, 5)
		for i := 1; i <= 5; i++ {
			b := h.get(h.url("sz", fmt.Sprintf("count/%d/%s", l, idxNames[i])), nil)
			if h.dead {
				break
			}
			var m map[string]uint64
			if err := json.Unmarshal(b, &m); err != nil || m["Label"] != l {
				h.dead, h.why = true, fmt.Sprintf("count answer %q", b)
				break
			}
			cs[i-1] = int(m[idxNames[i]])
		}
		h.persist(&items, force, fmt.Sprintf("count/%d", l), fmt.Sprintf("zCount %d %s", l, coqInts(cs)))
	}
	for _, q := range qs {
		if h.dead {
			break
		}
		sz := fmt.Sprintf("%d_%d_%d", q.Size[0], q.Size[1], q.Size[2])
		off := fmt.Sprintf("%d_%d_%d", q.Off[0], q.Off[1], q.Off[2])
		switch q.Q {
		case "roi":
			// a fresh roi instance (same block size as the annotation) holding the query's spans
			h.rois++
			name := fmt.Sprintf("roi%d", h.rois)
			if err := dv.NewInstance(h.uuid, "roi", name, map[string]string{"BlockSize": "16,16,16"}); err != nil {
				fatal("roi instance: %v", err)
			}
			sp, _ := json.Marshal(q.Spans)
			if r := dv.Post(h.url(name, "roi"), sp); r.Status != 200 {
				fatal("POST roi: %d %s", r.Status, r.Body)
			}
			es := h.getElems(h.url("ann", "roi/"+name))
			ss := make([]string, len(q.Spans))
			for i, x := range q.Spans {
				ss[i] = fmt.Sprintf("(%s,%s,%s,%s)", z(x[0]), z(x[1]), z(x[2]), z(x[3]))
			}
			items = append(items, fmt.Sprintf("zRoi [%s] %s", strings.Join(ss, ";"), coqElems(es)))
		case "region":
			es := h.getElems(h.url("ann", "elements/"+sz+"/"+off))
			items = append(items, fmt.Sprintf("zRegion %s %s %s", q.Off.coq(), q.Size.coq(), coqElems(es)))
		case "blocks":
			bl := h.getBlocks(h.url("ann", "blocks/"+sz+"/"+off))
			items = append(items, fmt.Sprintf("zBlocks %s %s %s", q.Off.coq(), q.Size.coq(), coqBlocks(bl)))
		case "top":
			r := h.getSizes(h.url("sz", fmt.Sprintf("top/%d/%s", q.N, idxNames[q.I])))
			items = append(items, fmt.Sprintf("zTop %d %d %s", q.I, q.N, r))
		case "thr":
			url := fmt.Sprintf("threshold/%d/%s?offset=%d", q.Thr, idxNames[q.I], q.Skip)
			if q.N != 0 {
				url += fmt.Sprintf("&n=%d", q.N)
			}
			r := h.getSizes(h.url("sz", url))
			items = append(items, fmt.Sprintf("zThr %d %d %d %d %s", q.I, q.Thr, q.Skip, q.N, r))
		case "counts":
			req, _ := json.Marshal(q.Labels)
			b := h.get(h.url("sz", "counts/"+idxNames[q.I]), req)
			if h.dead {
				break
			}
			var ms []map[string]uint64
			if err := json.Unmarshal(b, &ms); err != nil || len(ms) != len(q.Labels) {
				h.dead, h.why = true, fmt.Sprintf("counts answer %q", b)
				break
			}
			cs := make([]int, len(ms))
			for i, m := range ms {
				if m["Label"] != q.Labels[i] {
					h.dead, h.why = true, fmt.Sprintf("counts answer %q not in request order", b)
				}
				cs[i] = int(m[idxNames[q.I]])
			}
			items = append(items, fmt.Sprintf("zCounts %d %s %s", q.I, coqU64s(q.Labels), coqInts(cs)))
		}
	}
	if h.dead {
		return nil
	}
	return items
}

func joinItems(items []string) string { return "[" + strings.Join(items, ";\n   ") + "]" }

func (h *hist) start(q0 []jquery) {
	h.obs0 = h.observe(true, q0)
	for _, s := range h.obs0 {
		h.size += len(s) + 6
	}
}

func poll(what string, f func() bool) bool {
	t0 := time.Now()
	for !f() {
		if time.Since(t0) > 60*time.Second {
			fmt.Fprintln(os.Stderr, "c13: timed out waiting for", what)
			return false
		}
		time.Sleep(2 * time.Millisecond)
	}
	return true
}

const sentinelNote = `"[{\"Pos\":[0,0,0],\"Kind\":\"Note\",\"Tags\":[],\"Prop\":{}}]"`

func (h *hist) szReload(val string, want uint64) bool {
	if classOf(dv.Post(h.url("ann", "labels"), []byte(`{"`+sentinel2+`":`+val+`}`))) != 0 {
		return false
	}
	if classOf(dv.Post(h.url("sz", "reload"), nil)) != 0 {
		return false
	}
	return poll("labelsz reload", func() bool {
		r := dv.Get(h.url("sz", "count/"+sentinel2+"/Note"))
		if r.Status != 200 {
			return false
		}
		var m map[string]uint64
		return json.Unmarshal(r.Body, &m) == nil && m["Note"] == want
	})
}

func (h *hist) execReload(op *jop) int {
	var sb strings.Builder
	sb.WriteByte('{')
	for i, b := range op.Blocks {
		if i > 0 {
			sb.WriteByte(',')
		}
		fmt.Fprintf(&sb, `"%d,%d,%d":`, b.B[0], b.B[1], b.B[2])
		sb.Write(wireElems(b.Elems))
	}
	sb.WriteByte('}')
	if cls := classOf(dv.Post(h.url("ann", "blocks"), []byte(sb.String()))); cls != 0 {
		return cls
	}
	return h.reloadAll(op.LowMem, op.Check)
}

// awaitChecked: POST reload?check=true (in memory) and wait for it.  The checked reload deletes nothing
// first, so the sentinel label of reloadAll would stay; instead the label index entry of one body that
// holds elements is emptied through POST labels (a raw Put) and the reload has started once the entry
// is back.  A body whose entry already equals the block store is preferred, so that the entries the
// preceding block ingest left stale are judged by the reload's own comparison.
func (h *hist) awaitChecked() int {
	bl := h.getBlocks(h.url("ann", "all-elements"))
	if h.dead {
		return 2
	}
	byBody := map[uint64][]elem{}
	for _, b := range bl {
		for _, e := range b.Elems {
			if l := h.bodyAt(e.Pos); l != 0 {
				e.Rels = nil
				byBody[l] = append(byBody[l], e)
			}
		}
	}
	var ls []uint64
	for l := range byBody {
		ls = append(ls, l)
	}
	sort.Slice(ls, func(i, j int) bool { return ls[i] < ls[j] })
	var pick uint64
	for _, l := range ls {
		es := byBody[l]
		sort.Slice(es, func(i, j int) bool { return posLess(es[i].Pos, es[j].Pos) })
		cur := stripRels(h.getElems(h.url("ann", "label/"+u(l))))
		if h.dead {
			return 2
		}
		if pick == 0 {
			pick = l
		}
		if coqElems(cur) == coqElems(es) {
			pick = l
			break
		}
	}
	if pick != 0 {
		if classOf(dv.Post(h.url("ann", "labels"), []byte(`{"`+u(pick)+`":"[]"}`))) != 0 {
			return 2
		}
	}
	if classOf(dv.Post(h.url("ann", "reload?check=true"), nil)) != 0 {
		return 2
	}
	if pick != 0 {
		if !poll("checked annotation reload to start", func() bool {
			r := dv.Get(h.url("ann", "label/"+u(pick)))
			s := strings.TrimSpace(string(r.Body))
			return r.Status == 200 && s != "[]" && s != "null" && s != ""
		}) {
			return 2
		}
	} else {
		time.Sleep(300 * time.Millisecond) // no labelled element: nothing observable marks the start
	}
	if !poll("checked annotation reload to end", func() bool {
		return dv.Post(h.url("ann", "elements?kafkalog=off"), []byte("[]")).Status == 200
	}) {
		return 2
	}
	return 0
}

// reloadAll: annotation reload (in memory, or the low-memory variant) and labelsz reload, each awaited
func (h *hist) reloadAll(lowMem, check bool) int {
	if check && !lowMem {
		if cls := h.awaitChecked(); cls != 0 {
			return cls
		}
		h.settle("sz")
		if !h.szReload(sentinelNote, 1) || !h.szReload(`"[]"`, 0) {
			return 2
		}
		return 0
	}
	if classOf(dv.Post(h.url("ann", "labels"), []byte(`{"`+sentinel1+`":`+sentinelNote+`}`))) != 0 {
		return 2
	}
	ru := "reload"
	if lowMem {
		ru = "reload?inmemory=false"
		if check {
			ru += "&check=true" // the low-memory path takes no notice of check
		}
	} else if check {
		ru = "reload?check=true"
	}
	if classOf(dv.Post(h.url("ann", ru), nil)) != 0 {
		return 2
	}
	if !poll("annotation reload to start", func() bool {
		r := dv.Get(h.url("ann", "label/"+sentinel1))
		s := strings.TrimSpace(string(r.Body))
		return r.Status == 200 && (s == "[]" || s == "null")
	}) {
		return 2
	}
	if !poll("annotation reload to end", func() bool {
		return dv.Post(h.url("ann", "elements?kafkalog=off"), []byte("[]")).Status == 200
	}) {
		return 2
	}
	// the low-memory reload files labels through storeLabelElements, which notifies labelsz: let those
	// messages drain before the counts are rebuilt
	h.settle("sz")
	if !h.szReload(sentinelNote, 1) || !h.szReload(`"[]"`, 0) {
		return 2
	}
	return 0
}

// runsOf: maximal x-runs of the columns selected by keep
func runsOf(keep func(x int) bool) [][2]int {
	var rs [][2]int
	for x := xmin; x < xmax; x++ {
		if !keep(x) {
			continue
		}
		if n := len(rs); n > 0 && rs[n-1][1] == x-1 {
			rs[n-1][1] = x
		} else {
			rs = append(rs, [2]int{x, x})
		}
	}
	return rs
}

// exec issues the request(s) of one op, waits for the syncs, and returns the Coq term and the class
func (h *hist) exec(op *jop) (string, int) {
	var term string
	cls := 2
	label := false
	switch op.Op {
	case "post":
		term = "zPost " + coqElems(op.Elems)
		cls = classOf(dv.Post(h.url("ann", "elements"), wireElems(op.Elems)))
	case "delete":
		term = fmt.Sprintf("zDelete %s %s %s", z(op.P[0]), z(op.P[1]), z(op.P[2]))
		cls = classOf(dv.Delete(h.url("ann", fmt.Sprintf("element/%d_%d_%d", op.P[0], op.P[1], op.P[2]))))
	case "move":
		term = fmt.Sprintf("zMove %s %s %s %s %s %s", z(op.P[0]), z(op.P[1]), z(op.P[2]), z(op.Q[0]), z(op.Q[1]), z(op.Q[2]))
		cls = classOf(dv.Post(h.url("ann", fmt.Sprintf("move/%d_%d_%d/%d_%d_%d", op.P[0], op.P[1], op.P[2], op.Q[0], op.Q[1], op.Q[2])), nil))
	case "reload":
		term = "zReload " + coqBlocks(op.Blocks)
		cls = h.execReload(op)
	case "labels":
		// POST labels: raw ingest of label lists (each value is a JSON string holding the array)
		m := map[string]string{}
		var ls []string
		for _, b := range op.LabelLists {
			m[u(b.L)] = string(wireElems(b.Elems))
			ls = append(ls, fmt.Sprintf("(%d,%s)", b.L, coqElems(b.Elems)))
		}
		req, _ := json.Marshal(m)
		term = "zLabels [" + strings.Join(ls, ";") + "]"
		cls = classOf(dv.Post(h.url("ann", "labels"), req))
	case "merge":
		label = true
		term = fmt.Sprintf("zMerge %d %s", op.Target, coqU64s(op.Labels))
		req, _ := json.Marshal(append([]uint64{op.Target}, op.Labels...))
		cls = classOf(dv.Post(h.url("lm", "merge"), req))
	case "split":
		// body split of the x-interval [P[0], Q[0]] (all y, z of the volume): sparse volume of bs*bs runs
		label = true
		a, b := op.P[0], op.Q[0]
		var buf bytes.Buffer
		buf.WriteByte(0) // dvid.EncodingBinary
		buf.WriteByte(3) // dimensions
		buf.WriteByte(0) // runs along x
		buf.WriteByte(0)
		binary.Write(&buf, binary.LittleEndian, uint32(0))
		binary.Write(&buf, binary.LittleEndian, uint32(bs*bs))
		for zz := 0; zz < bs; zz++ {
			for yy := 0; yy < bs; yy++ {
				binary.Write(&buf, binary.LittleEndian, [4]int32{int32(a), int32(yy), int32(zz), int32(b - a + 1)})
			}
		}
		r := dv.Post(h.url("lm", fmt.Sprintf("split/%d", op.Target)), buf.Bytes())
		cls = classOf(r)
		var m struct{ Label uint64 }
		if cls == 0 {
			if err := json.Unmarshal(r.Body, &m); err != nil || m.Label == 0 {
				cls = 2
			}
		}
		h.addKnown(m.Label)
		var bl []string
		for bx := floorDiv(a, bs); bx <= floorDiv(b, bs); bx++ {
			bl = append(bl, pos{bx, 0, 0}.coq())
		}
		term = fmt.Sprintf("zSplit %d %d [%s] [(%s,%s)]", op.Target, m.Label, strings.Join(bl, ";"), z(a), z(b))
	case "cleave":
		label = true
		in := map[uint64]bool{}
		for _, s := range op.Labels {
			in[s] = true
		}
		runs := runsOf(func(x int) bool { return in[h.sv[x-xmin]] })
		rs := make([]string, len(runs))
		for i, r := range runs {
			rs[i] = fmt.Sprintf("(%s,%s)", z(r[0]), z(r[1]))
		}
		req, _ := json.Marshal(op.Labels)
		r := dv.Post(h.url("lm", "cleave/"+u(op.Target)), req)
		cls = classOf(r)
		var m struct{ CleavedLabel uint64 }
		if cls == 0 {
			if err := json.Unmarshal(r.Body, &m); err != nil || m.CleavedLabel == 0 {
				cls = 2
			}
		}
		h.addKnown(m.CleavedLabel)
		term = fmt.Sprintf("zCleave %d %d [%s]", op.Target, m.CleavedLabel, strings.Join(rs, ";"))
	case "mutate", "ingest":
		label = true
		q := ""
		name := "zIngest"
		if op.Op == "mutate" {
			q, name = "?mutate=true", "zMutate"
		}
		// the request carries supervoxel ids; the Coq term carries the body labels they map to
		// (fresh ids map to themselves, kept supervoxels to their current body)
		svBody := map[uint64]uint64{}
		for i := range h.sv {
			svBody[h.sv[i]] = h.body[i]
		}
		bodyPaint := make([]jpaint, len(op.Paint))
		for i, p := range op.Paint {
			bodyPaint[i] = p
			if b, ok := svBody[p.L]; ok {
				bodyPaint[i].L = b
			}
		}
		term = fmt.Sprintf("%s %s %s", name, op.B.coq(), coqPaint(bodyPaint))
		cls = classOf(dv.Post(h.url("lm", fmt.Sprintf("raw/0_1_2/16_16_16/%d_0_0%s", bs*op.B[0], q)), volume(op.Paint, bs*op.B[0], bs)))
		for _, p := range op.Paint {
			h.addKnown(p.L)
		}
	default:
		fatal("unknown op %q", op.Op)
	}
	if label {
		h.settle("lm", "ann", "sz")
		h.readBody()
	} else {
		h.settle("ann", "sz")
	}
	return term, cls
}

// step executes one op and records it with its observations; false when the history must stop
func (h *hist) step(op *jop) (int, bool) {
	term, cls := h.exec(op)
	var items []string
	if cls != 2 {
		items = h.observe(op.Force, op.Queries)
	}
	if h.dead {
		fmt.Fprintln(os.Stderr, "c13: history stopped:", h.why)
		cls, items = 2, nil
	}
	s := fmt.Sprintf("zStep (%s) %d %s", term, cls, joinItems(items))
	h.steps = append(h.steps, s)
	h.size += len(s) + 4
	return cls, cls != 2
}

func (h *hist) term() string {
	return fmt.Sprintf("(zCase %d %d %s\n  %s\n  [%s])", bs, bs, coqPaintAll(h.paint0), joinItems(h.obs0), strings.Join(h.steps, ";\n\n  "))
}

func coqPaintAll(pt []jpaint) string {
	ss := make([]string, len(pt))
	for i, p := range pt {
		ss[i] = fmt.Sprintf("((%s,%s),%d)", z(p.A), z(p.B), p.L)
	}
	return "[" + strings.Join(ss, ";") + "]"
}

// ---------- the generator's own bookkeeping (never used for checking) ----------

type gstate struct {
	r        *lib.Rand
	h        *hist
	els      []elem
	fresh    uint64
	ingested []int // reserve blocks already painted (block x coordinate)
	mutable  []int // blocks that may be mutated
}

func cp(e elem) elem {
	e.Tags = append([]int(nil), e.Tags...)
	e.Rels = append([]rel(nil), e.Rels...)
	return e
}

func (g *gstate) find(p pos) int {
	for i := range g.els {
		if g.els[i].Pos == p {
			return i
		}
	}
	return -1
}

// apply: what a successful request means for the element set
func (g *gstate) apply(op *jop) {
	switch op.Op {
	case "post":
		for _, e := range op.Elems {
			if i := g.find(e.Pos); i >= 0 {
				g.els[i] = cp(e)
			} else {
				g.els = append(g.els, cp(e))
			}
		}
	case "delete":
		i := g.find(op.P)
		if i < 0 {
			return
		}
		g.els = append(g.els[:i], g.els[i+1:]...)
		for j := range g.els {
			var rs []rel
			for _, r := range g.els[j].Rels {
				if r.To != op.P {
					rs = append(rs, r)
				}
			}
			g.els[j].Rels = rs
		}
	case "move":
		i := g.find(op.P)
		if i < 0 {
			return
		}
		g.els[i].Pos = op.Q
		for j := range g.els {
			for k := range g.els[j].Rels {
				if g.els[j].Rels[k].To == op.P {
					g.els[j].Rels[k].To = op.Q
				}
			}
		}
	case "reload":
		var keep []elem
		for _, e := range g.els {
			hit := false
			for _, b := range op.Blocks {
				if blockOf(e.Pos) == b.B {
					hit = true
				}
			}
			if !hit {
				keep = append(keep, e)
			}
		}
		for _, b := range op.Blocks {
			for _, e := range b.Elems {
				keep = append(keep, cp(e))
			}
		}
		g.els = keep
	case "ingest":
		g.ingested = append(g.ingested, op.B[0])
		g.mutable = append(g.mutable, op.B[0])
	}
}

var borderX = []int{-33, -32, -17, -16, -1, 0, 15, 16, 31, 32, 47, 48}

func (g *gstate) randX() int {
	if g.r.Chance(0.5) {
		return borderX[g.r.Intn(len(borderX))]
	}
	if g.r.Chance(0.6) {
		return -16 + g.r.Intn(48) // inside the initially painted volume
	}
	return -36 + g.r.Intn(89)
}
func (g *gstate) randIn() int {
	if g.r.Chance(0.5) {
		return g.r.Pick(0, 15)
	}
	return g.r.Intn(bs)
}
func (g *gstate) randOut() int { return g.r.Pick(-1, -1, 16, 16, -3, -2, 17, 18) }
func (g *gstate) randPos() pos {
	p := pos{g.randX(), g.randIn(), g.randIn()}
	if !g.r.Chance(0.8) {
		switch g.r.Intn(3) {
		case 0:
			p[1] = g.randOut()
		case 1:
			p[2] = g.randOut()
		default:
			p[1], p[2] = g.randOut(), g.randOut()
		}
	}
	return p
}
func (g *gstate) inBlock(b pos) pos {
	var p pos
	for d := 0; d < 3; d++ {
		p[d] = b[d]*bs + g.randIn()
	}
	return p
}

// free: a position from gen that holds no element and is not in used; marks it used
func (g *gstate) free(used map[pos]bool, gen func() pos) (pos, bool) {
	for try := 0; try < 200; try++ {
		p := gen()
		if g.find(p) < 0 && !used[p] {
			used[p] = true
			return p, true
		}
	}
	return pos{}, false
}

func (g *gstate) randKind() int { return g.r.Pick(1, 1, 1, 2, 2, 3, 4, 4, 0) }
func (g *gstate) randTags() []int {
	n := g.r.Pick(0, 0, 1, 1, 1, 2, 2, 3)
	perm := []int{1, 2, 3, 4}
	for i := 3; i > 0; i-- {
		j := g.r.Intn(i + 1)
		perm[i], perm[j] = perm[j], perm[i]
	}
	return append([]int(nil), perm[:n]...)
}
func (g *gstate) randProp() int {
	if g.r.Bool() {
		return 0
	}
	return 1 + g.r.Intn(9)
}
func (g *gstate) newElem(p pos) elem {
	return elem{Pos: p, Kind: g.randKind(), Tags: g.randTags(), Prop: g.randProp()}
}
func hasTag(e elem, t int) bool {
	for _, x := range e.Tags {
		if x == t {
			return true
		}
	}
	return false
}
func withoutTag(ts []int, t int) []int {
	var out []int
	for _, x := range ts {
		if x != t {
			out = append(out, x)
		}
	}
	return out
}

// vary changes kind and/or tags and/or prop of e (Rels untouched); reports a kind change
func (g *gstate) vary(e elem) (elem, bool) {
	n := cp(e)
	for {
		if g.r.Chance(0.6) {
			n.Kind = (e.Kind + 1 + g.r.Intn(4)) % 5
		}
		if g.r.Chance(0.5) {
			n.Tags = g.randTags()
		}
		if g.r.Chance(0.4) {
			n.Prop = g.randProp()
		}
		if n.Kind != e.Kind || n.Prop != e.Prop || fmt.Sprint(n.Tags) != fmt.Sprint(e.Tags) {
			return n, n.Kind != e.Kind
		}
	}
}

type flags struct {
	kindChange, dropCarry, crossBlock, sameBody, missing, link, partner bool
	hostile                                                             string // ill-formed request that must be rejected with 400 and change nothing
	behind                                                              string // kinds of change a reload op's block ingest makes behind the tag/label indexes
}

// varyBehind: one narrow change of e as a block ingest can make it behind the indexes: the element gains
// a tag and keeps its old ones, loses one tag, changes only its Kind, or only its Prop ("" when the
// drawn change is not possible for e).
func (g *gstate) varyBehind(e elem) (elem, string) {
	n := cp(e)
	switch g.r.Intn(4) {
	case 0:
		var cand []int
		for t := 1; t <= 4; t++ {
			if !hasTag(e, t) {
				cand = append(cand, t)
			}
		}
		if len(cand) == 0 {
			return n, ""
		}
		t := cand[g.r.Intn(len(cand))]
		if g.r.Bool() {
			n.Tags = append(n.Tags, t)
		} else {
			n.Tags = append([]int{t}, n.Tags...)
		}
		return n, "gains a tag"
	case 1:
		if len(e.Tags) == 0 {
			return n, ""
		}
		n.Tags = withoutTag(n.Tags, e.Tags[g.r.Intn(len(e.Tags))])
		return n, "loses a tag"
	case 2:
		n.Kind = (e.Kind + 1 + g.r.Intn(4)) % 5
		return n, "changes Kind"
	default:
		n.Prop = (e.Prop + 1 + g.r.Intn(9)) % 10
		return n, "changes Prop"
	}
}

// keepsKeys: every tag and every body that has an element in before has one in after.  The checked
// reload (check=true) rewrites the entries of the tags and bodies found in the block store and does
// not look at other entries, so only then is it expected to leave exact views.
func (g *gstate) keepsKeys(before, after []elem) bool {
	tags := map[int]bool{}
	bodies := map[uint64]bool{}
	for _, e := range after {
		for _, t := range e.Tags {
			tags[t] = true
		}
		bodies[g.h.bodyAt(e.Pos)] = true
	}
	for _, e := range before {
		for _, t := range e.Tags {
			if !tags[t] {
				return false
			}
		}
		if l := g.h.bodyAt(e.Pos); l != 0 && !bodies[l] {
			return false
		}
	}
	return true
}

// genHostile: requests the server must reject before writing anything (C13-7-fix, C13-8-fix),
// plus the no-op move whose source equals its destination.
func (g *gstate) genHostile(f *flags) *jop {
	used := map[pos]bool{}
	fresh := func() (pos, bool) { return g.free(used, g.randPos) }
	switch g.r.Intn(6) {
	case 0: // two elements at one position
		if p, ok := fresh(); ok {
			f.hostile = "post two elements at one position"
			a, b := g.newElem(p), g.newElem(p)
			op := &jop{Op: "post", Elems: []elem{a, b}}
			if q, ok := fresh(); ok && g.r.Bool() {
				op.Elems = append([]elem{g.newElem(q)}, op.Elems...)
			}
			return op
		}
	case 1: // a tag twice
		if p, ok := fresh(); ok {
			f.hostile = "post element with a repeated tag"
			e := g.newElem(p)
			t := 1 + g.r.Intn(4)
			e.Tags = []int{t, 1 + g.r.Intn(4), t}
			return &jop{Op: "post", Elems: []elem{e}}
		}
	case 2: // two elements at one position, one of them an existing element
		if len(g.els) >= 1 {
			f.hostile = "post two elements at one position"
			e := g.els[g.r.Intn(len(g.els))]
			return &jop{Op: "post", Elems: []elem{cp(e), g.newElem(e.Pos)}}
		}
	case 3: // onto an occupied position
		if len(g.els) >= 2 {
			f.hostile = "move onto an occupied position"
			idx := g.shuffled(len(g.els))
			return &jop{Op: "move", P: g.els[idx[0]].Pos, Q: g.els[idx[1]].Pos}
		}
	case 4: // source = destination: accepted, nothing changes
		if len(g.els) >= 1 {
			f.hostile = "move with source = destination (no-op)"
			p := g.els[g.r.Intn(len(g.els))].Pos
			return &jop{Op: "move", P: p, Q: p}
		}
	case 5: // POST blocks with an element outside its block, or twice the same position
		if len(g.els) >= 1 {
			e := g.els[g.r.Intn(len(g.els))]
			b := blockOf(e.Pos)
			var cur []elem
			for _, x := range g.els {
				if blockOf(x.Pos) == b {
					cur = append(cur, cp(x))
				}
			}
			if g.r.Bool() {
				f.hostile = "post blocks with an element outside its block"
				out := g.newElem(pos{e.Pos[0] + bs, e.Pos[1], e.Pos[2]})
				cur = append(cur, out)
			} else {
				f.hostile = "post blocks with two elements at one position"
				cur = append(cur, g.newElem(e.Pos))
			}
			return &jop{Op: "reload", Blocks: []jblock{{B: b, Elems: cur}}}
		}
	}
	return nil
}

func (g *gstate) genPostNew() *jop {
	n := 1 + g.r.Intn(4)
	if len(g.els) >= 7 {
		n = 1
	}
	used := map[pos]bool{}
	op := &jop{Op: "post"}
	for i := 0; i < n; i++ {
		gen := g.randPos
		if i > 0 && g.r.Chance(0.4) { // a neighbour in the same block
			b := blockOf(op.Elems[0].Pos)
			gen = func() pos { return g.inBlock(b) }
		}
		if p, ok := g.free(used, gen); ok {
			op.Elems = append(op.Elems, g.newElem(p))
		}
	}
	return op
}

func (g *gstate) genOverwrite(f *flags) *jop {
	if len(g.els) == 0 {
		return nil
	}
	op := &jop{Op: "post"}
	used := map[pos]bool{}
	idx := g.shuffled(len(g.els))
	k := 1 + g.r.Intn(3)
	if k > len(idx) {
		k = len(idx)
	}
	at := map[pos]int{} // position -> index in op.Elems
	for _, i := range idx[:k] {
		n, kc := g.vary(g.els[i])
		f.kindChange = f.kindChange || kc
		at[n.Pos] = len(op.Elems)
		op.Elems = append(op.Elems, n)
	}
	if g.r.Chance(0.65) {
		// one element drops a tag that another element of the same block carries or gains in this request
		for _, i := range idx[:k] {
			cur := g.els[i]
			if len(cur.Tags) == 0 {
				continue
			}
			t := cur.Tags[g.r.Intn(len(cur.Tags))]
			op.Elems[at[cur.Pos]].Tags = withoutTag(op.Elems[at[cur.Pos]].Tags, t)
			b := blockOf(cur.Pos)
			var mates []int
			for j, e := range g.els {
				if j != i && blockOf(e.Pos) == b {
					mates = append(mates, j)
				}
			}
			if len(mates) > 0 && g.r.Chance(0.6) {
				m := g.els[mates[g.r.Intn(len(mates))]]
				j, ok := at[m.Pos]
				if !ok {
					j = len(op.Elems)
					at[m.Pos] = j
					op.Elems = append(op.Elems, cp(m))
				}
				if !hasTag(op.Elems[j], t) {
					op.Elems[j].Tags = append(op.Elems[j].Tags, t)
				}
				f.dropCarry = true
			} else if p, ok := g.free(used, func() pos { return g.inBlock(b) }); ok {
				e := g.newElem(p)
				if !hasTag(e, t) {
					e.Tags = append(e.Tags, t)
				}
				op.Elems = append(op.Elems, e)
				f.dropCarry = true
			}
			break
		}
	}
	if len(g.els) < 8 {
		for n := g.r.Pick(0, 0, 1, 2); n > 0; n-- {
			if p, ok := g.free(used, g.randPos); ok {
				op.Elems = append(op.Elems, g.newElem(p))
			}
		}
	}
	// request order is arbitrary
	for i := len(op.Elems) - 1; i > 0; i-- {
		j := g.r.Intn(i + 1)
		op.Elems[i], op.Elems[j] = op.Elems[j], op.Elems[i]
	}
	return op
}

func (g *gstate) shuffled(n int) []int {
	idx := make([]int, n)
	for i := range idx {
		idx[i] = i
	}
	for i := n - 1; i > 0; i-- {
		j := g.r.Intn(i + 1)
		idx[i], idx[j] = idx[j], idx[i]
	}
	return idx
}

func refsTo(e elem, p pos) bool {
	for _, r := range e.Rels {
		if r.To == p {
			return true
		}
	}
	return false
}

func (g *gstate) genLink(f *flags) *jop {
	if len(g.els) < 2 {
		return nil
	}
	for try := 0; try < 20; try++ {
		i, j := g.r.Intn(len(g.els)), g.r.Intn(len(g.els))
		if i == j || refsTo(g.els[i], g.els[j].Pos) || refsTo(g.els[j], g.els[i].Pos) {
			continue
		}
		a, b := cp(g.els[i]), cp(g.els[j])
		// one to three relationships of different types in each direction (several entries with the same To)
		multi := func(e *elem, to pos) {
			types := g.shuffled(5)
			for _, t := range types[:g.r.Pick(1, 1, 2, 2, 3)] {
				e.Rels = append(e.Rels, rel{Rel: t, To: to})
			}
		}
		multi(&a, b.Pos)
		multi(&b, a.Pos)
		if len(a.Rels) > 1 && g.r.Bool() { // not always adjacent in the list
			a.Rels[0], a.Rels[len(a.Rels)-1] = a.Rels[len(a.Rels)-1], a.Rels[0]
		}
		f.link = true
		return &jop{Op: "post", Elems: []elem{a, b}}
	}
	return nil
}

// pickElem: a random element; with probability pLinked one that has relationships, if there is any
func (g *gstate) pickElem(pLinked float64) elem {
	if g.r.Chance(pLinked) {
		var l []int
		for i, e := range g.els {
			if len(e.Rels) > 0 {
				l = append(l, i)
			}
		}
		if len(l) > 0 {
			return g.els[l[g.r.Intn(len(l))]]
		}
	}
	return g.els[g.r.Intn(len(g.els))]
}

func (g *gstate) genDelete(f *flags) *jop {
	if len(g.els) == 0 || g.r.Chance(0.1) {
		if p, ok := g.free(map[pos]bool{}, g.randPos); ok {
			f.missing = true
			return &jop{Op: "delete", P: p}
		}
		return nil
	}
	e := g.pickElem(0.5)
	f.partner = len(e.Rels) > 0
	return &jop{Op: "delete", P: e.Pos}
}

func (g *gstate) genMove(f *flags) *jop {
	used := map[pos]bool{}
	if len(g.els) == 0 || g.r.Chance(0.1) {
		p, ok1 := g.free(used, g.randPos)
		q, ok2 := g.free(used, g.randPos)
		if ok1 && ok2 {
			f.missing = true
			return &jop{Op: "move", P: p, Q: q}
		}
		return nil
	}
	mode := g.r.Intn(7)
	from := g.pickElem(0.5).Pos
	if mode <= 2 && g.r.Chance(0.7) { // prefer an element that sits on a body
		var on []pos
		for _, e := range g.els {
			if g.h.bodyAt(e.Pos) != 0 {
				on = append(on, e.Pos)
			}
		}
		if len(on) > 0 {
			from = on[g.r.Intn(len(on))]
		}
	}
	fb := g.h.bodyAt(from)
	f.partner = len(g.els[g.find(from)].Rels) > 0
	var gen func() pos
	switch mode {
	case 0: // within the block
		b := blockOf(from)
		gen = func() pos { return g.inBlock(b) }
	case 1, 6: // same body, if the element sits on one
		if fb != 0 {
			gen = func() pos {
				for {
					x := xmin + g.r.Intn(ncol)
					if g.h.body[x-xmin] == fb {
						return pos{x, g.randIn(), g.randIn()}
					}
				}
			}
		}
	case 2: // onto another body
		other := false
		for _, l := range g.h.body {
			if l != 0 && l != fb {
				other = true
			}
		}
		if other {
			gen = func() pos {
				for {
					x := xmin + g.r.Intn(ncol)
					if l := g.h.body[x-xmin]; l != 0 && l != fb {
						return pos{x, g.randIn(), g.randIn()}
					}
				}
			}
		}
	case 3: // negative coordinates / outside the volume
		gen = func() pos {
			p := g.randPos()
			switch g.r.Intn(3) {
			case 0:
				p[0] = -36 + g.r.Intn(36)
			case 1:
				p[g.r.Pick(1, 2)] = g.r.Pick(-1, -2, -3)
			default:
				p[0] = g.r.Pick(48, 49, 52, -33, -36)
			}
			return p
		}
	case 4: // neighbouring block, same in-block offset
		gen = func() pos {
			p := from
			p[0] += g.r.Pick(-bs, bs)
			return p
		}
	}
	if gen == nil {
		gen = g.randPos
	}
	used[from] = true
	to, ok := g.free(used, gen)
	if !ok {
		if to, ok = g.free(used, g.randPos); !ok {
			return nil
		}
	}
	f.crossBlock = blockOf(from) != blockOf(to)
	f.sameBody = fb != 0 && fb == g.h.bodyAt(to)
	return &jop{Op: "move", P: from, Q: to}
}

func (g *gstate) genReload(f *flags, checked bool) *jop {
	op := &jop{Op: "reload", LowMem: g.r.Bool()}
	if checked {
		op.LowMem = false
		op.Check = true
	} else if g.r.Chance(0.3) {
		op.Check = true
	}
	behind := map[string]bool{}
	var blocks []pos
	for _, e := range g.els {
		b := blockOf(e.Pos)
		dup := false
		for _, x := range blocks {
			dup = dup || x == b
		}
		if !dup {
			blocks = append(blocks, b)
		}
	}
	var chosen []pos
	n := 1 + g.r.Intn(2)
	for _, i := range g.shuffled(len(blocks)) {
		if len(chosen) < n {
			chosen = append(chosen, blocks[i])
		}
	}
	if len(chosen) == 0 || g.r.Chance(0.15) { // a block that holds nothing yet
		b := blockOf(g.randPos())
		dup := false
		for _, x := range chosen {
			dup = dup || x == b
		}
		if !dup {
			chosen = append(chosen, b)
		}
	}
	used := map[pos]bool{}
	for _, b := range chosen {
		jb := jblock{B: b, Elems: []elem{}}
		for _, e := range g.els {
			if blockOf(e.Pos) != b {
				continue
			}
			referenced := false
			for _, o := range g.els {
				referenced = referenced || refsTo(o, e.Pos)
			}
			if len(e.Rels) == 0 && !referenced && g.r.Chance(0.25) {
				continue
			}
			n := cp(e)
			if checked || op.Check {
				switch w := g.r.Intn(10); {
				case w < 5:
					if m, what := g.varyBehind(e); what != "" {
						n = m
						behind[what] = true
					}
				case w < 7:
					n, _ = g.vary(e)
				}
			} else if g.r.Chance(0.5) {
				n, _ = g.vary(e)
			}
			jb.Elems = append(jb.Elems, n)
		}
		for k := g.r.Pick(0, 1, 1, 2); k > 0; k-- {
			if p, ok := g.free(used, func() pos { return g.inBlock(b) }); ok {
				jb.Elems = append(jb.Elems, g.newElem(p))
			}
		}
		if len(jb.Elems) > 1 && g.r.Bool() { // the elements move within the block's list
			sh := make([]elem, len(jb.Elems))
			for i, j := range g.shuffled(len(jb.Elems)) {
				sh[i] = jb.Elems[j]
			}
			jb.Elems = sh
			behind["moves within the block list"] = true
		}
		op.Blocks = append(op.Blocks, jb)
	}
	if op.Check && !op.LowMem {
		var after []elem
		for _, e := range g.els {
			hit := false
			for _, b := range op.Blocks {
				hit = hit || blockOf(e.Pos) == b.B
			}
			if !hit {
				after = append(after, e)
			}
		}
		for _, b := range op.Blocks {
			after = append(after, b.Elems...)
		}
		if !g.keepsKeys(g.els, after) {
			op.Check = false // a tag or a body loses its last element: the unchecked reload
		}
	}
	var bs []string
	for k := range behind {
		bs = append(bs, k)
	}
	sort.Strings(bs)
	f.behind = strings.Join(bs, ", ")
	return op
}

func (g *gstate) bodies() []uint64 {
	var bl []uint64
	seen := map[uint64]bool{}
	for _, l := range g.h.body {
		if l != 0 && !seen[l] {
			seen[l] = true
			bl = append(bl, l)
		}
	}
	return bl
}

func (g *gstate) genMerge() *jop {
	bl := g.bodies()
	if len(bl) < 2 {
		return nil
	}
	idx := g.shuffled(len(bl))
	n := 1 + g.r.Intn(2)
	if n > len(bl)-1 {
		n = len(bl) - 1
	}
	op := &jop{Op: "merge", Target: bl[idx[0]]}
	for _, i := range idx[1 : 1+n] {
		op.Labels = append(op.Labels, bl[i])
	}
	return op
}

// genLabels: POST labels with the lists the label index must hold anyway (relationship-free, any order)
func (g *gstate) genLabels() *jop {
	by := map[uint64][]elem{}
	for _, e := range g.els {
		if l := g.h.bodyAt(e.Pos); l != 0 {
			c := cp(e)
			c.Rels = nil
			by[l] = append(by[l], c)
		}
	}
	if len(by) == 0 {
		return nil
	}
	var ls []uint64
	for l := range by {
		ls = append(ls, l)
	}
	sort.Slice(ls, func(i, j int) bool { return ls[i] < ls[j] })
	op := &jop{Op: "labels"}
	for _, i := range g.shuffled(len(ls)) {
		l := ls[i]
		es := by[l]
		sh := make([]elem, len(es))
		for k, j := range g.shuffled(len(es)) {
			sh[k] = es[j]
		}
		op.LabelLists = append(op.LabelLists, jlabels{L: l, Elems: sh})
		if len(op.LabelLists) == 2 {
			break
		}
	}
	if g.r.Chance(0.3) {
		op.LabelLists = append(op.LabelLists, jlabels{L: 0, Elems: []elem{g.newElem(pos{1, 1, 1})}}) // label 0 is skipped by the server
	}
	return op
}

// genSplit: a proper part of one body, an x-interval inside one of its runs
func (g *gstate) genSplit() *jop {
	bl := g.bodies()
	if len(bl) == 0 {
		return nil
	}
	body := bl[g.r.Intn(len(bl))]
	runs := runsOf(func(x int) bool { return g.h.body[x-xmin] == body })
	total := 0
	for _, r := range runs {
		total += r[1] - r[0] + 1
	}
	if total < 2 {
		return nil
	}
	r := runs[g.r.Intn(len(runs))]
	a := r[0] + g.r.Intn(r[1]-r[0]+1)
	b := a + g.r.Intn(r[1]-a+1)
	if g.r.Chance(0.3) { // a whole run, or up to a block border
		a, b = r[0], r[1]
	}
	if b-a+1 >= total {
		if a == b {
			return nil
		}
		b--
	}
	return &jop{Op: "split", Target: body, P: pos{a, 0, 0}, Q: pos{b, 0, 0}}
}

func (g *gstate) genCleave() *jop {
	var cands []uint64
	svs := map[uint64][]uint64{}
	for _, b := range g.bodies() {
		seen := map[uint64]bool{}
		for i, l := range g.h.body {
			if l == b && !seen[g.h.sv[i]] && g.h.sv[i] != 0 {
				seen[g.h.sv[i]] = true
				svs[b] = append(svs[b], g.h.sv[i])
			}
		}
		if len(svs[b]) >= 2 {
			cands = append(cands, b)
		}
	}
	if len(cands) == 0 {
		return nil
	}
	b := cands[g.r.Intn(len(cands))]
	s := svs[b]
	idx := g.shuffled(len(s))
	n := 1 + g.r.Intn(len(s)-1)
	op := &jop{Op: "cleave", Target: b}
	for _, i := range idx[:n] {
		op.Labels = append(op.Labels, s[i])
	}
	return op
}

func (g *gstate) nextFresh() uint64 {
	l := g.fresh
	g.fresh -= 7
	return l
}

func (g *gstate) genMutate() *jop {
	// any block that holds data: the posted array carries supervoxel ids, also of merged / cleaved bodies
	cands := append([]int(nil), g.mutable...)
	if len(cands) == 0 {
		return nil
	}
	bx := cands[g.r.Intn(len(cands))]
	op := &jop{Op: "mutate", B: pos{bx, 0, 0}}
	changed := false
	x := bx * bs
	for x < (bx+1)*bs {
		l := g.h.sv[x-xmin]
		e := x
		for e+1 < (bx+1)*bs && g.h.sv[e+1-xmin] == l {
			e++
		}
		pieces := [][2]int{{x, e}}
		if e > x && g.r.Chance(0.35) {
			c := x + g.r.Intn(e-x)
			pieces = [][2]int{{x, c}, {c + 1, e}}
		}
		for _, pc := range pieces {
			nl := l
			switch {
			case l == 0 && g.r.Chance(0.3), l != 0 && g.r.Chance(0.35):
				nl = g.nextFresh()
			case l != 0 && g.r.Chance(0.25):
				nl = 0
			}
			changed = changed || nl != l
			op.Paint = append(op.Paint, jpaint{A: pc[0], B: pc[1], L: nl})
		}
		x = e + 1
	}
	if !changed {
		op.Paint[0].L = g.nextFresh()
	}
	return op
}

func (g *gstate) genIngest() *jop {
	if len(g.ingested) >= 2 {
		return nil
	}
	bx := g.r.Pick(-2, 2)
	for _, i := range g.ingested {
		if i == bx {
			bx = -bx
		}
	}
	op := &jop{Op: "ingest", B: pos{bx, 0, 0}}
	x := bx * bs
	any := false
	for x < (bx+1)*bs {
		e := x + g.r.Intn((bx+1)*bs-x)
		if g.r.Chance(0.3) {
			e = (bx+1)*bs - 1
		}
		var l uint64
		if g.r.Chance(0.8) {
			l = g.nextFresh()
			any = true
		}
		op.Paint = append(op.Paint, jpaint{A: x, B: e, L: l})
		x = e + 1
	}
	if !any {
		op.Paint[0].L = g.nextFresh()
	}
	return op
}

func (g *gstate) genQuery() jquery {
	box := func() (pos, pos) {
		var off, size pos
		off[0] = g.r.Pick(-40, -33, -32, -20, -17, -16, -8, -1, 0, 5, 15, 16, 31, 32) + g.r.Pick(0, 0, 1, -1)
		size[0] = g.r.Pick(1, 2, 8, 16, 17, 20, 33, 48, 90)
		for d := 1; d < 3; d++ {
			if g.r.Chance(0.6) {
				off[d], size[d] = -4, 24
			} else {
				off[d] = g.r.Pick(-3, -1, 0, 1, 8, 15, 16)
				size[d] = g.r.Pick(1, 2, 8, 15, 16, 17, 20)
			}
		}
		return off, size
	}
	switch g.r.Intn(11) {
	case 10:
		q := jquery{Q: "roi"}
		for n := 1 + g.r.Intn(3); n > 0; n-- {
			x0 := g.r.Pick(-3, -2, -1, 0, 1)
			q.Spans = append(q.Spans, [4]int{g.r.Pick(0, 0, 0, -1, 1), g.r.Pick(0, 0, 0, -1, 1), x0, x0 + g.r.Intn(4)})
		}
		return q
	case 0, 1, 2:
		o, s := box()
		return jquery{Q: "region", Off: o, Size: s}
	case 3, 4:
		o, s := box()
		return jquery{Q: "blocks", Off: o, Size: s}
	case 5:
		return jquery{Q: "top", I: 1 + g.r.Intn(5), N: 1 + g.r.Intn(6)}
	case 6, 7:
		return jquery{Q: "thr", I: 1 + g.r.Intn(5), Thr: g.r.Pick(0, 1, 1, 2, 3), Skip: g.r.Pick(0, 0, 1, 2), N: g.r.Pick(0, 0, 1, 2, 3)}
	default:
		q := jquery{Q: "counts", I: 1 + g.r.Intn(5)}
		for n := 1 + g.r.Intn(4); n > 0; n-- {
			if g.r.Chance(0.15) {
				q.Labels = append(q.Labels, 9999)
			} else {
				q.Labels = append(q.Labels, g.h.known[g.r.Intn(len(g.h.known))])
			}
		}
		return q
	}
}

func (g *gstate) genOp(f *flags) *jop {
	for {
		var op *jop
		w := g.r.Intn(130)
		if w >= 124 {
			if len(g.els) > 0 {
				return g.genReload(f, true)
			}
			continue
		}
		if w >= 121 {
			if op = g.genLabels(); op != nil {
				return op
			}
			continue
		}
		if w >= 114 {
			if op = g.genSplit(); op != nil {
				return op
			}
			continue
		}
		if w >= 107 {
			if op = g.genHostile(f); op != nil {
				return op
			}
			continue
		}
		if w >= 82 && w < 90 && g.r.Chance(0.4) {
			w = 90 // a cleave instead of a merge (falls back to another op when no body has two supervoxels)
		}
		switch {
		case w < 25:
			if len(g.els) >= 9 {
				op = g.genDelete(f)
			} else {
				op = g.genPostNew()
			}
		case w < 40:
			op = g.genOverwrite(f)
		case w < 52:
			op = g.genLink(f)
		case w < 62:
			op = g.genDelete(f)
		case w < 77:
			op = g.genMove(f)
		case w < 82:
			op = g.genReload(f, false)
		case w < 90:
			op = g.genMerge()
		case w < 97:
			op = g.genCleave()
		case w < 102:
			op = g.genMutate()
		default:
			op = g.genIngest()
		}
		if op == nil && len(g.els) == 0 {
			op = g.genPostNew()
		}
		if op != nil && (op.Op != "post" || len(op.Elems) > 0) {
			return op
		}
		*f = flags{}
	}
}

func randomPaint0(r *lib.Rand) []jpaint {
	k := 4 + r.Intn(4)
	cuts := map[int]bool{}
	for len(cuts) < k-1 {
		c := -15 + r.Intn(47) // a slab starts at c
		if r.Chance(0.3) {
			c = r.Pick(0, 16, 1, 15, -1, 17)
		}
		cuts[c] = true
	}
	var cs []int
	for c := range cuts {
		cs = append(cs, c)
	}
	sort.Ints(cs)
	cs = append(cs, 32)
	var pt []jpaint
	a := -16
	for i, c := range cs {
		pt = append(pt, jpaint{A: a, B: c - 1, L: uint64(i + 1)})
		a = c
	}
	return pt
}

// ---------- the big reload history ----------

// reloadThresholds reads the flush thresholds of the reload code from the source tree the driver was
// built against (VERIF_REPO, else /repo): every comparison `x > N` / `x >= N` with an integer literal
// N >= 100 inside the resync* / *denorm* functions of datatype/annotation/denormalizations.go.  The big
// history is sized at 3 x the largest of them (fallback 1000 when none is found).
func reloadThresholds() (max int, found []int) {
	root := os.Getenv("VERIF_REPO")
	if root == "" {
		root = "/repo"
	}
	fset := token.NewFileSet()
	f, err := parser.ParseFile(fset, root+"/datatype/annotation/denormalizations.go", nil, 0)
	if err == nil {
		for _, d := range f.Decls {
			fd, ok := d.(*ast.FuncDecl)
			if !ok {
				continue
			}
			name := strings.ToLower(fd.Name.Name)
			if !strings.Contains(name, "resync") && !strings.Contains(name, "denorm") {
				continue
			}
			ast.Inspect(fd, func(n ast.Node) bool {
				be, ok := n.(*ast.BinaryExpr)
				if !ok || (be.Op != token.GTR && be.Op != token.GEQ) {
					return true
				}
				if lit, ok := be.Y.(*ast.BasicLit); ok && lit.Kind == token.INT {
					if v, err := strconv.Atoi(lit.Value); err == nil && v >= 100 {
						found = append(found, v)
					}
				}
				return true
			})
		}
	}
	max = 1000
	if len(found) > 0 {
		max = 0
		for _, v := range found {
			if v > max {
				max = v
			}
		}
	}
	return
}

func diffElems(exp, obs []elem) (missing, extra int) {
	m := map[string]int{}
	for _, e := range exp {
		m[e.coq()]++
	}
	for _, e := range obs {
		k := e.coq()
		if m[k] > 0 {
			m[k]--
		} else {
			extra++
		}
	}
	for _, n := range m {
		missing += n
	}
	return
}

// runBig: block-level ingest of enough tagged elements to cross every flush threshold of the reload
// code several times, then both reload variants; every view is compared here with the element set
// returned by all-elements and only the projected facts go into the cases file.
func runBig(run *lib.Run, r *lib.Rand) {
	thr, found := reloadThresholds()
	n := 3*thr + 300
	if n > 40000 {
		n = 40000
	}
	paint0 := []jpaint{{-16, -1, 5}, {0, 7, 1}, {8, 15, 2}, {16, 31, 3}}
	h := newHist(paint0)
	var blocks []pos
	for bx := -3; bx <= 4; bx++ {
		for by := -1; by <= 1; by++ {
			blocks = append(blocks, pos{bx, by, 0})
		}
	}
	used := map[pos]bool{}
	byBlock := map[pos][]elem{}
	var posted []elem
	tagEntries := 0
	for len(posted) < n {
		b := blocks[r.Intn(len(blocks))]
		if r.Chance(0.4) { // more of them on labelled voxels
			b = pos{r.Pick(-1, 0, 1), 0, 0}
		}
		p := pos{b[0]*bs + r.Intn(bs), b[1]*bs + r.Intn(bs), b[2]*bs + r.Intn(bs)}
		if used[p] {
			continue
		}
		used[p] = true
		e := elem{Pos: p, Kind: r.Pick(1, 1, 2, 2, 3, 4, 0), Prop: r.Pick(0, 0, 1, 2)}
		if r.Chance(0.75) {
			e.Tags = append(e.Tags, 1) // one tag carried by most elements of every block
		}
		for t := 2; t <= 4; t++ {
			if r.Chance(0.25) {
				e.Tags = append(e.Tags, t)
			}
		}
		tagEntries += len(e.Tags)
		posted = append(posted, e)
		byBlock[b] = append(byBlock[b], e)
	}
	var sb strings.Builder
	sb.WriteByte('{')
	first := true
	for _, b := range blocks {
		if len(byBlock[b]) == 0 {
			continue
		}
		if !first {
			sb.WriteByte(',')
		}
		first = false
		fmt.Fprintf(&sb, `"%d,%d,%d":`, b[0], b[1], b[2])
		sb.Write(wireElems(byBlock[b]))
	}
	sb.WriteByte('}')
	var facts []string
	fact := func(class, key, exp, obs, missing, extra int) {
		facts = append(facts, fmt.Sprintf("(%d,%s,%d,%d,%d,%d)", class, z(key), exp, obs, missing, extra))
	}
	if cls := classOf(dv.Post(h.url("ann", "blocks"), []byte(sb.String()))); cls != 0 {
		fact(1, 0, 0, cls, 0, 0)
	}
	for variant, lowMem := range []bool{true, false} {
		v := (variant + 1) * 1000
		if h.reloadAll(lowMem, false) != 0 {
			fact(1, v, 0, 1, 0, 0)
			continue
		}
		var G []elem
		bl := h.getBlocks(h.url("ann", "all-elements"))
		bad := 0
		for _, b := range bl {
			for _, e := range b.Elems {
				if blockOf(e.Pos) != b.B {
					bad++
				}
				G = append(G, e)
			}
		}
		mi, xt := diffElems(posted, G)
		fact(9, v, len(posted), len(G), mi, xt)
		fact(2, v, 0, bad, 0, 0)
		for t := 1; t <= 4; t++ {
			var exp []elem
			for _, e := range G {
				if hasTag(e, t) {
					exp = append(exp, e)
				}
			}
			obs := h.getElems(h.url("ann", fmt.Sprintf("tag/t%d", t)))
			mi, xt = diffElems(stripRels(exp), stripRels(obs))
			fact(3, v+t, len(exp), len(obs), mi, xt)
			obs = h.getElems(h.url("ann", fmt.Sprintf("tag/t%d?relationships=true", t)))
			mi, xt = diffElems(exp, obs)
			fact(3, v+100+t, len(exp), len(obs), mi, xt)
		}
		for _, l := range h.known {
			var exp []elem
			var cnt [6]int
			for _, e := range G {
				if h.bodyAt(e.Pos) == l {
					exp = append(exp, e)
					if e.Kind >= 1 && e.Kind <= 4 {
						cnt[e.Kind]++
					}
					if e.Kind >= 1 && e.Kind <= 3 {
						cnt[5]++
					}
				}
			}
			obs := h.getElems(h.url("ann", "label/"+u(l)))
			mi, xt = diffElems(stripRels(exp), stripRels(obs))
			fact(4, v+int(l), len(exp), len(obs), mi, xt)
			for i := 1; i <= 5; i++ {
				b := h.get(h.url("sz", fmt.Sprintf("count/%d/%s", l, idxNames[i])), nil)
				var m map[string]uint64
				json.Unmarshal(b, &m)
				fact(5, v+10*int(l)+i, cnt[i], int(m[idxNames[i]]), 0, 0)
			}
		}
		for bi, box := range [][2]pos{{{-40, -20, -4}, {100, 60, 24}}, {{-17, 3, 0}, {34, 20, 16}}, {{5, -16, 1}, {1, 48, 9}}} {
			off, size := box[0], box[1]
			var exp []elem
			for _, e := range G {
				in := true
				for d := 0; d < 3; d++ {
					in = in && e.Pos[d] >= off[d] && e.Pos[d] < off[d]+size[d]
				}
				if in {
					exp = append(exp, e)
				}
			}
			obs := h.getElems(h.url("ann", fmt.Sprintf("elements/%d_%d_%d/%d_%d_%d", size[0], size[1], size[2], off[0], off[1], off[2])))
			mi, xt = diffElems(exp, obs)
			fact(7, v+bi, len(exp), len(obs), mi, xt)
		}
		if h.dead {
			fmt.Fprintln(os.Stderr, "c13: big history:", h.why)
			fact(1, v+1, 0, 1, 0, 0)
			break
		}
	}
	run.Count("big: histories")
	run.Extra["big_history"] = map[string]interface{}{"elements": len(posted), "tag_entries": tagEntries, "blocks": len(byBlock),
		"reload_thresholds_found_in_source": found, "sized_for_threshold": thr}
	type bigCase struct {
		Kind     string `json:"kind"`
		Elements int    `json:"elements"`
		Note     string `json:"note"`
	}
	run.Add("big-reload", "(zBig ["+strings.Join(facts, ";\n   ")+"])",
		bigCase{"big-reload", len(posted), "regenerated from the seed: a replay of this case needs the same VERIF_SEED"},
		fmt.Sprintf("big-%d", len(posted)))
}

// ---------- running histories ----------

func opKey(ops []jop) string {
	stripped := make([]jop, len(ops))
	for i, o := range ops {
		o.Queries = nil
		stripped[i] = o
	}
	b, _ := json.Marshal(stripped)
	var hsh uint64 = 14695981039346656037
	for _, x := range b {
		hsh = (hsh ^ uint64(x)) * 1099511628211
	}
	return fmt.Sprintf("%016x", hsh)
}

func countOp(run *lib.Run, op *jop, cls int, f flags) {
	run.Count("op:" + op.Op)
	run.Count(fmt.Sprintf("class:%d", cls))
	if cls == 1 {
		run.Count("class-1 ops")
	}
	neg := false
	switch op.Op {
	case "post":
		for _, e := range op.Elems {
			neg = neg || anyNeg(e.Pos)
		}
	case "delete":
		neg = anyNeg(op.P)
	case "move":
		neg = anyNeg(op.P, op.Q)
	case "reload":
		for _, b := range op.Blocks {
			neg = neg || anyNeg(b.B)
		}
	case "mutate", "ingest":
		neg = anyNeg(op.B)
	}
	if neg {
		run.Count("ops on negative coordinates")
	}
	if f.crossBlock {
		run.Count("move:cross-block")
	}
	if f.sameBody {
		run.Count("move:same-body")
	}
	if f.kindChange {
		run.Count("post:kind-changing overwrite")
	}
	if f.link {
		run.Count("post:link two elements")
	}
	if f.partner {
		run.Count(op.Op + ":element with relationships")
	}
	if f.dropCarry {
		run.Count("post:drop+add same tag in one block")
	}
	if op.Op == "reload" && op.LowMem {
		run.Count("reload:low-memory variant")
	}
	if op.Op == "reload" && op.Check && !op.LowMem {
		run.Count("reload:checked in-memory variant (check=true)")
	}
	if op.Op == "reload" && op.Check && op.LowMem {
		run.Count("reload:check=true with inmemory=false")
	}
	if f.behind != "" {
		run.Count("reload after block ingest behind the indexes: " + f.behind)
	}
	if f.hostile != "" {
		run.Count("hostile: " + f.hostile)
		if (cls == 1) != (f.hostile != "move with source = destination (no-op)") {
			run.Count("hostile request NOT answered as expected")
		}
	}
}

// runStored re-executes a stored history exactly
func runStored(run *lib.Run, kind string, jc jcase) {
	h := newHist(jc.Paint0)
	h.start(jc.Q0)
	for i := range jc.Ops {
		if h.dead {
			break
		}
		op := &jc.Ops[i]
		cls, ok := h.step(op)
		f := flags{}
		if op.Op == "move" {
			f.crossBlock = blockOf(op.P) != blockOf(op.Q)
		}
		countOp(run, op, cls, f)
		if !ok {
			break
		}
	}
	run.Add(kind, h.term(), jc, opKey(jc.Ops))
}

func runRandom(run *lib.Run, r *lib.Rand, nops int) {
	jc := jcase{Paint0: randomPaint0(r)}
	h := newHist(jc.Paint0)
	g := &gstate{r: r, h: h, fresh: 5000, mutable: []int{-1, 0, 1}}
	h.start(nil)
	for i := 0; i < nops && !h.dead && h.size < histCap; i++ {
		var f flags
		op := g.genOp(&f)
		for n := 1 + r.Intn(2); n > 0; n-- {
			op.Queries = append(op.Queries, g.genQuery())
		}
		cls, ok := h.step(op)
		jc.Ops = append(jc.Ops, *op)
		countOp(run, op, cls, f)
		if !ok {
			break
		}
		if cls == 0 {
			g.apply(op)
		}
	}
	run.Add("history", h.term(), jc, opKey(jc.Ops))
}

func corpus() []jcase {
	pt := []jpaint{{-16, -1, 5}, {0, 7, 1}, {8, 15, 2}, {16, 31, 3}}
	all := pos{-4, -4, -4}
	A0 := elem{Pos: pos{2, 1, 1}, Kind: 1, Tags: []int{1}}
	B0 := elem{Pos: pos{5, 2, 2}, Kind: 2, Tags: []int{1, 2}}
	C0 := elem{Pos: pos{9, 1, 1}, Kind: 1}
	D0 := elem{Pos: pos{12, 3, 3}, Kind: 3, Tags: []int{2}}
	E0 := elem{Pos: pos{20, 1, 1}, Kind: 2, Tags: []int{3}, Prop: 2}
	F0 := elem{Pos: pos{25, 4, 4}, Kind: 4, Tags: []int{3, 1}}
	G0 := elem{Pos: pos{-3, 1, 1}, Kind: 1, Tags: []int{2}}
	return []jcase{
		{Paint0: pt, Ops: []jop{
			{Op: "post", Elems: []elem{{Pos: pos{9, 1, 1}, Kind: 1, Tags: []int{1}}}},
			{Op: "post", Elems: []elem{{Pos: pos{9, 1, 1}, Kind: 1}, {Pos: pos{10, 1, 1}, Kind: 1, Tags: []int{1}}}},
			{Op: "delete", P: pos{9, 1, 1}},
		}},
		{Paint0: pt, Ops: []jop{
			{Op: "post", Elems: []elem{{Pos: pos{1, 2, 2}, Kind: 2, Tags: []int{2}}}},
			{Op: "move", P: pos{1, 2, 2}, Q: pos{3, 2, 2}},
			{Op: "post", Elems: []elem{{Pos: pos{3, 2, 2}, Kind: 1, Tags: []int{2}}}},
			{Op: "post", Elems: []elem{{Pos: pos{9, 2, 2}, Kind: 4}}},
			{Op: "reload", Force: true, Queries: []jquery{
				{Q: "top", I: 5, N: 4},
				{Q: "top", I: 4, N: 4},
				{Q: "thr", I: 5, Thr: 1, Skip: 0, N: 0},
				{Q: "counts", I: 5, Labels: []uint64{1, 2, 3, 5}},
				{Q: "region", Off: all, Size: pos{40, 24, 24}},
				{Q: "blocks", Off: pos{0, 0, 0}, Size: pos{16, 16, 16}},
			}},
			{Op: "reload", LowMem: true, Force: true, Queries: []jquery{{Q: "top", I: 5, N: 4}, {Q: "region", Off: all, Size: pos{40, 24, 24}}}},
		}},
		// (iii) mutual relationship across blocks; the moved element goes to negative coordinates on
		// another body, its partner is then moved within its block, then the first one is deleted
		{Paint0: pt, Ops: []jop{
			{Op: "post", Elems: []elem{
				{Pos: pos{25, 1, 1}, Kind: 2, Rels: []rel{{Rel: 2, To: pos{12, 15, 0}}, {Rel: 4, To: pos{13, 15, 0}}, {Rel: 3, To: pos{12, 15, 0}}}},
				{Pos: pos{12, 15, 0}, Kind: 1, Tags: []int{3}, Rels: []rel{{Rel: 1, To: pos{25, 1, 1}}, {Rel: 4, To: pos{25, 1, 1}}}},
				{Pos: pos{13, 15, 0}, Kind: 4, Rels: []rel{{Rel: 4, To: pos{25, 1, 1}}, {Rel: 0, To: pos{25, 1, 1}}, {Rel: 3, To: pos{25, 1, 1}}}},
				{Pos: pos{30, 2, 2}, Kind: 3, Tags: []int{3}, Rels: []rel{{Rel: 4, To: pos{12, 15, 0}}, {Rel: 2, To: pos{12, 15, 0}}}}}},
			{Op: "post", Elems: []elem{
				{Pos: pos{12, 15, 0}, Kind: 1, Tags: []int{3}, Rels: []rel{{Rel: 1, To: pos{25, 1, 1}}, {Rel: 4, To: pos{25, 1, 1}}, {Rel: 4, To: pos{30, 2, 2}}, {Rel: 1, To: pos{30, 2, 2}}}}}},
			{Op: "move", P: pos{25, 1, 1}, Q: pos{-1, 15, 15}},
			{Op: "move", P: pos{12, 15, 0}, Q: pos{15, 0, 15}},
			{Op: "delete", P: pos{-1, 15, 15}, Queries: []jquery{{Q: "region", Off: all, Size: pos{40, 24, 24}}}},
		}},
		// (iv) a voxel edit of a block whose supervoxels were merged (the block event carries supervoxel ids,
		// the handler must file elements under body labels: repaired by C13-6-fix)
		{Paint0: pt, Ops: []jop{
			{Op: "post", Elems: []elem{{Pos: pos{9, 1, 1}, Kind: 4}}},
			{Op: "merge", Target: 1, Labels: []uint64{2}},
			{Op: "mutate", B: pos{0, 0, 0}, Paint: []jpaint{{0, 7, 1}, {8, 15, 4993}}, Force: true},
		}},
		// (v) ill-formed requests: each must be answered 400 and change nothing (C13-7-fix, C13-8-fix)
		{Paint0: pt, Ops: []jop{
			{Op: "post", Elems: []elem{{Pos: pos{4, 4, 4}, Kind: 2, Tags: []int{1}}, {Pos: pos{20, 4, 4}, Kind: 1, Tags: []int{2}}}},
			{Op: "post", Elems: []elem{{Pos: pos{5, 5, 5}, Kind: 1}, {Pos: pos{6, 5, 5}, Kind: 1}, {Pos: pos{5, 5, 5}, Kind: 2}}},
			{Op: "post", Elems: []elem{{Pos: pos{6, 6, 6}, Kind: 4, Tags: []int{1, 2, 1}}}},
			{Op: "post", Elems: []elem{{Pos: pos{7, 7, 7}, Kind: 3, Rels: []rel{{Rel: 4, To: pos{7, 7, 7}}}}}}, // accepted (upstream fixtures relate elements to themselves)
			{Op: "move", P: pos{7, 7, 7}, Q: pos{27, 7, 7}},                                                    // rejected: the relationship cannot follow
			{Op: "delete", P: pos{7, 7, 7}},
			{Op: "move", P: pos{4, 4, 4}, Q: pos{20, 4, 4}},
			{Op: "move", P: pos{4, 4, 4}, Q: pos{5, 4, 4}},
			{Op: "move", P: pos{5, 4, 4}, Q: pos{20, 4, 4}},
			{Op: "move", P: pos{5, 4, 4}, Q: pos{5, 4, 4}},
			{Op: "post", Elems: []elem{{Pos: pos{8, 8, 8}, Kind: 3, Rels: []rel{{Rel: 4, To: pos{-9, 9, 9}}}}}},
			{Op: "move", P: pos{8, 8, 8}, Q: pos{-9, 9, 9}},
			{Op: "delete", P: pos{8, 8, 8}},
			{Op: "reload", Blocks: []jblock{{B: pos{0, 0, 0}, Elems: []elem{{Pos: pos{5, 4, 4}, Kind: 2, Tags: []int{1}}, {Pos: pos{16, 4, 4}, Kind: 1}}}}},
			{Op: "reload", Blocks: []jblock{{B: pos{0, 0, 0}, Elems: []elem{{Pos: pos{5, 4, 4}, Kind: 2, Tags: []int{1}}, {Pos: pos{5, 4, 4}, Kind: 1}}}}, Force: true},
		}},
		// (vi) body split (labelmap /split enabled through the server configuration): across a block border
		{Paint0: pt, Ops: []jop{
			{Op: "post", Elems: []elem{{Pos: pos{-2, 1, 1}, Kind: 2}, {Pos: pos{-9, 1, 1}, Kind: 1}, {Pos: pos{5, 1, 1}, Kind: 1}, {Pos: pos{2, 15, 0}, Kind: 4}, {Pos: pos{5, 16, 1}, Kind: 3}}},
			{Op: "merge", Target: 1, Labels: []uint64{5}},
			{Op: "split", Target: 1, P: pos{-4, 0, 0}, Q: pos{3, 0, 0}, Force: true},
			{Op: "split", Target: 1, P: pos{5, 0, 0}, Q: pos{5, 0, 0}, Force: true, Queries: []jquery{
				{Q: "roi", Spans: [][4]int{{0, 0, -1, 0}, {1, 0, 0, 0}, {0, 1, -2, 2}}}}},
			{Op: "labels", LabelLists: []jlabels{{L: 1, Elems: []elem{{Pos: pos{-9, 1, 1}, Kind: 1}}}, {L: 0, Elems: []elem{{Pos: pos{1, 1, 1}, Kind: 1}}}}, Force: true},
		}},
		// (vii) cleaves and splits that carry away some, all, none of the target body's annotated points; after
		// each one every label list and count is read again, and a reload (alternating variants) rebuilds them
		{Paint0: pt, Ops: []jop{
			{Op: "post", Elems: []elem{{Pos: pos{9, 1, 1}, Kind: 2, Tags: []int{1}}, {Pos: pos{12, 1, 1}, Kind: 1}, {Pos: pos{20, 1, 1}, Kind: 4},
				{Pos: pos{28, 1, 1}, Kind: 3, Tags: []int{1}}, {Pos: pos{-3, 1, 1}, Kind: 2}, {Pos: pos{-12, 15, 15}, Kind: 1, Tags: []int{2}}}},
			{Op: "merge", Target: 1, Labels: []uint64{2, 3}, Force: true},
			{Op: "cleave", Target: 1, Labels: []uint64{3}, Force: true, Queries: []jquery{{Q: "top", I: 5, N: 6}}}, // some of body 1's points move
			{Op: "reload", Force: true},
			{Op: "cleave", Target: 1, Labels: []uint64{2}, Force: true, Queries: []jquery{{Q: "top", I: 5, N: 6}, {Q: "thr", I: 4, Thr: 1}}}, // all remaining points move
			{Op: "reload", LowMem: true, Force: true},
			{Op: "merge", Target: 5, Labels: []uint64{1}, Force: true},
			{Op: "cleave", Target: 5, Labels: []uint64{1}, Force: true, Queries: []jquery{{Q: "top", I: 5, N: 6}}}, // none moves
			{Op: "reload", Force: true},
			{Op: "split", Target: 5, P: pos{-8, 0, 0}, Q: pos{-1, 0, 0}, Force: true},   // some
			{Op: "split", Target: 5, P: pos{-14, 0, 0}, Q: pos{-10, 0, 0}, Force: true}, // all remaining
			{Op: "reload", LowMem: true, Force: true},
			{Op: "split", Target: 5, P: pos{-16, 0, 0}, Q: pos{-16, 0, 0}, Force: true, Queries: []jquery{{Q: "top", I: 5, N: 6}}}, // none
			{Op: "reload", Force: true},
		}},
		// (viii) block ingest that changes elements behind the tag/label indexes, one narrow change at a time,
		// each followed by a reload (check=true in memory, check=true with inmemory=false, plain, low
		// memory): an element gains a tag and keeps its old ones (with and without old tags), loses one of
		// two tags, changes only Kind, only Prop, the block list is reordered; every tag and body keeps an
		// element throughout, so the checked reload too must leave exact views
		{Paint0: pt, Ops: []jop{
			{Op: "post", Elems: []elem{A0, B0, C0, D0, E0, F0, G0}},
			{Op: "reload", Check: true, Force: true, Blocks: []jblock{{B: pos{0, 0, 0}, Elems: []elem{
				{Pos: pos{2, 1, 1}, Kind: 1, Tags: []int{1, 3}}, B0, C0, D0}}}},
			{Op: "reload", Check: true, Force: true, Blocks: []jblock{{B: pos{0, 0, 0}, Elems: []elem{
				{Pos: pos{2, 1, 1}, Kind: 1, Tags: []int{1, 3}}, B0, {Pos: pos{9, 1, 1}, Kind: 1, Tags: []int{4}}, D0}}}},
			{Op: "reload", Check: true, Force: true, Blocks: []jblock{{B: pos{0, 0, 0}, Elems: []elem{
				{Pos: pos{2, 1, 1}, Kind: 1, Tags: []int{1, 3}}, {Pos: pos{5, 2, 2}, Kind: 2, Tags: []int{1}}, {Pos: pos{9, 1, 1}, Kind: 1, Tags: []int{4}}, D0}}}},
			{Op: "reload", Check: true, Force: true, Blocks: []jblock{{B: pos{1, 0, 0}, Elems: []elem{
				{Pos: pos{20, 1, 1}, Kind: 1, Tags: []int{3}, Prop: 2}, {Pos: pos{25, 4, 4}, Kind: 4, Tags: []int{3, 1}, Prop: 5}}}}},
			{Op: "reload", Check: true, Force: true, Blocks: []jblock{{B: pos{0, 0, 0}, Elems: []elem{
				D0, {Pos: pos{9, 1, 1}, Kind: 1, Tags: []int{4}}, {Pos: pos{5, 2, 2}, Kind: 2, Tags: []int{1}}, {Pos: pos{2, 1, 1}, Kind: 1, Tags: []int{1, 3}}}}}},
			{Op: "reload", Check: true, LowMem: true, Force: true, Blocks: []jblock{{B: pos{1, 0, 0}, Elems: []elem{
				{Pos: pos{20, 1, 1}, Kind: 1, Tags: []int{2, 3}, Prop: 2}, {Pos: pos{25, 4, 4}, Kind: 4, Tags: []int{3, 1}, Prop: 5}}}}},
			{Op: "reload", Force: true, Blocks: []jblock{{B: pos{-1, 0, 0}, Elems: []elem{{Pos: pos{-3, 1, 1}, Kind: 1, Tags: []int{2, 4}}}}}},
			{Op: "reload", LowMem: true, Force: true, Blocks: []jblock{{B: pos{-1, 0, 0}, Elems: []elem{{Pos: pos{-3, 1, 1}, Kind: 3, Tags: []int{4}}}}}},
			{Op: "reload", Check: true, Force: true, Blocks: []jblock{{B: pos{-1, 0, 0}, Elems: []elem{{Pos: pos{-3, 1, 1}, Kind: 3, Tags: []int{4, 1}, Prop: 7}}}},
				Queries: []jquery{{Q: "top", I: 5, N: 6}, {Q: "region", Off: all, Size: pos{40, 24, 24}}}},
		}},
	}
}

func main() {
	o := lib.ParseOpts()
	rng := lib.NewRand(o.Seed)
	run := lib.NewRun("C13", o)
	run.Header("From DV Require Import Base.Prelude Model.Annot Model.AnnotRun.", "Local Open Scope Z_scope.")
	t0 := time.Now()
	dv.Quiet()
	dv.Open()
	defer dv.Close()
	// the labelmap /split endpoint is off unless the server configuration allows it
	cfgFile := os.TempDir() + "/c13-server.toml"
	if err := os.WriteFile(cfgFile, []byte("[server]\nallowLabelmapSplit = true\n"), 0o644); err != nil {
		fatal("can't write %s: %v", cfgFile, err)
	}
	if err := server.LoadConfig(cfgFile); err != nil || !server.AllowLabelmapSplit() {
		fatal("can't enable labelmap split: %v", err)
	}

	rule := "distinct op sequences"
	if o.Replay != "" {
		var jc jcase
		if err := lib.LoadReplay(o.Replay, &jc); err != nil {
			fmt.Fprintln(os.Stderr, err)
			dv.Close()
			os.Exit(2)
		}
		if jc.Kind == "big-reload" {
			runBig(run, rng)
		} else {
			runStored(run, "history", jc)
		}
	} else {
		n := 17
		if o.Thorough() {
			n = 124
		}
		if o.N > 0 {
			n = o.N
		}
		for i, jc := range corpus() {
			if i < n {
				runStored(run, "history", jc)
			}
		}
		for i := len(corpus()); i < n; i++ {
			runRandom(run, rng, 13+rng.Intn(5))
		}
		runBig(run, rng)
	}
	run.Finish("c13case", rule, tail)
	if st, err := os.Stat(o.OutDir + "/cases_C13.v"); err == nil {
		fmt.Fprintf(os.Stderr, "c13: %d histories, cases file %d bytes, %.1f s\n", run.Len(), st.Size(), time.Since(t0).Seconds())
	}
}

const tail = "Definition spec_fail := Eval vm_compute in c13_spec_fail cases.\nDefinition model_mismatch := Eval vm_compute in c13_model_mismatch cases."
