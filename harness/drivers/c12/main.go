// Driver C12: identifiers issued by a real DVID child process across restarts and crashes.
//
//	mutid   mutation ids (Data.NewMutationID, the function behind every MutationID a response carries)
//	        with idle kills, kills at the stride write (before / after), restarts, killed restarts
//	labels  labelmap POST nextlabel/<n>, POST maxlabel/<n>, POST blocks (solid blocks), kills inside an
//	        allocation after k of its persistence writes, idle kills, restarts
//	race    POST blocks immediately followed by POST nextlabel (no waiting for the background update)
//	ids     repo / version / instance ids across kills, restarts and crashes at id-persistence writes
package main

import (
	"bytes"
	"compress/gzip"
	"encoding/binary"
	"encoding/json"
	"fmt"
	"io"
	"log"
	"os"
	"sort"
	"strings"
	"time"

	"github.com/janelia-flyem/dvid/datatype/common/labels"
	"github.com/janelia-flyem/dvid/datatype/common/proto"
	"github.com/janelia-flyem/dvid/dvid"
	pb "google.golang.org/protobuf/proto"

	"verif/harness/dvh"
	"verif/harness/lib"
)

type fatalErr string

// fatal aborts the current execution of a history (robust() re-executes it) or, outside one, the driver.
func fatal(f string, a ...interface{}) { panic(fatalErr(fmt.Sprintf(f, a...))) }

const initialMutID = 1000000000

type ev struct {
	K     string   `json:"k"` // see each part
	N     uint64   `json:"n,omitempty"`
	V     int      `json:"v,omitempty"`
	After bool     `json:"after,omitempty"`
	W     int      `json:"w,omitempty"`
	Start uint64   `json:"start,omitempty"`
	BMs   []uint64 `json:"bms,omitempty"`
	Ls    []uint64 `json:"ls,omitempty"` // lmmerge: target then merged bodies; cleave: body then supervoxels
	// splitsv: Ls = supervoxel, split label, remain label (0 = the server allocates it); renumber: Ls = new, old
	// index: Ls = body label then its supervoxels; indices: one [body label, supervoxels...] per entry
	Batch [][]uint64 `json:"batch,omitempty"`
}

type jcase struct {
	Kind string `json:"kind"` // mutid | labels | race | ids
	Evs  []ev   `json:"evs"`
	// server configuration of every start of an ids history (datastore.Config.InstanceStart, the
	// "instance_id_start" of the TOML file); 0 = not configured.  A restart event may carry its own.
	InstStart uint64 `json:"inststart,omitempty"`
	// set when executions of this history disagreed: the Coq term of the first execution
	FirstOutcome string `json:"first_outcome,omitempty"`
}

// outcome of one execution of a history on a fresh directory
type outcome struct {
	kind, term, key string
	counts          map[string]int
}

// robust: histories with process kills are executed twice on fresh directories.  Identifiers are a
// deterministic function of the history, so two executions agree unless the storage engine lost a
// write that it had acknowledged just before a kill (harness/cmd/killcycle); then a third execution
// decides (2 of 3), and a history is reported as first observed only if it is reproduced.
func robust(run *lib.Run, c jcase, f func(jcase) outcome) {
	try := func() (o outcome, ok bool) {
		defer func() {
			if e := recover(); e != nil {
				if fe, isFatal := e.(fatalErr); isFatal {
					run.Dist["aborted-executions"]++
					run.Notes = append(run.Notes, "execution aborted: "+string(fe))
					ok = false
					return
				}
				panic(e)
			}
		}()
		return f(c), true
	}
	var outs []outcome
	var pick *outcome
	for attempt := 0; attempt < 6 && pick == nil; attempt++ {
		o, ok := try()
		if !ok {
			continue
		}
		for i := range outs {
			if outs[i].term == o.term {
				pick = &outs[i]
			}
		}
		outs = append(outs, o)
	}
	if len(outs) == 0 {
		last := ""
		if len(run.Notes) > 0 {
			last = run.Notes[len(run.Notes)-1]
		}
		b, _ := json.Marshal(c)
		fmt.Fprintf(os.Stderr, "c12: no execution of a history completed (%s): %s\n", last, b)
		os.Exit(3)
	}
	if pick == nil {
		run.Dist["nondeterministic-histories"]++
		pick = &outs[0]
	}
	if len(outs) > 2 || run.Dist["aborted-executions"] > 0 && len(outs) >= 2 && outs[0].term != pick.term {
		run.Dist["retries"] += len(outs) - 2
	}
	if outs[0].term != pick.term {
		run.Dist["flaky_crash_points"]++
		c.FirstOutcome = outs[0].term
	} else if len(outs) > 2 {
		run.Dist["flaky_crash_points"]++
	}
	for k, v := range pick.counts {
		run.Dist[k] += v
	}
	run.Add(pick.kind, pick.term, c, pick.key)
}

// Round 4: histories with kills INSIDE an ingest and inside POST maxlabel, over the alphabet of the repaired
// machine (coq/Model/IDsR.v).  events: alloc(N) | ingest(BMs) [complete] | ingestkill(N = label of one solid
// block, above every label so far; W = k, After: die before/after the k-th data write of POST blocks) |
// setmaxkill(N, W, After) | indexkill(N = body label, W, After: POST index/<N>, probe only) | crash | restart.
// After a kill the process is restarted and the volume is READ BACK (GET label at a voxel of the block / GET
// index): a label found there is recorded with the number of allocation requests issued so far; every later
// allocation must be above it.
func runKills(c jcase) outcome {
	counts := map[string]int{}
	dir := freshDir()
	defer os.RemoveAll(dir)
	p := mustStart(dvh.Opts{Dir: dir})
	root := newRepo(p, "r1")
	if st, body, _ := p.PostJSON("/api/repo/"+root+"/instance", map[string]string{"typename": "labelmap", "dataname": "lm"}); st != 200 {
		fatal("labelmap instance: %s", body)
	}
	var lev, obs, stored []string
	nreq := 0
	up := true
	z := int32(0)
	done := func(k int, after bool) int { // data writes completed when the process died
		if after {
			return k
		}
		return k - 1
	}
	restart := func() {
		p = mustStart(dvh.Opts{Dir: dir})
		up = true
		lev = append(lev, "RE LRestart")
	}
	plan := func(k int, after bool) {
		mode := "before"
		if after {
			mode = "after"
		}
		p.Plan(fmt.Sprintf("data:+%d:%s", k, mode))
	}
	for _, e := range c.Evs {
		switch e.K {
		case "alloc":
			if !up {
				continue
			}
			st, body, alive := p.Post(fmt.Sprintf("/api/node/%s/lm/nextlabel/%d", root, e.N), nil)
			if !alive {
				fatal("child died in nextlabel: %s", p.Stderr)
			}
			var r struct{ Start, End uint64 }
			json.Unmarshal(body, &r)
			lev = append(lev, fmt.Sprintf("RE (LAlloc 1 %d)", e.N))
			if e.N > 0 {
				nreq++
				if st == 200 {
					obs = append(obs, fmt.Sprintf("Some (%d, %d)", r.Start, r.End))
				} else {
					obs = append(obs, "None")
				}
			}
		case "ingest":
			if !up {
				continue
			}
			st, body, alive := p.Post("/api/node/"+root+"/lm/blocks", solidBlocks(e.BMs, z))
			z++
			if !alive || st != 200 {
				fatal("POST blocks: %d %s %s", st, body, p.Stderr)
			}
			lev = append(lev, fmt.Sprintf("RE (LIngest 1 %s)", lib.CoqNList(e.BMs)))
			for range e.BMs {
				lev = append(lev, "RE (LBgRead 0)", "RE (LBgWrite 0)")
			}
		case "ingestkill":
			if !up {
				continue
			}
			plan(e.W, e.After)
			if _, _, alive := p.Post("/api/node/"+root+"/lm/blocks", solidBlocks([]uint64{e.N}, z)); alive {
				fatal("POST blocks survived its planned crash (data:+%d)", e.W)
			}
			up = false
			lev = append(lev, fmt.Sprintf("RE (LIngest 1 [%d])", e.N), "RE (LBgRead 0)")
			// the label is above every maximum: the update does both Puts (MaxLabel[v], MaxRepoLabel), the
			// third data write is the block
			if d := done(e.W, e.After); d <= 2 {
				lev = append(lev, fmt.Sprintf("RWriteCrash 0 %d", d))
			} else {
				lev = append(lev, "RE (LBgWrite 0)", "RE LCrash")
			}
			restart()
			_, body, _ := p.Get(fmt.Sprintf("/api/node/%s/lm/label/1_1_%d", root, z*64+1))
			var r struct{ Label uint64 }
			json.Unmarshal(body, &r)
			if r.Label == e.N {
				stored = append(stored, fmt.Sprintf("(%d, %d%%nat)", e.N, nreq))
				counts["killed-ingest-block-stored"]++
			} else {
				counts["killed-ingest-block-not-stored"]++
			}
			z++
		case "setmaxkill":
			if !up {
				continue
			}
			plan(e.W, e.After)
			if _, _, alive := p.Post(fmt.Sprintf("/api/node/%s/lm/maxlabel/%d", root, e.N), nil); alive {
				fatal("POST maxlabel survived its planned crash")
			}
			up = false
			lev = append(lev, fmt.Sprintf("RSetMaxCrash 1 %d %d", e.N, done(e.W, e.After)))
			counts["killed-maxlabel-posts"]++
			restart()
		case "indexkill":
			// POST index/<label> killed at its k-th data write.  Events as the REPAIRED order would produce them
			// (maximum raised first, then the index written): see repo_patches/C12-2-fix.diff
			if !up {
				continue
			}
			idx := &proto.LabelIndex{Label: e.N, Blocks: map[uint64]*proto.SVCount{}}
			idx.Blocks[labels.EncodeBlockIndex(int32(z), 7, 7)] = &proto.SVCount{Counts: map[uint64]uint32{e.N: 10}}
			z++
			ser, _ := pb.Marshal(idx)
			plan(e.W, e.After)
			if _, _, alive := p.Post(fmt.Sprintf("/api/node/%s/lm/index/%d", root, e.N), ser); alive {
				fatal("POST index survived its planned crash")
			}
			up = false
			if d := done(e.W, e.After); d <= 2 {
				lev = append(lev, fmt.Sprintf("RSetMaxCrash 1 %d %d", e.N, d))
			} else {
				lev = append(lev, fmt.Sprintf("RE (LSetMax 1 %d)", e.N), "RE LCrash")
			}
			restart()
			if st, body, _ := p.Get(fmt.Sprintf("/api/node/%s/lm/index/%d", root, e.N)); st == 200 && len(body) > 0 {
				var got proto.LabelIndex
				if pb.Unmarshal(body, &got) == nil && len(got.Blocks) > 0 {
					stored = append(stored, fmt.Sprintf("(%d, %d%%nat)", e.N, nreq))
					counts["killed-index-stored"]++
				}
			}
		case "crash":
			if up {
				kill(p)
				up = false
				lev = append(lev, "RE LCrash")
			}
		case "restart":
			if !up {
				restart()
			}
		}
	}
	if up {
		p.Quit()
	}
	counts["label-ranges"] += len(obs)
	return outcome{"kills", fmt.Sprintf("(CKill [%s] [%s] [%s])", strings.Join(lev, "; "), strings.Join(obs, "; "), strings.Join(stored, "; ")),
		fmt.Sprintf("kills/%d/%d/%d", len(lev), len(obs), len(stored)), counts}
}

// kills inside ingests / maxlabel posts at every write position, each followed by allocations
func genKills(rng *lib.Rand) jcase {
	c := jcase{Kind: "kills"}
	top := uint64(0) // upper bound of every label in use or handed out so far
	n := 4 + rng.Intn(5)
	for i := 0; i < n; i++ {
		switch rng.Intn(6) {
		case 0:
			k := uint64(1 + rng.Intn(9))
			c.Evs = append(c.Evs, ev{K: "alloc", N: k})
			top += k
		case 1:
			var bms []uint64
			for j := 1 + rng.Intn(3); j > 0; j-- {
				bms = append(bms, 1+uint64(rng.Intn(int(top)+40)))
			}
			c.Evs = append(c.Evs, ev{K: "ingest", BMs: bms})
			for _, b := range bms {
				top = maxU(top, b)
			}
		case 2:
			l := top + 1 + uint64(rng.Intn(50))
			c.Evs = append(c.Evs, ev{K: "setmaxkill", N: l, W: 1 + rng.Intn(2), After: rng.Intn(2) == 0})
			top = l
			c.Evs = append(c.Evs, ev{K: "alloc", N: 1})
			top++
		case 3:
			c.Evs = append(c.Evs, ev{K: "crash"}, ev{K: "restart"})
		default:
			l := top + 1 + uint64(rng.Intn(50))
			c.Evs = append(c.Evs, ev{K: "ingestkill", N: l, W: 1 + rng.Intn(4), After: rng.Intn(2) == 0})
			top = l
			k := uint64(1 + rng.Intn(3))
			c.Evs = append(c.Evs, ev{K: "alloc", N: k})
			top += k
		}
	}
	c.Evs = append(c.Evs, ev{K: "alloc", N: 2})
	return c
}

func freshDir() string {
	d, err := os.MkdirTemp("", "c12")
	if err != nil {
		fatal("%v", err)
	}
	return d
}

func mustStart(o dvh.Opts) *dvh.Proc {
	p, err := dvh.Start(o)
	if err != nil {
		fatal("child did not start: %v", err)
	}
	return p
}

func newRepo(p *dvh.Proc, alias string) string {
	_, body, _ := p.PostJSON("/api/repos", map[string]string{"alias": alias})
	var m struct{ Root string }
	json.Unmarshal(body, &m)
	if m.Root == "" {
		fatal("new repo failed: %s", body)
	}
	return m.Root
}

func rootOf(p *dvh.Proc) string {
	_, body, _ := p.Get("/api/repos/info")
	var infos map[string]struct{ Alias string }
	json.Unmarshal(body, &infos)
	for u, ri := range infos {
		if ri.Alias == "r1" {
			return u
		}
	}
	return ""
}

// ---------- mutation ids ----------
// events: alloc (N times) | crash | alloccrash(after) | restart(start) | restartcrash(start, after)
func runMutid(c jcase) outcome {
	counts := map[string]int{}
	dir := freshDir()
	defer os.RemoveAll(dir)
	p := mustStart(dvh.Opts{Dir: dir})
	root := newRepo(p, "r1")
	p.PostJSON("/api/repo/"+root+"/instance", map[string]string{"typename": "keyvalue", "dataname": "kv"})
	var ids []uint64
	var mev []string
	up := true
	for _, e := range c.Evs {
		switch e.K {
		case "alloc":
			for i := uint64(0); i < e.N && up; i++ {
				r, alive := p.Call("mutid", root, "kv")
				if !alive {
					fatal("child died in a plain allocation: %s", p.Stderr)
				}
				ids = append(ids, r.N)
				mev = append(mev, "MAlloc")
			}
		case "alloccrash":
			// allocate until the stride write kills the child
			if !up {
				continue
			}
			mode := "before"
			if e.After {
				mode = "after"
			}
			p.Plan("meta:+1:" + mode)
			for i := 0; i < 250; i++ {
				r, alive := p.Call("mutid", root, "kv")
				if !alive {
					mev = append(mev, fmt.Sprintf("MAllocCrash %s", lib.CoqBool(e.After)))
					up = false
					break
				}
				ids = append(ids, r.N)
				mev = append(mev, "MAlloc")
			}
			if up {
				fatal("stride write never came")
			}
		case "crash":
			if up {
				kill(p)
				up = false
				mev = append(mev, "MCrash")
			}
		case "restart":
			if up {
				continue
			}
			p = mustStart(dvh.Opts{Dir: dir, MutStart: e.Start})
			up = true
			mev = append(mev, fmt.Sprintf("MRestart %d", maxU(e.Start, initialMutID)))
		case "restartcrash":
			if up {
				continue
			}
			mode := "before"
			if e.After {
				mode = "after"
			}
			// the restart's only metadata write here is initMutationID's
			if _, err := dvh.Start(dvh.Opts{Dir: dir, MutStart: e.Start, Crash: "meta:1:" + mode}); err == nil {
				fatal("restart survived its planned crash")
			}
			mev = append(mev, fmt.Sprintf("MRestartCrash %d %s", maxU(e.Start, initialMutID), lib.CoqBool(e.After)))
		}
	}
	if up {
		p.Quit()
	}
	counts["mutid-issued"] += len(ids)
	return outcome{"mutid", fmt.Sprintf("(CMut [%s] %s)", strings.Join(mev, "; "), lib.CoqNList(ids)), fmt.Sprintf("mutid/%d/%d", len(mev), len(ids)), counts}
}

// kill: SIGKILL while idle.  The child is given a moment after its last answer: badger was seen to
// leave an unopenable store when killed in the instant after it came up (harness/cmd/killcycle),
// which is the storage engine's business, not the property's.
func kill(p *dvh.Proc) {
	p.Get("/api/server/info")
	time.Sleep(5 * time.Millisecond)
	p.Kill()
}

func maxU(a, b uint64) uint64 {
	if a > b {
		return a
	}
	return b
}

// ---------- labels ----------
func solidBlocks(bms []uint64, z0 int32) []byte {
	var buf bytes.Buffer
	for i, l := range bms {
		b := labels.MakeSolidBlock(l, dvid.Point3d{64, 64, 64})
		ser, _ := b.MarshalBinary()
		var gz bytes.Buffer
		w := gzip.NewWriter(&gz)
		w.Write(ser)
		w.Close()
		binary.Write(&buf, binary.LittleEndian, int32(i))
		binary.Write(&buf, binary.LittleEndian, int32(0))
		binary.Write(&buf, binary.LittleEndian, z0)
		binary.Write(&buf, binary.LittleEndian, int32(gz.Len()))
		buf.Write(gz.Bytes())
	}
	return buf.Bytes()
}

// sparse volume: the first `rows` rows (y) of the lowest z slice of the solid block at (bx, 0, bz)
func sparseRows(bx, bz int32, rows int) []byte {
	var buf bytes.Buffer
	buf.Write([]byte{0, 3, 0, 0})
	binary.Write(&buf, binary.LittleEndian, uint32(0))
	binary.Write(&buf, binary.LittleEndian, uint32(rows))
	for y := 0; y < rows; y++ {
		binary.Write(&buf, binary.LittleEndian, bx*64)
		binary.Write(&buf, binary.LittleEndian, int32(y))
		binary.Write(&buf, binary.LittleEndian, bz*64)
		binary.Write(&buf, binary.LittleEndian, int32(64))
	}
	return buf.Bytes()
}

type rng2 struct{ B, E uint64 }

func nextLabel(p *dvh.Proc, root string, n uint64) (rng2, int, bool) {
	st, body, alive := p.Post(fmt.Sprintf("/api/node/%s/lm/nextlabel/%d", root, n), nil)
	var r struct{ Start, End uint64 }
	json.Unmarshal(body, &r)
	return rng2{r.Start, r.End}, st, alive
}

func peekNext(p *dvh.Proc, root string) uint64 {
	_, body, _ := p.Get("/api/node/" + root + "/lm/nextlabel")
	var r struct{ Nextlabel uint64 }
	json.Unmarshal(body, &r)
	return r.Nextlabel
}

// events: alloc(N) | alloccrash(N, W = persistence writes done: 0,1,2) | ingest(BMs) [waits until settled]
//
//	| setmax(N) | crash | restart | newchild (commit the current version, continue at a new child)
//	| lmmerge(Ls = target, merged...) | cleave(Ls = body, supervoxels...)
//
// All label requests go to the CURRENT version (the newest node of a linear chain).
func runLabels(c jcase) outcome {
	counts := map[string]int{}
	dir := freshDir()
	defer os.RemoveAll(dir)
	p := mustStart(dvh.Opts{Dir: dir})
	root := newRepo(p, "r1")
	if st, body, _ := p.PostJSON("/api/repo/"+root+"/instance", map[string]string{"typename": "labelmap", "dataname": "lm"}); st != 200 {
		fatal("labelmap instance: %s", body)
	}
	var lev, obs []string
	up := true
	z := int32(0)
	blkOf := map[uint64][2]int32{} // ingested supervoxel -> block x index, block z index
	cur, curV := root, 1           // uuid and version id of the current version
	leaf := func() (string, int) {
		_, body, _ := p.Get("/api/repos/info")
		var infos map[string]struct {
			DAG struct {
				Nodes map[string]struct {
					UUID      string
					VersionID int
				}
			}
		}
		json.Unmarshal(body, &infos)
		u, v := cur, curV
		for _, ri := range infos {
			for _, n := range ri.DAG.Nodes {
				if n.VersionID > v {
					u, v = n.UUID, n.VersionID
				}
			}
		}
		return u, v
	}
	// a request that was refused may have drawn labels before it failed: they are allocations (handed to
	// nobody), seen as the advance of GET nextlabel
	consumed := func(before uint64) {
		after := peekNext(p, cur)
		for l := before; before != 0 && l < after; l++ {
			lev = append(lev, fmt.Sprintf("LAlloc %d 1", curV))
			obs = append(obs, fmt.Sprintf("Some (%d, %d)", l, l))
		}
	}
	for _, e := range c.Evs {
		switch e.K {
		case "alloc":
			if !up {
				continue
			}
			st, body, alive := p.Post(fmt.Sprintf("/api/node/%s/lm/nextlabel/%d", cur, e.N), nil)
			if !alive {
				fatal("child died in nextlabel: %s", p.Stderr)
			}
			var r struct{ Start, End uint64 }
			json.Unmarshal(body, &r)
			lev = append(lev, fmt.Sprintf("LAlloc %d %d", curV, e.N))
			if e.N > 0 {
				if st == 200 {
					obs = append(obs, fmt.Sprintf("Some (%d, %d)", r.Start, r.End))
				} else {
					obs = append(obs, "None") // refused
				}
			}
		case "alloccrash":
			if !up || e.N == 0 {
				continue
			}
			switch e.W {
			case 0:
				p.Plan("data:+1:before")
			case 1:
				p.Plan("data:+1:after")
			default:
				p.Plan("data:+2:after")
			}
			if _, _, alive := p.Post(fmt.Sprintf("/api/node/%s/lm/nextlabel/%d", cur, e.N), nil); alive {
				fatal("nextlabel survived its planned crash")
			}
			up = false
			lev = append(lev, fmt.Sprintf("LAllocCrash %d %d %d", curV, e.N, e.W))
		case "ingest":
			if !up {
				continue
			}
			before := peekNext(p, cur)
			var mx uint64
			for _, b := range e.BMs {
				mx = maxU(mx, b)
			}
			st, body, alive := p.Post("/api/node/"+cur+"/lm/blocks", solidBlocks(e.BMs, z))
			for i, b := range e.BMs {
				blkOf[b] = [2]int32{int32(i), z}
			}
			z++
			if !alive || st != 200 {
				fatal("POST blocks: %d %s %s", st, body, p.Stderr)
			}
			// settle: wait for the background max-label goroutines
			for i := 0; i < 400; i++ {
				if mx < before || peekNext(p, cur) > mx {
					break
				}
				time.Sleep(5 * time.Millisecond)
			}
			time.Sleep(20 * time.Millisecond)
			lev = append(lev, fmt.Sprintf("LIngest %d %s", curV, lib.CoqNList(e.BMs)))
			for range e.BMs {
				lev = append(lev, "LBgRead 0", "LBgWrite 0")
			}
		case "setmax":
			if !up {
				continue
			}
			p.Post(fmt.Sprintf("/api/node/%s/lm/maxlabel/%d", cur, e.N), nil)
			lev = append(lev, fmt.Sprintf("LSetMax %d %d", curV, e.N))
		case "index", "indices":
			// label indices posted directly (POST index/<label>, POST indices): every body label they
			// introduce is a label of the volume from then on
			if !up {
				continue
			}
			mk := func(ent []uint64) *proto.LabelIndex {
				idx := &proto.LabelIndex{Label: ent[0], Blocks: map[uint64]*proto.SVCount{}}
				svc := &proto.SVCount{Counts: map[uint64]uint32{}}
				for _, sv := range ent[1:] {
					svc.Counts[sv] = 10
				}
				idx.Blocks[labels.EncodeBlockIndex(int32(z), 7, 7)] = svc
				return idx
			}
			z++
			if e.K == "index" {
				if len(e.Ls) < 2 {
					continue
				}
				ser, _ := pb.Marshal(mk(e.Ls))
				if st, _, _ := p.Post(fmt.Sprintf("/api/node/%s/lm/index/%d", cur, e.Ls[0]), ser); st == 200 {
					lev = append(lev, fmt.Sprintf("LSetMax %d %d", curV, e.Ls[0]))
				}
			} else {
				batch := &proto.LabelIndices{}
				var mx uint64
				for _, ent := range e.Batch {
					if len(ent) >= 2 {
						batch.Indices = append(batch.Indices, mk(ent))
						mx = maxU(mx, ent[0])
					}
				}
				ser, _ := pb.Marshal(batch)
				if st, _, _ := p.Post("/api/node/"+cur+"/lm/indices", ser); st == 200 && len(batch.Indices) > 0 {
					lev = append(lev, fmt.Sprintf("LSetMax %d %d", curV, mx))
				}
			}
		case "splitsv":
			// split of an ingested supervoxel; the CALLER may choose the split label, the remain label,
			// both or neither: a chosen label is a label of the volume from then on, the others are allocated
			if !up || len(e.Ls) != 3 {
				continue
			}
			bc, ok := blkOf[e.Ls[0]]
			if !ok {
				continue
			}
			url := fmt.Sprintf("/api/node/%s/lm/split-supervoxel/%d", cur, e.Ls[0])
			sep := "?"
			if e.Ls[1] != 0 {
				url += fmt.Sprintf("%ssplit=%d", sep, e.Ls[1])
				sep = "&"
			}
			if e.Ls[2] != 0 {
				url += fmt.Sprintf("%sremain=%d", sep, e.Ls[2])
			}
			before := peekNext(p, cur)
			st, body, alive := p.Post(url, sparseRows(bc[0], bc[1], 4))
			if !alive {
				fatal("child died in split-supervoxel: %s", p.Stderr)
			}
			if st == 200 {
				var r struct{ SplitSupervoxel, RemainSupervoxel uint64 }
				json.Unmarshal(body, &r)
				// SplitSupervoxel (mutate.go): the labels the client chose are registered first (split, then
				// remain), the missing ones are drawn afterwards (split, then remain) -- a drawn label is
				// above both chosen ones
				got := []uint64{r.SplitSupervoxel, r.RemainSupervoxel}
				for k := range got {
					if e.Ls[1+k] != 0 {
						if got[k] != e.Ls[1+k] {
							fatal("split-supervoxel %v answered %s", e.Ls, body)
						}
						lev = append(lev, fmt.Sprintf("LSetMax %d %d", curV, got[k]))
					}
				}
				for k := range got {
					if e.Ls[1+k] == 0 {
						lev = append(lev, fmt.Sprintf("LAlloc %d 1", curV))
						obs = append(obs, fmt.Sprintf("Some (%d, %d)", got[k], got[k]))
					}
				}
				delete(blkOf, e.Ls[0])
			} else {
				consumed(before)
			}
		case "renumber":
			// a body takes a label chosen by the caller
			if !up || len(e.Ls) != 2 {
				continue
			}
			if st, _, _ := p.PostJSON("/api/node/"+cur+"/lm/renumber", e.Ls); st == 200 {
				lev = append(lev, fmt.Sprintf("LSetMax %d %d", curV, e.Ls[0]))
			}
		case "newchild":
			if !up {
				continue
			}
			p.PostJSON("/api/node/"+cur+"/commit", map[string]string{"note": "c"})
			p.PostJSON("/api/node/"+cur+"/newversion", map[string]string{"note": "v"})
			cur, curV = leaf()
		case "lmmerge":
			if !up || len(e.Ls) < 2 {
				continue
			}
			// merging stores the target's label index, which records the target as a label of this version
			if st, _, _ := p.PostJSON("/api/node/"+cur+"/lm/merge", e.Ls); st == 200 {
				lev = append(lev, fmt.Sprintf("LSetMax %d %d", curV, e.Ls[0]))
			}
		case "cleave":
			if !up || len(e.Ls) < 2 {
				continue
			}
			before := peekNext(p, cur)
			st, body, _ := p.PostJSON(fmt.Sprintf("/api/node/%s/lm/cleave/%d", cur, e.Ls[0]), e.Ls[1:])
			if st == 200 {
				var r struct{ CleavedLabel uint64 }
				json.Unmarshal(body, &r)
				// the cleaved body gets a new label (an allocation), then both indices are stored
				lev = append(lev, fmt.Sprintf("LAlloc %d 1", curV), fmt.Sprintf("LSetMax %d %d", curV, r.CleavedLabel), fmt.Sprintf("LSetMax %d %d", curV, e.Ls[0]))
				obs = append(obs, fmt.Sprintf("Some (%d, %d)", r.CleavedLabel, r.CleavedLabel))
			} else {
				consumed(before)
			}
		case "crash":
			if up {
				kill(p)
				up = false
				lev = append(lev, "LCrash")
			}
		case "restart":
			if !up {
				p = mustStart(dvh.Opts{Dir: dir})
				up = true
				lev = append(lev, "LRestart")
			}
		}
	}
	if up {
		p.Quit()
	}
	counts["label-ranges"] += len(obs)
	counts["label-versions"] += curV
	return outcome{"labels", fmt.Sprintf("(CLab [%s] [%s])", strings.Join(lev, "; "), strings.Join(obs, "; ")), fmt.Sprintf("labels/%d/%d", len(lev), len(obs)), counts}
}

// race probe: ingest N solid blocks whose labels exceed everything so far, ask for a label at once
func runRace(run *lib.Run, c jcase) {
	dir := freshDir()
	defer os.RemoveAll(dir)
	p := mustStart(dvh.Opts{Dir: dir})
	root := newRepo(p, "r1")
	p.PostJSON("/api/repo/"+root+"/instance", map[string]string{"typename": "labelmap", "dataname": "lm"})
	var rounds []string
	hits := 0
	z := int32(0)
	for _, e := range c.Evs {
		st, _, alive := p.Post("/api/node/"+root+"/lm/blocks", solidBlocks(e.BMs, z))
		z++
		if !alive || st != 200 {
			fatal("POST blocks in race probe")
		}
		r, _, _ := nextLabel(p, root, 1)
		var mx uint64
		for _, b := range e.BMs {
			mx = maxU(mx, b)
		}
		if r.B <= mx {
			hits++
		}
		rounds = append(rounds, fmt.Sprintf("(%d, %d)", mx, r.B))
		time.Sleep(30 * time.Millisecond)
	}
	p.Quit()
	run.Dist["race-rounds"] += len(rounds)
	run.Dist["race-hits"] += hits
	run.Add("race", fmt.Sprintf("(CRace [%s])", strings.Join(rounds, "; ")), c, fmt.Sprintf("race/%d", len(rounds)))
}

// ---------- repo / version / instance ids ----------
// events: newrepo | newdata | newversion (commit + child of the newest node) | crash | restart |
//
//	killat(W) = the next id-allocating request dies after W of its metadata writes
func runIDs(c jcase) outcome {
	counts := map[string]int{}
	dir := freshDir()
	defer os.RemoveAll(dir)
	p := mustStart(dvh.Opts{Dir: dir, InstStart: c.InstStart})
	up := true
	type repoInfo struct {
		Root  string
		Alias string
		DAG   struct {
			Nodes map[string]struct {
				UUID      string
				VersionID uint64
				Locked    bool
				Children  []uint64
			}
		}
		DataInstances map[string]json.RawMessage
	}
	view := func() map[string]repoInfo {
		_, body, _ := p.Get("/api/repos/info")
		var m map[string]repoInfo
		json.Unmarshal(body, &m)
		return m
	}
	var vids, iids []uint64
	// a (uuid, version id) / (repo, instance name, instance id) pair seen for the first time is an id that was
	// issued since the last look: a version id given to a SECOND uuid, or an instance id given to a second
	// instance, is appended again and breaks the strict increase
	seenV := map[string]bool{}
	seenI := map[string]bool{}
	nrepo, ndata := 0, 0
	collect := func() {
		var nv, ni []uint64
		for _, ri := range view() {
			for _, n := range ri.DAG.Nodes {
				k := fmt.Sprintf("%s=%d", n.UUID, n.VersionID)
				if !seenV[k] {
					seenV[k] = true
					nv = append(nv, n.VersionID)
				}
			}
			for name := range ri.DataInstances {
				r, _ := p.Call("iid", ri.Root, name)
				k := fmt.Sprintf("%s/%s=%d", ri.Root, name, r.N)
				if !seenI[k] {
					seenI[k] = true
					ni = append(ni, r.N)
				}
			}
		}
		// ids issued by one request (a received repo gets several) are issued in ascending order
		sort.Slice(nv, func(a, b int) bool { return nv[a] < nv[b] })
		sort.Slice(ni, func(a, b int) bool { return ni[a] < ni[b] })
		vids, iids = append(vids, nv...), append(iids, ni...)
	}
	do := func(kind string) bool {
		v := view()
		var any repoInfo
		for _, ri := range v {
			any = ri
		}
		switch kind {
		case "newrepo":
			nrepo++
			_, _, alive := p.PostJSON("/api/repos", map[string]string{"alias": fmt.Sprintf("r%d", nrepo)})
			return alive
		case "newdata":
			if any.Root == "" {
				return true
			}
			// lowest open node
			target := ""
			var tv uint64
			for _, n := range any.DAG.Nodes {
				if !n.Locked && (target == "" || n.VersionID < tv) {
					target, tv = n.UUID, n.VersionID
				}
			}
			if target == "" {
				return true
			}
			ndata++
			_, _, alive := p.PostJSON("/api/repo/"+target+"/instance", map[string]string{"typename": "keyvalue", "dataname": fmt.Sprintf("d%d", ndata)})
			return alive
		case "newversion":
			if any.Root == "" {
				return true
			}
			leaf := ""
			var lv uint64
			locked := false
			for _, n := range any.DAG.Nodes {
				if len(n.Children) == 0 && n.VersionID >= lv {
					leaf, lv, locked = n.UUID, n.VersionID, n.Locked
				}
			}
			if !locked {
				if _, _, alive := p.PostJSON("/api/node/"+leaf+"/commit", map[string]string{"note": "c"}); !alive {
					return false
				}
			}
			_, _, alive := p.PostJSON("/api/node/"+leaf+"/newversion", map[string]string{"note": "v"})
			return alive
		}
		return true
	}
	var trace []string
	for _, e := range c.Evs {
		switch e.K {
		case "newrepo", "newdata", "newversion":
			if !up {
				continue
			}
			if !do(e.K) {
				fatal("child died in %s: %s", e.K, p.Stderr)
			}
			collect()
			trace = append(trace, e.K)
		case "killat":
			if !up {
				continue
			}
			p.Plan(fmt.Sprintf("meta:+%d:after", e.W))
			kinds := []string{"newversion", "newdata", "newrepo"}
			k := kinds[int(e.N)%3]
			if do(k) {
				// fewer writes than planned: the request completed
				collect()
				p.Kill()
			}
			up = false
			trace = append(trace, fmt.Sprintf("kill-in-%s-after-%d", k, e.W))
		case "crash":
			if up {
				kill(p)
				up = false
				trace = append(trace, "kill")
			}
		case "quit":
			if up {
				p.Quit()
				up = false
				trace = append(trace, "quit")
			}
		case "receive":
			// the repo with the most versions not above N (N = 0: any) is taken through the receiving end of a
			// push: new repo id, instance ids and version ids, the latter handed out in a rotated uuid order.
			// Its versions resolve again after the next start: the history restarts next.
			if !up {
				continue
			}
			var best repoInfo
			for _, ri := range view() {
				k := len(ri.DAG.Nodes)
				if (e.N == 0 || uint64(k) <= e.N) && (best.Root == "" || k > len(best.DAG.Nodes) || (k == len(best.DAG.Nodes) && ri.Alias < best.Alias)) {
					best = ri
				}
			}
			if best.Root == "" {
				continue
			}
			type uv struct {
				u string
				v uint64
			}
			var us []uv
			for _, n := range best.DAG.Nodes {
				us = append(us, uv{n.UUID, n.VersionID})
			}
			sort.Slice(us, func(a, b int) bool { return us[a].v < us[b].v })
			var order []string
			for i := range us {
				order = append(order, us[(i+e.W)%len(us)].u)
			}
			if r, alive := p.Call("receive", best.Root, strings.Join(order, ",")); !alive {
				fatal("child died in receive: %s", p.Stderr)
			} else if r.S != 200 {
				// (seen only when ids had already been issued twice: the ids list shows that)
				trace = append(trace, "receive-refused")
				continue
			}
			trace = append(trace, fmt.Sprintf("receive(%d versions)", len(us)))
		case "deldata":
			// delete the newest instance that still exists (its id must never be handed out again)
			if !up {
				continue
			}
			var root, name string
			for _, ri := range view() {
				for nm := range ri.DataInstances {
					if name == "" || len(nm) > len(name) || (len(nm) == len(name) && nm > name) {
						root, name = ri.Root, nm
					}
				}
			}
			if name != "" {
				m0, d0 := p.WritesDone()
				p.Call("deldata", root, name)
				for i := 0; i < 1000; i++ {
					if m, d := p.WritesDone(); (m > m0 && d > d0) || p.Dead {
						break
					}
					time.Sleep(5 * time.Millisecond)
				}
				trace = append(trace, "deldata")
			}
		case "restart":
			if !up {
				is := c.InstStart
				if e.Start != 0 {
					is = e.Start
				}
				p = mustStart(dvh.Opts{Dir: dir, InstStart: is})
				up = true
				collect()
				trace = append(trace, fmt.Sprintf("restart(%d)", is))
			}
		}
	}
	if up {
		p.Quit()
	}
	counts["version-ids"] += len(vids)
	counts["instance-ids"] += len(iids)
	return outcome{"ids", fmt.Sprintf("(CIds %s %s)", lib.CoqNList(vids), lib.CoqNList(iids)), "ids/" + strings.Join(trace, ","), counts}
}

func genMutid(rng *lib.Rand) jcase {
	c := jcase{Kind: "mutid"}
	n := 4 + rng.Intn(6)
	for i := 0; i < n; i++ {
		switch rng.Intn(7) {
		case 0, 1:
			c.Evs = append(c.Evs, ev{K: "alloc", N: uint64(1 + rng.Intn(130))})
		case 2:
			c.Evs = append(c.Evs, ev{K: "alloccrash", After: rng.Bool()}, ev{K: "restart"})
		case 3:
			c.Evs = append(c.Evs, ev{K: "crash"}, ev{K: "restart", Start: uint64(rng.Pick(0, 0, 5, 1000000150, 1000001000))})
		case 4:
			// the restart dies BEFORE its own write; dying right after it is covered by the theorem only: the
			// engine was seen to lose about 1 in 100 Puts acknowledged in the instant before a start-up exit
			c.Evs = append(c.Evs, ev{K: "crash"}, ev{K: "restartcrash", After: false}, ev{K: "restart"})
			rng.Bool()
		case 5:
			// exactly at a stride boundary: 99 more allocations are the last ones below it after a restart
			c.Evs = append(c.Evs, ev{K: "crash"}, ev{K: "restart"}, ev{K: "alloc", N: 99}, ev{K: "alloccrash", After: rng.Bool()}, ev{K: "restart"})
		default:
			c.Evs = append(c.Evs, ev{K: "alloc", N: uint64(rng.Pick(1, 2, 99, 100, 101))})
		}
	}
	c.Evs = append(c.Evs, ev{K: "restart"}, ev{K: "alloc", N: 3})
	return c
}

func genLabels(rng *lib.Rand) jcase {
	c := jcase{Kind: "labels"}
	n := 8 + rng.Intn(10)
	top := uint64(0)
	// bodies and their supervoxels as the history believes them to be (linear chain: inherited)
	bodies := map[uint64][]uint64{}
	var order []uint64
	var unsplit []uint64 // ingested supervoxels that were not split yet
	ingest := func(k int) {
		var bms []uint64
		for j := 0; j < k; j++ {
			top += uint64(1 + rng.Intn(60))
			bms = append(bms, top)
			bodies[top] = []uint64{top}
			order = append(order, top)
			unsplit = append(unsplit, top)
		}
		c.Evs = append(c.Evs, ev{K: "ingest", BMs: bms})
	}
	// a label for the caller to choose: above everything ingested, posted or allocated so far
	// (alloc keeps an upper bound of what the server can have handed out)
	chosen := func() uint64 {
		bound := top
		var handed uint64
		for _, e := range c.Evs {
			switch e.K {
			case "alloc", "alloccrash":
				handed += e.N
			case "cleave":
				handed++
			case "splitsv":
				handed += 2
			case "setmax":
				bound = maxU(bound, e.N)
			}
			for _, l := range e.Ls {
				bound = maxU(bound, l)
			}
		}
		top = bound + handed + uint64(1+rng.Intn(40))
		return top
	}
	ingest(3 + rng.Intn(3))
	live := func() []uint64 {
		var out []uint64
		for _, b := range order {
			if _, ok := bodies[b]; ok {
				out = append(out, b)
			}
		}
		return out
	}
	for i := 0; i < n; i++ {
		switch rng.Intn(15) {
		case 12, 13:
			// every way a caller can bring its own labels into a split, then allocations
			if len(unsplit) > 0 {
				k := rng.Intn(len(unsplit))
				sv := unsplit[k]
				unsplit = append(unsplit[:k], unsplit[k+1:]...)
				var sp, rm uint64
				switch rng.Intn(4) {
				case 0:
					sp = chosen()
				case 1:
					rm = chosen()
				case 2:
					sp, rm = chosen(), chosen()
					if rng.Bool() {
						sp, rm = rm, sp // the larger one is not always the remain label
					}
				}
				c.Evs = append(c.Evs, ev{K: "splitsv", Ls: []uint64{sv, sp, rm}})
				for b, svs := range bodies { // the supervoxel is gone (its two parts have labels the history does not know)
					for j, x := range svs {
						if x == sv {
							bodies[b] = append(append([]uint64{}, svs[:j]...), svs[j+1:]...)
						}
					}
				}
				for j := 0; j < 1+rng.Intn(3); j++ {
					nn := uint64(rng.Pick(1, 1, 2, 3, 41))
					c.Evs = append(c.Evs, ev{K: "alloc", N: nn})
				}
			}
		case 14:
			if bs := live(); len(bs) >= 1 {
				old := bs[rng.Intn(len(bs))]
				nw := chosen()
				c.Evs = append(c.Evs, ev{K: "renumber", Ls: []uint64{nw, old}}, ev{K: "alloc", N: uint64(1 + rng.Intn(45))})
				bodies[nw] = bodies[old]
				delete(bodies, old)
				order = append(order, nw)
			}
		case 0, 1, 2:
			c.Evs = append(c.Evs, ev{K: "alloc", N: uint64(rng.Pick(1, 1, 2, 5, 0, 17))})
		case 3:
			ingest(1 + rng.Intn(3))
		case 4:
			switch rng.Intn(3) {
			case 0:
				c.Evs = append(c.Evs, ev{K: "setmax", N: uint64(rng.Intn(int(top) + 50))})
			case 1:
				// an index for a new body whose label is above everything so far, made of old supervoxels
				top += uint64(1 + rng.Intn(40))
				c.Evs = append(c.Evs, ev{K: "index", Ls: []uint64{top, uint64(1 + rng.Intn(5)), uint64(1 + rng.Intn(int(top)))}})
			default:
				var batch [][]uint64
				for j := 0; j < 1+rng.Intn(3); j++ {
					top += uint64(1 + rng.Intn(40))
					batch = append(batch, []uint64{top, uint64(1 + rng.Intn(5))})
				}
				// the largest body label is not the last entry, nor the one with the largest supervoxel
				batch = append(batch, []uint64{uint64(1 + rng.Intn(3)), uint64(1 + rng.Intn(3)), uint64(4 + rng.Intn(3))})
				c.Evs = append(c.Evs, ev{K: "indices", Batch: batch})
			}
			c.Evs = append(c.Evs, ev{K: "alloc", N: uint64(1 + rng.Intn(70))})
		case 5:
			c.Evs = append(c.Evs, ev{K: "alloccrash", N: uint64(1 + rng.Intn(4)), W: rng.Intn(3)}, ev{K: "restart"})
		case 6:
			c.Evs = append(c.Evs, ev{K: "crash"}, ev{K: "restart"})
		case 7, 8:
			// a new version, a mutation there, and an allocation there BEFORE any restart
			c.Evs = append(c.Evs, ev{K: "newchild"})
			fallthrough
		case 9, 10:
			if bs := live(); len(bs) >= 2 {
				a, b := bs[rng.Intn(len(bs))], bs[rng.Intn(len(bs))]
				if a != b {
					c.Evs = append(c.Evs, ev{K: "lmmerge", Ls: []uint64{a, b}})
					bodies[a] = append(bodies[a], bodies[b]...)
					delete(bodies, b)
				}
			}
			c.Evs = append(c.Evs, ev{K: "alloc", N: uint64(1 + rng.Intn(3))})
		default:
			for _, b := range live() {
				if svs := bodies[b]; len(svs) >= 2 {
					sv := svs[len(svs)-1]
					c.Evs = append(c.Evs, ev{K: "cleave", Ls: []uint64{b, sv}}, ev{K: "alloc", N: 1})
					bodies[b] = svs[:len(svs)-1]
					break
				}
			}
		}
	}
	c.Evs = append(c.Evs, ev{K: "restart"}, ev{K: "alloc", N: 2})
	return c
}

// genLabelsEdge: allocation near the end of the 64-bit label space
func genLabelsEdge(rng *lib.Rand) jcase {
	c := jcase{Kind: "labels"}
	c.Evs = append(c.Evs, ev{K: "ingest", BMs: []uint64{uint64(1 + rng.Intn(50))}}, ev{K: "alloc", N: uint64(1 + rng.Intn(3))})
	top := ^uint64(0)
	edge := []uint64{top, top - 1, top - 2, top - 5, top - 100, 1 << 63, 1<<63 - 1}[rng.Intn(7)]
	switch rng.Intn(3) {
	case 0:
		c.Evs = append(c.Evs, ev{K: "setmax", N: edge})
	case 1:
		c.Evs = append(c.Evs, ev{K: "index", Ls: []uint64{edge, 1}})
	default:
		c.Evs = append(c.Evs, ev{K: "ingest", BMs: []uint64{edge}})
	}
	for i := 0; i < 3+rng.Intn(4); i++ {
		switch rng.Intn(5) {
		case 0:
			c.Evs = append(c.Evs, ev{K: "crash"}, ev{K: "restart"})
		case 1:
			c.Evs = append(c.Evs, ev{K: "newchild"})
		default:
			c.Evs = append(c.Evs, ev{K: "alloc", N: uint64(rng.Pick(1, 1, 2, 3, 5, 6, 101, 200))})
		}
	}
	return c
}

func pickS(r *lib.Rand, xs ...string) string { return xs[r.Intn(len(xs))] }

func genIDs(rng *lib.Rand) jcase {
	c := jcase{Kind: "ids", Evs: []ev{{K: "newrepo"}}}
	// half of the histories run with a configured first instance id, as a server with
	// instance_id_gen = "sequential", instance_id_start = N does
	if rng.Bool() {
		c.InstStart = uint64(rng.Pick(2, 7, 100, 100, 5000))
	}
	n := 8 + rng.Intn(8)
	for i := 0; i < n; i++ {
		switch rng.Intn(11) {
		case 9, 10:
			// a repo of 1, 2, 3 or more versions arrives by push, the server stops (killed or not) before it
			// issues anything else, and then issues ids of every kind
			c.Evs = append(c.Evs, ev{K: "receive", N: uint64(rng.Pick(1, 1, 2, 3, 0)), W: rng.Intn(3)})
			if rng.Bool() {
				c.Evs = append(c.Evs, ev{K: "crash"})
			} else {
				c.Evs = append(c.Evs, ev{K: "quit"})
			}
			c.Evs = append(c.Evs, ev{K: "restart"}, ev{K: pickS(rng, "newversion", "newrepo", "newdata")}, ev{K: "newrepo"})
		case 0:
			c.Evs = append(c.Evs, ev{K: "newrepo"})
		case 1, 2, 3:
			c.Evs = append(c.Evs, ev{K: "newdata"})
		case 4:
			c.Evs = append(c.Evs, ev{K: "newversion"})
		case 5:
			c.Evs = append(c.Evs, ev{K: "killat", N: uint64(rng.Intn(3)), W: 1 + rng.Intn(4)}, ev{K: "restart"})
		case 6, 7:
			// an instance goes away, then the server restarts (same or another configured start), then
			// a new instance is created
			c.Evs = append(c.Evs, ev{K: "deldata"}, ev{K: "crash"})
			r := ev{K: "restart"}
			if c.InstStart != 0 && rng.Chance(0.3) {
				r.Start = uint64(rng.Pick(1, 3, int(c.InstStart)+1, int(c.InstStart)+50))
			}
			c.Evs = append(c.Evs, r, ev{K: "newdata"})
		default:
			c.Evs = append(c.Evs, ev{K: "crash"}, ev{K: "restart"})
		}
	}
	return c
}

func main() {
	dvh.MaybeChild()
	defer func() {
		if e := recover(); e != nil {
			fmt.Fprintf(os.Stderr, "c12: %v\n", e)
			os.Exit(3)
		}
	}()
	o := lib.ParseOpts()
	dvid.SetLogMode(dvid.CriticalMode)
	log.SetOutput(io.Discard)
	rng := lib.NewRand(o.Seed)
	run := lib.NewRun("C12", o)
	run.Header("From DV Require Import Base.Prelude Model.Persist Model.IDs Model.IDsR Model.C12Run.", "Local Open Scope N_scope.")
	dispatch := func(c jcase) {
		switch c.Kind {
		case "mutid":
			robust(run, c, runMutid)
		case "labels":
			robust(run, c, runLabels)
		case "race":
			runRace(run, c)
		case "ids":
			robust(run, c, runIDs)
		case "kills":
			robust(run, c, runKills)
		default:
			fatal("unknown case kind %q", c.Kind)
		}
	}
	if o.Replay != "" {
		var c jcase
		if err := lib.LoadReplay(o.Replay, &c); err != nil {
			fatal("%v", err)
		}
		dispatch(c)
		run.Finish("c12case", "replay", tail)
		return
	}
	// corpus
	dispatch(jcase{Kind: "mutid", Evs: []ev{{K: "alloc", N: 99}, {K: "alloccrash", After: true}, {K: "restart"}, {K: "alloc", N: 1},
		{K: "crash"}, {K: "restartcrash", After: false}, {K: "restart"}, {K: "alloc", N: 100}, {K: "alloccrash", After: false}, {K: "restart"}, {K: "alloc", N: 2}}})
	dispatch(jcase{Kind: "labels", Evs: []ev{{K: "alloc", N: 5}, {K: "ingest", BMs: []uint64{1000}}, {K: "alloc", N: 1}, {K: "crash"}, {K: "restart"},
		{K: "alloc", N: 2}, {K: "alloccrash", N: 3, W: 1}, {K: "restart"}, {K: "alloc", N: 1}, {K: "setmax", N: 5000}, {K: "alloc", N: 1}}})
	// labels chosen by the caller of a supervoxel split (split / remain, each alone, both, neither) and of a
	// renumber, each followed by allocations that would reach the chosen label if it were not counted
	dispatch(jcase{Kind: "labels", Evs: []ev{{K: "ingest", BMs: []uint64{10, 20, 30, 40, 50}}, {K: "alloc", N: 1},
		{K: "splitsv", Ls: []uint64{10, 0, 0}}, {K: "alloc", N: 1},
		{K: "splitsv", Ls: []uint64{20, 70, 0}}, {K: "alloc", N: 3}, {K: "alloc", N: 20},
		{K: "splitsv", Ls: []uint64{30, 0, 120}}, {K: "alloc", N: 3}, {K: "alloc", N: 30},
		{K: "newchild"},
		{K: "splitsv", Ls: []uint64{40, 200, 180}}, {K: "alloc", N: 10}, {K: "alloc", N: 30},
		{K: "renumber", Ls: []uint64{300, 50}}, {K: "alloc", N: 2}, {K: "alloc", N: 60},
		{K: "crash"}, {K: "restart"}, {K: "alloc", N: 2}}})
	dispatch(jcase{Kind: "labels", Evs: []ev{{K: "crash"}, {K: "restart"}, {K: "alloc", N: 1}}}) // reload of an instance that never persisted a label
	// label volumes over several versions: mutations at a fresh child, then an allocation there
	dispatch(jcase{Kind: "labels", Evs: []ev{{K: "ingest", BMs: []uint64{10, 20, 100}}, {K: "alloc", N: 1}, {K: "newchild"},
		{K: "lmmerge", Ls: []uint64{20, 10}}, {K: "alloc", N: 1}, {K: "cleave", Ls: []uint64{20, 10}}, {K: "alloc", N: 1},
		{K: "newchild"}, {K: "setmax", N: 7}, {K: "alloc", N: 2}, {K: "newchild"}, {K: "lmmerge", Ls: []uint64{100, 20}}, {K: "alloc", N: 1},
		{K: "crash"}, {K: "restart"}, {K: "alloc", N: 1}}})
	// every route that introduces labels, each followed by an allocation
	dispatch(jcase{Kind: "labels", Evs: []ev{{K: "ingest", BMs: []uint64{3}}, {K: "indices", Batch: [][]uint64{{2, 2, 4}, {50, 3}}}, {K: "alloc", N: 60},
		{K: "index", Ls: []uint64{500, 1, 2}}, {K: "alloc", N: 1}, {K: "setmax", N: 900}, {K: "alloc", N: 2}, {K: "crash"}, {K: "restart"}, {K: "alloc", N: 1}}})
	// the end of the label space: served requests stay below 2^64, the others are refused
	dispatch(jcase{Kind: "labels", Evs: []ev{{K: "ingest", BMs: []uint64{7}}, {K: "setmax", N: ^uint64(0) - 5}, {K: "alloc", N: 2}, {K: "alloc", N: 4}, {K: "alloc", N: 3},
		{K: "alloc", N: 1}, {K: "alloc", N: 1}, {K: "crash"}, {K: "restart"}, {K: "alloc", N: 2}}})
	dispatch(jcase{Kind: "labels", Evs: []ev{{K: "setmax", N: ^uint64(0)}, {K: "alloc", N: 1}, {K: "alloc", N: 5}, {K: "newchild"}, {K: "alloc", N: 2}}})
	// instance ids under a configured start, an instance deleted before the restart
	dispatch(jcase{Kind: "ids", InstStart: 100, Evs: []ev{{K: "newrepo"}, {K: "newdata"}, {K: "newdata"}, {K: "newdata"}, {K: "deldata"},
		{K: "crash"}, {K: "restart"}, {K: "newdata"}, {K: "deldata"}, {K: "deldata"}, {K: "crash"}, {K: "restart", Start: 50}, {K: "newdata"},
		{K: "crash"}, {K: "restart", Start: 400}, {K: "newdata"}, {K: "crash"}, {K: "restart"}, {K: "newdata"}}})
	// repos of one, two and three versions received by push; the server stops before it issues anything
	// else (killed / shut down), then issues version, repo and instance ids
	dispatch(jcase{Kind: "ids", Evs: []ev{{K: "newrepo"}, {K: "newdata"}, {K: "receive", N: 1}, {K: "crash"}, {K: "restart"}, {K: "newrepo"}, {K: "newdata"},
		{K: "newversion"}, {K: "receive", N: 2, W: 1}, {K: "quit"}, {K: "restart"}, {K: "newversion"}, {K: "newrepo"},
		{K: "newversion"}, {K: "receive", N: 3, W: 2}, {K: "crash"}, {K: "restart"}, {K: "newdata"}, {K: "newversion"}, {K: "newrepo"}}})
	dispatch(jcase{Kind: "ids", Evs: []ev{{K: "newrepo"}, {K: "receive", N: 1}, {K: "quit"}, {K: "restart"}, {K: "newversion"}, {K: "newrepo"},
		{K: "receive", N: 1}, {K: "crash"}, {K: "restart"}, {K: "newdata"}, {K: "newrepo"}}})
	// Round 4: an ingest killed before / after each Put of its max-label update and before / after its block
	// write, POST maxlabel killed at each Put; the volume is read back after the restart
	dispatch(jcase{Kind: "kills", Evs: []ev{{K: "alloc", N: 5},
		{K: "ingestkill", N: 100, W: 1, After: false}, {K: "alloc", N: 1},
		{K: "ingestkill", N: 200, W: 1, After: true}, {K: "alloc", N: 1},
		{K: "ingestkill", N: 300, W: 2, After: true}, {K: "alloc", N: 1},
		{K: "ingestkill", N: 400, W: 3, After: false}, {K: "alloc", N: 1},
		{K: "ingestkill", N: 500, W: 3, After: true}, {K: "alloc", N: 1},
		{K: "ingestkill", N: 600, W: 4, After: true}, {K: "alloc", N: 2},
		{K: "setmaxkill", N: 700, W: 1, After: true}, {K: "alloc", N: 1},
		{K: "setmaxkill", N: 800, W: 2, After: false}, {K: "alloc", N: 1},
		{K: "ingest", BMs: []uint64{650, 900}}, {K: "crash"}, {K: "restart"}, {K: "alloc", N: 3}}})
	{
		// POST index killed after its first data write (fix C12-2: the maximum is raised before the index is written)
		dispatch(jcase{Kind: "kills", Evs: []ev{{K: "alloc", N: 5}, {K: "indexkill", N: 1000, W: 1, After: true}, {K: "alloc", N: 1}, {K: "alloc", N: 1000}}})
	}
	nm, nl, ni, rounds := 3, 3, 3, 30
	if o.Thorough() {
		nm, nl, ni, rounds = 25, 25, 25, 300
	}
	if o.N > 0 {
		nm, nl, ni = o.N, o.N, o.N
	}
	for i := 0; i < nm; i++ {
		dispatch(genMutid(rng))
	}
	for i := 0; i < nl; i++ {
		dispatch(genLabels(rng))
		dispatch(genLabelsEdge(rng))
	}
	for i := 0; i < ni; i++ {
		dispatch(genIDs(rng))
	}
	for i := 0; i < nl; i++ {
		dispatch(genKills(rng))
	}
	// race probe: rising labels, several blocks per request
	race := jcase{Kind: "race"}
	top := uint64(100)
	for i := 0; i < rounds; i++ {
		k := 1 + rng.Intn(8)
		var bms []uint64
		for j := 0; j < k; j++ {
			top += 10
			bms = append(bms, top)
		}
		race.Evs = append(race.Evs, ev{K: "ingest", BMs: bms})
	}
	dispatch(race)
	run.Finish("c12case",
		"mutation-id histories (allocations crossing stride boundaries, kills at the stride write before/after, idle kills, killed restarts, configured minimum), label histories (nextlabel, maxlabel, solid-block ingests awaited, kills inside an allocation after 0/1/2 persistence writes, idle kills, restarts), id histories (repos, instances, versions with kills inside id-allocating requests), kill histories (POST blocks killed before/after the Put of MaxLabel[v], of MaxRepoLabel, of the block; POST maxlabel killed at each Put; the volume read back after each restart); distinct by (kind, event count, issued count / trace)",
		tail)
}

const tail = `
Definition spec_fail := Eval vm_compute in c12_spec_fail cases.
Definition model_mismatch := Eval vm_compute in c12_model_mismatch cases.
`
