// Driver C15: dvid.SerializeData / DeserializeData against Model.Envelope.
package main

import (
	"bytes"
	"compress/gzip"
	"encoding/binary"
	"fmt"
	"hash/crc32"
	"image"
	"image/jpeg"
	"io"
	"os"
	"strings"

	"github.com/golang/snappy"
	lz4 "github.com/janelia-flyem/go/golz4-updated"

	"github.com/janelia-flyem/dvid/dvid"
	"github.com/janelia-flyem/dvid/storage"
	"verif/harness/dv"
	"verif/harness/lib"
)

type jcase struct {
	Kind  string `json:"kind"`
	Data  []byte `json:"data,omitempty"`
	Comp  uint8  `json:"comp"`
	Level int8   `json:"level"`
	Cks   uint8  `json:"cks"`
	S     []byte `json:"s,omitempty"`
	U     bool   `json:"u"`
	Pos   int    `json:"pos,omitempty"`
	B     byte   `json:"b,omitempty"`
	Mask  []byte `json:"mask,omitempty"`
	Alts  []jalt `json:"alts,omitempty"`
}

// one burst alteration: Mask is xor-ed into the value starting at Pos; Ctl marks the controls (the
// 33-bit generator polynomial, which CRC-32 cannot see) that are only run without decompression
type jalt struct {
	Pos  int    `json:"pos"`
	Mask []byte `json:"mask"`
	Ctl  bool   `json:"ctl,omitempty"`
}

// library calls, made by the harness itself: the oracles handed to the model
func libCompress(data []byte, comp uint8, level int8) (string, []byte) {
	switch comp {
	case 0:
		return "ok", data
	case 1:
		return "ok", snappy.Encode(nil, data)
	case 4:
		out := make([]byte, lz4.CompressBound(data))
		n, err := lz4.Compress(data, out)
		if err != nil {
			return "err", nil
		}
		return "ok", out[:n]
	case 2:
		var b bytes.Buffer
		w, err := gzip.NewWriterLevel(&b, int(level))
		if err != nil {
			return "err", nil
		}
		w.Write(data)
		w.Close()
		return "ok", b.Bytes()
	}
	return "err", nil
}

// payloadOf strips the envelope the way the format byte says (1 or 5 bytes).
func payloadOf(s []byte) []byte {
	if len(s) == 0 {
		return nil
	}
	if (s[0]>>3)&3 == 1 {
		if len(s) < 5 {
			return nil
		}
		return s[5:]
	}
	return s[1:]
}

func libDecompress(comp uint8, cdata []byte) (cls string, out []byte) {
	p, _ := lib.Recover(func() {
		switch comp {
		case 1:
			d, err := snappy.Decode(nil, cdata)
			if err != nil {
				cls = "err"
				return
			}
			cls, out = "ok", d
		case 4:
			if len(cdata) < 4 {
				cls = "err"
				return
			}
			orig := binary.LittleEndian.Uint32(cdata[0:4])
			if orig > 1<<16 { // never allocate hostile sizes in the harness
				cls = "err"
				return
			}
			d := make([]byte, int(orig))
			if err := lz4.Uncompress(cdata[4:], d); err != nil {
				cls = "err"
				return
			}
			cls, out = "ok", d
		case 5:
			img, err := jpeg.Decode(bytes.NewBuffer(cdata))
			if err != nil {
				cls = "err"
				return
			}
			g, ok := img.(*image.Gray)
			if !ok {
				cls = "err"
				return
			}
			cls, out = "ok", g.Pix
		case 2:
			r, err := gzip.NewReader(bytes.NewBuffer(cdata))
			if err != nil {
				cls = "err"
				return
			}
			var b bytes.Buffer
			if _, err = io.Copy(&b, r); err != nil {
				cls = "err"
				return
			}
			if err = r.Close(); err != nil {
				cls = "err"
				return
			}
			cls, out = "ok", b.Bytes()
		default:
			cls = "err"
		}
	})
	if p {
		return "panic", nil
	}
	return
}

func goSerialize(data []byte, comp uint8, level int8, cks uint8) (string, []byte) {
	var cls string
	var out []byte
	p, _ := lib.Recover(func() {
		c, err := dvid.NewCompression(dvid.CompressionFormat(comp), dvid.CompressionLevel(level))
		if err != nil {
			cls = "err"
			return
		}
		s, err := dvid.SerializeData(data, c, dvid.Checksum(cks))
		if err != nil {
			cls = "err"
			return
		}
		cls, out = "ok", s
	})
	if p {
		return "panic", nil
	}
	return cls, out
}

func goDeserialize(s []byte, u bool) (cls string, out []byte, format uint8) {
	p, _ := lib.Recover(func() {
		d, f, err := dvid.DeserializeData(s, u)
		if err != nil {
			cls = "err"
			return
		}
		cls, out, format = "ok", d, uint8(f)
	})
	if p {
		return "panic", nil, 0
	}
	return
}

func resPair(bd *lib.Binder, cls string, b []byte, f uint8) string {
	return lib.CoqRes(cls, fmt.Sprintf("(%s, %d)", bd.Bytes(b), f))
}

func hostile(s []byte) bool {
	// skip inputs on which the library would allocate gigabytes (resource exhaustion is outside the model)
	p := payloadOf(s)
	if len(s) > 0 && s[0]>>5 == 4 && len(p) >= 4 && binary.LittleEndian.Uint32(p[0:4]) > 1<<16 {
		return true
	}
	return false
}

func main() {
	o := lib.ParseOpts()
	rng := lib.NewRand(o.Seed)
	run := lib.NewRun("C15", o)
	run.Header("From DV Require Import Base.Prelude Model.EnvelopeRun.", "Local Open Scope N_scope.")

	addSer := func(data []byte, comp uint8, level int8, cks uint8) []byte {
		ccls, c := libCompress(data, comp, level)
		scls, s := goSerialize(data, comp, level, cks)
		dcls, d := "err", []byte(nil)
		if scls == "ok" && len(s) > 0 {
			if comp == 0 {
				dcls, d = "ok", payloadOf(s)
			} else {
				dcls, d = libDecompress(comp, payloadOf(s))
			}
		}
		bd := lib.NewBinder()
		dtc, dtb, dtf := goDeserialize(s, true)
		dfc, dfb, dff := goDeserialize(s, false)
		if scls != "ok" {
			dtc, dfc = "err", "err"
		}
		term := bd.Wrap(fmt.Sprintf("CSer %s %d %s %d %s %s %s %s %s", bd.Bytes(data), comp, lib.CoqZ(int64(level)), cks,
			lib.CoqRes(ccls, bd.Bytes(c)), lib.CoqRes(dcls, bd.Bytes(d)), lib.CoqRes(scls, bd.Bytes(s)),
			resPair(bd, dtc, dtb, dtf), resPair(bd, dfc, dfb, dff)))
		sizeClass := "0"
		switch {
		case len(data) == 0:
		case len(data) == 1:
			sizeClass = "1"
		case len(data) < 64:
			sizeClass = "<64"
		case len(data) < 4096:
			sizeClass = "<4K"
		default:
			sizeClass = ">=4K"
		}
		run.Count("size:" + sizeClass)
		run.Count(fmt.Sprintf("format:%d/cks:%d", comp, cks))
		run.Add("serialize", term, jcase{Kind: "serialize", Data: data, Comp: comp, Level: level, Cks: cks},
			fmt.Sprintf("ser/%d/%d/%s/%x", comp, cks, sizeClass, crcKey(data)))
		return s
	}
	addRaw := func(kind string, s []byte, u bool) {
		if hostile(s) {
			run.Count("skipped:hostile-size")
			return
		}
		comp := uint8(0)
		if len(s) > 0 {
			comp = s[0] >> 5
		}
		dcls, d := libDecompress(comp, payloadOf(s))
		bd := lib.NewBinder()
		gc, gb, gf := goDeserialize(s, u)
		term := bd.Wrap(fmt.Sprintf("CRaw %s %s %s %s", bd.Bytes(s), lib.CoqBool(u), lib.CoqRes(dcls, bd.Bytes(d)), resPair(bd, gc, gb, gf)))
		run.Count("raw-result:" + gc)
		run.Add(kind, term, jcase{Kind: kind, S: s, U: u}, fmt.Sprintf("%s/%x/%v", kind, crcKey(s), u))
	}
	addCorrupt := func(s0 []byte, pos int, b byte, u bool) {
		s := append([]byte{}, s0...)
		s[pos] = b
		if hostile(s) {
			run.Count("skipped:hostile-size")
			return
		}
		comp := s[0] >> 5
		dcls, d := libDecompress(comp, payloadOf(s))
		bd := lib.NewBinder()
		gc, gb, gf := goDeserialize(s, u)
		term := bd.Wrap(fmt.Sprintf("CCorrupt %s %d %d %s %s %s", bd.Bytes(s0), pos, b, lib.CoqBool(u), lib.CoqRes(dcls, bd.Bytes(d)), resPair(bd, gc, gb, gf)))
		run.Count("corrupt-result:" + gc)
		run.Add("corrupt", term, jcase{Kind: "corrupt", S: s0, Pos: pos, B: b, U: u}, fmt.Sprintf("cor/%x/%d/%d/%v", crcKey(s0), pos, b, u))
	}

	if o.Replay != "" {
		var c jcase
		if err := lib.LoadReplay(o.Replay, &c); err != nil {
			fmt.Fprintln(os.Stderr, err)
			os.Exit(2)
		}
		switch c.Kind {
		case "big-serialize":
			// the case may depend on the serialisation made just before it (recycled buffers)
			for _, n := range []int{65536, 40000, 32768} {
				if n < c.Pos {
					goSerialize(bigData(n + 1)[:n], c.Comp, -1, 0)
					break
				}
			}
			addBigSer(run, c.Pos, c.Comp, c.Level, c.Cks)
		case "big-corrupt":
			var n int
			fmt.Sscan(string(c.Data), &n)
			_, sbytes := goSerialize(bigData(n), c.Comp, c.Level, c.Cks)
			addBigCorrupt(run, sbytes, n, c.Comp, c.Level, c.Cks, c.Pos, c.B)
		case "stored-metadata":
			kvOpen()
			addKV(run, 0, 0, []byte{1})
			scanMeta(run, rng)
			dv.Close()
		case "kv":
			kvOpen()
			addKV(run, int(c.Comp), c.Cks, c.Data)
			dv.Close()
		case "burst":
			addBurst(run, c.S, c.Alts)
		case "crc":
			addCrc(run, c.Data, c.Alts)
		case "big-burst":
			var n int
			fmt.Sscan(string(c.Data), &n)
			_, sbytes := goSerialize(bigData(n), c.Comp, c.Level, c.Cks)
			addBigBurst(run, sbytes, n, c.Comp, c.Level, c.Cks, c.Pos, c.Mask)
		case "serialize":
			addSer(c.Data, c.Comp, c.Level, c.Cks)
		case "corrupt":
			addCorrupt(c.S, c.Pos, c.B, c.U)
		default:
			addRaw(c.Kind, c.S, c.U)
		}
		run.Finish("c15case", "replay", tail)
		return
	}

	// corpus: inputs that made the code before the repair panic, and format-byte boundary cases
	for _, s := range [][]byte{{0x80}, {0x80, 1}, {0x80, 1, 2, 3}, {0x88, 1, 2, 3, 4}, {0x88}, {0xA0, 1, 2}, {0x40}, {0x20}, {0x18, 1}, {0x10, 1}, {0xE0, 1}, {0x80, 0, 0, 0, 0}, {0x80, 0, 0, 0, 0, 9, 9}} {
		addRaw("corpus", s, true)
		addRaw("corpus", s, false)
	}
	// a colour JPEG offered as a JPEG-tagged value (DeserializeData asserts *image.Gray)
	{
		img := image.NewRGBA(image.Rect(0, 0, 8, 8))
		var b bytes.Buffer
		jpeg.Encode(&b, img, nil)
		addRaw("corpus", append([]byte{5 << 5}, b.Bytes()...), true)
		gimg := image.NewGray(image.Rect(0, 0, 8, 8))
		b.Reset()
		jpeg.Encode(&b, gimg, nil)
		addRaw("corpus", append([]byte{5 << 5}, b.Bytes()...), true)
	}

	formats := []uint8{0, 1, 2, 4}
	nPayload := 16
	if o.Thorough() {
		nPayload = 150
	}
	if o.N > 0 {
		nPayload = o.N
	}
	var envelopes [][]byte
	for i := 0; i < nPayload; i++ {
		var data []byte
		switch rng.Intn(8) {
		case 0:
			data = []byte{}
		case 1:
			data = rng.Bytes(1)
		case 2:
			data = bytes.Repeat([]byte{byte(rng.Intn(256))}, 1+rng.Intn(3000)) // highly compressible (printed as one repeat)
		case 3:
			data = rng.Bytes(1 + rng.Intn(64))
		case 4:
			data = rng.Bytes(64 + rng.Intn(200)) // incompressible
		case 5:
			n := 1 + rng.Intn(120)
			data = make([]byte, n)
			for j := range data {
				data[j] = byte(rng.Intn(4))
			}
		case 6:
			data = bytes.Repeat(rng.Bytes(1+rng.Intn(7)), 1+rng.Intn(30))
		default:
			data = rng.Bytes(rng.Intn(16))
		}
		if i == 0 && o.Thorough() {
			data = rng.Bytes(20000)
		}
		for _, comp := range formats {
			for _, cks := range []uint8{0, 1} {
				level := int8(-1)
				if comp == 2 {
					level = int8(rng.Pick(-1, 1, 5, 9))
				}
				s := addSer(data, comp, level, cks)
				if len(s) > 0 && len(s) <= 24 && len(envelopes) < 200 {
					envelopes = append(envelopes, s)
				}
			}
		}
	}
	// boundary: payloads whose LZ4 / snappy stream is exactly as long as (or one off) the payload
	found := 0
	for try := 0; try < 4000 && found < 8; try++ {
		d := append(rng.Bytes(1+rng.Intn(3)), bytes.Repeat([]byte{byte(rng.Intn(256))}, 3+rng.Intn(12))...)
		d = append(d, rng.Bytes(4+rng.Intn(40))...)
		for _, comp := range []uint8{4, 1} {
			_, c := libCompress(d, comp, -1)
			if diff := len(c) - len(d); diff >= -1 && diff <= 1 {
				run.Count(fmt.Sprintf("boundary:stream-len-minus-payload-len=%d/format%d", diff, comp))
				addSer(d, comp, -1, uint8(found%2))
				found++
			}
		}
	}

	// large payloads (32 KiB .. MiB): compared by the driver, judged by the property oracle only
	bigSizes := []int{32768, 40000, 70001}
	if o.Thorough() {
		bigSizes = append(bigSizes, 1<<20, 3<<20+17)
	}
	// very large incompressible payloads just above 2^24 (and 2^25): sizes at which a 32-bit product of a length
	// with a one-byte factor wraps; round trip only, judged by the property oracle
	hugeSizes := []int{1<<24 + 4096}
	if o.Thorough() {
		hugeSizes = append(hugeSizes, 1<<24+60000, 1<<25+8192, 1<<25+100000)
	}
	for _, n := range hugeSizes {
		for _, comp := range formats {
			if comp == 2 && !o.Thorough() {
				continue // gzip of 16 MiB: thorough tier only
			}
			addBigSer(run, n, comp, -1, uint8(rng.Intn(2)))
			run.Count("size:huge")
		}
	}
	for _, n := range bigSizes {
		for _, comp := range formats {
			for _, cks := range []uint8{0, 1} {
				level := int8(-1)
				if comp == 2 {
					level = int8(rng.Pick(-1, 1, 9))
				}
				scls, sbytes := addBigSer(run, n, comp, level, cks)
				if scls != "ok" || (cks == 0 && comp != 2) {
					continue
				}
				// corruptions: single-bit flips at sampled positions of the stored value
				nc := 60
				if o.Thorough() {
					nc = 600
				}
				for ci := 0; ci < nc; ci++ {
					pos := 1 + rng.Intn(len(sbytes)-1)
					if ci%10 == 0 {
						pos = len(sbytes) - 1 - rng.Intn(8) // trailer
					}
					addBigCorrupt(run, sbytes, n, comp, level, cks, pos, byte(1)<<uint(rng.Intn(8)))
				}
				// bursts (2..4 adjacent bytes, 32 bits at any bit offset) in the payload of a CRC-protected value
				if cks == 1 && comp != 2 {
					nb := 12
					if o.Thorough() {
						nb = 120
					}
					for bi := 0; bi < nb; bi++ {
						mask, _ := burstMask(rng, false)
						pos := 5 + rng.Intn(len(sbytes)-5-len(mask))
						switch bi % 6 {
						case 0:
							pos = 5
						case 1:
							pos = len(sbytes) - len(mask)
						}
						addBigBurst(run, sbytes, n, comp, level, cks, pos, mask)
					}
				}
			}
		}
	}

	// the envelope as the keyvalue datatype uses it (datatype/keyvalue/keyvalue.go PutData/GetData): an instance
	// created with every supported lossless Compression x Checksum setting must hand back exactly the bytes
	// it was given, whatever they look like (already-compressed streams, stored envelopes, magic prefixes)
	kvOpen()
	{
		sample := []byte("the quick brown fox jumps over the lazy dog, twice: the quick brown fox jumps over the lazy dog")
		var lookalikes [][]byte
		for _, comp := range []uint8{1, 2, 4} {
			if cls, c := libCompress(sample, comp, -1); cls == "ok" {
				lookalikes = append(lookalikes, c)
				if len(c) > 6 {
					lookalikes = append(lookalikes, c[:3+rng.Intn(4)]) // only the magic prefix of a stream
				}
			}
			for _, cks := range []uint8{0, 1} {
				if cls, s := goSerialize(sample[:20+rng.Intn(20)], comp, -1, cks); cls == "ok" {
					lookalikes = append(lookalikes, s) // a stored envelope offered as a value
				}
			}
		}
		lookalikes = append(lookalikes, []byte{}, []byte{0x1f, 0x8b, 0x08}, []byte{0x1f, 0x8b}, []byte{0xff, 0x06, 0x00, 0x00, 's', 'N', 'a', 'P', 'p', 'Y'},
			[]byte{0x04, 0x22, 0x4d, 0x18, 0x64, 0x40, 0xa7}, []byte("{\"a\":1}"), []byte{0})
		for si := range kvSettings {
			for _, cks := range []uint8{0, 1} {
				for _, v := range lookalikes {
					addKV(run, si, cks, v)
				}
				nr := 2
				if o.Thorough() {
					nr = 20
				}
				for i := 0; i < nr; i++ {
					addKV(run, si, cks, rng.Bytes(1+rng.Intn(120)))
				}
			}
		}
	}
	scanMeta(run, rng)
	dv.Close()

	// serialisations in immediate succession (buffers recycled between calls must not leak their size): a value,
	// then an incompressible one slightly larger
	for _, n := range []int{32768, 40000, 65536} {
		for _, d := range []int{1, 15, 16, 100, n / 255, n/255 + 16, n / 2} {
			for _, comp := range []uint8{4, 1, 2} {
				goSerialize(bigData(n + 1)[:n], comp, -1, 0) // text-like (odd size), cut to n
				addBigSer(run, n+d+(n+d)%2, comp, -1, uint8(d%2))
			}
		}
	}

	// round 4: burst alterations of real CRC-protected serialized values (C15_burst_corruption_detected,
	// C15_burst32_corruption_detected) and hash/crc32 against the model on random strings
	{
		nBurstEnv, nAlt, nCrc := 14, 22, 30
		if o.Thorough() {
			nBurstEnv, nAlt, nCrc = 140, 40, 400
		}
		for ei := 0; ei < nBurstEnv; ei++ {
			var data []byte
			switch ei % 7 {
			case 0:
				data = rng.Bytes(1 + rng.Intn(4)) // payload not longer than the burst
			case 1:
				data = rng.Bytes(5)
			case 2:
				data = bytes.Repeat([]byte{byte(rng.Intn(256))}, 20+rng.Intn(200))
			case 3:
				data = make([]byte, 8+rng.Intn(40)) // zeros: the CRC register sees only the burst
			default:
				data = rng.Bytes(6 + rng.Intn(90))
			}
			comp := uint8(rng.Pick(0, 0, 1, 4))
			scls, s0 := goSerialize(data, comp, -1, 1)
			if scls != "ok" {
				continue
			}
			var alts []jalt
			for ai := 0; ai < nAlt; ai++ {
				mask, ctl := burstMask(rng, ai%11 == 10)
				if len(s0) < 5+len(mask) {
					mask, ctl = mask[:1+rng.Intn(len(s0)-5)], false
					if allZero(mask) {
						mask[0] = 0x80
					}
				}
				pos := 5 + rng.Intn(len(s0)-5-len(mask)+1)
				switch ai % 5 {
				case 0:
					pos = 5 // first payload byte
				case 1:
					pos = len(s0) - len(mask) // last payload bytes
				case 2:
					if !ctl && ai%10 == 2 {
						pos = 5 - 1 - rng.Intn(len(mask)) // straddles the checksum field / format byte (no claim; totality only)
						if pos < 0 {
							pos = 0
						}
					}
				}
				alts = append(alts, jalt{Pos: pos, Mask: mask, Ctl: ctl})
			}
			addBurst(run, s0, alts)
		}
		// corpus: C15_stored_value_burst_refuted - a 4-byte burst over three checksum bytes and the first
		// payload byte turns one valid value into another; Go and the model must both return data
		if scls, s0 := goSerialize([]byte{1, 2, 3, 4, 5}, 0, -1, 1); scls == "ok" {
			addBurst(run, s0, []jalt{{Pos: 2, Mask: []byte{251, 38, 99, 151}}, {Pos: 5, Mask: []byte{251, 38, 99, 151}}})
		}
		for i := 0; i < nCrc; i++ {
			var data []byte
			switch i % 5 {
			case 0:
				data = rng.Bytes(rng.Intn(6))
			case 1:
				data = make([]byte, rng.Intn(64))
			default:
				data = rng.Bytes(rng.Intn(300))
			}
			var alts []jalt
			for ai := 0; ai < 6 && len(data) > 0; ai++ {
				mask, ctl := burstMask(rng, ai == 5)
				if len(mask) > len(data) {
					mask, ctl = mask[:len(data)], false
					if allZero(mask) {
						mask[0] = 1
					}
				}
				alts = append(alts, jalt{Pos: rng.Intn(len(data) - len(mask) + 1), Mask: mask, Ctl: ctl})
			}
			addCrc(run, data, alts)
		}
	}

	// illegal parameters
	addSer([]byte{1, 2, 3}, 3, -1, 0)
	addSer([]byte{1, 2, 3}, 0, -1, 2)
	addSer([]byte{1, 2, 3}, 7, -1, 1)

	// corruption and truncation of small envelopes: exhaustive over positions for the first
	// few, every single-bit flip and a few byte substitutions per position
	nEnv := 4
	if o.Thorough() {
		nEnv = 40
	}
	for ei, s0 := range envelopes {
		if ei >= nEnv {
			break
		}
		u := ei%2 == 0
		for pos := 0; pos < len(s0); pos++ {
			for bit := 0; bit < 8; bit++ {
				addCorrupt(s0, pos, s0[pos]^(1<<uint(bit)), u)
			}
			addCorrupt(s0, pos, byte(rng.Intn(256)), !u)
		}
		for n := 0; n < len(s0); n++ {
			addRaw("truncate", s0[:n], true)
		}
	}
	// arbitrary byte strings
	nRaw := 300
	if o.Thorough() {
		nRaw = 5000
	}
	for i := 0; i < nRaw; i++ {
		n := rng.Intn(40)
		s := rng.Bytes(n)
		if n > 0 && rng.Chance(0.7) {
			// bias the format byte to the legal formats
			s[0] = byte(rng.Pick(0, 1, 2, 4, 5, 3, 7))<<5 | byte(rng.Pick(0, 1, 0, 1, 2, 3))<<3 | byte(rng.Pick(0, 0, 0, 1, 7))
		}
		addRaw("random", s, rng.Chance(0.8))
	}

	run.Finish("c15case",
		"payload classes of the quantifier x {none,snappy,gzip,lz4} x {none,CRC32}; every single-bit flip, one random byte substitution and every truncation of small envelopes; random byte strings; a case is non-trivial and distinct by (kind, format, checksum, size class, content hash)",
		tail)
}

// bigData: a payload determined by its size alone (so that replay files need not carry it):
// random bytes for even sizes, text-like for odd sizes.
func bigData(n int) []byte {
	r := lib.NewRand(uint64(n)*7919 + 13)
	if n%2 == 0 {
		return r.Bytes(n)
	}
	data := make([]byte, n)
	const txt = "the quick brown fox jumps over the lazy dog\n"
	for j := range data {
		data[j] = txt[(j*7+r.Intn(3))%len(txt)]
	}
	return data
}

func addBigSer(run *lib.Run, n int, comp uint8, level int8, cks uint8) (string, []byte) {
	data := bigData(n)
	scls, sbytes := goSerialize(data, comp, level, cks)
	dc, db, _ := goDeserialize(sbytes, true)
	rc, rb, _ := goDeserialize(sbytes, false)
	rawOK := rc == "ok" && bytes.Equal(rb, payloadOf(sbytes))
	term := fmt.Sprintf("CBigSer %d %d %d %s %s %s", n, comp, cks, lib.CoqBool(scls == "ok"),
		lib.CoqBool(dc == "ok" && bytes.Equal(db, data)), lib.CoqBool(rawOK))
	run.Count("size:big")
	run.Add("big-serialize", term, jcase{Kind: "big-serialize", Comp: comp, Level: level, Cks: cks, Pos: n}, fmt.Sprintf("big/%d/%d/%d", n, comp, cks))
	return scls, sbytes
}

func addBigCorrupt(run *lib.Run, sbytes []byte, n int, comp uint8, level int8, cks uint8, pos int, mask byte) {
	mut := append([]byte{}, sbytes...)
	mut[pos] ^= mask
	libcls := "ok"
	if comp != 0 {
		libcls, _ = libDecompress(comp, payloadOf(mut))
	}
	gc, _, _ := goDeserialize(mut, true)
	cl := map[string]string{"ok": "OOk", "err": "OErr", "panic": "OPanic"}[gc]
	term := fmt.Sprintf("CBigCorrupt %d %d %d %d %s %s", n, comp, cks, pos, lib.CoqBool(libcls != "ok"), cl)
	run.Count("big-corrupt-result:" + gc)
	run.Add("big-corrupt", term, jcase{Kind: "big-corrupt", Comp: comp, Level: level, Cks: cks, Pos: pos, B: mask, Data: []byte(fmt.Sprint(n))}, fmt.Sprintf("bigc/%d/%d/%d/%d/%d", n, comp, cks, pos, mask))
}

func allZero(b []byte) bool {
	for _, x := range b {
		if x != 0 {
			return false
		}
	}
	return true
}

// burstMask: a non-zero xor mask confined to 32 consecutive bits: 1..4 whole bytes, or 5 bytes holding a
// 32-bit word shifted by 1..7 bits; random or adversarial (the CRC polynomial in both bit orders, its
// table entry, all ones, isolated end bits).  With control set: the 33-bit generator polynomial itself
// (one bit too long), which no CRC-32 can detect - the model and the Go library must agree on that too.
func burstMask(rng *lib.Rand, control bool) ([]byte, bool) {
	le5 := func(v uint64) []byte {
		return []byte{byte(v), byte(v >> 8), byte(v >> 16), byte(v >> 24), byte(v >> 32)}
	}
	if control {
		return le5(uint64(0x1DB710641) << uint(rng.Intn(8))), true
	}
	words := []uint32{0xEDB88320, 0x04C11DB7, 0xDB710641, 0x77073096, 0xFFFFFFFF, 0x80000001, 0x2083B8ED, 0xB71DC104, 0x00000001, 0x80000000}
	w := words[rng.Intn(len(words))]
	if rng.Chance(0.5) {
		w = uint32(rng.U64())
	}
	if w == 0 {
		w = 1
	}
	switch rng.Intn(3) {
	case 0: // 32 bits at a bit offset 1..7: five bytes
		j := uint(1 + rng.Intn(7))
		return le5(uint64(w) << j), false
	case 1: // 4 whole bytes
		return le5(uint64(w))[:4], false
	default: // 1..3 whole bytes
		n := 1 + rng.Intn(3)
		m := le5(uint64(w))[:n]
		if allZero(m) {
			m[n-1] = byte(1 + rng.Intn(255))
		}
		return m, false
	}
}

func xorAt(s []byte, pos int, mask []byte) []byte {
	out := append([]byte{}, s...)
	for i, m := range mask {
		if pos+i < len(out) {
			out[pos+i] ^= m
		}
	}
	return out
}

func oc(cls string) string {
	return map[string]string{"ok": "OOk", "err": "OErr", "panic": "OPanic"}[cls]
}

func addBurst(run *lib.Run, s0 []byte, alts []jalt) {
	var terms []string
	for _, a := range alts {
		mut := xorAt(s0, a.Pos, a.Mask)
		if hostile(mut) {
			run.Count("skipped:hostile-size")
			continue
		}
		fc, _, _ := goDeserialize(mut, false)
		tc := fc
		if !a.Ctl {
			tc, _, _ = goDeserialize(mut, true)
		}
		kind := "payload"
		if a.Pos < 5 {
			kind = "straddle"
		}
		if a.Ctl {
			kind = "generator-control"
		}
		run.Count(fmt.Sprintf("burst:%s/len%d/result:%s", kind, len(a.Mask), fc))
		terms = append(terms, fmt.Sprintf("(%d, %s, %s, %s)", a.Pos, lib.CoqBytes(a.Mask), oc(tc), oc(fc)))
	}
	term := fmt.Sprintf("CBurst %s [%s]", lib.CoqBytesCompact(s0), strings.Join(terms, "; "))
	run.Add("burst", term, jcase{Kind: "burst", S: s0, Alts: alts}, fmt.Sprintf("burst/%x/%d", crcKey(s0), len(alts)))
}

func addCrc(run *lib.Run, data []byte, alts []jalt) {
	var terms []string
	for _, a := range alts {
		terms = append(terms, fmt.Sprintf("(%d, %s, %d)", a.Pos, lib.CoqBytes(a.Mask), crc32.ChecksumIEEE(xorAt(data, a.Pos, a.Mask))))
	}
	term := fmt.Sprintf("CCrc %s %d [%s]", lib.CoqBytesCompact(data), crc32.ChecksumIEEE(data), strings.Join(terms, "; "))
	run.Count("crc32:strings")
	run.Add("crc", term, jcase{Kind: "crc", Data: data, Alts: alts}, fmt.Sprintf("crc/%x/%d", crcKey(data), len(data)))
}

func addBigBurst(run *lib.Run, sbytes []byte, n int, comp uint8, level int8, cks uint8, pos int, mask []byte) {
	gc, _, _ := goDeserialize(xorAt(sbytes, pos, mask), true)
	term := fmt.Sprintf("CBigBurst %d %d %d %d %s %s", n, comp, cks, pos, lib.CoqBytes(mask), oc(gc))
	run.Count("big-burst-result:" + gc)
	run.Add("big-burst", term, jcase{Kind: "big-burst", Comp: comp, Level: level, Cks: cks, Pos: pos, Mask: mask, Data: []byte(fmt.Sprint(n))}, fmt.Sprintf("bigb/%d/%d/%d/%d/%x", n, comp, cks, pos, crcKey(mask)))
}

// scanMeta: the repos as stored (metadata values written by repoT.saveToStore): format byte and detection of
// single-bit alterations of the stored value.  The datastore must be open.
func scanMeta(run *lib.Run, rng *lib.Rand) {
	if mdb, err := storage.MetaDataKVStore(); err == nil {
		var mctx storage.MetadataContext
		kvs, err := mdb.GetRange(mctx, storage.MinTKey(storage.TKeyMinClass), storage.MaxTKey(storage.TKeyMaxClass))
		if err != nil {
			fmt.Fprintln(os.Stderr, "c15: cannot read the metadata range:", err)
			os.Exit(2)
		}
		for _, kv := range kvs {
			if kv == nil || len(kv.K) == 0 || len(kv.V) < 6 {
				continue
			}
			all := true
			for i := 0; i < 48; i++ {
				mut := append([]byte{}, kv.V...)
				pos := 5 + rng.Intn(len(mut)-5)
				mut[pos] ^= byte(1) << uint(rng.Intn(8))
				if cls, _, _ := goDeserialize(mut, true); cls == "ok" {
					all = false
				}
			}
			run.Count(fmt.Sprintf("stored-metadata:class%d", kv.K[0]))
			run.Add("stored-metadata", fmt.Sprintf("CMeta %d %d %d %s", kv.K[0], kv.V[0], len(kv.V), lib.CoqBool(all)),
				jcase{Kind: "stored-metadata"}, fmt.Sprintf("meta/%d/%d/%d", kv.K[0], kv.V[0], len(kv.V)))
		}
	}
}

// keyvalue instances, one per (compression setting, checksum), created on demand in one repo
var kvSettings = []string{"none", "snappy", "lz4", "gzip", "gzip:1", "gzip:9"}
var kvComp = []uint8{0, 1, 4, 2, 2, 2}
var kvRoot string
var kvMade = map[string]int{}

func kvOpen() {
	dv.Quiet()
	dv.Open()
	var err error
	if kvRoot, err = dv.NewRepo("c15"); err != nil {
		fmt.Fprintln(os.Stderr, "c15: cannot create repo:", err)
		os.Exit(2)
	}
}

func addKV(run *lib.Run, si int, cks uint8, data []byte) {
	name := fmt.Sprintf("kv%d_%d", si, cks)
	if _, ok := kvMade[name]; !ok {
		if err := dv.NewInstance(kvRoot, "keyvalue", name, map[string]string{"Compression": kvSettings[si], "Checksum": []string{"none", "crc32"}[cks]}); err != nil {
			fmt.Fprintln(os.Stderr, "c15: cannot create keyvalue instance:", err)
			os.Exit(2)
		}
	}
	kvMade[name]++
	key := fmt.Sprintf("k%d", kvMade[name])
	url := "/api/node/" + kvRoot + "/" + name + "/key/" + key
	pr := dv.Post(url, data)
	gr := dv.Get(url)
	cls := "err"
	switch {
	case gr.Panic || pr.Panic:
		cls = "panic"
	case gr.Status == 200:
		cls = "ok"
	}
	bd := lib.NewBinder()
	term := bd.Wrap(fmt.Sprintf("CKV %d %d %s %s %s", kvComp[si], cks, bd.Bytes(data), lib.CoqBool(pr.Status == 200), lib.CoqRes(cls, bd.Bytes(gr.Body))))
	run.Count("kv:" + kvSettings[si] + "/cks:" + fmt.Sprint(cks))
	run.Add("kv", term, jcase{Kind: "kv", Data: data, Comp: uint8(si), Cks: cks}, fmt.Sprintf("kv/%d/%d/%x/%d", si, cks, crcKey(data), len(data)))
}

func crcKey(b []byte) uint32 {
	var h uint32 = 2166136261
	for _, x := range b {
		h = (h ^ uint32(x)) * 16777619
	}
	return h
}

const tail = `
Definition spec_fail := Eval vm_compute in c15_spec_fail cases.
Definition model_mismatch := Eval vm_compute in c15_model_mismatch cases.
`
