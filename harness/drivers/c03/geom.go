// Driver C03, second family of instances: datatypes whose instance-level properties are derived from the
// data that was written (roi: MinZ/MaxZ of the stored spans; imageblk: extents) and are saved with the repo
// metadata, not with the data.  A write that changes the data but skips (or mis-orders) the save of the
// properties is invisible while the server runs and shows after a restart.
package main

import (
	"crypto/sha1"
	"encoding/json"
	"fmt"

	"verif/harness/lib"
)

// z ranges (block coordinates) the generated ROIs are drawn from: few, so that a later POST often covers
// exactly the z range of the stored ROI, sometimes a wider, narrower or disjoint one
var roiZ = [][2]int{{100, 103}, {100, 103}, {100, 101}, {98, 105}, {-3, 0}, {0, 0}, {200, 200}}

var imgOffsets = [][3]int{{0, 0, 0}, {32, 0, 0}, {0, 64, 32}, {-32, -32, -32}, {96, 96, 96}, {0, 0, -64}}

func geomOp(rng *lib.Rand, v int) hop {
	switch rng.Intn(6) {
	case 0:
		return hop{Op: "roidel", V: v}
	case 1, 2:
		return hop{Op: "imgpost", V: v, N: uint64(rng.Intn(len(imgOffsets))), Key: fmt.Sprint(1 + rng.Intn(200))}
	}
	zr := roiZ[rng.Intn(len(roiZ))]
	var spans [][4]int
	for z := zr[0]; z <= zr[1]; z++ {
		for j := 0; j <= rng.Intn(2); j++ {
			y := rng.Intn(7) - 3
			x0 := rng.Intn(9) - 4
			spans = append(spans, [4]int{z, y + 2*j*4, x0, x0 + rng.Intn(3)})
		}
	}
	b, _ := json.Marshal(spans)
	return hop{Op: "roipost", V: v, Val: string(b)}
}

func (s *state) execGeom(o hop, u string) bool {
	p := s.p
	switch o.Op {
	case "roipost":
		p.Post("/api/node/"+u+"/"+s.n("roi")+"/roi", []byte(o.Val))
	case "roidel":
		p.HTTP("DELETE", "/api/node/"+u+"/"+s.n("roi")+"/roi", nil)
	case "imgpost":
		off := imgOffsets[int(o.N)%len(imgOffsets)]
		var fill byte = 7
		fmt.Sscan(o.Key, &fill)
		buf := make([]byte, 32*32*32)
		for i := range buf {
			buf[i] = fill + byte(i%5)
		}
		p.Post(fmt.Sprintf("/api/node/%s/%s/raw/0_1_2/32_32_32/%d_%d_%d", u, s.n("img"), off[0], off[1], off[2]), buf)
	default:
		return false
	}
	return true
}

// instance-level derived properties, read from the instance info without the generic stripping of canonJSON
func (s *state) snapshotProps(add func(kind, key, val string)) {
	pick := func(logical string, fields ...string) string {
		st, b, _ := s.p.Get("/api/node/" + s.root + "/" + s.n(logical) + "/info")
		var info struct{ Extended map[string]json.RawMessage }
		json.Unmarshal(b, &info)
		out := fmt.Sprint(st)
		for _, f := range fields {
			out += fmt.Sprintf(" %s=%s", f, info.Extended[f])
		}
		return out
	}
	add("roi-props", "", pick("roi", "MinZ", "MaxZ", "BlockSize"))
	add("img-props", "", pick("img", "MinPoint", "MaxPoint", "MinIndex", "MaxIndex", "BlockSize", "Background"))
}

func (s *state) snapshotGeom(add func(kind, key, val string), u, vk string) {
	add("roi-spans", vk, s.getJ("/api/node/"+u+"/"+s.n("roi")+"/roi"))
	add("roi-partition", vk, s.getJ("/api/node/"+u+"/"+s.n("roi")+"/partition?batchsize=2"))
	add("roi-ptquery", vk, func() string {
		st, b, _ := s.p.HTTP("POST", "/api/node/"+u+"/"+s.n("roi")+"/ptquery", []byte("[[0,0,3210],[10,100,3230],[0,0,0],[-90,-90,-90]]"))
		return fmt.Sprintf("%d:%s", st, b)
	}())
	for i, off := range imgOffsets {
		st, b, _ := s.p.Get(fmt.Sprintf("/api/node/%s/%s/raw/0_1_2/32_32_32/%d_%d_%d", u, s.n("img"), off[0], off[1], off[2]))
		add("img-raw", fmt.Sprintf("%s/%d", vk, i), fmt.Sprintf("%d:%x", st, sha1.Sum(b)))
	}
	add("img-metadata", vk, s.getJ("/api/node/"+u+"/"+s.n("img")+"/metadata"))
}
