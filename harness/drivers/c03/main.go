// Driver C03: a restart changes nothing observable.
// A history of acknowledged requests is run in a child server; at each cut point every read
// endpoint of every instance at every version is snapshotted, the process is stopped (clean quit or
// SIGKILL while idle), a NEW process is started on the same directories and the snapshot is taken
// again.  Differences are reported per endpoint kind; the repo metadata, branch heads, label
// mapping / split records and label counters are additionally compared with the Coq models.
package main

import (
	"bytes"
	"compress/gzip"
	"encoding/binary"
	"encoding/json"
	"fmt"
	"io"
	"log"
	"os"
	"regexp"
	"sort"
	"strings"
	"time"

	"github.com/janelia-flyem/dvid/datatype/common/labels"
	"github.com/janelia-flyem/dvid/datatype/common/proto"
	"github.com/janelia-flyem/dvid/dvid"
	"github.com/janelia-flyem/dvid/storage"
	_ "github.com/janelia-flyem/dvid/storage/filelog"
	pb "google.golang.org/protobuf/proto"

	"verif/harness/dvh"
	"verif/harness/lib"
)

func fatal(f string, a ...interface{}) {
	fmt.Fprintf(os.Stderr, "c03: "+f+"\n", a...)
	os.Exit(3)
}

type hop struct {
	Op      string   `json:"op"`
	V       int      `json:"v,omitempty"`
	Parents []int    `json:"parents,omitempty"`
	Branch  string   `json:"branch,omitempty"`
	Key     string   `json:"key,omitempty"`
	Val     string   `json:"val,omitempty"`
	Labels  []uint64 `json:"labels,omitempty"`
	N       uint64   `json:"n,omitempty"`
	Kill    bool     `json:"kill,omitempty"` // restart: SIGKILL instead of a clean quit
	Replace bool     `json:"replace,omitempty"`
	// mappings: one MappingOp per entry, [mapped, original...]; an EMPTY entry is the all-default
	// MappingOp, whose protobuf serialisation (and hence its mutation-log record) has zero bytes
	Maps [][]uint64 `json:"maps,omitempty"`
}

type jcase struct {
	Kind string `json:"kind"` // "history"
	Name string `json:"name"`
	Ops  []hop  `json:"ops"`
	// set when a difference seen in the first execution did not show again: its signature
	FirstOutcome string `json:"first_outcome,omitempty"`
}

// ---- live view ----
type nodeInfo struct {
	Branch    string
	UUID      string
	VersionID int
	Locked    bool
	Parents   []int
	Children  []int
	Note      string
}
type repoInfo struct {
	Root          string
	Alias         string
	DataInstances map[string]json.RawMessage
	DAG           struct {
		Root  string
		Nodes map[string]nodeInfo
	}
}

type state struct {
	p       *dvh.Proc
	dir     string
	root    string
	vuuid   map[int]string
	keys    map[string]bool
	njKeys  map[string]bool
	lmLabel map[uint64]bool // labels / supervoxels ever seen
	blocks  int
	blockOf map[uint64]int // solid block index of an ingested label
	svsplit [][4]uint64    // model ops, per version of the labelmap mutations
	mapops  map[int][]string
	mapsegs map[int][]string // per version: finished segments (between restarts) of model ops
	vops    []string         // label mutations of ALL versions in the order made, "(v, op)", current segment
	vsegs   []string         // finished segments of vops
	haveLM  bool
	nm      map[string]string // logical instance name -> current name (instances can be renamed)
}

func (s *state) refresh() repoInfo {
	_, body, _ := s.p.Get("/api/repos/info")
	var infos map[string]repoInfo
	json.Unmarshal(body, &infos)
	for _, ri := range infos {
		s.root = ri.Root
		for _, n := range ri.DAG.Nodes {
			s.vuuid[n.VersionID] = n.UUID
		}
		return ri
	}
	return repoInfo{}
}

func solidBlocks(lbls []uint64, first int) []byte {
	var buf bytes.Buffer
	for i, l := range lbls {
		b := labels.MakeSolidBlock(l, dvid.Point3d{64, 64, 64})
		ser, _ := b.MarshalBinary()
		var gz bytes.Buffer
		w := gzip.NewWriter(&gz)
		w.Write(ser)
		w.Close()
		binary.Write(&buf, binary.LittleEndian, int32(first+i))
		binary.Write(&buf, binary.LittleEndian, int32(0))
		binary.Write(&buf, binary.LittleEndian, int32(0))
		binary.Write(&buf, binary.LittleEndian, int32(gz.Len()))
		buf.Write(gz.Bytes())
	}
	return buf.Bytes()
}

// sparse volume: the first `rows` rows (y) of slice z=0 of solid block `block`
func sparseRows(block, rows int) []byte {
	var buf bytes.Buffer
	buf.Write([]byte{0, 3, 0, 0})
	binary.Write(&buf, binary.LittleEndian, uint32(0))
	binary.Write(&buf, binary.LittleEndian, uint32(rows))
	for y := 0; y < rows; y++ {
		binary.Write(&buf, binary.LittleEndian, int32(block*64))
		binary.Write(&buf, binary.LittleEndian, int32(y))
		binary.Write(&buf, binary.LittleEndian, int32(0))
		binary.Write(&buf, binary.LittleEndian, int32(64))
	}
	return buf.Bytes()
}

func (s *state) n(logical string) string {
	if s.nm != nil {
		if x, ok := s.nm[logical]; ok {
			return x
		}
	}
	return logical
}

func (s *state) exec(o hop) {
	p := s.p
	u := s.vuuid[o.V]
	if u == "" {
		u = s.root
	}
	post := func(url string, body interface{}) (int, []byte) {
		st, b, alive := p.PostJSON(url, body)
		if !alive {
			fatal("child died at %+v: %s", o, p.Stderr)
		}
		return st, b
	}
	switch o.Op {
	case "commit":
		post("/api/node/"+u+"/commit", map[string]string{"note": "c"})
	case "newversion":
		post("/api/node/"+u+"/newversion", map[string]string{"note": "v"})
	case "branch":
		post("/api/node/"+u+"/branch", map[string]string{"branch": o.Branch, "note": "b"})
	case "merge":
		var ps []string
		for _, pv := range o.Parents {
			ps = append(ps, s.vuuid[pv])
		}
		post("/api/repo/"+s.root+"/merge", map[string]interface{}{"mergeType": "conflict-free", "parents": ps, "note": "m"})
	case "note":
		post("/api/node/"+u+"/note", map[string]string{"note": o.Val})
	case "log":
		post("/api/node/"+u+"/log", map[string][]string{"log": {o.Val}})
	case "put":
		s.keys[o.Key] = true
		p.Post("/api/node/"+u+"/"+s.n("kv")+"/key/"+o.Key, []byte(o.Val))
	case "del":
		p.HTTP("DELETE", "/api/node/"+u+"/"+s.n("kv")+"/key/"+o.Key, nil)
	case "njput":
		s.njKeys[o.Key] = true
		// neuronjson refuses writes without a user
		url := "/api/node/" + u + "/" + s.n("nj") + "/key/" + o.Key + "?u=tester"
		if o.Replace {
			url += "&replace=true"
		}
		if st, b, _ := p.Post(url, []byte(o.Val)); st != 200 && !strings.Contains(string(b), "locked") {
			fatal("neuronjson POST %s: %d %s", url, st, b)
		}
	case "njdel":
		p.HTTP("DELETE", "/api/node/"+u+"/"+s.n("nj")+"/key/"+o.Key+"?u=tester", nil)
	case "mappings":
		ops := &proto.MappingOps{}
		for _, m := range o.Maps {
			op := &proto.MappingOp{}
			if len(m) > 0 {
				op.Mapped = m[0]
				op.Original = m[1:]
				op.Mutid = uint64(len(ops.Mappings) + 1)
				for _, l := range m {
					s.lmLabel[l] = true
				}
			}
			ops.Mappings = append(ops.Mappings, op)
		}
		ser, err := pb.Marshal(ops)
		if err != nil {
			fatal("marshal mappings: %v", err)
		}
		p.Post("/api/node/"+u+"/"+s.n("lm")+"/mappings", ser)
	case "annput":
		p.Post("/api/node/"+u+"/"+s.n("ann")+"/elements", []byte(o.Val))
	case "ingest":
		st, b, _ := p.Post("/api/node/"+u+"/"+s.n("lm")+"/blocks", solidBlocks(o.Labels, s.blocks))
		if st != 200 {
			fatal("POST blocks: %d %s", st, b)
		}
		for i, l := range o.Labels {
			s.lmLabel[l] = true
			s.blockOf[l] = s.blocks + i
		}
		s.blocks += len(o.Labels)
		time.Sleep(40 * time.Millisecond)
	case "lmmerge":
		st, b := post("/api/node/"+u+"/"+s.n("lm")+"/merge", o.Labels)
		if st == 200 {
			var r struct{ MutationID uint64 }
			json.Unmarshal(b, &r)
			mop := fmt.Sprintf("OMerge %d %d %s", r.MutationID, o.Labels[0], lib.CoqNList(o.Labels[1:]))
			s.mapops[o.V] = append(s.mapops[o.V], mop)
			s.vops = append(s.vops, fmt.Sprintf("(%d, %s)", o.V, mop))
		}
	case "cleave":
		st, b := post(fmt.Sprintf("/api/node/%s/%s/cleave/%d", u, s.n("lm"), o.N), o.Labels)
		if st == 200 {
			var r struct{ CleavedLabel, MutationID uint64 }
			json.Unmarshal(b, &r)
			s.lmLabel[r.CleavedLabel] = true
			mop := fmt.Sprintf("OCleave %d %d %s", r.MutationID, r.CleavedLabel, lib.CoqNList(o.Labels))
			s.mapops[o.V] = append(s.mapops[o.V], mop)
			s.vops = append(s.vops, fmt.Sprintf("(%d, %s)", o.V, mop))
		}
	case "splitsv":
		blk, ok := s.blockOf[o.N]
		if !ok {
			return
		}
		st, b, _ := p.Post(fmt.Sprintf("/api/node/%s/%s/split-supervoxel/%d", u, s.n("lm"), o.N), sparseRows(blk, 4))
		if st == 200 {
			var r struct{ SplitSupervoxel, RemainSupervoxel, MutationID uint64 }
			json.Unmarshal(b, &r)
			s.lmLabel[r.SplitSupervoxel], s.lmLabel[r.RemainSupervoxel] = true, true
			mop := fmt.Sprintf("OSvSplit %d %d %d %d", r.MutationID, o.N, r.RemainSupervoxel, r.SplitSupervoxel)
			s.mapops[o.V] = append(s.mapops[o.V], mop)
			s.vops = append(s.vops, fmt.Sprintf("(%d, %s)", o.V, mop))
		}
	case "sync": // Key = logical instance, Val = comma list of logical instances ("" clears), Kill = replace
		var names []string
		for _, x := range strings.Split(o.Val, ",") {
			if x != "" {
				names = append(names, s.n(x))
			}
		}
		url := "/api/node/" + u + "/" + s.n(o.Key) + "/sync"
		if o.Replace {
			url += "?replace=true"
		}
		post(url, map[string]string{"sync": strings.Join(names, ",")})
	case "rename": // Key = logical instance, Val = new name
		if s.nm == nil {
			s.nm = map[string]string{}
		}
		if r, _ := p.Rename(s.root, s.n(o.Key), o.Val); r.S == 200 {
			s.nm[o.Key] = o.Val
		}
	case "tags":
		post("/api/node/"+u+"/"+s.n(o.Key)+"/tags", map[string]string{"k": o.Val})
	case "resolution":
		post("/api/node/"+u+"/"+s.n("lm")+"/resolution", []float64{float64(o.N), float64(o.N), float64(o.N) + 0.5})
	case "repoinfo":
		post("/api/repo/"+s.root+"/info", map[string]string{"alias": "r1", "description": o.Val})
	case "repolog":
		post("/api/repo/"+s.root+"/log", map[string][]string{"log": {o.Val}})
	case "maxlabel":
		p.Post(fmt.Sprintf("/api/node/%s/%s/maxlabel/%d", u, s.n("lm"), o.N), nil)
	case "nextlabel":
		p.Post(fmt.Sprintf("/api/node/%s/%s/nextlabel/%d", u, s.n("lm"), o.N), nil)
	default:
		if !s.execGeom(o, u) {
			fatal("unknown op %q", o.Op)
		}
	}
	s.refresh()
}

// ---- snapshot ----
type probe struct {
	Kind string // endpoint kind
	Key  string
	Val  string
}

var tsRe = regexp.MustCompile(`\d{4}-\d{2}-\d{2}T\d{2}:\d{2}:\d{2}[^" ]*`)

func canonJSON(b []byte) string {
	var v interface{}
	if json.Unmarshal(b, &v) != nil {
		return string(b)
	}
	var walk func(x interface{}) interface{}
	walk = func(x interface{}) interface{} {
		switch t := x.(type) {
		case map[string]interface{}:
			// MaxRepoLabel / MaxLabel of a labelmap are compared through GET maxlabel / nextlabel
			// block-index extents are compared on their own (lm-extents-index); the "Extents" object of a
			// labelmap is computed at the master leaf and follows the branch-head probe
			for _, k := range []string{"Created", "Updated", "MutationID", "SavedMutationID", "MaxRepoLabel", "MaxLabel", "MinIndex", "MaxIndex", "Extents"} {
				delete(t, k)
			}
			for k, e := range t {
				t[k] = walk(e)
			}
			if len(t) == 0 {
				return nil // {} and null are not told apart (nil maps come back empty from gob)
			}
			return t
		case []interface{}:
			for i, e := range t {
				t[i] = walk(e)
			}
			if len(t) == 0 {
				return nil // [] and null likewise
			}
			return t
		case string:
			return tsRe.ReplaceAllString(t, "T")
		}
		return x
	}
	out, _ := json.Marshal(walk(v))
	return string(out)
}

// a JSON array of numbers that is a set: compare sorted
func sortedArray(v string) string {
	i := strings.Index(v, ":")
	var xs []uint64
	if i < 0 || json.Unmarshal([]byte(v[i+1:]), &xs) != nil {
		return v
	}
	sort.Slice(xs, func(a, b int) bool { return xs[a] < xs[b] })
	b, _ := json.Marshal(xs)
	return v[:i+1] + string(b)
}

// a JSON array of strings that is a set: compare sorted
func sortedStrings(v string) string {
	i := strings.Index(v, ":")
	var xs []string
	if i < 0 || json.Unmarshal([]byte(v[i+1:]), &xs) != nil {
		return v
	}
	sort.Strings(xs)
	b, _ := json.Marshal(xs)
	return v[:i+1] + string(b)
}

func (s *state) get(url string) string {
	st, b, _ := s.p.Get(url)
	if st >= 400 {
		// error texts are not compared (they list versions / keys in map-iteration order), the refusal is
		return fmt.Sprintf("%d:", st)
	}
	return fmt.Sprintf("%d:%s", st, b)
}

// getJinfo: instance info with the parts that other probes own removed
func (s *state) getJinfo(url string) string {
	st, b, _ := s.p.Get(url)
	return fmt.Sprintf("%d:%s", st, canonJSON(b))
}

// getJ: like get, for JSON answers (empty list/map and null are not told apart)
func (s *state) getJ(url string) string {
	st, b, _ := s.p.Get(url)
	if st >= 400 {
		return fmt.Sprintf("%d:", st)
	}
	return fmt.Sprintf("%d:%s", st, canonJSON(b))
}

func (s *state) snapshot() []probe {
	var ps []probe
	add := func(kind, key, val string) { ps = append(ps, probe{kind, key, val}) }
	_, body, _ := s.p.Get("/api/repos/info")
	add("repos-info", "", canonJSON(body))
	ri := s.refresh()
	_, body, _ = s.p.Get("/api/repo/" + s.root + "/info")
	add("repo-info", "", canonJSON(body))
	{
		var ri struct {
			DataInstances map[string]struct {
				Extended struct{ MinIndex, MaxIndex json.RawMessage }
			}
		}
		json.Unmarshal(body, &ri)
		if lm, ok := ri.DataInstances[s.n("lm")]; ok {
			add("lm-extents-index", "", fmt.Sprintf("%s/%s", lm.Extended.MinIndex, lm.Extended.MaxIndex))
		}
	}
	var vs []int
	for _, n := range ri.DAG.Nodes {
		vs = append(vs, n.VersionID)
	}
	// leaf versions first: state rebuilt lazily at start-up (label mappings) must not depend on which
	// version is asked first
	sort.Sort(sort.Reverse(sort.IntSlice(vs)))
	for _, logical := range []string{"kv", "lm", "nj", "ann", "roi", "img"} {
		if logical == "lm" && !s.haveLM {
			continue
		}
		add("data-info", logical, s.getJinfo("/api/node/"+s.root+"/"+s.n(logical)+"/info"))
		add("data-tags", logical, s.getJ("/api/node/"+s.root+"/"+s.n(logical)+"/tags"))
	}
	add("repo-log", "", s.getJ("/api/repo/"+s.root+"/log"))
	s.snapshotProps(add)
	branches := map[string]bool{"master": true}
	for _, n := range ri.DAG.Nodes {
		if n.Branch != "" {
			branches[n.Branch] = true
		}
	}
	var bs []string
	for b := range branches {
		bs = append(bs, b)
	}
	sort.Strings(bs)
	for _, b := range bs {
		add("branch-versions", b, s.get("/api/repo/"+s.root+"/branch-versions/"+b))
		// head resolution through the live branch map: every version holds key "ver" = its id
		add("branch-head", b, s.get("/api/node/"+s.root+":"+b+"/"+s.n("kv")+"/key/ver"))
	}
	var keys []string
	for k := range s.keys {
		keys = append(keys, k)
	}
	sort.Strings(keys)
	var njk []string
	for k := range s.njKeys {
		njk = append(njk, k)
	}
	sort.Strings(njk)
	var lbls []uint64
	for l := range s.lmLabel {
		lbls = append(lbls, l)
	}
	sort.Slice(lbls, func(i, j int) bool { return lbls[i] < lbls[j] })
	for _, v := range vs {
		u := s.vuuid[v]
		vk := fmt.Sprint(v)
		add("node-note", vk, s.get("/api/node/"+u+"/note"))
		add("node-log", vk, s.getJ("/api/node/"+u+"/log"))
		add("node-status", vk, s.get("/api/node/"+u+"/status"))
		add("kv-keys", vk, s.getJ("/api/node/"+u+"/"+s.n("kv")+"/keys"))
		for _, k := range keys {
			add("kv-key", vk+"/"+k, s.get("/api/node/"+u+"/"+s.n("kv")+"/key/"+k))
		}
		add("nj-all", vk, s.getJ("/api/node/"+u+"/"+s.n("nj")+"/all"))
		add("nj-keys", vk, s.getJ("/api/node/"+u+"/"+s.n("nj")+"/keys"))
		add("nj-fields", vk, sortedStrings(s.get("/api/node/"+u+"/"+s.n("nj")+"/fields")))
		for _, k := range njk {
			add("nj-key", vk+"/"+k, s.getJ("/api/node/"+u+"/"+s.n("nj")+"/key/"+k))
		}
		add("ann-all", vk, s.getJ("/api/node/"+u+"/"+s.n("ann")+"/all-elements"))
		s.snapshotGeom(add, u, vk)
		if s.haveLM {
			add("lm-maxlabel", vk, s.get("/api/node/"+u+"/"+s.n("lm")+"/maxlabel"))
			add("lm-nextlabel", vk, s.get("/api/node/"+u+"/"+s.n("lm")+"/nextlabel"))
			add("lm-splits", vk, s.get("/api/node/"+u+"/"+s.n("lm")+"/supervoxel-splits"))
			for i := 0; i < s.blocks; i++ {
				add("lm-label", fmt.Sprintf("%s/%d", vk, i), s.get(fmt.Sprintf("/api/node/%s/%s/label/%d_10_10", u, s.n("lm"), i*64+10)))
				add("lm-label-sv", fmt.Sprintf("%s/%d", vk, i), s.get(fmt.Sprintf("/api/node/%s/%s/label/%d_10_10?supervoxels=true", u, s.n("lm"), i*64+10)))
			}
			for _, l := range lbls {
				add("lm-size", fmt.Sprintf("%s/%d", vk, l), s.get(fmt.Sprintf("/api/node/%s/%s/size/%d", u, s.n("lm"), l)))
				add("lm-supervoxels", fmt.Sprintf("%s/%d", vk, l), sortedArray(s.get(fmt.Sprintf("/api/node/%s/%s/supervoxels/%d", u, s.n("lm"), l))))
			}
			if len(lbls) > 0 {
				b, _ := json.Marshal(lbls)
				st, rb, _ := s.p.HTTP("GET", "/api/node/"+u+"/"+s.n("lm")+"/mapping", b)
				add("lm-mapping", vk, fmt.Sprintf("%d:%s", st, rb))
			}
		}
	}
	return ps
}

// ---- canonical repo metadata for the Persist model ----
func snapRepos(ri repoInfo, branchNo map[string]int, s *state) string {
	var ns []string
	var vs []int
	byV := map[int]nodeInfo{}
	rootV := 0
	for _, n := range ri.DAG.Nodes {
		vs = append(vs, n.VersionID)
		byV[n.VersionID] = n
		if n.UUID == ri.DAG.Root {
			rootV = n.VersionID
		}
	}
	sort.Ints(vs)
	ints := func(xs []int) string {
		ss := make([]string, len(xs))
		for i, x := range xs {
			ss[i] = fmt.Sprint(x)
		}
		return "[" + strings.Join(ss, ";") + "]"
	}
	for _, v := range vs {
		n := byV[v]
		ns = append(ns, fmt.Sprintf("(%d,(%s,%s,%s,%d))", v, ints(n.Parents), ints(n.Children), lib.CoqBool(n.Locked), branchNo[n.Branch]))
	}
	var ds []string
	var names []string
	for name := range ri.DataInstances {
		names = append(names, name)
	}
	logical := func(cur string) string {
		for l, c := range s.nm {
			if c == cur {
				return l
			}
		}
		return cur
	}
	sort.Slice(names, func(i, j int) bool { return dataNo[logical(names[i])] < dataNo[logical(names[j])] })
	for _, name := range names {
		r, _ := s.p.Call("iid", ri.Root, name)
		ds = append(ds, fmt.Sprintf("(%d,%d)", dataNo[logical(name)], r.N))
	}
	return fmt.Sprintf("[(%d,[%s],[%s])]", rootV, strings.Join(ns, ";"), strings.Join(ds, ";"))
}

func pickS(r *lib.Rand, xs ...string) string { return xs[r.Intn(len(xs))] }

func mutVersions(s *state) int {
	seen := map[int]bool{}
	for v, ops := range s.mapops {
		if len(ops) > 0 {
			seen[v] = true
		}
	}
	for v := range s.mapsegs {
		seen[v] = true
	}
	return len(seen)
}

var dataNo = map[string]int{"kv": 1, "lm": 2, "nj": 3, "ann": 4, "roi": 5, "img": 6}

func headsOf(ps []probe) map[string]string {
	m := map[string]string{}
	for _, p := range ps {
		if p.Kind == "branch-head" {
			m[p.Key] = p.Val
		}
	}
	return m
}

func coqHead(v string) string {
	// "200:ver<k>" -> Some k; anything else -> None
	var k int
	if n, _ := fmt.Sscanf(v, "200:ver%d", &k); n == 1 {
		return fmt.Sprintf("(Some %d)", k)
	}
	return "None"
}

func parseSplits(v string) string {
	// 200:["uuid",[[mut,sv,remain,split],...],"uuid2",[...]] -> all quadruples, in order
	i := strings.Index(v, ":")
	if i < 0 || !strings.HasPrefix(v, "200") {
		return "[]"
	}
	var raw []json.RawMessage
	if json.Unmarshal([]byte(v[i+1:]), &raw) != nil {
		return "[]"
	}
	var out []string
	for _, r := range raw {
		var quads [][]uint64
		if json.Unmarshal(r, &quads) == nil {
			for _, q := range quads {
				if len(q) == 4 {
					out = append(out, fmt.Sprintf("(%d,%d,%d,%d)", q[0], q[1], q[2], q[3]))
				}
			}
		}
	}
	return "[" + strings.Join(out, ";") + "]"
}

type pendingAdd struct {
	kind, term, key string
}

// execution of one history on a fresh directory
type execution struct {
	adds  []pendingAdd
	notes []string
	dist  map[string]int
	diff  bool // something differed across some restart
	sig   string
}

// runHistory executes a history.  If anything differs across a restart the history is re-executed
// twice on fresh directories and the difference is reported only if it shows again both times: a
// genuine restart difference is a deterministic function of the history, while the storage engine was
// seen to lose, now and then, a write acknowledged just before a kill (harness/cmd/killcycle).
func runHistory(run *lib.Run, c jcase) {
	first := execHistory(c)
	pick := first
	if first.diff {
		run.Dist["retries"]++
		again := 0
		var clean *execution
		for i := 0; i < 2; i++ {
			e := execHistory(c)
			if e.diff && e.sig == first.sig {
				again++
			} else if clean == nil {
				ee := e
				clean = &ee
			}
		}
		if again < 2 && clean != nil {
			run.Dist["flaky_crash_points"]++
			c.FirstOutcome = first.sig
			pick = *clean
		}
	}
	for k, v := range pick.dist {
		run.Dist[k] += v
	}
	run.Notes = append(run.Notes, pick.notes...)
	for _, a := range pick.adds {
		run.Add(a.kind, a.term, c, a.key)
	}
}

func execHistory(c jcase) (ex execution) {
	ex.dist = map[string]int{}
	var sigs []string
	defer func() { ex.sig = strings.Join(sigs, "|") }()
	dir, _ := os.MkdirTemp("", "c03")
	defer os.RemoveAll(dir)
	p, err := dvh.Start(dvh.Opts{Dir: dir})
	if err != nil {
		fatal("child: %v", err)
	}
	s := &state{p: p, dir: dir, vuuid: map[int]string{}, keys: map[string]bool{"ver": true}, njKeys: map[string]bool{}, lmLabel: map[uint64]bool{}, blockOf: map[uint64]int{}, mapops: map[int][]string{}, mapsegs: map[int][]string{}}
	p.PostJSON("/api/repos", map[string]string{"alias": "r1"})
	s.refresh()
	branchNo := map[string]int{"": 0}
	var pops, popSegs []string
	pops = append(pops, "PNewRepo 1001")
	uu := 1001
	mkdata := func(typ, name string) {
		p.PostJSON("/api/repo/"+s.root+"/instance", map[string]string{"typename": typ, "dataname": name})
		pops = append(pops, fmt.Sprintf("PNewData 1 %d", dataNo[name]))
	}
	mkdata("keyvalue", "kv")
	s.haveLM = true
	mkdata("labelmap", "lm")
	mkdata("neuronjson", "nj")
	mkdata("annotation", "ann")
	mkdata("roi", "roi")
	mkdata("uint8blk", "img")
	p.Post("/api/node/"+s.root+"/kv/key/ver", []byte("ver1"))

	restarts := 0
	for _, o := range c.Ops {
		if o.Op == "restart" {
			before := s.snapshot()
			riB := s.refresh()
			reposB := snapRepos(riB, branchNo, s)
			if o.Kill {
				s.p.Kill()
			} else {
				s.p.Quit()
			}
			np, err := dvh.Start(dvh.Opts{Dir: dir})
			if err != nil {
				ex.adds = append(ex.adds, pendingAdd{"restart-failed", "(CGen [(1%nat, 1%nat)])", "restart-failed"})
				ex.notes = append(ex.notes, "restart failed: "+err.Error())
				ex.diff = true
				sigs = append(sigs, "restart-failed")
				return
			}
			s.p = np
			after := s.snapshot()
			riA := s.refresh()
			reposA := snapRepos(riA, branchNo, s)
			restarts++
			// generic diff per endpoint kind
			kinds := map[string][2]int{}
			var order []string
			for i := range before {
				k := before[i].Kind
				if _, ok := kinds[k]; !ok {
					order = append(order, k)
				}
				cnt := kinds[k]
				cnt[0]++
				if i >= len(after) || after[i].Val != before[i].Val {
					cnt[1]++
					if cnt[1] == 1 {
						av := "<missing>"
						if i < len(after) {
							av = after[i].Val
						}
						bv := before[i].Val
						d := 0
						for d < len(bv) && d < len(av) && bv[d] == av[d] {
							d++
						}
						lo := d - 60
						if lo < 0 {
							lo = 0
						}
						cut := func(x string) string {
							hi := d + 120
							if hi > len(x) {
								hi = len(x)
							}
							if lo > len(x) {
								return ""
							}
							return x[lo:hi]
						}
						ex.notes = append(ex.notes, fmt.Sprintf("%s restart %d: %s %s: before ...%q after ...%q", c.Name, restarts, k, before[i].Key, cut(bv), cut(av)))
					}
				}
				kinds[k] = cnt
			}
			for _, k := range order {
				if kinds[k][1] > 0 {
					ex.diff = true
					sigs = append(sigs, fmt.Sprintf("r%d:%s", restarts, k))
				}
			}
			if reposB != reposA {
				ex.diff = true
				sigs = append(sigs, fmt.Sprintf("r%d:repos", restarts))
			}
			hasMerge := false
			for _, seg := range append(append([]string{}, popSegs...), strings.Join(pops, ";")) {
				if strings.Contains(seg, "PMerge") {
					hasMerge = true
				}
			}
			var gens []string
			for _, k := range order {
				if k == "branch-versions" && hasMerge {
					ex.adds = append(ex.adds, pendingAdd{"generic-merge", fmt.Sprintf("(CGenMerge [(%d%%nat, %d%%nat)])", kinds[k][0], kinds[k][1]), fmt.Sprintf("genm/%s/%d", c.Name, restarts)})
					continue
				}
				if k == "lm-splits" && mutVersions(s) > 1 {
					// label mutations in several versions: outside the one-version log model, compared as is
					gens = append(gens, fmt.Sprintf("(%d%%nat, %d%%nat)", kinds[k][0], kinds[k][1]))
					continue
				}
				if k == "branch-head" || k == "lm-splits" || k == "lm-nextlabel" || k == "repos-info" || k == "repo-info" || k == "lm-extents-index" {
					continue // compared through the models below
				}
				gens = append(gens, fmt.Sprintf("(%d%%nat, %d%%nat)", kinds[k][0], kinds[k][1]))
				ex.dist["probes:"+k] += kinds[k][0]
				ex.dist["diffs:"+k] += kinds[k][1]
			}
			ex.adds = append(ex.adds, pendingAdd{"generic", fmt.Sprintf("(CGen [%s])", strings.Join(gens, "; ")), fmt.Sprintf("gen/%s/%d", c.Name, restarts)})
			// repo metadata against the Persist model
			segsNow := "[" + strings.Join(append(append([]string{}, popSegs...), "["+strings.Join(pops, "; ")+"]"), "; ") + "]"
			ex.adds = append(ex.adds, pendingAdd{"repos", fmt.Sprintf("(CRepos %s %s %s %s)", segsNow, reposB, reposA,
				lib.CoqBool(kinds["repos-info"][1] == 0 && kinds["repo-info"][1] == 0)), fmt.Sprintf("repos/%s/%d", c.Name, restarts)})
			// branch heads
			hb, ha := headsOf(before), headsOf(after)
			var hs []string
			var bnames []string
			for b := range hb {
				bnames = append(bnames, b)
			}
			sort.Strings(bnames)
			for _, b := range bnames {
				no := branchNo[b]
				if b == "master" {
					no = 0
				}
				hs = append(hs, fmt.Sprintf("(%d, %s, %s)", no, coqHead(hb[b]), coqHead(ha[b])))
			}
			ex.adds = append(ex.adds, pendingAdd{"heads", fmt.Sprintf("(CHeads %s [%s])", segsNow, strings.Join(hs, "; ")), fmt.Sprintf("heads/%s/%d", c.Name, restarts)})
			popSegs = append(popSegs, "["+strings.Join(pops, "; ")+"]")
			pops = nil
			// label mapping and split records per version with mutations
			if s.haveLM {
				find0 := func(ps []probe) string {
					for _, p := range ps {
						if p.Kind == "lm-extents-index" {
							return p.Val
						}
					}
					return ""
				}
				ex.adds = append(ex.adds, pendingAdd{"extents", fmt.Sprintf("(CExtents %s %s)", lib.CoqBool(!strings.Contains(find0(before), "null")), lib.CoqBool(!strings.Contains(find0(after), "null"))), fmt.Sprintf("ext/%s/%d", c.Name, restarts)})
				var vs []int
				seenV := map[int]bool{}
				for v := range s.mapops {
					seenV[v] = true
				}
				for v := range s.mapsegs {
					seenV[v] = true
				}
				for v := range seenV {
					vs = append(vs, v)
				}
				sort.Ints(vs)
				find := func(ps []probe, kind, key string) string {
					for _, p := range ps {
						if p.Kind == kind && p.Key == key {
							return p.Val
						}
					}
					return ""
				}
				for _, v := range vs {
					if mutVersions(s) > 1 {
						break
					}
					// the split list of GET supervoxel-splits covers the ancestry; histories put all
					// labelmap mutations into one version, so it is that version's list
					segs := append(append([]string{}, s.mapsegs[v]...), "["+strings.Join(s.mapops[v], "; ")+"]")
					ex.adds = append(ex.adds, pendingAdd{"maplog", fmt.Sprintf("(CMapLog [%s] %s %s)", strings.Join(segs, "; "),
						parseSplits(find(before, "lm-splits", fmt.Sprint(v))), parseSplits(find(after, "lm-splits", fmt.Sprint(v)))), fmt.Sprintf("maplog/%s/%d/%d", c.Name, restarts, v)})
				}
				// round 4: the versioned model (Model.MapLogV) on every history, one version or many
				{
					var vsAll []int
					for _, n := range riB.DAG.Nodes {
						vsAll = append(vsAll, n.VersionID)
					}
					sort.Ints(vsAll)
					byV := map[int]nodeInfo{}
					for _, n := range riB.DAG.Nodes {
						byV[n.VersionID] = n
					}
					var ancs, obs []string
					for _, v := range vsAll {
						var chain []string
						for cur, ok := v, true; ok; {
							chain = append(chain, fmt.Sprint(cur))
							n := byV[cur]
							if len(n.Parents) == 0 {
								break
							}
							cur = n.Parents[0]
							_, ok = byV[cur]
						}
						ancs = append(ancs, fmt.Sprintf("(%d, [%s])", v, strings.Join(chain, "; ")))
						obs = append(obs, fmt.Sprintf("(%d, %s, %s)", v, parseSplits(find(before, "lm-splits", fmt.Sprint(v))), parseSplits(find(after, "lm-splits", fmt.Sprint(v)))))
					}
					segs := append(append([]string{}, s.vsegs...), "["+strings.Join(s.vops, "; ")+"]")
					ex.adds = append(ex.adds, pendingAdd{"maplogv", fmt.Sprintf("(CMapLogV [%s] [%s] [%s])", strings.Join(ancs, "; "), strings.Join(segs, "; "), strings.Join(obs, "; ")),
						fmt.Sprintf("maplogv/%s/%d", c.Name, restarts)})
					ex.dist["maplogv:versions-with-mutations"] += mutVersions(s)
					s.vsegs = append(s.vsegs, "["+strings.Join(s.vops, "; ")+"]")
					s.vops = nil
				}
				for _, v := range vs {
					s.mapsegs[v] = append(s.mapsegs[v], "["+strings.Join(s.mapops[v], "; ")+"]")
					s.mapops[v] = nil
				}
				var nb, na uint64
				fmt.Sscanf(find(before, "lm-nextlabel", "1"), `200:{"nextlabel": %d}`, &nb)
				fmt.Sscanf(find(after, "lm-nextlabel", "1"), `200:{"nextlabel": %d}`, &na)
				ex.adds = append(ex.adds, pendingAdd{"nextlabel", fmt.Sprintf("(CNext %d %d)", nb, na), fmt.Sprintf("next/%s/%d", c.Name, restarts)})
			}
			continue
		}
		// ordinary operation
		s.exec(o)
		switch o.Op {
		case "commit":
			pops = append(pops, fmt.Sprintf("PCommit 1 %d", o.V))
		case "newversion", "branch":
			uu++
			br := "None"
			if o.Op == "branch" {
				if _, ok := branchNo[o.Branch]; !ok {
					branchNo[o.Branch] = len(branchNo) + 6
				}
				br = fmt.Sprintf("(Some %d)", branchNo[o.Branch])
			}
			pops = append(pops, fmt.Sprintf("PNewVersion 1 %d %s %d", o.V, br, uu))
			// stamp the new version (if one was created) with its id
			ri := s.refresh()
			for _, n := range ri.DAG.Nodes {
				if !n.Locked && len(n.Children) == 0 {
					s.p.Post("/api/node/"+n.UUID+"/kv/key/ver", []byte(fmt.Sprintf("ver%d", n.VersionID)))
				}
			}
		case "merge":
			uu++
			ss := make([]string, len(o.Parents))
			for i, x := range o.Parents {
				ss[i] = fmt.Sprint(x)
			}
			pops = append(pops, fmt.Sprintf("PMerge 1 [%s] %d", strings.Join(ss, ";"), uu))
			ri := s.refresh()
			for _, n := range ri.DAG.Nodes {
				if !n.Locked && len(n.Children) == 0 {
					s.p.Post("/api/node/"+n.UUID+"/kv/key/ver", []byte(fmt.Sprintf("ver%d", n.VersionID)))
				}
			}
		}
	}
	s.p.Quit()
	ex.dist["restarts"] += restarts
	return
}

// ---- the append-only log on its own: what was appended is what a re-opened engine reads ----
func runLogRoundTrip(run *lib.Run, rng *lib.Rand, name string, recs []storage.LogMessage) {
	dir, _ := os.MkdirTemp("", "c03log")
	defer os.RemoveAll(dir)
	open := func() dvid.Store {
		var c dvid.Config
		c.SetAll(map[string]interface{}{"path": dir})
		st, _, err := storage.GetEngine("filelog").NewStore(dvid.StoreConfig{Config: c, Engine: "filelog"})
		if err != nil {
			fatal("filelog: %v", err)
		}
		return st
	}
	dataID, version := dvid.UUID("00000000000000000000000000000001"), dvid.UUID("00000000000000000000000000000002")
	st := open()
	for _, r := range recs {
		if err := st.(storage.WriteLog).Append(dataID, version, r); err != nil {
			fatal("append: %v", err)
		}
	}
	st.Close()
	same := func(got []storage.LogMessage) bool {
		if len(got) != len(recs) {
			return false
		}
		for i := range got {
			if got[i].EntryType != recs[i].EntryType || !bytes.Equal(got[i].Data, recs[i].Data) {
				return false
			}
		}
		return true
	}
	st = open()
	ra, _ := st.(storage.ReadLog).ReadAll(dataID, version)
	st.Close()
	st = open()
	ch := make(chan storage.LogMessage, 16)
	var sa []storage.LogMessage
	done := make(chan struct{})
	go func() {
		for m := range ch {
			sa = append(sa, storage.LogMessage{EntryType: m.EntryType, Data: append([]byte{}, m.Data...)})
		}
		close(done)
	}()
	st.(storage.ReadLog).StreamAll(dataID, version, ch)
	<-done
	st.Close()
	var sizes []string
	empties := 0
	for _, r := range recs {
		sizes = append(sizes, fmt.Sprint(len(r.Data)))
		if len(r.Data) == 0 {
			empties++
		}
	}
	run.Dist["log-records"] += len(recs)
	run.Dist["log-empty-records"] += empties
	run.Add("log-roundtrip", fmt.Sprintf("(CLogRT %d%%nat %d%%nat %d%%nat %s %s)", len(recs), len(ra), len(sa), lib.CoqBool(same(ra)), lib.CoqBool(same(sa))),
		jcase{Kind: "logrt", Name: name + ":" + strings.Join(sizes, ",")}, "logrt/"+strings.Join(sizes, ","))
}

func genLogRoundTrips(run *lib.Run, rng *lib.Rand, n int) {
	runLogRoundTrip(run, rng, "corpus", []storage.LogMessage{{EntryType: 1, Data: nil}, {EntryType: 1, Data: []byte{8, 5}}, {EntryType: 2, Data: []byte{}}, {EntryType: 0, Data: nil}, {EntryType: 3, Data: []byte{1, 2, 3}}})
	for i := 0; i < n; i++ {
		var recs []storage.LogMessage
		for j := 0; j < 1+rng.Intn(8); j++ {
			sz := rng.Pick(0, 0, 1, 2, 6, rng.Intn(40))
			recs = append(recs, storage.LogMessage{EntryType: uint16(rng.Pick(0, 1, 2, 3, 65535)), Data: rng.Bytes(sz)})
		}
		runLogRoundTrip(run, rng, fmt.Sprintf("random-%d", i), recs)
	}
}

func corpus() []jcase {
	return []jcase{
		// instance properties derived from the data (roi z range, image extents): every write is followed by a
		// restart at once -- a re-post over the same z range, a wider, a narrower and a disjoint one, a delete,
		// a post after the delete, the same at a child version; image blocks at several offsets
		{Kind: "history", Name: "derived-properties", Ops: []hop{
			{Op: "roipost", V: 1, Val: "[[100,1,2,4],[101,1,2,4],[103,0,0,1]]"}, {Op: "restart"},
			{Op: "roipost", V: 1, Val: "[[100,2,3,3],[103,5,1,2]]"}, {Op: "restart", Kill: true},
			{Op: "roipost", V: 1, Val: "[[100,2,3,3],[102,5,1,2],[103,5,1,2]]"}, {Op: "restart"},
			{Op: "roipost", V: 1, Val: "[[98,0,0,0],[105,0,0,0]]"}, {Op: "restart"},
			{Op: "roipost", V: 1, Val: "[[101,0,0,0]]"}, {Op: "restart", Kill: true},
			{Op: "imgpost", V: 1, N: 0, Key: "9"}, {Op: "restart"}, {Op: "imgpost", V: 1, N: 3, Key: "17"}, {Op: "restart", Kill: true},
			{Op: "imgpost", V: 1, N: 3, Key: "18"}, {Op: "restart"},
			{Op: "roidel", V: 1}, {Op: "restart"}, {Op: "roipost", V: 1, Val: "[[-3,0,0,0],[0,0,0,0]]"}, {Op: "restart"},
			{Op: "commit", V: 1}, {Op: "newversion", V: 1},
			{Op: "roipost", V: 2, Val: "[[-3,1,1,1],[0,1,1,1]]"}, {Op: "restart"}, {Op: "roipost", V: 2, Val: "[[200,1,1,1]]"}, {Op: "restart"},
			{Op: "imgpost", V: 2, N: 4, Key: "33"}, {Op: "restart", Kill: true}}},
		{Kind: "history", Name: "kv-branches", Ops: []hop{
			{Op: "put", V: 1, Key: "a", Val: "1"}, {Op: "note", V: 1, Val: "root note"}, {Op: "log", V: 1, Val: "entry"},
			{Op: "commit", V: 1}, {Op: "newversion", V: 1}, {Op: "branch", V: 1, Branch: "b1"},
			{Op: "put", V: 2, Key: "a", Val: "2"}, {Op: "del", V: 3, Key: "a"}, {Op: "put", V: 3, Key: "b", Val: "3"},
			{Op: "njput", V: 2, Key: "10", Val: `{"bodyid":10,"status":"x"}`},
			{Op: "annput", V: 2, Val: `[{"Pos":[1,2,3],"Kind":"Note","Tags":["t"],"Prop":{}}]`},
			{Op: "restart"}, {Op: "commit", V: 2}, {Op: "newversion", V: 2}, {Op: "put", V: 4, Key: "c", Val: "4"}, {Op: "restart", Kill: true}}},
		// degenerate but legal values of every data type, written before the restart
		{Kind: "history", Name: "degenerate-values", Ops: []hop{
			{Op: "put", V: 1, Key: "empty", Val: ""}, {Op: "njput", V: 1, Key: "20", Val: `{"bodyid":20}`},
			{Op: "njput", V: 1, Key: "21", Val: `{"bodyid":21,"f":"x"}`}, {Op: "njput", V: 1, Key: "21", Val: `{"bodyid":21}`, Replace: true},
			{Op: "njput", V: 1, Key: "22", Val: `{"bodyid":22,"f":null}`},
			{Op: "annput", V: 1, Val: `[{"Pos":[0,0,0],"Kind":"Unknown"}]`}, {Op: "annput", V: 1, Val: `[]`},
			{Op: "mappings", V: 1, Maps: [][]uint64{}}, {Op: "note", V: 1, Val: ""},
			{Op: "restart"}, {Op: "commit", V: 1}, {Op: "newversion", V: 1},
			{Op: "njput", V: 2, Key: "23", Val: `{"bodyid":23}`}, {Op: "njdel", V: 2, Key: "20"}, {Op: "put", V: 2, Key: "empty", Val: ""},
			{Op: "restart", Kill: true}, {Op: "restart"}}},
		// mapping batches that contain the all-default MappingOp (a zero-byte log record) between others
		{Kind: "history", Name: "mappings-empty-record", Ops: []hop{
			{Op: "ingest", V: 1, Labels: []uint64{1, 2, 3, 4}},
			{Op: "mappings", V: 1, Maps: [][]uint64{{}, {10, 1, 2}}}, {Op: "restart"},
			{Op: "commit", V: 1}, {Op: "newversion", V: 1},
			{Op: "mappings", V: 2, Maps: [][]uint64{{20, 3}, {}, {20, 4}, {}}}, {Op: "mappings", V: 2, Maps: [][]uint64{{30, 1}}},
			{Op: "restart", Kill: true}, {Op: "restart"}}},
		// merges whose parents are listed in every order (parents[0] is the lineage), restarted twice
		{Kind: "history", Name: "merge-orders", Ops: []hop{
			{Op: "commit", V: 1}, {Op: "newversion", V: 1}, {Op: "branch", V: 1, Branch: "b1"}, {Op: "branch", V: 1, Branch: "b2"},
			{Op: "put", V: 2, Key: "m", Val: "two"}, {Op: "put", V: 3, Key: "m", Val: "three"}, {Op: "put", V: 4, Key: "n", Val: "four"},
			{Op: "commit", V: 2}, {Op: "commit", V: 3}, {Op: "commit", V: 4},
			{Op: "merge", Parents: []int{4, 2}}, {Op: "restart"}, {Op: "restart", Kill: true},
			{Op: "commit", V: 5}, {Op: "merge", Parents: []int{5, 3, 1}}, {Op: "merge", Parents: []int{3, 4, 2}}, {Op: "restart"}, {Op: "restart"}}},
		// round 4: REFUSED requests between the accepted ones (merge with an uncommitted parent, a parent
		// listed twice, a single parent; newversion / branch on an open node; a branch name in use).
		// The repaired code leaves no trace of them: the accepted merge gets version 4, the cache of
		// branch heads is not refreshed by them, and the restarted server resolves every name alike.
		{Kind: "history", Name: "refused-requests", Ops: []hop{
			{Op: "commit", V: 1}, {Op: "newversion", V: 1}, {Op: "branch", V: 1, Branch: "b1"},
			{Op: "merge", Parents: []int{2, 3}}, {Op: "newversion", V: 2}, {Op: "commit", V: 2},
			{Op: "merge", Parents: []int{2, 2}}, {Op: "merge", Parents: []int{2, 3}}, {Op: "merge", Parents: []int{2}},
			{Op: "branch", V: 2, Branch: "b1"}, {Op: "restart"},
			{Op: "merge", Parents: []int{3, 2}}, {Op: "commit", V: 3}, {Op: "merge", Parents: []int{3, 2}},
			{Op: "branch", V: 2, Branch: "b2"}, {Op: "merge", Parents: []int{4, 5}}, {Op: "restart", Kill: true},
			{Op: "commit", V: 4}, {Op: "merge", Parents: []int{4, 4, 3}}, {Op: "newversion", V: 4}, {Op: "restart"}}},
		{Kind: "history", Name: "merge-heads", Ops: []hop{
			{Op: "commit", V: 1}, {Op: "newversion", V: 1}, {Op: "branch", V: 1, Branch: "b1"},
			{Op: "commit", V: 2}, {Op: "commit", V: 3}, {Op: "merge", Parents: []int{2, 3}}, {Op: "restart"}}},
		{Kind: "history", Name: "labelmap-empty", Ops: []hop{{Op: "nextlabel", N: 0}, {Op: "restart"}}},
		// every settings operation with the restart RIGHT AFTER it (nothing else saves the repo in between)
		{Kind: "history", Name: "settings", Ops: []hop{
			{Op: "sync", Key: "ann", Val: "lm"}, {Op: "restart"},
			{Op: "tags", Key: "kv", Val: "t1"}, {Op: "restart", Kill: true},
			{Op: "sync", Key: "ann", Val: "", Replace: true}, {Op: "restart"},
			{Op: "sync", Key: "ann", Val: "lm"}, {Op: "sync", Key: "ann", Val: "lm,kv", Replace: true}, {Op: "restart"},
			{Op: "rename", Key: "nj", Val: "nj2"}, {Op: "restart"},
			{Op: "resolution", N: 4}, {Op: "restart"},
			{Op: "repoinfo", Val: "described"}, {Op: "restart", Kill: true},
			{Op: "repolog", Val: "a repo log line"}, {Op: "restart"},
			{Op: "note", V: 1, Val: "n1"}, {Op: "restart"},
			{Op: "log", V: 1, Val: "l1"}, {Op: "restart"},
			{Op: "sync", Key: "ann", Val: "", Replace: true}, {Op: "restart", Kill: true}}},
		// label mapping records in two versions of one path; after the restart the leaf is asked first
		{Kind: "history", Name: "labelmap-two-versions", Ops: []hop{
			{Op: "ingest", V: 1, Labels: []uint64{1, 2, 3, 4, 5}}, {Op: "lmmerge", V: 1, Labels: []uint64{1, 2, 3}},
			{Op: "commit", V: 1}, {Op: "newversion", V: 1},
			{Op: "cleave", V: 2, N: 1, Labels: []uint64{2}}, {Op: "lmmerge", V: 2, Labels: []uint64{4, 5}}, {Op: "maxlabel", V: 2, N: 50},
			{Op: "restart"}, {Op: "commit", V: 2}, {Op: "newversion", V: 2}, {Op: "lmmerge", V: 3, Labels: []uint64{4, 1}}, {Op: "restart", Kill: true}}},
		// round 4: supervoxel splits at several versions of one ancestry and on a sibling (the same
		// supervoxel split independently on both), merges and a cleave in between; GET supervoxel-splits
		// of every version (its whole ancestry) against Model.MapLogV, live and replayed
		{Kind: "history", Name: "splits-across-versions", Ops: []hop{
			{Op: "ingest", V: 1, Labels: []uint64{1, 2, 3, 4, 5, 6}}, {Op: "lmmerge", V: 1, Labels: []uint64{1, 2, 3}},
			{Op: "splitsv", V: 1, N: 2}, {Op: "commit", V: 1}, {Op: "newversion", V: 1}, {Op: "branch", V: 1, Branch: "b1"},
			{Op: "splitsv", V: 2, N: 3}, {Op: "splitsv", V: 3, N: 4}, {Op: "cleave", V: 3, N: 1, Labels: []uint64{3}},
			{Op: "restart"},
			{Op: "splitsv", V: 2, N: 4}, {Op: "commit", V: 2}, {Op: "newversion", V: 2}, {Op: "lmmerge", V: 4, Labels: []uint64{5, 6}},
			{Op: "splitsv", V: 4, N: 5}, {Op: "splitsv", V: 3, N: 6}, {Op: "restart", Kill: true},
			{Op: "commit", V: 3}, {Op: "commit", V: 4}, {Op: "merge", Parents: []int{4, 3}}, {Op: "splitsv", V: 5, N: 6}, {Op: "restart"}}},
		// per-version counters set on SIBLING branches to values below what another branch already
		// holds (so below the instance-wide maximum), restarted, then continued on a grandchild
		{Kind: "history", Name: "sibling-counters", Ops: []hop{
			{Op: "ingest", V: 1, Labels: []uint64{1, 2, 3}}, {Op: "maxlabel", V: 1, N: 50},
			{Op: "commit", V: 1}, {Op: "newversion", V: 1}, {Op: "branch", V: 1, Branch: "b1"}, {Op: "branch", V: 1, Branch: "b2"},
			{Op: "maxlabel", V: 2, N: 100}, {Op: "maxlabel", V: 3, N: 70}, {Op: "maxlabel", V: 4, N: 60},
			{Op: "restart"},
			{Op: "nextlabel", V: 4, N: 2}, {Op: "maxlabel", V: 3, N: 65}, {Op: "ingest", V: 4, Labels: []uint64{55}},
			{Op: "commit", V: 3}, {Op: "newversion", V: 3}, {Op: "maxlabel", V: 5, N: 80}, {Op: "ingest", V: 5, Labels: []uint64{75}},
			{Op: "restart", Kill: true},
			{Op: "commit", V: 4}, {Op: "newversion", V: 4}, {Op: "maxlabel", V: 6, N: 90}, {Op: "restart"}}},
		// raw mapping batches: identity records (a supervoxel mapped back to itself) over an ancestor's
		// mapping, the same supervoxel re-mapped in several versions of one ancestry and on a sibling
		{Kind: "history", Name: "mappings-identity-remap", Ops: []hop{
			{Op: "ingest", V: 1, Labels: []uint64{1, 2, 3, 4}},
			{Op: "mappings", V: 1, Maps: [][]uint64{{1, 2}, {3, 4}}},
			{Op: "commit", V: 1}, {Op: "newversion", V: 1}, {Op: "branch", V: 1, Branch: "b1"},
			{Op: "mappings", V: 2, Maps: [][]uint64{{2, 2}, {1, 4}}}, {Op: "mappings", V: 3, Maps: [][]uint64{{4, 4}, {2, 2}, {2, 1}}},
			{Op: "restart"},
			{Op: "commit", V: 2}, {Op: "newversion", V: 2}, {Op: "mappings", V: 4, Maps: [][]uint64{{1, 2}, {4, 4}}},
			{Op: "restart", Kill: true},
			{Op: "commit", V: 4}, {Op: "newversion", V: 4}, {Op: "mappings", V: 5, Maps: [][]uint64{{2, 2}, {3, 3}, {3, 1}}}, {Op: "restart"}}},
		{Kind: "history", Name: "labelmap-mutations", Ops: []hop{
			{Op: "ingest", V: 1, Labels: []uint64{1, 2, 3, 4}}, {Op: "nextlabel", V: 1, N: 2},
			{Op: "lmmerge", V: 1, Labels: []uint64{1, 2, 3}}, {Op: "cleave", V: 1, N: 1, Labels: []uint64{3}},
			{Op: "splitsv", V: 1, N: 2}, {Op: "restart"}, {Op: "splitsv", V: 1, N: 4}, {Op: "restart", Kill: true}}},
	}
}

func randomHistory(rng *lib.Rand, i int) jcase {
	c := jcase{Kind: "history", Name: fmt.Sprintf("random-%d", i)}
	// a live child decides what is possible
	dir, _ := os.MkdirTemp("", "c03gen")
	defer os.RemoveAll(dir)
	p, err := dvh.Start(dvh.Opts{Dir: dir})
	if err != nil {
		fatal("generator child: %v", err)
	}
	defer p.Quit()
	s := &state{p: p, vuuid: map[int]string{}, keys: map[string]bool{}, njKeys: map[string]bool{}, lmLabel: map[uint64]bool{}, blockOf: map[uint64]int{}, mapops: map[int][]string{}, mapsegs: map[int][]string{}}
	p.PostJSON("/api/repos", map[string]string{"alias": "r1"})
	s.refresh()
	for _, d := range [][2]string{{"keyvalue", "kv"}, {"labelmap", "lm"}, {"neuronjson", "nj"}, {"annotation", "ann"}, {"roi", "roi"}, {"uint8blk", "img"}} {
		p.PostJSON("/api/repo/"+s.root+"/instance", map[string]string{"typename": d[0], "dataname": d[1]})
	}
	do := func(o hop) { c.Ops = append(c.Ops, o); s.exec(o) }
	// settings operations are followed by a restart at once most of the time: anything that saves the
	// repo later would hide a change that was not saved
	setting := func(o hop) {
		do(o)
		if rng.Chance(0.7) {
			c.Ops = append(c.Ops, hop{Op: "restart", Kill: rng.Bool()})
		}
	}
	s.haveLM = true
	ls := []uint64{uint64(1 + rng.Intn(5)), uint64(10 + rng.Intn(5)), uint64(20 + rng.Intn(5)), uint64(30 + rng.Intn(5))}
	do(hop{Op: "ingest", V: 1, Labels: ls})
	bodies := append([]uint64{}, ls...) // bodies believed to exist (requests on stale ones are refused, harmlessly)
	bn := 0
	steps := 10 + rng.Intn(12)
	for k := 0; k < steps; k++ {
		ri := s.refresh()
		var nodes []nodeInfo
		for _, n := range ri.DAG.Nodes {
			nodes = append(nodes, n)
		}
		sort.Slice(nodes, func(a, b int) bool { return nodes[a].VersionID < nodes[b].VersionID })
		n := nodes[rng.Intn(len(nodes))]
		switch rng.Intn(16) {
		case 0, 1:
			if !n.Locked {
				val := fmt.Sprintf("x%d", k)
				if rng.Chance(0.2) {
					val = "" // an empty value is a value
				}
				do(hop{Op: "put", V: n.VersionID, Key: fmt.Sprintf("k%d", rng.Intn(3)), Val: val})
			}
		case 2:
			if !n.Locked {
				do(hop{Op: "del", V: n.VersionID, Key: fmt.Sprintf("k%d", rng.Intn(3))})
			}
		case 3, 4:
			do(hop{Op: "commit", V: n.VersionID})
		case 5:
			do(hop{Op: "newversion", V: n.VersionID})
		case 6:
			bn++
			do(hop{Op: "branch", V: n.VersionID, Branch: fmt.Sprintf("b%d", bn)})
		case 7:
			var cands []int
			for _, m := range nodes {
				if m.Locked && m.VersionID != n.VersionID {
					cands = append(cands, m.VersionID)
				}
			}
			if len(nodes) > 1 && rng.Chance(0.3) {
				// any two or three nodes, open ones and repetitions included: mostly refused
				ps := []int{n.VersionID, nodes[rng.Intn(len(nodes))].VersionID}
				if rng.Chance(0.3) {
					ps = append(ps, nodes[rng.Intn(len(nodes))].VersionID)
				}
				do(hop{Op: "merge", Parents: ps})
			} else if n.Locked && len(cands) > 0 {
				// parents in any order (the first one is the lineage), two or three of them
				ps := []int{n.VersionID, cands[rng.Intn(len(cands))]}
				if len(cands) > 1 && rng.Chance(0.4) {
					if c3 := cands[rng.Intn(len(cands))]; c3 != ps[1] {
						ps = append(ps, c3)
					}
				}
				for i := len(ps) - 1; i > 0; i-- {
					j := rng.Intn(i + 1)
					ps[i], ps[j] = ps[j], ps[i]
				}
				do(hop{Op: "merge", Parents: ps})
			}
		case 8:
			if !n.Locked {
				id := 100 + rng.Intn(3)
				switch rng.Intn(4) {
				case 0: // nothing but the body id
					do(hop{Op: "njput", V: n.VersionID, Key: fmt.Sprint(id), Val: fmt.Sprintf(`{"bodyid":%d}`, id), Replace: rng.Bool()})
				case 1:
					do(hop{Op: "njdel", V: n.VersionID, Key: fmt.Sprint(id)})
				default:
					do(hop{Op: "njput", V: n.VersionID, Key: fmt.Sprint(id), Val: fmt.Sprintf(`{"bodyid":%d,"f":"v%d"}`, id, k)})
				}
			}
		case 9, 10, 11:
			// label mutations at ANY open version (records in several versions of a path)
			if !n.Locked && len(bodies) >= 2 {
				switch rng.Intn(8) {
				case 0, 1:
					a, b := rng.Intn(len(bodies)), rng.Intn(len(bodies))
					if a != b {
						do(hop{Op: "lmmerge", V: n.VersionID, Labels: []uint64{bodies[a], bodies[b]}})
					}
				case 2:
					do(hop{Op: "splitsv", V: n.VersionID, N: ls[rng.Intn(len(ls))]})
				case 3:
					do(hop{Op: "cleave", V: n.VersionID, N: bodies[rng.Intn(len(bodies))], Labels: []uint64{ls[rng.Intn(len(ls))]}})
				case 4:
					// a mapping batch; some of its operations are the all-default one (zero-byte record)
					var maps [][]uint64
					for j := 0; j < 1+rng.Intn(4); j++ {
						orig := ls[rng.Intn(len(ls))]
						switch d := rng.Intn(20); {
						case d < 6:
							maps = append(maps, []uint64{})
						case d < 10: // identity record: the supervoxel is its own body again
							maps = append(maps, []uint64{orig, orig})
						case d < 13: // onto another supervoxel of the volume
							maps = append(maps, []uint64{ls[rng.Intn(len(ls))], orig})
						default:
							maps = append(maps, []uint64{uint64(100 + rng.Intn(5)), orig})
						}
					}
					do(hop{Op: "mappings", V: n.VersionID, Maps: maps})
				case 5:
					// a per-version counter set to a value that other versions may already exceed
					do(hop{Op: "maxlabel", V: n.VersionID, N: uint64(36 + rng.Intn(80))})
				default:
					do(hop{Op: "nextlabel", V: n.VersionID, N: uint64(1 + rng.Intn(3))})
				}
			}
		case 12:
			if !n.Locked && rng.Chance(0.6) {
				setting(geomOp(rng, n.VersionID))
				break
			}
			setting(hop{Op: pickS(rng, "note", "log"), V: n.VersionID, Val: fmt.Sprintf("text %d", k)})
		case 13:
			switch rng.Intn(4) {
			case 0:
				setting(hop{Op: "sync", Key: "ann", Val: "lm"})
			case 1:
				setting(hop{Op: "sync", Key: "ann", Val: "", Replace: true})
			case 2:
				setting(hop{Op: "sync", Key: "ann", Val: pickS(rng, "lm", "lm,kv", "kv"), Replace: true})
			default:
				setting(hop{Op: "tags", Key: pickS(rng, "kv", "lm", "nj", "ann"), Val: fmt.Sprintf("t%d", k)})
			}
		case 14:
			switch rng.Intn(4) {
			case 0:
				setting(hop{Op: "repoinfo", Val: fmt.Sprintf("d%d", k)})
			case 1:
				setting(hop{Op: "repolog", Val: fmt.Sprintf("line %d", k)})
			case 2:
				setting(hop{Op: "resolution", N: uint64(2 + rng.Intn(8))})
			default:
				setting(hop{Op: "rename", Key: "nj", Val: fmt.Sprintf("nj%d", k)})
			}
		default:
			c.Ops = append(c.Ops, hop{Op: "restart", Kill: rng.Bool()})
		}
	}
	c.Ops = append(c.Ops, hop{Op: "restart", Kill: rng.Bool()})
	return c
}

func main() {
	dvh.MaybeChild()
	o := lib.ParseOpts()
	dvid.SetLogMode(dvid.CriticalMode)
	log.SetOutput(io.Discard)
	rng := lib.NewRand(o.Seed)
	run := lib.NewRun("C03", o)
	run.Header("From DV Require Import Base.Prelude Model.Persist Model.Heads Model.MapLog Model.MapLogV Model.C04Run Model.C03Run.", "Local Open Scope N_scope.")
	if o.Replay != "" {
		var c jcase
		if err := lib.LoadReplay(o.Replay, &c); err != nil {
			fatal("%v", err)
		}
		runHistory(run, c)
		run.Finish("c03case", "replay", tail)
		return
	}
	for _, c := range corpus() {
		runHistory(run, c)
	}
	n := 4
	if o.Thorough() {
		n = 40
	}
	if o.N > 0 {
		n = o.N
	}
	for i := 0; i < n; i++ {
		runHistory(run, randomHistory(rng, i))
	}
	genLogRoundTrips(run, rng, 3*n)
	run.Finish("c03case",
		"histories over repo operations, keyvalue, labelmap (ingest, merge, cleave, supervoxel split, nextlabel), neuronjson and annotation writes with 1-3 restarts (clean quit or SIGKILL while idle); every GET of every instance at every version + repo info compared before/after a new process; distinct by (check kind, history, restart ordinal)",
		tail)
}

const tail = `
Definition spec_fail := Eval vm_compute in c03_spec_fail cases.
Definition model_mismatch := Eval vm_compute in c03_model_mismatch cases.
`
