package main

// Episodes of the segment scheduler: two (thorough: three) requests of the same or of different
// sites on one object, every interleaving of their yield-delimited segments.
//
//	annotation  store / delete / move of distinct elements, in one block (shared block, label and
//	            tag lists) or in two blocks that share only the tag
//	labelmap    merge into / cleave from one body; ChangeLabelIndex of one label
//	neuronjson  two posts of different fields of one body
//	datastore   newversion / branch / merge on one committed parent

import (
	"encoding/json"
	"fmt"
	"os"
	"path/filepath"
	"regexp"
	"sort"
	"strings"

	"github.com/janelia-flyem/dvid/datatype/common/labels"
	"github.com/janelia-flyem/dvid/datatype/labelmap"
	"github.com/janelia-flyem/dvid/dvid"
	"verif/harness/dv"
)

type opSpec struct {
	Kind    string `json:"kind"`             // store delete move | merge cleave chidx | post postreplace njdelete | newversion branch mergeparents
	Variant int    `json:"variant"`          // >0: the request's own block/label (annotation), branch name or child kind (datastore)
	Flavor  string `json:"flavor,omitempty"` // neuronjson: "nomem" = on the open head of a named branch, which has no in-memory db
	Args    []int  `json:"args,omitempty"`   // xmerge: [which separate body]; xcleave: the supervoxels (see lmxEpisode)
	Pre     int    `json:"pre,omitempty"`    // xmerge/xcleave: supervoxels merged into the target before the episode
}

type schedReq struct {
	Site    string   `json:"site"`
	Variant int      `json:"variant"`
	Replace bool     `json:"replace,omitempty"`
	Yields  []string `json:"yields"`
	Desc    string   `json:"request"`
	run     func() bool
}

type schedView struct {
	Name     string `json:"view"`
	Primary  bool   `json:"primary"`
	Relevant []int  `json:"relevant"`
	IDs      []int  `json:"ids"`
	read     func() []int
}

type schedEpisode struct {
	reqs    []schedReq
	init    []view                     // what the locations held before the requests (ids >= 100: seeded content)
	serial  func(acked []int) [][]view // non-commuting requests: the states of the sequential orders of the acknowledged ones
	observe func(acked []int) []view   // explicit-state episodes: all views at once
	views   []schedView
	extra   func() int
	finish  func()
}

var siteYields = map[string][]string{
	"annotation.StoreElements":  {"annotation.StoreElements.commit"},
	"annotation.DeleteElement":  {"annotation.DeleteElement.block", "annotation.DeleteElement.commit"},
	"annotation.MoveElement":    {"annotation.MoveElement.block", "annotation.MoveElement.commit"},
	"labelmap.MergeLabels":      {"labelmap.MergeLabels.target"},
	"labelmap.CleaveLabel":      {"labelmap.cleaveIndex.read"},
	"labelmap.ChangeLabelIndex": {"labelmap.ChangeLabelIndex.read"},
	"neuronjson.storeAndUpdate": {"neuronjson.storeAndUpdate.read", "neuronjson.storeAndUpdate.store"},
	"datastore.newVersion":      {"datastore.newVersion.append"},
	"datastore.merge":           {},
	"neuronjson.DeleteData":     {},
}

// loadSiteYields replaces the built-in lists by the yield points the translator found in the tree
// under test (coq/Gen/Locks.v, regenerated before every run), so that the scheduler stops exactly
// where the model's requests are cut.
func loadSiteYields() {
	for _, p := range []string{filepath.Join("..", "coq", "Gen", "Locks.v"), filepath.Join("coq", "Gen", "Locks.v")} {
		b, err := os.ReadFile(p)
		if err != nil {
			continue
		}
		siteRe := regexp.MustCompile(`mkSite "([^"]+)"`)
		yieldRe := regexp.MustCompile(`GYield "([^"]+)"`)
		cur := ""
		found := map[string][]string{}
		for _, line := range strings.Split(string(b), "\n") {
			if m := siteRe.FindStringSubmatch(line); m != nil && strings.HasPrefix(line, "Definition site_") {
				cur = m[1]
				found[cur] = []string{}
			}
			if m := yieldRe.FindStringSubmatch(line); m != nil && cur != "" && strings.HasPrefix(strings.TrimSpace(line), "GYield") {
				found[cur] = append(found[cur], m[1])
			}
		}
		for site, ys := range found {
			if _, ok := siteYields[site]; ok {
				siteYields[site] = ys
			}
		}
		return
	}
}

var kindSite = map[string]string{
	"store": "annotation.StoreElements", "delete": "annotation.DeleteElement", "move": "annotation.MoveElement",
	"merge": "labelmap.MergeLabels", "cleave": "labelmap.CleaveLabel", "chidx": "labelmap.ChangeLabelIndex",
	"xmerge": "labelmap.MergeLabels", "xcleave": "labelmap.CleaveLabel",
	"post": "neuronjson.storeAndUpdate", "postreplace": "neuronjson.storeAndUpdate", "njdelete": "neuronjson.DeleteData",
	"newversion": "datastore.newVersion", "branch": "datastore.newVersion", "mergeparents": "datastore.merge",
}

var kindFamily = map[string]string{
	"store": "ann", "delete": "ann", "move": "ann", "merge": "lm", "cleave": "lm", "chidx": "lm", "xmerge": "lm", "xcleave": "lm",
	"post": "nj", "postreplace": "nj", "njdelete": "nj", "newversion": "dag", "branch": "dag", "mergeparents": "dag",
}

func idsWhere(n int, f func(i int) bool) []int {
	var ids []int
	for i := 1; i <= n; i++ {
		if f(i) {
			ids = append(ids, i)
		}
	}
	return ids
}

func buildEpisode(w *world, ops []opSpec) schedEpisode {
	switch kindFamily[ops[0].Kind] {
	case "ann":
		return annEpisode(w, ops)
	case "lm":
		if ops[0].Kind == "chidx" {
			return chidxEpisode(w, ops)
		}
		if strings.HasPrefix(ops[0].Kind, "x") {
			return lmxEpisode(w, ops)
		}
		return lmEpisode(w, ops)
	case "nj":
		return njEpisode(w, ops)
	case "dag":
		return dagEpisode(w, ops)
	}
	fatal("no episode for %v", ops)
	return schedEpisode{}
}

func mkReq(op opSpec, desc string, run func() bool) schedReq {
	site := kindSite[op.Kind]
	return schedReq{Site: site, Variant: op.Variant, Replace: op.Kind == "postreplace", Yields: siteYields[site], Desc: desc, run: run}
}

// ------------------------------------------------------------------ annotation

func annEpisode(w *world, ops []opSpec) schedEpisode {
	n := len(ops)
	blocks := [2]int{w.annBlock(), -1}
	for _, op := range ops {
		if op.Variant == 1 && blocks[1] < 0 {
			blocks[1] = w.annBlock()
		}
	}
	tag := fmt.Sprintf("t%d", blocks[0])
	blockOf := func(i int) int { return blocks[ops[i-1].Variant] }
	from := func(i int) [3]int { return [3]int{blockOf(i)*bs + i, 1, 1} }
	to := func(i int) [3]int { return [3]int{blockOf(i)*bs + i, 1, 9} }
	var seed []annElem
	for i := 1; i <= n; i++ {
		if ops[i-1].Kind != "store" {
			seed = append(seed, annElem{Pos: from(i), Kind: "Note", Tags: []string{tag}, Prop: map[string]string{}})
		}
	}
	if len(seed) > 0 {
		okResp(annPost(w, seed), "annotation seed")
	}
	var ep schedEpisode
	for i := 1; i <= n; i++ {
		i := i
		op := ops[i-1]
		switch op.Kind {
		case "store":
			e := annElem{Pos: from(i), Kind: "Note", Tags: []string{tag}, Prop: map[string]string{"r": fmt.Sprint(i)}}
			ep.reqs = append(ep.reqs, mkReq(op, fmt.Sprintf("POST ann/elements [{Pos:%v,Kind:Note,Tags:[%s]}] (block %d, body %d)", e.Pos, tag, blockOf(i), 1000+blockOf(i)),
				func() bool { return annPost(w, []annElem{e}).Status == 200 }))
		case "delete":
			ep.reqs = append(ep.reqs, mkReq(op, fmt.Sprintf("DELETE ann/element/%s (block %d, tag %s, body %d)", posStr(from(i)), blockOf(i), tag, 1000+blockOf(i)),
				func() bool {
					return dv.Delete(nodeURL(w.annRepo, "ann", "element/"+posStr(from(i)))).Status == 200
				}))
		case "move":
			ep.reqs = append(ep.reqs, mkReq(op, fmt.Sprintf("POST ann/move/%s/%s (block %d, tag %s)", posStr(from(i)), posStr(to(i)), blockOf(i), tag),
				func() bool {
					return dv.Post(nodeURL(w.annRepo, "ann", "move/"+posStr(from(i))+"/"+posStr(to(i))), nil).Status == 200
				}))
		}
	}
	shows := func(i int, present map[[3]int]bool) bool {
		switch ops[i-1].Kind {
		case "store":
			return present[from(i)]
		case "delete":
			return !present[from(i)]
		default:
			return present[to(i)] && !present[from(i)]
		}
	}
	addView := func(name string, primary bool, url string, flat bool, relevant []int) {
		if len(relevant) == 0 {
			return
		}
		ep.views = append(ep.views, schedView{Name: name, Primary: primary, Relevant: relevant, read: func() []int {
			present := annPositions(w, url, flat)
			var ids []int
			for _, i := range relevant {
				if shows(i, present) {
					ids = append(ids, i)
				}
			}
			return ids
		}})
	}
	all := idsWhere(n, func(int) bool { return true })
	for v, suffix := range []string{"", "2"} {
		if blocks[v] < 0 {
			continue
		}
		b := blocks[v]
		inBlock := idsWhere(n, func(i int) bool { return ops[i-1].Variant == v })
		// a move inside one body does not rewrite the label list (moveElementInLabels returns early)
		inLabel := idsWhere(n, func(i int) bool { return ops[i-1].Variant == v && ops[i-1].Kind != "move" })
		addView("block"+suffix, true, nodeURL(w.annRepo, "ann", fmt.Sprintf("elements/%d_%d_%d/%d_0_0", bs, bs, bs, b*bs)), true, inBlock)
		addView("label"+suffix, false, nodeURL(w.annRepo, "ann", fmt.Sprintf("label/%d", 1000+b)), true, inLabel)
	}
	addView("all", true, nodeURL(w.annRepo, "ann", "all-elements"), false, all)
	addView("tag", false, nodeURL(w.annRepo, "ann", "tag/"+tag), true, all)
	return ep
}

// ------------------------------------------------------------------ labelmap

func lmEpisode(w *world, ops []opSpec) schedEpisode {
	n := len(ops)
	t := w.lmLabels(n + 1)
	var pre []string
	for i := 1; i <= n; i++ {
		if ops[i-1].Kind == "cleave" {
			pre = append(pre, fmt.Sprint(t+uint64(i)))
		}
	}
	if len(pre) > 0 {
		okResp(dv.Post(nodeURL(w.lmRepo, "lm2", "merge"), []byte("["+fmt.Sprint(t)+","+strings.Join(pre, ",")+"]")), "seed merge")
	}
	cleaved := make([]uint64, n+1)
	var ep schedEpisode
	for i := 1; i <= n; i++ {
		i := i
		x := t + uint64(i)
		if ops[i-1].Kind == "merge" {
			ep.reqs = append(ep.reqs, mkReq(ops[i-1], fmt.Sprintf("POST lm2/merge [%d,%d]", t, x), func() bool {
				return dv.Post(nodeURL(w.lmRepo, "lm2", "merge"), []byte(fmt.Sprintf("[%d,%d]", t, x))).Status == 200
			}))
		} else {
			ep.reqs = append(ep.reqs, mkReq(ops[i-1], fmt.Sprintf("POST lm2/cleave/%d [%d] (supervoxel %d was merged into %d before)", t, x, x, t), func() bool {
				r := dv.Post(nodeURL(w.lmRepo, "lm2", fmt.Sprintf("cleave/%d", t)), []byte(fmt.Sprintf("[%d]", x)))
				if r.Status != 200 {
					return false
				}
				var m struct{ CleavedLabel uint64 }
				json.Unmarshal(r.Body, &m)
				cleaved[i] = m.CleavedLabel
				return true
			}))
		}
	}
	all := idsWhere(n, func(int) bool { return true })
	ep.views = []schedView{
		{Name: "target", Primary: true, Relevant: all, read: func() []int {
			svs := lmSupervoxels(w, t)
			return idsWhere(n, func(i int) bool { return svs[t+uint64(i)] == (ops[i-1].Kind == "merge") })
		}},
		{Name: "mapping", Primary: false, Relevant: all, read: func() []int {
			return idsWhere(n, func(i int) bool {
				l := lmLabelAt(w, w.colOf(t+uint64(i)))
				if ops[i-1].Kind == "merge" {
					return l == t
				}
				return cleaved[i] != 0 && l == cleaved[i]
			})
		}},
	}
	ep.extra = func() int {
		svs := lmSupervoxels(w, t)
		if !svs[t] {
			return 2
		}
		if lmSize(w, t) != uint64(256*len(svs)) {
			return 1
		}
		return 0
	}
	return ep
}

// lmxEpisode: merges into and cleaves from one body whose requests need not commute: a cleave may
// name a supervoxel that a merge of the same episode brings in, two cleaves may name the same
// supervoxel or together all of the body.  Supervoxels are numbered within the episode: 0 is the
// target's own, 1..pre were merged into the target beforehand, pre+1.. are separate bodies.
// The state is observed explicitly (which supervoxels each body's index lists, where the mapping
// sends each supervoxel, which requests were acknowledged) and compared with the states that the
// sequential orders of the requests give under the documented meaning of merge and cleave.
func lmxEpisode(w *world, ops []opSpec) schedEpisode {
	n := len(ops)
	pre := ops[0].Pre
	extra := 0
	for _, op := range ops {
		if op.Kind == "xmerge" && op.Args[0] > extra {
			extra = op.Args[0]
		}
	}
	nsv := 1 + pre + extra
	t := w.lmLabels(nsv)
	lab := func(j int) uint64 { return t + uint64(j) }
	if pre > 0 {
		var l []string
		for j := 1; j <= pre; j++ {
			l = append(l, fmt.Sprint(lab(j)))
		}
		okResp(dv.Post(nodeURL(w.lmRepo, "lm2", "merge"), []byte("["+fmt.Sprint(t)+","+strings.Join(l, ",")+"]")), "seed merge")
	}
	cleaved := make([]uint64, n+1)
	var ep schedEpisode
	for i := 1; i <= n; i++ {
		i := i
		op := ops[i-1]
		if op.Kind == "xmerge" {
			a := lab(pre + op.Args[0])
			ep.reqs = append(ep.reqs, mkReq(op, fmt.Sprintf("POST lm2/merge [%d,%d]", t, a), func() bool {
				return dv.Post(nodeURL(w.lmRepo, "lm2", "merge"), []byte(fmt.Sprintf("[%d,%d]", t, a))).Status == 200
			}))
		} else {
			var l []string
			for _, j := range op.Args {
				l = append(l, fmt.Sprint(lab(j)))
			}
			body := "[" + strings.Join(l, ",") + "]"
			ep.reqs = append(ep.reqs, mkReq(op, fmt.Sprintf("POST lm2/cleave/%d %s (body %d holds supervoxels %d..%d)", t, body, t, t, lab(pre)), func() bool {
				r := dv.Post(nodeURL(w.lmRepo, "lm2", fmt.Sprintf("cleave/%d", t)), []byte(body))
				if r.Status != 200 {
					return false
				}
				var m struct{ CleavedLabel uint64 }
				json.Unmarshal(r.Body, &m)
				cleaved[i] = m.CleavedLabel
				return true
			}))
		}
	}
	// ---- the documented meaning, in every order
	ep.serial = func(acked []int) [][]view {
		var alts [][]view
		all := idsWhere(n, func(int) bool { return true })
		for _, order := range perms(all) {
			idx := map[string]map[int]bool{"T": {}}
			mp := map[int]string{}
			for j := 0; j <= pre; j++ {
				idx["T"][j] = true
				mp[j] = "T"
			}
			for j := 1; j <= extra; j++ {
				name := fmt.Sprintf("A%d", j)
				idx[name] = map[int]bool{pre + j: true}
				mp[pre+j] = name
			}
			var okd []int
			for _, i := range order {
				op := ops[i-1]
				if op.Kind == "xmerge" {
					a := fmt.Sprintf("A%d", op.Args[0])
					if len(idx[a]) == 0 || len(idx["T"]) == 0 {
						continue // refused: the merged body does not exist (any more)
					}
					for sv := range idx[a] {
						idx["T"][sv] = true
						mp[sv] = "T"
					}
					idx[a] = map[int]bool{}
					okd = append(okd, i)
				} else {
					good := len(idx["T"]) > 0
					seen := map[int]bool{}
					for _, sv := range op.Args {
						if !idx["T"][sv] {
							good = false
						}
						seen[sv] = true
					}
					if !good || len(seen) >= len(idx["T"]) {
						continue // refused: a supervoxel is not in the body, or nothing would be left
					}
					c := fmt.Sprintf("C%d", i)
					idx[c] = map[int]bool{}
					for sv := range seen {
						delete(idx["T"], sv)
						idx[c][sv] = true
						mp[sv] = c
					}
					okd = append(okd, i)
				}
			}
			sort.Ints(okd)
			alts = append(alts, lmxViews(n, pre, extra, ops, okd, func(b string) []int { return setToList(idx[b]) }, func(b string) []int {
				var l []int
				for sv, to := range mp {
					if to == b {
						l = append(l, sv)
					}
				}
				sort.Ints(l)
				return l
			}))
		}
		return alts
	}
	// ---- the real state, read through the API after the requests
	bodyLabel := func(b string) uint64 {
		switch b[0] {
		case 'T':
			return t
		case 'A':
			var j int
			fmt.Sscanf(b, "A%d", &j)
			return lab(pre + j)
		default:
			var i int
			fmt.Sscanf(b, "C%d", &i)
			return cleaved[i]
		}
	}
	svOf := func(label uint64) (int, bool) {
		if label >= t && label < t+uint64(nsv) {
			return int(label - t), true
		}
		return 0, false
	}
	ep.observe = func(acked []int) []view {
		return lmxViews(n, pre, extra, ops, acked, func(b string) []int {
			l := bodyLabel(b)
			if l == 0 {
				return nil
			}
			var out []int
			for sv := range lmSupervoxels(w, l) {
				if j, ok := svOf(sv); ok {
					out = append(out, j)
				} else {
					out = append(out, 1000) // a supervoxel that does not belong to the episode
				}
			}
			sort.Ints(out)
			return out
		}, func(b string) []int {
			l := bodyLabel(b)
			var out []int
			for j := 0; j < nsv; j++ {
				if l != 0 && lmLabelAt(w, w.colOf(lab(j))) == l {
					out = append(out, j)
				}
			}
			return out
		})
	}
	ep.extra = func() int {
		svs := lmSupervoxels(w, t)
		if lmSize(w, t) != uint64(256*len(svs)) {
			return 1
		}
		return 0
	}
	return ep
}

func setToList(m map[int]bool) []int {
	var l []int
	for k, v := range m {
		if v {
			l = append(l, k)
		}
	}
	sort.Ints(l)
	return l
}

// lmxViews: the views of an explicit labelmap state, in a fixed order, primary data first
func lmxViews(n, pre, extra int, ops []opSpec, acked []int, index func(body string) []int, mapped func(body string) []int) []view {
	bodies := []string{"T"}
	for j := 1; j <= extra; j++ {
		bodies = append(bodies, fmt.Sprintf("A%d", j))
	}
	for i := 1; i <= n; i++ {
		if ops[i-1].Kind == "xcleave" {
			bodies = append(bodies, fmt.Sprintf("C%d", i))
		}
	}
	var vs []view
	for _, b := range bodies {
		vs = append(vs, view{Name: "index:" + b, IDs: index(b)})
	}
	vs = append(vs, view{Name: "acked", IDs: append([]int{}, acked...)})
	for _, b := range bodies {
		vs = append(vs, view{Name: "mapping:" + b, IDs: mapped(b)})
	}
	return vs
}

func chidxEpisode(w *world, ops []opSpec) schedEpisode {
	n := len(ops)
	label := w.idxNext
	w.idxNext--
	blk := func(i int) dvid.IZYXString { return dvid.ChunkPoint3d{int32(i), 0, 0}.ToIZYXString() }
	var ep schedEpisode
	for i := 1; i <= n; i++ {
		i := i
		ep.reqs = append(ep.reqs, mkReq(ops[i-1], fmt.Sprintf("labelmap.ChangeLabelIndex(lm2, label %d, {block (%d,0,0): +%d})", label, i, 10+i), func() bool {
			return labelmap.ChangeLabelIndex(w.lm2, w.lm2V, label, labels.SupervoxelChanges{label: {blk(i): int32(10 + i)}}) == nil
		}))
	}
	all := idsWhere(n, func(int) bool { return true })
	ep.views = []schedView{{Name: "target", Primary: true, Relevant: all, read: func() []int {
		idx, err := labelmap.GetLabelIndex(w.lm2, w.lm2V, label, false)
		must(err)
		if idx == nil {
			return nil
		}
		return idsWhere(n, func(i int) bool {
			zyx, err := labels.IZYXStringToBlockIndex(blk(i))
			must(err)
			svc, ok := idx.Blocks[zyx]
			return ok && svc != nil && svc.Counts[label] == uint32(10+i)
		})
	}}}
	return ep
}

// ------------------------------------------------------------------ neuronjson

// permutations of xs
func perms(xs []int) [][]int {
	if len(xs) <= 1 {
		return [][]int{append([]int{}, xs...)}
	}
	var out [][]int
	for i := range xs {
		rest := append(append([]int{}, xs[:i]...), xs[i+1:]...)
		for _, p := range perms(rest) {
			out = append(out, append([]int{xs[i]}, p...))
		}
	}
	return out
}

// neuronjson: partial posts, replacing posts and deletes of one annotation that already holds a
// field (id 100).  A view is the set of field ids the annotation shows: 100 for the seeded field,
// i for the field request i posts.  On the master head the annotation is kept in memory too; on the
// open head of a named branch ("nomem") only the store copy exists.
func njEpisode(w *world, ops []opSpec) schedEpisode {
	n := len(ops)
	body := w.njNext
	w.njNext++
	nomem := ops[0].Flavor == "nomem"
	head := w.njHead
	if nomem {
		head = w.njDev
	}
	okResp(dv.Post(nodeURL(head, "nj", fmt.Sprintf("key/%d?u=seed", body)), []byte(fmt.Sprintf(`{"bodyid": %d, "f100": 100}`, body))), "neuronjson seed")
	var ep schedEpisode
	where := "master head, in-memory db"
	if nomem {
		where = "open head of branch dev, no in-memory db"
	}
	for i := 1; i <= n; i++ {
		i := i
		switch ops[i-1].Kind {
		case "post", "postreplace":
			q := ""
			if ops[i-1].Kind == "postreplace" {
				q = "&replace=true"
			}
			ep.reqs = append(ep.reqs, mkReq(ops[i-1], fmt.Sprintf(`POST nj/key/%d?u=user%d%s {"bodyid": %d, "f%d": %d} (%s; the annotation holds f100)`, body, i, q, body, i, i, where), func() bool {
				return dv.Post(nodeURL(head, "nj", fmt.Sprintf("key/%d?u=user%d%s", body, i, q)), []byte(fmt.Sprintf(`{"bodyid": %d, "f%d": %d}`, body, i, i))).Status == 200
			}))
		case "njdelete":
			ep.reqs = append(ep.reqs, mkReq(ops[i-1], fmt.Sprintf(`DELETE nj/key/%d?u=user%d (%s)`, body, i, where), func() bool {
				return dv.Delete(nodeURL(head, "nj", fmt.Sprintf("key/%d?u=user%d", body, i))).Status == 200
			}))
		}
	}
	ids := func(f map[string]bool) []int {
		var out []int
		for i := 1; i <= n; i++ {
			if f[fmt.Sprintf("f%d", i)] {
				out = append(out, i)
			}
		}
		if f["f100"] {
			out = append(out, 100)
		}
		return out
	}
	ep.init = []view{{Name: "store", IDs: []int{100}}, {Name: "mem", IDs: []int{100}}}
	// the documented meaning of the requests, applied in every order of the acknowledged ones
	ep.serial = func(acked []int) [][]view {
		var alts [][]view
		for _, order := range perms(acked) {
			cur := map[int]bool{100: true}
			for _, i := range order {
				switch ops[i-1].Kind {
				case "post":
					cur[i] = true
				case "postreplace":
					cur = map[int]bool{i: true}
				case "njdelete":
					cur = map[int]bool{}
				}
			}
			var fs []int
			for i := 1; i <= n; i++ {
				if cur[i] {
					fs = append(fs, i)
				}
			}
			if cur[100] {
				fs = append(fs, 100)
			}
			alt := []view{{Name: "store", IDs: fs}}
			if !nomem {
				alt = append(alt, view{Name: "mem", IDs: fs})
			}
			alts = append(alts, alt)
		}
		return alts
	}
	var memF, storeF map[string]bool
	if nomem {
		ep.views = []schedView{{Name: "store", Primary: true, read: func() []int {
			storeF, _ = njFields(head, body)
			return ids(storeF)
		}}}
		return ep
	}
	ep.views = []schedView{
		{Name: "store", Primary: true, read: func() []int {
			// memory copy first (HEAD), then commit + newversion: the committed parent is read from the store
			memF, _ = njFields(head, body)
			okResp(dv.Commit(head), "commit neuronjson head")
			child, r := dv.NewVersion(head)
			okResp(r, "newversion neuronjson head")
			w.njHead = child
			storeF, _ = njFields(head, body)
			return ids(storeF)
		}},
		{Name: "mem", Primary: false, read: func() []int { return ids(memF) }},
	}
	return ep
}

// ------------------------------------------------------------------ version DAG

func dagEpisode(w *world, ops []opSpec) schedEpisode {
	n := len(ops)
	ep0 := w.dagNext
	w.dagNext++
	// every episode has its own committed parent on its own branch off the repo's root
	pBranch := fmt.Sprintf("p%d", ep0)
	parent, r := dv.Branch(w.dagRepo, pBranch)
	okResp(r, "episode parent")
	okResp(dv.Commit(parent), "commit episode parent")
	other := ""
	for _, op := range ops {
		if op.Kind == "mergeparents" && other == "" {
			q, r := dv.Branch(parent, fmt.Sprintf("q%d", ep0))
			okResp(r, "side branch")
			okResp(dv.Commit(q), "commit side branch")
			other = q
		}
	}
	newName := fmt.Sprintf("x%d", ep0)
	child := make([]string, n+1)
	var ep schedEpisode
	for i := 1; i <= n; i++ {
		i := i
		switch ops[i-1].Kind {
		case "newversion":
			ep.reqs = append(ep.reqs, mkReq(ops[i-1], fmt.Sprintf("POST node/%s/newversion (parent on branch %s)", parent[:8], pBranch), func() bool {
				c, r := dv.NewVersion(parent)
				child[i] = c
				return r.Status == 200
			}))
		case "branch":
			ep.reqs = append(ep.reqs, mkReq(ops[i-1], fmt.Sprintf(`POST node/%s/branch {"branch":"%s"}`, parent[:8], newName), func() bool {
				c, r := dv.Branch(parent, newName)
				child[i] = c
				return r.Status == 200
			}))
		case "mergeparents":
			ep.reqs = append(ep.reqs, mkReq(ops[i-1], fmt.Sprintf(`POST repo/%s/merge {"parents":[%s,%s]} (%s: committed child of the parent on branch q%d)`, parent[:8], parent[:8], other[:8], other[:8], ep0), func() bool {
				c, r := dv.Merge([]string{parent, other})
				child[i] = c
				return r.Status == 200
			}))
		}
	}
	onBranch := func(kind, branch string) func() []int {
		return func() []int {
			nodes := dagNodes(w.dagRepo)
			pn := nodes[parent]
			return idsWhere(n, func(i int) bool {
				if ops[i-1].Kind != kind || child[i] == "" {
					return false
				}
				c, ok := nodes[child[i]]
				if !ok || c.Branch != branch {
					return false
				}
				for _, pv := range c.Parents {
					if pv == pn.VersionID {
						return true
					}
				}
				return false
			})
		}
	}
	kinds := func(k string) []int { return idsWhere(n, func(i int) bool { return ops[i-1].Kind == k }) }
	if ids := kinds("newversion"); len(ids) > 0 {
		ep.views = append(ep.views, schedView{Name: "children", Primary: true, Relevant: ids, read: onBranch("newversion", pBranch)})
	}
	if ids := kinds("branch"); len(ids) > 0 {
		ep.views = append(ep.views, schedView{Name: "children2", Primary: true, Relevant: ids, read: onBranch("branch", newName)})
	}
	if ids := kinds("mergeparents"); len(ids) > 0 {
		ep.views = append(ep.views, schedView{Name: "merged", Primary: true, Relevant: ids, read: onBranch("mergeparents", "")})
	}
	ep.extra = func() int {
		nodes := dagNodes(w.dagRepo)
		pn := nodes[parent]
		for _, cv := range pn.Children {
			found := false
			for _, c := range nodes {
				if c.VersionID == cv {
					found = true
				}
			}
			if !found {
				return 2 // children list names a version that is not a node
			}
		}
		return 0
	}
	ep.finish = func() {
		for _, c := range dagNodes(w.dagRepo) {
			if !c.Locked && c.UUID != w.dagRepo {
				dv.Commit(c.UUID)
			}
		}
	}
	return ep
}

// ------------------------------------------------------------------ which pairs

type pairDef struct {
	ops  []opSpec
	tier int  // 0: quick and thorough, 1: thorough only
	fine bool // only the schedules that also stop before every storage transaction (no model prediction)
}

func o(kind string, variant int) opSpec { return opSpec{Kind: kind, Variant: variant} }
func on(kind string) opSpec             { return opSpec{Kind: kind, Flavor: "nomem"} }

func allPairs() []pairDef {
	var ps []pairDef
	ann := []string{"store", "delete", "move"}
	for a := 0; a < len(ann); a++ {
		for b := a; b < len(ann); b++ {
			ps = append(ps, pairDef{ops: []opSpec{o(ann[a], 0), o(ann[b], 0)}})
			ps = append(ps, pairDef{ops: []opSpec{o(ann[a], 0), o(ann[b], 1)}})
		}
	}
	ps = append(ps,
		pairDef{ops: []opSpec{o("merge", 0), o("merge", 0)}},
		pairDef{ops: []opSpec{o("cleave", 0), o("cleave", 0)}},
		pairDef{ops: []opSpec{o("merge", 0), o("cleave", 0)}},
		pairDef{ops: []opSpec{o("chidx", 0), o("chidx", 0)}},
		pairDef{ops: []opSpec{o("post", 0), o("post", 0)}},
		pairDef{ops: []opSpec{o("post", 0), o("njdelete", 0)}},
		pairDef{ops: []opSpec{o("post", 0), o("postreplace", 0)}},
		pairDef{ops: []opSpec{on("post"), on("post")}},
		pairDef{ops: []opSpec{on("post"), on("njdelete")}},
		pairDef{ops: []opSpec{on("post"), on("postreplace")}},
		pairDef{ops: []opSpec{on("postreplace"), on("njdelete")}},
		pairDef{ops: []opSpec{o("newversion", 0), o("newversion", 0)}},
		pairDef{ops: []opSpec{o("newversion", 0), o("branch", 1)}},
		pairDef{ops: []opSpec{o("branch", 1), o("branch", 1)}},
		pairDef{ops: []opSpec{o("newversion", 0), o("mergeparents", 2)}},
		pairDef{ops: []opSpec{o("branch", 1), o("mergeparents", 2)}},
		// labelmap requests that do not commute, held at every yield point and before every storage transaction
		pairDef{fine: true, ops: []opSpec{{Kind: "xmerge", Args: []int{1}, Pre: 1}, {Kind: "xcleave", Args: []int{2}, Pre: 1}}},        // cleave of the supervoxel the merge brings in
		pairDef{fine: true, ops: []opSpec{{Kind: "xmerge", Args: []int{1}, Pre: 1}, {Kind: "xcleave", Args: []int{1}, Pre: 1}}},        // cleave of a supervoxel the body had before
		pairDef{fine: true, ops: []opSpec{{Kind: "xcleave", Args: []int{1}, Pre: 2}, {Kind: "xcleave", Args: []int{1}, Pre: 2}}},       // the same supervoxel twice
		pairDef{fine: true, ops: []opSpec{{Kind: "xcleave", Args: []int{0}, Pre: 1}, {Kind: "xcleave", Args: []int{1}, Pre: 1}}},       // together the whole body
		pairDef{fine: true, ops: []opSpec{{Kind: "xcleave", Args: []int{1, 2}, Pre: 3}, {Kind: "xcleave", Args: []int{2, 3}, Pre: 3}}}, // overlapping
		pairDef{fine: true, ops: []opSpec{{Kind: "xmerge", Args: []int{1}, Pre: 0}, {Kind: "xmerge", Args: []int{1}, Pre: 0}}},         // the same body merged twice
		pairDef{fine: true, ops: []opSpec{{Kind: "xmerge", Args: []int{1}, Pre: 0}, {Kind: "xmerge", Args: []int{2}, Pre: 0}}},
		// three requests of the shortest sites
		pairDef{ops: []opSpec{o("store", 0), o("store", 0), o("store", 0)}, tier: 1},
		pairDef{ops: []opSpec{o("store", 0), o("store", 1), o("store", 0)}, tier: 1},
		pairDef{ops: []opSpec{o("merge", 0), o("merge", 0), o("merge", 0)}, tier: 1},
		pairDef{ops: []opSpec{o("cleave", 0), o("cleave", 0), o("cleave", 0)}, tier: 1},
		pairDef{ops: []opSpec{o("merge", 0), o("cleave", 0), o("merge", 0)}, tier: 1},
		pairDef{ops: []opSpec{o("chidx", 0), o("chidx", 0), o("chidx", 0)}, tier: 1},
		pairDef{ops: []opSpec{o("newversion", 0), o("newversion", 0), o("newversion", 0)}, tier: 1},
		pairDef{ops: []opSpec{o("newversion", 0), o("branch", 1), o("mergeparents", 2)}, tier: 1},
	)
	return ps
}

func pairName(ops []opSpec) string {
	var ss []string
	for _, op := range ops {
		s := op.Kind
		if op.Variant > 0 {
			s += strings.Repeat("'", op.Variant)
		}
		if op.Flavor != "" {
			s += "@" + op.Flavor
		}
		if len(op.Args) > 0 {
			s += strings.ReplaceAll(fmt.Sprint(op.Args), " ", ",")
		}
		ss = append(ss, s)
	}
	return strings.Join(ss, "+")
}
