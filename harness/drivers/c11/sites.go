package main

// The world (repos and instances shared by all episodes; every episode takes fresh keys, blocks,
// bodies, neuron ids or parent nodes) and, per site of Gen/Locks.v, how to build the requests of
// an episode and how to read the quiescent state.

import (
	"encoding/binary"
	"encoding/json"
	"fmt"
	"os"
	"runtime"
	"strings"
	"sync"
	"time"

	"github.com/janelia-flyem/dvid/datastore"
	"github.com/janelia-flyem/dvid/datatype/common/labels"
	"github.com/janelia-flyem/dvid/datatype/labelmap"
	"github.com/janelia-flyem/dvid/dvid"
	"verif/harness/dv"
)

const bs = 16         // block edge of every instance
const annBlocks = 800 // painted blocks available to annotation episodes
const mergeCols = 6144

type world struct {
	annRepo  string // lm (labelmap), ann (annotation synced to lm), kv (keyvalue)
	annNext  int    // next unused block of lm/ann
	kvNext   int
	lmRepo   string // lm2: labelmap for merges / cleaves
	lmNext   int    // next unused label (column) of lm2
	idxNext  uint64 // next synthetic label for ChangeLabelIndex
	njRepo   string
	njDev    string // open head of branch "dev" in a second neuronjson repo: a version without in-memory db
	kvaChild string // keyvalue: open child of a committed root in which every key a<i> has the value v0
	kvaNext  int
	lmEp     int    // labelmap episodes so far: picks the label region
	lmUsed   [4]int // columns used per region
	njHead   string // uncommitted HEAD of master in njRepo
	njNext   int
	dagRepo  string
	dagP     string // committed node without child on its own branch
	dagNext  int
	lm2      *labelmap.Data
	lm2V     dvid.VersionID
	episodes int
}

func debugf(f string, a ...interface{}) {
	if os.Getenv("C11_DEBUG") != "" {
		fmt.Fprintf(os.Stderr, "c11 debug: "+f+"\n", a...)
	}
}

func must(err error) {
	if err != nil {
		fatal("%v", err)
	}
}

func okResp(r dv.Resp, what string) {
	if r.Status != 200 {
		fatal("%s: %d %s", what, r.Status, r.Body)
	}
}

func settle(uuid string, names ...string) {
	for _, n := range names {
		must(datastore.BlockOnUpdating(dvid.UUID(uuid), dvid.InstanceName(n)))
	}
}

func nodeURL(uuid, inst, path string) string { return "/api/node/" + uuid + "/" + inst + "/" + path }

var repoSeq int

func freshRepo(what string) string {
	repoSeq++
	uuid, err := dv.NewRepo(fmt.Sprintf("c11-%s-%d", what, repoSeq))
	must(err)
	return uuid
}

func newWorld() *world {
	w := &world{idxNext: 1 << 40}
	for _, f := range []string{"ann", "lm", "nj", "dag"} {
		w.rebuild(f)
	}
	return w
}

// rebuild gives one family of sites a fresh repo (at start, and after a deadlock has left
// goroutines blocked on the old repo's mutexes).
func (w *world) rebuild(family string) {
	var err error
	switch family {
	case "ann": // annotation + labelmap + keyvalue
		w.annRepo = freshRepo("ann")
		w.annNext = 0
		must(dv.NewInstance(w.annRepo, "labelmap", "lm", map[string]string{"BlockSize": "16,16,16"}))
		must(dv.NewInstance(w.annRepo, "annotation", "ann", map[string]string{"BlockSize": "16,16,16"}))
		must(dv.NewInstance(w.annRepo, "keyvalue", "kv", nil))
		okResp(dv.Post(nodeURL(w.annRepo, "ann", "sync"), []byte(`{"sync":"lm"}`)), "sync ann")
		// block b (x in [16b,16b+16)) is body 1000+b
		nx := annBlocks * bs
		buf := make([]byte, nx*bs*bs*8)
		for z := 0; z < bs; z++ {
			for y := 0; y < bs; y++ {
				for x := 0; x < nx; x++ {
					binary.LittleEndian.PutUint64(buf[((z*bs+y)*nx+x)*8:], uint64(1000+x/bs))
				}
			}
		}
		okResp(dv.Post(nodeURL(w.annRepo, "lm", fmt.Sprintf("raw/0_1_2/%d_%d_%d/0_0_0", nx, bs, bs)), buf), "label volume")
		settle(w.annRepo, "lm", "ann")
	case "lm": // labelmap for merges: column x is body x+1 (256 voxels, one block)
		w.lmRepo = freshRepo("lm")
		w.lmNext = 0
		w.lmUsed = [4]int{}
		must(dv.NewInstance(w.lmRepo, "labelmap", "lm2", map[string]string{"BlockSize": "16,16,16"}))
		buf := make([]byte, mergeCols*bs*bs*8)
		for z := 0; z < bs; z++ {
			for y := 0; y < bs; y++ {
				for x := 0; x < mergeCols; x++ {
					binary.LittleEndian.PutUint64(buf[((z*bs+y)*mergeCols+x)*8:], lmLabelOfCol(x))
				}
			}
		}
		okResp(dv.Post(nodeURL(w.lmRepo, "lm2", fmt.Sprintf("raw/0_1_2/%d_%d_%d/0_0_0", mergeCols, bs, bs)), buf), "merge volume")
		settle(w.lmRepo, "lm2")
		w.lm2, err = labelmap.GetByUUIDName(dvid.UUID(w.lmRepo), "lm2")
		must(err)
		w.lm2V, err = datastore.VersionFromUUID(dvid.UUID(w.lmRepo))
		must(err)
	case "nj":
		w.njRepo = freshRepo("nj")
		must(dv.NewInstance(w.njRepo, "neuronjson", "nj", nil))
		w.njHead = w.njRepo
		w.njNext = 100
		// a version for which neuronjson keeps no in-memory db: the open head of a named branch
		njb := freshRepo("njb")
		must(dv.NewInstance(njb, "neuronjson", "nj", nil))
		okResp(dv.Commit(njb), "commit neuronjson branch root")
		dev, r := dv.Branch(njb, "dev")
		okResp(r, "neuronjson dev branch")
		w.njDev = dev
	case "dag":
		w.dagRepo = freshRepo("dag")
		okResp(dv.Commit(w.dagRepo), "commit root")
		w.dagP = w.dagRepo
	default:
		fatal("unknown family %q", family)
	}
}

// ------------------------------------------------------------------ keyvalue

func kvPrepare(del bool) func(w *world, n int) prepared {
	return func(w *world, n int) prepared {
		ep := w.kvNext
		w.kvNext++
		shared := fmt.Sprintf("s%d", ep)
		var p prepared
		if del {
			okResp(dv.Post(nodeURL(w.annRepo, "kv", "key/"+shared), []byte("v0")), "kv seed")
		}
		for i := 1; i <= n; i++ {
			i := i
			own := fmt.Sprintf("k%d-%d", ep, i)
			isDel := del && i%2 == 0
			if isDel {
				okResp(dv.Post(nodeURL(w.annRepo, "kv", "key/"+own), []byte("seed")), "kv seed")
				p.desc = append(p.desc, fmt.Sprintf("%d: DELETE kv/key/%s ; DELETE kv/key/%s", i, shared, own))
				p.reqs = append(p.reqs, func() bool {
					a := dv.Delete(nodeURL(w.annRepo, "kv", "key/"+shared))
					b := dv.Delete(nodeURL(w.annRepo, "kv", "key/"+own))
					return a.Status == 200 && b.Status == 200
				})
			} else {
				p.desc = append(p.desc, fmt.Sprintf("%d: POST kv/key/%s = v%d ; POST kv/key/%s = v%d", i, shared, i, own, i))
				p.reqs = append(p.reqs, func() bool {
					a := dv.Post(nodeURL(w.annRepo, "kv", "key/"+shared), []byte(fmt.Sprintf("v%d", i)))
					b := dv.Post(nodeURL(w.annRepo, "kv", "key/"+own), []byte(fmt.Sprintf("v%d", i)))
					return a.Status == 200 && b.Status == 200
				})
			}
		}
		p.observe = func(acked []int) ([]view, int) {
			read := func(k string) (int, bool) { // id of the value, found
				r := dv.Get(nodeURL(w.annRepo, "kv", "key/"+k))
				if r.Status == 404 {
					return 0, false
				}
				if r.Status != 200 {
					fatal("kv read %s: %d %s", k, r.Status, r.Body)
				}
				var id int
				if _, err := fmt.Sscanf(string(r.Body), "v%d", &id); err != nil {
					return -1, true
				}
				return id, true
			}
			var vs []view
			extra := 0
			id, found := read(shared)
			switch {
			case found:
				vs = append(vs, view{Name: "data", IDs: []int{id}})
			case del:
				// deleted: the effect of one of the acknowledged deletes
				d := 0
				for _, a := range acked {
					if a%2 == 0 {
						d = a
					}
				}
				vs = append(vs, view{Name: "data", IDs: []int{d}})
			default:
				vs = append(vs, view{Name: "data", IDs: nil})
			}
			for i := 1; i <= n; i++ {
				own := fmt.Sprintf("k%d-%d", ep, i)
				id, found := read(own)
				if del && i%2 == 0 {
					if found {
						extra = 1 // an acknowledged delete of a key nobody else writes left the key
					}
					continue
				}
				if found {
					vs = append(vs, view{Name: own, IDs: []int{id}})
				} else {
					vs = append(vs, view{Name: own, IDs: nil})
				}
			}
			return vs, extra
		}
		return p
	}
}

// ------------------------------------------------------------------ annotation

type annElem struct {
	Pos  [3]int
	Kind string
	Tags []string
	Prop map[string]string
}

func (w *world) annBlock() int {
	if w.annNext >= annBlocks {
		fatal("out of annotation blocks")
	}
	b := w.annNext
	w.annNext++
	return b
}

func posStr(p [3]int) string { return fmt.Sprintf("%d_%d_%d", p[0], p[1], p[2]) }

func annPositions(w *world, url string, flat bool) map[[3]int]bool {
	r := dv.Get(url)
	if r.Status != 200 {
		fatal("annotation read %s: %d %s", url, r.Status, r.Body)
	}
	out := map[[3]int]bool{}
	if flat {
		var es []annElem
		if len(r.Body) > 0 && string(r.Body) != "null" {
			if err := json.Unmarshal(r.Body, &es); err != nil {
				fatal("annotation read %s: %v in %s", url, err, r.Body)
			}
		}
		for _, e := range es {
			out[e.Pos] = true
		}
		return out
	}
	var m map[string][]annElem
	if err := json.Unmarshal(r.Body, &m); err != nil {
		fatal("annotation read %s: %v", url, err)
	}
	for _, es := range m {
		for _, e := range es {
			out[e.Pos] = true
		}
	}
	return out
}

// annViews: per view, the ids whose effect (as judged by shows) is visible
func annViews(w *world, b int, n int, withLabel bool, shows func(i int, present map[[3]int]bool) bool) []view {
	srcs := []struct {
		name, url string
		flat      bool
	}{
		{"block", nodeURL(w.annRepo, "ann", fmt.Sprintf("elements/%d_%d_%d/%d_0_0", bs, bs, bs, b*bs)), true},
		{"all", nodeURL(w.annRepo, "ann", "all-elements"), false},
		{"tag", nodeURL(w.annRepo, "ann", fmt.Sprintf("tag/t%d", b)), true},
		{"label", nodeURL(w.annRepo, "ann", fmt.Sprintf("label/%d", 1000+b)), true},
	}
	var vs []view
	for _, s := range srcs {
		if s.name == "label" && !withLabel {
			continue
		}
		present := annPositions(w, s.url, s.flat)
		var ids []int
		for i := 1; i <= n; i++ {
			if shows(i, present) {
				ids = append(ids, i)
			}
		}
		vs = append(vs, view{Name: s.name, IDs: ids})
	}
	return vs
}

func annPost(w *world, es []annElem) dv.Resp {
	body, _ := json.Marshal(es)
	return dv.Post(nodeURL(w.annRepo, "ann", "elements"), body)
}

func annStorePrepare(w *world, n int) prepared {
	b := w.annBlock()
	var p prepared
	pos := func(i int) [3]int { return [3]int{b*bs + i%bs, 1 + i/bs, 1} }
	for i := 1; i <= n; i++ {
		i := i
		e := annElem{Pos: pos(i), Kind: "Note", Tags: []string{fmt.Sprintf("t%d", b)}, Prop: map[string]string{"r": fmt.Sprint(i)}}
		p.desc = append(p.desc, fmt.Sprintf("%d: POST ann/elements [{Pos:%v,Kind:Note,Tags:[t%d]}]", i, e.Pos, b))
		p.reqs = append(p.reqs, func() bool { return annPost(w, []annElem{e}).Status == 200 })
	}
	p.observe = func(acked []int) ([]view, int) {
		return annViews(w, b, n, true, func(i int, present map[[3]int]bool) bool { return present[pos(i)] }), 0
	}
	return p
}

func annDeletePrepare(w *world, n int) prepared {
	b := w.annBlock()
	var p prepared
	pos := func(i int) [3]int { return [3]int{b*bs + i%bs, 1 + i/bs, 1} }
	var es []annElem
	for i := 1; i <= n; i++ {
		es = append(es, annElem{Pos: pos(i), Kind: "Note", Tags: []string{fmt.Sprintf("t%d", b)}, Prop: map[string]string{}})
	}
	okResp(annPost(w, es), "annotation seed")
	for i := 1; i <= n; i++ {
		i := i
		p.desc = append(p.desc, fmt.Sprintf("%d: DELETE ann/element/%s (block %d holds elements 1..%d, tag t%d, label %d)", i, posStr(pos(i)), b, n, b, 1000+b))
		p.reqs = append(p.reqs, func() bool {
			return dv.Delete(nodeURL(w.annRepo, "ann", "element/"+posStr(pos(i)))).Status == 200
		})
	}
	p.observe = func(acked []int) ([]view, int) {
		return annViews(w, b, n, true, func(i int, present map[[3]int]bool) bool { return !present[pos(i)] }), 0
	}
	return p
}

func annMovePrepare(w *world, n int) prepared {
	b := w.annBlock()
	var p prepared
	from := func(i int) [3]int { return [3]int{b*bs + i%bs, 1 + i/bs, 1} }
	to := func(i int) [3]int { return [3]int{b*bs + i%bs, 1 + i/bs, 9} }
	var es []annElem
	for i := 1; i <= n; i++ {
		es = append(es, annElem{Pos: from(i), Kind: "Note", Tags: []string{fmt.Sprintf("t%d", b)}, Prop: map[string]string{}})
	}
	okResp(annPost(w, es), "annotation seed")
	for i := 1; i <= n; i++ {
		i := i
		p.desc = append(p.desc, fmt.Sprintf("%d: POST ann/move/%s/%s (same block %d, tag t%d)", i, posStr(from(i)), posStr(to(i)), b, b))
		p.reqs = append(p.reqs, func() bool {
			return dv.Post(nodeURL(w.annRepo, "ann", "move/"+posStr(from(i))+"/"+posStr(to(i))), nil).Status == 200
		})
	}
	p.observe = func(acked []int) ([]view, int) {
		// the label list is not rewritten by a move inside one body (moveElementInLabels returns
		// early when old and new label are equal), so it is not a view of this episode
		return annViews(w, b, n, false, func(i int, present map[[3]int]bool) bool { return present[to(i)] && !present[from(i)] }), 0
	}
	return p
}

// ------------------------------------------------------------------ labelmap

// The merge volume has four regions of columns whose bodies have ids of different magnitude:
// small, above 2^32 (high word 5), above 2^63, and just below 2^64.  Episodes take their bodies
// from the regions in turn.
const lmRegion = mergeCols / 4

var lmBases = [4]uint64{0, 5 << 32, 1<<63 + 37<<32, 0xFFFFFFFE << 32}

func lmLabelOfCol(x int) uint64 { return lmBases[x/lmRegion] + uint64(x%lmRegion) + 1 }

func (w *world) colOf(label uint64) int {
	for r := 3; r >= 0; r-- {
		if label > lmBases[r] && label-lmBases[r] <= lmRegion {
			return r*lmRegion + int(label-lmBases[r]) - 1
		}
	}
	fatal("label %d is not a body of the merge volume", label)
	return 0
}

func (w *world) lmLabels(k int) uint64 {
	r := w.lmEp % 4
	w.lmEp++
	if w.lmUsed[r]+k > lmRegion {
		fatal("out of bodies for merge episodes in region %d", r)
	}
	first := lmLabelOfCol(r*lmRegion + w.lmUsed[r])
	w.lmUsed[r] += k
	// label indices of an ingested volume are written in the background
	for l := first; l < first+uint64(k); l++ {
		t0 := time.Now()
		for lmSize(w, l) != 256 {
			if time.Since(t0) > 20*time.Second {
				fatal("body %d of the ingested volume has size %d, not 256", l, lmSize(w, l))
			}
			time.Sleep(5 * time.Millisecond)
		}
	}
	return first
}

func lmSupervoxels(w *world, label uint64) map[uint64]bool {
	r := dv.Get(nodeURL(w.lmRepo, "lm2", fmt.Sprintf("supervoxels/%d", label)))
	out := map[uint64]bool{}
	if r.Status == 404 {
		return out
	}
	if r.Status != 200 {
		fatal("supervoxels %d: %d %s", label, r.Status, r.Body)
	}
	var svs []uint64
	if err := json.Unmarshal(r.Body, &svs); err != nil {
		fatal("supervoxels %d: %v", label, err)
	}
	for _, s := range svs {
		out[s] = true
	}
	return out
}

func lmSize(w *world, label uint64) uint64 {
	r := dv.Get(nodeURL(w.lmRepo, "lm2", fmt.Sprintf("size/%d", label)))
	if r.Status == 404 {
		return 0
	}
	if r.Status != 200 {
		fatal("size %d: %d %s", label, r.Status, r.Body)
	}
	var m struct{ Voxels uint64 }
	json.Unmarshal(r.Body, &m)
	return m.Voxels
}

func lmLabelAt(w *world, x int) uint64 {
	r := dv.Get(nodeURL(w.lmRepo, "lm2", fmt.Sprintf("label/%d_1_1", x)))
	if r.Status != 200 {
		fatal("label at %d: %d %s", x, r.Status, r.Body)
	}
	var m struct{ Label uint64 }
	json.Unmarshal(r.Body, &m)
	return m.Label
}

func lmMergePrepare(w *world, n int) prepared {
	t := w.lmLabels(n + 1)
	var p prepared
	for i := 1; i <= n; i++ {
		a := t + uint64(i)
		p.desc = append(p.desc, fmt.Sprintf("%d: POST lm2/merge [%d,%d]", i, t, a))
		p.reqs = append(p.reqs, func() bool {
			return dv.Post(nodeURL(w.lmRepo, "lm2", "merge"), []byte(fmt.Sprintf("[%d,%d]", t, a))).Status == 200
		})
	}
	p.observe = func(acked []int) ([]view, int) {
		svs := lmSupervoxels(w, t)
		var inIdx, mapped []int
		for i := 1; i <= n; i++ {
			a := t + uint64(i)
			if svs[a] {
				inIdx = append(inIdx, i)
			}
			if lmLabelAt(w, w.colOf(a)) == t {
				mapped = append(mapped, i)
			}
		}
		extra := 0
		if !svs[t] {
			extra = 2 // the target lost its own supervoxel
		} else if lmSize(w, t) != uint64(256*(1+len(inIdx))) {
			extra = 1 // size of the target is not the sum of the supervoxels its index lists
		}
		return []view{{Name: "target", IDs: inIdx}, {Name: "mapping", IDs: mapped}}, extra
	}
	return p
}

func lmCleavePrepare(w *world, n int) prepared {
	t := w.lmLabels(n + 1)
	var p prepared
	all := []string{fmt.Sprint(t)}
	for i := 1; i <= n; i++ {
		all = append(all, fmt.Sprint(t+uint64(i)))
	}
	okResp(dv.Post(nodeURL(w.lmRepo, "lm2", "merge"), []byte("["+strings.Join(all, ",")+"]")), "cleave seed merge")
	cleaved := make([]uint64, n+1)
	for i := 1; i <= n; i++ {
		i := i
		s := t + uint64(i)
		p.desc = append(p.desc, fmt.Sprintf("%d: POST lm2/cleave/%d [%d] (body %d holds supervoxels %d..%d)", i, t, s, t, t, t+uint64(n)))
		p.reqs = append(p.reqs, func() bool {
			r := dv.Post(nodeURL(w.lmRepo, "lm2", fmt.Sprintf("cleave/%d", t)), []byte(fmt.Sprintf("[%d]", s)))
			if r.Status != 200 {
				return false
			}
			var m struct{ CleavedLabel uint64 }
			json.Unmarshal(r.Body, &m)
			cleaved[i] = m.CleavedLabel
			return true
		})
	}
	p.observe = func(acked []int) ([]view, int) {
		svs := lmSupervoxels(w, t)
		var gone, mapped []int
		extra := 0
		for i := 1; i <= n; i++ {
			s := t + uint64(i)
			if !svs[s] {
				gone = append(gone, i)
			}
			if cleaved[i] != 0 {
				if lmLabelAt(w, w.colOf(s)) == cleaved[i] {
					mapped = append(mapped, i)
				}
				c := lmSupervoxels(w, cleaved[i])
				if len(c) != 1 || !c[s] {
					extra = 2 // the cleaved body does not hold exactly the cleaved supervoxel
				}
			}
		}
		if extra == 0 && lmSize(w, t) != uint64(256*(1+n-len(gone))) {
			extra = 1
		}
		return []view{{Name: "target", IDs: gone}, {Name: "mapping", IDs: mapped}}, extra
	}
	return p
}

func lmChangeIndexPrepare(w *world, n int) prepared {
	// synthetic labels count down from 2^40: bodies the server allocates itself (cleaves) count up
	// from the largest label it has seen
	label := w.idxNext
	w.idxNext--
	var p prepared
	blk := func(i int) dvid.IZYXString { return dvid.ChunkPoint3d{int32(i), 0, 0}.ToIZYXString() }
	for i := 1; i <= n; i++ {
		i := i
		p.desc = append(p.desc, fmt.Sprintf("%d: labelmap.ChangeLabelIndex(lm2, label %d, {%d: {block (%d,0,0): +%d}})", i, label, label, i, 10+i))
		p.reqs = append(p.reqs, func() bool {
			delta := labels.SupervoxelChanges{label: {blk(i): int32(10 + i)}}
			return labelmap.ChangeLabelIndex(w.lm2, w.lm2V, label, delta) == nil
		})
	}
	p.observe = func(acked []int) ([]view, int) {
		idx, err := labelmap.GetLabelIndex(w.lm2, w.lm2V, label, false)
		must(err)
		var ids []int
		extra := 0
		if idx != nil {
			for i := 1; i <= n; i++ {
				zyx, err := labels.IZYXStringToBlockIndex(blk(i))
				must(err)
				if svc, ok := idx.Blocks[zyx]; ok && svc != nil {
					if svc.Counts[label] == uint32(10+i) {
						ids = append(ids, i)
					} else {
						extra = 1
					}
				}
			}
		}
		return []view{{Name: "target", IDs: ids}}, extra
	}
	return p
}

// ------------------------------------------------------------------ neuronjson

func njFields(uuid string, body int) (map[string]bool, bool) {
	r := dv.Get(nodeURL(uuid, "nj", fmt.Sprintf("key/%d", body)))
	if r.Status == 404 {
		return map[string]bool{}, false
	}
	if r.Status != 200 {
		fatal("neuronjson read %d at %s: %d %s", body, uuid, r.Status, r.Body)
	}
	var m map[string]interface{}
	if err := json.Unmarshal(r.Body, &m); err != nil {
		fatal("neuronjson read %d: %v in %s", body, err, r.Body)
	}
	out := map[string]bool{}
	for k := range m {
		out[k] = true
	}
	return out, true
}

func njPrepare(w *world, n int) prepared {
	body := w.njNext
	w.njNext++
	head := w.njHead
	var p prepared
	for i := 1; i <= n; i++ {
		i := i
		p.desc = append(p.desc, fmt.Sprintf(`%d: POST nj/key/%d?u=user%d {"bodyid": %d, "f%d": %d}`, i, body, i, body, i, i))
		p.reqs = append(p.reqs, func() bool {
			r := dv.Post(nodeURL(head, "nj", fmt.Sprintf("key/%d?u=user%d", body, i)), []byte(fmt.Sprintf(`{"bodyid": %d, "f%d": %d}`, body, i, i)))
			if r.Status != 200 {
				debugf("neuronjson POST: %d %s", r.Status, r.Body)
			}
			return r.Status == 200
		})
	}
	p.observe = func(acked []int) ([]view, int) {
		// memory copy: HEAD of master; store copy: the same node once it is committed and has a child
		memF, _ := njFields(head, body)
		okResp(dv.Commit(head), "commit neuronjson head")
		child, r := dv.NewVersion(head)
		okResp(r, "newversion neuronjson head")
		w.njHead = child
		storeF, _ := njFields(head, body)
		childF, _ := njFields(child, body)
		var st, mem, ch []int
		for i := 1; i <= n; i++ {
			f := fmt.Sprintf("f%d", i)
			if storeF[f] {
				st = append(st, i)
			}
			if memF[f] {
				mem = append(mem, i)
			}
			if childF[f] {
				ch = append(ch, i)
			}
		}
		extra := 0
		if fmt.Sprint(mem) != fmt.Sprint(ch) {
			extra = 1 // memory copy changed by commit + newversion
		}
		return []view{{Name: "store", IDs: st}, {Name: "mem", IDs: mem}}, extra
	}
	return p
}

// ------------------------------------------------------------------ version DAG

type dagNode struct {
	Branch    string
	UUID      string
	VersionID int
	Parents   []int
	Children  []int
	Locked    bool
}

func dagNodes(root string) map[string]dagNode {
	r := dv.Get("/api/repo/" + root + "/info")
	if r.Status != 200 {
		fatal("repo info: %d %s", r.Status, r.Body)
	}
	var m struct {
		DAG struct {
			Nodes map[string]dagNode
		}
	}
	if err := json.Unmarshal(r.Body, &m); err != nil {
		fatal("repo info: %v", err)
	}
	return m.DAG.Nodes
}

func dagPrepare(branch bool) func(w *world, n int) prepared {
	return func(w *world, n int) prepared {
		parent := w.dagP
		ep := w.dagNext
		w.dagNext++
		child := make([]string, n+1)
		var p prepared
		for i := 1; i <= n; i++ {
			i := i
			if branch {
				p.desc = append(p.desc, fmt.Sprintf(`%d: POST node/%s/branch {"branch":"b%d"}`, i, parent[:8], ep))
				p.reqs = append(p.reqs, func() bool {
					c, r := dv.Branch(parent, fmt.Sprintf("b%d", ep))
					child[i] = c
					return r.Status == 200
				})
			} else {
				p.desc = append(p.desc, fmt.Sprintf(`%d: POST node/%s/newversion`, i, parent[:8]))
				p.reqs = append(p.reqs, func() bool {
					c, r := dv.NewVersion(parent)
					child[i] = c
					return r.Status == 200
				})
			}
		}
		p.observe = func(acked []int) ([]view, int) {
			nodes := dagNodes(w.dagRepo)
			pn, ok := nodes[parent]
			if !ok {
				fatal("parent %s not in DAG", parent)
			}
			want := pn.Branch
			if branch {
				want = fmt.Sprintf("b%d", ep)
			}
			var ids []int
			for i := 1; i <= n; i++ {
				if c, ok := nodes[child[i]]; child[i] != "" && ok && c.Branch == want && len(c.Parents) == 1 && c.Parents[0] == pn.VersionID {
					ids = append(ids, i)
				}
			}
			// every node of that branch hanging off the parent, whoever created it
			onBranch := 0
			for _, c := range nodes {
				if c.Branch == want && len(c.Parents) == 1 && c.Parents[0] == pn.VersionID && c.UUID != parent {
					onBranch++
				}
			}
			extra := 0
			if onBranch != len(ids) {
				extra = 1 // a child exists that no request was answered with
			}
			for _, cv := range pn.Children {
				found := false
				for _, c := range nodes {
					if c.VersionID == cv {
						found = true
					}
				}
				if !found {
					extra = 2 // children list names a version that is not a node
				}
			}
			// continue the chain below a child of the parent's own branch
			next := ""
			for _, c := range nodes {
				if c.Branch == pn.Branch && len(c.Parents) == 1 && c.Parents[0] == pn.VersionID && c.UUID != parent {
					next = c.UUID
				}
			}
			if next == "" {
				c, r := dv.NewVersion(parent)
				okResp(r, "sequential newversion")
				next = c
			}
			// commit every open child so that nothing of this episode stays writable
			for _, c := range dagNodes(w.dagRepo) {
				if !c.Locked && len(c.Parents) == 1 && c.Parents[0] == pn.VersionID {
					okResp(dv.Commit(c.UUID), "commit child")
				}
			}
			w.dagP = next
			return []view{{Name: "children", IDs: ids}}, extra
		}
		return p
	}
}

// requests of two different sites on one object: a merge into body T and a cleave of T
func mixedPrepare(w *world, s *siteDef, site2 string) prepared {
	if s.name != "labelmap.MergeLabels" || site2 != "labelmap.CleaveLabel" {
		fatal("no mixed episode for %s / %s", s.name, site2)
	}
	t := w.lmLabels(3)
	sv, a := t+1, t+2
	okResp(dv.Post(nodeURL(w.lmRepo, "lm2", "merge"), []byte(fmt.Sprintf("[%d,%d]", t, sv))), "mixed seed merge")
	var p prepared
	var cleaved uint64
	p.desc = []string{
		fmt.Sprintf("1: POST lm2/merge [%d,%d] (body %d holds supervoxels %d,%d)", t, a, t, t, sv),
		fmt.Sprintf("2: POST lm2/cleave/%d [%d]", t, sv),
	}
	p.reqs = []func() bool{
		func() bool {
			return dv.Post(nodeURL(w.lmRepo, "lm2", "merge"), []byte(fmt.Sprintf("[%d,%d]", t, a))).Status == 200
		},
		func() bool {
			r := dv.Post(nodeURL(w.lmRepo, "lm2", fmt.Sprintf("cleave/%d", t)), []byte(fmt.Sprintf("[%d]", sv)))
			if r.Status != 200 {
				return false
			}
			var m struct{ CleavedLabel uint64 }
			json.Unmarshal(r.Body, &m)
			cleaved = m.CleavedLabel
			return true
		},
	}
	p.observe = func(acked []int) ([]view, int) {
		svs := lmSupervoxels(w, t)
		var inIdx, mapped []int
		if svs[a] {
			inIdx = append(inIdx, 1)
		}
		if !svs[sv] {
			inIdx = append(inIdx, 2)
		}
		if lmLabelAt(w, w.colOf(a)) == t {
			mapped = append(mapped, 1)
		}
		if cleaved != 0 && lmLabelAt(w, w.colOf(sv)) == cleaved {
			mapped = append(mapped, 2)
		}
		return []view{{Name: "target", IDs: inIdx}, {Name: "mapping", IDs: mapped}}, 0
	}
	return p
}

// forced schedules at yield points outside the sites' models (liveness)
func livePrepare(w *world, s *siteDef, yield string) prepared {
	parent := w.dagP
	ep := w.dagNext
	w.dagNext++
	var p prepared
	var childA, childB string
	p.desc = append(p.desc, fmt.Sprintf("1: POST node/%s/newversion", parent[:8]))
	p.reqs = append(p.reqs, func() bool {
		c, r := dv.NewVersion(parent)
		childA = c
		return r.Status == 200
	})
	switch yield {
	case "datastore.saveToStore.rlocked":
		// request 2 needs the repo's write lock (r.Lock in newVersion) while request 1 is inside
		// saveToStore holding r.RLock and about to take it again in repoT.GobEncode
		p.desc = append(p.desc, fmt.Sprintf(`2: POST node/%s/branch {"branch":"live%d"}`, parent[:8], ep))
		p.reqs = append(p.reqs, func() bool {
			c, r := dv.Branch(parent, fmt.Sprintf("live%d", ep))
			childB = c
			return r.Status == 200
		})
	case "datastore.newVersion.append":
		// request 2 (a merge naming the parent) needs the node's write lock while request 1 holds
		// node.RLock (deferred) and will take it again in nodeT.GobEncode when it saves the repo
		q, r := dv.Branch(parent, fmt.Sprintf("q%d", ep))
		okResp(r, "live: side branch")
		okResp(dv.Commit(q), "live: commit side branch")
		p.desc = append(p.desc, fmt.Sprintf(`2: POST repo/%s/merge {"parents":[%s,%s]} (%s = committed child of %s on branch q%d)`, parent[:8], parent[:8], q[:8], q[:8], parent[:8], ep))
		p.reqs = append(p.reqs, func() bool {
			_, r := dv.Merge([]string{parent, q})
			debugf("live merge: %d %s", r.Status, r.Body)
			return r.Status == 200
		})
	default:
		fatal("no live episode for yield point %s", yield)
	}
	p.observe = func(acked []int) ([]view, int) {
		nodes := dagNodes(w.dagRepo)
		pn := nodes[parent]
		var ids []int
		if c, ok := nodes[childA]; childA != "" && ok && c.Branch == pn.Branch {
			ids = append(ids, 1)
		}
		extra := 0
		if childB != "" {
			if c, ok := nodes[childB]; !ok || c.Branch != fmt.Sprintf("live%d", ep) {
				extra = 3
			}
		}
		for _, c := range nodes {
			if !c.Locked && len(c.Parents) == 1 && c.Parents[0] == pn.VersionID {
				okResp(dv.Commit(c.UUID), "commit child")
			}
		}
		if childA == "" {
			fatal("live episode: newversion failed")
		}
		w.dagP = childA
		return []view{{Name: "children", IDs: ids}}, extra
	}
	return p
}

// ------------------------------------------------------------------ table

func allSites() []siteDef {
	return []siteDef{
		{name: "keyvalue.PutData", family: "ann", prepare: kvPrepare(false), stressN: [2]int{8, 12}, rounds: [2]int{12, 300}},
		{name: "keyvalue.DeleteData", family: "ann", prepare: kvPrepare(true), stressN: [2]int{8, 12}, rounds: [2]int{8, 200}},
		{name: "annotation.StoreElements", family: "ann", yields: []string{"annotation.StoreElements.commit"}, prepare: annStorePrepare, stressN: [2]int{6, 10}, rounds: [2]int{8, 100}},
		{name: "annotation.DeleteElement", family: "ann", yields: []string{"annotation.DeleteElement.block", "annotation.DeleteElement.commit"}, prepare: annDeletePrepare, stressN: [2]int{6, 10}, rounds: [2]int{8, 100}},
		{name: "annotation.MoveElement", family: "ann", yields: []string{"annotation.MoveElement.block", "annotation.MoveElement.commit"}, prepare: annMovePrepare, stressN: [2]int{6, 10}, rounds: [2]int{8, 100}},
		{name: "labelmap.MergeLabels", family: "lm", yields: []string{"labelmap.MergeLabels.target"},
			mixed:   [][2]string{{"labelmap.MergeLabels.target", "labelmap.CleaveLabel"}},
			prepare: lmMergePrepare, stressN: [2]int{5, 8}, rounds: [2]int{8, 100}},
		{name: "labelmap.CleaveLabel", family: "lm", yields: []string{"labelmap.cleaveIndex.read"}, prepare: lmCleavePrepare, stressN: [2]int{5, 8}, rounds: [2]int{8, 100}},
		{name: "labelmap.ChangeLabelIndex", family: "lm", yields: []string{"labelmap.ChangeLabelIndex.read"}, prepare: lmChangeIndexPrepare, stressN: [2]int{8, 12}, rounds: [2]int{10, 300}},
		{name: "neuronjson.storeAndUpdate", family: "nj", yields: []string{"neuronjson.storeAndUpdate.read", "neuronjson.storeAndUpdate.store"}, prepare: njPrepare, stressN: [2]int{6, 10}, rounds: [2]int{8, 150}},
		{name: "datastore.newVersion", family: "dag", yields: []string{"datastore.newVersion.append"},
			live:    []string{"datastore.saveToStore.rlocked", "datastore.newVersion.append"},
			prepare: dagPrepare(false), stressN: [2]int{6, 10}, rounds: [2]int{10, 120}},
		{name: "datastore.newVersion", variant: "branch", family: "dag", prepare: dagPrepare(true), stressN: [2]int{6, 10}, rounds: [2]int{6, 60}},
	}
}

// ------------------------------------------------------------------ keyvalue, key with a value in an ancestor

const kvaKeys = 6000

func (w *world) kvaSetup() {
	root := freshRepo("kva")
	must(dv.NewInstance(root, "keyvalue", "kv", nil))
	for i := 0; i < kvaKeys; i++ {
		okResp(dv.Post(nodeURL(root, "kv", fmt.Sprintf("key/a%d", i)), []byte("v0")), "ancestor value")
	}
	okResp(dv.Commit(root), "commit keyvalue root")
	child, r := dv.NewVersion(root)
	okResp(r, "keyvalue child")
	w.kvaChild = child
	w.kvaNext = 0
}

// kvAncestorStress: POST and DELETE of one key from two goroutines in the open child of a version
// in which the key has the value v0, start offsets swept, one fresh key per attempt, for at most
// the given time.  Whatever the order, the child must afterwards show either the posted value or
// no value; the ancestor's value showing through means the child holds neither value nor
// tombstone.  A hit is tried again with the same offset before it is reported.
func kvAncestorStress(w *world, budget time.Duration) caseJ {
	if w.kvaChild == "" {
		w.kvaSetup()
	}
	c := caseJ{Site: "keyvalue.PutData", Variant: "ancestor", Mode: "stress", N: 2}
	offsets := []time.Duration{0, 2 * time.Microsecond, 5 * time.Microsecond, 10 * time.Microsecond, 20 * time.Microsecond, 40 * time.Microsecond, 80 * time.Microsecond, 160 * time.Microsecond}
	attempt := func(off time.Duration, putFirst bool) (string, bool, bool) {
		if w.kvaNext >= kvaKeys {
			return "", true, true
		}
		key := fmt.Sprintf("a%d", w.kvaNext)
		w.kvaNext++
		var okPut, okDel bool
		var wg sync.WaitGroup
		start := make(chan struct{})
		wg.Add(2)
		go func() {
			defer wg.Done()
			<-start
			if !putFirst {
				spin(off)
			}
			okPut = dv.Post(nodeURL(w.kvaChild, "kv", "key/"+key), []byte("v1")).Status == 200
		}()
		go func() {
			defer wg.Done()
			<-start
			if putFirst {
				spin(off)
			}
			okDel = dv.Delete(nodeURL(w.kvaChild, "kv", "key/"+key)).Status == 200
		}()
		close(start)
		wg.Wait()
		r := dv.Get(nodeURL(w.kvaChild, "kv", "key/"+key))
		switch {
		case r.Status == 404:
			return "deleted", okPut, okDel
		case r.Status == 200:
			return string(r.Body), okPut, okDel
		}
		fatal("keyvalue read %s: %d %s", key, r.Status, r.Body)
		return "", false, false
	}
	t0 := time.Now()
	tried, hits := 0, 0
	final := "v1"
	hitOff, hitPutFirst := time.Duration(0), false
	for time.Since(t0) < budget && w.kvaNext < kvaKeys-300 {
		off := offsets[tried%len(offsets)]
		putFirst := (tried/len(offsets))%2 == 0
		tried++
		got, okPut, okDel := attempt(off, putFirst)
		if okPut && okDel && got != "v1" && got != "deleted" {
			hits = 1
			final, hitOff, hitPutFirst = got, off, putFirst
			// reproduce with the same offsets before reporting
			for k := 0; k < 250 && hits < 2; k++ {
				tried++
				if g, p, d := attempt(off, putFirst); p && d && g != "v1" && g != "deleted" {
					hits++
				}
			}
			break
		}
	}
	c.Acked = []int{1, 2}
	c.Requests = []string{"1: POST kv/key/a<i> = v1 (open child; the committed parent holds a<i> = v0)", "2: DELETE kv/key/a<i>"}
	c.Schedule = fmt.Sprintf("two goroutines per key, start offsets swept over %v in both orders, %d keys tried in %.1f s", offsets, tried, time.Since(t0).Seconds())
	if hits > 0 {
		c.Schedule += fmt.Sprintf("; the child showed %q afterwards (the parent's value: neither value nor tombstone stored) with offset %v, POST first = %v; seen %d time(s)", final, hitOff, hitPutFirst, hits)
		c.Views = []view{{Name: "data", IDs: nil}}
	} else {
		c.Views = []view{{Name: "data", IDs: []int{1}}}
	}
	c.Extra = 0
	c.Seed = uint64(tried)
	return c
}

// spin waits without giving up the processor for long (time.Sleep is too coarse for microseconds)
func spin(d time.Duration) {
	t0 := time.Now()
	for time.Since(t0) < d {
		runtime.Gosched()
	}
}
