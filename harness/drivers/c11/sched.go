package main

// Segment scheduler: every request goroutine stops at each of its yield points (and before it
// starts); a schedule is a word over the request indices, each letter lets that request run its
// next segment.  A granted request that ends up waiting on a mutex (seen in its goroutine's wait
// state) makes the schedule infeasible: this is recorded as "blocked at (position, request)", the
// word is abandoned and the requests are drained in index order, one segment each per pass.
// Model.ConcRun.sched_run does the same on the model.

import (
	"sync"
	"time"
)

type schedThread struct {
	gid      int64
	yields   map[string]bool
	gate     chan struct{}
	ev       chan int // 1 = stopped at a yield point, 2 = finished
	ok       bool
	finished bool
	pending  bool // was granted a segment and is waiting on a mutex inside it
	granted  int
}

type schedRun struct {
	mu      sync.Mutex
	threads []*schedThread
	byGid   map[int64]int
	queue   []int // requests waiting on a mutex, longest wait first
}

func (sr *schedRun) setPending(i int, pending bool) {
	th := sr.threads[i]
	if pending && !th.pending {
		sr.queue = append(sr.queue, i)
	}
	if !pending && th.pending {
		var q []int
		for _, j := range sr.queue {
			if j != i {
				q = append(q, j)
			}
		}
		sr.queue = q
	}
	th.pending = pending
}

var activeSched *schedRun // consulted by the hook callback
var activeSchedMu sync.Mutex

// schedYield is called from the hook callback; it returns true when the caller was a scheduled
// request that stopped at one of its yield points.
func schedYield(site string) bool {
	activeSchedMu.Lock()
	sr := activeSched
	activeSchedMu.Unlock()
	if sr == nil {
		return false
	}
	g := goid()
	sr.mu.Lock()
	i, ok := sr.byGid[g]
	var th *schedThread
	if ok {
		th = sr.threads[i]
	}
	sr.mu.Unlock()
	if th == nil || !th.yields[site] {
		return false
	}
	th.ev <- 1
	<-th.gate
	return true
}

type schedResult struct {
	blockedPos, blockedThread int // -1: the word was feasible
	hung                      bool
	ok                        []bool
	segs                      []int // segments each request was granted
}

const (
	lookEvery   = 25 * time.Millisecond
	looksNeeded = 4
)

// settle waits until thread i stops at a yield point or finishes (true), or is seen waiting on a
// mutex at looksNeeded consecutive looks (false).
func (sr *schedRun) settle(i int) bool {
	th := sr.threads[i]
	waits := 0
	t0 := time.Now()
	for {
		select {
		case e := <-th.ev:
			if e == 2 {
				th.finished = true
			}
			return true
		case <-time.After(lookEvery):
			if mutexWait(goroutineState(th.gid)) {
				waits++
			} else {
				waits = 0
			}
			if waits >= looksNeeded {
				return false
			}
			if time.Since(t0) > 2*time.Minute {
				fatal("scheduled request %d neither stopped, finished nor blocked within two minutes", i)
			}
		}
	}
}

func (sr *schedRun) grant(i int) bool {
	sr.threads[i].granted++
	sr.threads[i].gate <- struct{}{}
	return sr.settle(i)
}

func runSched(reqs []func() bool, yields [][]string, word []int) schedResult {
	n := len(reqs)
	sr := &schedRun{byGid: map[int64]int{}}
	ready := make(chan struct{}, n)
	for i := 0; i < n; i++ {
		th := &schedThread{yields: map[string]bool{}, gate: make(chan struct{}), ev: make(chan int, 1)}
		for _, y := range yields[i] {
			th.yields[y] = true
		}
		sr.threads = append(sr.threads, th)
	}
	for i := 0; i < n; i++ {
		go func(i int) {
			th := sr.threads[i]
			g := goid()
			sr.mu.Lock()
			th.gid = g
			sr.byGid[g] = i
			sr.mu.Unlock()
			ready <- struct{}{}
			<-th.gate
			th.ok = reqs[i]()
			th.ev <- 2
		}(i)
	}
	for i := 0; i < n; i++ {
		<-ready
	}
	activeSchedMu.Lock()
	activeSched = sr
	activeSchedMu.Unlock()
	defer func() {
		activeSchedMu.Lock()
		activeSched = nil
		activeSchedMu.Unlock()
	}()

	res := schedResult{blockedPos: -1, blockedThread: -1}
	for pos, i := range word {
		if sr.threads[i].finished {
			continue
		}
		if !sr.grant(i) {
			res.blockedPos, res.blockedThread = pos, i
			sr.setPending(i, true)
			break
		}
	}
	// drain
	idle := 0
	for {
		all := true
		for _, th := range sr.threads {
			if !th.finished {
				all = false
			}
		}
		if all {
			break
		}
		progress := false
		for i, th := range sr.threads {
			if th.finished {
				continue
			}
			var reached bool
			if th.pending {
				reached = sr.settle(i)
			} else {
				reached = sr.grant(i)
			}
			sr.setPending(i, !reached)
			if reached {
				progress = true
			}
			// a request that waits on a mutex goes on by itself as soon as the mutex is free: let
			// the waiting requests come to rest (longest wait first) before the next grant
			for _, j := range append([]int{}, sr.queue...) {
				if j != i && !sr.threads[j].finished {
					if sr.settle(j) {
						sr.setPending(j, false)
						progress = true
					}
				}
			}
		}
		if progress {
			idle = 0
			continue
		}
		// every unfinished request waits on a mutex: a deadlock if it stays so
		idle++
		if idle >= 8 {
			res.hung = true
			return res
		}
		time.Sleep(150 * time.Millisecond)
	}
	for _, th := range sr.threads {
		res.ok = append(res.ok, th.ok)
		res.segs = append(res.segs, th.granted)
	}
	return res
}

// words: all distinct arrangements of counts[i] letters i.
func words(counts []int) [][]int {
	var out [][]int
	total := 0
	for _, c := range counts {
		total += c
	}
	left := append([]int{}, counts...)
	cur := make([]int, 0, total)
	var rec func()
	rec = func() {
		if len(cur) == total {
			out = append(out, append([]int{}, cur...))
			return
		}
		for i := range left {
			if left[i] > 0 {
				left[i]--
				cur = append(cur, i)
				rec()
				cur = cur[:len(cur)-1]
				left[i]++
			}
		}
	}
	rec()
	return out
}
