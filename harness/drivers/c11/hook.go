package main

// Controller for the verifhook.Yield points (build tag verif): hold the first request that reaches
// an armed site until released (forced schedules), or add small random delays at every yield
// point to widen the read-modify-write windows (stress).

import (
	"bytes"
	"runtime"
	"strconv"
	"sync"
	"time"

	"github.com/janelia-flyem/dvid/dvid/verifhook"
	"verif/harness/lib"
)

// goid: the id of the calling goroutine (from the first line of its stack trace).  The yield
// points are also reached by the server's own background goroutines (label indexing after an
// ingest); only the goroutine that issues request 1 is to be held.
func goid() int64 {
	var buf [64]byte
	n := runtime.Stack(buf[:], false)
	f := bytes.Fields(buf[:n])
	if len(f) < 2 {
		return -1
	}
	id, err := strconv.ParseInt(string(f[1]), 10, 64)
	if err != nil {
		return -1
	}
	return id
}

// goroutineState: the wait reason the runtime reports for goroutine id ("" when it is gone).
func goroutineState(id int64) string {
	buf := make([]byte, 1<<20)
	for {
		n := runtime.Stack(buf, true)
		if n < len(buf) {
			buf = buf[:n]
			break
		}
		buf = make([]byte, 2*len(buf))
	}
	head := []byte("goroutine " + strconv.FormatInt(id, 10) + " [")
	i := bytes.Index(buf, head)
	for i > 0 && buf[i-1] != '\n' {
		j := bytes.Index(buf[i+1:], head)
		if j < 0 {
			return ""
		}
		i += 1 + j
	}
	if i < 0 {
		return ""
	}
	rest := buf[i+len(head):]
	if k := bytes.IndexByte(rest, ']'); k >= 0 {
		return string(rest[:k])
	}
	return ""
}

// deadlocked: every one of the goroutines that has not finished is waiting on a mutex.  A request
// that is merely slow (a loaded machine) shows some other state and is given more time.
func deadlocked(ids []int64) bool {
	any := false
	for _, id := range ids {
		st := goroutineState(id)
		if st == "" {
			continue // finished
		}
		any = true
		if !mutexWait(st) {
			return false
		}
	}
	return any
}

// waitOrDeadlock waits for done; after hungAfter it reports a deadlock if the goroutines ids are all
// stuck on mutexes at three looks 200 ms apart, and otherwise keeps waiting (up to two minutes).
func waitOrDeadlock(done <-chan struct{}, ids []int64) (hung bool) {
	select {
	case <-done:
		return false
	case <-time.After(hungAfter):
	}
	t0 := time.Now()
	stuck := 0
	for {
		select {
		case <-done:
			return false
		case <-time.After(200 * time.Millisecond):
		}
		if deadlocked(ids) {
			stuck++
		} else {
			stuck = 0
		}
		if stuck >= 3 {
			return true
		}
		if time.Since(t0) > 2*time.Minute {
			fatal("requests neither finished nor deadlocked within two minutes")
		}
	}
}

func mutexWait(state string) bool {
	for _, w := range []string{"sync.Mutex.Lock", "sync.RWMutex.Lock", "sync.RWMutex.RLock", "semacquire"} {
		if len(state) >= len(w) && state[:len(w)] == w {
			return true
		}
	}
	return false
}

type hookCtl struct {
	mu      sync.Mutex
	armed   string
	armedG  int64
	parked  chan struct{}
	release chan struct{}
	jitter  bool
	rng     *lib.Rand
	hits    map[string]int
}

var ctl = &hookCtl{hits: map[string]int{}}

func (c *hookCtl) install(rng *lib.Rand) {
	c.rng = rng
	verifhook.Set(c.callback)
}

func (c *hookCtl) callback(site string) {
	if schedYield(site) {
		return
	}
	c.mu.Lock()
	c.hits[site]++
	if c.armed == site && c.armedG == goid() {
		c.armed = ""
		p, r := c.parked, c.release
		c.mu.Unlock()
		close(p)
		<-r
		return
	}
	j := c.jitter
	var d int
	if j {
		d = c.rng.Intn(8)
	}
	c.mu.Unlock()
	if j {
		switch {
		case d < 3:
			runtime.Gosched()
		case d < 7:
			time.Sleep(time.Duration(20*d) * time.Microsecond)
		default:
			time.Sleep(400 * time.Microsecond)
		}
	}
}

// arm: goroutine g is held when it reaches site; returns (parked, release).
func (c *hookCtl) arm(site string, g int64) (parked chan struct{}, release chan struct{}) {
	c.mu.Lock()
	defer c.mu.Unlock()
	c.armed = site
	c.armedG = g
	c.parked = make(chan struct{})
	c.release = make(chan struct{})
	return c.parked, c.release
}

func (c *hookCtl) disarm() {
	c.mu.Lock()
	c.armed = ""
	c.mu.Unlock()
}

func (c *hookCtl) setJitter(on bool) {
	c.mu.Lock()
	c.jitter = on
	c.mu.Unlock()
}

func (c *hookCtl) hitCount(site string) int {
	c.mu.Lock()
	defer c.mu.Unlock()
	return c.hits[site]
}

// forcedResult of "hold A at the yield point, run B, release A".
type forcedResult struct {
	reached bool // A reached the yield point
	blocked bool // B could not finish while A was held
	hung    bool // after the release the requests still did not finish: deadlock
	okA     bool
	okB     bool
}

const blockedAfter = 4 * time.Second
const hungAfter = 6 * time.Second // nothing in an episode takes more than milliseconds unless it waits on a mutex for ever

// runForced starts a, waits until it is held at site, runs b, then releases a.
func runForced(site string, a, b func() bool) forcedResult {
	var res forcedResult
	doneA := make(chan struct{})
	armed := make(chan [2]chan struct{}, 1)
	gidA := make(chan int64, 1)
	go func() {
		g := goid()
		gidA <- g
		p, r := ctl.arm(site, g)
		armed <- [2]chan struct{}{p, r}
		res.okA = a()
		close(doneA)
	}()
	idA := <-gidA
	pr := <-armed
	parked, release := pr[0], pr[1]
	select {
	case <-parked:
		res.reached = true
	case <-doneA:
		// a finished without passing the yield point
		ctl.disarm()
		res.okB = b()
		return res
	case <-time.After(60 * time.Second):
		ctl.disarm()
		fatal("request did not reach yield point %s within 60 s", site)
	}
	doneB := make(chan struct{})
	gidB := make(chan int64, 1)
	go func() { gidB <- goid(); res.okB = b(); close(doneB) }()
	idB := <-gidB
	// request 2 is blocked when its goroutine waits on a mutex at three looks 100 ms apart while
	// request 1 is held and nothing else runs (or, failing that, when it has not finished in time)
	waits := 0
	t0 := time.Now()
wait:
	for {
		select {
		case <-doneB:
			break wait
		case <-time.After(100 * time.Millisecond):
			if mutexWait(goroutineState(idB)) {
				waits++
			} else {
				waits = 0
			}
			if waits >= 3 || time.Since(t0) > blockedAfter {
				res.blocked = true
				break wait
			}
		}
	}
	close(release)
	both := make(chan struct{})
	go func() { <-doneA; <-doneB; close(both) }()
	res.hung = waitOrDeadlock(both, []int64{idA, idB})
	return res
}

// runStress runs the n requests concurrently with random start skews; returns which succeeded,
// or hung when they did not all finish.
func runStress(rng *lib.Rand, reqs []func() bool) (acked []bool, hung bool) {
	n := len(reqs)
	ok := make([]bool, n)
	skews := make([]time.Duration, n)
	for i := range skews {
		switch rng.Intn(4) {
		case 0:
			skews[i] = 0
		case 1:
			skews[i] = time.Duration(rng.Intn(50)) * time.Microsecond
		case 2:
			skews[i] = time.Duration(rng.Intn(400)) * time.Microsecond
		default:
			skews[i] = time.Duration(rng.Intn(2000)) * time.Microsecond
		}
	}
	start := make(chan struct{})
	var wg sync.WaitGroup
	ids := make([]int64, n)
	var idsReady sync.WaitGroup
	for i := 0; i < n; i++ {
		wg.Add(1)
		idsReady.Add(1)
		go func(i int) {
			defer wg.Done()
			ids[i] = goid()
			idsReady.Done()
			<-start
			if skews[i] > 0 {
				time.Sleep(skews[i])
			}
			ok[i] = reqs[i]()
		}(i)
	}
	idsReady.Wait()
	ctl.setJitter(true)
	close(start)
	done := make(chan struct{})
	go func() { wg.Wait(); close(done) }()
	hung = waitOrDeadlock(done, ids)
	ctl.setJitter(false)
	if hung {
		return nil, true
	}
	return ok, false
}
