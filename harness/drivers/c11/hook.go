package main

// Controller for the verifhook.Yield points (build tag verif): hold the first request that reaches
// an armed site until released (forced schedules), or add small random delays at every yield
// point to widen the read-modify-write windows (stress).

import (
	"runtime"
	"sync"
	"time"

	"github.com/janelia-flyem/dvid/dvid/verifhook"
	"verif/harness/lib"
)

type hookCtl struct {
	mu      sync.Mutex
	armed   string
	parked  chan struct{}
	release chan struct{}
	jitter  bool
	rng     *lib.Rand
	hits    map[string]int
}

var ctl = &hookCtl{hits: map[string]int{}}

func (c *hookCtl) install(rng *lib.Rand) {
	c.rng = rng
	verifhook.Set(c.callback)
}

func (c *hookCtl) callback(site string) {
	c.mu.Lock()
	c.hits[site]++
	if c.armed == site {
		c.armed = ""
		p, r := c.parked, c.release
		c.mu.Unlock()
		close(p)
		<-r
		return
	}
	j := c.jitter
	var d int
	if j {
		d = c.rng.Intn(8)
	}
	c.mu.Unlock()
	if j {
		switch {
		case d < 3:
			runtime.Gosched()
		case d < 7:
			time.Sleep(time.Duration(20*d) * time.Microsecond)
		default:
			time.Sleep(400 * time.Microsecond)
		}
	}
}

// arm: the next request to reach site is held there; returns (parked, release).
func (c *hookCtl) arm(site string) (parked chan struct{}, release chan struct{}) {
	c.mu.Lock()
	defer c.mu.Unlock()
	c.armed = site
	c.parked = make(chan struct{})
	c.release = make(chan struct{})
	return c.parked, c.release
}

func (c *hookCtl) disarm() {
	c.mu.Lock()
	c.armed = ""
	c.mu.Unlock()
}

func (c *hookCtl) setJitter(on bool) {
	c.mu.Lock()
	c.jitter = on
	c.mu.Unlock()
}

func (c *hookCtl) hitCount(site string) int {
	c.mu.Lock()
	defer c.mu.Unlock()
	return c.hits[site]
}

// forcedResult of "hold A at the yield point, run B, release A".
type forcedResult struct {
	reached bool // A reached the yield point
	blocked bool // B could not finish while A was held
	okA     bool
	okB     bool
}

const blockedAfter = 4 * time.Second

// runForced starts a, waits until it is held at site, runs b, then releases a.
func runForced(site string, a, b func() bool) forcedResult {
	var res forcedResult
	parked, release := ctl.arm(site)
	doneA := make(chan bool, 1)
	go func() { doneA <- a() }()
	select {
	case <-parked:
		res.reached = true
	case ok := <-doneA:
		// a finished without passing the yield point
		ctl.disarm()
		res.okA = ok
		res.okB = b()
		return res
	case <-time.After(20 * time.Second):
		ctl.disarm()
		fatal("request did not reach yield point %s within 20 s", site)
	}
	doneB := make(chan bool, 1)
	go func() { doneB <- b() }()
	select {
	case ok := <-doneB:
		res.okB = ok
		close(release)
		res.okA = <-doneA
		return res
	case <-time.After(blockedAfter):
		res.blocked = true
	}
	close(release)
	select {
	case res.okA = <-doneA:
	case <-time.After(30 * time.Second):
		fatal("held request did not finish after release at %s", site)
	}
	select {
	case res.okB = <-doneB:
	case <-time.After(30 * time.Second):
		fatal("blocked request did not finish after release at %s", site)
	}
	return res
}

// runStress runs the n requests concurrently with random start skews; returns which succeeded.
func runStress(rng *lib.Rand, reqs []func() bool) []bool {
	n := len(reqs)
	ok := make([]bool, n)
	skews := make([]time.Duration, n)
	for i := range skews {
		switch rng.Intn(4) {
		case 0:
			skews[i] = 0
		case 1:
			skews[i] = time.Duration(rng.Intn(50)) * time.Microsecond
		case 2:
			skews[i] = time.Duration(rng.Intn(400)) * time.Microsecond
		default:
			skews[i] = time.Duration(rng.Intn(2000)) * time.Microsecond
		}
	}
	start := make(chan struct{})
	var wg sync.WaitGroup
	for i := 0; i < n; i++ {
		wg.Add(1)
		go func(i int) {
			defer wg.Done()
			<-start
			if skews[i] > 0 {
				time.Sleep(skews[i])
			}
			ok[i] = reqs[i]()
		}(i)
	}
	ctl.setJitter(true)
	close(start)
	wg.Wait()
	ctl.setJitter(false)
	return ok
}
