package main

// Thorough tier: build this driver once more with the Go race detector and run its quick tier as a
// child process; the data races it reports during the same episodes are summarised in the run's
// metadata (they do not change the verdict: a data race is evidence about the residual the model
// does not cover — the Go memory model — not a decided violation of the property).

import (
	"fmt"
	"os"
	"os/exec"
	"path/filepath"
	"regexp"
	"sort"
	"strings"
	"time"
)

func raceRun(seed uint64, outdir string) map[string]interface{} {
	res := map[string]interface{}{}
	if os.Getenv("C11_RACE") == "off" {
		res["status"] = "skipped (C11_RACE=off)"
		return res
	}
	t0 := time.Now()
	bin, _ := filepath.Abs(filepath.Join("bin", "c11race"))
	args := []string{"build", "-race"}
	if repo := os.Getenv("VERIF_REPO"); repo != "" {
		if rp, err := filepath.EvalSymlinks(repo); err == nil && rp != "/repo" {
			if _, err := os.Stat(".alt.mod"); err == nil {
				args = append(args, "-modfile=.alt.mod")
			}
		}
	}
	args = append(args, "-tags", "badger verif", "-o", bin, "./drivers/c11")
	cmd := exec.Command("go", args...)
	cmd.Env = append(os.Environ(), "CGO_ENABLED=1")
	if out, err := cmd.CombinedOutput(); err != nil {
		res["status"] = "race build failed: " + err.Error() + ": " + tailStr(string(out), 400)
		return res
	}
	res["build_s"] = time.Since(t0).Seconds()
	dir, err := os.MkdirTemp("", "c11race")
	if err != nil {
		res["status"] = "no temp dir: " + err.Error()
		return res
	}
	defer os.RemoveAll(dir)
	t1 := time.Now()
	child := exec.Command(bin, "-seed", fmt.Sprint(seed), "-tier", "quick", "-outdir", filepath.Join(dir, "out"))
	child.Env = append(os.Environ(), "GORACE=log_path="+filepath.Join(dir, "race")+" halt_on_error=0 exitcode=0", "C11_RACE=off")
	done := make(chan error, 1)
	go func() { _, err := child.CombinedOutput(); done <- err }()
	select {
	case err := <-done:
		if err != nil {
			res["child_error"] = err.Error()
		}
	case <-time.After(15 * time.Minute):
		child.Process.Kill()
		res["status"] = "race run timed out"
		return res
	}
	res["run_s"] = time.Since(t1).Seconds()
	logs, _ := filepath.Glob(filepath.Join(dir, "race*"))
	frame := regexp.MustCompile(`(?m)^\s+(github\.com/janelia-flyem/dvid/\S+)\(\)\n\s+(\S+?):(\d+)`)
	distinct := map[string]int{}
	total := 0
	for _, l := range logs {
		b, err := os.ReadFile(l)
		if err != nil {
			continue
		}
		for _, rep := range strings.Split(string(b), "==================") {
			if !strings.Contains(rep, "DATA RACE") {
				continue
			}
			total++
			// the first DVID frame of each of the two accesses
			var locs []string
			for _, part := range strings.SplitN(rep, "Previous ", 2) {
				if m := frame.FindStringSubmatch(part); m != nil {
					locs = append(locs, fmt.Sprintf("%s (%s:%s)", strings.TrimPrefix(m[1], "github.com/janelia-flyem/dvid/"), filepath.Base(m[2]), m[3]))
				}
			}
			sort.Strings(locs)
			distinct[strings.Join(locs, " <-> ")]++
		}
	}
	var ds []string
	for k, n := range distinct {
		ds = append(ds, fmt.Sprintf("%dx %s", n, k))
	}
	sort.Strings(ds)
	res["status"] = "ran"
	res["reports"] = total
	res["distinct"] = ds
	return res
}

func tailStr(s string, n int) string {
	if len(s) > n {
		return s[len(s)-n:]
	}
	return s
}
