// Driver C11: concurrent mutation requests against one in-process DVID (real badger store).
//
// Two kinds of episode per read-modify-write site of Gen/Locks.v:
//
//	forced  request 1 is held at a verifhook.Yield point between its read and its write, request 2
//	        runs (to its end, or until a mutex stops it), request 1 is released: the interleaving
//	        the model's lost-update witness predicts.  The quiescent state is compared with the
//	        model (model_ok) and judged by the sequential oracles (spec_class).
//	stress  n goroutines issue their requests with random start skews and random small delays at
//	        the yield points; the quiescent state is judged by the same oracles.
//
// A case records, per view of the quiescent state (block / tag / label / all-elements lists, body
// index and mapping, store and memory copy, children of a node), the ids of the requests whose
// effect the view shows.
package main

import (
	"encoding/json"
	"fmt"
	"os"
	"sort"
	"strings"
	"time"

	"verif/harness/dv"
	"verif/harness/lib"
)

type view struct {
	Name     string `json:"view"`
	IDs      []int  `json:"ids"`
	Primary  bool   `json:"primary,omitempty"`
	Relevant []int  `json:"relevant,omitempty"` // sched: the requests whose effect a sequential run shows in this view
}

type caseJ struct {
	Site      string     `json:"site"`
	Mode      string     `json:"mode"`                 // sched | forced | forced2 | live | stress
	Ops       []opSpec   `json:"ops,omitempty"`        // sched: kind and variant of each request
	Reqs      []schedReq `json:"reqs,omitempty"`       // sched: site, variant, yield points, what was sent
	Word      []int      `json:"word,omitempty"`       // sched: which request runs its next segment
	BlockedAt []int      `json:"blocked_at,omitempty"` // sched: [position in the word, request] of the first grant that ended in a mutex wait
	Init      []view     `json:"init,omitempty"`       // sched: what the locations held before the requests
	Serial    [][]view   `json:"serial,omitempty"`     // sched, non-commuting requests: the states of the sequential orders
	Site2     string     `json:"site2,omitempty"`      // forced2: the site of request 2
	Yield     string     `json:"yield,omitempty"`
	Variant   string     `json:"variant,omitempty"`
	N         int        `json:"n"`
	Seed      uint64     `json:"seed"`
	Requests  []string   `json:"requests,omitempty"` // filled after the run: what was sent
	Schedule  string     `json:"schedule,omitempty"`
	Acked     []int      `json:"acked,omitempty"`
	Blocked   bool       `json:"blocked,omitempty"`
	Hung      bool       `json:"hung,omitempty"`
	Views     []view     `json:"views,omitempty"`
	Extra     int        `json:"extra,omitempty"`
}

// prepared episode: the requests (ids 1..n), and how to read the quiescent state afterwards
type prepared struct {
	reqs    []func() bool
	desc    []string
	observe func(acked []int) ([]view, int)
}

type siteDef struct {
	name    string
	variant string
	family  string      // which part of the world the site uses (rebuilt after a deadlock)
	yields  []string    // yield points of the site's model: forced schedules compared with the model
	live    []string    // further yield points: forced schedules judged by the oracles only
	mixed   [][2]string // (yield point, other site): request 2 is a request of the other site on the same object
	prepare func(w *world, n int) prepared
	stressN [2]int // n for quick / thorough
	rounds  [2]int // stress rounds for quick / thorough
}

func fatal(f string, a ...interface{}) {
	fmt.Fprintf(os.Stderr, "c11: "+f+"\n", a...)
	dv.Close()
	os.Exit(2)
}

func coqIDs(xs []int) string {
	ss := make([]string, len(xs))
	for i, x := range xs {
		ss[i] = fmt.Sprint(x)
	}
	return "[" + strings.Join(ss, ";") + "]"
}

func coqNats(xs []int) string {
	ss := make([]string, len(xs))
	for i, x := range xs {
		ss[i] = fmt.Sprintf("%d%%nat", x)
	}
	return "[" + strings.Join(ss, ";") + "]"
}

func coqStrs(xs []string) string {
	ss := make([]string, len(xs))
	for i, x := range xs {
		ss[i] = fmt.Sprintf("%q", x)
	}
	return "[" + strings.Join(ss, ";") + "]"
}

func coqCase(c caseJ) string {
	mode := fmt.Sprintf("(Stress %d%%nat)", c.N)
	switch {
	case c.Hung:
		mode = fmt.Sprintf("(Hang %d%%nat %q)", c.N, c.Yield)
	case c.Mode == "sched":
		rs := make([]string, len(c.Reqs))
		for i, r := range c.Reqs {
			rs[i] = fmt.Sprintf("mkSreq %q %d%%nat %s %s", r.Site, r.Variant, lib.CoqBool(r.Replace), coqStrs(r.Yields))
		}
		blocked := "None"
		if len(c.BlockedAt) == 2 {
			blocked = fmt.Sprintf("(Some (%d%%nat,%d%%nat))", c.BlockedAt[0], c.BlockedAt[1])
		}
		mode = fmt.Sprintf("(Sched [%s] %s %s)", strings.Join(rs, ";"), coqNats(c.Word), blocked)
	case c.Mode == "fine":
		blocked := "None"
		if len(c.BlockedAt) == 2 {
			blocked = fmt.Sprintf("(Some (%d%%nat,%d%%nat))", c.BlockedAt[0], c.BlockedAt[1])
		}
		mode = fmt.Sprintf("(Fine %s %s)", coqNats(c.Word), blocked)
	case c.Mode == "forced":
		mode = fmt.Sprintf("(Forced %q %s)", c.Yield, lib.CoqBool(c.Blocked))
	case c.Mode == "forced2":
		mode = fmt.Sprintf("(Forced2 %q %q %s)", c.Site2, c.Yield, lib.CoqBool(c.Blocked))
	case c.Mode == "live":
		mode = fmt.Sprintf("(Live %q %s)", c.Yield, lib.CoqBool(c.Blocked))
	}
	vs := make([]string, len(c.Views))
	var rel []string
	for i, v := range c.Views {
		vs[i] = fmt.Sprintf("(%q,%s)", v.Name, coqIDs(v.IDs))
		if (c.Mode == "sched" || c.Mode == "fine") && len(c.Serial) == 0 {
			rel = append(rel, fmt.Sprintf("(%q,%s,%s)", v.Name, lib.CoqBool(v.Primary), coqIDs(v.Relevant)))
		}
	}
	viewList := func(l []view) string {
		ss := make([]string, len(l))
		for i, v := range l {
			ss[i] = fmt.Sprintf("(%q,%s)", v.Name, coqIDs(v.IDs))
		}
		return "[" + strings.Join(ss, ";") + "]"
	}
	alts := make([]string, len(c.Serial))
	for i, a := range c.Serial {
		alts[i] = viewList(a)
	}
	return fmt.Sprintf("mkCase %q %s %s [%s] %d [%s] %s [%s]", c.Site, mode, coqIDs(c.Acked), strings.Join(vs, ";"), c.Extra,
		strings.Join(rel, ";"), viewList(c.Init), strings.Join(alts, ";"))
}

func ackedOf(ok []bool) []int {
	var a []int
	for i, o := range ok {
		if o {
			a = append(a, i+1)
		}
	}
	return a
}

var hungSites = map[string]bool{}

var deadlocks int // episodes that ended in a deadlock: their goroutines stay blocked, so no clean shutdown

func runEpisode(w *world, s *siteDef, c caseJ) caseJ {
	rng := lib.NewRand(c.Seed)
	var p prepared
	if c.Mode == "live" {
		p = livePrepare(w, s, c.Yield)
	} else if c.Mode == "forced2" {
		p = mixedPrepare(w, s, c.Site2)
	} else {
		p = s.prepare(w, c.N)
	}
	c.Requests = p.desc
	switch c.Mode {
	case "forced", "forced2", "live":
		res := runForced(c.Yield, p.reqs[0], p.reqs[1])
		if !res.reached {
			fatal("site %s: request 1 finished without passing yield point %s", s.name, c.Yield)
		}
		c.Blocked = res.blocked
		c.Hung = res.hung
		c.Acked = ackedOf([]bool{res.okA, res.okB})
		c.Schedule = fmt.Sprintf("request 1 held at %s; request 2 %s; request 1 released", c.Yield,
			map[bool]string{false: "ran to its end", true: "could not finish (waited on a mutex)"}[res.blocked])
		if res.hung {
			c.Acked = nil
			c.Schedule += fmt.Sprintf("; neither request finished within %s: deadlock", hungAfter)
		}
	default:
		ok, hung := runStress(rng, p.reqs)
		c.Hung = hung
		c.Acked = ackedOf(ok)
		c.Schedule = fmt.Sprintf("%d goroutines, random start skews and yield-point delays (seed %d)", c.N, c.Seed)
		if hung {
			c.Schedule += fmt.Sprintf("; the requests did not all finish within %s: deadlock", hungAfter)
		}
	}
	if c.Hung {
		// the blocked goroutines keep their mutexes: give the site's family a fresh repo
		deadlocks++
		w.rebuild(s.family)
		return c
	}
	c.Views, c.Extra = p.observe(c.Acked)
	for i := range c.Views {
		sort.Ints(c.Views[i].IDs)
	}
	return c
}

// runSchedEpisode: fresh objects, the requests of ops, one word.
func runSchedEpisode(w *world, ops []opSpec, word []int) caseJ {
	c, _ := runSchedEpisodeX(w, ops, word, false)
	return c
}

// fine: the requests also stop before every read-write transaction of the storage engine
const txnYield = "storage.badger.txn.begin"

func runSchedEpisodeX(w *world, ops []opSpec, word []int, fine bool) (caseJ, []int) {
	ep := buildEpisode(w, ops)
	c := caseJ{Site: ep.reqs[0].Site, Mode: "sched", N: len(ops), Ops: ops, Word: word, Reqs: ep.reqs}
	if fine {
		c.Mode = "fine"
	}
	reqs := make([]func() bool, len(ep.reqs))
	yields := make([][]string, len(ep.reqs))
	for i, r := range ep.reqs {
		reqs[i] = r.run
		yields[i] = r.Yields
		if fine {
			yields[i] = append(append([]string{}, r.Yields...), txnYield)
			c.Reqs[i].Yields = yields[i]
		}
		c.Requests = append(c.Requests, fmt.Sprintf("%d: %s", i+1, r.Desc))
	}
	res := runSched(reqs, yields, word)
	c.Schedule = fmt.Sprintf("word %v over the request indices: each letter lets that request run to its next yield point", word)
	if res.blockedPos >= 0 {
		c.BlockedAt = []int{res.blockedPos, res.blockedThread}
		c.Schedule += fmt.Sprintf("; at letter %d request %d waited on a mutex, the rest was drained in index order", res.blockedPos, res.blockedThread+1)
	}
	if res.hung {
		c.Hung = true
		c.Schedule += "; the requests never finished: deadlock"
		deadlocks++
		w.rebuild(kindFamily[ops[0].Kind])
		return c, res.segs
	}
	c.Acked = ackedOf(res.ok)
	c.Init = ep.init
	if ep.serial != nil {
		c.Serial = ep.serial(c.Acked)
	}
	if ep.observe != nil {
		c.Views = ep.observe(c.Acked)
	}
	for _, v := range ep.views {
		ids := v.read()
		sort.Ints(ids)
		c.Views = append(c.Views, view{Name: v.Name, IDs: ids, Primary: v.Primary, Relevant: v.Relevant})
	}
	if ep.extra != nil {
		c.Extra = ep.extra()
	}
	if ep.finish != nil {
		ep.finish()
	}
	return c, res.segs
}

// fineHolds: request h is stopped at its k-th stop (yield point or start of a storage transaction),
// for k = 1, 2, ... until it finishes earlier; the other requests then run to their end (or until a
// mutex stops them), and h goes on.
func fineHolds(w *world, run *lib.Run, ops []opSpec, name string, maxK int) {
	n := len(ops)
	for h := 0; h < n; h++ {
		for k := 1; k <= maxK; k++ {
			var word []int
			for j := 0; j < k; j++ {
				word = append(word, h)
			}
			for o := 0; o < n; o++ {
				if o != h {
					for j := 0; j < 40; j++ {
						word = append(word, o)
					}
				}
			}
			cj, segs := runSchedEpisodeX(w, ops, word, true)
			// letters after the end of a request are skipped: record the word that was run
			cj.Word = word[:k]
			cj.Schedule = fmt.Sprintf("request %d stopped at its stop number %d (yield points and starts of storage transactions), the other request(s) run to their end, then request %d goes on", h+1, k, h+1)
			if len(cj.BlockedAt) == 2 {
				cj.Schedule += fmt.Sprintf("; request %d waited on a mutex at letter %d", cj.BlockedAt[1]+1, cj.BlockedAt[0])
			}
			if cj.Hung {
				cj.Schedule += "; the requests never finished: deadlock"
			}
			run.Add("fine:"+name, coqCase(cj), cj, key(cj)+fmt.Sprint(h, k))
			run.Count("mode:fine")
			run.Count("fine-holds-run:" + name)
			if len(cj.BlockedAt) == 2 {
				run.Count("fine-blocked:" + name)
			}
			if cj.Hung {
				run.Count("deadlock:" + name)
				return
			}
			if len(segs) > h && segs[h] <= k {
				break // the request finished within k segments: no later stop exists
			}
		}
	}
}

func hasPrefix(w, p []int) bool {
	if len(p) > len(w) {
		return false
	}
	for i := range p {
		if w[i] != p[i] {
			return false
		}
	}
	return true
}

func key(c caseJ) string {
	b, _ := json.Marshal([]interface{}{c.Ops, c.Word, c.BlockedAt, c.Site, c.Site2, c.Variant, c.Mode, c.Yield, c.N, c.Acked, c.Views, c.Extra, c.Blocked, c.Hung})
	return string(b)
}

func main() {
	o := lib.ParseOpts()
	rng := lib.NewRand(o.Seed)
	run := lib.NewRun("C11", o)
	run.Header("From DV Require Import Base.Prelude Model.Conc Gen.Locks Model.ConcRun.",
		"From Coq Require Import String.", "Local Open Scope string_scope.", "Local Open Scope N_scope.")
	dv.Quiet()
	dv.Open()
	shutdown := func() {
		if deadlocks > 0 {
			// goroutines blocked for ever hold repo mutexes that a clean shutdown would wait for
			os.Stdout.Sync()
			os.Exit(0)
		}
		dv.Close()
	}
	ctl.install(lib.NewRand(o.Seed ^ 0x5bd1e995))
	loadSiteYields()
	w := newWorld()
	sites := allSites()
	t0 := time.Now()

	add := func(s *siteDef, c caseJ) {
		c = runEpisode(w, s, c)
		kind := c.Mode + ":" + s.name
		if s.variant != "" {
			kind += "/" + s.variant
		}
		run.Add(kind, coqCase(c), c, key(c))
		run.Count("site:" + s.name)
		run.Count("mode:" + c.Mode)
		if c.Mode == "stress" {
			run.Count("schedules-tried:" + s.name)
			lost := false
			for _, v := range c.Views {
				if len(v.IDs) < len(c.Acked) && !strings.HasPrefix(s.name, "keyvalue.") {
					lost = true
				}
				if s.name == "datastore.newVersion" && len(v.IDs) > 1 {
					lost = true
				}
			}
			if lost {
				run.Count("stress-with-missing-effect:" + s.name)
			}
		} else if c.Blocked {
			run.Count("forced-blocked:" + s.name)
		}
		if c.Hung {
			run.Count("deadlock:" + s.name)
			if c.Mode == "stress" {
				hungSites[s.name] = true
			}
		}
	}

	if o.Replay != "" {
		var c caseJ
		if err := lib.LoadReplay(o.Replay, &c); err != nil {
			fatal("%v", err)
		}
		if c.Mode == "fine" {
			// the stored word is the hold prefix: request h, k times
			word := append([]int{}, c.Word...)
			for o := 0; o < len(c.Ops); o++ {
				if len(c.Word) > 0 && o != c.Word[0] {
					for j := 0; j < 40; j++ {
						word = append(word, o)
					}
				}
			}
			cj, _ := runSchedEpisodeX(w, c.Ops, word, true)
			cj.Word = c.Word
			run.Add("fine:"+pairName(c.Ops), coqCase(cj), cj, key(cj))
			run.Finish("c11case", "replay", tail)
			shutdown()
			return
		}
		if c.Mode == "sched" {
			cj := runSchedEpisode(w, c.Ops, c.Word)
			run.Add("sched:"+pairName(c.Ops), coqCase(cj), cj, key(cj))
			run.Finish("c11case", "replay", tail)
			shutdown()
			return
		}
		var s *siteDef
		for i := range sites {
			if sites[i].name == c.Site && sites[i].variant == c.Variant {
				s = &sites[i]
			}
		}
		if s == nil {
			fatal("replay names unknown site %q/%q", c.Site, c.Variant)
		}
		add(s, caseJ{Site: c.Site, Site2: c.Site2, Variant: c.Variant, Mode: c.Mode, Yield: c.Yield, N: c.N, Seed: c.Seed})
		run.Finish("c11case", "replay", tail)
		shutdown()
		return
	}

	ti := 0
	if o.Thorough() {
		ti = 1
	}
	// every interleaving of the yield-delimited segments, per pair of requests on one object
	for _, pd := range allPairs() {
		if pd.tier > ti {
			continue
		}
		counts := make([]int, len(pd.ops))
		for i, op := range pd.ops {
			counts[i] = len(siteYields[kindSite[op.Kind]]) + 1
		}
		name := pairName(pd.ops)
		if pd.fine {
			fineHolds(w, run, pd.ops, name, 24)
			continue
		}
		if ti == 1 && len(pd.ops) == 2 {
			// thorough: every pair also with the stops before storage transactions
			fineHolds(w, run, pd.ops, name, 24)
		}
		var blockedPrefixes [][]int
		for _, word := range words(counts) {
			pruned := false
			for _, p := range blockedPrefixes {
				if hasPrefix(word, p) {
					pruned = true
				}
			}
			if pruned {
				// the schedule was abandoned at this prefix: the remaining letters do not matter
				run.Count("sched-words-same-blocked-prefix:" + name)
				continue
			}
			cj := runSchedEpisode(w, pd.ops, word)
			run.Add("sched:"+name, coqCase(cj), cj, key(cj))
			run.Count("mode:sched")
			run.Count("sched-words-run:" + name)
			if len(cj.BlockedAt) == 2 {
				blockedPrefixes = append(blockedPrefixes, append([]int{}, word[:cj.BlockedAt[0]+1]...))
				run.Count("sched-blocked:" + name)
			}
			if cj.Hung {
				run.Count("deadlock:" + name)
				break
			}
		}
	}
	for i := range sites {
		s := &sites[i]
		for _, y := range s.live {
			add(s, caseJ{Site: s.name, Variant: s.variant, Mode: "live", Yield: y, N: 2, Seed: rng.U64()})
		}
	}
	for i := range sites {
		s := &sites[i]
		rounds := s.rounds[ti]
		if o.N > 0 {
			rounds = o.N
		}
		for k := 0; k < rounds; k++ {
			if hungSites[s.name] {
				// every further round would most likely wait for the same deadlock again
				run.Count("stress-rounds-skipped-after-deadlock:" + s.name)
				continue
			}
			n := s.stressN[ti]
			if k%3 == 1 && n > 2 {
				n = 2 + rng.Intn(n-1)
			}
			add(s, caseJ{Site: s.name, Variant: s.variant, Mode: "stress", N: n, Seed: rng.U64()})
		}
	}
	// key-value clause with an inherited value: a state with neither value nor tombstone is visible
	{
		budget := 2500 * time.Millisecond
		if o.Thorough() {
			budget = 12 * time.Second
		}
		cj := kvAncestorStress(w, budget)
		run.Add("stress:keyvalue.PutData/ancestor", coqCase(cj), cj, key(cj))
		run.Count("mode:stress")
		run.Dist["schedules-tried:keyvalue.PutData/ancestor"] += int(cj.Seed)
	}
	if o.Thorough() {
		run.Extra["race_detector"] = raceRun(o.Seed, o.OutDir)
	}
	run.Extra["driver_wall_s"] = time.Since(t0).Seconds()
	run.Extra["yield_hits"] = ctl.hits
	run.Finish("c11case",
		"per read-modify-write site: forced two-request schedules through each yield point (request 1 held between read and write, request 2 run, request 1 released) and stress episodes of 2..N goroutines with random start skews and random delays at the yield points, on one key / annotation block+tag+label / target body / neuron id / parent node; distinct = distinct (site, mode, n, acknowledged set, per-view effect sets)",
		tail)
	shutdown()
}

const tail = `
Definition spec_fail := Eval vm_compute in c11_spec_fail cases.
Definition model_mismatch := Eval vm_compute in c11_model_mismatch cases.
`
