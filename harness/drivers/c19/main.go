// Driver C19: datastore.CopyInstance (raw and flattened) after random branched histories.
package main

import (
	"encoding/json"
	"fmt"
	"os"
	"strings"

	"github.com/janelia-flyem/dvid/datastore"
	"github.com/janelia-flyem/dvid/dvid"
	"verif/harness/dv"
	"verif/harness/kvhist"
	"verif/harness/lib"
)

type copyCase struct {
	Kind string       `json:"kind"`
	Ops  []kvhist.Hop `json:"ops,omitempty"`
	Flat int          `json:"flat"` // 0 = raw copy, else version at which the flattened copy is taken
	Typ  string       `json:"typ,omitempty"`
	Seed uint64       `json:"seed,omitempty"`
}

func copyInstance(uuid, src, dst string, flatten bool) error {
	c := dvid.NewConfig()
	if flatten {
		c.Set("transmit", "flatten")
	}
	var err error
	p, msg := lib.Recover(func() {
		err = datastore.CopyInstance(dvid.UUID(uuid), dvid.InstanceName(src), dvid.InstanceName(dst), c)
	})
	if p {
		return fmt.Errorf("panic: %s", msg)
	}
	return err
}

func runKV(run *lib.Run, rng *lib.Rand, replay *copyCase, nkeys int) {
	h, err := kvhist.New(rng, "kv")
	if err != nil {
		fmt.Fprintln(os.Stderr, err)
		os.Exit(2)
	}
	flat := 0
	if replay != nil {
		h.Replay(replay.Ops)
		flat = replay.Flat
	} else {
		h.Random(40, nkeys, 10)
		if rng.Chance(0.5) {
			flat = 1 + rng.Intn(len(h.UUIDs))
		}
	}
	at := h.Root
	if flat > 0 {
		at = h.UUIDs[flat-1]
	}
	if err := copyInstance(at, "kv", "kvcopy", flat > 0); err != nil {
		run.Count("copy-error:keyvalue")
		run.Notes = append(run.Notes, "keyvalue: "+err.Error())
		fl := "None"
		if flat > 0 {
			fl = fmt.Sprintf("(Some %d)", flat)
		}
		b, _ := json.Marshal(h.Ops)
		run.Add("keyvalue-copy-failed", fmt.Sprintf("CCopyFail 0 %s %s", h.CoqOps(), fl), copyCase{Kind: "keyvalue", Ops: h.Ops, Flat: flat}, fmt.Sprintf("kvfail/%d/%s", flat, b))
		return
	}
	var rs []string
	for v := 1; v <= len(h.UUIDs); v++ {
		for k := 0; k < nkeys; k++ {
			rs = append(rs, fmt.Sprintf("(%d,%d,%s,%s)", k, v, h.ReadObs("kv", k, v), h.ReadObs("kvcopy", k, v)))
		}
	}
	fl := "None"
	if flat > 0 {
		fl = fmt.Sprintf("(Some %d)", flat)
		run.Count("copy:flattened")
	} else {
		run.Count("copy:raw")
	}
	merges := 0
	for _, o := range h.Ops {
		if o.Op == "child" && len(o.Parents) > 1 {
			merges++
		}
	}
	run.Count(fmt.Sprintf("versions:%d", len(h.UUIDs)))
	if merges > 0 {
		run.Count("with-merge")
	}
	term := fmt.Sprintf("CCopy %s %s [%s]", h.CoqOps(), fl, strings.Join(rs, ";"))
	b, _ := json.Marshal(h.Ops)
	run.Add("keyvalue", term, copyCase{Kind: "keyvalue", Ops: h.Ops, Flat: flat}, fmt.Sprintf("kv/%d/%s", flat, b))
}

// ---- ROI instances: spans posted / deleted over a small branched DAG ----

func runROI(run *lib.Run, rng *lib.Rand, seed uint64, flatten bool) {
	r := lib.NewRand(seed)
	root, err := dv.NewRepo("c19roi")
	if err != nil {
		fmt.Fprintln(os.Stderr, err)
		os.Exit(2)
	}
	if err := dv.NewInstance(root, "roi", "r", nil); err != nil {
		fmt.Fprintln(os.Stderr, err)
		os.Exit(2)
	}
	uuids := []string{root}
	post := func(u string) {
		var spans [][4]int
		n := 1 + r.Intn(4)
		for i := 0; i < n; i++ {
			x0 := r.Intn(8)
			spans = append(spans, [4]int{r.Intn(3), r.Intn(3), x0, x0 + r.Intn(3)})
		}
		dv.PostJSON("/api/node/"+u+"/r/roi", spans)
	}
	post(root)
	// chain / branch structure: commit, child, sometimes overwrite or delete
	for len(uuids) < 5 {
		p := uuids[r.Intn(len(uuids))]
		dv.Commit(p)
		c, resp := dv.Branch(p, fmt.Sprintf("b%d", len(uuids)))
		if resp.Status != 200 {
			continue
		}
		uuids = append(uuids, c)
		switch r.Intn(3) {
		case 0:
			post(c)
		case 1:
			dv.Delete("/api/node/" + c + "/r/roi")
		}
	}
	fv := 1 + r.Intn(len(uuids))
	if err := copyInstance(uuids[fv-1], "r", "rcopy", flatten); err != nil {
		run.Count("copy-error:roi")
		run.Notes = append(run.Notes, "roi: "+err.Error())
		run.Add("roi-copy-failed", "CCopyFail 1 [] None", copyCase{Kind: "roi", Typ: "roi", Seed: seed, Flat: fl0(flatten, fv)}, fmt.Sprintf("roifail/%d/%v", seed, flatten))
		return
	}
	var rs []string
	for v := 1; v <= len(uuids); v++ {
		if flatten && v != fv {
			continue
		}
		a := dv.Get("/api/node/" + uuids[v-1] + "/r/roi")
		b := dv.Get("/api/node/" + uuids[v-1] + "/rcopy/roi")
		rs = append(rs, fmt.Sprintf("(%d,%s)", v, lib.CoqBool(a.Status == b.Status && string(a.Body) == string(b.Body))))
	}
	run.Count("copy:roi")
	term := fmt.Sprintf("COther 1 %s [%s]", lib.CoqBool(flatten), strings.Join(rs, ";"))
	fl := 0
	if flatten {
		fl = fv
	}
	run.Add("roi", term, copyCase{Kind: "roi", Typ: "roi", Seed: seed, Flat: fl}, fmt.Sprintf("roi/%d/%v", seed, flatten))
}

// runOther: a branched history on an instance of another data type; post/read are type-specific.
func runOther(run *lib.Run, seed uint64, flatten bool, typ int, typename, kind string,
	extra map[string]string, post func(r *lib.Rand, u string, i int), del func(r *lib.Rand, u string), read func(u, inst string) dv.Resp) {
	r := lib.NewRand(seed)
	root, err := dv.NewRepo("c19" + kind)
	if err == nil {
		err = dv.NewInstance(root, typename, "src", extra)
	}
	if err != nil {
		fmt.Fprintln(os.Stderr, err)
		os.Exit(2)
	}
	uuids := []string{root}
	post(r, root, 0)
	for len(uuids) < 5 {
		p := uuids[r.Intn(len(uuids))]
		dv.Commit(p)
		c, resp := dv.Branch(p, fmt.Sprintf("b%d", len(uuids)))
		if resp.Status != 200 {
			continue
		}
		uuids = append(uuids, c)
		switch r.Intn(3) {
		case 0:
			post(r, c, len(uuids))
		case 1:
			if del != nil {
				del(r, c)
			}
		}
	}
	fv := 1 + r.Intn(len(uuids))
	if err := copyInstance(uuids[fv-1], "src", "dst", flatten); err != nil {
		run.Count("copy-error:" + kind)
		run.Notes = append(run.Notes, kind+": "+err.Error())
		run.Add(kind+"-copy-failed", fmt.Sprintf("CCopyFail %d [] None", typ), copyCase{Kind: kind, Typ: typename, Seed: seed, Flat: fl0(flatten, fv)}, fmt.Sprintf("%sfail/%d/%v", kind, seed, flatten))
		return
	}
	var rs []string
	for v := 1; v <= len(uuids); v++ {
		if flatten && v != fv {
			continue
		}
		a, b := read(uuids[v-1], "src"), read(uuids[v-1], "dst")
		rs = append(rs, fmt.Sprintf("(%d,%s)", v, lib.CoqBool(a.Status == b.Status && string(a.Body) == string(b.Body))))
	}
	run.Count("copy:" + kind)
	if seed%2 == 1 {
		// the copy must also survive a restart (its properties are persisted with the repo metadata):
		// results of the reads after the restart are recorded under version + 100
		datastore.CloseReopenTest()
		for v := 1; v <= len(uuids); v++ {
			if flatten && v != fv {
				continue
			}
			a, b := read(uuids[v-1], "src"), read(uuids[v-1], "dst")
			rs = append(rs, fmt.Sprintf("(%d,%s)", v+100, lib.CoqBool(a.Status == b.Status && string(a.Body) == string(b.Body))))
		}
		run.Count("copy-then-restart:" + kind)
	}
	fl := 0
	if flatten {
		fl = fv
	}
	term := fmt.Sprintf("COther %d %s [%s]", typ, lib.CoqBool(flatten), strings.Join(rs, ";"))
	run.Add(kind, term, copyCase{Kind: kind, Typ: typename, Seed: seed, Flat: fl}, fmt.Sprintf("%s/%d/%v", kind, seed, flatten))
}

func runAnnotation(run *lib.Run, seed uint64, flatten bool) {
	type elem struct {
		Pos  [3]int
		Kind string
		Tags []string
		Prop map[string]string
	}
	post := func(r *lib.Rand, u string, i int) {
		var es []elem
		for j := 0; j < 1+r.Intn(4); j++ {
			es = append(es, elem{Pos: [3]int{r.Intn(100) - 20, r.Intn(100) - 20, r.Intn(100)}, Kind: "PostSyn", Tags: []string{fmt.Sprintf("t%d", r.Intn(3))}, Prop: map[string]string{"i": fmt.Sprint(i)}})
		}
		dv.PostJSON("/api/node/"+u+"/src/elements", es)
	}
	read := func(u, inst string) dv.Resp { return dv.Get("/api/node/" + u + "/" + inst + "/all-elements") }
	runOther(run, seed, flatten, 3, "annotation", "annotation", nil, post, nil, read)
}

func runImageblk(run *lib.Run, seed uint64, flatten bool) {
	post := func(r *lib.Rand, u string, i int) {
		ox, oy, oz := 32*(r.Intn(3)-1), 32*(r.Intn(2)), 32*r.Intn(2)
		dv.Post(fmt.Sprintf("/api/node/%s/src/raw/0_1_2/32_32_32/%d_%d_%d", u, ox, oy, oz), r.Bytes(32*32*32))
	}
	read := func(u, inst string) dv.Resp {
		return dv.Get(fmt.Sprintf("/api/node/%s/%s/raw/0_1_2/96_64_64/-32_0_0", u, inst))
	}
	// half of the runs use a non-default block size (a property the copy takes over from its source)
	var extra map[string]string
	if seed%4 >= 2 {
		extra = map[string]string{"BlockSize": "16,16,16"}
	}
	runOther(run, seed, flatten, 4, "uint8blk", "imageblk", extra, post, nil, read)
}

// runBulk: more keys than the copy goroutine's channel holds, first and last keys of the range,
// an empty key string is not legal so the smallest/largest are "!" and "~~~".
func runBulk(run *lib.Run, seed uint64, flatten bool) {
	r := lib.NewRand(seed)
	root, err := dv.NewRepo("c19bulk")
	if err == nil {
		err = dv.NewInstance(root, "keyvalue", "src", nil)
	}
	if err != nil {
		fmt.Fprintln(os.Stderr, err)
		os.Exit(2)
	}
	keys := []string{"!", "~~~"}
	for i := 0; i < 1100; i++ {
		keys = append(keys, fmt.Sprintf("key%05d", i))
	}
	for _, k := range keys {
		dv.Post("/api/node/"+root+"/src/key/"+k, []byte("v-"+k))
	}
	dv.Commit(root)
	c, _ := dv.NewVersion(root)
	for i := 0; i < 40; i++ { // deletions and overwrites in the child
		k := keys[r.Intn(len(keys))]
		if r.Bool() {
			dv.Delete("/api/node/" + c + "/src/key/" + k)
		} else {
			dv.Post("/api/node/"+c+"/src/key/"+k, []byte("w-"+k))
		}
	}
	at := root
	if flatten {
		at = c
	}
	if err := copyInstance(at, "src", "dst", flatten); err != nil {
		run.Count("copy-error:bulk")
		run.Notes = append(run.Notes, "bulk: "+err.Error())
		run.Add("bulk-copy-failed", "CCopyFail 2 [] None", copyCase{Kind: "bulk", Typ: "keyvalue", Seed: seed, Flat: fl0(flatten, 2)}, fmt.Sprintf("bulkfail/%d/%v", seed, flatten))
		return
	}
	var rs []string
	for vi, u := range []string{root, c} {
		if flatten && u != at {
			continue
		}
		ok := true
		a, b := dv.Get("/api/node/"+u+"/src/keys"), dv.Get("/api/node/"+u+"/dst/keys")
		ok = ok && a.Status == b.Status && string(a.Body) == string(b.Body)
		for _, k := range keys {
			x, y := dv.Get("/api/node/"+u+"/src/key/"+k), dv.Get("/api/node/"+u+"/dst/key/"+k)
			ok = ok && x.Status == y.Status && string(x.Body) == string(y.Body)
		}
		rs = append(rs, fmt.Sprintf("(%d,%s)", vi+1, lib.CoqBool(ok)))
	}
	run.Count("copy:bulk-1100-keys")
	fl := 0
	if flatten {
		fl = 2
	}
	term := fmt.Sprintf("COther 2 %s [%s]", lib.CoqBool(flatten), strings.Join(rs, ";"))
	run.Add("bulk", term, copyCase{Kind: "bulk", Typ: "keyvalue", Seed: seed, Flat: fl}, fmt.Sprintf("bulk/%d/%v", seed, flatten))
}

// runBoundaryIDs creates throw-away instances until the next instance id is 255, then copies the
// instances with ids 255 and 256 (raw) and compares every read.
func runBoundaryIDs(run *lib.Run) {
	root, err := dv.NewRepo("c19ids")
	if err != nil {
		fmt.Fprintln(os.Stderr, err)
		os.Exit(2)
	}
	idOf := func(name string) int {
		d, err := datastore.GetDataByUUIDName(dvid.UUID(root), dvid.InstanceName(name))
		if err != nil {
			return -1
		}
		return int(d.InstanceID())
	}
	for i := 0; i < 400; i++ {
		name := fmt.Sprintf("burn%d", i)
		if err := dv.NewInstance(root, "keyvalue", name, nil); err != nil {
			break
		}
		if id := idOf(name); id < 0 || id >= 254 {
			break
		}
	}
	var rs []string
	for j := 0; j < 2; j++ {
		src, dst := fmt.Sprintf("s%d", j), fmt.Sprintf("d%d", j)
		if err := dv.NewInstance(root, "keyvalue", src, nil); err != nil {
			continue
		}
		id := idOf(src)
		keys := []string{"a", "b", "zz"}
		for _, k := range keys {
			dv.Post("/api/node/"+root+"/"+src+"/key/"+k, []byte("v-"+k))
		}
		if err := copyInstance(root, src, dst, false); err != nil {
			run.Notes = append(run.Notes, "boundary-id: "+err.Error())
			rs = append(rs, fmt.Sprintf("(%d,false)", id))
			continue
		}
		ok := true
		for _, k := range keys {
			x, y := dv.Get("/api/node/"+root+"/"+src+"/key/"+k), dv.Get("/api/node/"+root+"/"+dst+"/key/"+k)
			ok = ok && x.Status == 200 && y.Status == 200 && string(x.Body) == string(y.Body)
		}
		run.Count(fmt.Sprintf("copy:source-instance-id-%d", id))
		rs = append(rs, fmt.Sprintf("(%d,%s)", id, lib.CoqBool(ok)))
	}
	run.Add("boundary-ids", fmt.Sprintf("COther 5 false [%s]", strings.Join(rs, ";")), copyCase{Kind: "boundary-ids", Typ: "keyvalue"}, "boundary-ids")
}

func fl0(flatten bool, v int) int {
	if flatten {
		return v
	}
	return 0
}

func main() {
	o := lib.ParseOpts()
	rng := lib.NewRand(o.Seed)
	run := lib.NewRun("C19", o)
	run.Header("From DV Require Import Base.Prelude Model.Dag Model.Resolve Model.Core Model.ResolveRun Model.Transfer Model.CopyRun.", "Local Open Scope N_scope.")
	dv.Quiet()
	dv.Open()
	defer dv.Close()

	if o.Replay != "" {
		var c copyCase
		if err := lib.LoadReplay(o.Replay, &c); err != nil {
			fmt.Fprintln(os.Stderr, err)
			os.Exit(2)
		}
		if c.Kind == "transfer-data" {
			var tc transferCase
			lib.LoadReplay(o.Replay, &tc)
			runTransferData(run, tc.Seed, tc.Typ == "true")
		} else if c.Kind == "transfer" {
			var tc transferCase
			lib.LoadReplay(o.Replay, &tc)
			runTransfer(run, tc.Seed, tc.Typ)
			closeDst()
		} else if c.Kind == "roi" {
			runROI(run, rng, c.Seed, c.Flat > 0)
		} else if c.Kind == "annotation" {
			runAnnotation(run, c.Seed, c.Flat > 0)
		} else if c.Kind == "imageblk" {
			runImageblk(run, c.Seed, c.Flat > 0)
		} else if c.Kind == "bulk" {
			runBulk(run, c.Seed, c.Flat > 0)
		} else if c.Kind == "boundary-ids" {
			runBoundaryIDs(run)
		} else {
			runKV(run, rng, &c, 3)
		}
		run.Finish("c19case", "replay", tail)
		return
	}
	n := 24
	if o.Thorough() {
		n = 250
	}
	if o.N > 0 {
		n = o.N
	}
	for i := 0; i < n; i++ {
		runKV(run, rng, nil, 3)
	}
	for i := 0; i < n/3+1; i++ {
		runROI(run, rng, rng.U64()%1000000, i%2 == 1)
	}
	for i := 0; i < n/6+2; i++ {
		runAnnotation(run, rng.U64()%1000000, i%2 == 1)
		runImageblk(run, rng.U64()%1000000, i%2 == 0)
	}
	runBulk(run, rng.U64()%1000000, false)
	runBulk(run, rng.U64()%1000000, true)
	// version-limited transfer onto a second store (MigrateInstance with a uuid list)
	for i := 0; i < n/2+4; i++ {
		runTransfer(run, rng.U64()%1000000, []string{"keyvalue", "keyvalue", "roi"}[i%3])
	}
	closeDst()
	// TransferData: the whole store onto a fresh one, unfiltered and with a version list
	runTransferData(run, rng.U64()%1000000, false)
	runTransferData(run, rng.U64()%1000000, true)
	// instance ids at byte boundaries (0xFF -> 0x100): the source key range is built from id and id+1
	runBoundaryIDs(run)
	run.Finish("c19case",
		"random branched keyvalue histories (values inherited, overwritten, deleted at different depths, merges) followed by CopyInstance raw or flattened at a random version; every key read at every version from source and copy; ROI instances over branched DAGs likewise; distinct = distinct (history, copy mode)",
		tail)
}

const tail = `
Definition spec_fail := Eval vm_compute in c19_spec_fail cases.
Definition model_mismatch := Eval vm_compute in c19_model_mismatch cases.
`
