// Driver C19: datastore.CopyInstance (raw and flattened) after random branched histories.
package main

import (
	"encoding/json"
	"fmt"
	"os"
	"strings"

	"github.com/janelia-flyem/dvid/datastore"
	"github.com/janelia-flyem/dvid/dvid"
	"verif/harness/dv"
	"verif/harness/kvhist"
	"verif/harness/lib"
)

type copyCase struct {
	Kind string       `json:"kind"`
	Ops  []kvhist.Hop `json:"ops,omitempty"`
	Flat int          `json:"flat"` // 0 = raw copy, else version at which the flattened copy is taken
	Typ  string       `json:"typ,omitempty"`
	Seed uint64       `json:"seed,omitempty"`
}

func copyInstance(uuid, src, dst string, flatten bool) error {
	c := dvid.NewConfig()
	if flatten {
		c.Set("transmit", "flatten")
	}
	var err error
	p, msg := lib.Recover(func() {
		err = datastore.CopyInstance(dvid.UUID(uuid), dvid.InstanceName(src), dvid.InstanceName(dst), c)
	})
	if p {
		return fmt.Errorf("panic: %s", msg)
	}
	return err
}

func runKV(run *lib.Run, rng *lib.Rand, replay *copyCase, nkeys int) {
	h, err := kvhist.New(rng, "kv")
	if err != nil {
		fmt.Fprintln(os.Stderr, err)
		os.Exit(2)
	}
	flat := 0
	if replay != nil {
		h.Replay(replay.Ops)
		flat = replay.Flat
	} else {
		h.Random(40, nkeys, 10)
		if rng.Chance(0.5) {
			flat = 1 + rng.Intn(len(h.UUIDs))
		}
	}
	at := h.Root
	if flat > 0 {
		at = h.UUIDs[flat-1]
	}
	if err := copyInstance(at, "kv", "kvcopy", flat > 0); err != nil {
		run.Count("copy-error")
		return
	}
	var rs []string
	for v := 1; v <= len(h.UUIDs); v++ {
		for k := 0; k < nkeys; k++ {
			rs = append(rs, fmt.Sprintf("(%d,%d,%s,%s)", k, v, h.ReadObs("kv", k, v), h.ReadObs("kvcopy", k, v)))
		}
	}
	fl := "None"
	if flat > 0 {
		fl = fmt.Sprintf("(Some %d)", flat)
		run.Count("copy:flattened")
	} else {
		run.Count("copy:raw")
	}
	merges := 0
	for _, o := range h.Ops {
		if o.Op == "child" && len(o.Parents) > 1 {
			merges++
		}
	}
	run.Count(fmt.Sprintf("versions:%d", len(h.UUIDs)))
	if merges > 0 {
		run.Count("with-merge")
	}
	term := fmt.Sprintf("CCopy %s %s [%s]", h.CoqOps(), fl, strings.Join(rs, ";"))
	b, _ := json.Marshal(h.Ops)
	run.Add("keyvalue", term, copyCase{Kind: "keyvalue", Ops: h.Ops, Flat: flat}, fmt.Sprintf("kv/%d/%s", flat, b))
}

// ---- ROI instances: spans posted / deleted over a small branched DAG ----

func runROI(run *lib.Run, rng *lib.Rand, seed uint64, flatten bool) {
	r := lib.NewRand(seed)
	root, err := dv.NewRepo("c19roi")
	if err != nil {
		fmt.Fprintln(os.Stderr, err)
		os.Exit(2)
	}
	if err := dv.NewInstance(root, "roi", "r", nil); err != nil {
		fmt.Fprintln(os.Stderr, err)
		os.Exit(2)
	}
	uuids := []string{root}
	post := func(u string) {
		var spans [][4]int
		n := 1 + r.Intn(4)
		for i := 0; i < n; i++ {
			x0 := r.Intn(8)
			spans = append(spans, [4]int{r.Intn(3), r.Intn(3), x0, x0 + r.Intn(3)})
		}
		dv.PostJSON("/api/node/"+u+"/r/roi", spans)
	}
	post(root)
	// chain / branch structure: commit, child, sometimes overwrite or delete
	for len(uuids) < 5 {
		p := uuids[r.Intn(len(uuids))]
		dv.Commit(p)
		c, resp := dv.Branch(p, fmt.Sprintf("b%d", len(uuids)))
		if resp.Status != 200 {
			continue
		}
		uuids = append(uuids, c)
		switch r.Intn(3) {
		case 0:
			post(c)
		case 1:
			dv.Delete("/api/node/" + c + "/r/roi")
		}
	}
	fv := 1 + r.Intn(len(uuids))
	if err := copyInstance(uuids[fv-1], "r", "rcopy", flatten); err != nil {
		run.Count("copy-error")
		return
	}
	var rs []string
	for v := 1; v <= len(uuids); v++ {
		if flatten && v != fv {
			continue
		}
		a := dv.Get("/api/node/" + uuids[v-1] + "/r/roi")
		b := dv.Get("/api/node/" + uuids[v-1] + "/rcopy/roi")
		rs = append(rs, fmt.Sprintf("(%d,%s)", v, lib.CoqBool(a.Status == b.Status && string(a.Body) == string(b.Body))))
	}
	run.Count("copy:roi")
	term := fmt.Sprintf("COther 1 %s [%s]", lib.CoqBool(flatten), strings.Join(rs, ";"))
	fl := 0
	if flatten {
		fl = fv
	}
	run.Add("roi", term, copyCase{Kind: "roi", Typ: "roi", Seed: seed, Flat: fl}, fmt.Sprintf("roi/%d/%v", seed, flatten))
}

func main() {
	o := lib.ParseOpts()
	rng := lib.NewRand(o.Seed)
	run := lib.NewRun("C19", o)
	run.Header("From DV Require Import Base.Prelude Model.Dag Model.Resolve Model.Core Model.ResolveRun Model.CopyRun.", "Local Open Scope N_scope.")
	dv.Quiet()
	dv.Open()
	defer dv.Close()

	if o.Replay != "" {
		var c copyCase
		if err := lib.LoadReplay(o.Replay, &c); err != nil {
			fmt.Fprintln(os.Stderr, err)
			os.Exit(2)
		}
		if c.Kind == "roi" {
			runROI(run, rng, c.Seed, c.Flat > 0)
		} else {
			runKV(run, rng, &c, 3)
		}
		run.Finish("c19case", "replay", tail)
		return
	}
	n := 24
	if o.Thorough() {
		n = 250
	}
	if o.N > 0 {
		n = o.N
	}
	for i := 0; i < n; i++ {
		runKV(run, rng, nil, 3)
	}
	for i := 0; i < n/3+1; i++ {
		runROI(run, rng, rng.U64()%1000000, i%2 == 1)
	}
	run.Finish("c19case",
		"random branched keyvalue histories (values inherited, overwritten, deleted at different depths, merges) followed by CopyInstance raw or flattened at a random version; every key read at every version from source and copy; ROI instances over branched DAGs likewise; distinct = distinct (history, copy mode)",
		tail)
}

const tail = `
Definition spec_fail := Eval vm_compute in c19_spec_fail cases.
Definition model_mismatch := Eval vm_compute in c19_model_mismatch cases.
`
