// Version-limited transfer (datastore.MigrateInstance with transmit=<uuid list> -> copyVersions) onto a
// second badger store, against Model.Transfer: the entries of the source are read back from the store itself
// (RawRangeQuery), so the model is fed what is really stored, whatever API wrote it.
package main

import (
	"bytes"
	"encoding/json"
	"fmt"
	"os"
	"path/filepath"
	"sort"
	"strings"
	"time"

	"github.com/janelia-flyem/dvid/datastore"
	"github.com/janelia-flyem/dvid/datatype/keyvalue"
	"github.com/janelia-flyem/dvid/dvid"
	"github.com/janelia-flyem/dvid/storage"
	"verif/harness/dv"
	"verif/harness/lib"
)

var dstStore dvid.Store

func openDst() {
	if dstStore != nil {
		return
	}
	dir := filepath.Join(os.TempDir(), fmt.Sprintf("c19-dst-%d", os.Getpid()))
	os.RemoveAll(dir)
	var c dvid.Config
	c.SetAll(map[string]interface{}{"path": dir})
	s, _, err := storage.NewStore(dvid.StoreConfig{Config: c, Engine: "badger"})
	if err != nil {
		fmt.Fprintln(os.Stderr, "c19: cannot open the destination store:", err)
		os.Exit(2)
	}
	dstStore = s
}

func closeDst() {
	if dstStore != nil {
		dstStore.Close()
		os.RemoveAll(filepath.Join(os.TempDir(), fmt.Sprintf("c19-dst-%d", os.Getpid())))
		dstStore = nil
	}
}

type rawRanger interface {
	RawRangeQuery(kStart, kEnd storage.Key, keysOnly bool, out chan *storage.KeyValue, cancel <-chan struct{}) error
}

type tent struct {
	v    int
	tomb bool
	b    []byte
}

// dump returns, per type-specific key (in key order), the stored (version, entry) list in key order.
func dump(store dvid.Store, id dvid.InstanceID) (tkeys []string, ents map[string][]tent, err error) {
	rq, ok := store.(rawRanger)
	if !ok {
		return nil, nil, fmt.Errorf("store %s has no RawRangeQuery", store)
	}
	ents = map[string][]tent{}
	ch := make(chan *storage.KeyValue, 1000)
	done := make(chan bool)
	go func() {
		for kv := range ch {
			if kv == nil {
				break
			}
			tk, e := storage.TKeyFromKey(kv.K)
			if e != nil {
				continue
			}
			v, _ := storage.VersionFromDataKey(kv.K)
			s := string(tk)
			if _, seen := ents[s]; !seen {
				tkeys = append(tkeys, s)
			}
			ents[s] = append(ents[s], tent{v: int(v), tomb: kv.K.IsTombstone(), b: append([]byte{}, kv.V...)})
		}
		done <- true
	}()
	beg, end := storage.DataInstanceKeyRange(id)
	err = rq.RawRangeQuery(beg, end, false, ch, nil)
	<-done
	return
}

func coqEnts(es []tent) string {
	var s []string
	for _, e := range es {
		if e.tomb {
			s = append(s, fmt.Sprintf("(%d%%nat,TTomb)", e.v))
		} else {
			s = append(s, fmt.Sprintf("(%d%%nat,TVal %s)", e.v, lib.CoqBytes(e.b)))
		}
	}
	return "[" + strings.Join(s, ";") + "]"
}

// view of one version through the versioned range read of a store: tkey -> value
func viewAt(store dvid.Store, d dvid.Data, v dvid.VersionID) (map[string][]byte, error) {
	db, ok := store.(storage.OrderedKeyValueDB)
	if !ok {
		return nil, fmt.Errorf("store %s is not ordered", store)
	}
	ctx := datastore.NewVersionedCtx(d, v)
	kvs, err := db.GetRange(ctx, storage.MinTKey(storage.TKeyMinClass), storage.MaxTKey(storage.TKeyMaxClass))
	if err != nil {
		return nil, err
	}
	m := map[string][]byte{}
	for _, kv := range kvs {
		if kv != nil {
			m[string(kv.K)] = append([]byte{}, kv.V...)
		}
	}
	return m, nil
}

func coqOptBytes(b []byte, present bool) string {
	if !present {
		return "None"
	}
	return "(Some " + lib.CoqBytes(b) + ")"
}

type transferCase struct {
	Kind string `json:"kind"`
	Typ  string `json:"typ"`
	Seed uint64 `json:"seed"`
}

var transferN int

// runTransfer: a tree-shaped history (no merges: the transmitted versions form a lineage) written through
// the storage API of a keyvalue instance (typ "keyvalue": names that are prefixes of one another, values from
// a small pool so that neighbouring keys and consecutive versions often hold equal bytes, empty values) or
// through the ROI endpoints (typ "roi": every span is a datum with an empty value), then a version-limited
// migration of a random ascending subset of one root-to-leaf lineage.
func runTransfer(run *lib.Run, seed uint64, typ string) {
	// mode: 0 = uuid list (copyVersions), 1 = transmit=all, 2 = transmit=flatten (both copyData with the
	// instance itself as destination instance, on another store)
	mode := int(seed % 5)
	if mode > 2 {
		mode = 0
	}
	openDst()
	rng := lib.NewRand(seed*2654435761 + 17)
	transferN++
	fail := func(what string, err error) {
		run.Notes = append(run.Notes, fmt.Sprintf("transfer %s seed %d: %s: %v", typ, seed, what, err))
		run.Count("transfer-failed:" + what)
		run.Add("transfer-failed", fmt.Sprintf("CTransferFail %d", map[string]int{"keyvalue": 0, "roi": 1}[typ]),
			transferCase{Kind: "transfer", Typ: typ, Seed: seed}, fmt.Sprintf("tfail/%s/%d", typ, seed))
	}
	root, err := dv.NewRepo(fmt.Sprintf("t%d", transferN))
	if err != nil {
		fail("new-repo", err)
		return
	}
	name := fmt.Sprintf("tr%d", transferN)
	if err := dv.NewInstance(root, typ, name, nil); err != nil {
		fail("new-instance", err)
		return
	}
	d, err := datastore.GetDataByUUIDName(dvid.UUID(root), dvid.InstanceName(name))
	if err != nil {
		fail("get-data", err)
		return
	}
	srcStore, err := d.KVStore()
	if err != nil {
		fail("kvstore", err)
		return
	}
	srcDB := srcStore.(storage.OrderedKeyValueDB)

	names := []string{"a", "ab", "abc", "b", "ba", "k"}
	values := [][]byte{{}, {1}, {1, 2}, {0}, {7, 7, 7}}
	spanPool := [][4]int32{{1, 1, 0, 5}, {1, 2, 0, 5}, {2, 1, 3, 4}, {2, 1, 3, 9}, {7, 7, 7, 7}, {-3, 0, -2, 2}}
	writeAt := func(uuid string) {
		v, _ := datastore.VersionFromUUID(dvid.UUID(uuid))
		if typ == "roi" {
			switch rng.Intn(5) {
			case 0: // inherit
			case 1:
				dv.Delete("/api/node/" + uuid + "/" + name + "/roi")
			default:
				var spans [][4]int32
				for _, s := range spanPool {
					if rng.Chance(0.5) {
						spans = append(spans, s)
					}
				}
				b, _ := json.Marshal(spans)
				if len(spans) == 0 {
					b = []byte("[]")
				}
				dv.Post("/api/node/"+uuid+"/"+name+"/roi", b)
			}
			return
		}
		ctx := datastore.NewVersionedCtx(d, v)
		for _, n := range names {
			tk, _ := keyvalue.NewTKey(n)
			switch rng.Intn(5) {
			case 0, 1: // inherit
			case 2:
				srcDB.Delete(ctx, tk)
			default:
				srcDB.Put(ctx, tk, values[rng.Intn(len(values))])
			}
		}
	}
	// tree of versions in creation order; writes happen right after creation, commits when a child is needed
	nv := 3 + rng.Intn(5)
	uuids := []string{root}
	parent := []int{-1}
	committed := map[int]bool{}
	writeAt(root)
	for len(uuids) < nv {
		p := rng.Intn(len(uuids))
		if rng.Chance(0.6) {
			p = len(uuids) - 1 // mostly a chain, so that lineages are long
		}
		if !committed[p] {
			dv.Commit(uuids[p])
			committed[p] = true
		}
		var child string
		var r dv.Resp
		hasChild := false
		for i := range parent {
			if parent[i] == p {
				hasChild = true
			}
		}
		if hasChild {
			child, r = dv.Branch(uuids[p], fmt.Sprintf("b%d_%d", transferN, len(uuids)))
		} else {
			child, r = dv.NewVersion(uuids[p])
		}
		if child == "" {
			fail("new-version", fmt.Errorf("%d %s", r.Status, r.Body))
			return
		}
		uuids = append(uuids, child)
		parent = append(parent, p)
		writeAt(child)
	}
	// lineage of a random version, and a random non-empty ascending subset of it ending anywhere on it
	leaf := rng.Intn(len(uuids))
	var lineage []int
	for i := leaf; i >= 0; i = parent[i] {
		lineage = append([]int{i}, lineage...)
	}
	var pick []int
	for _, i := range lineage {
		if rng.Chance(0.6) {
			pick = append(pick, i)
		}
	}
	if len(pick) == 0 {
		pick = []int{lineage[len(lineage)-1]}
	}
	if mode == 1 {
		pick = lineage // every version of the lineage is read back
	}
	if mode == 2 {
		pick = pick[len(pick)-1:]
	}
	vid := func(i int) int {
		v, _ := datastore.VersionFromUUID(dvid.UUID(uuids[i]))
		return int(v)
	}
	// path = ancestry of the last transmitted version
	var path, ts []string
	last := pick[len(pick)-1]
	for i := last; i >= 0; i = parent[i] {
		path = append([]string{fmt.Sprint(vid(i))}, path...)
	}
	var tuu []string
	for _, i := range pick {
		ts = append(ts, fmt.Sprint(vid(i)))
		tuu = append(tuu, uuids[i])
	}

	before := map[int]map[string][]byte{}
	for _, i := range pick {
		m, err := viewAt(srcStore, d, dvid.VersionID(vid(i)))
		if err != nil {
			fail("source-read", err)
			return
		}
		before[i] = m
	}
	cfg := dvid.NewConfig()
	cfg.Set("transmit", []string{strings.Join(tuu, ","), "all", "flatten"}[mode])
	migrateAt := root
	if mode == 2 {
		migrateAt = tuu[0]
	}
	done := make(chan bool, 1)
	var merr error
	p, msg := lib.Recover(func() {
		merr = datastore.MigrateInstance(dvid.UUID(migrateAt), dvid.InstanceName(name), srcStore, dstStore, cfg, done)
	})
	if p {
		merr = fmt.Errorf("panic: %s", msg)
	}
	if merr != nil {
		fail("migrate", merr)
		return
	}
	select {
	case <-done:
	case <-time.After(30 * time.Second):
		fail("migrate-timeout", fmt.Errorf("no completion after 30 s"))
		return
	}
	tkeys, src, err := dump(srcStore, d.InstanceID())
	if err != nil {
		fail("dump-source", err)
		return
	}
	_, dst, err := dump(dstStore, d.InstanceID())
	if err != nil {
		fail("dump-destination", err)
		return
	}
	for tk := range dst {
		if _, ok := src[tk]; !ok {
			tkeys = append(tkeys, tk) // a datum the source does not hold at all
		}
	}
	sort.Strings(tkeys)
	var data []string
	srcChanged := false
	for _, tk := range tkeys {
		var reads []string
		for _, i := range pick {
			v := dvid.VersionID(vid(i))
			ms, err1 := viewAt(srcStore, d, v)
			md, err2 := viewAt(dstStore, d, v)
			if err1 != nil || err2 != nil {
				fail("read-after", fmt.Errorf("%v / %v", err1, err2))
				return
			}
			sb, sok := ms[tk]
			db, dok := md[tk]
			if bb, bok := before[i][tk]; bok != sok || !bytes.Equal(bb, sb) {
				srcChanged = true
			}
			reads = append(reads, fmt.Sprintf("(%d%%nat,%s,%s)", int(v), coqOptBytes(sb, sok), coqOptBytes(db, dok)))
		}
		data = append(data, fmt.Sprintf("(%s,%s,[%s])", coqEnts(src[tk]), coqEnts(dst[tk]), strings.Join(reads, ";")))
	}
	term := fmt.Sprintf("CTransfer %d%%nat %s [%s]%%nat [%s]%%nat [%s]", mode, lib.CoqBool(srcChanged), strings.Join(path, ";"), strings.Join(ts, ";"), strings.Join(data, ";"))
	run.Count("transfer:" + typ + "/" + []string{"uuid-list", "all", "flatten"}[mode])
	run.Count(fmt.Sprintf("transfer-versions:%d/transmitted:%d", nv, len(pick)))
	run.Add("transfer", term, transferCase{Kind: "transfer", Typ: typ, Seed: seed}, fmt.Sprintf("transfer/%s/%d", typ, seed))
}

// ---- TransferData: the whole source store (every repo, every instance) onto a fresh store, all versions or
// only the listed ones.  The stores are large by the time this runs, so the driver compares the raw data keys
// itself and hands the model the projected facts.
func dumpAllData(store dvid.Store) (map[string][]byte, error) {
	rq, ok := store.(rawRanger)
	if !ok {
		return nil, fmt.Errorf("store %s has no RawRangeQuery", store)
	}
	m := map[string][]byte{}
	ch := make(chan *storage.KeyValue, 1000)
	done := make(chan bool)
	go func() {
		for kv := range ch {
			if kv == nil {
				break
			}
			if storage.Key(kv.K).IsDataKey() {
				m[string(kv.K)] = append([]byte{}, kv.V...)
			}
		}
		done <- true
	}()
	err := rq.RawRangeQuery(storage.MinDataKey(), storage.ConstructBlobKey([]byte{}), false, ch, nil)
	<-done
	return m, err
}

func runTransferData(run *lib.Run, seed uint64, filtered bool) {
	rng := lib.NewRand(seed*40503 + 7)
	transferN++
	fail := func(what string, err error) {
		run.Notes = append(run.Notes, fmt.Sprintf("transfer-data seed %d: %s: %v", seed, what, err))
		run.Count("transfer-failed:" + what)
		run.Add("transfer-failed", "CTransferFail 2", transferCase{Kind: "transfer-data", Typ: fmt.Sprint(filtered), Seed: seed}, fmt.Sprintf("tdfail/%d/%v", seed, filtered))
	}
	root, err := dv.NewRepo(fmt.Sprintf("td%d", transferN))
	if err != nil {
		fail("new-repo", err)
		return
	}
	early, late := fmt.Sprintf("early%d", transferN), fmt.Sprintf("late%d", transferN)
	if err := dv.NewInstance(root, "keyvalue", early, nil); err != nil {
		fail("new-instance", err)
		return
	}
	put := func(u, inst string, n int) {
		for i := 0; i < n; i++ {
			k := fmt.Sprintf("k%d", rng.Intn(6))
			if rng.Chance(0.25) {
				dv.Delete("/api/node/" + u + "/" + inst + "/key/" + k)
			} else {
				dv.Post("/api/node/"+u+"/"+inst+"/key/"+k, rng.Bytes(1+rng.Intn(8)))
			}
		}
	}
	uuids := []string{root}
	put(root, early, 4)
	dv.Commit(root)
	c1, r := dv.NewVersion(root)
	if c1 == "" {
		fail("new-version", fmt.Errorf("%d %s", r.Status, r.Body))
		return
	}
	uuids = append(uuids, c1)
	// an instance that enters the repo at a version other than the root
	if err := dv.NewInstance(c1, "keyvalue", late, nil); err != nil {
		fail("new-instance-at-child", err)
		return
	}
	put(c1, early, 3)
	put(c1, late, 4)
	dv.Commit(c1)
	c2, _ := dv.NewVersion(c1)
	c3, _ := dv.Branch(c1, fmt.Sprintf("tdb%d", transferN))
	for _, c := range []string{c2, c3} {
		if c != "" {
			uuids = append(uuids, c)
			put(c, early, 3)
			put(c, late, 3)
		}
	}
	d, err := datastore.GetDataByUUIDName(dvid.UUID(root), dvid.InstanceName(early))
	if err != nil {
		fail("get-data", err)
		return
	}
	srcStore, _ := d.KVStore()
	dir := filepath.Join(os.TempDir(), fmt.Sprintf("c19-td-%d-%d", os.Getpid(), transferN))
	os.RemoveAll(dir)
	defer os.RemoveAll(dir)
	var c dvid.Config
	c.SetAll(map[string]interface{}{"path": dir})
	dst, _, err := storage.NewStore(dvid.StoreConfig{Config: c, Engine: "badger"})
	if err != nil {
		fail("open-destination", err)
		return
	}
	defer dst.Close()
	cfg := struct {
		Versions []string
		Metadata bool
	}{}
	okV := map[dvid.VersionID]bool{}
	if filtered {
		for _, u := range uuids {
			if rng.Chance(0.6) {
				cfg.Versions = append(cfg.Versions, u)
				v, _ := datastore.VersionFromUUID(dvid.UUID(u))
				okV[v] = true
			}
		}
		if len(cfg.Versions) == 0 {
			cfg.Versions = []string{uuids[1]}
			v, _ := datastore.VersionFromUUID(dvid.UUID(uuids[1]))
			okV[v] = true
		}
	}
	cfgFile := filepath.Join(os.TempDir(), fmt.Sprintf("c19-td-%d-%d.json", os.Getpid(), transferN))
	b, _ := json.Marshal(cfg)
	os.WriteFile(cfgFile, b, 0644)
	defer os.Remove(cfgFile)
	before, err := dumpAllData(srcStore)
	if err != nil {
		fail("dump-source", err)
		return
	}
	var terr error
	p, msg := lib.Recover(func() { terr = datastore.TransferData(dvid.UUID(root), srcStore, dst, cfgFile) })
	if p {
		terr = fmt.Errorf("panic: %s", msg)
	}
	if terr != nil {
		fail("transfer-data", terr)
		return
	}
	after, err1 := dumpAllData(srcStore)
	got, err2 := dumpAllData(dst)
	if err1 != nil || err2 != nil {
		fail("dump-after", fmt.Errorf("%v / %v", err1, err2))
		return
	}
	expected, missing, extra, differ, srcChanged := 0, 0, 0, 0, 0
	for k, v := range before {
		if filtered {
			ver, err := storage.VersionFromDataKey(storage.Key(k))
			if err != nil || !okV[ver] {
				continue
			}
		}
		expected++
		g, ok := got[k]
		switch {
		case !ok:
			missing++
		case !bytes.Equal(g, v):
			differ++
		}
	}
	for k := range got {
		v, ok := before[k]
		_ = v
		if !ok {
			extra++
			continue
		}
		if filtered {
			ver, err := storage.VersionFromDataKey(storage.Key(k))
			if err != nil || !okV[ver] {
				extra++
			}
		}
	}
	if len(after) != len(before) {
		srcChanged = 1
	} else {
		for k, v := range before {
			if a, ok := after[k]; !ok || !bytes.Equal(a, v) {
				srcChanged = 1
				break
			}
		}
	}
	run.Count(fmt.Sprintf("transfer-data:filtered=%v", filtered))
	term := fmt.Sprintf("CTransferData %s %d %d %d %d %s", lib.CoqBool(filtered), expected, missing, extra, differ, lib.CoqBool(srcChanged == 1))
	run.Add("transfer-data", term, transferCase{Kind: "transfer-data", Typ: fmt.Sprint(filtered), Seed: seed}, fmt.Sprintf("transfer-data/%d/%v", seed, filtered))
}
