// Driver C17: imageblk instances over HTTP (harness/dv) — block-aligned writes (raw, blocks, with
// and without ROI), reads in every geometry (3d boxes of any alignment, XY/XZ/YZ slices, block
// streams) and extents — plus Voxels.ReadBlock / WriteBlock at package level, against
// Model.ImageBlk.
package main

import (
	"bytes"
	"encoding/base64"
	"encoding/binary"
	"encoding/hex"
	"encoding/json"
	"flag"
	"fmt"
	"image/color"
	"image/png"
	"math"
	"os"
	"os/exec"
	"strings"

	"github.com/janelia-flyem/dvid/datatype/imageblk"
	"github.com/janelia-flyem/dvid/dvid"
	"github.com/janelia-flyem/dvid/storage"
	"verif/harness/dv"
	"verif/harness/lib"
)

type jop struct {
	Op    string     `json:"op"` // postraw getraw postblocks getblocks subvol specific extents
	Off   []int32    `json:"off,omitempty"`
	Size  []int32    `json:"size,omitempty"`
	Shape string     `json:"shape,omitempty"` // 0_1_2 0_1 0_2 1_2
	Pat   []int32    `json:"pat,omitempty"`   // data = pattern(a, s)
	Span  int32      `json:"span,omitempty"`
	Roi   [][4]int32 `json:"roi,omitempty"` // spans of the ROI used by this request
	Att   int        `json:"att,omitempty"` // ?attenuation=n (reads through an ROI)
	Mut   bool       `json:"mutate,omitempty"`
	Iso   bool       `json:"iso,omitempty"`      // the isotropic endpoint (instances have isotropic voxels)
	REmp  bool       `json:"roiempty,omitempty"` // the request names an ROI that holds no span
	Fill  string     `json:"fill,omitempty"`     // posted data: "" pattern(pat) | zero | bg | const | single
	Req   [][3]int32 `json:"req,omitempty"`
}

// vnode: one version of a DAG history.  Its parent is committed when the node is created (as the
// next version of the parent's branch, or on a new branch); Ops run when the node's turn comes (Seq
// order), Obs (reads, extents) run at the very end, after every version has done its writes.
type vnode struct {
	Parent int   `json:"parent"`
	Child  bool  `json:"child,omitempty"`
	Ops    []jop `json:"ops,omitempty"`  // run when the node is created
	Late   []jop `json:"late,omitempty"` // leaves only: run after all nodes exist, one at a time in LateSeq order
	Obs    []jop `json:"obs,omitempty"`
}

type jcase struct {
	Kind    string  `json:"kind"`
	Type    string  `json:"type,omitempty"`
	BS      []int32 `json:"bs"`
	BG      int     `json:"bg"`
	Ops     []jop   `json:"ops,omitempty"`
	Nodes   []vnode `json:"nodes,omitempty"`   // a version DAG: node 0 is the root and runs Ops first
	Only    int     `json:"only,omitempty"`    // replay: emit only this version (1-based); 0 = all
	LateSeq []int   `json:"lateseq,omitempty"` // node whose next Late op runs, in time order
	Stride  int32   `json:"stride,omitempty"`
	Block   []int32 `json:"block,omitempty"`
	Bpv     int32   `json:"bpv,omitempty"`
	Att     int     `json:"att,omitempty"`
	G       *jop    `json:"g,omitempty"`
}

var bpvOf = map[string]int32{"uint8blk": 1, "uint16blk": 2, "uint32blk": 4, "uint64blk": 8, "float32blk": 4, "rgba8blk": 4}

// bgPattern: one voxel with every value equal to Background (little-endian integers, IEEE float)
func bgPattern(typ string, bg int) []byte {
	switch typ {
	case "uint8blk":
		return []byte{byte(bg)}
	case "uint16blk":
		return []byte{byte(bg), 0}
	case "uint32blk":
		return []byte{byte(bg), 0, 0, 0}
	case "uint64blk":
		return []byte{byte(bg), 0, 0, 0, 0, 0, 0, 0}
	case "float32blk":
		b := make([]byte, 4)
		binary.LittleEndian.PutUint32(b, math.Float32bits(float32(bg)))
		return b
	case "rgba8blk":
		return []byte{byte(bg), byte(bg), byte(bg), byte(bg)}
	}
	return nil
}
func ccfg(bs []int32, bpv int32, bg int, pat []byte) string {
	return fmt.Sprintf("(C %s %d %d %s%%N true)", cpt(bs), bpv, bg, lib.CoqBytes(pat))
}

func z(v int64) string { return lib.CoqZ(v) }
func cpt(p []int32) string {
	return fmt.Sprintf("(%s, %s, %s)", z(int64(p[0])), z(int64(p[1])), z(int64(p[2])))
}

// cbytes prints a byte string as hex text with long constant runs as (rp v n)
func cbytes(b []byte) string {
	if len(b) == 0 {
		return "[]"
	}
	var segs []string
	lit := []byte{}
	flush := func() {
		if len(lit) > 0 {
			segs = append(segs, `hx "`+hex.EncodeToString(lit)+`"%string`)
			lit = lit[:0]
		}
	}
	for i := 0; i < len(b); {
		j := i
		for j < len(b) && b[j] == b[i] {
			j++
		}
		if j-i >= 12 {
			flush()
			segs = append(segs, fmt.Sprintf("rp %d %d%%nat", b[i], j-i))
		} else {
			lit = append(lit, b[i:j]...)
		}
		i = j
	}
	flush()
	return "(" + strings.Join(segs, " ++ ") + ")"
}

func pattern(a, s int32, n int) []byte {
	out := make([]byte, n)
	for i := range out {
		out[i] = byte(((int64(a)+int64(i)*int64(s))%251+251)%251 + 1)
	}
	return out
}

// postData: the bytes a write posts and their Coq term
func postData(o jop, n int, bpv int32, bgvox []byte) ([]byte, string) {
	switch o.Fill {
	case "zero":
		b := make([]byte, n)
		return b, cbytes(b)
	case "bg": // every voxel the background voxel
		b := make([]byte, 0, n)
		for len(b) < n {
			b = append(b, bgvox...)
		}
		return b, fmt.Sprintf("(tile %s%%N %d%%nat)", lib.CoqBytes(bgvox), n/len(bgvox))
	case "const":
		b := bytes.Repeat([]byte{byte(o.Pat[0]%251 + 1)}, n)
		return b, cbytes(b)
	case "single": // background everywhere but one voxel
		b := make([]byte, 0, n)
		for len(b) < n {
			b = append(b, bgvox...)
		}
		k := (int(o.Pat[0]) * 7919 % (n / int(bpv))) * int(bpv)
		for i := 0; i < int(bpv); i++ {
			b[k+i] = byte(o.Pat[1]%250 + 1)
		}
		return b, cbytes(b)
	}
	return pattern(o.Pat[0], o.Pat[1], n), cpat(o.Pat[0], o.Pat[1], n)
}

func roiSpans(o jop) [][4]int32 {
	if o.REmp {
		return [][4]int32{}
	}
	return o.Roi
}

func cpat(a, s int32, n int) string { return fmt.Sprintf("(pat %d %d %d)", a, s, n) }

func cspans(sp [][4]int32) string {
	if sp == nil {
		return "None"
	}
	if len(sp) == 0 {
		return "(Some [])"
	}
	ss := make([]string, len(sp))
	for i, q := range sp {
		ss[i] = fmt.Sprintf("(%s,%s,%s,%s)", z(int64(q[0])), z(int64(q[1])), z(int64(q[2])), z(int64(q[3])))
	}
	return "(Some (spl [" + strings.Join(ss, ";") + "]))"
}

func shapeCoq(s string) string {
	switch s {
	case "0_1":
		return "XY"
	case "0_2":
		return "XZ"
	case "1_2":
		return "YZ"
	}
	return "Vol3d"
}

func cgeom(o jop) string {
	d := int32(1)
	if o.Shape == "0_1_2" {
		d = o.Size[2]
	}
	return fmt.Sprintf("(G %s %s %d %d %d)", shapeCoq(o.Shape), cpt(o.Off), o.Size[0], o.Size[1], d)
}

// decodeSlice turns the PNG of a 2d slice back into the voxel bytes
func decodeSlice(body []byte, w, h int, bpv int32) ([]byte, error) {
	img, err := png.Decode(bytes.NewReader(body))
	if err != nil {
		return nil, err
	}
	r := img.Bounds()
	if r.Dx() != w || r.Dy() != h {
		return nil, fmt.Errorf("image is %dx%d, expected %dx%d", r.Dx(), r.Dy(), w, h)
	}
	out := make([]byte, 0, w*h*int(bpv))
	for y := r.Min.Y; y < r.Max.Y; y++ {
		for x := r.Min.X; x < r.Max.X; x++ {
			switch bpv {
			case 1:
				out = append(out, color.GrayModel.Convert(img.At(x, y)).(color.Gray).Y)
			case 2: // Gray16: big-endian in the image, little-endian voxels
				v := color.Gray16Model.Convert(img.At(x, y)).(color.Gray16).Y
				out = append(out, byte(v), byte(v>>8))
			case 4:
				c := color.NRGBAModel.Convert(img.At(x, y)).(color.NRGBA)
				out = append(out, c.R, c.G, c.B, c.A)
			case 8:
				c := color.NRGBA64Model.Convert(img.At(x, y)).(color.NRGBA64)
				out = append(out, byte(c.R>>8), byte(c.R), byte(c.G>>8), byte(c.G), byte(c.B>>8), byte(c.B), byte(c.A>>8), byte(c.A))
			}
		}
	}
	return out, nil
}

var repoUUID string
var nInst int

func open() {
	if repoUUID != "" {
		return
	}
	dv.Quiet()
	dv.Open()
	u, err := dv.NewRepo("c17")
	if err != nil {
		fmt.Fprintln(os.Stderr, err)
		os.Exit(2)
	}
	repoUUID = u
}

func parseBlocks(body []byte) ([]string, bool) {
	var out []string
	for len(body) > 0 {
		if len(body) < 16 {
			return nil, false
		}
		x := int32(binary.LittleEndian.Uint32(body[0:4]))
		y := int32(binary.LittleEndian.Uint32(body[4:8]))
		zz := int32(binary.LittleEndian.Uint32(body[8:12]))
		n := int(int32(binary.LittleEndian.Uint32(body[12:16])))
		if n < 0 || len(body) < 16+n {
			return nil, false
		}
		out = append(out, fmt.Sprintf("(%s, %s)", cpt([]int32{x, y, zz}), cbytes(body[16:16+n])))
		body = body[16+n:]
	}
	return out, true
}

var run *lib.Run

// histTerm runs one history on a fresh instance and returns its Coq term and distribution counters
func histTerms(c jcase) ([]string, []string) {
	var counts []string
	count := func(k string) { counts = append(counts, k) }
	open()
	nInst++
	name := fmt.Sprintf("img%d", nInst)
	bpv := bpvOf[c.Type]
	bs := c.BS
	_ = run
	cfgm := map[string]string{"BlockSize": fmt.Sprintf("%d,%d,%d", bs[0], bs[1], bs[2])}
	if c.BG != 0 {
		cfgm["Background"] = fmt.Sprint(c.BG)
	}
	if err := dv.NewInstance(repoUUID, c.Type, name, cfgm); err != nil {
		fmt.Fprintln(os.Stderr, err)
		os.Exit(2)
	}
	bgvox := bgPattern(c.Type, c.BG)
	roiNames := map[string]string{}
	roiOf := func(sp [][4]int32) string {
		if sp == nil {
			return ""
		}
		key := fmt.Sprint(sp)
		if n, ok := roiNames[key]; ok {
			return n
		}
		rn := fmt.Sprintf("%sroi%d", name, len(roiNames))
		if err := dv.NewInstance(repoUUID, "roi", rn, map[string]string{"BlockSize": cfgm["BlockSize"]}); err != nil {
			fmt.Fprintln(os.Stderr, err)
			os.Exit(2)
		}
		body, _ := json.Marshal(sp)
		if len(sp) == 0 {
			body = []byte("[]")
		}
		if r := dv.Post("/api/node/"+repoUUID+"/"+rn+"/roi", body); r.Status != 200 {
			fmt.Fprintln(os.Stderr, "cannot post roi", r.Status, string(r.Body))
			os.Exit(2)
		}
		roiNames[key] = rn
		return rn
	}
	q := func(rn string, att int, mut bool) string {
		var qs []string
		if rn != "" {
			qs = append(qs, "roi="+rn)
			if att != 0 {
				qs = append(qs, fmt.Sprintf("attenuation=%d", att))
			}
		}
		if mut {
			qs = append(qs, "mutate=true")
		}
		if len(qs) == 0 {
			return ""
		}
		return "?" + strings.Join(qs, "&")
	}
	resBytes := func(r dv.Resp, b []byte, ok bool) string {
		switch {
		case r.Class() == "panic":
			return "Panic"
		case !ok:
			return "Err"
		}
		return "(Ok " + cbytes(b) + ")"
	}
	// the ROIs every version will name are made at the root while it is still open
	nodes := c.Nodes
	if len(nodes) == 0 {
		nodes = []vnode{{Parent: -1}}
	}
	allOps := append([]jop{}, c.Ops...)
	for _, nd := range nodes {
		allOps = append(append(append(allOps, nd.Ops...), nd.Late...), nd.Obs...)
	}
	for _, o := range allOps {
		roiOf(roiSpans(o))
	}
	poisoned := false
	runOps := func(uuid string, ops []jop) []string {
		base := "/api/node/" + uuid + "/" + name
		var terms []string
		for _, o := range ops {
			if poisoned {
				break
			}
			count("op:" + o.Op)
			switch o.Op {
			case "postraw":
				n := int(o.Size[0]) * int(o.Size[1]) * int(o.Size[2]) * int(bpv)
				data, dterm := postData(o, n, bpv, bgvox)
				r := dv.Post(fmt.Sprintf("%s/raw/0_1_2/%d_%d_%d/%d_%d_%d%s", base, o.Size[0], o.Size[1], o.Size[2], o.Off[0], o.Off[1], o.Off[2], q(roiOf(roiSpans(o)), 0, o.Mut)), data)
				terms = append(terms, fmt.Sprintf("OPostRaw %s %s %s %s %s", cpt(o.Off), cpt(o.Size), dterm, cspans(roiSpans(o)), lib.CoqBool(r.Status == 200)))
				if roiSpans(o) != nil {
					count("write:roi")
				}
				if o.Fill != "" {
					count("write:fill-" + o.Fill)
				}
				if o.Mut {
					count("write:mutate")
				}
			case "getraw":
				var url string
				ep := "raw"
				if o.Iso {
					ep = "isotropic"
					count("read:isotropic")
				}
				if o.Att != 0 {
					count("read:attenuation")
				}
				if o.Shape == "0_1_2" {
					url = fmt.Sprintf("%s/%s/0_1_2/%d_%d_%d/%d_%d_%d%s", base, ep, o.Size[0], o.Size[1], o.Size[2], o.Off[0], o.Off[1], o.Off[2], q(roiOf(roiSpans(o)), o.Att, false))
				} else {
					url = fmt.Sprintf("%s/%s/%s/%d_%d/%d_%d_%d%s", base, ep, o.Shape, o.Size[0], o.Size[1], o.Off[0], o.Off[1], o.Off[2], q(roiOf(roiSpans(o)), o.Att, false))
				}
				r := dv.Get(url)
				body, ok := r.Body, r.Status == 200
				if ok && o.Shape != "0_1_2" {
					b, err := decodeSlice(r.Body, int(o.Size[0]), int(o.Size[1]), bpv)
					if err != nil {
						ok = false
					}
					body = b
				}
				count("read:" + o.Shape)
				// ServeHTTP parses ?attenuation into a struct it never hands to GetVoxels: over HTTP the
				// parameter has no effect (blocks outside the ROI read as background), so the term says 0
				terms = append(terms, fmt.Sprintf("OGetRaw %s %s 0 %s", cgeom(o), cspans(roiSpans(o)), resBytes(r, body, ok)))
			case "postblocks":
				n := int(bs[0]) * int(bs[1]) * int(bs[2]) * int(bpv) * int(o.Span)
				data, dterm := postData(o, n, bpv, bgvox)
				r := dv.Post(fmt.Sprintf("%s/blocks/%d_%d_%d/%d%s", base, o.Off[0], o.Off[1], o.Off[2], o.Span, q("", 0, o.Mut)), data)
				terms = append(terms, fmt.Sprintf("OPostBlocks %s %d %s %s", cpt(o.Off), o.Span, dterm, lib.CoqBool(r.Status == 200)))
				// read the blocks back at once: a lost POST must not be followed by reads that would
				// index into the short blocks it stored (that panics inside a server goroutine)
				g := dv.Get(fmt.Sprintf("%s/blocks/%d_%d_%d/%d", base, o.Off[0], o.Off[1], o.Off[2], o.Span))
				terms = append(terms, fmt.Sprintf("OGetBlocks %s %d %s", cpt(o.Off), o.Span, resBytes(g, g.Body, g.Status == 200)))
				if r.Status == 200 && !bytes.Equal(g.Body, data) {
					poisoned = true
					count("postblocks:lost")
				}
			case "getblocks":
				r := dv.Get(fmt.Sprintf("%s/blocks/%d_%d_%d/%d", base, o.Off[0], o.Off[1], o.Off[2], o.Span))
				terms = append(terms, fmt.Sprintf("OGetBlocks %s %d %s", cpt(o.Off), o.Span, resBytes(r, r.Body, r.Status == 200)))
			case "subvol":
				r := dv.Get(fmt.Sprintf("%s/subvolblocks/%d_%d_%d/%d_%d_%d?compression=uncompressed", base, o.Size[0], o.Size[1], o.Size[2], o.Off[0], o.Off[1], o.Off[2]))
				var req []string
				for zz := o.Off[2] / bs[2]; zz < (o.Off[2]+o.Size[2])/bs[2]; zz++ {
					for y := o.Off[1] / bs[1]; y < (o.Off[1]+o.Size[1])/bs[1]; y++ {
						for x := o.Off[0] / bs[0]; x < (o.Off[0]+o.Size[0])/bs[0]; x++ {
							req = append(req, cpt([]int32{x, y, zz}))
						}
					}
				}
				blks, ok := parseBlocks(r.Body)
				t := "Err"
				if r.Class() == "panic" {
					t = "Panic"
				} else if r.Status == 200 && ok {
					t = "(Ok [" + strings.Join(blks, ";") + "])"
				}
				terms = append(terms, fmt.Sprintf("OStored true [%s] %s", strings.Join(req, ";"), t))
			case "specific":
				var qs, req []string
				for _, b := range o.Req {
					qs = append(qs, fmt.Sprintf("%d,%d,%d", b[0], b[1], b[2]))
					req = append(req, cpt(b[:]))
				}
				r := dv.Get(fmt.Sprintf("%s/specificblocks?compression=uncompressed&blocks=%s", base, strings.Join(qs, ",")))
				blks, ok := parseBlocks(r.Body)
				t := "Err"
				if r.Class() == "panic" {
					t = "Panic"
				} else if r.Status == 200 && ok {
					t = "(Ok [" + strings.Join(blks, ";") + "])"
				}
				terms = append(terms, fmt.Sprintf("OStored false [%s] %s", strings.Join(req, ";"), t))
			case "extents":
				r := dv.Get(base + "/info")
				var info struct {
					Extents struct {
						MinPoint []int32
						MaxPoint []int32
					}
				}
				t := "None"
				if r.Status == 200 && json.Unmarshal(r.Body, &info) == nil && len(info.Extents.MinPoint) == 3 && len(info.Extents.MaxPoint) == 3 {
					t = fmt.Sprintf("(Some (%s, %s))", cpt(info.Extents.MinPoint), cpt(info.Extents.MaxPoint))
				}
				// the metadata endpoint must advertise the same box
				m := dv.Get(base + "/metadata")
				var md struct {
					Properties struct {
						MinPoint []int32
						MaxPoint []int32
					}
				}
				if m.Status == 200 && json.Unmarshal(m.Body, &md) == nil && len(info.Extents.MinPoint) == 3 {
					if fmt.Sprint(md.Properties.MinPoint) != fmt.Sprint(info.Extents.MinPoint) || fmt.Sprint(md.Properties.MaxPoint) != fmt.Sprint(info.Extents.MaxPoint) {
						t = "(Some ((0, 0, 0), (-1, -1, -1)))"
					}
				}
				terms = append(terms, "OExtents "+t)
			}
		}
		return terms
	}
	// play the DAG: the root runs c.Ops and its own Ops; every other node is created from its
	// (then committed) parent and runs its Ops; afterwards every node runs its Obs
	uuids := make([]string, len(nodes))
	written := make([][]string, len(nodes)) // terms of the node's own write phase
	committed := make([]bool, len(nodes))
	uuids[0] = repoUUID
	written[0] = append(runOps(repoUUID, c.Ops), runOps(repoUUID, nodes[0].Ops)...)
	for i := 1; i < len(nodes); i++ {
		pa := nodes[i].Parent
		if !committed[pa] {
			dv.Commit(uuids[pa])
			committed[pa] = true
		}
		var r dv.Resp
		if nodes[i].Child {
			uuids[i], r = dv.NewVersion(uuids[pa])
		} else {
			uuids[i], r = dv.Branch(uuids[pa], fmt.Sprintf("%sb%d", name, i))
		}
		if uuids[i] == "" {
			fmt.Fprintln(os.Stderr, "cannot create version", r.Status, string(r.Body))
			os.Exit(2)
		}
		written[i] = runOps(uuids[i], nodes[i].Ops)
	}
	// the open leaves go on writing, interleaved
	next := make([]int, len(nodes))
	for _, i := range c.LateSeq {
		if i < len(nodes) && next[i] < len(nodes[i].Late) && !committed[i] {
			written[i] = append(written[i], runOps(uuids[i], nodes[i].Late[next[i]:next[i]+1])...)
			next[i]++
		}
	}
	var out []string
	for i := range nodes {
		obs := runOps(uuids[i], nodes[i].Obs)
		// what this version sees: the write phases of its ancestors, oldest first, then its own
		var chain []int
		for j := i; j >= 0; j = nodes[j].Parent {
			chain = append([]int{j}, chain...)
			if j == 0 {
				break
			}
		}
		var terms []string
		for _, j := range chain {
			terms = append(terms, written[j]...)
		}
		terms = append(terms, obs...)
		out = append(out, fmt.Sprintf("(KHist %s [\n    %s])", ccfg(bs, bpv, c.BG, bgvox), strings.Join(terms, ";\n    ")))
	}
	count("type:" + c.Type)
	count(fmt.Sprintf("background:%v", c.BG != 0))
	if len(nodes) > 1 {
		count(fmt.Sprintf("dag:versions:%d", len(nodes)))
	}
	return out, counts
}

// runHist runs the history in a child process: an index error inside a server goroutine cannot be
// recovered and would otherwise take the whole run down; a crashed child is reported as KCrash.
func runHist(c jcase) {
	nver := len(c.Nodes)
	if nver == 0 {
		nver = 1
	}
	first := jop{Off: []int32{0, 0, 0}}
	if len(c.Ops) > 0 {
		first = c.Ops[0]
	}
	key := fmt.Sprintf("hist/%s/%v/%d/%d/%d/%v", c.Type, c.BS, c.BG, len(c.Ops), nver, first.Off)
	f, err := os.CreateTemp("", "c17case*.json")
	if err != nil {
		fmt.Fprintln(os.Stderr, err)
		os.Exit(2)
	}
	defer os.Remove(f.Name())
	json.NewEncoder(f).Encode(c)
	f.Close()
	out, err := exec.Command(os.Args[0], "-child", f.Name(), "-outdir", os.TempDir()).Output()
	var terms []string
	for _, ln := range strings.Split(string(out), "\n") {
		switch {
		case strings.HasPrefix(ln, "TERM:"):
			b, _ := base64.StdEncoding.DecodeString(ln[5:])
			terms = append(terms, string(b))
		case strings.HasPrefix(ln, "COUNT:"):
			run.Count(ln[6:])
		}
	}
	if err != nil || len(terms) != nver {
		run.Count("history:server-crashed")
		run.Add("history", fmt.Sprintf("(KCrash %s 8%%nat)", ccfg(c.BS, bpvOf[c.Type], c.BG, bgPattern(c.Type, c.BG))), c, key)
		return
	}
	for i, t := range terms {
		if c.Only != 0 && c.Only != i+1 {
			continue
		}
		cc := c
		if nver > 1 {
			cc.Only = i + 1
		}
		run.Add("history", t, cc, fmt.Sprintf("%s/v%d", key, i))
	}
}

func valuesFor(bpv int32) dvid.DataValues {
	switch bpv {
	case 1:
		return dvid.DataValues{{T: dvid.T_uint8, Label: "v"}}
	case 2:
		return dvid.DataValues{{T: dvid.T_uint16, Label: "v"}}
	case 8:
		return dvid.DataValues{{T: dvid.T_uint64, Label: "v"}}
	}
	return dvid.DataValues{{T: dvid.T_uint8, Label: "r"}, {T: dvid.T_uint8, Label: "g"}, {T: dvid.T_uint8, Label: "b"}, {T: dvid.T_uint8, Label: "a"}}
}

// package level: one block against one geometry, both directions
func runXfer(c jcase) {
	o := *c.G
	var geom dvid.Geometry
	var err error
	off := dvid.Point3d{o.Off[0], o.Off[1], o.Off[2]}
	nvox := int(o.Size[0]) * int(o.Size[1])
	switch o.Shape {
	case "0_1":
		geom, err = dvid.NewOrthogSlice(dvid.XY, off, dvid.Point2d{o.Size[0], o.Size[1]})
	case "0_2":
		geom, err = dvid.NewOrthogSlice(dvid.XZ, off, dvid.Point2d{o.Size[0], o.Size[1]})
	case "1_2":
		geom, err = dvid.NewOrthogSlice(dvid.YZ, off, dvid.Point2d{o.Size[0], o.Size[1]})
	default:
		geom = dvid.NewSubvolume(off, dvid.Point3d{o.Size[0], o.Size[1], o.Size[2]})
		nvox *= int(o.Size[2])
	}
	if err != nil {
		fmt.Fprintln(os.Stderr, err)
		os.Exit(2)
	}
	bs := dvid.Point3d{c.BS[0], c.BS[1], c.BS[2]}
	nblk := int(bs[0]) * int(bs[1]) * int(bs[2]) * int(c.Bpv)
	// the 2d buffer may be wider than the slice (stride > width * bytes per voxel)
	ndata := nvox * int(c.Bpv)
	if o.Shape != "0_1_2" {
		ndata = int(c.Stride) * int(o.Size[1])
	}
	data := pattern(o.Pat[0], o.Pat[1], ndata)
	blk := pattern(o.Pat[0]+100, o.Pat[1]+7, nblk)
	idx := dvid.IndexZYX{c.Block[0], c.Block[1], c.Block[2]}
	do := func(write bool) string {
		d := append([]byte{}, data...)
		b := append([]byte{}, blk...)
		vox := imageblk.NewVoxels(geom, valuesFor(c.Bpv), d, c.Stride)
		kv := &storage.TKeyValue{K: imageblk.NewTKey(&idx), V: b}
		cls := "ok"
		panicked, _ := lib.Recover(func() {
			var err error
			if write {
				err = vox.WriteBlock(kv, bs)
			} else {
				err = vox.ReadBlock(kv, bs, 0)
			}
			if err != nil {
				cls = "err"
			}
		})
		if panicked {
			cls = "panic"
		}
		if write {
			return lib.CoqRes(cls, cbytes(b))
		}
		return lib.CoqRes(cls, cbytes(d))
	}
	if c.Att != 0 {
		d := append([]byte{}, data...)
		b := append([]byte{}, blk...)
		vox := imageblk.NewVoxels(geom, valuesFor(c.Bpv), d, c.Stride)
		kv := &storage.TKeyValue{K: imageblk.NewTKey(&idx), V: b}
		cls := "ok"
		panicked, _ := lib.Recover(func() {
			if err := vox.ReadBlock(kv, bs, uint8(c.Att)); err != nil {
				cls = "err"
			}
		})
		if panicked {
			cls = "panic"
		}
		term := fmt.Sprintf("(KScaled %s %s %d %s %s %s %d %s)", ccfg(c.BS, c.Bpv, 0, make([]byte, c.Bpv)), cgeom(o), c.Stride, cpt(c.Block),
			cpat(o.Pat[0], o.Pat[1], ndata), cpat(o.Pat[0]+100, o.Pat[1]+7, nblk), c.Att, lib.CoqRes(cls, cbytes(d)))
		run.Count("scaled:" + o.Shape)
		run.Add("scaled", term, c, fmt.Sprintf("scaled/%s/%v/%v/%v/%d/%d", o.Shape, o.Off, o.Size, c.Block, c.Bpv, c.Att))
		return
	}
	term := fmt.Sprintf("(KXfer %s %s %d %s %s %s %s %s)", ccfg(c.BS, c.Bpv, 0, make([]byte, c.Bpv)), cgeom(o), c.Stride, cpt(c.Block),
		cpat(o.Pat[0], o.Pat[1], ndata), cpat(o.Pat[0]+100, o.Pat[1]+7, nblk), do(false), do(true))
	run.Count("xfer:" + o.Shape)
	run.Add("xfer", term, c, fmt.Sprintf("xfer/%s/%v/%v/%v/%d", o.Shape, o.Off, o.Size, c.Block, c.Bpv))
}

func dispatch(c jcase) {
	switch c.Kind {
	case "history":
		runHist(c)
	case "xfer", "scaled":
		runXfer(c)
	default:
		fmt.Fprintln(os.Stderr, "unknown case kind", c.Kind)
		os.Exit(2)
	}
}

// ---- generation ----
func fdiv(a, b int32) int32 {
	q := a / b
	if a%b != 0 && (a < 0) != (b < 0) {
		q--
	}
	return q
}

func genHistory(rng *lib.Rand, typ string, bs []int32, bg int, withROI, withBlocks, withAtt bool) jcase {
	c := jcase{Kind: "history", Type: typ, BS: bs, BG: bg}
	pat := func() []int32 { return []int32{int32(rng.Intn(251)), int32(1 + rng.Intn(250))} }
	// block origin of the play area, negative and positive
	bo := []int32{int32(rng.Intn(4)) - 2, int32(rng.Intn(4)) - 2, int32(rng.Intn(4)) - 2}
	add := func(o jop) { c.Ops = append(c.Ops, o) }
	add(jop{Op: "extents"})
	type box struct{ off, size []int32 }
	var writes []box
	write := func(roi [][4]int32) {
		nb := []int32{int32(1 + rng.Intn(2)), int32(1 + rng.Intn(2)), int32(1 + rng.Intn(2))}
		ob := []int32{bo[0] + int32(rng.Intn(3)) - 1, bo[1] + int32(rng.Intn(3)) - 1, bo[2] + int32(rng.Intn(2))}
		w := box{[]int32{ob[0] * bs[0], ob[1] * bs[1], ob[2] * bs[2]}, []int32{nb[0] * bs[0], nb[1] * bs[1], nb[2] * bs[2]}}
		writes = append(writes, w)
		add(jop{Op: "postraw", Off: w.off, Size: w.size, Pat: pat(), Roi: roi, Mut: rng.Chance(0.3)})
	}
	reads := func(roi [][4]int32) {
		w := writes[rng.Intn(len(writes))]
		// a box of any alignment around a written box: crossing block borders, partly outside
		size := []int32{int32(1 + rng.Intn(int(2*bs[0]))), int32(1 + rng.Intn(int(2*bs[1]))), int32(1 + rng.Intn(int(bs[2])+2))}
		off := []int32{w.off[0] - int32(rng.Intn(int(bs[0]))) + int32(rng.Intn(3)), w.off[1] - int32(rng.Intn(3)), w.off[2] + int32(rng.Intn(int(w.size[2]))) - int32(rng.Intn(2))}
		add(jop{Op: "getraw", Shape: "0_1_2", Off: off, Size: size, Roi: roi})
		for _, sh := range []string{"0_1", "0_2", "1_2"} {
			if rng.Chance(0.7) {
				s2 := []int32{int32(1 + rng.Intn(int(bs[0])*2+1)), int32(1 + rng.Intn(int(bs[1])+3))}
				o2 := []int32{w.off[0] + int32(rng.Intn(int(w.size[0]))) - int32(rng.Intn(4)), w.off[1] + int32(rng.Intn(int(w.size[1]))) - int32(rng.Intn(3)), w.off[2] + int32(rng.Intn(int(w.size[2]))) - int32(rng.Intn(3))}
				add(jop{Op: "getraw", Shape: sh, Off: o2, Size: s2, Roi: roi, Iso: rng.Chance(0.25)})
			}
		}
	}
	write(nil)
	reads(nil)
	write(nil) // overlaps or abuts the first
	reads(nil)
	// overwrite a whole written box with special contents (nothing but background, zeros, one
	// value, one voxel), as an ingest or a mutation, and read it back
	for k := 0; k < 1+rng.Intn(2); k++ {
		w := writes[rng.Intn(len(writes))]
		fill := []string{"bg", "zero", "const", "single", "bg"}[rng.Intn(5)]
		add(jop{Op: "postraw", Off: w.off, Size: w.size, Pat: pat(), Fill: fill, Mut: rng.Chance(0.3)})
		add(jop{Op: "getraw", Shape: "0_1_2", Off: []int32{w.off[0] - 1, w.off[1], w.off[2]}, Size: []int32{w.size[0] + 2, w.size[1], 1 + int32(rng.Intn(int(w.size[2])))}})
		add(jop{Op: "getblocks", Off: []int32{fdiv(w.off[0], bs[0]), fdiv(w.off[1], bs[1]), fdiv(w.off[2], bs[2])}, Span: w.size[0] / bs[0]})
		if rng.Chance(0.5) {
			add(jop{Op: "getraw", Shape: "0_2", Off: []int32{w.off[0], w.off[1] + int32(rng.Intn(int(w.size[1]))), w.off[2] - 1}, Size: []int32{w.size[0], w.size[2] + 1}})
		}
	}
	add(jop{Op: "extents"})
	{
		w := writes[rng.Intn(len(writes))]
		add(jop{Op: "getblocks", Off: []int32{fdiv(w.off[0], bs[0]) - 1, fdiv(w.off[1], bs[1]), fdiv(w.off[2], bs[2])}, Span: int32(2 + rng.Intn(2))})
		so := []int32{w.off[0] - bs[0], w.off[1], w.off[2]}
		add(jop{Op: "subvol", Off: so, Size: []int32{3 * bs[0], bs[1] * int32(1+rng.Intn(2)), bs[2]}})
		add(jop{Op: "subvol", Off: w.off, Size: bs}) // the single-block path
		b0 := [3]int32{fdiv(w.off[0], bs[0]), fdiv(w.off[1], bs[1]), fdiv(w.off[2], bs[2])}
		add(jop{Op: "specific", Req: [][3]int32{b0, {b0[0] + 7, b0[1], b0[2]}, {b0[0] + 1, b0[1], b0[2]}, {b0[0], b0[1] - 9, b0[2]}}})
	}
	if withROI {
		// an ROI holding some of the blocks of the next write
		var roi [][4]int32
		for zz := bo[2] - 1; zz <= bo[2]+2; zz++ {
			for y := bo[1] - 1; y <= bo[1]+2; y++ {
				if rng.Chance(0.6) {
					x0 := bo[0] - 1 + int32(rng.Intn(3))
					roi = append(roi, [4]int32{zz, y, x0, x0 + int32(rng.Intn(2))})
				}
			}
		}
		if len(roi) == 0 {
			roi = [][4]int32{{bo[2], bo[1], bo[0], bo[0]}}
		}
		write(roi)
		reads(nil)
		reads(roi)
		add(jop{Op: "extents"})
		// boxes entirely outside the ROI's Z layers, and an ROI without any span: a restricted
		// write stores nothing, a restricted read shows nothing
		{
			w := writes[rng.Intn(len(writes))]
			far := [][4]int32{{bo[2] + 20, bo[1], bo[0] - 1, bo[0] + 2}, {bo[2] - 30, bo[1], bo[0], bo[0]}}
			o1 := jop{Op: "postraw", Off: w.off, Size: w.size, Pat: pat(), Mut: rng.Chance(0.3)}
			o2 := jop{Op: "getraw", Shape: "0_1_2", Off: []int32{w.off[0] - 1, w.off[1] - 1, w.off[2]}, Size: []int32{w.size[0] + 1, w.size[1] + 1, 1 + int32(rng.Intn(int(w.size[2])))}}
			if rng.Chance(0.5) {
				o1.REmp = true
			} else {
				o1.Roi = far
			}
			add(o1)
			add(o2) // unrestricted: nothing changed
			o3 := o2
			if rng.Chance(0.5) {
				o3.REmp = true
			} else {
				o3.Roi = far
			}
			add(o3) // restricted: nothing inside
			if rng.Chance(0.5) {
				add(jop{Op: "getraw", Shape: "0_1", Off: []int32{w.off[0], w.off[1], w.off[2]}, Size: []int32{w.size[0], w.size[1]}, REmp: o3.REmp, Roi: o3.Roi})
			}
		}
		if withAtt {
			// reads through the ROI with attenuation, on a box that spans several block columns
			w := writes[len(writes)-1]
			add(jop{Op: "getraw", Shape: "0_1_2", Off: []int32{w.off[0] - 1, w.off[1], w.off[2]}, Size: []int32{w.size[0] + 2, w.size[1], int32(1 + rng.Intn(2))}, Roi: roi, Att: 1 + rng.Intn(3)})
			add(jop{Op: "getraw", Shape: "0_1", Off: []int32{w.off[0] + 1, w.off[1] - 1, w.off[2]}, Size: []int32{w.size[0], w.size[1] + 1}, Roi: roi, Att: 1 + rng.Intn(7)})
			add(jop{Op: "getraw", Shape: "1_2", Off: []int32{w.off[0] + 1, w.off[1], w.off[2] - 1}, Size: []int32{w.size[1], w.size[2] + 1}, Roi: roi, Att: 2})
		}
	}
	if withBlocks {
		start := []int32{bo[0] + int32(rng.Intn(3)) - 1, bo[1] + int32(rng.Intn(2)), bo[2] - 1}
		span := int32(1 + rng.Intn(3))
		add(jop{Op: "postblocks", Off: start, Span: span, Pat: pat(), Mut: rng.Chance(0.3)})
		writes = append(writes, box{[]int32{start[0] * bs[0], start[1] * bs[1], start[2] * bs[2]}, []int32{span * bs[0], bs[1], bs[2]}})
		add(jop{Op: "extents"})
		reads(nil)
	}
	return c
}

// genDag: a write history over a small version DAG within one server uptime: the root writes and
// is committed; siblings (next version / new branches) and grandchildren write the same box, a
// sub-box, an overlapping or a far box, background or data, in interleaved order; at the end EVERY
// version reports its extents and reads the play area back.
func genDag(rng *lib.Rand, typ string, bs []int32, bg int) jcase {
	c := jcase{Kind: "history", Type: typ, BS: bs, BG: bg}
	pat := func() []int32 { return []int32{int32(rng.Intn(251)), int32(1 + rng.Intn(250))} }
	bo := []int32{int32(rng.Intn(4)) - 2, int32(rng.Intn(4)) - 2, int32(rng.Intn(3)) - 1}
	vox := func(b []int32) []int32 { return []int32{b[0] * bs[0], b[1] * bs[1], b[2] * bs[2]} }
	// the boxes the versions choose from (block origin, size in blocks)
	type bx struct{ o, n []int32 }
	boxes := []bx{
		{[]int32{bo[0], bo[1], bo[2]}, []int32{2, 1, 1}},     // B
		{[]int32{bo[0], bo[1], bo[2]}, []int32{1, 1, 1}},     // sub-box of B
		{[]int32{bo[0] + 1, bo[1], bo[2]}, []int32{2, 1, 1}}, // overlaps B
		{[]int32{bo[0] - 2, bo[1] + 1, bo[2]}, []int32{1, 1, 2}},
		{[]int32{bo[0], bo[1], bo[2]}, []int32{2, 1, 1}}, // B again
	}
	wr := func() jop {
		b := boxes[rng.Intn(len(boxes))]
		fill := ""
		if rng.Chance(0.3) {
			fill = []string{"bg", "zero", "const", "single"}[rng.Intn(4)]
		}
		if rng.Chance(0.15) && b.n[1] == 1 && b.n[2] == 1 {
			return jop{Op: "postblocks", Off: b.o, Span: b.n[0], Pat: pat(), Fill: fill, Mut: rng.Chance(0.3)}
		}
		return jop{Op: "postraw", Off: vox(b.o), Size: vox(b.n), Pat: pat(), Fill: fill, Mut: rng.Chance(0.3)}
	}
	obs := func() []jop {
		o := []jop{{Op: "extents"},
			{Op: "getraw", Shape: "0_1_2", Off: []int32{vox(bo)[0] - 1, vox(bo)[1], vox(bo)[2]}, Size: []int32{3*bs[0] + 1, bs[1], 1 + int32(rng.Intn(int(bs[2])))}},
			{Op: "getblocks", Off: []int32{bo[0] - 1, bo[1], bo[2]}, Span: 4}}
		switch rng.Intn(3) {
		case 0:
			o = append(o, jop{Op: "getraw", Shape: "0_1", Off: []int32{vox(bo)[0] + 1, vox(bo)[1] - 1, vox(bo)[2] + int32(rng.Intn(int(bs[2])))}, Size: []int32{2 * bs[0], bs[1] + 2}})
		case 1:
			o = append(o, jop{Op: "getraw", Shape: "1_2", Off: []int32{vox(bo)[0] - 2*bs[0] + 1, vox(bo)[1] + bs[1], vox(bo)[2]}, Size: []int32{bs[1], 2 * bs[2]}})
		default:
			o = append(o, jop{Op: "subvol", Off: vox([]int32{bo[0] - 2, bo[1], bo[2]}), Size: vox([]int32{5, 2, 1})})
		}
		return o
	}
	if rng.Chance(0.7) {
		c.Ops = append(c.Ops, wr())
	}
	c.Nodes = []vnode{{Parent: -1, Obs: obs()}}
	hasChild := map[int]bool{}
	isParent := map[int]bool{}
	n := 2 + rng.Intn(3)
	for i := 1; i <= n; i++ {
		pa := 0
		if i > 2 && rng.Chance(0.5) {
			pa = 1 + rng.Intn(i-1)
		}
		nd := vnode{Parent: pa, Obs: obs()}
		if !hasChild[pa] && rng.Chance(0.5) {
			nd.Child = true
			hasChild[pa] = true
		}
		isParent[pa] = true
		if rng.Chance(0.6) {
			nd.Ops = append(nd.Ops, wr())
		}
		c.Nodes = append(c.Nodes, nd)
	}
	// leaves keep writing, interleaved; a node that became a parent wrote only when created
	for i := 1; i <= n; i++ {
		if isParent[i] {
			continue
		}
		k := 1 + rng.Intn(3)
		for j := 0; j < k; j++ {
			c.Nodes[i].Late = append(c.Nodes[i].Late, wr())
			c.LateSeq = append(c.LateSeq, i)
		}
	}
	for i := len(c.LateSeq) - 1; i > 0; i-- {
		j := rng.Intn(i + 1)
		c.LateSeq[i], c.LateSeq[j] = c.LateSeq[j], c.LateSeq[i]
	}
	return c
}

func genXfer(rng *lib.Rand) jcase {
	bs := []int32{int32(rng.Pick(2, 3, 4)), int32(rng.Pick(2, 3, 4)), int32(rng.Pick(2, 3))}
	bpv := int32(rng.Pick(1, 2, 4, 8))
	blk := []int32{int32(rng.Intn(5)) - 2, int32(rng.Intn(5)) - 2, int32(rng.Intn(5)) - 2}
	shape := []string{"0_1", "0_2", "1_2", "0_1_2"}[rng.Intn(4)]
	// a geometry that meets the block
	inside := []int32{blk[0]*bs[0] + int32(rng.Intn(int(bs[0]))), blk[1]*bs[1] + int32(rng.Intn(int(bs[1]))), blk[2]*bs[2] + int32(rng.Intn(int(bs[2])))}
	size := []int32{int32(1 + rng.Intn(7)), int32(1 + rng.Intn(6)), int32(1 + rng.Intn(5))}
	var off []int32
	switch shape {
	case "0_1":
		off = []int32{inside[0] - int32(rng.Intn(int(size[0]))), inside[1] - int32(rng.Intn(int(size[1]))), inside[2]}
	case "0_2":
		off = []int32{inside[0] - int32(rng.Intn(int(size[0]))), inside[1], inside[2] - int32(rng.Intn(int(size[1])))}
	case "1_2":
		off = []int32{inside[0], inside[1] - int32(rng.Intn(int(size[0]))), inside[2] - int32(rng.Intn(int(size[1])))}
	default:
		off = []int32{inside[0] - int32(rng.Intn(int(size[0]))), inside[1] - int32(rng.Intn(int(size[1]))), inside[2] - int32(rng.Intn(int(size[2])))}
	}
	stride := size[0] * bpv
	if shape != "0_1_2" && rng.Chance(0.3) {
		stride += bpv * int32(1+rng.Intn(3)) // padded rows, as Go images may have
	}
	return jcase{Kind: "xfer", BS: bs, Bpv: bpv, Block: blk, Stride: stride,
		G: &jop{Shape: shape, Off: off, Size: size, Pat: []int32{int32(rng.Intn(251)), int32(1 + rng.Intn(250))}}}
}

var childCase = flag.String("child", "", "internal: run the history stored in this file and print its term")

func main() {
	o := lib.ParseOpts()
	if *childCase != "" {
		b, err := os.ReadFile(*childCase)
		var c jcase
		if err != nil || json.Unmarshal(b, &c) != nil {
			os.Exit(2)
		}
		terms, counts := histTerms(c)
		dv.Close()
		for _, term := range terms {
			fmt.Println("TERM:" + base64.StdEncoding.EncodeToString([]byte(term)))
		}
		for _, k := range counts {
			fmt.Println("COUNT:" + k)
		}
		return
	}
	rng := lib.NewRand(o.Seed)
	run = lib.NewRun("C17", o)
	run.Header("From Coq Require Import String.", "From DV Require Import Base.Prelude Model.Geometry Model.ROI Model.ImageBlk Model.ImageBlkRun.", "Local Open Scope Z_scope.")
	defer func() {
		if repoUUID != "" {
			dv.Close()
		}
	}()
	if o.Replay != "" {
		var c jcase
		if err := lib.LoadReplay(o.Replay, &c); err != nil {
			fmt.Fprintln(os.Stderr, err)
			os.Exit(2)
		}
		dispatch(c)
		run.Finish("c17case", "replay", tail)
		return
	}
	mul := 2
	if o.Thorough() {
		mul = 12
	}
	if o.N > 0 {
		mul = o.N
	}
	// single blocks first: a misplaced index there is reported with its input (in a history it
	// could panic inside a server goroutine and take the process down)
	for i := 0; i < 40*mul; i++ {
		dispatch(genXfer(rng))
	}
	// ReadBlock with an attenuation (readScaledBlock): one-byte voxels, plus a few wider ones (refused)
	dispatch(jcase{Kind: "xfer", BS: []int32{4, 4, 4}, Bpv: 1, Block: []int32{1, 0, 0}, Stride: 8, Att: 1,
		G: &jop{Shape: "0_1_2", Off: []int32{0, 0, 0}, Size: []int32{8, 2, 1}, Pat: []int32{0, 1}}})
	for i := 0; i < 12*mul; i++ {
		c := genXfer(rng)
		if i%6 != 5 {
			c.Bpv = 1
			c.Stride = c.G.Size[0]
		}
		c.Att = 1 + rng.Intn(7)
		dispatch(c)
	}
	// corpus: the three recorded defects, each as the shortest history that shows it
	dispatch(jcase{Kind: "history", Type: "uint8blk", BS: []int32{4, 4, 4}, BG: 7, Ops: []jop{
		{Op: "postraw", Off: []int32{-4, 0, 4}, Size: []int32{4, 4, 4}, Pat: []int32{0, 1}},
		{Op: "getraw", Shape: "0_1_2", Off: []int32{-5, 0, 4}, Size: []int32{6, 2, 1}}}})
	dispatch(jcase{Kind: "history", Type: "uint16blk", BS: []int32{4, 4, 4}, Ops: []jop{
		{Op: "postblocks", Off: []int32{1, -1, 0}, Span: 2, Pat: []int32{0, 1}}}})
	dispatch(jcase{Kind: "history", Type: "uint8blk", BS: []int32{4, 4, 4}, Ops: []jop{
		{Op: "postblocks", Off: []int32{1, -1, 0}, Span: 2, Pat: []int32{0, 1}},
		{Op: "extents"}}})

	dispatch(jcase{Kind: "history", Type: "uint16blk", BS: []int32{2, 2, 2}, BG: 7, Ops: []jop{
		{Op: "getraw", Shape: "0_1_2", Off: []int32{0, 0, 0}, Size: []int32{2, 1, 1}},
		{Op: "getblocks", Off: []int32{0, 0, 0}, Span: 1}}})
	dispatch(jcase{Kind: "history", Type: "uint8blk", BS: []int32{4, 4, 4}, Ops: []jop{
		{Op: "postraw", Off: []int32{0, 0, 0}, Size: []int32{8, 4, 4}, Pat: []int32{99, 1}},
		{Op: "getraw", Shape: "0_1_2", Off: []int32{0, 0, 0}, Size: []int32{8, 2, 1}, Roi: [][4]int32{{0, 0, 0, 0}}, Att: 1}}})
	types := []string{"uint8blk", "uint16blk", "uint32blk", "uint64blk", "float32blk", "rgba8blk"}
	nh := 0
	for rep := 0; rep < mul; rep++ {
		for ti, typ := range types {
			bs := [][]int32{{4, 4, 4}, {4, 3, 2}, {8, 4, 2}, {2, 4, 3}, {3, 3, 3}, {4, 2, 4}}[(ti+rep+rng.Intn(2))%6]
			bg := 0
			if (typ == "uint8blk" && rng.Chance(0.5)) || rng.Chance(0.25) {
				bg = 1 + rng.Intn(255)
			}
			dispatch(genHistory(rng, typ, bs, bg, (ti+rep)%2 == 0, (ti+rep)%3 != 1, false))
			nh++
		}
	}
	// write histories over version DAGs
	for rep := 0; rep < 2*mul; rep++ {
		typ := types[(rep*5+rng.Intn(2))%len(types)]
		bg := 0
		if rng.Chance(0.3) {
			bg = 1 + rng.Intn(255)
		}
		dispatch(genDag(rng, typ, [][]int32{{4, 4, 2}, {4, 2, 3}, {2, 4, 4}}[rng.Intn(3)], bg))
	}
	// every voxel type with a non-zero Background, and attenuated reads through an ROI, in
	// histories of their own (their failures have their own classes)
	for _, typ := range []string{"uint16blk", "float32blk", "rgba8blk"} {
		dispatch(genHistory(rng, typ, []int32{4, 4, 2}, 1+rng.Intn(255), false, true, false))
	}
	for rep := 0; rep < mul; rep++ {
		dispatch(genHistory(rng, "uint8blk", []int32{4, 3, 2}, rng.Pick(0, 9), true, false, true))
		dispatch(genHistory(rng, "uint16blk", []int32{4, 4, 4}, 0, true, false, true))
	}
	run.Finish("c17case",
		"one history per (voxel type x block size): block-aligned writes at negative and positive block coordinates (overlapping, ROI-restricted, block streams), reads of 3d boxes of any alignment and XY/XZ/YZ slices crossing block borders and leaving the written area, block streams and extents after each stage; single-block ReadBlock/WriteBlock for every shape, voxel width and padded strides; distinct by (kind, type, block size, background, geometry)",
		tail)
}

const tail = `
Definition spec_fail := Eval vm_compute in c17_spec_fail cases.
Definition model_mismatch := Eval vm_compute in c17_model_mismatch cases.
`
