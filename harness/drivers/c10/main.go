// Driver C10: chains of operations on compressed label blocks (MergeLabels, ReplaceLabel,
// ReplaceLabels, Split, SplitSupervoxel, SplitSupervoxels) run on the real labels package;
// every intermediate block, reported size and decoded digest is recorded for Model.BlockOpsRun.
package main

import (
	"encoding/hex"
	"fmt"
	"os"
	"strings"

	"github.com/janelia-flyem/dvid/datatype/common/labels"
	"github.com/janelia-flyem/dvid/dvid"
	"verif/harness/lib"
	"verif/harness/lib/blk"
)

type jop struct {
	T      string        `json:"t"` // merge | replace | replacemany | split | splitsv | splitsvs | down
	Target uint64        `json:"target,omitempty"`
	New    uint64        `json:"new,omitempty"`
	Remain uint64        `json:"remain,omitempty"`
	Merged []uint64      `json:"merged,omitempty"`
	Map    [][2]uint64   `json:"map,omitempty"`
	RLEs   [][4]int32    `json:"rles,omitempty"`
	SV     [][3]uint64   `json:"sv,omitempty"`   // label, split, remain
	Octs   [][]blk.Paint `json:"octs,omitempty"` // down: eight octant arrays, null = nil octant
}

type jcase struct {
	Kind   string      `json:"kind"`
	G      [3]int      `json:"g"`
	Paints []blk.Paint `json:"paints"`
	BC     [3]int32    `json:"bc"`
	Ops    []jop       `json:"ops"`
	Sparse bool        `json:"sparse,omitempty"` // start from a block whose all-zero sub-blocks are uninitialised (built from bytes)
}

func hx(b []byte) string { return `(hx "` + hex.EncodeToString(b) + `"%string)` }

func coqRLEs(rs [][4]int32) string {
	ss := make([]string, len(rs))
	for i, r := range rs {
		ss[i] = fmt.Sprintf("(%s%%Z,%s%%Z,%s%%Z,%s%%Z)", lib.CoqZ(int64(r[0])), lib.CoqZ(int64(r[1])), lib.CoqZ(int64(r[2])), lib.CoqZ(int64(r[3])))
	}
	return "[" + strings.Join(ss, ";") + "]"
}

func coqOp(o jop) string {
	switch o.T {
	case "merge":
		return fmt.Sprintf("OMerge %d %s", o.Target, lib.CoqNList(o.Merged))
	case "replace":
		return fmt.Sprintf("OReplace %d %d", o.Target, o.New)
	case "replacemany":
		ss := make([]string, len(o.Map))
		for i, kv := range o.Map {
			ss[i] = fmt.Sprintf("(%d,%d)", kv[0], kv[1])
		}
		return "OReplaceMany [" + strings.Join(ss, ";") + "]"
	case "split":
		return fmt.Sprintf("OSplit %d %d %s", o.Target, o.New, coqRLEs(o.RLEs))
	case "splitsv":
		return fmt.Sprintf("OSplitSV %d %d %d %s", o.Target, o.New, o.Remain, coqRLEs(o.RLEs))
	case "splitsvs":
		ss := make([]string, len(o.SV))
		for i, e := range o.SV {
			ss[i] = fmt.Sprintf("(%d,(%d,%d))", e[0], e[1], e[2])
		}
		return fmt.Sprintf("OSplitSVs %s [%s]", coqRLEs(o.RLEs), strings.Join(ss, ";"))
	case "down":
		ss := make([]string, len(o.Octs))
		for i, ps := range o.Octs {
			if ps == nil {
				ss[i] = "None"
			} else {
				ss[i] = "(Some " + blk.CoqPaints(ps) + ")"
			}
		}
		return "ODown [" + strings.Join(ss, "; ") + "]"
	}
	return "?"
}

func toRLEs(rs [][4]int32) dvid.RLEs {
	out := make(dvid.RLEs, len(rs))
	for i, r := range rs {
		out[i] = dvid.NewRLE(dvid.Point3d{r[0], r[1], r[2]}, r[3])
	}
	return out
}

// runOp applies one operation; returns class, result block (nil allowed), two reported numbers.
func runOp(b *labels.Block, bc [3]int32, o jop) (cls string, nb *labels.Block, n1, n2 uint64) {
	pb := labels.PositionedBlock{Block: *b, BCoord: dvid.ChunkPoint3d{bc[0], bc[1], bc[2]}.ToIZYXString()}
	p, _ := lib.Recover(func() {
		var err error
		switch o.T {
		case "merge":
			set := labels.Set{}
			for _, l := range o.Merged {
				set[l] = struct{}{}
			}
			nb, err = b.MergeLabels(labels.MergeOp{Target: o.Target, Merged: set})
		case "replace":
			nb, n1, err = b.ReplaceLabel(o.Target, o.New)
		case "replacemany":
			m := map[uint64]uint64{}
			for _, kv := range o.Map {
				m[kv[0]] = kv[1]
			}
			nb, _, err = b.ReplaceLabels(m)
		case "split":
			nb, n1, n2, err = pb.Split(labels.SplitOp{Target: o.Target, NewLabel: o.New, RLEs: toRLEs(o.RLEs)})
		case "splitsv":
			op := labels.SplitSupervoxelOp{Supervoxel: o.Target, SplitSupervoxel: o.New, RemainSupervoxel: o.Remain,
				Split: dvid.BlockRLEs{pb.BCoord: toRLEs(o.RLEs)}}
			nb, n1, n2, err = pb.SplitSupervoxel(op)
		case "splitsvs":
			m := map[uint64]labels.SVSplit{}
			for _, e := range o.SV {
				m[e[0]] = labels.SVSplit{Split: e[1], Remain: e[2]}
			}
			nb, err = pb.SplitSupervoxels(toRLEs(o.RLEs), m)
		case "down":
			var octs [8]*labels.Block
			for i, ps := range o.Octs {
				if ps == nil {
					continue
				}
				sz := b.Size
				if octs[i], err = labels.MakeBlock(blk.ToBytes(blk.Expand(int(sz[0]), int(sz[1]), int(sz[2]), ps)), sz); err != nil {
					break
				}
			}
			if err == nil {
				tmp := *b // Downres rewrites its receiver
				if err = tmp.Downres(octs); err == nil {
					nb = &tmp
				}
			}
		}
		if err != nil {
			cls = "err"
			return
		}
		cls = "ok"
	})
	if p {
		return "panic", nil, 0, 0
	}
	return
}

func main() {
	o := lib.ParseOpts()
	rng := lib.NewRand(o.Seed)
	run := lib.NewRun("C10", o)
	run.Header("From Coq Require Import String.", "From DV Require Import Base.Prelude Model.Block Model.BlockRun Model.BlockOps Model.BlockOpsRun.", "Local Open Scope N_scope.")

	addChain := func(c jcase) {
		arr := blk.Expand(8*c.G[0], 8*c.G[1], 8*c.G[2], c.Paints)
		var b *labels.Block
		cls0 := "ok"
		p, _ := lib.Recover(func() {
			var err error
			if tbl := blk.SparseTable(arr, c.G); c.Sparse && len(tbl) >= 2 {
				// a client-made block: the format allows sub-blocks with no labels (all voxels 0)
				nb := new(labels.Block)
				if err = nb.UnmarshalBinary(blk.SparseEncode(arr, c.G, tbl)); err == nil {
					b = nb
					run.Count("chain:start:sparse-block")
				}
			} else {
				b, err = labels.MakeBlock(blk.ToBytes(arr), dvid.Point3d{int32(8 * c.G[0]), int32(8 * c.G[1]), int32(8 * c.G[2])})
			}
			if err != nil {
				cls0 = "err"
			}
		})
		if p {
			cls0 = "panic"
		}
		var d0 []byte
		var steps []string
		kinds := []string{}
		if cls0 == "ok" {
			d, _ := b.MarshalBinary()
			d0 = append([]byte{}, d...)
			cur := b
			for _, op := range c.Ops {
				cls, nb, n1, n2 := runOp(cur, c.BC, op)
				kinds = append(kinds, op.T)
				var bytesTerm string
				var dec uint64
				switch {
				case cls != "ok":
					bytesTerm = lib.CoqRes(cls, "")
				case nb == nil:
					bytesTerm = "(Ok None)"
				default:
					nd, _ := nb.MarshalBinary()
					bytesTerm = "(Ok (Some " + hx(nd) + "))"
					pp, _ := lib.Recover(func() {
						out, _ := nb.MakeLabelVolume()
						dec = blk.DigestBytes(out)
					})
					if pp {
						bytesTerm = "Panic"
					}
				}
				steps = append(steps, fmt.Sprintf("{| s_bytes := %s; s_n1 := %d; s_n2 := %d; s_dec := %d |}", bytesTerm, n1, n2, dec))
				run.Count("op:" + op.T + ":" + cls)
				if cls != "ok" {
					break
				}
				if nb != nil {
					cur = nb
				} else {
					run.Count("op:" + op.T + ":nil-block")
				}
			}
		}
		ops := make([]string, len(steps))
		for i := range steps {
			ops[i] = coqOp(c.Ops[i])
		}
		term := fmt.Sprintf("(CChain %d %d %d %s %s %s %s %s [%s] [%s])", c.G[0], c.G[1], c.G[2], blk.CoqPaints(c.Paints),
			lib.CoqZ(int64(c.BC[0])), lib.CoqZ(int64(c.BC[1])), lib.CoqZ(int64(c.BC[2])), lib.CoqRes(cls0, hx(d0)),
			strings.Join(ops, "; "), strings.Join(steps, "; "))
		run.Count(fmt.Sprintf("chain:len:%d", len(steps)))
		run.Add("chain", term, c, fmt.Sprintf("chain/%v/%v/%s/%x", c.G, c.BC, strings.Join(kinds, ">"), blk.Digest(arr)))
	}

	if o.Replay != "" {
		var c jcase
		if err := lib.LoadReplay(o.Replay, &c); err != nil {
			fmt.Fprintln(os.Stderr, err)
			os.Exit(2)
		}
		addChain(c)
		run.Finish("c10case", "replay", tail)
		return
	}

	g2 := [3]int{2, 2, 2}
	full := [6]int{0, 0, 0, 16, 16, 16}

	// ---- corpus ----
	// the recorded defect: labels 1,2,3 in one sub-block; merge 2->1, then replace 1 by 9 (true count 384)
	three := []blk.Paint{blk.Fill(1), blk.Cyc([6]int{0, 0, 0, 8, 8, 8}, 1, 1, 3)}
	addChain(jcase{Kind: "chain", G: g2, Paints: three, Ops: []jop{
		{T: "merge", Target: 1, Merged: []uint64{2}}, {T: "replace", Target: 1, New: 9}}})
	// getNumVoxels does not advance the bit position over a multi-label sub-block lacking the label
	addChain(jcase{Kind: "chain", G: g2, Paints: []blk.Paint{blk.Fill(4), blk.Cyc([6]int{0, 0, 0, 8, 8, 8}, 5, 1, 2), blk.Cyc([6]int{8, 0, 0, 16, 8, 8}, 1, 1, 3)},
		Ops: []jop{{T: "replace", Target: 1, New: 9}}})
	// merge with the target absent (a merged slot is re-used), everything merged, nothing merged
	addChain(jcase{Kind: "chain", G: g2, Paints: three, Ops: []jop{
		{T: "merge", Target: 50, Merged: []uint64{2, 3}}, {T: "merge", Target: 60, Merged: []uint64{1, 50}}, {T: "merge", Target: 7, Merged: []uint64{99}},
		{T: "replace", Target: 60, New: 0}, {T: "replacemany", Map: [][2]uint64{{0, 5}, {5, 6}}}}})
	// the merged label owns the first and the last entry of SBIndices
	addChain(jcase{Kind: "chain", G: g2, Paints: []blk.Paint{blk.Fill(2), blk.Box([6]int{1, 0, 0, 16, 16, 16}, 1), blk.Box([6]int{15, 15, 15, 16, 16, 16}, 2), blk.Box([6]int{14, 15, 15, 15, 16, 16}, 3)},
		Ops: []jop{{T: "merge", Target: 1, Merged: []uint64{2}}, {T: "replace", Target: 1, New: 6}}})
	// replace onto a label that is already present (two slots hold it), then replace that label;
	// replace label 0 after a merge (the merged slot is a dead 0 ahead of the real label 0);
	// replace the merged target after a merge with the target absent
	addChain(jcase{Kind: "chain", G: g2, Paints: []blk.Paint{blk.Fill(0), blk.Cyc([6]int{0, 0, 0, 16, 16, 8}, 1, 1, 3)},
		Ops: []jop{{T: "replace", Target: 1, New: 2}, {T: "replace", Target: 2, New: 7}, {T: "replace", Target: 7, New: 3}, {T: "replace", Target: 3, New: 0}, {T: "replace", Target: 0, New: 4}}})
	addChain(jcase{Kind: "chain", G: g2, Paints: []blk.Paint{blk.Fill(0), blk.Cyc([6]int{0, 0, 0, 16, 8, 16}, 1, 1, 3)},
		Ops: []jop{{T: "merge", Target: 3, Merged: []uint64{1}}, {T: "replace", Target: 0, New: 9}, {T: "replace", Target: 3, New: 2}, {T: "replace", Target: 2, New: 5}}})
	addChain(jcase{Kind: "chain", G: g2, Paints: []blk.Paint{blk.Fill(4), blk.Cyc([6]int{8, 0, 0, 16, 16, 16}, 1, 1, 3)},
		Ops: []jop{{T: "merge", Target: 60, Merged: []uint64{1, 2}}, {T: "replace", Target: 60, New: 3}, {T: "replace", Target: 3, New: 4}, {T: "replace", Target: 4, New: 0}, {T: "replace", Target: 0, New: 8}}})
	// an odd number of sub-blocks (24^3): SBIndices is a detached copy there, so the in-place edit of
	// MergeLabels must be written back before the block is serialised or edited again
	addChain(jcase{Kind: "chain", G: [3]int{3, 3, 3}, Paints: []blk.Paint{blk.Hash([6]int{0, 0, 0, 24, 24, 24}, 4, 7, []uint64{1, 2, 3, 4})},
		Ops: []jop{{T: "merge", Target: 1, Merged: []uint64{2}}, {T: "merge", Target: 50, Merged: []uint64{3}}, {T: "replace", Target: 1, New: 9},
			{T: "replacemany", Map: [][2]uint64{{9, 4}, {4, 9}}}, {T: "split", Target: 4, New: 77, RLEs: [][4]int32{{0, 0, 0, 24}, {5, 3, 20, 10}}}}})
	// Downres onto a non-empty receiver that is the output of earlier operations: nil octants, a solid
	// label-0 octant, a solid non-zero octant and a multi-label octant
	{
		octs := make([][]blk.Paint, 8)
		octs[1] = []blk.Paint{blk.Fill(0)}
		octs[2] = []blk.Paint{blk.Fill(6)}
		octs[7] = []blk.Paint{blk.Hash(full, 2, 11, []uint64{0, 1, 8})}
		addChain(jcase{Kind: "chain", G: g2, Paints: []blk.Paint{blk.Hash(full, 2, 5, []uint64{1, 2, 3})},
			Ops: []jop{{T: "merge", Target: 1, Merged: []uint64{2}}, {T: "down", Octs: octs}, {T: "replace", Target: 1, New: 4}}})
	}
	// Downres votes that TIE: 2x2x2 cells split 4/4 between two non-zero labels with the larger label at the
	// cell's first voxel (x, y and z boundaries at odd coordinates), the smaller first, 4 labelled + 4 zero,
	// 3/3/2 and 2/2/2/2 mixtures in ascending and descending order; octants 0, 3 and 7 given, the rest nil
	{
		dsc := ^uint64(0) // stride -1
		octs := make([][]blk.Paint, 8)
		octs[0] = []blk.Paint{blk.Fill(5), blk.Box([6]int{0, 0, 0, 1, 16, 16}, 9), blk.Box([6]int{3, 0, 0, 4, 16, 16}, 2),
			blk.Box([6]int{4, 0, 0, 16, 1, 16}, 7), blk.Box([6]int{4, 2, 0, 16, 3, 16}, 0), blk.Box([6]int{8, 4, 1, 16, 16, 2}, 3), blk.Box([6]int{8, 4, 2, 16, 16, 3}, 8)}
		octs[3] = []blk.Paint{blk.Cyc(full, 10, 1, 3), blk.Cyc([6]int{0, 8, 0, 16, 16, 16}, 12, dsc, 3), blk.Cyc([6]int{0, 0, 8, 16, 16, 16}, 20, 1, 2)}
		octs[7] = []blk.Paint{blk.Cyc(full, 33, dsc, 2), blk.Cyc([6]int{0, 8, 0, 16, 16, 16}, 40, dsc, 4), blk.Cyc([6]int{0, 0, 8, 16, 16, 16}, 1, 1, 5)}
		addChain(jcase{Kind: "chain", G: g2, Paints: []blk.Paint{blk.Hash(full, 2, 5, []uint64{1, 2, 3})},
			Ops: []jop{{T: "down", Octs: octs}, {T: "replace", Target: 9, New: 4}}})
		all := make([][]blk.Paint, 8)
		for q := range all {
			all[q] = []blk.Paint{blk.Cyc(full, uint64(50+q), dsc, uint64(2+q%3)), blk.Box([6]int{q, 0, 0, q + 1, 16, 16}, uint64(90-q))}
		}
		addChain(jcase{Kind: "chain", G: g2, Paints: []blk.Paint{blk.Fill(4)}, Ops: []jop{{T: "down", Octs: all}}})
	}
	// SplitSupervoxels: three affected supervoxels, the runs reach only one of them (and none of them)
	addChain(jcase{Kind: "chain", G: g2, Paints: []blk.Paint{blk.Fill(1), blk.Box([6]int{0, 0, 8, 16, 16, 12}, 2), blk.Box([6]int{0, 0, 12, 16, 16, 16}, 3)},
		Ops: []jop{{T: "splitsvs", RLEs: [][4]int32{{0, 0, 0, 16}, {2, 5, 1, 9}}, SV: [][3]uint64{{1, 11, 21}, {2, 12, 22}, {3, 13, 23}}},
			{T: "splitsvs", RLEs: nil, SV: [][3]uint64{{21, 31, 41}, {22, 32, 42}}}}})
	// every entry of the label table takes part in the merge (target present / absent), on an encoder-made
	// block and on a client-made block with uninitialised sub-blocks (their voxels are 0 and stay 0)
	for _, sparse := range []bool{false, true} {
		ps := []blk.Paint{blk.Fill(0), blk.Cyc([6]int{0, 0, 0, 8, 16, 16}, 1, 1, 3)}
		addChain(jcase{Kind: "chain", G: g2, Paints: ps, Sparse: sparse, Ops: []jop{{T: "merge", Target: 1, Merged: []uint64{2, 3}}, {T: "replace", Target: 1, New: 5}}})
		addChain(jcase{Kind: "chain", G: g2, Paints: ps, Sparse: sparse, Ops: []jop{{T: "merge", Target: 9, Merged: []uint64{1, 2, 3}}, {T: "replace", Target: 0, New: 5}}})
	}
	// solid block through every table-level operation
	addChain(jcase{Kind: "chain", G: g2, Paints: []blk.Paint{blk.Fill(4)}, Ops: []jop{
		{T: "replace", Target: 4, New: 8}, {T: "merge", Target: 2, Merged: []uint64{8}}, {T: "replacemany", Map: [][2]uint64{{2, 3}}},
		{T: "split", Target: 3, New: 11, RLEs: [][4]int32{{0, 0, 0, 16}, {3, 1, 0, 5}}}, {T: "split", Target: 77, New: 1, RLEs: [][4]int32{{0, 0, 0, 4}}}}})

	// non-cubic sizes shared with the C14 driver: X<Y, X>Z, all different
	// (a block has at least 2 sub-blocks per axis; the quick tier takes the smallest such shapes)
	ncSizes := blk.NonCubic(o.Thorough())
	// Downres onto a non-cubic receiver (octant offsets differ per axis)
	for k, g := range [][3]int{ncSizes[int(o.Seed)%3], ncSizes[3+int(o.Seed)%2]} {
		fg := [6]int{0, 0, 0, 8 * g[0], 8 * g[1], 8 * g[2]}
		octs := make([][]blk.Paint, 8)
		octs[(3+k)%8] = []blk.Paint{blk.Hash(fg, 2, 21, []uint64{0, 1, 8})}
		ops := []jop{{T: "down", Octs: octs}}
		if k == 0 {
			octs[6] = []blk.Paint{blk.Fill(6)}
			ops = append(ops, jop{T: "merge", Target: 1, Merged: []uint64{8}})
		}
		addChain(jcase{Kind: "chain", G: g, Paints: []blk.Paint{blk.Hash(fg, 4, 5, []uint64{1, 2, 3})}, Ops: ops})
	}
	// SplitSupervoxel whose split id (and remain id) already label voxels of the block; also for a block
	// outside the split (no runs)
	addChain(jcase{Kind: "chain", G: g2, Paints: []blk.Paint{blk.Fill(1), blk.Box([6]int{0, 0, 8, 16, 16, 12}, 2), blk.Box([6]int{0, 0, 12, 16, 16, 16}, 3)},
		Ops: []jop{{T: "splitsv", Target: 1, New: 2, Remain: 3, RLEs: [][4]int32{{0, 0, 0, 16}, {2, 5, 1, 9}}},
			{T: "splitsv", Target: 2, New: 3, Remain: 3, RLEs: nil}, {T: "split", Target: 3, New: 7, RLEs: [][4]int32{{0, 0, 15, 16}}}}})
	nChains := 12
	nRand := 3 // quick tier: random chains on the three smallest non-cubic shapes
	if o.Thorough() {
		nChains = 150
		nRand = 8
	}
	if o.N > 0 {
		nChains = o.N
	}
	bcs := [][3]int32{{0, 0, 0}, {1, 2, 3}, {-1, -2, 0}, {0, 0, -1}}
	for i := 0; i < nChains; i++ {
		bc := bcs[rng.Intn(len(bcs))]
		// block size: mostly 16^3, every fifth chain a non-cubic block of the sweep shared with C14
		g := g2
		if i%5 == 3 {
			g = ncSizes[(i/5+int(o.Seed))%nRand]
		}
		dx, dy, dz := int32(8*g[0]), int32(8*g[1]), int32(8*g[2])
		full := [6]int{0, 0, 0, int(dx), int(dy), int(dz)}
		row := func(bc [3]int32, x0, y, z, n int32) [4]int32 {
			return [4]int32{bc[0]*dx + x0, bc[1]*dy + y, bc[2]*dz + z, n}
		}
		npal := 2 + rng.Intn(6)
		pal := make([]uint64, npal)
		for j := range pal {
			pal[j] = uint64(j + 1)
			if rng.Chance(0.1) {
				pal[j] = 0
			}
			if rng.Chance(0.1) {
				pal[j] = ^uint64(0) - uint64(j)
			}
		}
		ps := []blk.Paint{blk.Hash(full, uint64(rng.Pick(1, 2, 4)), uint64(rng.Intn(1<<16)), pal)}
		if rng.Bool() {
			ps = append(ps, blk.Box([6]int{int(dx) - 8, int(dy) - 8, int(dz) - 8, int(dx), int(dy), int(dz)}, pal[rng.Intn(npal)])) // a one-label sub-block
		}
		first := blk.Expand(int(dx), int(dy), int(dz), ps)[0] // the label under the very first sub-block slot
		pickLabel := func() uint64 {
			if rng.Chance(0.15) {
				return uint64(100 + rng.Intn(5)) // absent
			}
			if rng.Chance(0.25) {
				return first
			}
			return pal[rng.Intn(npal)]
		}
		// an id for the result of a split: fresh, or (40 %) a label the block already holds, never the target
		otherID := func(target, fresh uint64) uint64 {
			if rng.Chance(0.4) {
				if l := pal[rng.Intn(npal)]; l != target {
					return l
				}
			}
			return fresh
		}
		randRLEs := func() [][4]int32 {
			n := rng.Intn(5)
			var rs [][4]int32
			switch rng.Intn(6) {
			case 0: // whole block
				for z := int32(0); z < dz; z++ {
					for y := int32(0); y < dy; y++ {
						rs = append(rs, row(bc, 0, y, z, dx))
					}
				}
				return rs
			case 1:
				return nil
			}
			for j := 0; j <= n; j++ {
				x0 := int32(rng.Intn(int(dx)))
				rs = append(rs, row(bc, x0, int32(rng.Intn(int(dy))), int32(rng.Intn(int(dz))), int32(1+rng.Intn(int(dx-x0)))))
			}
			return rs
		}
		var ops []jop
		nops := 2 + rng.Intn(4)
		var multi []uint64 // labels known to sit in more than one table slot after the ops so far
		merged := false
		for j := 0; j < nops; j++ {
			if len(multi) > 0 && rng.Chance(0.6) {
				// replace a label that occupies several slots (outputs of earlier operations)
				t := multi[rng.Intn(len(multi))]
				nl := uint64(rng.Pick(0, 9, 300+j, int(pal[rng.Intn(npal)])))
				ops = append(ops, jop{T: "replace", Target: t, New: nl})
				multi = append(multi, nl)
				continue
			}
			if merged && rng.Chance(0.4) {
				ops = append(ops, jop{T: "replace", Target: 0, New: uint64(900 + j)})
				continue
			}
			if j > 0 && rng.Chance(0.12) {
				octs := make([][]blk.Paint, 8)
				for q := range octs {
					switch rng.Intn(8) {
					case 0:
						octs[q] = []blk.Paint{blk.Fill(0)}
					case 1:
						octs[q] = []blk.Paint{blk.Fill(pal[rng.Intn(npal)])}
					case 2:
						octs[q] = []blk.Paint{blk.Hash(full, uint64(rng.Pick(1, 2)), uint64(rng.Intn(1<<16)), []uint64{0, pal[0], 31})}
					}
				}
				ops = append(ops, jop{T: "down", Octs: octs})
				continue
			}
			if rng.Chance(0.15) {
				// several supervoxels of the block are split; the runs reach only some of them
				var sv [][3]uint64
				seen := map[uint64]bool{}
				for q := 0; q < 2+rng.Intn(2); q++ {
					l := pal[rng.Intn(npal)]
					if !seen[l] {
						seen[l] = true
						sv = append(sv, [3]uint64{l, uint64(700 + 10*j + q), uint64(800 + 10*j + q)})
					}
				}
				ops = append(ops, jop{T: "splitsvs", RLEs: randRLEs(), SV: sv})
				continue
			}
			switch rng.Intn(7) {
			case 0, 1:
				m := []uint64{pickLabel()}
				if rng.Bool() {
					m = append(m, pickLabel())
				}
				t := pickLabel()
				ok := true
				for _, x := range m {
					if x == t {
						ok = false
					}
				}
				if !ok {
					t = uint64(200 + j)
				}
				ops = append(ops, jop{T: "merge", Target: t, Merged: m})
				merged = true
				multi = append(multi, t)
			case 2, 3:
				nl := uint64(rng.Pick(0, 9, 300+j, int(pal[0]), int(pal[rng.Intn(npal)])))
				ops = append(ops, jop{T: "replace", Target: pickLabel(), New: nl})
				multi = append(multi, nl) // the new label may now sit in two slots
			case 4:
				a, b := pickLabel(), pickLabel()
				mp := [][2]uint64{{a, b}}
				if a != b {
					mp = append(mp, [2]uint64{b, a}) // a swap: simultaneous, not chained
				}
				ops = append(ops, jop{T: "replacemany", Map: mp})
			case 5:
				t := pickLabel()
				ops = append(ops, jop{T: "split", Target: t, New: otherID(t, uint64(400+j)), RLEs: randRLEs()})
			default:
				if rng.Bool() {
					// split and remain ids: fresh, or labels the block already holds, or equal to each other
					t := pickLabel()
					nl := otherID(t, uint64(500+j))
					rm := otherID(t, uint64(600+j))
					if rng.Chance(0.2) {
						rm = nl
					}
					ops = append(ops, jop{T: "splitsv", Target: t, New: nl, Remain: rm, RLEs: randRLEs()})
				} else {
					a := pickLabel()
					sv := [][3]uint64{{a, otherID(a, uint64(700+j)), otherID(a, uint64(800+j))}}
					if b := pickLabel(); b != a {
						sv = append(sv, [3]uint64{b, uint64(710 + j), uint64(810 + j)})
					}
					ops = append(ops, jop{T: "splitsvs", RLEs: randRLEs(), SV: sv})
				}
			}
		}
		sparse := false
		if rng.Chance(0.25) {
			// an all-zero slab: its sub-blocks are left uninitialised in a client-made block
			slab := [6]int{0, 0, 0, int(dx), int(dy), 8}
			if dz == 8 {
				slab = [6]int{0, 0, 0, int(dx), 8, 8}
				if dy == 8 {
					slab = [6]int{0, 0, 0, 8, 8, 8}
				}
			}
			ps = append(ps, blk.Box(slab, 0))
			sparse = true
		}
		addChain(jcase{Kind: "chain", G: g, Paints: ps, BC: bc, Ops: ops, Sparse: sparse})
	}

	run.Finish("c10case",
		"chains of 2-5 operations (merge with target present/absent, replace incl. label 0 and absent labels, simultaneous replacement maps, splits under empty / whole-block / partial run lengths) on 16x16x16 blocks with 2-7 labels, one-label sub-blocks and blocks at negative coordinates; distinct by (operation kinds, block coordinate, content digest)",
		tail)
}

const tail = `
Definition spec_fail := Eval vm_compute in c10_spec_fail cases.
Definition model_mismatch := Eval vm_compute in c10_model_mismatch cases.
`
