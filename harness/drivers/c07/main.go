// Driver C07: random repo-level request sequences (about 30 % hostile arguments) against the real
// server code (in-process HTTP, badger), one fresh datastore per sequence.  After every request the
// observable repo state is read back (repos/info, repo/{uuid}/info, branch-versions, uuid:branch
// addressing), canonicalised and written as a delta; Model/RepoRun.v compares it with the model
// state (model_ok) and evaluates RepoInv + the error frame on it directly (spec_class).
package main

import (
	"encoding/json"
	"fmt"
	"os"
	"sort"
	"strconv"
	"strings"
	"time"

	"github.com/janelia-flyem/dvid/datastore"
	"github.com/janelia-flyem/dvid/dvid"
	"verif/harness/dv"
	"verif/harness/lib"
)

// ---------- symbolic strings: requests are stored so that a replay works with other random UUIDs

// SX: "t" = UUID of the node with version id V; "p" = its first N characters; "l" = literal S;
// "cat" = A followed by B.
type SX struct {
	K string `json:"k"`
	V int    `json:"v,omitempty"`
	N int    `json:"n,omitempty"`
	S string `json:"s,omitempty"`
	A *SX    `json:"a,omitempty"`
	B *SX    `json:"b,omitempty"`
}

func T(v int) SX          { return SX{K: "t", V: v} }
func P(v, n int) SX       { return SX{K: "p", V: v, N: n} }
func L(s string) SX       { return SX{K: "l", S: s} }
func Cat(a, b SX) SX      { return SX{K: "cat", A: &a, B: &b} }
func (x SX) isZero() bool { return x.K == "" }

type Req struct {
	Kind    string   `json:"kind"` // newrepo commit newversion branch tag merge resolve note log repolog newdata rename deldata delrepo putkey
	U       SX       `json:"u"`
	Root    *SX      `json:"root,omitempty"`
	Pass    string   `json:"pass,omitempty"`
	Assign  SX       `json:"assign"`
	Branch  SX       `json:"branch"`
	Tag     SX       `json:"tag"`
	MType   string   `json:"mtype,omitempty"`
	Parents []SX     `json:"parents,omitempty"`
	Data    []string `json:"data,omitempty"`
	Type    string   `json:"type,omitempty"`
	Name    string   `json:"name,omitempty"`
	New     string   `json:"new,omitempty"`
	Key     string   `json:"key,omitempty"`
}

type jcase struct {
	Kind  string `json:"kind"`
	Steps []Req  `json:"steps"`
}

// ---------- snapshot of the implementation's observable state

type nodeJ struct {
	Branch    string
	UUID      string
	VersionID int
	Locked    bool
	Parents   []int
	Children  []int
}
type repoJ struct {
	Root          string
	Alias         string
	Description   string
	DataInstances map[string]json.RawMessage
	DAG           struct {
		Root  string
		Nodes map[string]nodeJ
	}
}

type Node struct {
	Repo string
	nodeJ
}

type Snap struct {
	Repos map[string]repoJ
	Nodes []Node // all nodes of all repos, by version id
	Facts map[string]string
}

type world struct {
	uuidOf map[int]string  // version id -> uuid, every node ever seen in this sequence
	known  map[string]bool // every uuid string ever seen as a node
	ctr    int
	rng    *lib.Rand
	canon  bool // enumeration: generated uuids are written as (cu <version id>), see Model/RepoRun.v
}

func safeInURL(s string) bool {
	if s == "" {
		return false
	}
	for _, c := range s {
		if !(c >= 'a' && c <= 'z' || c >= 'A' && c <= 'Z' || c >= '0' && c <= '9' || c == ':' || c == '~' || c == '-' || c == '_' || c == '.') {
			return false
		}
	}
	return true
}

func coqStr(s string) string { return "\"" + strings.ReplaceAll(s, "\"", "\"\"") + "\"" }

func nlist(xs []int) string {
	ss := make([]string, len(xs))
	for i, x := range xs {
		ss[i] = strconv.Itoa(x)
	}
	return "[" + strings.Join(ss, ";") + "]"
}

// name of a string in the cases file: a let-bound t<v> when it is the UUID of a seen node
func (w *world) nameOf(s string) string {
	best := -1
	for v, u := range w.uuidOf {
		if u == s && len(s) >= 8 && (best < 0 || v < best) {
			best = v
		}
	}
	if best >= 0 {
		if w.canon {
			if len(s) == 32 && strings.Trim(s, hexd) == "" && best < 256 {
				return "(cu " + strconv.Itoa(best) + "%nat)"
			}
			return coqStr(s)
		}
		return "t" + strconv.Itoa(best)
	}
	return coqStr(s)
}

func isName(n string) bool { return strings.HasPrefix(n, "t") || strings.HasPrefix(n, "(cu ") }

func (w *world) snapshot() *Snap {
	sn := &Snap{Repos: map[string]repoJ{}, Facts: map[string]string{}}
	r := dv.Get("/api/repos/info")
	if r.Status != 200 {
		panic(fmt.Sprintf("repos/info: %d %s", r.Status, r.Body))
	}
	if err := json.Unmarshal(r.Body, &sn.Repos); err != nil {
		panic(fmt.Sprintf("repos/info unparsable: %v", err))
	}
	keys := make([]string, 0, len(sn.Repos))
	for k := range sn.Repos {
		keys = append(keys, k)
	}
	sort.Strings(keys)
	for _, k := range keys {
		rp := sn.Repos[k]
		for _, n := range rp.DAG.Nodes {
			sn.Nodes = append(sn.Nodes, Node{Repo: k, nodeJ: n})
			if _, seen := w.uuidOf[n.VersionID]; !seen {
				w.uuidOf[n.VersionID] = n.UUID
			}
			w.known[n.UUID] = true
		}
	}
	sort.Slice(sn.Nodes, func(i, j int) bool {
		if sn.Nodes[i].VersionID != sn.Nodes[j].VersionID {
			return sn.Nodes[i].VersionID < sn.Nodes[j].VersionID
		}
		return sn.Nodes[i].Repo < sn.Nodes[j].Repo
	})
	for _, k := range keys {
		rp := sn.Repos[k]
		var data []string
		for d := range rp.DataInstances {
			data = append(data, coqStr(d))
		}
		sort.Strings(data)
		sn.Facts["R|"+k] = fmt.Sprintf("FRepo %s %s %s [%s]", w.nameOf(k), w.nameOf(rp.Root), w.nameOf(rp.DAG.Root), strings.Join(data, ";"))
	}
	for _, n := range sn.Nodes {
		sn.Facts["N|"+n.Repo+"|"+n.UUID] = fmt.Sprintf("FNode %s %s %d %s %s %s %s", w.nameOf(n.Repo), w.nameOf(n.UUID), n.VersionID,
			coqStr(n.Branch), lib.CoqBool(n.Locked), nlist(n.Parents), nlist(n.Children))
	}
	// which repo each known uuid resolves to
	var us []string
	for x := range w.known {
		us = append(us, x)
	}
	sort.Strings(us)
	for _, x := range us {
		if !safeInURL(x) || (strings.HasPrefix(x, ":") && len(sn.Repos) == 0) {
			continue
		}
		rr := dv.Get("/api/repo/" + x + "/info")
		val := "None"
		if rr.Status == 200 {
			var one repoJ
			if json.Unmarshal(rr.Body, &one) == nil {
				val = "(Some " + w.nameOf(one.Root) + ")"
			}
		}
		sn.Facts["O|"+x] = fmt.Sprintf("FRepoOf %s %s", w.nameOf(x), val)
	}
	// the identifier maps themselves
	for _, x := range us {
		val := "None"
		if v, err := datastore.VersionFromUUID(dvid.UUID(x)); err == nil {
			val = fmt.Sprintf("(Some %d)", v)
		}
		sn.Facts["U|"+x] = fmt.Sprintf("FU2V %s %s", w.nameOf(x), val)
	}
	// m.repos itself, the node state by exact uuid, and -- for uuids that no longer name a node
	// (their repo was deleted) -- resolution of a prefix: all must have forgotten them
	live := map[string]bool{}
	for _, n := range sn.Nodes {
		live[n.UUID] = true
	}
	for _, x := range us {
		val := "None"
		if root, err := datastore.GetRepoRoot(dvid.UUID(x)); err == nil {
			val = "(Some " + w.nameOf(string(root)) + ")"
		}
		sn.Facts["P|"+x] = fmt.Sprintf("FRepos %s %s", w.nameOf(x), val)
		val = "None"
		if lk, err := datastore.LockedUUID(dvid.UUID(x)); err == nil {
			val = "(Some " + lib.CoqBool(lk) + ")"
		}
		sn.Facts["L|"+x] = fmt.Sprintf("FLocked %s %s", w.nameOf(x), val)
		if !live[x] && len(x) >= 12 && !strings.ContainsAny(x, ":~") && len(sn.Repos) > 0 {
			q := x[:10]
			val = "None"
			if y, _, err := datastore.MatchingUUID(q); err == nil {
				val = "(Some " + w.nameOf(string(y)) + ")"
			}
			name := w.nameOf(x)
			qc := coqStr(q)
			if isName(name) {
				qc = "(pre 10%nat " + name + ")"
			}
			sn.Facts["A|"+q] = fmt.Sprintf("FAddr %s %s", qc, val)
		}
	}
	maxV := 0
	for v := range w.uuidOf {
		if v > maxV {
			maxV = v
		}
	}
	for v := 1; v <= maxV+1; v++ {
		val := "None"
		if x, err := datastore.UUIDFromVersion(dvid.VersionID(v)); err == nil {
			val = "(Some " + w.nameOf(string(x)) + ")"
		}
		sn.Facts["V|"+strconv.Itoa(v)] = fmt.Sprintf("FV2U %d %s", v, val)
	}
	// branch heads and branch ancestries
	for _, k := range keys {
		if !safeInURL(k) || strings.Contains(k, ":") {
			continue
		}
		names := map[string]bool{"master": true}
		for _, n := range sn.Repos[k].DAG.Nodes {
			if n.Branch != "" {
				names[n.Branch] = true
			}
		}
		var ns []string
		for b := range names {
			ns = append(ns, b)
		}
		sort.Strings(ns)
		for _, b := range ns {
			if strings.ContainsAny(b, ":~") {
				continue // not addressable as uuid:branch
			}
			q := k + ":" + b
			val := "None"
			if u, _, err := datastore.MatchingUUID(q); err == nil {
				val = "(Some " + w.nameOf(string(u)) + ")"
			}
			sn.Facts["A|"+q] = fmt.Sprintf("FAddr (cat %s %s) %s", w.nameOf(k), coqStr(":"+b), val)
			if safeInURL(b) && !strings.Contains(b, ":") {
				rr := dv.Get("/api/repo/" + k + "/branch-versions/" + b)
				val = "None"
				if rr.Status == 200 {
					var l []string
					if json.Unmarshal(rr.Body, &l) == nil {
						ss := make([]string, len(l))
						for i, x := range l {
							ss[i] = w.nameOf(x)
						}
						val = "(Some [" + strings.Join(ss, ";") + "])"
					}
				}
				sn.Facts["B|"+k+"|"+b] = fmt.Sprintf("FBV %s %s %s", w.nameOf(k), coqStr(b), val)
			}
		}
	}
	return sn
}

// a fact with the same key, used in a DDel
func delFact(w *world, key string) string {
	parts := strings.Split(key, "|")
	switch parts[0] {
	case "R":
		return fmt.Sprintf("FRepo %s \"\" \"\" []", w.nameOf(parts[1]))
	case "N":
		return fmt.Sprintf("FNode %s %s 0 \"\" false [] []", w.nameOf(parts[1]), w.nameOf(parts[2]))
	case "O":
		return fmt.Sprintf("FRepoOf %s None", w.nameOf(parts[1]))
	case "P":
		return fmt.Sprintf("FRepos %s None", w.nameOf(parts[1]))
	case "L":
		return fmt.Sprintf("FLocked %s None", w.nameOf(parts[1]))
	case "U":
		return fmt.Sprintf("FU2V %s None", w.nameOf(parts[1]))
	case "V":
		return fmt.Sprintf("FV2U %s None", parts[1])
	case "A":
		i := strings.Index(parts[1], ":")
		if i < 0 {
			for x := range w.known {
				if len(x) >= 12 && x[:10] == parts[1] && isName(w.nameOf(x)) {
					return fmt.Sprintf("FAddr (pre 10%%nat %s) None", w.nameOf(x))
				}
			}
			return fmt.Sprintf("FAddr %s None", coqStr(parts[1]))
		}
		return fmt.Sprintf("FAddr (cat %s %s) None", w.nameOf(parts[1][:i]), coqStr(parts[1][i:]))
	default:
		return fmt.Sprintf("FBV %s %s None", w.nameOf(parts[1]), coqStr(parts[2]))
	}
}

func deltas(w *world, a, b *Snap) []string {
	var ks []string
	for k := range b.Facts {
		ks = append(ks, k)
	}
	for k := range a.Facts {
		if _, ok := b.Facts[k]; !ok {
			ks = append(ks, k)
		}
	}
	sort.Strings(ks)
	var out []string
	for _, k := range ks {
		nv, inB := b.Facts[k]
		ov, inA := a.Facts[k]
		switch {
		case inB && (!inA || ov != nv):
			out = append(out, "DSet ("+nv+")")
		case !inB:
			out = append(out, "DDel ("+delFact(w, k)+")")
		}
	}
	return out
}

// ---------- concretising and printing symbolic strings

func (w *world) str(x SX) string {
	switch x.K {
	case "t":
		if u, ok := w.uuidOf[x.V]; ok {
			return u
		}
		return "0missing" + strconv.Itoa(x.V)
	case "p":
		u, ok := w.uuidOf[x.V]
		if !ok {
			return "0missing" + strconv.Itoa(x.V)
		}
		if x.N < len(u) {
			return u[:x.N]
		}
		return u
	case "l":
		return x.S
	case "cat":
		return w.str(*x.A) + w.str(*x.B)
	}
	return ""
}

func (w *world) coq(x SX) string {
	switch x.K {
	case "t":
		if _, ok := w.uuidOf[x.V]; ok {
			return w.nameOf(w.uuidOf[x.V])
		}
	case "p":
		if u, ok := w.uuidOf[x.V]; ok {
			n := w.nameOf(u)
			if isName(n) {
				return fmt.Sprintf("(pre %d%%nat %s)", x.N, n)
			}
		}
	case "cat":
		return "(cat " + w.coq(*x.A) + " " + w.coq(*x.B) + ")"
	}
	return coqStr(w.str(x))
}

func (w *world) uref(x SX) string { return "(u " + w.coq(x) + ")" }

// ---------- executing one request

type result struct {
	class string // ok | fail | crash
	body  string
}

func classOf(r dv.Resp) result {
	// an answer of the harness, not of the server (dv.Do could not build the request): never take
	// it for a refusal by DVID
	if r.Status == 400 && strings.HasPrefix(string(r.Body), "parse \"") && strings.Contains(string(r.Body), "net/url:") {
		fmt.Fprintf(os.Stderr, "c07: request was not sent: %s\n", r.Body)
		os.Exit(3)
	}
	switch r.Class() {
	case "ok":
		return result{"ok", string(r.Body)}
	case "panic":
		return result{"crash", string(r.Body)}
	default:
		return result{"fail", string(r.Body)}
	}
}

func errRes(err error) result {
	if err != nil {
		return result{"fail", err.Error()}
	}
	return result{"ok", ""}
}

// urlRef writes a version reference the way an HTTP client must put it into a URL path: the bytes
// that cannot stand in a URL (control characters, DEL) or that would end or re-interpret the path
// ('%', '?', '#') are percent-encoded, so that the router sees exactly the reference meant (it
// matches on the decoded path).  Without this, net/http refuses to build the request and the
// server is never asked.
func urlRef(s string) string {
	var b strings.Builder
	for i := 0; i < len(s); i++ {
		c := s[i]
		if c < 0x20 || c == 0x7f || c == '%' || c == '?' || c == '#' {
			fmt.Fprintf(&b, "%%%02X", c)
		} else {
			b.WriteByte(c)
		}
	}
	return b.String()
}

func (w *world) exec(rq Req, sn *Snap) result {
	us := w.str(rq.U)
	up := urlRef(us) // the same reference as a client has to write it in a URL path
	switch rq.Kind {
	case "newrepo":
		m := map[string]string{"alias": "a", "description": "d"}
		if rq.Pass != "" {
			m["passcode"] = rq.Pass
		}
		if rq.Root != nil {
			m["root"] = w.str(*rq.Root)
		}
		return classOf(dv.PostJSON("/api/repos", m))
	case "commit":
		return classOf(dv.PostJSON("/api/node/"+up+"/commit", map[string]interface{}{"note": "c"}))
	case "newversion":
		return classOf(dv.PostJSON("/api/node/"+up+"/newversion", map[string]string{"note": "v", "uuid": w.str(rq.Assign)}))
	case "branch":
		return classOf(dv.PostJSON("/api/node/"+up+"/branch", map[string]string{"note": "b", "branch": w.str(rq.Branch), "uuid": w.str(rq.Assign)}))
	case "tag":
		return classOf(dv.PostJSON("/api/node/"+up+"/tag", map[string]string{"note": "t", "tag": w.str(rq.Tag)}))
	case "merge":
		ps := make([]string, len(rq.Parents))
		for i, p := range rq.Parents {
			ps[i] = w.str(p)
		}
		return classOf(dv.PostJSON("/api/repo/"+up+"/merge", map[string]interface{}{"mergeType": rq.MType, "note": "m", "parents": ps}))
	case "resolve":
		ps := make([]string, len(rq.Parents))
		for i, p := range rq.Parents {
			ps[i] = w.str(p)
		}
		data := rq.Data
		if data == nil {
			data = []string{}
		}
		return classOf(dv.PostJSON("/api/repo/"+up+"/resolve", map[string]interface{}{"data": data, "note": "r", "parents": ps}))
	case "note":
		return classOf(dv.PostJSON("/api/node/"+up+"/note", map[string]string{"note": "n"}))
	case "log":
		return classOf(dv.PostJSON("/api/node/"+up+"/log", map[string][]string{"log": {"l"}}))
	case "repolog":
		return classOf(dv.PostJSON("/api/repo/"+up+"/log", map[string][]string{"log": {"l"}}))
	case "newdata":
		return classOf(dv.PostJSON("/api/repo/"+up+"/instance", map[string]string{"typename": rq.Type, "dataname": rq.Name}))
	case "rename":
		// server/rpc.go "repo <uuid> rename <old> <new> <passcode>"
		uuid, _, err := datastore.MatchingUUID(us)
		if err != nil {
			return errRes(err)
		}
		if _, err = datastore.GetDataByUUIDName(uuid, dvid.InstanceName(rq.Name)); err != nil {
			return errRes(err)
		}
		return errRes(datastore.RenameData(uuid, dvid.InstanceName(rq.Name), dvid.InstanceName(rq.New), rq.Pass))
	case "deldata":
		// server/rpc.go "repo <uuid> delete <name> <passcode>"
		uuid, _, err := datastore.MatchingUUID(us)
		if err != nil {
			return errRes(err)
		}
		if err = datastore.DeleteDataByDataUUID(dvid.UUID(rq.Name), rq.Pass); err != nil {
			err = datastore.DeleteDataByName(uuid, dvid.InstanceName(rq.Name), rq.Pass)
		}
		if err == nil {
			// the instance is removed from the repo by a goroutine: wait for it
			for i := 0; i < 400; i++ {
				gone := true
				var m map[string]repoJ
				json.Unmarshal(dv.Get("/api/repos/info").Body, &m)
				for _, rp := range m {
					if _, ok := rp.DataInstances[rq.Name]; ok {
						for _, n := range rp.DAG.Nodes {
							if n.UUID == string(uuid) {
								gone = false
							}
						}
					}
				}
				if gone {
					break
				}
				time.Sleep(5 * time.Millisecond)
			}
		}
		return errRes(err)
	case "delrepo":
		// server/rpc.go "repos delete <uuid> <passcode>"
		uuid, _, err := datastore.MatchingUUID(us)
		if err != nil {
			return errRes(err)
		}
		return errRes(datastore.DeleteRepo(uuid, rq.Pass))
	case "repoinfo":
		// POST /api/repo/<uuid>/info -> datastore.SetRepoAlias / SetRepoDescription
		res := classOf(dv.PostJSON("/api/repo/"+up+"/info", map[string]string{"alias": rq.Name, "description": rq.New}))
		if res.class == "ok" {
			// what was set is what repos/info shows for the repo the reference names
			if uuid, _, err := datastore.MatchingUUID(us); err == nil {
				a, _ := datastore.GetRepoAlias(uuid)
				d, _ := datastore.GetRepoDescription(uuid)
				if a != rq.Name || d != rq.New {
					fmt.Fprintf(os.Stderr, "c07: POST repo/%s/info answered 200 but alias/description are %q/%q, sent %q/%q\n", us, a, d, rq.Name, rq.New)
					os.Exit(3)
				}
			}
		}
		return res
	case "hidebranch":
		// server/rpc.go "repo <uuid> hide-branch <branch-name>" (the rpc reply hides the error: it is only logged)
		uuid, _, err := datastore.MatchingUUID(us)
		if err != nil {
			return errRes(err)
		}
		return errRes(datastore.HideBranch(uuid, w.str(rq.Branch)))
	case "makemaster":
		// server/rpc.go "repo <uuid> make-master <old-master-branch-name>"
		uuid, _, err := datastore.MatchingUUID(us)
		if err != nil {
			return errRes(err)
		}
		return errRes(datastore.MakeMaster(uuid, w.str(rq.Branch)))
	case "restart":
		// auxiliary: close and reopen the datastore (metadata is reloaded from the store); not a
		// request: whatever it changes shows up against the model at the next request
		datastore.CloseReopenTest()
		return result{"aux", ""}
	case "putkey":
		// auxiliary: key-value content so that resolve meets real conflicts; not a repo-level request
		dv.Post("/api/node/"+up+"/"+rq.Name+"/key/"+rq.Key, []byte("v"+us))
		return result{"aux", ""}
	}
	panic("unknown request kind " + rq.Kind)
}

// would executing this request call MatchingUUID on a string that starts with ':' while no repo
// exists?  (getBranchVersion then dereferences a nil repo while holding branchMutex: a panic that
// leaves the server deadlocked; reported in the notes, kept out of the runs)
func (w *world) unsafe(rq Req, sn *Snap) bool {
	if len(sn.Repos) > 0 {
		return false
	}
	if strings.HasPrefix(w.str(rq.U), ":") {
		return true
	}
	for _, p := range rq.Parents {
		if strings.HasPrefix(w.str(p), ":") {
			return true
		}
	}
	return false
}

// ---------- the Coq term of a request, oracles filled in from what happened

func newNodes(a, b *Snap) []Node {
	old := map[int]bool{}
	for _, n := range a.Nodes {
		old[n.VersionID] = true
	}
	var out []Node
	for _, n := range b.Nodes {
		if !old[n.VersionID] {
			out = append(out, n)
		}
	}
	return out
}

func (w *world) reqTerm(rq Req, before, after *Snap, resolvedParents []string) string {
	switch rq.Kind {
	case "repoinfo":
		return "XRepoInfo " + w.uref(rq.U)
	case "hidebranch":
		return fmt.Sprintf("XHideBranch %s %s", w.uref(rq.U), w.coq(rq.Branch))
	case "makemaster":
		return fmt.Sprintf("XMakeMaster %s %s", w.uref(rq.U), w.coq(rq.Branch))
	}
	return "XB (" + w.baseTerm(rq, before, after, resolvedParents) + ")"
}

func (w *world) baseTerm(rq Req, before, after *Snap, resolvedParents []string) string {
	nn := newNodes(before, after)
	fresh := coqStr("-")
	if len(nn) > 0 {
		fresh = w.nameOf(nn[0].UUID)
	}
	plist := func() string {
		ss := make([]string, len(rq.Parents))
		for i, p := range rq.Parents {
			ss[i] = w.uref(p)
		}
		return "[" + strings.Join(ss, ";") + "]"
	}
	switch rq.Kind {
	case "newrepo":
		root := "None"
		if rq.Root != nil {
			root = "(Some " + w.coq(*rq.Root) + ")"
		}
		return fmt.Sprintf("RNewRepo %s %s %s", root, coqStr(rq.Pass), fresh)
	case "commit":
		return "RCommit " + w.uref(rq.U)
	case "newversion":
		return fmt.Sprintf("RNewVersion %s %s %s", w.uref(rq.U), w.coq(rq.Assign), fresh)
	case "branch":
		return fmt.Sprintf("RBranch %s %s %s %s", w.uref(rq.U), w.coq(rq.Branch), w.coq(rq.Assign), fresh)
	case "tag":
		return fmt.Sprintf("RTag %s %s", w.uref(rq.U), w.coq(rq.Tag))
	case "merge":
		return fmt.Sprintf("RMerge %s %s %s %s", w.uref(rq.U), lib.CoqBool(rq.MType == "conflict-free"), plist(), fresh)
	case "resolve":
		// nodes on a "conflict-<uuid>" branch are the extensions; the remaining new node is the merge child
		var conf []string
		mergeFresh := coqStr("-")
		for _, n := range nn {
			if strings.HasPrefix(n.Branch, "conflict-") {
				old := strings.TrimPrefix(n.Branch, "conflict-")
				for k, rp := range resolvedParents {
					if rp == old {
						conf = append(conf, fmt.Sprintf("(%d%%nat, %s)", k, w.nameOf(n.UUID)))
						break
					}
				}
			} else {
				mergeFresh = w.nameOf(n.UUID)
			}
		}
		var ds []string
		for i, d := range rq.Data {
			c := ""
			if i == 0 {
				c = strings.Join(conf, ";")
			}
			ds = append(ds, fmt.Sprintf("(%s, [%s])", coqStr(d), c))
		}
		return fmt.Sprintf("RResolve %s [%s] %s %s", w.uref(rq.U), strings.Join(ds, ";"), plist(), mergeFresh)
	case "note":
		return "RNodeNote " + w.uref(rq.U)
	case "log":
		return "RNodeLog " + w.uref(rq.U)
	case "repolog":
		return "RRepoLog " + w.uref(rq.U)
	case "newdata":
		return fmt.Sprintf("RNewData %s %s %s", w.uref(rq.U), lib.CoqBool(rq.Type == "keyvalue"), coqStr(rq.Name))
	case "rename":
		return fmt.Sprintf("RRenameData %s %s %s %s", w.uref(rq.U), coqStr(rq.Name), coqStr(rq.New), coqStr(rq.Pass))
	case "deldata":
		return fmt.Sprintf("RDeleteData %s %s %s", w.uref(rq.U), coqStr(rq.Name), coqStr(rq.Pass))
	case "delrepo":
		return fmt.Sprintf("RDeleteRepo %s %s", w.uref(rq.U), coqStr(rq.Pass))
	}
	panic("no term for " + rq.Kind)
}

// ---------- running one sequence

type seqOut struct {
	term      string
	stepTerms []string
	steps     []Req
	nReq      int
	classes   map[string]int
	kinds     map[string]int
	maxNode   int
}

// next yields the request to run given the current snapshot (generator or replay list)
func runSeq(rng *lib.Rand, next func(w *world, sn *Snap, i int) (Req, bool)) seqOut {
	return runSeqMode(rng, false, next)
}

func runSeqMode(rng *lib.Rand, canon bool, next func(w *world, sn *Snap, i int) (Req, bool)) seqOut {
	dv.Open()
	defer dv.Close()
	w := &world{uuidOf: map[int]string{}, known: map[string]bool{}, rng: rng, canon: canon}
	out := seqOut{classes: map[string]int{}, kinds: map[string]int{}}
	sn := w.snapshot()
	var terms []string
	for i := 0; ; i++ {
		rq, ok := next(w, sn, i)
		if !ok {
			break
		}
		if w.unsafe(rq, sn) {
			continue
		}
		out.steps = append(out.steps, rq)
		var resolved []string
		if rq.Kind == "resolve" {
			for _, p := range rq.Parents {
				u, _, err := datastore.MatchingUUID(w.str(p))
				if err != nil {
					resolved = append(resolved, "?")
				} else {
					resolved = append(resolved, string(u))
				}
			}
		}
		res := w.exec(rq, sn)
		if os.Getenv("C07_DEBUG") != "" && res.class != "ok" {
			b := res.body
			if len(b) > 150 {
				b = b[:150]
			}
			fmt.Fprintf(os.Stderr, "DBG %s %s -> %s %s\n", rq.Kind, w.str(rq.U), res.class, strings.ReplaceAll(b, "\n", " "))
		}
		if res.class == "aux" {
			continue
		}
		after := w.snapshot()
		cls := map[string]string{"ok": "ODone", "fail": "OFail", "crash": "OCrash"}[res.class]
		ds := deltas(w, sn, after)
		terms = append(terms, fmt.Sprintf("(%s, %s, [%s])", w.reqTerm(rq, sn, after, resolved), cls, strings.Join(ds, ";")))
		out.nReq++
		out.classes[res.class]++
		out.kinds[rq.Kind+":"+res.class]++
		if len(after.Nodes) > out.maxNode {
			out.maxNode = len(after.Nodes)
		}
		if (rq.Kind == "hidebranch" || rq.Kind == "makemaster") && res.class == "ok" && brokenGraph(sn, after, rq, w) {
			// the graph is no longer well formed (findings C07-hide-branch-orphans / C07-make-master-names):
			// the oracle reports it at this step; nothing meaningful can follow
			sn = after
			break
		}
		sn = after
	}
	// let-bind every UUID that is referred to by name
	var vs []int
	for v, u := range w.uuidOf {
		if w.nameOf(u) == "t"+strconv.Itoa(v) {
			vs = append(vs, v)
		}
	}
	sort.Ints(vs)
	var sb strings.Builder
	sb.WriteString("(")
	for _, v := range vs {
		fmt.Fprintf(&sb, "let t%d := %s in ", v, coqStr(w.uuidOf[v]))
	}
	sb.WriteString("[" + strings.Join(terms, ";\n   ") + "])")
	out.term = sb.String()
	out.stepTerms = terms
	return out
}

// after an accepted hide-branch / make-master: does a node list a parent that is no node, does a
// node of a named branch have other than one parent, is a node on a branch literally called
// "master", or did make-master reuse a branch name that was in use
func brokenGraph(before, after *Snap, rq Req, w *world) bool {
	have := map[string]bool{}
	for _, n := range after.Nodes {
		have[n.Repo+"|"+strconv.Itoa(n.VersionID)] = true
	}
	for _, n := range after.Nodes {
		for _, p := range n.Parents {
			if !have[n.Repo+"|"+strconv.Itoa(p)] {
				return true
			}
		}
		if n.Branch != "" && len(n.Parents) != 1 {
			return true
		}
		if n.Branch == "master" {
			return true
		}
	}
	if rq.Kind == "makemaster" {
		name := w.str(rq.Branch)
		for _, n := range before.Nodes {
			if n.Branch == name {
				return true
			}
		}
	}
	return false
}

// no node outside branch b of the repo has a parent on it
func branchClosed(sn *Snap, repo, b string) bool {
	on := map[int]bool{}
	for _, n := range sn.Nodes {
		if n.Repo == repo && n.Branch == b {
			on[n.VersionID] = true
		}
	}
	for _, n := range sn.Nodes {
		if n.Repo == repo && n.Branch != b {
			for _, p := range n.Parents {
				if on[p] {
					return false
				}
			}
		}
	}
	return true
}

func nodeAt(sn *Snap, repo string, v int) (Node, bool) {
	for _, n := range sn.Nodes {
		if n.Repo == repo && n.VersionID == v {
			return n, true
		}
	}
	return Node{}, false
}

// n is the first node of a named branch, its parent is on the default branch and has a child there,
// and the old master chain below that child holds no merge node
func makeMasterFits(sn *Snap, n Node) bool {
	if n.Branch == "" || len(n.Parents) != 1 {
		return false
	}
	p, ok := nodeAt(sn, n.Repo, n.Parents[0])
	if !ok || p.Branch != "" {
		return false
	}
	cur, found := Node{}, false
	for _, c := range p.Children {
		if m, ok := nodeAt(sn, n.Repo, c); ok && m.Branch == "" {
			cur, found = m, true
			break
		}
	}
	for found {
		if len(cur.Parents) != 1 {
			return false
		}
		found = false
		for _, c := range cur.Children {
			if m, ok := nodeAt(sn, n.Repo, c); ok && m.Branch == "" {
				cur, found = m, true
				break
			}
		}
		if !found {
			return true
		}
	}
	return false
}

// ---------- generator

const hexd = "0123456789abcdef"

func randHex(rng *lib.Rand, n int) string {
	b := make([]byte, n)
	for i := range b {
		b[i] = hexd[rng.Intn(16)]
	}
	return string(b)
}

type gen struct {
	rng     *lib.Rand
	n       int
	hostile float64
	pending []Req
	tags    []string
	names   int
	passOf  map[string]string // root uuid -> passcode
	newPass string            // passcode of the newrepo request under way
	dead    []string          // well-formed uuids of nodes whose repo was deleted: free for reuse
	issued  []string          // every uuid this sequence has assigned so far (root, newversion, branch, tag)
	maxV    int
	stats   map[string]int
	lastAdv string // the adversarial branch name drawn last (drawn again later: it is in use then)
}

func pickNode(rng *lib.Rand, ns []Node) (Node, bool) {
	if len(ns) == 0 {
		return Node{}, false
	}
	return ns[rng.Intn(len(ns))], true
}

func filterNodes(ns []Node, f func(Node) bool) []Node {
	var out []Node
	for _, n := range ns {
		if f(n) {
			out = append(out, n)
		}
	}
	return out
}

func shuffled(rng *lib.Rand, ns []Node) []Node {
	out := append([]Node{}, ns...)
	for i := len(out) - 1; i > 0; i-- {
		j := rng.Intn(i + 1)
		out[i], out[j] = out[j], out[i]
	}
	return out
}

func rootVersion(sn *Snap, repo string) int {
	for _, m := range sn.Nodes {
		if m.Repo == repo && m.UUID == sn.Repos[repo].Root {
			return m.VersionID
		}
	}
	return -1
}

func hasMerge(sn *Snap, repo string) bool {
	for _, m := range sn.Nodes {
		if m.Repo == repo && len(m.Parents) > 1 {
			return true
		}
	}
	return false
}

func isHead(sn *Snap, n Node) bool { return !hasBranchChild(sn, n) }

// a reference to node n as a well-behaved client could type it: the full UUID, a long prefix, or
// root:branch when n is the head of its branch
func (g *gen) ref(sn *Snap, n Node) SX {
	x := g.rng.Intn(100)
	switch {
	case x < 80:
		return T(n.VersionID)
	case x < 90:
		return P(n.VersionID, 8+g.rng.Intn(10))
	default:
		rv := rootVersion(sn, n.Repo)
		// a name with ':' or '~' is not addressable as root:branch, and one with '/' cannot be
		// written into a URL path (the router splits the decoded path at it)
		if rv < 0 || !isHead(sn, n) || strings.ContainsAny(n.Branch, ":~/") {
			return T(n.VersionID)
		}
		b := n.Branch
		if b == "" {
			b = "master"
		}
		if g.rng.Chance(0.2) {
			return Cat(T(rv), L(":"+b+"~0"))
		}
		return Cat(T(rv), L(":"+b))
	}
}

// root:master~n after a merge: the head of the default branch is then the merge node (the newest
// node of branch ""), and the walk goes up its last parent.
func (g *gen) tildeRef(sn *Snap, n Node, orig SX) SX {
	rv := rootVersion(sn, n.Repo)
	if rv < 0 || !hasMerge(sn, n.Repo) || !g.rng.Chance(0.12) {
		return orig
	}
	g.stats["master_tilde_after_merge"]++
	return Cat(T(rv), L(":master~"+strconv.Itoa(g.rng.Intn(3))))
}

// a reference no well-behaved client would send
func (g *gen) bogusRef(sn *Snap) SX {
	n, _ := pickNode(g.rng, sn.Nodes)
	switch g.rng.Intn(9) {
	case 0:
		return L(randHex(g.rng, 32))
	case 1:
		return L("zz")
	case 2:
		return L("nosuch:master")
	case 3:
		return L("a:b:c")
	case 4:
		return P(n.VersionID, 1+g.rng.Intn(2)) // probably ambiguous
	case 5:
		return Cat(T(n.VersionID), L(":nosuchbranch"))
	case 6:
		return Cat(T(n.VersionID), L(":master~"+strconv.Itoa(g.rng.Intn(4))))
	case 7:
		return Cat(P(n.VersionID, 5), L(":"))
	default:
		return L(randHex(g.rng, 3))
	}
}

func (g *gen) badAssign(sn *Snap) SX {
	switch g.rng.Intn(4) {
	case 0, 1:
		if n, ok := pickNode(g.rng, sn.Nodes); ok {
			return T(n.VersionID)
		}
		return L(randHex(g.rng, 31))
	case 2:
		return L(randHex(g.rng, 31))
	default:
		return L(randHex(g.rng, 31) + "g")
	}
}

// a fresh well-formed uuid, or one that a deleted repo has given back
// a well-formed uuid a caller may assign: fresh, given back by a deleted repo, or -- to exercise
// "every UUID names exactly one node" across the entry points (repo root, newversion, branch) --
// one assigned earlier in this sequence, verbatim (a duplicate if it still names a node) or with the
// case of its hex digits changed (another string: the server compares UUIDs byte for byte).
// Hex digits come in lower, upper and mixed case.
func (g *gen) freeUUID() string {
	var u string
	switch {
	case len(g.issued) > 0 && g.rng.Chance(0.3):
		u = g.issued[g.rng.Intn(len(g.issued))]
		switch g.rng.Intn(3) {
		case 0:
			g.stats["assigned_uuid_repeated"]++
		case 1:
			u = strings.ToUpper(u)
			g.stats["assigned_uuid_case_variant"]++
		default:
			u = strings.ToLower(u)
			g.stats["assigned_uuid_case_variant"]++
		}
	case len(g.dead) > 0 && g.rng.Chance(0.5):
		g.stats["reused_deleted_uuid"]++
		u = g.dead[g.rng.Intn(len(g.dead))]
	default:
		u = randHex(g.rng, 32)
		switch g.rng.Intn(3) {
		case 0:
			u = strings.ToUpper(u)
		case 1:
			b := []byte(u)
			for i := range b {
				if g.rng.Bool() {
					b[i] = strings.ToUpper(string(b[i]))[0]
				}
			}
			u = string(b)
		}
	}
	g.issued = append(g.issued, u)
	return u
}

// branch names: mostly plain and fresh, otherwise from an adversarial pool -- padded with white
// space, "master" in other spellings, look-alikes, empty after trimming, long, with the characters of
// the reference syntax.  The invariants must hold whatever the name; only exactly "" and "master"
// are refused.
func (g *gen) branchName(sn *Snap) SX {
	if g.rng.Chance(0.68) {
		return L(g.freshName("b"))
	}
	g.stats["adversarial_branch_name"]++
	existing := ""
	if m, ok := pickNode(g.rng, filterNodes(sn.Nodes, func(m Node) bool { return m.Branch != "" })); ok {
		existing = m.Branch
	}
	pool := []string{" master", "master ", "\tmaster", "master\n", " master ", "Master", "MASTER", "m\u0430ster", "master\u200b",
		" ", "\t", "  \n", strings.Repeat("L", 300) + strconv.Itoa(g.rng.Intn(3)),
		"a:b" + strconv.Itoa(g.rng.Intn(3)), "x~1", "a/b", ":master", "master~0",
		" " + g.freshName("b"), g.freshName("b") + " ", "\u00e9" + g.freshName("b")}
	if existing != "" {
		pool = append(pool, " "+existing, existing+" ", strings.ToUpper(existing), existing+"\t", existing)
	}
	if g.lastAdv != "" && g.rng.Chance(0.35) {
		return L(g.lastAdv) // the same adversarial spelling again: in use by now
	}
	g.lastAdv = pool[g.rng.Intn(len(pool))]
	return L(g.lastAdv)
}

func (g *gen) goodAssign() SX {
	if g.rng.Chance(0.75) && !(len(g.dead) > 0 && g.rng.Chance(0.3)) {
		return L("")
	}
	return L(g.freeUUID())
}

func (g *gen) freshName(prefix string) string {
	g.names++
	return prefix + strconv.Itoa(g.names)
}

func (g *gen) next(w *world, sn *Snap, i int) (Req, bool) {
	for k, rp := range sn.Repos {
		if _, ok := g.passOf[rp.Root]; !ok {
			g.passOf[rp.Root] = g.newPass
			g.passOf[k] = g.newPass
		}
	}
	liveU := map[string]bool{}
	for _, n := range sn.Nodes {
		liveU[n.UUID] = true
		if n.VersionID > g.maxV {
			g.maxV = n.VersionID
		}
	}
	g.dead = g.dead[:0]
	for x := range w.known {
		if !liveU[x] && len(x) == 32 && strings.Trim(x, hexd) == "" {
			g.dead = append(g.dead, x)
		}
	}
	sort.Strings(g.dead)
	if len(g.pending) > 0 {
		r := g.pending[0]
		g.pending = g.pending[1:]
		return r, true
	}
	if i >= g.n {
		return Req{}, false
	}
	rng := g.rng
	if len(sn.Nodes) == 0 {
		return g.newRepo(sn, false), true
	}
	locked := filterNodes(sn.Nodes, func(n Node) bool { return n.Locked })
	unlocked := filterNodes(sn.Nodes, func(n Node) bool { return !n.Locked })
	open := filterNodes(locked, func(n Node) bool { return isHead(sn, n) })
	hostile := rng.Chance(g.hostile)
	if hostile {
		g.stats["hostile"]++
	}
	anyNode, _ := pickNode(rng, sn.Nodes)
	// repos where a merge can succeed
	lockedBy := map[string][]Node{}
	for _, n := range locked {
		lockedBy[n.Repo] = append(lockedBy[n.Repo], n)
	}
	var mergeRepos, dataRepos []string
	for k := range sn.Repos {
		if len(lockedBy[k]) >= 2 {
			mergeRepos = append(mergeRepos, k)
		}
		if len(instancesOf(sn, k)) > 0 {
			dataRepos = append(dataRepos, k)
		}
	}
	sort.Strings(mergeRepos)
	sort.Strings(dataRepos)

	kinds := []string{"commit", "newversion", "branch", "tag", "merge", "resolve", "post", "newdata", "dataop", "newrepo", "delrepo", "resolvescn", "restart", "hide", "mmaster", "repoinfo"}
	weights := []int{20, 16, 13, 8, 14, 5, 5, 8, 4, 5, 3, 4, 2, 4, 4, 2}
	tot := 0
	for _, x := range weights {
		tot += x
	}
	x := rng.Intn(tot)
	kind := ""
	for j, wgt := range weights {
		if x < wgt {
			kind = kinds[j]
			break
		}
		x -= wgt
	}
	// steer a well-behaved request towards something the state allows
	if !hostile {
		for pass := 0; pass < 4; pass++ {
			switch {
			case (kind == "commit" || kind == "post" || kind == "newdata") && len(unlocked) == 0:
				kind = "newversion"
			case (kind == "newversion") && len(open) == 0, (kind == "branch" || kind == "tag") && len(locked) == 0:
				if len(unlocked) > 0 {
					kind = "commit"
				} else {
					kind = "branch"
				}
			case (kind == "merge" || kind == "resolve") && len(mergeRepos) == 0:
				kind = "commit"
			case kind == "dataop" && len(dataRepos) == 0:
				kind = "newdata"
			case kind == "delrepo" && len(sn.Repos) < 2:
				kind = "newrepo"
			case kind == "resolvescn" && len(locked) == 0:
				kind = "commit"
			}
		}
	}

	switch kind {
	case "restart":
		g.stats["restarts"]++
		return Req{Kind: "restart"}, true

	case "resolvescn":
		// resolve with real conflicts: two fresh branches off a committed node write the same key of
		// a data instance (sometimes different keys: no conflict); each is committed or left open;
		// then they are resolved in either order -- every commit state and order of the parents
		p, ok := pickNode(rng, locked)
		if !ok {
			return g.newRepo(sn, false), true
		}
		v1, v2 := g.maxV+1, g.maxV+2
		insts := instancesOf(sn, p.Repo)
		var d string
		var setup []Req
		if len(insts) > 0 {
			d = insts[rng.Intn(len(insts))]
		} else {
			d = g.freshName("d")
			setup = append(setup, Req{Kind: "newdata", U: T(v1), Type: "keyvalue", Name: d})
		}
		key1, key2 := "kc", "kc"
		if rng.Chance(0.25) {
			key2 = "kd"
		}
		g.pending = append(g.pending, setup...)
		g.pending = append(g.pending, Req{Kind: "putkey", U: T(v1), Name: d, Key: key1},
			Req{Kind: "branch", U: T(p.VersionID), Branch: L(g.freshName("b")), Assign: L("")},
			Req{Kind: "putkey", U: T(v2), Name: d, Key: key2})
		if rng.Chance(0.7) {
			g.pending = append(g.pending, Req{Kind: "commit", U: T(v1)})
		}
		if rng.Chance(0.7) {
			g.pending = append(g.pending, Req{Kind: "commit", U: T(v2)})
		}
		ps := []SX{T(v1), T(v2)}
		if rng.Bool() {
			ps = []SX{T(v2), T(v1)}
		}
		data := []string{d}
		if rng.Chance(0.15) {
			data = append(data, "nosuchdata")
		}
		g.pending = append(g.pending, Req{Kind: "resolve", U: T(p.VersionID), MType: "conflict-free", Data: data, Parents: ps})
		g.stats["resolve_scenarios"]++
		return Req{Kind: "branch", U: T(p.VersionID), Branch: L(g.freshName("b")), Assign: L("")}, true

	case "newrepo":
		return g.newRepo(sn, hostile), true

	case "commit":
		n, ok := pickNode(rng, unlocked)
		if !ok {
			n = anyNode
		}
		rq := Req{Kind: "commit", U: g.tildeRef(sn, n, g.ref(sn, n))}
		if hostile {
			if m, ok := pickNode(rng, locked); ok && rng.Bool() {
				rq.U = g.ref(sn, m) // already committed
			} else {
				rq.U = g.bogusRef(sn)
			}
		}
		return rq, true

	case "newversion":
		n, ok := pickNode(rng, open)
		if !ok {
			n = anyNode
		}
		rq := Req{Kind: "newversion", U: g.tildeRef(sn, n, g.ref(sn, n)), Assign: g.goodAssign()}
		if hostile {
			switch rng.Intn(4) {
			case 0:
				rq.U = g.bogusRef(sn)
			case 1:
				if m, ok := pickNode(rng, unlocked); ok {
					rq.U = g.ref(sn, m) // uncommitted parent
				}
			case 2:
				if m, ok := pickNode(rng, filterNodes(locked, func(n Node) bool { return !isHead(sn, n) })); ok {
					rq.U = g.ref(sn, m) // the branch already continues
				}
			default:
				rq.Assign = g.badAssign(sn)
			}
		} else {
			g.maybePut(sn, n.Repo)
		}
		return rq, true

	case "branch":
		n, ok := pickNode(rng, locked)
		if !ok {
			n = anyNode
		}
		rq := Req{Kind: "branch", U: g.ref(sn, n), Branch: g.branchName(sn), Assign: g.goodAssign()}
		if hostile {
			switch rng.Intn(7) {
			case 0:
				rq.U = g.bogusRef(sn)
			case 1:
				if m, ok := pickNode(rng, unlocked); ok {
					rq.U = g.ref(sn, m)
				}
			case 2:
				if m, ok := pickNode(rng, filterNodes(sn.Nodes, func(m Node) bool { return m.Branch != "" })); ok {
					rq.Branch = L(m.Branch) // a name in use
				}
			case 3:
				rq.Branch = L(n.Branch) // the parent's own branch (may be "")
			case 4:
				rq.Branch = L("master")
			case 5:
				rq.Branch = L("")
			default:
				rq.Assign = g.badAssign(sn)
			}
		} else {
			g.maybePut(sn, n.Repo)
		}
		return rq, true

	case "tag":
		n, ok := pickNode(rng, locked)
		if !ok {
			n = anyNode
		}
		t := g.freshName("tg")
		rq := Req{Kind: "tag", U: g.ref(sn, n), Tag: L(t)}
		if hostile {
			switch rng.Intn(8) {
			case 0:
				rq.U = g.bogusRef(sn)
			case 1:
				if m, ok := pickNode(rng, unlocked); ok {
					rq.U = g.ref(sn, m)
				}
			case 2, 3:
				rq.Tag = T(anyNode.VersionID) // the UUID of an existing node
				if m, ok := pickNode(rng, unlocked); ok && rng.Bool() {
					rq.Tag = T(m.VersionID)
				}
			case 4:
				rq.Tag = L("")
			case 5:
				if len(g.tags) > 0 {
					rq.Tag = L(g.tags[rng.Intn(len(g.tags))])
				}
			case 6:
				rq.Tag = P(anyNode.VersionID, 4)
			default:
				rq.Tag = L("c:" + t)
			}
		} else if len(g.dead) > 0 && rng.Chance(0.2) {
			rq.Tag = L(g.freeUUID())
		} else {
			g.tags = append(g.tags, t)
		}
		return rq, true

	case "merge", "resolve":
		repo := anyNode.Repo
		if len(mergeRepos) > 0 {
			repo = mergeRepos[rng.Intn(len(mergeRepos))]
		}
		if kind == "resolve" && len(dataRepos) > 0 {
			for _, r := range shuffledStr(rng, dataRepos) {
				if len(lockedBy[r]) >= 2 {
					repo = r
					break
				}
			}
		}
		pool := shuffled(rng, lockedBy[repo])
		// prefer heads: merging leaves is what clients do
		sort.SliceStable(pool, func(a, b int) bool { return isHead(sn, pool[a]) && !isHead(sn, pool[b]) })
		k := 2
		if rng.Chance(0.25) {
			k = 3
		}
		rq := Req{Kind: kind, MType: "conflict-free"}
		for j := 0; j < k && j < len(pool); j++ {
			rq.Parents = append(rq.Parents, g.ref(sn, pool[j]))
		}
		same := filterNodes(sn.Nodes, func(n Node) bool { return n.Repo == repo })
		if kind == "resolve" {
			insts := instancesOf(sn, repo)
			if len(insts) > 0 {
				rq.Data = []string{insts[rng.Intn(len(insts))]}
			} else {
				rq.Data = []string{"nosuchdata"}
			}
		}
		if hostile {
			switch rng.Intn(9) {
			case 0: // an uncommitted parent, last
				if n, ok := pickNode(rng, filterNodes(same, func(n Node) bool { return !n.Locked })); ok {
					rq.Parents = append(rq.Parents, T(n.VersionID))
				}
			case 1: // an uncommitted parent, first
				if n, ok := pickNode(rng, filterNodes(same, func(n Node) bool { return !n.Locked })); ok {
					rq.Parents = append([]SX{T(n.VersionID)}, rq.Parents...)
				}
			case 2:
				rq.Parents = append(rq.Parents, g.bogusRef(sn))
			case 3: // repeated
				if len(rq.Parents) > 0 {
					rq.Parents = append(rq.Parents, rq.Parents[rng.Intn(len(rq.Parents))])
				}
			case 4: // foreign repo: a committed node of another repo if there is one, last or first
				foreign := filterNodes(sn.Nodes, func(n Node) bool { return n.Repo != repo && n.Locked })
				if len(foreign) == 0 {
					foreign = filterNodes(sn.Nodes, func(n Node) bool { return n.Repo != repo })
				}
				if n, ok := pickNode(rng, foreign); ok {
					if rng.Bool() {
						rq.Parents = append(rq.Parents, T(n.VersionID))
					} else {
						rq.Parents = append([]SX{T(n.VersionID)}, rq.Parents...)
					}
					g.stats["foreign_parent"]++
				}
			case 5: // too few
				if len(rq.Parents) > 1 {
					rq.Parents = rq.Parents[:rng.Intn(2)]
				}
			case 6:
				if kind == "merge" {
					rq.MType = "external"
				} else {
					rq.Data = nil
				}
			case 7:
				if kind == "resolve" {
					rq.Data = append(rq.Data, "nosuchdata")
				} else if len(rq.Parents) > 0 {
					rq.Parents = append(rq.Parents, rq.Parents[0])
				}
			default:
				if kind == "resolve" {
					rq.Data = append([]string{"nosuchdata"}, rq.Data...)
				} else {
					rq.Parents = append(rq.Parents, g.bogusRef(sn))
				}
			}
		}
		if len(rq.Parents) > 0 && rq.Parents[0].K != "cat" && rng.Chance(0.7) {
			rq.U = rq.Parents[0]
		} else if n, ok := pickNode(rng, same); ok {
			rq.U = g.ref(sn, n)
		} else {
			rq.U = g.ref(sn, anyNode)
		}
		return rq, true

	case "post":
		k := []string{"note", "log", "repolog"}[rng.Intn(3)]
		n, ok := pickNode(rng, unlocked)
		if !ok || k == "repolog" {
			n = anyNode
		}
		rq := Req{Kind: k, U: g.tildeRef(sn, n, g.ref(sn, n))}
		if hostile {
			if m, ok := pickNode(rng, locked); ok && rng.Bool() {
				rq.U = g.ref(sn, m)
			} else {
				rq.U = g.bogusRef(sn)
			}
		}
		return rq, true

	case "newdata":
		n, ok := pickNode(rng, unlocked)
		if !ok {
			n = anyNode
		}
		rq := Req{Kind: "newdata", U: g.ref(sn, n), Type: "keyvalue", Name: g.freshName("d")}
		if hostile {
			switch rng.Intn(4) {
			case 0:
				rq.U = g.bogusRef(sn)
			case 1:
				if m, ok := pickNode(rng, locked); ok {
					rq.U = g.ref(sn, m)
				}
			case 2:
				if insts := instancesOf(sn, n.Repo); len(insts) > 0 {
					rq.Name = insts[rng.Intn(len(insts))]
				}
			default:
				rq.Type = "nosuchtype"
			}
		}
		return rq, true

	case "repoinfo":
		rq := Req{Kind: "repoinfo", U: g.ref(sn, anyNode), Name: g.freshName("alias"), New: "descr " + strconv.Itoa(g.names)}
		if hostile {
			rq.U = g.bogusRef(sn)
		}
		return rq, true

	case "hide":
		// hide-branch: a named branch of some repo.  Well behaved: a branch nothing outside it hangs
		// off (no branch, tag or merge below it).  Hostile: any branch, the default branch by its two
		// names, an unknown name, a name of another repo, a bogus reference.
		named := filterNodes(sn.Nodes, func(n Node) bool { return n.Branch != "" })
		closed := filterNodes(named, func(n Node) bool { return branchClosed(sn, n.Repo, n.Branch) })
		n, ok := pickNode(rng, closed)
		if !ok || hostile && rng.Chance(0.5) {
			if n, ok = pickNode(rng, named); !ok {
				n = anyNode
			}
		}
		at, _ := pickNode(rng, filterNodes(sn.Nodes, func(m Node) bool { return m.Repo == n.Repo }))
		rq := Req{Kind: "hidebranch", U: g.ref(sn, at), Branch: L(n.Branch)}
		if n.Branch == "" {
			rq.Branch = L("nosuchbranch")
		}
		if hostile {
			switch rng.Intn(6) {
			case 0:
				rq.U = g.bogusRef(sn)
			case 1:
				rq.Branch = L("")
			case 2:
				rq.Branch = L("master")
			case 3:
				rq.Branch = L("nosuchbranch")
			case 4:
				rq.U = g.ref(sn, anyNode) // possibly another repo
			}
		}
		g.stats["hide-branch"]++
		return rq, true

	case "mmaster":
		// make-master: well behaved = the first node of a named branch that hangs off a node of the
		// default branch which also has a child on the default branch; the old master gets a fresh name.
		// Hostile: the name "master", "", a name in use, the promoted branch's own name; a node of the
		// default branch, a node in the middle of a branch, a node off a named branch, a bogus reference.
		firsts := filterNodes(sn.Nodes, func(n Node) bool { return makeMasterFits(sn, n) })
		named := filterNodes(sn.Nodes, func(n Node) bool { return n.Branch != "" })
		n, ok := pickNode(rng, firsts)
		if !ok || hostile && rng.Chance(0.4) {
			if n, ok = pickNode(rng, named); !ok {
				n = anyNode
			}
		}
		rq := Req{Kind: "makemaster", U: g.ref(sn, n), Branch: L(g.freshName("oldmaster"))}
		if hostile {
			switch rng.Intn(7) {
			case 0:
				rq.U = g.bogusRef(sn)
			case 1:
				rq.Branch = L("")
			case 2:
				rq.Branch = L("master")
			case 3:
				if m, ok := pickNode(rng, named); ok {
					rq.Branch = L(m.Branch)
				}
			case 4:
				rq.Branch = L(n.Branch)
			case 5:
				rq.U = g.ref(sn, anyNode)
			}
		}
		g.stats["make-master"]++
		return rq, true

	case "dataop":
		repo := anyNode.Repo
		if len(dataRepos) > 0 {
			repo = dataRepos[rng.Intn(len(dataRepos))]
		}
		same := filterNodes(sn.Nodes, func(n Node) bool { return n.Repo == repo })
		n, _ := pickNode(rng, same)
		insts := instancesOf(sn, repo)
		name := "nosuchdata"
		if len(insts) > 0 {
			name = insts[rng.Intn(len(insts))]
		}
		rq := Req{Kind: "rename", U: g.ref(sn, n), Name: name, New: g.freshName("d"), Pass: g.passOf[sn.Repos[repo].Root]}
		if rng.Chance(0.4) {
			rq = Req{Kind: "deldata", U: g.ref(sn, n), Name: name, Pass: g.passOf[sn.Repos[repo].Root]}
		}
		if hostile {
			switch rng.Intn(4) {
			case 0:
				rq.U = g.bogusRef(sn)
			case 1:
				rq.Pass = "wrong"
			case 2:
				rq.Name = "nosuchdata"
			default:
				if len(insts) > 0 {
					rq.New = insts[rng.Intn(len(insts))]
				}
			}
		}
		return rq, true

	default: // delrepo
		roots := filterNodes(sn.Nodes, func(n Node) bool { return len(n.Parents) == 0 })
		n, ok := pickNode(rng, roots)
		if !ok {
			n = anyNode
		}
		rq := Req{Kind: "delrepo", U: T(n.VersionID), Pass: g.passOf[n.UUID]}
		if hostile {
			switch rng.Intn(3) {
			case 0:
				rq.U = g.bogusRef(sn)
			case 1:
				rq.Pass = "wrong"
			default:
				if m, ok := pickNode(rng, filterNodes(sn.Nodes, func(n Node) bool { return len(n.Parents) > 0 })); ok {
					rq.U = g.ref(sn, m) // not the root
				}
			}
		}
		return rq, true
	}
}

func shuffledStr(rng *lib.Rand, xs []string) []string {
	out := append([]string{}, xs...)
	for i := len(out) - 1; i > 0; i-- {
		j := rng.Intn(i + 1)
		out[i], out[j] = out[j], out[i]
	}
	return out
}

func hasBranchChild(sn *Snap, n Node) bool {
	for _, m := range sn.Nodes {
		if m.Repo == n.Repo && m.Branch == n.Branch {
			for _, p := range m.Parents {
				if p == n.VersionID {
					return true
				}
			}
		}
	}
	return false
}

func instancesOf(sn *Snap, repo string) []string {
	var out []string
	for d := range sn.Repos[repo].DataInstances {
		out = append(out, d)
	}
	sort.Strings(out)
	return out
}

func (g *gen) newRepo(sn *Snap, hostile bool) Req {
	rq := Req{Kind: "newrepo"}
	if g.rng.Chance(0.3) {
		rq.Pass = "pw"
	}
	if g.rng.Chance(0.3) || len(g.dead) > 0 && g.rng.Chance(0.5) {
		s := L(g.freeUUID())
		rq.Root = &s
	}
	if hostile {
		var s SX
		switch g.rng.Intn(4) {
		case 0:
			if n, ok := pickNode(g.rng, sn.Nodes); ok {
				s = T(n.VersionID)
			} else {
				s = L("")
			}
		case 1:
			s = L("")
		default:
			s = L([]string{"xa", "xab", randHex(g.rng, 31), randHex(g.rng, 31) + "g", randHex(g.rng, 33)}[g.rng.Intn(5)])
		}
		rq.Root = &s
	}
	g.newPass = rq.Pass
	return rq
}

// after a request that opens a new node, sometimes write a key there so that resolve finds conflicts
func (g *gen) maybePut(sn *Snap, repo string) {
	insts := instancesOf(sn, repo)
	if len(insts) == 0 || !g.rng.Chance(0.7) {
		return
	}
	g.pending = append(g.pending, Req{Kind: "putkey", U: T(g.maxV + 1), Name: insts[g.rng.Intn(len(insts))], Key: "k" + strconv.Itoa(g.rng.Intn(2))})
}

// ---------- corpus: the request sequences of the defects found (always run first)

func corpus() [][]Req {
	sp := func(s SX) *SX { return &s }
	open := []Req{
		{Kind: "newrepo"},
		{Kind: "commit", U: T(1)},
		{Kind: "branch", U: T(1), Branch: L("a"), Assign: L("")},
		{Kind: "branch", U: T(1), Branch: L("b"), Assign: L("")},
		{Kind: "commit", U: T(2)},
	}
	with := func(more ...Req) []Req { return append(append([]Req{}, open...), more...) }
	return [][]Req{
		// refused merge leaves its child
		with(Req{Kind: "merge", U: T(2), MType: "conflict-free", Parents: []SX{T(2), T(3)}}),
		// repeated parent
		with(Req{Kind: "merge", U: T(2), MType: "conflict-free", Parents: []SX{T(2), T(2)}}),
		// tag = existing uuid, empty tag
		with(Req{Kind: "tag", U: T(2), Tag: T(1)}),
		with(Req{Kind: "tag", U: T(2), Tag: L("")}),
		// branch / newversion with an assigned uuid that exists
		with(Req{Kind: "branch", U: T(2), Branch: L("dup"), Assign: T(1)}),
		// tag on an uncommitted node naming another uncommitted node: 400, yet that node gets committed
		with(Req{Kind: "newversion", U: T(2), Assign: L("")}, Req{Kind: "tag", U: T(3), Tag: T(4)}),
		with(Req{Kind: "tag", U: T(2), Tag: T(3)}),
		// malformed / empty assigned roots; head cache key collision
		{{Kind: "newrepo", Root: sp(L("xa"))}, {Kind: "commit", U: L("xa")}, {Kind: "newversion", U: L("xa"), Assign: L("")},
			{Kind: "newrepo", Root: sp(L("xab"))}, {Kind: "commit", U: T(2)}, {Kind: "branch", U: T(2), Branch: L("bmaster"), Assign: L("")}},
		{{Kind: "newrepo", Root: sp(L(""))}, {Kind: "newrepo"}},
		// a deleted repo gives all its uuids back: the old child, then the old root, become roots
		{{Kind: "newrepo"}, {Kind: "commit", U: T(1)}, {Kind: "newversion", U: T(1), Assign: L("")},
			{Kind: "branch", U: T(1), Branch: L("x"), Assign: L("")}, {Kind: "delrepo", U: T(1)},
			{Kind: "note", U: T(2)}, {Kind: "commit", U: P(3, 9)},
			{Kind: "newrepo", Root: sp(T(2))}, {Kind: "newrepo", Root: sp(T(1))},
			{Kind: "commit", U: T(2)}, {Kind: "newversion", U: T(2), Assign: T(3)}},
		// restarts between id-allocating requests: nothing is lost, no id is handed out twice
		{{Kind: "newrepo"}, {Kind: "restart"}, {Kind: "newrepo"}, {Kind: "restart"}, {Kind: "newrepo"},
			{Kind: "commit", U: T(1)}, {Kind: "newversion", U: T(1), Assign: L("")}, {Kind: "restart"},
			{Kind: "branch", U: T(1), Branch: L("r"), Assign: L("")}, {Kind: "newrepo"}, {Kind: "restart"}, {Kind: "commit", U: T(2)},
			{Kind: "newdata", U: T(3), Type: "keyvalue", Name: "d1"}, {Kind: "restart"}, {Kind: "newdata", U: T(3), Type: "keyvalue", Name: "d2"}},
		// a repo deletion survives a restart: the deleted uuids and version ids stay unknown (also by
		// prefix), and a deleted uuid used again as a root has exactly one version id afterwards
		{{Kind: "newrepo"}, {Kind: "commit", U: T(1)}, {Kind: "newversion", U: T(1), Assign: L("")}, {Kind: "newrepo"},
			{Kind: "delrepo", U: T(1)}, {Kind: "restart"},
			{Kind: "repolog", U: T(3)}, {Kind: "note", U: T(2)}, {Kind: "commit", U: P(1, 9)},
			{Kind: "newrepo", Root: sp(T(2))}, {Kind: "restart"},
			{Kind: "commit", U: T(2)}, {Kind: "newversion", U: T(2), Assign: T(1)}, {Kind: "restart"}, {Kind: "commit", U: T(3)}},
		// parents from two repos: refused whichever comes first
		{{Kind: "newrepo"}, {Kind: "commit", U: T(1)}, {Kind: "newversion", U: T(1), Assign: L("")}, {Kind: "commit", U: T(2)},
			{Kind: "newrepo"}, {Kind: "commit", U: T(3)},
			{Kind: "merge", U: T(2), MType: "conflict-free", Parents: []SX{T(2), T(3)}},
			{Kind: "merge", U: T(3), MType: "conflict-free", Parents: []SX{T(3), T(2)}},
			{Kind: "merge", U: T(1), MType: "conflict-free", Parents: []SX{T(1), T(2), T(3)}},
			{Kind: "merge", U: T(1), MType: "conflict-free", Parents: []SX{T(1), T(2)}}},
		// resolve with a real conflict (key k of d1 written on both branches), the parents in every
		// commit state and order: open first parent + committed second, the reverse, both committed
		with(Req{Kind: "newdata", U: T(3), Type: "keyvalue", Name: "d1"},
			Req{Kind: "branch", U: T(1), Branch: L("c"), Assign: L("")},
			Req{Kind: "putkey", U: T(3), Name: "d1", Key: "k"}, Req{Kind: "putkey", U: T(4), Name: "d1", Key: "k"},
			Req{Kind: "commit", U: T(4)},
			Req{Kind: "resolve", U: T(1), Data: []string{"d1"}, Parents: []SX{T(3), T(4)}},
			Req{Kind: "resolve", U: T(1), Data: []string{"d1"}, Parents: []SX{T(4), T(3)}},
			Req{Kind: "commit", U: T(3)},
			Req{Kind: "resolve", U: T(1), Data: []string{"d1"}, Parents: []SX{T(3), T(4)}},
			Req{Kind: "resolve", U: T(1), Data: []string{"d1"}, Parents: []SX{T(4), T(3)}}),
		// branch names that are not "master" but close to it, padded, empty after trimming, long, with
		// the characters of the reference syntax: all are ordinary names
		{{Kind: "newrepo"}, {Kind: "commit", U: T(1)},
			{Kind: "branch", U: T(1), Branch: L(" master"), Assign: L("")}, {Kind: "branch", U: T(1), Branch: L("master "), Assign: L("")},
			{Kind: "branch", U: T(1), Branch: L("Master"), Assign: L("")}, {Kind: "branch", U: T(1), Branch: L("\tmaster\n"), Assign: L("")},
			{Kind: "branch", U: T(1), Branch: L(" "), Assign: L("")}, {Kind: "branch", U: T(1), Branch: L("m\u0430ster"), Assign: L("")},
			{Kind: "branch", U: T(1), Branch: L("a:b"), Assign: L("")}, {Kind: "branch", U: T(1), Branch: L("x~1"), Assign: L("")},
			{Kind: "branch", U: T(1), Branch: L("b1"), Assign: L("")}, {Kind: "branch", U: T(1), Branch: L(" b1"), Assign: L("")},
			{Kind: "branch", U: T(1), Branch: L("b1 "), Assign: L("")}, {Kind: "branch", U: T(1), Branch: L("B1"), Assign: L("")},
			{Kind: "newversion", U: T(1), Assign: L("")}, {Kind: "branch", U: T(1), Branch: L(strings.Repeat("L", 300)), Assign: L("")},
			// ... and are reachable by reference under exactly their own spelling
			{Kind: "note", U: Cat(T(1), L(":\tmaster\n"))}, {Kind: "commit", U: Cat(T(1), L(":\tmaster\n~0"))},
			{Kind: "note", U: Cat(T(1), L(":master "))}, {Kind: "note", U: Cat(T(1), L(":\tmaster"))},
			{Kind: "newversion", U: Cat(T(1), L(":\tmaster\n")), Assign: L("")}, {Kind: "commit", U: Cat(P(1, 7), L(": "))},
			// ... and each of them is in use from then on: a second branch request with the same spelling is
			// refused whatever the reference syntax would make of the name ("x~1" is not "the parent of x")
			{Kind: "branch", U: T(1), Branch: L("x~1"), Assign: L("")}, {Kind: "branch", U: T(1), Branch: L("a:b"), Assign: L("")},
			{Kind: "branch", U: T(1), Branch: L(" master"), Assign: L("")}, {Kind: "branch", U: T(1), Branch: L("Master"), Assign: L("")},
			{Kind: "branch", U: T(1), Branch: L("rel~2"), Assign: L("")}, {Kind: "branch", U: T(1), Branch: L("rel~2"), Assign: L("")},
			{Kind: "branch", U: T(1), Branch: L("hotfix~rc"), Assign: L("")}, {Kind: "branch", U: T(1), Branch: L("hotfix~rc"), Assign: L("")},
			{Kind: "branch", U: T(1), Branch: L("~1"), Assign: L("")}, {Kind: "branch", U: T(1), Branch: L("~1"), Assign: L("")},
			{Kind: "branch", U: T(1), Branch: L("b1~0"), Assign: L("")}, {Kind: "branch", U: T(1), Branch: L("b1~0"), Assign: L("")}},
		// one assigned uuid with upper-case hex digits offered at every entry point: the second and
		// later uses of the same string are duplicates; its lower-case spelling is another uuid
		{{Kind: "newrepo", Root: sp(L("ABCDEF0123456789ABCDEF0123456789"))}, {Kind: "commit", U: T(1)},
			{Kind: "newversion", U: T(1), Assign: L("ABCDEF0123456789ABCDEF0123456789")},
			{Kind: "branch", U: T(1), Branch: L("x"), Assign: L("ABCDEF0123456789ABCDEF0123456789")},
			{Kind: "newrepo", Root: sp(L("ABCDEF0123456789ABCDEF0123456789"))},
			{Kind: "newversion", U: T(1), Assign: L("abcdef0123456789abcdef0123456789")},
			{Kind: "branch", U: T(1), Branch: L("y"), Assign: L("AbCdEf0123456789aBcDeF0123456789")},
			{Kind: "newrepo", Root: sp(L("AbCdEf0123456789aBcDeF0123456789"))},
			{Kind: "newrepo", Root: sp(L("FFFFFFFFFFFFFFFFFFFFFFFFFFFFFFFF"))},
			{Kind: "newrepo", Root: sp(L("ffffffffffffffffffffffffffffffff"))},
			{Kind: "commit", U: L("FFFFFFFFFFFFFFFFFFFFFFFFFFFFFFFF")},
			{Kind: "branch", U: L("FFFFFFFFFFFFFFFFFFFFFFFFFFFFFFFF"), Branch: L("z"), Assign: L("ffffffffffffffffffffffffffffffff")},
			{Kind: "branch", U: L("FFFFFFFFFFFFFFFFFFFFFFFFFFFFFFFF"), Branch: L("w"), Assign: L("EEEEEEEEEEEEEEEEEEEEEEEEEEEEEEEE")},
			{Kind: "newrepo", Root: sp(L("EEEEEEEEEEEEEEEEEEEEEEEEEEEEEEEE"))}},
		// resolve refused after it created deletion nodes
		with(Req{Kind: "newdata", U: T(3), Type: "keyvalue", Name: "d1"},
			Req{Kind: "newversion", U: T(2), Assign: L("")},
			Req{Kind: "putkey", U: T(3), Name: "d1", Key: "k"},
			Req{Kind: "putkey", U: T(4), Name: "d1", Key: "k"},
			Req{Kind: "commit", U: T(3)}, Req{Kind: "commit", U: T(4)},
			Req{Kind: "resolve", U: T(1), Data: []string{"d1", "nosuchdata"}, Parents: []SX{T(4), T(3)}},
			Req{Kind: "resolve", U: T(1), Data: []string{"d1"}, Parents: []SX{T(4), T(3), T(3)}},
			Req{Kind: "resolve", U: T(1), Data: []string{"d1"}, Parents: []SX{T(4), T(3)}}),
	}
}

// ---------- exhaustive small scope (thorough tier)
//
// Every sequence of up to enumDepth requests over an alphabet of request shapes, each shape resolved
// against the state it meets (so the same letter is a different concrete request in different
// states), after a two-request prelude (new repo, commit root).  Generated UUIDs are written as
// (cu <version id>): the shapes use full UUIDs only, so the behaviour does not depend on the random
// hex digits, and the observation of a prefix is the same in every run that passes through it: it is
// emitted once, as a named step, and shared by all sequences that extend it.

const enumDepth = 3

var enumShapes = []string{"commit-open", "newversion-head", "branch-fresh", "branch-b1", "tag-fresh",
	"tag-root-uuid", "merge-two", "merge-with-open", "merge-repeated", "newversion-open", "delrepo", "commit-unknown"}

func shapeReq(k int, sn *Snap, ctr *int) Req {
	locked := filterNodes(sn.Nodes, func(n Node) bool { return n.Locked })
	open := filterNodes(sn.Nodes, func(n Node) bool { return !n.Locked })
	first := func(ns []Node) SX {
		if len(ns) == 0 {
			return L("nosuchnode")
		}
		return T(ns[0].VersionID)
	}
	last := func(ns []Node) SX {
		if len(ns) == 0 {
			return L("nosuchnode")
		}
		return T(ns[len(ns)-1].VersionID)
	}
	*ctr++
	switch enumShapes[k] {
	case "commit-open":
		return Req{Kind: "commit", U: first(open)}
	case "newversion-head":
		return Req{Kind: "newversion", U: last(locked), Assign: L("")}
	case "branch-fresh":
		return Req{Kind: "branch", U: first(locked), Branch: L("e" + strconv.Itoa(*ctr)), Assign: L("")}
	case "branch-b1":
		return Req{Kind: "branch", U: last(locked), Branch: L("b1"), Assign: L("")}
	case "tag-fresh":
		return Req{Kind: "tag", U: last(locked), Tag: L("g" + strconv.Itoa(*ctr))}
	case "tag-root-uuid":
		return Req{Kind: "tag", U: last(locked), Tag: T(1)}
	case "merge-two":
		ps := []SX{last(locked), first(locked)}
		if len(locked) >= 2 {
			ps = []SX{T(locked[len(locked)-1].VersionID), T(locked[len(locked)-2].VersionID)}
		}
		return Req{Kind: "merge", U: ps[0], MType: "conflict-free", Parents: ps}
	case "merge-with-open":
		return Req{Kind: "merge", U: last(locked), MType: "conflict-free", Parents: []SX{last(locked), first(open)}}
	case "merge-repeated":
		return Req{Kind: "merge", U: last(locked), MType: "conflict-free", Parents: []SX{last(locked), last(locked)}}
	case "newversion-open":
		return Req{Kind: "newversion", U: first(open), Assign: L("")}
	case "delrepo":
		return Req{Kind: "delrepo", U: T(1)}
	default:
		return Req{Kind: "commit", U: L("0123456789abcdef0123456789abcdef")}
	}
}

func enumerate(run *lib.Run, total map[string]int) int {
	prelude := []Req{{Kind: "newrepo"}, {Kind: "commit", U: T(1)}}
	named := map[string]bool{} // steps already emitted as shared definitions
	var defs []string
	count := 0
	var rec func(path []int)
	rec = func(path []int) {
		if len(path) == enumDepth {
			ctr := 0
			so := runSeqMode(lib.NewRand(1), true, func(w *world, sn *Snap, i int) (Req, bool) {
				if i < len(prelude) {
					return prelude[i], true
				}
				if i-len(prelude) < len(path) {
					return shapeReq(path[i-len(prelude)], sn, &ctr), true
				}
				return Req{}, false
			})
			if len(so.stepTerms) != len(prelude)+enumDepth {
				panic("enumeration: a step was skipped")
			}
			// name the steps of every proper prefix the first time they are seen
			var parts []string
			for j := 0; j < len(so.stepTerms)-1; j++ {
				name := "e"
				if j < len(prelude) {
					name = "e_p" + strconv.Itoa(j)
				} else {
					for _, k := range path[:j-len(prelude)+1] {
						name += "_" + strconv.Itoa(k)
					}
				}
				if !named[name] {
					named[name] = true
					defs = append(defs, fmt.Sprintf("Definition %s : step_obs := %s.", name, so.stepTerms[j]))
				}
				parts = append(parts, name)
			}
			parts = append(parts, so.stepTerms[len(so.stepTerms)-1])
			key := fmt.Sprintf("enum|%v", path)
			run.Add("enum", "(0%nat, ["+strings.Join(parts, "; ")+"])", jcase{Kind: "enum", Steps: so.steps}, key)
			for k, v := range so.kinds {
				total["enum:"+k] += v
			}
			count++
			return
		}
		for k := range enumShapes {
			rec(append(append([]int{}, path...), k))
		}
	}
	rec(nil)
	run.Header(defs...)
	return count
}

// the DAG of the C02 driver: root committed; V = newversion, committed; W = branch "side", committed;
// U = newversion V; a second newversion on V is refused; merge [V, W] is accepted, its node carries
// the empty branch name and becomes the head of the default branch; root:master~0 names it
func c02Case() []Req {
	return []Req{{Kind: "newrepo"}, {Kind: "commit", U: T(1)}, {Kind: "newversion", U: T(1), Assign: L("")}, {Kind: "commit", U: T(2)},
		{Kind: "branch", U: T(1), Branch: L("side"), Assign: L("")}, {Kind: "commit", U: T(3)},
		{Kind: "newversion", U: T(2), Assign: L("")}, {Kind: "newversion", U: T(2), Assign: L("")},
		{Kind: "merge", U: T(2), MType: "conflict-free", Parents: []SX{T(2), T(3)}},
		{Kind: "newversion", U: T(2), Assign: L("")},
		{Kind: "note", U: Cat(T(1), L(":master~0"))}, {Kind: "note", U: Cat(T(1), L(":master~0"))},
		{Kind: "note", U: Cat(T(1), L(":master~0"))}, {Kind: "note", U: Cat(T(1), L(":master~0"))},
		{Kind: "commit", U: Cat(T(1), L(":master~0"))}, {Kind: "commit", U: Cat(T(1), L(":master~0"))},
		{Kind: "commit", U: Cat(T(1), L(":master~0"))}}
}

// round 4: hide-branch, make-master, POST repo info
func xcorpus() [][]Req {
	sp := func(s SX) *SX { return &s }
	// root 1 committed; 2 = newversion (master), 3 = branch a, 4 = branch b; 2 and 3 committed;
	// 5 = newversion on 2 (master), 6 = newversion on 3 (a)
	base := []Req{{Kind: "newrepo"}, {Kind: "commit", U: T(1)}, {Kind: "newversion", U: T(1), Assign: L("")},
		{Kind: "branch", U: T(1), Branch: L("a"), Assign: L("")}, {Kind: "branch", U: T(1), Branch: L("b"), Assign: L("")},
		{Kind: "commit", U: T(2)}, {Kind: "commit", U: T(3)},
		{Kind: "newversion", U: T(2), Assign: L("")}, {Kind: "newversion", U: T(3), Assign: L("")}}
	with := func(more ...Req) []Req { return append(append([]Req{}, base...), more...) }
	return [][]Req{
		// alias / description: accepted for every kind of reference, refused for unknown ones, nothing else moves
		with(Req{Kind: "repoinfo", U: T(1), Name: "al", New: "de"}, Req{Kind: "repoinfo", U: P(6, 9), Name: "", New: ""},
			Req{Kind: "repoinfo", U: Cat(T(1), L(":a")), Name: "x", New: "y"}, Req{Kind: "repoinfo", U: L("zz"), Name: "x", New: "y"},
			Req{Kind: "restart"}, Req{Kind: "repoinfo", U: T(4), Name: "al2", New: "de2"}),
		// hide-branch of branches nothing hangs off: the nodes and their ids are gone (also after a
		// restart), the names and the UUIDs can be used again; refused: "", unknown reference
		with(Req{Kind: "hidebranch", U: T(1), Branch: L("")}, Req{Kind: "hidebranch", U: L("zz"), Branch: L("a")},
			Req{Kind: "hidebranch", U: T(4), Branch: L("b")}, Req{Kind: "note", U: T(4)}, Req{Kind: "commit", U: P(4, 10)},
			Req{Kind: "hidebranch", U: T(6), Branch: L("a")}, Req{Kind: "note", U: Cat(T(1), L(":a"))},
			Req{Kind: "hidebranch", U: T(1), Branch: L("nosuchbranch")}, Req{Kind: "hidebranch", U: T(1), Branch: L("master")},
			Req{Kind: "restart"}, Req{Kind: "note", U: T(3)},
			Req{Kind: "branch", U: T(1), Branch: L("a"), Assign: T(3)}, Req{Kind: "newrepo", Root: sp(T(6))},
			Req{Kind: "restart"}, Req{Kind: "commit", U: T(3)}),
		// hide-branch of a branch another branch hangs off (finding C07-hide-branch-orphans)
		with(Req{Kind: "branch", U: T(3), Branch: L("c"), Assign: L("")}, Req{Kind: "hidebranch", U: T(1), Branch: L("a")}),
		// ... and of a branch a merge node hangs off
		with(Req{Kind: "merge", U: T(1), MType: "conflict-free", Parents: []SX{T(2), T(3)}}, Req{Kind: "hidebranch", U: T(1), Branch: L("a")}),
		// make-master: a becomes the default branch, the old master chain 2-5 is renamed; refused
		// before: "", a node of the default branch, the root, an unknown reference
		with(Req{Kind: "makemaster", U: T(3), Branch: L("")}, Req{Kind: "makemaster", U: T(2), Branch: L("old")},
			Req{Kind: "makemaster", U: T(1), Branch: L("old")}, Req{Kind: "makemaster", U: L("zz"), Branch: L("old")},
			Req{Kind: "makemaster", U: T(3), Branch: L("old")},
			Req{Kind: "note", U: Cat(T(1), L(":master"))}, Req{Kind: "note", U: Cat(T(1), L(":old~1"))}, Req{Kind: "note", U: Cat(T(1), L(":a"))},
			Req{Kind: "restart"}, Req{Kind: "commit", U: Cat(T(1), L(":master"))}, Req{Kind: "newversion", U: T(6), Assign: L("")},
			Req{Kind: "commit", U: T(5)}, Req{Kind: "newversion", U: Cat(T(1), L(":old")), Assign: L("")},
			Req{Kind: "makemaster", U: T(2), Branch: L("older")}, Req{Kind: "hidebranch", U: T(1), Branch: L("older")}),
		// make-master from the middle of a branch (6 is the second node of a; its parent 3 has no child on the default branch)
		with(Req{Kind: "makemaster", U: T(6), Branch: L("old")}),
		// make-master with the name "master", a name in use, the promoted branch's own name (finding C07-make-master-names)
		with(Req{Kind: "makemaster", U: T(3), Branch: L("master")}),
		with(Req{Kind: "makemaster", U: T(3), Branch: L("b")}),
		with(Req{Kind: "makemaster", U: T(3), Branch: L("a")}, Req{Kind: "note", U: Cat(T(1), L(":a"))}, Req{Kind: "note", U: Cat(T(1), L(":master"))}),
		// make-master when the old master chain holds a merge node
		with(Req{Kind: "commit", U: T(5)}, Req{Kind: "commit", U: T(6)},
			Req{Kind: "merge", U: T(1), MType: "conflict-free", Parents: []SX{T(5), T(6)}}, Req{Kind: "makemaster", U: T(3), Branch: L("old")}),
	}
}

func main() {
	o := lib.ParseOpts()
	dv.Quiet()
	run := lib.NewRun("C07", o)
	run.Header("From DV Require Import Base.Prelude Model.Repo Model.RepoExt Model.RepoRun.",
		"From Coq Require Import String.", "Local Open Scope string_scope.", "Local Open Scope N_scope.")

	total := map[string]int{}
	bytes := 0
	add := func(kind string, so seqOut) {
		key := fmt.Sprintf("%s|%v|%d", kind, so.kinds, so.maxNode)
		run.Add(kind, fmt.Sprintf("(0%%nat, %s)", so.term), jcase{Kind: kind, Steps: so.steps}, key)
		bytes += len(so.term)
		for k, v := range so.kinds {
			total["req:"+k] += v
		}
		total["requests"] += so.nReq
		total[fmt.Sprintf("nodes<=%d", (so.maxNode/5+1)*5)]++
	}
	replayList := func(steps []Req) func(w *world, sn *Snap, i int) (Req, bool) {
		return func(w *world, sn *Snap, i int) (Req, bool) {
			if i >= len(steps) {
				return Req{}, false
			}
			return steps[i], true
		}
	}

	if o.Replay != "" {
		var c jcase
		if err := lib.LoadReplay(o.Replay, &c); err != nil {
			fmt.Fprintln(os.Stderr, "replay:", err)
			os.Exit(2)
		}
		add("replay", runSeq(lib.NewRand(o.Seed), replayList(c.Steps)))
		run.Finish("kcase", "replay", tail)
		return
	}

	for _, steps := range corpus() {
		add("corpus", runSeq(lib.NewRand(o.Seed), replayList(steps)))
	}
	add("corpus", runSeq(lib.NewRand(o.Seed), replayList(c02Case())))
	for _, steps := range xcorpus() {
		add("corpus", runSeq(lib.NewRand(o.Seed), replayList(steps)))
	}
	budget, maxSeq := 145000, 300
	if o.Thorough() {
		budget, maxSeq = 700000, 3000
	}
	if o.N > 0 {
		maxSeq = o.N
	}
	rng := lib.NewRand(o.Seed)
	hostile := 0
	genStats := map[string]int{}
	for i := 0; i < maxSeq && bytes < budget; i++ {
		g := &gen{rng: rng, n: 14 + rng.Intn(22), hostile: 0.3, passOf: map[string]string{}, stats: map[string]int{}}
		so := runSeq(rng, func(w *world, sn *Snap, i int) (Req, bool) { return g.next(w, sn, i) })
		add("random", so)
		hostile += g.stats["hostile"]
		for k, v := range g.stats {
			if k != "hostile" {
				genStats[k] += v
			}
		}
	}
	for k, v := range genStats {
		run.Dist["gen:"+k] = v
	}
	if o.Thorough() || os.Getenv("C07_ENUM") != "" {
		n := enumerate(run, total)
		run.Extra["exhaustive"] = true
		run.Extra["exhaustive_scope"] = fmt.Sprintf("all %d sequences of %d requests over %d request shapes (%s) after [newrepo; commit root]; their prefixes cover the shorter sequences",
			n, enumDepth, len(enumShapes), strings.Join(enumShapes, ", "))
	}
	for k, v := range total {
		run.Dist[k] = v
	}
	run.Dist["hostile_arguments"] = hostile
	run.Extra["cases_bytes"] = bytes
	run.Finish("kcase",
		"request sequences on a fresh datastore; a sequence is distinct by (kind, multiset of request kind x response class, node count)",
		tail)
}

const tail = `
Definition spec_fail := Eval vm_compute in c07_spec_fail cases.
Definition model_mismatch := Eval vm_compute in c07_model_mismatch cases.
`
